// Stand-alone driver around the real tetrisched STRL classes (C20).
//
// Built by harness/impl/strl_cxx.py on EVERY check run from
//   $ERDOS_REPO/schedulers/tetrisched/src/{Types,Partition,SolverModel,
//   CapacityConstraint,Expression,OptimizationPasses}.cpp
// with the header-only sequential TBB stand-in in cxx/tbb_shim/.  No solver is
// linked: the driver mirrors Scheduler::registerSTRL (capacity map, pre passes,
// parse, post passes), dumps the SolverModel, and - when the case carries
// assignments - rebuilds the tree, recompiles, sets the variable values (by
// creation index) and dumps populateResults().
//
// Input: a line-oriented text format on stdin (see harness/impl/strl_cxx.py),
// output: one JSON object per case on stdout, each line prefixed by "@@ " so
// that anything the library itself prints to stdout can be ignored.
#include <signal.h>
#include <sys/wait.h>
#include <unistd.h>

#include <algorithm>
#include <cmath>
#include <cstdio>
#include <iostream>
#include <map>
#include <sstream>
#include <string>
#include <typeinfo>
#include <vector>

#include "tetrisched/CapacityConstraint.hpp"
#include "tetrisched/Expression.hpp"
#include "tetrisched/OptimizationPasses.hpp"
#include "tetrisched/Partition.hpp"
#include "tetrisched/SolverModel.hpp"

namespace tetrisched {
// SolverModel's constructor and the internals of Variable / Constraint /
// ObjectiveFunction are private; the headers befriend the (forward declared)
// solver classes.  GoogleCPSolver.cpp is not linked, so we define the friend.
class GoogleCPSolver {
 public:
  static SolverModelPtr makeModel() {
    return std::shared_ptr<SolverModel>(new SolverModel());
  }
  static std::vector<VariablePtr> variables(const SolverModelPtr& m) {
    std::vector<VariablePtr> out;
    for (auto& [id, v] : m->modelVariables) out.push_back(v);
    std::sort(out.begin(), out.end(),
              [](const VariablePtr& a, const VariablePtr& b) {
                return a->getId() < b->getId();
              });
    return out;
  }
  static std::vector<ConstraintPtr> constraints(const SolverModelPtr& m) {
    std::vector<ConstraintPtr> out;
    for (auto& [id, c] : m->modelConstraints) out.push_back(c);
    std::sort(out.begin(), out.end(),
              [](const ConstraintPtr& a, const ConstraintPtr& b) {
                return a->getId() < b->getId();
              });
    return out;
  }
  static ObjectiveFunctionPtr objective(const SolverModelPtr& m) {
    return m->objectiveFunction;
  }
  static int varType(const VariablePtr& v) { return (int)v->variableType; }
  static void setValue(const VariablePtr& v, double x) { v->solutionValue = x; }
  static const auto& terms(const ConstraintPtr& c) { return c->terms; }
  static double rhs(const ConstraintPtr& c) { return c->rightHandSide; }
  static int ctype(const ConstraintPtr& c) { return (int)c->constraintType; }
  static bool lazy(const ConstraintPtr& c) {
    return c->attributes.count(ConstraintAttribute::LAZY_CONSTRAINT) > 0;
  }
  static const auto& terms(const ObjectiveFunctionPtr& o) { return o->terms; }
  static int otype(const ObjectiveFunctionPtr& o) {
    return (int)o->objectiveType;
  }
};
}  // namespace tetrisched

using namespace tetrisched;
using G = tetrisched::GoogleCPSolver;

// ---------------------------------------------------------------- JSON out
static std::string jstr(const std::string& s) {
  std::string o = "\"";
  for (char c : s) {
    if (c == '"' || c == '\\') {
      o += '\\';
      o += c;
    } else if (c == '\n') {
      o += "\\n";
    } else if ((unsigned char)c < 0x20) {
      char b[8];
      snprintf(b, sizeof b, "\\u%04x", c);
      o += b;
    } else {
      o += c;
    }
  }
  return o + "\"";
}
static std::string jnum(double x) {
  if (std::isnan(x)) return "\"nan\"";
  if (std::isinf(x)) return x > 0 ? "\"inf\"" : "\"-inf\"";
  if (x == std::floor(x) && std::fabs(x) < 9e15) {
    char b[40];
    snprintf(b, sizeof b, "%lld", (long long)x);
    return b;
  }
  char b[40];
  snprintf(b, sizeof b, "%.17g", x);
  return b;
}
template <typename T>
static std::string jopt(const std::optional<T>& o) {
  return o.has_value() ? jnum((double)o.value()) : "null";
}

// ---------------------------------------------------------------- case data
struct NodeSpec {
  int id = 0;
  std::string kind, name, strategy;
  std::vector<int> children;
  std::vector<uint32_t> parts;                       // choose-like
  std::vector<std::pair<uint32_t, uint32_t>> allocs;  // alloc
  long n = 0, start = 0, dur = 0, end = 0, gran = 1;
  double utility = 0, factor = 1;
  bool disregard = false;
};
struct PartSpec {
  uint32_t id;
  std::string name;
  size_t quantity;
};
struct CaseSpec {
  std::string id;
  std::vector<PartSpec> parts;
  std::vector<uint32_t> avail;
  long now = 0, gran = 1;
  int passes = 0;  // 1 critical path, 2 capacity purge, 4 dynamic discretization
  long minDisc = 1, maxDisc = 5;
  double occThreshold = 0.8;
  bool overlap = false;
  std::vector<NodeSpec> nodes;
  int root = -1;
  std::vector<std::vector<double>> assigns;
};

struct Built {
  std::map<uint32_t, PartitionPtr> partObjs;
  std::vector<ExpressionPtr> nodes;  // by position in CaseSpec::nodes
  ExpressionPtr root;
  SolverModelPtr model;
  CapacityConstraintMapPtr capMap;
  std::string error;  // exception during construction / passes / parse
};

static std::string excName(const std::exception& e) {
  if (dynamic_cast<const exceptions::ExpressionConstructionException*>(&e))
    return "ExpressionConstructionException";
  if (dynamic_cast<const exceptions::ExpressionSolutionException*>(&e))
    return "ExpressionSolutionException";
  if (dynamic_cast<const exceptions::SolverException*>(&e))
    return "SolverException";
  if (dynamic_cast<const exceptions::RuntimeException*>(&e))
    return "RuntimeException";
  return std::string("std::") + typeid(e).name();
}

static Partitions mkPartitions(Built& b, const std::vector<uint32_t>& ids) {
  Partitions p;
  for (auto id : ids) p.addPartition(b.partObjs.at(id));
  return p;
}

// Mirrors Scheduler::registerSTRL.
static void build(const CaseSpec& cs, Built& b) {
  try {
    for (auto& p : cs.parts)
      b.partObjs[p.id] = std::make_shared<Partition>(p.id, p.name, p.quantity);
    std::map<int, ExpressionPtr> byId;
    for (auto& n : cs.nodes) {
      ExpressionPtr e;
      if (n.kind == "choose") {
        e = std::make_shared<ChooseExpression>(
            n.name, n.strategy, mkPartitions(b, n.parts), (uint32_t)n.n,
            (Time)n.start, (Time)n.dur, n.utility);
      } else if (n.kind == "wchoose") {
        e = std::make_shared<WindowedChooseExpression>(
            n.name, mkPartitions(b, n.parts), (uint32_t)n.n, (Time)n.start,
            (Time)n.dur, (Time)n.end, (Time)n.gran, n.utility);
      } else if (n.kind == "mchoose") {
        e = std::make_shared<MalleableChooseExpression>(
            n.name, mkPartitions(b, n.parts), (uint32_t)n.n, (Time)n.start,
            (Time)n.end, (Time)n.gran, n.utility);
      } else if (n.kind == "alloc") {
        PriorPlacement pp;
        for (auto& [pid, q] : n.allocs)
          pp.push_back({b.partObjs.at(pid), q});
        e = std::make_shared<AllocationExpression>(n.name, pp, (Time)n.start,
                                                   (Time)n.dur);
      } else if (n.kind == "obj") {
        e = std::make_shared<ObjectiveExpression>(n.name);
      } else if (n.kind == "min") {
        e = std::make_shared<MinExpression>(n.name);
      } else if (n.kind == "max") {
        e = std::make_shared<MaxExpression>(n.name);
      } else if (n.kind == "lt") {
        e = std::make_shared<LessThanExpression>(n.name);
      } else if (n.kind == "scale") {
        e = std::make_shared<ScaleExpression>(n.name, n.factor, n.disregard);
      } else {
        throw std::runtime_error("bad node kind " + n.kind);
      }
      for (int c : n.children) e->addChild(byId.at(c));
      byId[n.id] = e;
      b.nodes.push_back(e);
    }
    b.root = byId.at(cs.root);
    // Scheduler::registerSTRL (Scheduler.cpp:66-71)
    if (b.root->getType() != ExpressionType::EXPR_OBJECTIVE) {
      throw exceptions::ExpressionConstructionException(
          "The expression passed to the scheduler is not an objective function.");
    }
    b.model = G::makeModel();
    b.capMap = std::make_shared<CapacityConstraintMap>((Time)cs.gran, cs.overlap);
    auto cfg = std::make_shared<OptimizationPassConfig>();
    cfg->minDiscretization = (Time)cs.minDisc;
    cfg->maxDiscretization = (Time)cs.maxDisc;
    cfg->maxOccupancyThreshold = (float)cs.occThreshold;
    OptimizationPassRunner runner(cfg, false);
    if (cs.passes & 1)
      runner.addOptimizationPass(OptimizationPassCategory::CRITICAL_PATH_PASS);
    if (cs.passes & 4)
      runner.addOptimizationPass(
          OptimizationPassCategory::DYNAMIC_DISCRETIZATION_PASS);
    if (cs.passes & 2)
      runner.addOptimizationPass(
          OptimizationPassCategory::CAPACITY_CONSTRAINT_PURGE_PASS);
    runner.runPreTranslationPasses((Time)cs.now, b.root, b.capMap);
    b.root->parse(b.model, mkPartitions(b, cs.avail), b.capMap, (Time)cs.now);
    runner.runPostTranslationPasses((Time)cs.now, b.root, b.capMap);
  } catch (const std::exception& e) {
    b.error = excName(e) + ": " + e.what();
  }
}

static std::string dumpModel(Built& b) {
  std::ostringstream o;
  auto vars = G::variables(b.model);
  std::map<uint32_t, int> idx;
  o << "\"vars\":[";
  for (size_t i = 0; i < vars.size(); i++) {
    auto& v = vars[i];
    idx[v->getId()] = (int)i;
    const char* t = G::varType(v) == VAR_INTEGER     ? "I"
                    : G::varType(v) == VAR_INDICATOR ? "B"
                                                     : "C";
    if (i) o << ",";
    o << "{\"name\":" << jstr(v->getName()) << ",\"type\":\"" << t
      << "\",\"lb\":" << jopt(v->getLowerBound())
      << ",\"ub\":" << jopt(v->getUpperBound()) << "}";
  }
  o << "],\"cons\":[";
  auto cons = G::constraints(b.model);
  for (size_t i = 0; i < cons.size(); i++) {
    auto& c = cons[i];
    const char* op = G::ctype(c) == CONSTR_LE   ? "LE"
                     : G::ctype(c) == CONSTR_EQ ? "EQ"
                                                : "GE";
    if (i) o << ",";
    o << "{\"name\":" << jstr(c->getName()) << ",\"op\":\"" << op
      << "\",\"rhs\":" << jnum(G::rhs(c))
      << ",\"active\":" << (c->isActive() ? "true" : "false")
      << ",\"lazy\":" << (G::lazy(c) ? "true" : "false") << ",\"terms\":[";
    bool first = true;
    for (auto& [coef, var] : G::terms(c)) {
      if (!first) o << ",";
      first = false;
      int vi = -1;
      if (var) {
        auto it = idx.find(var->getId());
        vi = it == idx.end() ? -2 : it->second;  // -2: variable not in model
      }
      o << "[" << jnum(coef) << "," << vi << "]";
    }
    o << "]}";
  }
  o << "],\"obj\":";
  auto obj = G::objective(b.model);
  if (!obj) {
    o << "null";
  } else {
    o << "{\"sense\":\"" << (G::otype(obj) == OBJ_MAXIMIZE ? "max" : "min")
      << "\",\"ub\":" << jopt(obj->getUpperBound()) << ",\"terms\":[";
    bool first = true;
    for (auto& [coef, var] : G::terms(obj)) {
      if (!first) o << ",";
      first = false;
      int vi = -1;
      if (var) {
        auto it = idx.find(var->getId());
        vi = it == idx.end() ? -2 : it->second;
      }
      o << "[" << jnum(coef) << "," << vi << "]";
    }
    o << "]}";
  }
  // Per node parse result type (1 = NO_UTILITY, 2 = UTILITY, 0 = never parsed).
  o << ",\"parsed\":[";
  for (size_t i = 0; i < b.nodes.size(); i++) {
    if (i) o << ",";
    auto pr = b.nodes[i]->getParsedResult();
    o << (pr.has_value() ? (int)pr.value()->type : 0);
  }
  o << "]";
  return o.str();
}

static std::string dumpPlacement(const PlacementPtr& p) {
  std::ostringstream o;
  o << "{\"name\":" << jstr(p->getName());
  bool placed = false;
  try {
    placed = p->isPlaced();
    o << ",\"placed\":" << (placed ? "true" : "false");
  } catch (const std::exception& e) {
    o << ",\"placed\":" << jstr(excName(e));
  }
  o << ",\"start\":" << jopt(p->getStartTime())
    << ",\"end\":" << jopt(p->getEndTime()) << ",\"alloc\":[";
  std::vector<std::tuple<uint32_t, Time, uint32_t>> al;
  for (auto& [pid, s] : p->getPartitionAllocations())
    for (auto& [t, q] : s) al.push_back({pid, t, q});
  std::sort(al.begin(), al.end());
  for (size_t i = 0; i < al.size(); i++) {
    if (i) o << ",";
    o << "[" << std::get<0>(al[i]) << "," << std::get<1>(al[i]) << ","
      << std::get<2>(al[i]) << "]";
  }
  o << "]}";
  return o.str();
}

static std::string dumpSolution(const SolutionResultPtr& s) {
  std::ostringstream o;
  o << "{\"type\":" << (int)s->type << ",\"start\":" << jopt(s->startTime)
    << ",\"end\":" << jopt(s->endTime) << ",\"utility\":" << jopt(s->utility)
    << ",\"placements\":[";
  std::vector<std::string> names;
  for (auto& [n, p] : s->placements) names.push_back(n);
  std::sort(names.begin(), names.end());
  for (size_t i = 0; i < names.size(); i++) {
    if (i) o << ",";
    o << dumpPlacement(s->placements.at(names[i]));
  }
  o << "],\"satisfied\":[";
  bool first = true;
  for (auto& n : s->satsifiedExpressionNames) {
    if (!first) o << ",";
    first = false;
    o << jstr(n);
  }
  o << "]}";
  return o.str();
}

static std::string runAssignment(const CaseSpec& cs,
                                 const std::vector<double>& values) {
  Built b;
  build(cs, b);
  std::ostringstream o;
  if (!b.error.empty()) return "{\"err\":" + jstr(b.error) + "}";
  auto vars = G::variables(b.model);
  if (vars.size() != values.size())
    return "{\"err\":\"assignment-length " + std::to_string(values.size()) +
           " != " + std::to_string(vars.size()) + "\"}";
  for (size_t i = 0; i < vars.size(); i++) G::setValue(vars[i], values[i]);
  try {
    auto sol = b.root->populateResults(b.model);
    o << "{\"err\":null,\"objective_value\":"
      << jnum(b.model->getObjectiveValue()) << ",\"root\":" << dumpSolution(sol)
      << ",\"nodes\":[";
    for (size_t i = 0; i < b.nodes.size(); i++) {
      if (i) o << ",";
      auto ns = b.nodes[i]->getSolution();
      if (!ns.has_value()) {
        o << "null";
      } else {
        auto& s = ns.value();
        o << "{\"type\":" << (int)s->type << ",\"start\":" << jopt(s->startTime)
          << ",\"end\":" << jopt(s->endTime)
          << ",\"utility\":" << jopt(s->utility) << "}";
      }
    }
    o << "]}";
  } catch (const std::exception& e) {
    return "{\"err\":" + jstr(excName(e) + ": " + e.what()) + "}";
  }
  return o.str();
}

static void runCase(const CaseSpec& cs) {
  std::ostringstream o;
  o << "{\"case\":" << jstr(cs.id);
  {
    Built b;
    build(cs, b);
    if (!b.error.empty()) {
      o << ",\"err\":" << jstr(b.error);
    } else {
      o << ",\"err\":null," << dumpModel(b);
    }
  }
  o << ",\"results\":[";
  for (size_t i = 0; i < cs.assigns.size(); i++) {
    if (i) o << ",";
    o << runAssignment(cs, cs.assigns[i]);
  }
  o << "]}";
  std::cout << "@@ " << o.str() << "\n";
}

// Every case runs in a forked child with a wall-clock budget, so that a crash
// or a non-terminating loop inside the library costs one case, not the batch.
static volatile pid_t g_child = 0;
static void onAlarm(int) {
  if (g_child > 0) kill(g_child, SIGKILL);
}
static int g_budget_s = 4;
static void guardedRun(const CaseSpec& cs) {
  if (g_budget_s <= 0) {  // no watchdog requested
    runCase(cs);
    return;
  }
  std::cout.flush();
  pid_t pid = fork();
  if (pid == 0) {
    runCase(cs);
    std::cout.flush();
    _exit(0);
  }
  g_child = pid;
  signal(SIGALRM, onAlarm);
  alarm(g_budget_s);
  int status = 0;
  while (waitpid(pid, &status, 0) < 0) {
  }
  alarm(0);
  g_child = 0;
  if (WIFSIGNALED(status)) {
    int sig = WTERMSIG(status);
    std::string what = sig == SIGKILL ? "TIMEOUT: no reply within " + std::to_string(g_budget_s) + " s"
                                      : "CRASH: signal " + std::to_string(sig);
    std::cout << "@@ {\"case\":" << jstr(cs.id) << ",\"err\":" << jstr(what)
              << ",\"results\":[]}\n";
    std::cout.flush();
  }
}

// ---------------------------------------------------------------- input
int main(int argc, char** argv) {
  if (argc > 1) g_budget_s = atoi(argv[1]);
  std::ios::sync_with_stdio(false);
  std::string line;
  CaseSpec cs;
  bool open = false;
  while (std::getline(std::cin, line)) {
    std::istringstream in(line);
    std::string w;
    if (!(in >> w)) continue;
    if (w == "case") {
      cs = CaseSpec();
      in >> cs.id;
      open = true;
    } else if (w == "p") {
      PartSpec p;
      in >> p.id >> p.name >> p.quantity;
      cs.parts.push_back(p);
    } else if (w == "avail") {
      uint32_t x;
      while (in >> x) cs.avail.push_back(x);
    } else if (w == "now") {
      in >> cs.now;
    } else if (w == "gran") {
      in >> cs.gran;
    } else if (w == "overlap") {
      int x;
      in >> x;
      cs.overlap = x != 0;
    } else if (w == "passes") {
      in >> cs.passes >> cs.minDisc >> cs.maxDisc >> cs.occThreshold;
    } else if (w == "node") {
      NodeSpec n;
      in >> n.id >> n.kind >> n.name;
      std::string key;
      while (in >> key) {
        if (key == "n") in >> n.n;
        else if (key == "start") in >> n.start;
        else if (key == "dur") in >> n.dur;
        else if (key == "end") in >> n.end;
        else if (key == "gran") in >> n.gran;
        else if (key == "u") in >> n.utility;
        else if (key == "f") in >> n.factor;
        else if (key == "strategy") in >> n.strategy;
        else if (key == "disregard") { int x; in >> x; n.disregard = x != 0; }
        else if (key == "parts") {
          int k; in >> k;
          for (int i = 0; i < k; i++) { uint32_t x; in >> x; n.parts.push_back(x); }
        } else if (key == "allocs") {
          int k; in >> k;
          for (int i = 0; i < k; i++) { uint32_t a, q; in >> a >> q; n.allocs.push_back({a, q}); }
        } else if (key == "ch") {
          int k; in >> k;
          for (int i = 0; i < k; i++) { int x; in >> x; n.children.push_back(x); }
        }
      }
      cs.nodes.push_back(n);
    } else if (w == "root") {
      in >> cs.root;
    } else if (w == "assign") {
      std::vector<double> v;
      double x;
      while (in >> x) v.push_back(x);
      cs.assigns.push_back(v);
    } else if (w == "end") {
      if (open) guardedRun(cs);
      open = false;
    }
  }
  std::cout.flush();
  return 0;
}
