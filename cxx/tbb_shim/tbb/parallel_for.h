// Sequential stand-in for tbb::parallel_for (verification harness only).
#pragma once
#include <cstddef>
#include "tbb/blocked_range.h"
namespace tbb {
template <typename Range, typename F>
void parallel_for(const Range& r, const F& f) {
  f(r);
}
}  // namespace tbb
