// Sequential stand-in for tbb::task_group: run() executes immediately.
#pragma once
#include <cstddef>
namespace tbb {
class task_group {
 public:
  template <typename F>
  void run(const F& f) { f(); }
  template <typename F>
  void run_and_wait(const F& f) { f(); }
  void wait() {}
};
}  // namespace tbb
