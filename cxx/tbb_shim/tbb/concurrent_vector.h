// Sequential stand-in for tbb::concurrent_vector (verification harness only).
#pragma once
#include <cstddef>
#include <vector>
namespace tbb {
template <typename T>
class concurrent_vector : public std::vector<T> {
 public:
  using std::vector<T>::vector;
};
}  // namespace tbb
