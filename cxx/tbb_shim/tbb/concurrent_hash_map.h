// Sequential stand-in for tbb::concurrent_hash_map (verification harness only).
// Backed by std::map so iteration order is deterministic (sorted by key).
#pragma once
#include <cstddef>
#include <functional>
#include <map>
#include <utility>
namespace tbb {
template <typename K>
struct tbb_hash_compare {
  static size_t hash(const K& k) { return std::hash<K>()(k); }
  static bool equal(const K& a, const K& b) { return a == b; }
};
template <typename K, typename V, typename HashCompare = tbb_hash_compare<K>>
class concurrent_hash_map {
  using map_t = std::map<K, V>;
  map_t m;

 public:
  using value_type = typename map_t::value_type;
  using iterator = typename map_t::iterator;
  using const_iterator = typename map_t::const_iterator;
  class const_accessor {
   protected:
    friend class concurrent_hash_map;
    value_type* p = nullptr;

   public:
    const value_type* operator->() const { return p; }
    const value_type& operator*() const { return *p; }
    bool empty() const { return p == nullptr; }
    void release() { p = nullptr; }
  };
  class accessor : public const_accessor {
   public:
    value_type* operator->() const { return this->p; }
    value_type& operator*() const { return *this->p; }
  };
  struct range_type {
    map_t* mp;
    iterator begin() const { return mp->begin(); }
    iterator end() const { return mp->end(); }
    bool empty() const { return mp->empty(); }
  };
  using const_range_type = range_type;

  concurrent_hash_map() = default;
  bool find(const_accessor& a, const K& k) const {
    auto it = const_cast<map_t&>(m).find(k);
    if (it == const_cast<map_t&>(m).end()) { a.p = nullptr; return false; }
    a.p = &*it;
    return true;
  }
  bool find(accessor& a, const K& k) {
    auto it = m.find(k);
    if (it == m.end()) { a.p = nullptr; return false; }
    a.p = &*it;
    return true;
  }
  bool insert(accessor& a, const K& k) {
    auto r = m.try_emplace(k);
    a.p = &*r.first;
    return r.second;
  }
  bool insert(const_accessor& a, const K& k) {
    auto r = m.try_emplace(k);
    a.p = &*r.first;
    return r.second;
  }
  template <typename P>
  bool insert(accessor& a, const std::pair<P, V>& kv) {
    auto r = m.insert(value_type(kv.first, kv.second));
    a.p = &*r.first;
    return r.second;
  }
  bool insert(const value_type& kv) { return m.insert(kv).second; }
  bool erase(const K& k) { return m.erase(k) > 0; }
  size_t size() const { return m.size(); }
  bool empty() const { return m.empty(); }
  void clear() { m.clear(); }
  iterator begin() { return m.begin(); }
  iterator end() { return m.end(); }
  const_iterator begin() const { return m.begin(); }
  const_iterator end() const { return m.end(); }
  range_type range() { return range_type{&m}; }
};
}  // namespace tbb
