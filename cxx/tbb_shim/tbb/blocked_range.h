#pragma once
#include <cstddef>
namespace tbb {
template <typename T>
class blocked_range {
  T b, e;

 public:
  blocked_range(T b_, T e_) : b(b_), e(e_) {}
  T begin() const { return b; }
  T end() const { return e; }
  bool empty() const { return !(b < e); }
};
}  // namespace tbb
