#!/bin/bash
# MANIFEST.setup_cmd: build the Lean library (models + proofs) and the driver, offline.
set -e
cd "$(dirname "$0")"
/venv/bin/python harness/gen_tables.py
cd lean
lake build
cd ..
# all property modules must load into one environment (no name clashes between slices)
tools/import_all.sh
