#!/usr/bin/env python3
"""Assemble MANIFEST.json and known_findings.json from their fragments and
validate the manifest against the schema when jsonschema is available."""
import json
import sys
from pathlib import Path

V = Path(__file__).resolve().parent.parent
ALL = [f"C{i:02d}" for i in range(1, 21)]


def main():
    base = json.loads((V / "manifest.d" / "_base.json").read_text())
    checks, claimed = [], set()
    for f in sorted((V / "manifest.d").glob("C*.json")):
        c = json.loads(f.read_text())
        checks.append(c)
        claimed.add(c["property_id"])
    na_reasons = json.loads((V / "manifest.d" / "_not_applicable.json").read_text())
    base["checks"] = checks
    base["not_applicable"] = [
        {"property_id": p, "reason": na_reasons.get(p, "check not built yet in this round; planned per DESIGN.md §3")}
        for p in ALL
        if p not in claimed
    ]
    (V / "MANIFEST.json").write_text(json.dumps(base, indent=1) + "\n")

    findings = []
    for f in sorted((V / "known_findings.d").glob("*.json")):
        findings.extend(json.loads(f.read_text()).get("findings", []))
    (V / "known_findings.json").write_text(
        json.dumps(
            {
                "comment": "Genuine defects of /repo found by the checks. status=known: recorded, not repaired (suppresses exactly the matching violation signatures, prints KNOWN-FINDING). status=fixed: repaired by the named 'fix:' commit; suppresses nothing. Assembled from known_findings.d/ by tools/assemble.py; never written at check run time.",
                "findings": findings,
            },
            indent=1,
        )
        + "\n"
    )
    try:
        import jsonschema

        schema = json.loads(Path("/root/.vp/MANIFEST.schema.json").read_text())
        jsonschema.validate(base, schema)
        print("MANIFEST.json valid;", len(checks), "checks,", len(findings), "findings")
    except ImportError:
        print("assembled (jsonschema not available for validation)")


if __name__ == "__main__":
    main()
