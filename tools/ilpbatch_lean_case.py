"""Print a world spec of harness/planners/ilpbatch.py as Lean source: the extracted `BInst`
and the solver's assignment as a `Var -> Int` function (used to write the witnesses of the
counterexample theorems in Props/C1x_IlpBatch.lean).

usage: /venv/bin/python tools/ilpbatch_lean_case.py <corpus index | replay.json> <leanName>
"""
import json
import sys

sys.dont_write_bytecode = True
sys.path.insert(0, str(__import__("pathlib").Path(__file__).resolve().parent.parent))
from harness import common  # noqa: E402
from harness.planners import ilpbatch  # noqa: E402


def lstr(s):
    return json.dumps(s)


def strat(s):
    return "⟨%d, %d, [%s]⟩" % (s["batch"], s["runtime"], ", ".join("(%s, %d)" % (lstr(r), q) for r, q in s["req"]))


STATE = {"VIRTUAL": ".virtual", "RELEASED": ".released", "SCHEDULED": ".scheduled", "RUNNING": ".running"}


def main():
    arg, name = sys.argv[1], sys.argv[2]
    spec = ilpbatch.corpus()[int(arg)] if arg.isdigit() else json.load(open(arg))["spec"]
    w, rec, case = ilpbatch.run_case(spec)
    inst = rec["inst"]
    case = dict(case, varmap=True)
    reply = common.run_driver([case])[0]
    out = []
    out.append(f"def {name} : BInst :=")
    out.append(f"  {{ now := {inst['now']}")
    out.append("    workers := [%s]" % ", ".join("⟨%s, %s, [%s]⟩" % (lstr(x["name"]), lstr(x["pool"]), ", ".join("(%s, %d)" % (lstr(r), q) for r, q in x["res"])) for x in inst["workers"]))
    ts = []
    for t in inst["tasks"]:
        ts.append("⟨%s, %s, %d, %s, %s, %d, %d, %s, %d, %d, %s⟩" % (lstr(t["uniq"]), lstr(t["name"]), t["ts"], lstr(t["graph"]), STATE.get(t["state"], ".other"), t["release"], t["deadline"], lstr(t["profile"]), t["prevW"], t["prevKey"], strat(t["prevStrat"])))
    out.append("    tasks := [%s]" % ",\n              ".join(ts))
    out.append(f"    nOffered := {inst['nOffered']}")
    out.append("    nodes := [%s]" % ", ".join("⟨%s, %s, %d, %s, %s⟩" % (lstr(n["uniq"]), lstr(n["name"]), n["ts"], lstr(n["graph"]), STATE.get(n["state"], ".other")) for n in inst["nodes"]))
    out.append("    edges := [%s]" % ", ".join("(%s, %s)" % (lstr(a), lstr(b)) for a, b in inst["edges"]))
    b = lambda x: "true" if x else "false"
    out.append(f"    enforceDeadlines := {b(inst['enforce_deadlines'])}, retract := {b(inst['retract'])}, releaseTaskgraphs := {b(inst['release_taskgraphs'])}, goalSlack := {b(inst['goal_slack'])}")
    out.append("    allowed0 := [%s]" % ", ".join(lstr(a) for a in inst["allowed0"]))
    out.append("    profiles := [%s] }" % ", ".join("⟨%s, [%s], [%s]⟩" % (lstr(p["name"]), ", ".join(strat(s) for s in p["strats"]), ", ".join(str(i) for i in p["order"])) for p in inst["profiles"]))
    print("\n".join(out))
    if case.get("sigma"):
        print(f"\ndef {name}Sigma : Var → Int")
        for lab, src in reply["varmap"]:
            v = case["sigma"].get(lab, 0)
            if v != 0:
                print(f"  | {src} => {v}")
        print("  | _ => 0")
    print("\n-- batches:", json.dumps(reply.get("batches")))
    print("-- decode:", json.dumps(reply.get("decode")))
    print("-- sat:", reply.get("sat"), "wf:", reply.get("wf"), "err:", reply.get("err"))


if __name__ == "__main__":
    main()
