#!/usr/bin/env python3
"""Seeded-change bookkeeping and runner.

  tools/seeded.py import <src_dir> <n> <id> <property>   copy patch_<n>.diff / demo_<n>.py / meta from a
                                                         seeding agent's _out/ into seeded/<id>/
  tools/seeded.py confirm <id>      in a scratch copy of /repo: tests pass with the patch, the demo exits 0
                                    on the clean tree and 1 on the patched tree
  tools/seeded.py run <id> [Cxx..]  run the quick checks (default: the seeded change's own property) against a
                                    scratch copy of /repo with the patch applied (ERDOS_REPO), record who
                                    caught it in seeded/<id>/meta.json
  tools/seeded.py onrepo <id> [Cxx..]  the same, but by `git -C /repo apply` + `git -C /repo checkout -- .`
                                    (only when nothing else is using /repo)
  tools/seeded.py table             print the caught-by table (for DESIGN.md)

Scratch copies live under /tmp/mut/<id> and are removed after use. Nothing here is
part of a registered check.
"""
import json
import os
import shutil
import subprocess
import sys
from pathlib import Path

VERIF = Path(__file__).resolve().parent.parent
SEEDED = VERIF / "seeded"
REPO = Path("/repo")
PY = "/venv/bin/python"
TEST = [PY, "-m", "pytest", "-q", "-p", "no:cacheprovider", "--timeout=900", "--continue-on-collection-errors"]


def sh(cmd, cwd=None, env=None, timeout=3600):
    p = subprocess.run(cmd, cwd=cwd, env=env, stdout=subprocess.PIPE, stderr=subprocess.STDOUT, text=True, timeout=timeout)
    return p.returncode, p.stdout


def scratch(idn, patched=True):
    d = Path("/tmp/mut") / idn
    if d.exists():
        shutil.rmtree(d)
    d.parent.mkdir(parents=True, exist_ok=True)
    # a plain copy of the working tree (tracked files only), not a git worktree: nothing to clean up in /repo
    d.mkdir()
    rc, out = sh(["rsync", "-a", "--exclude", ".git", "--exclude", "*.egg-info", "--exclude", "__pycache__", f"{REPO}/", f"{d}/"])
    assert rc == 0, out
    sh(["git", "init", "-q"], cwd=d)
    if patched:
        rc, out = sh(["git", "apply", str(SEEDED / idn / "patch.diff")], cwd=d)
        if rc != 0:
            raise SystemExit(f"patch does not apply: {out}")
    return d


def load(idn):
    return json.loads((SEEDED / idn / "meta.json").read_text())


def save(idn, meta):
    (SEEDED / idn / "meta.json").write_text(json.dumps(meta, indent=1) + "\n")


def cmd_import(src, n, idn, prop):
    src = Path(src)
    dst = SEEDED / idn
    dst.mkdir(parents=True, exist_ok=True)
    shutil.copy(src / f"patch_{n}.diff", dst / "patch.diff")
    shutil.copy(src / f"demo_{n}.py", dst / "demo.py")
    metas = json.loads((src / "meta.json").read_text())
    m = [x for x in metas if str(x.get("n")) == str(n)][0]
    meta = {"id": idn, "property": prop, "origin": "fresh sub-agent given only the property text and a scratch worktree",
            "files": m.get("files"), "summary": m.get("summary"), "mechanism": m.get("mechanism"), "needs": m.get("needs"),
            "confirmed": None, "runs": {}}
    save(idn, meta)
    print("imported", idn)


def cmd_confirm(idn):
    meta = load(idn)
    clean = scratch(idn + "-clean", patched=False)
    shutil.copy(SEEDED / idn / "demo.py", clean / "demo.py")
    rc0, out0 = sh([PY, "demo.py"], cwd=clean, timeout=1200)
    shutil.rmtree(clean)
    d = scratch(idn)
    shutil.copy(SEEDED / idn / "demo.py", d / "demo.py")
    rc1, out1 = sh([PY, "demo.py"], cwd=d, timeout=1200)
    (d / "demo.py").unlink()
    rct, outt = sh(TEST, cwd=d, timeout=3600)
    shutil.rmtree(d)
    tail = outt.strip().splitlines()[-1] if outt.strip() else ""
    meta["confirmed"] = {"demo_clean_exit": rc0, "demo_patched_exit": rc1, "demo_patched_says": out1.strip().splitlines()[-1][:300] if out1.strip() else "",
                         "tests_exit": rct, "tests_tail": tail,
                         "ok": rc0 == 0 and rc1 == 1 and rct == 0 and "209 passed" in tail}
    save(idn, meta)
    print(idn, json.dumps(meta["confirmed"]))


def run_checks(idn, props, repo_dir, env_extra):
    meta = load(idn)
    props = props or [meta["property"]]
    for p in props:
        env = dict(os.environ, **env_extra)
        env.setdefault("VERIF_SEED", "0")
        rc, out = sh([str(VERIF / "check"), p, "--tier", "quick"], cwd=VERIF, env=env, timeout=7200)
        lines = out.strip().splitlines()
        viol = [l for l in lines if l.startswith("VIOLATION")]
        cls = [l.strip() for l in lines if "failing class" in l or l.strip().startswith("violation:")]
        meta["runs"][p] = {"exit": rc, "violation_lines": viol[:3], "classes": cls[:3], "tail": lines[-1] if lines else "",
                           "seed": env["VERIF_SEED"], "caught": rc == 1 and bool(viol),
                           "found_input": rc == 1 and any("no-failing-input-found" not in v for v in viol)}
        print(idn, p, "exit", rc, (viol or lines[-1:])[0] if (viol or lines) else "")
    save(idn, meta)


def cmd_run(idn, props):
    d = scratch(idn)
    try:
        run_checks(idn, props, d, {"ERDOS_REPO": str(d)})
    finally:
        shutil.rmtree(d)


def cmd_onrepo(idn, props):
    rc, out = sh(["git", "-C", str(REPO), "status", "--porcelain", "--untracked-files=no"])
    assert out.strip() == "", "/repo is not clean"
    rc, out = sh(["git", "-C", str(REPO), "apply", str(SEEDED / idn / "patch.diff")])
    assert rc == 0, out
    try:
        run_checks(idn, props, REPO, {})
    finally:
        sh(["git", "-C", str(REPO), "checkout", "--", "."])


def cmd_table():
    rows = []
    for d in sorted(SEEDED.iterdir()):
        if not (d / "meta.json").exists():
            continue
        m = load(d.name)
        caught = [p + ("" if r.get("found_input") else "(nfi)") for p, r in m.get("runs", {}).items() if r.get("caught")]
        missed = [p for p, r in m.get("runs", {}).items() if not r.get("caught")]
        rows.append((d.name, m["property"], (m.get("confirmed") or {}).get("ok"), ",".join(caught) or "-", ",".join(missed) or "-", m.get("summary", "")[:110]))
    print("| id | property | confirmed | caught by | ran, not caught | change |")
    print("|---|---|---|---|---|---|")
    for r in rows:
        print("| " + " | ".join(str(x) for x in r) + " |")


if __name__ == "__main__":
    a = sys.argv[1:]
    if a[0] == "import":
        cmd_import(a[1], a[2], a[3], a[4])
    elif a[0] == "confirm":
        cmd_confirm(a[1])
    elif a[0] == "run":
        cmd_run(a[1], a[2:])
    elif a[0] == "onrepo":
        cmd_onrepo(a[1], a[2:])
    elif a[0] == "table":
        cmd_table()
