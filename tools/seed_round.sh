#!/bin/bash
# tools/seed_round.sh <Cxx> [srcroot=/tmp/seed4] [offset=7]: import the two changes of a seeding agent as <Cxx>-(offset+1)/-(offset+2),
# confirm them in scratch copies, run the property's own quick check against each.
cd "$(dirname "$0")/.." || exit 2
p=$1; src=${2:-/tmp/seed4}/$p/_out; off=${3:-7}
for n in 1 2; do
  id=$p-$((n+off))
  python3 tools/seeded.py import $src $n $id $p || exit 1
  python3 tools/seeded.py confirm $id | cut -c1-400
  python3 tools/seeded.py run $id $p 2>&1 | tail -1 | cut -c1-300
done
