#!/bin/bash
# tools/sweep_one.sh <Cxx> <tier> <seed...>: one check over many seeds (3 at a time); for `vp run`.
cd "$(dirname "$0")/.." || exit 2
c=$1; tier=$2; shift; shift
./setup.sh > sweep_setup.log 2>&1 || { echo "setup failed"; tail -20 sweep_setup.log; exit 2; }
mkdir -p sweep_logs
n=0
for seed in "$@"; do
  ( VERIF_SEED=$seed ./check $c --tier $tier > sweep_logs/${c}_${tier}_$seed.log 2>&1; echo "seed=$seed $c exit=$?" ) &
  n=$((n+1)); if [ $((n % 3)) -eq 0 ]; then wait; fi
done
wait
echo "--- violations"; grep -H "VIOLATION\|failing class" sweep_logs/${c}_${tier}_*.log | cut -c1-260; echo "--- done"
