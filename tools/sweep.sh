#!/bin/bash
# tools/sweep.sh <tier> <seed...>: run every check at the tier for each seed (4 at a time); summary on stdout.
# Meant for `vp run -- tools/sweep.sh quick 1 2 3` (builds the Lean library in the snapshot first).
cd "$(dirname "$0")/.." || exit 2
tier=$1; shift
./setup.sh > sweep_setup.log 2>&1 || { echo "setup failed"; tail -20 sweep_setup.log; exit 2; }
mkdir -p sweep_logs
for seed in "$@"; do
  for grp in "C01 C02 C03 C04" "C05 C06 C07 C08" "C09 C10 C11 C12" "C13 C14 C15 C16" "C17 C18 C19 C20"; do
    for c in $grp; do
      ( VERIF_SEED=$seed ./check $c --tier $tier > sweep_logs/${c}_${tier}_$seed.log 2>&1; echo "seed=$seed $c exit=$?" ) &
    done
    wait
  done
done
echo "--- violations"
grep -H "VIOLATION" sweep_logs/*_${tier}_*.log
echo "--- done"
