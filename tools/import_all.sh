#!/bin/bash
# tools/import_all.sh: every Props module imported into ONE environment (name clashes between independently built
# slices show up here before they break a property's axiom audit).
cd "$(dirname "$0")/../lean" || exit 2
f=$(mktemp /tmp/import_all_XXXX.lean)
for m in ErdosVerif/Props/*.lean; do echo "import ErdosVerif.Props.$(basename "$m" .lean)"; done > "$f"
lake env lean "$f"; rc=$?
rm -f "$f"
exit $rc
