/-
Basic facts about the z3 constraint language (`Model/Z3m.lean`) and about which assertions
`gen inst` contains.
-/
import ErdosVerif.Model.Z3m
namespace ErdosVerif.Z3m

variable {V : Type}

theorem evalAll_eq (σ : Assign V) (l : List (BoolT V)) :
    BoolT.evalAll σ l = l.all (fun a => a.eval σ) := by
  induction l with
  | nil => simp [BoolT.evalAll]
  | cons a l ih => simp [BoolT.evalAll, ih]

theorem evalAny_eq (σ : Assign V) (l : List (BoolT V)) :
    BoolT.evalAny σ l = l.any (fun a => a.eval σ) := by
  induction l with
  | nil => simp [BoolT.evalAny]
  | cons a l ih => simp [BoolT.evalAny, ih]

@[simp] theorem eval_and (σ : Assign V) (l : List (BoolT V)) :
    (BoolT.and l).eval σ = l.all (fun a => a.eval σ) := by
  rw [BoolT.eval, evalAll_eq]

@[simp] theorem eval_or (σ : Assign V) (l : List (BoolT V)) :
    (BoolT.or l).eval σ = l.any (fun a => a.eval σ) := by
  rw [BoolT.eval, evalAny_eq]

@[simp] theorem eval_imp (σ : Assign V) (a b : BoolT V) :
    (BoolT.imp a b).eval σ = (!a.eval σ || b.eval σ) := by rw [BoolT.eval]
@[simp] theorem eval_iff (σ : Assign V) (a b : BoolT V) :
    (BoolT.iff a b).eval σ = (a.eval σ == b.eval σ) := by rw [BoolT.eval]
@[simp] theorem eval_not (σ : Assign V) (a : BoolT V) :
    (BoolT.not a).eval σ = !a.eval σ := by rw [BoolT.eval]
@[simp] theorem eval_bvar (σ : Assign V) (v : V) : (BoolT.var v).eval σ = σ.b v := by rw [BoolT.eval]
@[simp] theorem eval_tt (σ : Assign V) : (BoolT.tt : BoolT V).eval σ = true := by rw [BoolT.eval]
@[simp] theorem eval_ff (σ : Assign V) : (BoolT.ff : BoolT V).eval σ = false := by rw [BoolT.eval]
@[simp] theorem eval_le (σ : Assign V) (a b : IntT V) :
    (BoolT.le a b).eval σ = decide (a.eval σ ≤ b.eval σ) := by rw [BoolT.eval]
@[simp] theorem eval_ge (σ : Assign V) (a b : IntT V) :
    (BoolT.ge a b).eval σ = decide (a.eval σ ≥ b.eval σ) := by rw [BoolT.eval]
@[simp] theorem eval_lt (σ : Assign V) (a b : IntT V) :
    (BoolT.lt a b).eval σ = decide (a.eval σ < b.eval σ) := by rw [BoolT.eval]
@[simp] theorem eval_eqI (σ : Assign V) (a b : IntT V) :
    (BoolT.eqI a b).eval σ = decide (a.eval σ = b.eval σ) := by rw [BoolT.eval]
@[simp] theorem eval_eqV (σ : Assign V) (a b : BvT V) :
    (BoolT.eqV a b).eval σ = (a.eval σ == b.eval σ) := by rw [BoolT.eval]
@[simp] theorem eval_neV (σ : Assign V) (a b : BvT V) :
    (BoolT.neV a b).eval σ = !(a.eval σ == b.eval σ) := by rw [BoolT.eval]

@[simp] theorem eval_ilit (σ : Assign V) (n : Int) : (IntT.lit n : IntT V).eval σ = n := by rw [IntT.eval]
@[simp] theorem eval_ivar (σ : Assign V) (v : V) : (IntT.var v).eval σ = σ.i v := by rw [IntT.eval]
@[simp] theorem eval_sub (σ : Assign V) (a b : IntT V) :
    (IntT.sub a b).eval σ = a.eval σ - b.eval σ := by rw [IntT.eval]
@[simp] theorem eval_add2 (σ : Assign V) (a b : IntT V) :
    (IntT.add [a, b]).eval σ = a.eval σ + b.eval σ := by
  rw [IntT.eval, IntT.evalSum, IntT.evalSum, IntT.evalSum]; omega

@[simp] theorem eval_vvar (σ : Assign V) (v : V) (w : Nat) : (BvT.var v w).eval σ = fit w (σ.v v) := rfl
@[simp] theorem eval_vlit (σ : Assign V) (b : Bits) : (BvT.lit b : BvT V).eval σ = b := rfl
@[simp] theorem eval_extract (σ : Assign V) (hi lo : Nat) (a : BvT V) :
    (BvT.extract hi lo a).eval σ = ((a.eval σ).drop lo).take (hi + 1 - lo) := rfl
@[simp] theorem eval_xor (σ : Assign V) (a b : BvT V) :
    (BvT.xor a b).eval σ = bxor (a.eval σ) (b.eval σ) := rfl

/-! ### Which assertions `gen I` contains -/

theorem sat_hard {I : Inst} {σ : Assign Var} (h : sat σ (gen I)) {a : B} (ha : a ∈ I.hard) :
    a.eval σ = true := h a ha

theorem cTask_sub {I : Inst} {t : Nat} (ht : t < I.nT) {a : B} (ha : a ∈ I.cTask t) : a ∈ I.hard := by
  unfold Inst.hard
  simp only [List.mem_append, List.mem_flatMap, List.mem_range]
  exact Or.inl (Or.inl (Or.inl ⟨t, ht, ha⟩))

theorem cDeps_sub {I : Inst} {c : Nat} (hc : c < I.nT) {a : B} (ha : a ∈ I.cDeps c) : a ∈ I.hard := by
  unfold Inst.hard
  simp only [List.mem_append, List.mem_flatMap, List.mem_range]
  exact Or.inl (Or.inl (Or.inr ⟨c, hc, ha⟩))

theorem cPair_sub {I : Inst} {w : Nat} (hw : w < I.nW) {p : Nat × Nat} (hp : p ∈ I.pairs) {a : B}
    (ha : a ∈ I.cPair w p) : a ∈ I.hard := by
  unfold Inst.hard
  simp only [List.mem_append, List.mem_flatMap, List.mem_range]
  exact Or.inl (Or.inr ⟨w, hw, p, hp, ha⟩)

theorem fit_length (w : Nat) (l : Bits) : (fit w l).length = w := by
  simp [fit, zeros]

end ErdosVerif.Z3m
