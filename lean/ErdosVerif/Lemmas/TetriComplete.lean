/-
Completeness of both TetriSched formulations w.r.t. the independent specification: every
valid plan is realised by a feasible point of `gen I` (all helper variables can be chosen
consistently) whose objective is the plan's reward.  Together with soundness this makes the
model *exact* for the specification; C14's maximality theorem is a corollary.
-/
import ErdosVerif.Lemmas.TetriSound
namespace ErdosVerif.Tetri
open ErdosVerif.Mip ErdosVerif.TetriSpec

/-! ### Assignments whose cell values are the indicator of a plan -/

/-- The matrix entries of every task with variables are 1 at the plan's cell and 0 elsewhere. -/
def Ind (I : Inst) (σ : Var → Int) (plan : Plan) : Prop :=
  ∀ t ∈ I.act, (∀ q ∈ I.keys t, cellVal I σ t q = if plan.get t = some q then 1 else 0) ∧
    (∀ c, plan.get t = some c → c ∈ I.keys t)

theorem ksum_ind {I : Inst} {σ : Var → Int} {plan : Plan} (hI : Ind I σ plan) {t : Nat} (ht : t ∈ I.act)
    (F : Nat × Nat × Nat → Int → Int) (hF : ∀ q, F q 0 = 0) :
    ksum I t (fun q => F q (cellVal I σ t q)) =
      match plan.get t with
      | some q0 => F q0 1
      | none => 0 := by
  obtain ⟨hv, hk⟩ := hI t ht
  cases hp : plan.get t with
  | none =>
    apply ksum_zero
    intro q hq
    rw [hv q hq, hp]
    simp [hF]
  | some q0 =>
    have hk0 := hk q0 hp
    rw [ksum_single I t _ q0 hk0]
    · rw [hv q0 hk0, hp]; simp
    · intro q hq hne
      rw [hv q hq, hp]
      have : ¬ q0 = q := fun e => hne e.symm
      simp [this, hF]

theorem sumCells_ind {I : Inst} {σ : Var → Int} {plan : Plan} (hI : Ind I σ plan) {t : Nat} (ht : t ∈ I.act) :
    (I.sumCells t).eval σ = if (plan.get t).isSome then 1 else 0 := by
  rw [eval_sumCells, ksum_ind hI ht (fun _ v => v) (fun _ => rfl)]
  cases plan.get t <;> simp

theorem sumCellsAt_ind {I : Inst} {σ : Var → Int} {plan : Plan} (hI : Ind I σ plan) {t : Nat} (ht : t ∈ I.act)
    (k : Nat) :
    (I.sumCellsAt t k).eval σ = match plan.get t with
      | some c => if c.2.1 = k then 1 else 0
      | none => 0 := by
  rw [eval_sumCellsAt, ksum_ind hI ht (fun q v => if q.2.1 == k then v else 0) (by intro q; simp)]
  cases plan.get t with
  | none => rfl
  | some q => by_cases hq : q.2.1 = k <;> simp [hq]

theorem rewardSum_ind {I : Inst} {σ : Var → Int} {plan : Plan} (hI : Ind I σ plan) {t : Nat} (ht : t ∈ I.act) :
    (I.rewardSum t).eval σ = match plan.get t with
      | some c => I.rew c.2.1
      | none => 0 := by
  rw [eval_rewardSum, ksum_ind hI ht (fun q v => I.rew q.2.1 * v) (by intro q; simp)]
  cases plan.get t <;> simp

theorem demandE_ind {I : Inst} {σ : Var → Int} {plan : Plan} (hI : Ind I σ plan) {t : Nat} (ht : t ∈ I.act)
    (w k : Nat) (r : String) : (I.demandE t w k r).eval σ = (demandAt I plan w k r t : Nat) := by
  rw [eval_demandE]
  have := ksum_ind hI ht
    (fun q v => if (q.1 == w && I.covers t q.2.1 q.2.2 k) then ((I.req t q.2.2 r : Nat) : Int) * v else 0)
    (by intro q; simp)
  rw [this]
  unfold demandAt
  cases plan.get t with
  | none => simp
  | some c =>
    by_cases hc : c.1 = w ∧ I.covers t c.2.1 c.2.2 k = true
    · simp [hc.1, hc.2]
    · have : (c.1 == w && I.covers t c.2.1 c.2.2 k) = false := by
        rcases Classical.not_and_iff_not_or_not.mp hc with h1 | h1
        · simp [h1]
        · simp [h1]
      simp [this, hc]

theorem resE_ind {I : Inst} {σ : Var → Int} {plan : Plan} (hI : Ind I σ plan) (w k : Nat) (r : String) :
    (I.resE w k r).eval σ = (load I plan w k r : Nat) := by
  rw [eval_resE, load, nsum_cast, List.map_map]
  apply isum_map_congr
  intro t ht
  exact demandE_ind hI ht w k r

/-- The plan decoded from a feasible point is indicated by it. -/
theorem ind_of_sat {I : Inst} {σ : Var → Int} (h : sat σ (gen I)) (hwf : I.wf = true)
    (hm : I.noModel = false) : Ind I σ (planOf I σ) := by
  intro t ht
  have hg : (planOf I σ).get t = pick I σ t := by
    rw [planOf_get σ (mem_act.mp ht).1]; simp [(mem_act.mp ht).2]
  constructor
  · intro q hq
    rw [hg]; exact cellVal_pick h hwf ht hq
  · intro c hc
    rw [hg] at hc
    exact pick_mem_keys hwf hm ht hc

/-! ### The objective is the plan's reward -/

theorem objective_ind {I : Inst} {σ : Var → Int} {plan : Plan} (hI : Ind I σ plan)
    (hrun : ∀ t ∈ I.act, I.running t = true → plan.get t = some (runningCell I t))
    (hrew : I.cplex = true → ∀ t ∈ I.nonRunning, σ (.reward t) = (I.rewardSum t).eval σ) :
    objective σ (gen I) = planReward I plan := by
  unfold objective gen planReward
  by_cases hc : I.cplex = true
  · simp only [hc, if_true, genC, QuadExpr.eval_ofLin, Inst.objC, LinExpr.eval_sumL, List.map_map,
      Function.comp_def]
    have hall : I.act.filter I.rewarded = I.act := by
      apply List.filter_eq_self.mpr
      intro t _; simp [Inst.rewarded, hc]
    rw [hall]
    apply isum_map_congr
    intro t ht
    unfold rewOf
    by_cases hr : I.running t = true
    · simp [Inst.rewardE, hr, hc]
    · have hr' : I.running t = false := by simpa using hr
      have htn : t ∈ I.nonRunning := mem_nonRunning.mpr ⟨(mem_act.mp ht).1, (mem_act.mp ht).2, hr'⟩
      simp only [Inst.rewardE, hr', Bool.false_eq_true, if_false, LinExpr.eval_ofVar, Bool.and_false]
      rw [hrew hc t htn, rewardSum_ind hI ht]
      cases plan.get t <;> rfl
  · have hc' : I.cplex = false := by simpa using hc
    simp only [hc', Bool.false_eq_true, if_false, genG, QuadExpr.eval_ofLin, Inst.objG, LinExpr.eval_sumL,
      List.map_map, Function.comp_def, Bool.false_and]
    apply isum_map_congr
    intro t ht
    have hta : t ∈ I.act := (List.mem_filter.mp ht).1
    unfold rewOf
    simp only [hc', Bool.false_and, Bool.false_eq_true, if_false]
    exact rewardSum_ind hI hta

/-- **The objective of a feasible point is the reward of its decoded plan.** -/
theorem objective_eq_planReward {I : Inst} {σ : Var → Int} (h : sat σ (gen I)) (hwf : I.wf = true)
    (hm : I.noModel = false) : objective σ (gen I) = planReward I (planOf I σ) := by
  apply objective_ind (ind_of_sat h hwf hm)
  · intro t ht hr
    rw [planOf_get σ (mem_act.mp ht).1]; simp [(mem_act.mp ht).2, pick, hr]
  · intro hc t ht
    have := h.2 _ (cRewardC_sub hc ht)
    simp only [Inst.cRewardC, Constr.holds, Sense.holds, LinExpr.eval_sub, LinExpr.eval_ofVar] at this
    omega

end ErdosVerif.Tetri
