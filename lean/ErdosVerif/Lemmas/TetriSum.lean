/-
Sum and key-enumeration facts for the TetriSched models: sums over
`Inst.keys t = {(w, k, s) | w < nW, k < nSlots, s < nS}` of terms that vanish everywhere
except at one key.
-/
import ErdosVerif.Model.TetriSpec
namespace ErdosVerif.Tetri
open ErdosVerif.Mip

/-! ### List / sum facts -/

theorem isum_nonneg {l : List Int} (h : ∀ a ∈ l, 0 ≤ a) : 0 ≤ isum l := by
  induction l with
  | nil => simp
  | cons x xs ih =>
    have h1 := h x (by simp)
    have h2 := ih (fun a ha => h a (by simp [ha]))
    simp; omega

theorem le_isum_of_mem {l : List Int} (h : ∀ a ∈ l, 0 ≤ a) {a : Int} (ha : a ∈ l) : a ≤ isum l := by
  induction l with
  | nil => simp at ha
  | cons x xs ih =>
    have hx := h x (by simp)
    have hxs : ∀ b ∈ xs, 0 ≤ b := fun b hb => h b (by simp [hb])
    have hn := isum_nonneg hxs
    simp at ha
    rcases ha with rfl | ha
    · simp; omega
    · have := ih hxs ha
      simp; omega

theorem isum_map_le {α : Type} (l : List α) (f g : α → Int) (h : ∀ a ∈ l, f a ≤ g a) :
    isum (l.map f) ≤ isum (l.map g) := by
  induction l with
  | nil => simp
  | cons x xs ih =>
    have h1 := h x (by simp)
    have h2 := ih (fun a ha => h a (by simp [ha]))
    simp; omega

theorem isum_map_congr {α : Type} (l : List α) (f g : α → Int) (h : ∀ a ∈ l, f a = g a) :
    isum (l.map f) = isum (l.map g) := by
  induction l with
  | nil => simp
  | cons x xs ih =>
    have h1 := h x (by simp)
    have h2 := ih (fun a ha => h a (by simp [ha]))
    simp; omega

theorem isum_map_zero {α : Type} (l : List α) (f : α → Int) (h : ∀ a ∈ l, f a = 0) :
    isum (l.map f) = 0 := by
  induction l with
  | nil => simp
  | cons x xs ih =>
    have h1 := h x (by simp)
    have h2 := ih (fun a ha => h a (by simp [ha]))
    simp; omega

theorem isum_map_add {α : Type} (l : List α) (f g : α → Int) :
    isum (l.map (fun a => f a + g a)) = isum (l.map f) + isum (l.map g) := by
  induction l with
  | nil => simp
  | cons x xs ih => simp [ih]; omega

theorem isum_map_mul {α : Type} (l : List α) (c : Int) (f : α → Int) :
    isum (l.map (fun a => c * f a)) = c * isum (l.map f) := by
  induction l with
  | nil => simp
  | cons x xs ih => simp [ih, Int.mul_add]

theorem isum_map_flatMap {α β : Type} (l : List α) (g : α → List β) (f : β → Int) :
    isum ((l.flatMap g).map f) = isum (l.map (fun a => isum ((g a).map f))) := by
  induction l with
  | nil => simp
  | cons x xs ih => simp [List.flatMap_cons, isum_append, ih]

theorem isum_map_filter {α : Type} (l : List α) (P : α → Bool) (f : α → Int) :
    isum ((l.filter P).map f) = isum (l.map (fun a => if P a then f a else 0)) := by
  induction l with
  | nil => simp
  | cons x xs ih =>
    by_cases hp : P x = true
    · simp [hp, ih]
    · simp [hp, ih]

/-- A sum over `range n` whose terms vanish except at `a`. -/
theorem isum_range_single (n a : Nat) (f : Nat → Int) (ha : a < n)
    (h : ∀ b, b < n → b ≠ a → f b = 0) : isum ((List.range n).map f) = f a := by
  induction n with
  | zero => omega
  | succ n ih =>
    rw [List.range_succ, List.map_append, isum_append]
    by_cases han : a = n
    · subst han
      have : isum ((List.range a).map f) = 0 :=
        isum_map_zero _ _ (fun b hb => h b (by have := List.mem_range.mp hb; omega)
          (by have := List.mem_range.mp hb; omega))
      simp [this]
    · have h1 := ih (by omega) (fun b hb hne => h b (by omega) hne)
      have h2 : f n = 0 := h n (by omega) (by omega)
      simp [h1, h2]

theorem isum_range_zero (n : Nat) (f : Nat → Int) (h : ∀ b, b < n → f b = 0) :
    isum ((List.range n).map f) = 0 :=
  isum_map_zero _ _ (fun b hb => h b (List.mem_range.mp hb))

theorem nsum_cast (l : List Nat) : ((nsum l : Nat) : Int) = isum (l.map (fun (n : Nat) => (n : Int))) := by
  induction l with
  | nil => rfl
  | cons x xs ih => simp [nsum, ih]

theorem nsum_map_le {α : Type} (l : List α) (f g : α → Nat) (h : ∀ a ∈ l, f a ≤ g a) :
    nsum (l.map f) ≤ nsum (l.map g) := by
  induction l with
  | nil => simp [nsum]
  | cons x xs ih =>
    have h1 := h x (by simp)
    have h2 := ih (fun a ha => h a (by simp [ha]))
    simp [nsum]; omega

/-! ### Keys -/

theorem mem_keys {I : Inst} {t : Nat} {q : Nat × Nat × Nat} :
    q ∈ I.keys t ↔ q.1 < I.nW ∧ q.2.1 < I.nSlots ∧ q.2.2 < (I.task t).nS := by
  obtain ⟨w, k, s⟩ := q
  simp only [Inst.keys, List.mem_flatMap, List.mem_map, List.mem_range, Prod.mk.injEq]
  constructor
  · rintro ⟨w', hw, k', hk, s', hs, rfl, rfl, rfl⟩
    exact ⟨hw, hk, hs⟩
  · rintro ⟨hw, hk, hs⟩
    exact ⟨w, hw, k, hk, s, hs, rfl, rfl, rfl⟩

/-- Sum of `F` over all keys of `t`. -/
def ksum (I : Inst) (t : Nat) (F : Nat × Nat × Nat → Int) : Int := isum ((I.keys t).map F)

theorem ksum_nested (I : Inst) (t : Nat) (F : Nat × Nat × Nat → Int) :
    ksum I t F = isum ((List.range I.nW).map (fun w => isum ((List.range I.nSlots).map (fun k =>
      isum ((List.range (I.task t).nS).map (fun s => F (w, k, s))))))) := by
  simp only [ksum, Inst.keys, isum_map_flatMap, List.map_map, Function.comp_def]

/-- A key sum whose terms vanish except at `q0`. -/
theorem ksum_single (I : Inst) (t : Nat) (F : Nat × Nat × Nat → Int) (q0 : Nat × Nat × Nat)
    (hq : q0 ∈ I.keys t) (h : ∀ q ∈ I.keys t, q ≠ q0 → F q = 0) : ksum I t F = F q0 := by
  obtain ⟨w0, k0, s0⟩ := q0
  obtain ⟨hw, hk, hs⟩ := mem_keys.mp hq
  simp only at hw hk hs
  rw [ksum_nested]
  rw [isum_range_single I.nW w0 _ hw]
  · rw [isum_range_single I.nSlots k0 _ hk]
    · rw [isum_range_single _ s0 _ hs]
      intro s hs' hne
      exact h (w0, k0, s) (mem_keys.mpr ⟨hw, hk, hs'⟩) (by simp [hne])
    · intro k hk' hne
      apply isum_range_zero
      intro s hs'
      exact h (w0, k, s) (mem_keys.mpr ⟨hw, hk', hs'⟩) (by simp [hne])
  · intro w hw' hne
    apply isum_range_zero
    intro k hk'
    apply isum_range_zero
    intro s hs'
    exact h (w, k, s) (mem_keys.mpr ⟨hw', hk', hs'⟩) (by simp [hne])

theorem ksum_zero (I : Inst) (t : Nat) (F : Nat × Nat × Nat → Int) (h : ∀ q ∈ I.keys t, F q = 0) :
    ksum I t F = 0 := isum_map_zero _ _ h

theorem ksum_congr (I : Inst) (t : Nat) (F G : Nat × Nat × Nat → Int) (h : ∀ q ∈ I.keys t, F q = G q) :
    ksum I t F = ksum I t G := isum_map_congr _ _ _ h

theorem ksum_filter (I : Inst) (t : Nat) (P : Nat × Nat × Nat → Bool) (F : Nat × Nat × Nat → Int) :
    isum (((I.keys t).filter P).map F) = ksum I t (fun q => if P q then F q else 0) :=
  isum_map_filter _ _ _

/-! ### Cell values -/

/-- Value of the matrix entry under `σ`. -/
def cellVal (I : Inst) (σ : Var → Int) (t : Nat) (q : Nat × Nat × Nat) : Int :=
  (I.cellE t q.1 q.2.1 q.2.2).eval σ

theorem eval_sumCells (I : Inst) (σ : Var → Int) (t : Nat) :
    (I.sumCells t).eval σ = ksum I t (cellVal I σ t) := by
  simp only [Inst.sumCells, LinExpr.eval_sumL, List.map_map, Function.comp_def, ksum]
  rfl

theorem eval_sumCellsAt (I : Inst) (σ : Var → Int) (t k : Nat) :
    (I.sumCellsAt t k).eval σ = ksum I t (fun q => if q.2.1 == k then cellVal I σ t q else 0) := by
  simp only [Inst.sumCellsAt, LinExpr.eval_sumL, List.map_map, Function.comp_def]
  exact ksum_filter I t (fun q => q.2.1 == k) (cellVal I σ t)

theorem eval_rewardSum (I : Inst) (σ : Var → Int) (t : Nat) :
    (I.rewardSum t).eval σ = ksum I t (fun q => I.rew q.2.1 * cellVal I σ t q) := by
  simp only [Inst.rewardSum, LinExpr.eval_sumL, List.map_map, Function.comp_def, ksum, LinExpr.eval_smul]
  rfl

theorem eval_demandE (I : Inst) (σ : Var → Int) (t w k : Nat) (r : String) :
    (I.demandE t w k r).eval σ =
      ksum I t (fun q => if (q.1 == w && I.covers t q.2.1 q.2.2 k) then (I.req t q.2.2 r : Nat) * cellVal I σ t q else 0) := by
  simp only [Inst.demandE, LinExpr.eval_sumL, List.map_map, Function.comp_def, LinExpr.eval_smul]
  exact ksum_filter I t (fun q => q.1 == w && I.covers t q.2.1 q.2.2 k)
    (fun q => ((I.req t q.2.2 r : Nat) : Int) * cellVal I σ t q)

theorem eval_resE (I : Inst) (σ : Var → Int) (w k : Nat) (r : String) :
    (I.resE w k r).eval σ = isum (I.act.map (fun t => (I.demandE t w k r).eval σ)) := by
  simp [Inst.resE, LinExpr.eval_sumL, List.map_map, Function.comp_def]

end ErdosVerif.Tetri
