import ErdosVerif.Lemmas.SimProgressPlace
/-!
Progress of the `simulate()` loop, part 5: `__step(dt)`.

Every RUNNING task whose remaining time reaches 0 in this step is reported by `Task.step`
(it joins `finished`), gets a TASK_FINISHED event stamped with the new clock value, and the
event is queued after the clock moved. A RUNNING task whose remaining time was already 0 is
not reported again: its event is still in the queue. The invariant used in the loops is
uniform (it does not say which tasks have been stepped), so `dt` is arbitrary here.
-/
open Std.Do
set_option mvcgen.warning false

namespace ErdosVerif.Model.Sim

/-- The state with the pop entry that the loop is about to append (only its place in the
clock / pop skeleton matters). -/
def popped (s : SimS) : SimS := { s with log := s.log.push (.pop 0 0) }

/-- Inside `__step`: `fin` = tasks reported finished and not yet given an event, `evs` =
events created and not yet queued, `n'` = the clock value after the step. -/
structure PGS (n' : Int) (fin : List TaskId) (evs : List SEvent) (s : SimS) : Prop where
  pre : ∀ t x, taskAt s.graphs t = some x → x.PreOK
  due : ∀ t x, taskAt s.graphs t = some x → x.state = .running → x.remaining = some 0 →
    pg_Due (s.queue.toList ++ evs) n' t ∨ t ∈ fin
  eids : EInv (s.queue.toList ++ evs) s.future s.nextSched s.nextEid
  allQ : ∀ g ∈ s.allGraphs.toList, g.Quiet
  tmplQ : ∀ j ∈ s.jobs.toList, j.template.Quiet
  lg : LG s.log.toList s.now

theorem pgs_init (n dt : Int) (s : SimS) (h : PG none [] s ∧ s.now = n) (hdt : ¬ dt < 0) : PGS (n + dt) [] [] s := by
  refine ⟨h.1.pre, ?_, h.1.eids, h.1.allQ, h.1.tmplQ, h.1.lg⟩
  intro t x ht hs hr
  obtain ⟨e, he, h1, h2, h3⟩ := h.1.due t x ht hs hr (by simp)
  exact Or.inl ⟨e, he, h1, h2, by rw [h.2] at h3; omega⟩

theorem PGS.congr {n' : Int} {fin : List TaskId} {evs : List SEvent} (s s' : SimS) (h : PGS n' fin evs s)
    (hg : s'.graphs = s.graphs) (hn : s'.now = s.now) (hl : s'.log = s.log)
    (hq : s'.queue = s.queue) (hf : s'.future = s.future) (hns : s'.nextSched = s.nextSched)
    (hid : s'.nextEid = s.nextEid) (ha : s'.allGraphs = s.allGraphs) (hj : s'.jobs = s.jobs) : PGS n' fin evs s' := by
  obtain ⟨h1, h2, h3, h4, h5, h6⟩ := h
  refine ⟨?_, ?_, ?_, ?_, ?_, ?_⟩
  · rw [hg]; exact h1
  · rw [hg, hq]; exact h2
  · rw [hq, hf, hns, hid]; exact h3
  · rw [ha]; exact h4
  · rw [hj]; exact h5
  · rw [hl, hn]; exact h6

/-- `Task.step` either reports the completion, or leaves a task whose remaining time is 0
as it was (it was 0 before). -/
theorem doStep_facts (x : TaskS) (now dt : Int) :
    (x.doStep now dt).1.pre = x.pre ∧ (x.doStep now dt).1.state = x.state ∧
    ((x.doStep now dt).2 = false → (x.doStep now dt).1.remaining = some 0 → (x.doStep now dt).1 = x) := by
  unfold TaskS.doStep
  split
  · exact ⟨rfl, rfl, fun _ _ => rfl⟩
  · split
    · exact ⟨rfl, rfl, fun _ _ => rfl⟩
    · rename_i r _
      split
      · exact ⟨rfl, rfl, fun _ _ => rfl⟩
      · simp only []
        split
        · exact ⟨rfl, rfl, fun h => by simp at h⟩
        · rename_i hpos
          refine ⟨rfl, rfl, fun _ h => ?_⟩
          simp only [Option.some.injEq] at h
          omega

/-- One `Task.step` in the innermost loop. -/
theorem pgs_step {n' dt : Int} {fin : List TaskId} (s s' : SimS) (t : TaskId) (m0 : Int)
    (g1 g2 : GraphS) (x1 x2 : TaskS) (fin' : List TaskId)
    (h : PGS n' fin [] s)
    (hfin' : (fin' = fin ∧ ¬ (x1.doStep m0 dt).2 = true) ∨ fin' = fin ++ [t])
    (hx1 : g1.task? t.t = some x1) (hg1 : s.graphs[t.g]? = some g1)
    (hgr : s'.graphs = s.graphs.setIfInBounds t.g (g2.setTask t.t (x2.call (.step m0 dt)).1))
    (hn : s'.now = s.now) (hl : s'.log = s.log) (hq : s'.queue = s.queue) (hfu : s'.future = s.future)
    (hns : s'.nextSched = s.nextSched) (hid : s'.nextEid = s.nextEid) (ha : s'.allGraphs = s.allGraphs)
    (hj : s'.jobs = s.jobs)
    (hx2 : g2.task? t.t = some x2) (hg2 : s.graphs[t.g]? = some g2) : PGS n' fin' [] s' := by
  have hgg : g2 = g1 := Option.some.inj (hg2.symm.trans hg1)
  subst hgg
  have hxx : x2 = x1 := Option.some.inj (hx2.symm.trans hx1)
  subst hxx
  have hT : taskAt s.graphs t = some x2 := taskAt_of _ _ g2 x2 hg2 hx2
  obtain ⟨k1, k2, k3⟩ := doStep_facts x2 m0 dt
  obtain ⟨hT't, hT'o⟩ := taskAt_setTask s.graphs t g2 x2 (x2.doStep m0 dt).1 hg2 hx2
  have hsub : ∀ u ∈ fin, u ∈ fin' := by
    intro u hu
    rcases hfin' with ⟨h1, _⟩ | h1
    · rw [h1]; exact hu
    · rw [h1]; exact List.mem_append_left _ hu
  refine ⟨?_, ?_, ?_, by rw [ha]; exact h.allQ, by rw [hj]; exact h.tmplQ, by rw [hl, hn]; exact h.lg⟩
  · intro u y hu
    rw [hgr] at hu
    by_cases hut : u = t
    · subst hut
      simp only [TaskS.call] at hu
      rw [hT't] at hu; cases hu
      have := h.pre u x2 hT
      unfold TaskS.PreOK at this ⊢
      rw [k1]; exact this
    · simp only [TaskS.call] at hu
      rw [hT'o u hut] at hu; exact h.pre u y hu
  · intro u y hu hs hr
    rw [hgr] at hu
    simp only [TaskS.call] at hu
    by_cases hut : u = t
    · subst hut
      rw [hT't] at hu; cases hu
      rcases hfin' with ⟨h1, h2⟩ | h1
      · have hf : (x2.doStep m0 dt).2 = false := by simpa using h2
        have hsame := k3 hf hr
        rw [hsame] at hs hr
        rcases h.due u x2 hT hs hr with h3 | h3
        · left; rw [hq]; exact h3
        · right; exact hsub u h3
      · right; rw [h1]; simp
    · rw [hT'o u hut] at hu
      rcases h.due u y hu hs hr with h3 | h3
      · left; rw [hq]; exact h3
      · right; exact hsub u h3
  · rw [hq, hfu, hns, hid]; exact h.eids

/-- One TASK_FINISHED event is created for the first task still waiting for one. -/
theorem pgs_mk {n' : Int} {t : TaskId} {rest : List TaskId} {evs : List SEvent} (s s' : SimS) (e : SEvent)
    (h : PGS n' (t :: rest) evs s)
    (hty : e.ev.etype = ET.taskFinished) (htid : e.tid = some t) (hetime : e.ev.time = n') (heid : e.ev.eid = s.nextEid)
    (hg : s'.graphs = s.graphs) (hn : s'.now = s.now) (hl : s'.log = s.log) (hq : s'.queue = s.queue)
    (hfu : s'.future = s.future) (hns : s'.nextSched = s.nextSched) (hid : s'.nextEid = s.nextEid + 1)
    (ha : s'.allGraphs = s.allGraphs) (hj : s'.jobs = s.jobs) : PGS n' rest (evs ++ [e]) s' := by
  have hmem : ∀ e' ∈ s'.queue.toList ++ (evs ++ [e]), e' ∈ s.queue.toList ++ evs ∨ e' = e := by
    intro e' he'
    rw [hq, ← List.append_assoc] at he'
    rcases List.mem_append.mp he' with h1 | h1
    · exact Or.inl h1
    · exact Or.inr (List.mem_singleton.mp h1)
  refine ⟨by rw [hg]; exact h.pre, ?_, ?_, by rw [ha]; exact h.allQ, by rw [hj]; exact h.tmplQ,
    by rw [hl, hn]; exact h.lg⟩
  · intro u y hu hs hr
    rw [hg] at hu
    rcases h.due u y hu hs hr with ⟨e1, he1, h1⟩ | h3
    · left
      refine ⟨e1, ?_, h1⟩
      rw [hq, ← List.append_assoc]; exact List.mem_append_left _ he1
    · rcases List.mem_cons.mp h3 with h4 | h4
      · left
        subst h4
        refine ⟨e, ?_, hty, htid, by rw [hetime]; exact Int.le_refl _⟩
        rw [← List.append_assoc]; exact List.mem_append_right _ (List.mem_singleton.mpr rfl)
      · exact Or.inr h4
  · rw [hfu, hns, hid]
    have := h.eids
    refine ⟨fun y hy => Nat.lt_succ_of_lt (this.efLt y hy), ?_, ?_⟩
    · intro e' he' hf
      rcases hmem e' he' with h1 | h1
      · exact Nat.lt_succ_of_lt (this.finLt e' h1 hf)
      · rw [h1, heid]; exact Nat.lt_succ_self _
    · intro e' he' hf hef
      rcases hmem e' he' with h1 | h1
      · exact this.finNotEF e' h1 hf hef
      · rw [h1, heid] at hef
        exact Nat.lt_irrefl _ (this.efLt _ hef)

/-- After the clock moved: the invariant with a pop entry still owed, and the invariant
itself when the clock moved by a positive amount. -/
def PGC (dt : Int) (ex : List SEvent) (s : SimS) : Prop :=
  PG none ex (popped s) ∧ (0 < dt → PG none ex s)

theorem pg_skel_push_clock (l : Array LogE) (c : Int) :
    pg_skel (l.push (.clock c)).toList = pg_skel l.toList ++ [some c] := by
  simp [pg_skel, List.filterMap_append, pg_sk]

theorem pg_skel_push_pop (l : Array LogE) (a : Int) (b : Nat) :
    pg_skel (l.push (.pop a b)).toList = pg_skel l.toList ++ [none] := by
  simp [pg_skel, List.filterMap_append, pg_sk]

theorem pgs_clock {n' dt : Int} {evs : List SEvent} (s s' : SimS) (h : PGS n' [] evs s) (_hdt : ¬ dt < 0)
    (hn' : n' = s.now + dt)
    (hg : s'.graphs = s.graphs) (hn : s'.now = s.now + dt) (hl : s'.log = s.log.push (.clock (s.now + dt)))
    (hq : s'.queue = s.queue)
    (hfu : s'.future = s.future) (hns : s'.nextSched = s.nextSched) (hid : s'.nextEid = s.nextEid)
    (ha : s'.allGraphs = s.allGraphs) (hj : s'.jobs = s.jobs) : PGC dt evs s' := by
  have hdue : ∀ t x, taskAt s'.graphs t = some x → x.state = .running → x.remaining = some 0 → some t ≠ none →
      pg_Due (s'.queue.toList ++ evs) s'.now t := by
    intro t x ht hs hr _
    rw [hg] at ht
    rcases h.due t x ht hs hr with h1 | h1
    · rw [hq, hn, ← hn']; exact h1
    · cases h1
  constructor
  · refine ⟨by rw [show (popped s').graphs = s'.graphs from rfl, hg]; exact h.pre, hdue,
      by rw [show (popped s').queue = s'.queue from rfl, show (popped s').future = s'.future from rfl,
             show (popped s').nextSched = s'.nextSched from rfl, show (popped s').nextEid = s'.nextEid from rfl,
             hq, hfu, hns, hid]; exact h.eids,
      by rw [show (popped s').allGraphs = s'.allGraphs from rfl, ha]; exact h.allQ,
      by rw [show (popped s').jobs = s'.jobs from rfl, hj]; exact h.tmplQ, ?_⟩
    show LG (s'.log.push (.pop 0 0)).toList s'.now
    unfold LG
    rw [pg_skel_push_pop, hl, pg_skel_push_clock]
    exact ⟨SF.clock_pop h.lg.1, by intro a ha; simp at ha⟩
  · intro hpos
    refine ⟨by rw [hg]; exact h.pre, hdue, by rw [hq, hfu, hns, hid]; exact h.eids,
      by rw [ha]; exact h.allQ, by rw [hj]; exact h.tmplQ, ?_⟩
    unfold LG
    rw [hl, pg_skel_push_clock, hn]
    refine ⟨SF.clock_strict h.lg.1 h.lg.2 (by omega), ?_⟩
    intro a ha
    rw [getLast?_append_single] at ha
    cases ha; rfl

/-- One of the new events is queued. -/
theorem pgc_add {dt : Int} {e : SEvent} {rest : List SEvent} (s s' : SimS) (h : PGC dt (e :: rest) s)
    (hg : s'.graphs = s.graphs) (hn : s'.now = s.now) (hl : s'.log = s.log)
    (hq : s'.queue = Heap.heappush SEvent.lt s.queue e)
    (hfu : s'.future = s.future) (hns : s'.nextSched = s.nextSched) (hid : s'.nextEid = s.nextEid)
    (ha : s'.allGraphs = s.allGraphs) (hj : s'.jobs = s.jobs) : PGC dt rest s' := by
  have m1 : ∀ e' ∈ s'.queue.toList ++ rest, e'.ev.etype = ET.taskFinished → e' ∈ s.queue.toList ++ (e :: rest) := by
    intro e' he' _
    rw [hq] at he'
    rcases List.mem_append.mp he' with h1 | h1
    · rcases mem_heappush _ _ _ h1 with h2 | h2
      · exact List.mem_append_left _ h2
      · subst h2; exact List.mem_append_right _ (List.mem_cons_self ..)
    · exact List.mem_append_right _ (List.mem_cons_of_mem _ h1)
  have m2 : ∀ e' ∈ s.queue.toList ++ (e :: rest), e'.ev.etype = ET.taskFinished → e' ∈ s'.queue.toList ++ rest := by
    intro e' he' _
    rw [hq]
    rcases List.mem_append.mp he' with h1 | h1
    · refine List.mem_append_left _ ?_
      exact Array.mem_toList_iff.mpr (((Heap.heappush_perm SEvent.lt s.queue e).mem_iff (a := e')).mpr
        (Array.mem_push.mpr (Or.inl (Array.mem_toList_iff.mp h1))))
    · rcases List.mem_cons.mp h1 with h2 | h2
      · subst h2; exact List.mem_append_left _ (mem_heappush_self _ _)
      · exact List.mem_append_right _ h2
  constructor
  · refine PG.step (popped s) (popped s') h.1 ?_ ?_ ?_ m1 m2 ?_ ?_ ?_ ?_
    · show TRel (taskAt s.graphs) (taskAt s'.graphs); rw [hg]; exact TRel.refl _
    · exact hn
    · show pg_skel (s'.log.push _).toList = pg_skel (s.log.push _).toList; rw [hl]
    · show ∀ x, EF s'.future s'.nextSched x → EF s.future s.nextSched x; rw [hfu, hns]; exact fun _ h' => h'
    · show s.nextEid ≤ s'.nextEid; rw [hid]; exact Nat.le_refl _
    · exact ha
    · exact hj
  · intro hpos
    exact PG.step s s' (h.2 hpos) (by rw [hg]; exact TRel.refl _) hn (by rw [hl]) m1 m2
      (by rw [hfu, hns]; exact fun _ h' => h') (by rw [hid]; exact Nat.le_refl _) ha hj

/-- The time of the event at the root of the queue. -/
def RootA (T : Option Int) (s : SimS) : Prop := (s.queue[0]?).map (·.ev.time) = T

/-- While the new events (all stamped `n'`) are queued: the root is the old root or one of them. -/
def RootC (n' : Int) (T : Option Int) (rest : List SEvent) (s : SimS) : Prop :=
  (∀ e ∈ rest, e.ev.time = n') ∧ ∀ h1, s.queue[0]? = some h1 → some h1.ev.time = T ∨ h1.ev.time = n'

theorem evtimes_snoc {n' : Int} {evs : List SEvent} {e : SEvent} (h : ∀ e' ∈ evs, e'.ev.time = n') (he : e.ev.time = n') :
    ∀ e' ∈ evs ++ [e], e'.ev.time = n' := by
  intro e' he'
  rcases List.mem_append.mp he' with h1 | h1
  · exact h e' h1
  · rw [List.mem_singleton.mp h1]; exact he

theorem rootc_init {n' : Int} {T : Option Int} {evs : List SEvent} {s s' : SimS} (h : RootA T s)
    (hev : ∀ e ∈ evs, e.ev.time = n') (hq : s'.queue = s.queue) : RootC n' T evs s' := by
  refine ⟨hev, fun h1 hh => Or.inl ?_⟩
  rw [hq] at hh
  unfold RootA at h
  rw [← h, hh]; rfl

theorem rootc_add {n' : Int} {T : Option Int} {e : SEvent} {rest : List SEvent} {s s' : SimS}
    (h : RootC n' T (e :: rest) s) (hq : s'.queue = Heap.heappush SEvent.lt s.queue e) : RootC n' T rest s' := by
  refine ⟨fun e' he' => h.1 e' (List.mem_cons_of_mem _ he'), ?_⟩
  intro h1 hh
  rw [hq] at hh
  rcases heappush_root _ _ _ hh with h2 | h2
  · exact h.2 h1 h2
  · right; rw [h2]; exact h.1 e (List.mem_cons_self ..)

set_option maxHeartbeats 1600000 in
/-- **`__step(dt)`.** `T` is the time of the event at the root of the queue (if any): afterwards
the root is that event or a TASK_FINISHED event due at the new clock value. -/
theorem step_p (n dt : Int) (T : Option Int) :
    ⦃fun s => ⌜(PG none [] s ∧ s.now = n) ∧ RootA T s⌝⦄ step dt
    ⦃post⟨fun _ s' => ⌜((PGC dt [] s' ∧ s'.now = n + dt) ∧ 0 ≤ dt) ∧
        ∀ h1, s'.queue[0]? = some h1 → some h1.ev.time = T ∨ h1.ev.time = n + dt⌝, fun _ _ => ⌜True⌝⟩⦄ := by
  rmvcgen [step, getPool, setPool, getTask, getGraph, taskCall, setGraph, raiseTask, mkEvent, uniqueName, advanceClock, addEvent]
  case inv1 =>
    exact post⟨fun p s => ⌜(PGS (n + dt) p.2 [] s ∧ s.now = n) ∧ RootA T s⌝, fun _ _ => ⌜True⌝⟩
  case inv2 =>
    exact post⟨fun p s => ⌜(PGS (n + dt) p.2 [] s ∧ s.now = n) ∧ RootA T s⌝, fun _ _ => ⌜True⌝⟩
  case inv3 =>
    exact post⟨fun p s => ⌜(PGS (n + dt) p.2 [] s ∧ s.now = n) ∧ RootA T s⌝, fun _ _ => ⌜True⌝⟩
  case inv4 =>
    exact post⟨fun p s => ⌜(PGS (n + dt) p.1.suffix p.2 s ∧ s.now = n) ∧ RootA T s ∧ ∀ e ∈ p.2, e.ev.time = n + dt⌝,
      fun _ _ => ⌜True⌝⟩
  case inv5 =>
    exact post⟨fun p s => ⌜(PGC dt p.1.suffix s ∧ s.now = n + dt) ∧ RootC (n + dt) T p.1.suffix s⌝, fun _ _ => ⌜True⌝⟩
  all_goals first
    | pg_frame
    | (rs_hyps h => exact ⟨⟨pgs_init n dt _ h.1 ‹_›, h.1.2⟩, h.2⟩)
    | (rs_hyps h => exact ⟨h.1, h.2, fun _ he => by cases he⟩)
    | (rs_hyps h => exact ⟨h.1, h.2.1⟩)
    | (rs_hyps h => exact ⟨h.1, h.2.2⟩)
    | (rs_hyps h => exact ⟨⟨PGS.congr _ _ h.1.1 rfl rfl rfl rfl rfl rfl rfl rfl rfl, h.1.2⟩, h.2⟩)
    | (rs_hyps h => exact ⟨⟨pgs_step _ _ _ _ _ _ _ _ _ h.1.1 (Or.inr rfl) ‹_› ‹_› rfl rfl rfl rfl rfl rfl rfl rfl rfl ‹_› ‹_›, h.1.2⟩, h.2⟩)
    | (rs_hyps h => exact ⟨⟨pgs_step _ _ _ _ _ _ _ _ _ h.1.1 (Or.inl ⟨rfl, ‹¬ _ = true›⟩) ‹_› ‹_› rfl rfl rfl rfl rfl rfl rfl rfl rfl ‹_› ‹_›, h.1.2⟩, h.2⟩)
    | (rs_hyps h => rs_hyps h0 =>
        exact ⟨⟨pgs_mk _ _ _ h.1.1 rfl rfl (congrArg (fun z => z + dt) h0.1.2) rfl rfl rfl rfl rfl rfl rfl rfl rfl rfl, h.1.2⟩,
          h.2.1, evtimes_snoc h.2.2 (congrArg (fun z => z + dt) h0.1.2)⟩)
    | (rs_hyps h => exact ⟨⟨pgc_add _ _ h.1.1 rfl rfl rfl rfl rfl rfl rfl rfl rfl, h.1.2⟩, rootc_add h.2 rfl⟩)
    | (rs_hyps h => exact ⟨⟨pgs_clock _ _ h.1.1 ‹_› (by rw [h.1.2]) rfl rfl rfl rfl rfl rfl rfl rfl rfl, congrArg (· + dt) h.1.2⟩,
        rootc_init h.2.1 h.2.2 rfl⟩)
    | (rs_hyps h => exact ⟨⟨h.1, Int.not_lt.mp ‹_›⟩, h.2.2⟩)

end ErdosVerif.Model.Sim
