import ErdosVerif.Lemmas.SimCancelRun3
/-!
The cancelled-task counter against the `.cancel` history entries, part 5: the handlers that
cancel tasks (a `.cancel` entry immediately followed by the creation of its TASK_CANCEL event),
cache event ids, or count a TASK_CANCEL event.
-/
open Std.Do
set_option mvcgen.warning false

namespace ErdosVerif.Model.Sim.CC
open Heap

theorem perm_snoc0 (q b : List SEvent) (r : SEvent) : (q ++ (b ++ [r])).Perm (r :: (q ++ b)) := by
  rw [← List.append_assoc]
  exact List.perm_append_singleton r (q ++ b)

theorem perm_heappush' (q : Array SEvent) (e : SEvent) (ex : List SEvent) :
    ((heappush SEvent.lt q e).toList ++ ex).Perm (q.toList ++ e :: ex) :=
  (perm_heappush q e ex).trans List.perm_middle.symm

/-- The popped TASK_CANCEL event is counted, then the cached placement event of its task is removed. -/
theorem Inv.countRemove {ex : List SEvent} (s s' : SimS) (ev : SEvent) (eid i : Nat) (t : TaskId)
    (h : Inv (ev :: ex) s) (hev : isTC ev = true)
    (hi : s.queue.findIdx? (fun e => e.ev.eid == eid) = some i) (hfut : s.future.get? t = some eid)
    (hq : s'.queue = heapify SEvent.lt (s.queue.eraseIdxIfInBounds i)) (hl : cancelLogN s' = cancelLogN s)
    (hc : s'.cancelledTasks = s.cancelledTasks + 1) (hn : s'.nextEid = s.nextEid)
    (hf : ∀ p ∈ s'.future, p ∈ s.future) : Inv ex s' :=
  Inv.remove { s with cancelledTasks := s.cancelledTasks + 1 } s' eid i t
    (Inv.count s _ ev h hev rfl rfl rfl rfl rfl) hi hfut hq hl hc hn hf

/-- An outside event is queued, then a fresh event that is not a TASK_CANCEL event is queued. -/
theorem Inv.addFreshAdd (s s' : SimS) (e0 r : SEvent) (h : Inv [e0] s) (hr : isTC r = false)
    (hq : s'.queue = heappush SEvent.lt (heappush SEvent.lt s.queue e0) r) (hl : cancelLogN s' = cancelLogN s)
    (hc : s'.cancelledTasks = s.cancelledTasks) (hn : s'.nextEid = s.nextEid + 1)
    (hf : s'.future = s.future) : Inv [] s' := by
  have h1 : Inv [] { s with queue := heappush SEvent.lt s.queue e0 } :=
    Inv.perm s _ h (perm_heappush' _ _ _) rfl rfl rfl (fun _ h => h)
  exact Inv.fresh _ s' r h1 hr (by rw [hq]; exact perm_heappush _ _ _) hl hc hn (by rw [hf]; exact fun _ h => .inl h)

/-- Closes a goal `Inv _ _` / `W _` from a proof `t : Inv _ _` about an earlier state (every
primitive unfolded). -/
syntax "d_from " term : tactic
macro_rules
  | `(tactic| d_from $t) => `(tactic| first
    | cev_from $t
    | exact Inv.congr _ _ $t rfl (cancelLogN_push_other _ _ _ rfl rfl) rfl rfl rfl
    | exact Inv.freshTC _ _ _ _ _ $t rfl rfl (perm_heappush _ _ _) rfl rfl rfl rfl
    | exact Inv.fresh _ _ _ $t (by rfl) (perm_heappush _ _ _) rfl rfl rfl (fun _ h => .inl h)
    | exact Inv.fresh _ _ _ $t (by rfl) (perm_heappush _ _ _) rfl rfl rfl (fun _ hp => alist_mem_set _ _ _ _ hp)
    | exact Inv.fresh _ _ _ $t (by rfl) (perm_snoc0 _ _ _) rfl rfl rfl (fun _ h => .inl h)
    | exact Inv.perm _ _ $t (perm_heappush' _ _ _) rfl rfl rfl (fun _ h => h)
    | exact Inv.exPerm $t (pySorted_perm _ _))

macro "d_solve" : tactic => `(tactic| first
  | c_close0
  | (pick_hyp h => d_from h)
  | (pick_hyp h => d_from h.1)
  | (simp_all; done))

/-! ### `__handle_task_placement` -/

section notReady
attribute [local spec] setGraph_0 liftE_0 row_0

set_option maxHeartbeats 1600000 in
theorem placementNotReady_0 (ev : SEvent) (t : TaskId) (p : PlacementS) : K0 (placementNotReady ev t p) := by
  mvcgen [placementNotReady, getGraph, getTask, logE, mkEvent, uniqueName, addEvent]
  case inv1 => exact cLoop []
  case inv2 => exact cLoop []
  all_goals try subst_vars
  all_goals first | d_solve
end notReady

section place
attribute [local spec] row_0 logE_0 liftE_0 getGraph_0 setGraph_0 raiseTask_0 getTask_0 taskCall_0 liftTape_0
  getPool_0 setPool_0 raiseOutcome_0 raisePlace_0 uniqueName_0 startTask_0 placementRow_0

set_option maxHeartbeats 1600000 in
theorem placementPlace_0 (ev : SEvent) (t : TaskId) (p : PlacementS) (g : GraphS) (h : g.isReadyToRun t.t = true) :
    K0 (placementPlace ev t p g h) := by
  mvcgen [placementPlace, mkEvent, addEvent]
  all_goals try subst_vars
  all_goals first | d_solve

attribute [local spec] placementPlace_0 placementNotReady_0
theorem handleTaskPlacement_0 (ev : SEvent) : K0 (handleTaskPlacement ev) := by
  mvcgen [handleTaskPlacement]
  all_goals first | k_close
end place

/-! ### `__handle_task_finished` -/

section notify
attribute [local spec] setGraph_0 notifyGraphCompletion_0

set_option maxHeartbeats 1600000 in
theorem finishNotify_0 (t : TaskId) (time : Int) : K0 (finishNotify t time) := by
  mvcgen [finishNotify, getGraph, getTask, logE, mkEvent, uniqueName, addEvent]
  case inv1 => exact cLoop []
  case inv2 => exact cLoop []
  case inv3 => exact cLoop []
  case inv4 => exact cLoop []
  case inv5 => exact cLoop []
  case inv6 => exact cLoop []
  all_goals try subst_vars
  all_goals first | d_solve
end notify

section finished
attribute [local spec] finishRemove_0 finishRows_0 finishNotify_0
theorem handleTaskFinished_0 (ev : SEvent) : K0 (handleTaskFinished ev) := by
  mvcgen [handleTaskFinished]
  all_goals first | k_close
end finished

end ErdosVerif.Model.Sim.CC
