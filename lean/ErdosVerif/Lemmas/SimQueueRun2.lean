import ErdosVerif.Lemmas.SimQueueRun
import ErdosVerif.Lemmas.SimEditPending
/-!
Event order at simulator level, part 3: the scheduler-restart event, the handlers.
-/
open Std.Do
set_option mvcgen.warning false

namespace ErdosVerif.Model.Sim
open Heap

attribute [local spec] row_q logE_q liftE_q liftTape_q getGraph_q setGraph_q raiseTask_q addEvent_q reheapify_q
  removeEvent_q editEvent_q findEvent_q nextOfType_q placedTasks_q getPool_q setPool_q raiseOutcome_q
  raisePlace_q advanceClock_q getTask_q uniqueName_q taskCall_q startTask_q mkEvent_q
  logUtilization_q schedulable_q releasable_q notifyGraphCompletion_q placementSkip_q placementEvents_q

/-- The event type `restart` decides on carries no task. -/
theorem restart_taskType (f : SimFlags) (l e : Int) (i : RestartIn) : taskType (restart f l e i).1 = false := by
  unfold restart
  simp only []
  repeat' split
  all_goals rfl

theorem nextSchedulerEvent_q (evTime : Int) :
    ⦃QA⦄ nextSchedulerEvent evTime ⦃post⟨fun r s => ⌜QInv s ∧ r.WF⌝, fun _ => QA⟩⦄ := by
  mvcgen [nextSchedulerEvent]
  case inv1 => exact qLoop
  all_goals first
    | q_close
    | (intro h1 h2; exact ⟨h1, h2.wf rfl⟩)
    | (pick_hyp h => exact ⟨QInv.congr _ _ h.1 rfl rfl rfl, h.2.wf (restart_taskType _ _ _ _)⟩)
    | (pick_hyp h => exact ⟨h.1, h.2.wf (restart_taskType _ _ _ _)⟩)
attribute [local spec] nextSchedulerEvent_q

/-! ### handlers -/

theorem handleSchedulerStart_q (ev : SEvent) : KeepsQ (handleSchedulerStart ev) := by
  mvcgen [handleSchedulerStart]
  all_goals qev_close

theorem handleTaskCancel_q (ev : SEvent) : KeepsQ (handleTaskCancel ev) := by
  mvcgen [handleTaskCancel]
  all_goals qev_close
theorem handleTaskRelease_q (ev : SEvent) : KeepsQ (handleTaskRelease ev) := by
  mvcgen [handleTaskRelease]
  all_goals qev_close
theorem handleTaskGraphRelease_q (ev : SEvent) : KeepsQ (handleTaskGraphRelease ev) := by
  mvcgen [handleTaskGraphRelease]
  all_goals qev_close
theorem handleProfile_q (ev : SEvent) (load : Bool) : KeepsQ (handleProfile ev load) := by
  mvcgen [handleProfile]
  all_goals qev_close
theorem placementNotReady_q (ev : SEvent) (t : TaskId) (p : PlacementS) : KeepsQ (placementNotReady ev t p) := by
  mvcgen [placementNotReady]
  case inv1 => exact qLoop
  case inv2 => exact qLoop
  all_goals qev_close
theorem placementRow_q (t : TaskId) (pid : Nat) (time : Int) (st : Strategy) : KeepsQ (placementRow t pid time st) := by
  mvcgen [placementRow]
  all_goals qev_close
attribute [local spec] placementRow_q placementNotReady_q
theorem placementPlace_q (ev : SEvent) (t : TaskId) (p : PlacementS) (g : GraphS) (h : g.isReadyToRun t.t = true) :
    KeepsQ (placementPlace ev t p g h) := by
  mvcgen [placementPlace]
  all_goals qev_close
attribute [local spec] placementPlace_q
theorem handleTaskPlacement_q (ev : SEvent) : KeepsQ (handleTaskPlacement ev) := by
  mvcgen [handleTaskPlacement]
  all_goals qev_close
theorem handleUpdateWorkload_q (ev : SEvent) : KeepsQ (handleUpdateWorkload ev) := by
  mvcgen [handleUpdateWorkload]
  case inv1 => exact qLoop
  case inv2 => exact qLoop
  all_goals qev_close

theorem finishRemove_q (t : TaskId) (time : Int) : KeepsQ (finishRemove t time) := by
  mvcgen [finishRemove]
  all_goals qev_close
theorem finishRows_q (t : TaskId) (time : Int) : KeepsQ (finishRows t time) := by
  mvcgen [finishRows]
  all_goals first | exact qLoop | qev_close
theorem finishNotify_q (t : TaskId) (time : Int) : KeepsQ (finishNotify t time) := by
  mvcgen [finishNotify]
  all_goals first | exact qLoop | qev_close
attribute [local spec] finishRemove_q finishRows_q finishNotify_q
theorem handleTaskFinished_q (ev : SEvent) : KeepsQ (handleTaskFinished ev) := by
  mvcgen [handleTaskFinished]
  all_goals qev_close

theorem handleSchedulerFinish_q (ev : SEvent) : KeepsQ (handleSchedulerFinish ev) := by
  mvcgen [handleSchedulerFinish]
  case inv1 => exact evLoop
  case inv2 => exact qLoop
  all_goals first
    | qev_close0
    | (pick_hyp h => exact h.2)
    | (pick_hyp hl => pick_hyp h => exact wf_of_sorted hl h)
    -- the pending list after the in-place edit of a cached placement event (`editPending`)
    | (refine ⟨?_, fun e he => ?_⟩
       · q_close0
       · rcases List.mem_append.mp he with he | he
         · pick_hyp h => exact editPending_forall (P := SEvent.WF) (fun _ _ _ h' => h') _ _ _ h.2 e he
         · pick_hyp h => exact h.2 e he)

end ErdosVerif.Model.Sim
