/-
Completeness of the model w.r.t. its *as-coded* semantic reading: a full plan (a start for
every task with variables, placed or not, plus an optional (worker, strategy)) that satisfies
the start bounds, the deadline rows, the precedence rows, the all-parents rule and the
pairwise capacity rows extends to a feasible point of `gen inst` (all auxiliary variables —
all_parents_placed, starts_after / ends_before / Overlap, task and graph rewards — can be
chosen consistently), with objective = number of graphs whose reward tasks are placed.
-/
import ErdosVerif.Lemmas.IlpCapacity
namespace ErdosVerif.Ilp
open ErdosVerif.Mip

structure FullPlan where
  start : Nat → Int
  place : Nat → Option (Nat × Nat)

namespace FullPlan

def svalF (I : Inst) (fp : FullPlan) (t : Nat) : Int := if I.running t then I.now else fp.start t

def xF (I : Inst) (fp : FullPlan) (t w s : Nat) : Int :=
  if I.running t then (if w = (I.task t).prevW ∧ s = (I.task t).prevS then 1 else 0)
  else if fp.place t = some (w, s) then 1 else 0

def placedB (I : Inst) (fp : FullPlan) (t : Nat) : Bool := I.running t || (fp.place t).isSome
def placedI (I : Inst) (fp : FullPlan) (t : Nat) : Int := if placedB I fp t then 1 else 0

def durF (I : Inst) (fp : FullPlan) (t : Nat) : Int :=
  if I.running t then I.runtime t (I.task t).prevS
  else match fp.place t with
    | some ws => I.runtime t ws.2
    | none => 0

def afterF (I : Inst) (fp : FullPlan) (a b : Nat) : Prop := svalF I fp a - svalF I fp b - durF I fp b ≥ 1
def beforeF (I : Inst) (fp : FullPlan) (a b : Nat) : Prop := svalF I fp a + durF I fp a - svalF I fp b ≤ -1
instance (I : Inst) (fp : FullPlan) (a b : Nat) : Decidable (afterF I fp a b) := by unfold afterF; infer_instance
instance (I : Inst) (fp : FullPlan) (a b : Nat) : Decidable (beforeF I fp a b) := by unfold beforeF; infer_instance

/-- Closed intervals meet and the tasks are not ancestor/descendant. -/
def ovF (I : Inst) (fp : FullPlan) (a b : Nat) : Int :=
  if I.dependent a b then 0 else if afterF I fp a b ∨ beforeF I fp a b then 0 else 1

def allParentsF (I : Inst) (fp : FullPlan) (c : Nat) : Bool :=
  (I.parentVars c).all (placedB I fp) && decide ((I.parentVars c).length = I.nParents c)

def graphDone (I : Inst) (fp : FullPlan) (gi : Nat) : Bool :=
  (I.rewardTasks (I.graphs.getD gi "")).all (placedB I fp)

/-- The assignment read off a full plan. -/
def sigmaOf (I : Inst) (fp : FullPlan) : Var → Int
  | .start t => fp.start t
  | .x t w s => if fp.place t = some (w, s) then 1 else 0
  | .allParents c => if allParentsF I fp c then 1 else 0
  | .after a b => if afterF I fp a b then 1 else 0
  | .before a b => if beforeF I fp a b then 1 else 0
  | .overlap a b => ovF I fp a b
  | .greward g => if graphDone I fp g then 1 else 0
  | .treward t => placedI I fp t

/-- Demand of task `t` on worker `w` for resource `r` under the plan. -/
def dF (I : Inst) (fp : FullPlan) (t w : Nat) (r : String) : Int :=
  isum ((I.stratsNeeding t r).map (fun s => (qreq I t s r : Int) * xF I fp t w s))

/-- The as-coded semantic reading of `gen inst`. -/
structure ValidFull (I : Inst) (fp : FullPlan) : Prop where
  placeWf : ∀ t w s, t < I.nT → I.running t = false → fp.place t = some (w, s) →
    w < I.nW ∧ s < (I.task t).nS ∧ compatible (I.worker w) ((I.task t).strat s) = true
  startLb : ∀ t, t < I.nT → I.running t = false → I.startLb t ≤ fp.start t
  deadline : ∀ t, t < I.nT → I.running t = false → I.enforce t = true →
    fp.start t + durF I fp t ≤ (I.task t).deadline
  required : ∀ t, t < I.nT → I.running t = false → (I.task t).state = .scheduled → I.retract = false →
    (fp.place t).isSome = true
  prec : ∀ c p w s, c < I.nT → I.running c = false → p ∈ I.parentVars c → w < I.nW → s < (I.task p).nS →
    svalF I fp p + (I.runtime p s + 1) * xF I fp p w s ≤ fp.start c
  parents : ∀ c, c < I.nT → I.running c = false → (I.parentVars c).isEmpty = false →
    (fp.place c).isSome = true → allParentsF I fp c = true
  capacity : ∀ t1 w r, t1 < I.nT → w < I.nW → I.skipOn t1 w = false → r ∈ (I.worker w).types →
    dF I fp t1 w r + isum ((I.others t1 w).map (fun t2 => dF I fp t2 w r * ovF I fp t1 t2)) ≤
      (qty (I.worker w).res r : Nat)

/-! ### Values of the model's expressions under `sigmaOf` -/

theorem C14_mem_rewardTasks_lt {I : Inst} {g : String} {t : Nat} (h : t ∈ I.rewardTasks g) : t < I.nT := by
  simp only [Inst.rewardTasks, List.mem_filter, List.mem_range] at h
  exact h.1

section
variable {I : Inst} {fp : FullPlan}

theorem sval_sigma (t : Nat) : sval I (sigmaOf I fp) t = svalF I fp t := by
  unfold sval svalF Inst.startE
  split <;> simp [sigmaOf]

theorem xval_sigma (hv : ValidFull I fp) {t : Nat} (ht : t < I.nT) (w s : Nat) :
    xval I (sigmaOf I fp) t w s = xF I fp t w s := by
  unfold xval xF Inst.xE
  cases hr : I.running t with
  | true => simp
  | false =>
    simp only [Bool.false_eq_true, ↓reduceIte]
    by_cases hc : compatible (I.worker w) ((I.task t).strat s) = true
    · simp [hc, sigmaOf]
    · simp only [hc]
      by_cases hp : fp.place t = some (w, s)
      · exact absurd (hv.placeWf t w s ht hr hp).2.2 hc
      · simp [hp]

theorem isum_keys_indicator (I : Inst) (t w0 s0 : Nat) (c : Int) :
    isum ((I.keys t).map (fun k => if k.1 = w0 ∧ k.2 = s0 then c else 0)) =
      if w0 < I.nW ∧ s0 < (I.task t).nS then c else 0 := by
  unfold Inst.keys
  rw [isum_flatMap]
  have h1 : ∀ w ∈ List.range I.nW,
      isum (((List.range (I.task t).nS).map (fun s => (w, s))).map
        (fun k => if k.1 = w0 ∧ k.2 = s0 then c else 0)) =
      (if w = w0 then (if s0 < (I.task t).nS then c else 0) else 0) := by
    intro w _
    rw [List.map_map]
    by_cases hw : w = w0
    · rw [isum_map_eq _ _ (fun s => if s = s0 then c else 0)]
      · rw [isum_range_indicator]; simp [hw]
      · intro s _; simp [Function.comp, hw]
    · rw [isum_map_zero]
      · simp [hw]
      · intro s _; simp [Function.comp, hw]
  rw [isum_map_eq _ _ _ h1, isum_range_indicator]
  by_cases ha : w0 < I.nW <;> by_cases hb : s0 < (I.task t).nS <;> simp [ha, hb]

/-- Weighted sum of the placement values of a task: only the selected pair contributes. -/
theorem isum_keys_xF
    (hpw : ∀ t w s, t < I.nT → I.running t = false → fp.place t = some (w, s) →
      w < I.nW ∧ s < (I.task t).nS ∧ compatible (I.worker w) ((I.task t).strat s) = true)
    (hwr : I.wfRunning = true) {t : Nat} (ht : t < I.nT) (g : Nat → Int) :
    isum ((I.keys t).map (fun k => g k.2 * xF I fp t k.1 k.2)) =
      if I.running t then g (I.task t).prevS
      else match fp.place t with
        | some ws => g ws.2
        | none => 0 := by
  cases hr : I.running t with
  | true =>
    have hw := wfRunning_spec hwr ht hr
    rw [isum_map_eq _ _ (fun k => if k.1 = (I.task t).prevW ∧ k.2 = (I.task t).prevS then g (I.task t).prevS else 0)]
    · rw [isum_keys_indicator]; simp [hw.1, hw.2]
    · intro k _
      unfold xF
      by_cases hk : k.1 = (I.task t).prevW ∧ k.2 = (I.task t).prevS
      · simp [hr, hk]
      · simp [hr, hk]
  | false =>
    simp only [Bool.false_eq_true, ↓reduceIte]
    cases hp : fp.place t with
    | none =>
      apply isum_map_zero
      intro k _
      simp [xF, hr, hp]
    | some ws =>
      have hw := hpw t ws.1 ws.2 ht hr (by simpa using hp)
      rw [isum_map_eq _ _ (fun k => if k.1 = ws.1 ∧ k.2 = ws.2 then g ws.2 else 0)]
      · rw [isum_keys_indicator]; simp [hw.1, hw.2.1]
      · intro k _
        unfold xF
        by_cases hk : k.1 = ws.1 ∧ k.2 = ws.2
        · have : some ws = some (k.1, k.2) := by
            obtain ⟨a, b⟩ := ws
            obtain ⟨c, d⟩ := k
            simp only at hk
            rw [hk.1, hk.2]
          simp [hr, hp, hk, this]
        · have : ¬ (some ws = some (k.1, k.2)) := by
            intro h; apply hk; cases h; exact ⟨rfl, rfl⟩
          simp [hr, hp, hk, this]

theorem psum_sigma (hv : ValidFull I fp) (hwr : I.wfRunning = true) {t : Nat} (ht : t < I.nT) :
    psum I (sigmaOf I fp) t = placedI I fp t := by
  unfold psum
  have := isum_keys_xF hv.placeWf hwr ht (fun _ => (1 : Int))
  rw [isum_map_eq _ _ (fun k => (fun _ => (1 : Int)) k.2 * xF I fp t k.1 k.2)
    (fun k _ => by simp [xval_sigma hv ht]), this]
  unfold placedI placedB
  cases hr : I.running t with
  | true => simp
  | false => cases hp : fp.place t <;> simp

theorem dur_sigma (hv : ValidFull I fp) (hwr : I.wfRunning = true) {t : Nat} (ht : t < I.nT) :
    dur I (sigmaOf I fp) t = durF I fp t := by
  unfold dur
  have := isum_keys_xF hv.placeWf hwr ht (fun s => I.runtime t s)
  rw [isum_map_eq _ _ (fun k => (fun s => I.runtime t s) k.2 * xF I fp t k.1 k.2)
    (fun k _ => by simp [xval_sigma hv ht]), this]
  rfl

theorem dval_sigma (hv : ValidFull I fp) {t : Nat} (ht : t < I.nT) (w : Nat) (r : String) :
    dval I (sigmaOf I fp) t w r = dF I fp t w r := by
  unfold dval dF
  apply isum_map_eq
  intro s _
  rw [xval_sigma hv ht]

theorem durF_nonneg (I : Inst) (fp : FullPlan) (t : Nat) : 0 ≤ durF I fp t := by
  unfold durF
  split
  · simp [Inst.runtime]
  · split <;> simp [Inst.runtime]

theorem placedI_01 (I : Inst) (fp : FullPlan) (t : Nat) : placedI I fp t = 0 ∨ placedI I fp t = 1 := by
  unfold placedI; split <;> simp

theorem ovF_01 (I : Inst) (fp : FullPlan) (a b : Nat) : ovF I fp a b = 0 ∨ ovF I fp a b = 1 := by
  unfold ovF; split
  · simp
  · split <;> simp

theorem binDecl_ok {σ : Var → Int} {v : Var} (h : σ v = 0 ∨ σ v = 1) : (binDecl v).ok σ :=
  ⟨fun _ => h, fun hc => by simp [binDecl] at hc⟩

/-! ### Every declaration and every constraint holds -/

theorem vars_ok (hv : ValidFull I fp) : ∀ d ∈ I.vars, d.ok (sigmaOf I fp) := by
  intro d hd
  simp only [Inst.vars, List.mem_append] at hd
  rcases hd with ((((h | h) | h) | h) | h) | h
  · -- start and x variables
    simp only [List.mem_flatMap] at h
    obtain ⟨t, ht, hd⟩ := h
    have ht' := mem_nonRunning.mp ht
    simp only [Inst.taskVars, List.mem_cons, List.mem_map] at hd
    rcases hd with rfl | ⟨k, _, rfl⟩
    · refine ⟨fun hc => by simp at hc, fun _ => ⟨?_, trivial⟩⟩
      exact hv.startLb t ht'.1 ht'.2
    · apply binDecl_ok
      simp only [sigmaOf]; split <;> simp
  · simp only [List.mem_map] at h
    obtain ⟨c, _, rfl⟩ := h
    apply binDecl_ok
    simp only [sigmaOf]; split <;> simp
  · simp only [List.mem_map] at h
    obtain ⟨p, _, rfl⟩ := h
    apply binDecl_ok
    exact ovF_01 I fp p.1 p.2
  · simp only [List.mem_flatMap] at h
    obtain ⟨p, _, hd⟩ := h
    simp only [List.mem_cons, List.not_mem_nil, or_false] at hd
    rcases hd with rfl | rfl <;> apply binDecl_ok <;> simp only [sigmaOf] <;> split <;> simp
  · simp only [List.mem_map] at h
    obtain ⟨g, _, rfl⟩ := h
    exact ⟨fun hc => by simp at hc, fun _ => ⟨trivial, trivial⟩⟩
  · split at h
    · simp at h
    · simp only [List.mem_flatMap, List.mem_map] at h
      obtain ⟨gi, _, t, _, rfl⟩ := h
      apply binDecl_ok
      exact placedI_01 I fp t

/-- Number of placed parents: at most the number of parents, with equality iff all placed. -/
theorem isum_placedI_le (I : Inst) (fp : FullPlan) (l : List Nat) :
    isum (l.map (placedI I fp)) ≤ l.length ∧
    (l.all (placedB I fp) = true → isum (l.map (placedI I fp)) = l.length) ∧
    (l.all (placedB I fp) = false → isum (l.map (placedI I fp)) ≤ (l.length : Int) - 1) := by
  induction l with
  | nil => simp
  | cons x xs ih =>
    obtain ⟨h1, h2, h3⟩ := ih
    have e : isum ((x :: xs).map (placedI I fp)) = placedI I fp x + isum (xs.map (placedI I fp)) := rfl
    have hall : (x :: xs).all (placedB I fp) = (placedB I fp x && xs.all (placedB I fp)) := rfl
    have hlen : (((x :: xs).length : Nat) : Int) = (xs.length : Int) + 1 := by simp
    rw [e, hall, hlen]
    cases hx : placedB I fp x with
    | false =>
      have : placedI I fp x = 0 := by simp [placedI, hx]
      rw [this]
      refine ⟨by omega, by simp, fun _ => by omega⟩
    | true =>
      have : placedI I fp x = 1 := by simp [placedI, hx]
      rw [this]
      simp only [Bool.true_and]
      refine ⟨by omega, fun h => by have := h2 h; omega, fun h => by have := h3 h; omega⟩

theorem constrs_hold (hv : ValidFull I fp) (hwr : I.wfRunning = true) (hwp : I.wfParents = true) :
    ∀ c ∈ I.constrs, c.holds (sigmaOf I fp) := by
  intro c hc
  simp only [Inst.constrs, List.mem_append] at hc
  rcases hc with (((h | h) | h) | h) | h
  · -- deadline and placement rows
    simp only [List.mem_flatMap, List.mem_append] at h
    obtain ⟨t, ht, hc⟩ := h
    have ht' := mem_nonRunning.mp ht
    rcases hc with hc | hc
    · unfold Inst.cDeadline at hc
      split at hc
      · rename_i he
        simp only [List.mem_cons, List.not_mem_nil, or_false] at hc
        subst hc
        simp only [Constr.holds, Sense.holds, LinExpr.eval_add, eval_durE, dur_sigma hv hwr ht'.1]
        have := hv.deadline t ht'.1 ht'.2 he
        have e : (I.startE t).eval (sigmaOf I fp) = fp.start t := by
          have := sval_sigma (I := I) (fp := fp) t
          simp only [sval, svalF, ht'.2] at this
          simpa using this
        omega
      · simp at hc
    · unfold Inst.cPlacement at hc
      have hp := psum_sigma hv hwr ht'.1
      split at hc
      · rename_i hs
        simp only [List.mem_cons, List.not_mem_nil, or_false] at hc
        subst hc
        simp only [Constr.holds, Sense.holds, eval_sumX, hp]
        simp only [Bool.and_eq_true, beq_iff_eq, Bool.not_eq_true'] at hs
        have := hv.required t ht'.1 ht'.2 hs.1 hs.2
        simp [placedI, placedB, this]
      · simp only [List.mem_cons, List.not_mem_nil, or_false] at hc
        subst hc
        simp only [Constr.holds, Sense.holds, eval_sumX, hp]
        rcases placedI_01 I fp t with h0 | h1 <;> omega
  · -- dependency rows
    simp only [List.mem_flatMap] at h
    obtain ⟨c', hc', hc⟩ := h
    have hcn := mem_nonRunning.mp hc'
    unfold Inst.cDeps at hc
    split at hc
    · simp at hc
    · rename_i hne
      have hne' : (I.parentVars c').isEmpty = false := by simpa using hne
      simp only [List.mem_append, List.mem_flatMap, List.mem_cons, List.not_mem_nil, or_false] at hc
      have hcount := isum_placedI_le I fp (I.parentVars c')
      have hpe : (I.parentExpr c').eval (sigmaOf I fp) = isum ((I.parentVars c').map (placedI I fp)) := by
        rw [C11_Ilp.eval_parentExpr]
        apply isum_map_eq
        intro p hp
        exact psum_sigma hv hwr (mem_parentVars.mp hp).1
      have hlen := wfParents_spec hwp hcn.1
      rcases hc with ⟨p, hp, hrow⟩ | hrest
      · simp only [Inst.cStartAfter, List.mem_map] at hrow
        obtain ⟨k, hk, rfl⟩ := hrow
        have hk' := mem_keys.mp (by simpa using hk : (k.1, k.2) ∈ I.keys p)
        have hpt := (mem_parentVars.mp hp).1
        simp only [Constr.holds, Sense.holds, LinExpr.eval_sub, LinExpr.eval_add, LinExpr.eval_smul]
        have e1 : (I.startE c').eval (sigmaOf I fp) = fp.start c' := by
          have := sval_sigma (I := I) (fp := fp) c'
          simp only [sval, svalF, hcn.2] at this
          simpa using this
        have e2 : (I.startE p).eval (sigmaOf I fp) = svalF I fp p := sval_sigma p
        have e3 : (I.xE p k.1 k.2).eval (sigmaOf I fp) = xF I fp p k.1 k.2 := xval_sigma hv hpt k.1 k.2
        have := hv.prec c' p k.1 k.2 hcn.1 hcn.2 hp hk'.1 hk'.2
        rw [e1, e2, e3]
        omega
      · rcases hrest with rfl | rfl | rfl
        · -- all_parents_placed = 0 ⇒ Σ ≤ n − 1
          simp only [Constr.holds, Sense.holds, hpe, sigmaOf]
          intro h0
          have hf : allParentsF I fp c' = false := by
            cases hap : allParentsF I fp c' with
            | false => rfl
            | true => simp [hap] at h0
          unfold allParentsF at hf
          simp only [Bool.and_eq_false_iff, decide_eq_false_iff_not] at hf
          rcases hf with hf | hf
          · have := hcount.2.2 hf; omega
          · have := hcount.1; omega
        · -- all_parents_placed = 1 ⇒ Σ = n
          simp only [Constr.holds, Sense.holds, hpe, sigmaOf]
          intro h1
          have ht : allParentsF I fp c' = true := by
            cases hap : allParentsF I fp c' with
            | true => rfl
            | false => simp [hap] at h1
          unfold allParentsF at ht
          simp only [Bool.and_eq_true, decide_eq_true_eq] at ht
          have := hcount.2.1 ht.1
          omega
        · -- all_parents_placed = 0 ⇒ the task itself is unplaced
          simp only [Constr.holds, Sense.holds, eval_sumX, psum_sigma hv hwr hcn.1, sigmaOf]
          intro h0
          have hf : allParentsF I fp c' = false := by
            cases hap : allParentsF I fp c' with
            | false => rfl
            | true => simp [hap] at h0
          unfold placedI placedB
          cases hp : (fp.place c').isSome with
          | false => simp [hcn.2]
          | true =>
            have := hv.parents c' hcn.1 hcn.2 hne' hp
            rw [this] at hf; cases hf
  · -- overlap rows
    simp only [List.mem_flatMap] at h
    obtain ⟨p, hp, hc⟩ := h
    have hp' := mem_pairs.mp (by simpa using hp : (p.1, p.2) ∈ I.pairs)
    unfold Inst.cOverlap at hc
    simp only at hc
    split at hc
    · rename_i hd
      simp only [List.mem_cons, List.not_mem_nil, or_false] at hc
      subst hc
      simp [Constr.holds, Sense.holds, sigmaOf, ovF, hd]
    · rename_i hd
      have ea : (I.afterExpr p.1 p.2).eval (sigmaOf I fp) =
          svalF I fp p.1 - svalF I fp p.2 - durF I fp p.2 := by
        rw [eval_afterExpr, sval_sigma, sval_sigma, dur_sigma hv hwr hp'.2.1]
      have eb : (I.beforeExpr p.1 p.2).eval (sigmaOf I fp) =
          svalF I fp p.1 + durF I fp p.1 - svalF I fp p.2 := by
        rw [eval_beforeExpr, sval_sigma, sval_sigma, dur_sigma hv hwr hp'.1]
      simp only [List.mem_cons, List.not_mem_nil, or_false] at hc
      rcases hc with rfl | rfl | rfl | rfl | rfl
      · simp only [Constr.holds, Sense.holds, ea, sigmaOf]
        intro h0
        by_cases ha : afterF I fp p.1 p.2
        · simp [ha] at h0
        · unfold afterF at ha; omega
      · simp only [Constr.holds, Sense.holds, ea, sigmaOf]
        intro h1
        by_cases ha : afterF I fp p.1 p.2
        · exact ha
        · simp [ha] at h1
      · simp only [Constr.holds, Sense.holds, eb, sigmaOf]
        intro h0
        by_cases hb : beforeF I fp p.1 p.2
        · simp [hb] at h0
        · unfold beforeF at hb; omega
      · simp only [Constr.holds, Sense.holds, eb, sigmaOf]
        intro h1
        by_cases hb : beforeF I fp p.1 p.2
        · exact hb
        · simp [hb] at h1
      · simp only [Constr.holds, Sense.holds, LinExpr.eval_add, LinExpr.eval_ofVar, sigmaOf, ovF, hd]
        have d1 := durF_nonneg I fp p.1
        have d2 := durF_nonneg I fp p.2
        by_cases ha : afterF I fp p.1 p.2 <;> by_cases hb : beforeF I fp p.1 p.2
        · exfalso; unfold afterF at ha; unfold beforeF at hb; omega
        · simp [ha, hb]
        · simp [ha, hb]
        · simp [ha, hb]
  · -- capacity rows
    simp only [List.mem_flatMap, List.mem_range] at h
    obtain ⟨t1, ht1, hc⟩ := h
    simp only [Inst.cResource, List.mem_flatMap, List.mem_filter, List.mem_range, List.mem_map] at hc
    obtain ⟨w, ⟨hw, hskip⟩, r, hr, rfl⟩ := hc
    simp only [Constr.holds, Sense.holds, Inst.resExpr, QuadExpr.eval_add, QuadExpr.eval_ofLin,
      eval_ownDemand, QuadExpr.eval_sumQ, List.map_map, Function.comp_def, eval_otherDemand]
    have hcap := hv.capacity t1 w r ht1 hw (by simpa using hskip) hr
    rw [dval_sigma hv ht1]
    have : isum ((I.others t1 w).map (fun t2 => dval I (sigmaOf I fp) t2 w r * sigmaOf I fp (.overlap t1 t2))) =
        isum ((I.others t1 w).map (fun t2 => dF I fp t2 w r * ovF I fp t1 t2)) := by
      apply isum_map_eq
      intro t2 ht2
      simp only [Inst.others, List.mem_filter, List.mem_range] at ht2
      rw [dval_sigma hv ht2.1]
      rfl
    rw [this]
    exact hcap
  · -- reward rows
    unfold Inst.cObjective at h
    split at h
    · simp at h
    · simp only [List.mem_flatMap, List.mem_range, List.mem_append, List.mem_map, List.mem_cons,
        List.not_mem_nil, or_false] at h
      obtain ⟨gi, _, hc⟩ := h
      rcases hc with ⟨t, ht, rfl⟩ | rfl
      · simp only [Constr.holds, Sense.holds, LinExpr.eval_sub, LinExpr.eval_ofVar, eval_sumX,
          psum_sigma hv hwr (C14_mem_rewardTasks_lt ht), sigmaOf]
        omega
      · simp only [Constr.holds]
        have e : sigmaOf I fp (.greward gi) = if graphDone I fp gi = true then 1 else 0 := rfl
        rw [e]
        have key : (∀ a ∈ (I.rewardTasks (I.graphs.getD gi "")).map Var.treward, sigmaOf I fp a = 1) ↔
            (graphDone I fp gi = true) := by
          unfold graphDone
          simp only [List.mem_map, forall_exists_index, and_imp, forall_apply_eq_imp_iff₂,
            List.all_eq_true]
          constructor
          · intro hall t ht
            have := hall t ht
            have e2 : sigmaOf I fp (.treward t) = placedI I fp t := rfl
            rw [e2] at this
            cases hb : placedB I fp t with
            | true => rfl
            | false => simp [placedI, hb] at this
          · intro hall t ht
            have e2 : sigmaOf I fp (.treward t) = placedI I fp t := rfl
            rw [e2]
            simp [placedI, hall t ht]
        by_cases hk : (∀ a ∈ (I.rewardTasks (I.graphs.getD gi "")).map Var.treward, sigmaOf I fp a = 1)
        · rw [if_pos hk, if_pos (key.mp hk)]
        · rw [if_neg hk, if_neg (fun hh => hk (key.mpr hh))]

end

/-! ### Converse: a feasible point is a valid full plan (as-coded reading) -/

/-- The deadline row, semantically (same statement as `C12_Ilp.deadline_row`). -/
theorem C11_deadline_row {I : Inst} {σ : Var → Int} (h : sat σ (gen I)) {t : Nat} (ht : t < I.nT)
    (hr : I.running t = false) (he : I.enforce t = true) :
    σ (.start t) + dur I σ t ≤ (I.task t).deadline := by
  have hc : Constr.lin s!"{I.tname t}_enforce_deadlines" (LinExpr.add (I.startE t) (I.durE t)) .le
      (I.task t).deadline ∈ I.constrs :=
    mem_constrs_task (mem_nonRunning.mpr ⟨ht, hr⟩) (by simp [Inst.cDeadline, he])
  have := sat_constr h hc
  simp only [Constr.holds, Sense.holds, LinExpr.eval_add, eval_durE] at this
  have hs : (I.startE t).eval σ = σ (.start t) := sval_var hr
  omega

/-- The full plan read off an assignment. -/
def fpOf (I : Inst) (σ : Var → Int) : FullPlan := ⟨fun t => σ (.start t), fun t => I.chosen σ t⟩

section
variable {I : Inst} {σ : Var → Int}

theorem fpOf_placeWf (t w s : Nat) (_ht : t < I.nT) (_hr : I.running t = false)
    (hp : (fpOf I σ).place t = some (w, s)) :
    w < I.nW ∧ s < (I.task t).nS ∧ compatible (I.worker w) ((I.task t).strat s) = true := by
  have := chosen_spec (I := I) (σ := σ) (t := t) (w := w) (s := s) hp
  exact ⟨this.1, this.2.1, (hasVar_compatible this.2.2.1).2⟩

/-- Exactly the chosen pair has value 1. -/
theorem xval_eq_xF (h : sat σ (gen I)) {t : Nat} (ht : t < I.nT) {w s : Nat} (hw : w < I.nW)
    (hs : s < (I.task t).nS) : xval I σ t w s = xF I (fpOf I σ) t w s := by
  unfold xF
  cases hr : I.running t with
  | true => simp [xval_running hr]
  | false =>
    simp only [Bool.false_eq_true, ↓reduceIte]
    have hb := xval_binary h ht hw hs
    by_cases hp : (fpOf I σ).place t = some (w, s)
    · rw [if_pos hp]; exact chosen_xval hp
    · rw [if_neg hp]
      rcases hb with h0 | h1
      · exact h0
      · exfalso
        -- (w, s) has value 1 but is not the chosen pair
        cases hv : I.hasVar t w s with
        | false => rw [xval_novar hr hv] at h1; omega
        | true =>
          have hx : σ (.x t w s) = 1 := by
            have := xval_var (σ := σ) hv
            rw [this] at h1; exact h1
          have hsome := chosen_isSome hw hs hv hx
          cases hc : I.chosen σ t with
          | none => rw [hc] at hsome; cases hsome
          | some ws =>
            have hcs := chosen_spec (w := ws.1) (s := ws.2) (by simpa using hc)
            have hx0 := chosen_xval (I := I) (σ := σ) (t := t) (w := ws.1) (s := ws.2) (by simpa using hc)
            have hne : ¬ (ws.1 = w ∧ ws.2 = s) := by
              intro he; apply hp
              show I.chosen σ t = some (w, s)
              rw [hc, ← he.1, ← he.2]
            -- both pairs contribute to Σ x, which is at most 1
            have hle := psum_le_one h ht hr
            have : (2 : Int) ≤ psum I σ t := by
              unfold psum
              have e1 := isum_keys_indicator I t ws.1 ws.2 1
              have e2 := isum_keys_indicator I t w s 1
              simp only [hcs.1, hcs.2.1, and_self, ↓reduceIte] at e1
              simp only [hw, hs, and_self, ↓reduceIte] at e2
              have hsum := isum_map_add (I.keys t)
                (fun k => if k.1 = ws.1 ∧ k.2 = ws.2 then (1 : Int) else 0)
                (fun k => if k.1 = w ∧ k.2 = s then (1 : Int) else 0)
              have hpt := isum_map_le (I.keys t)
                (fun k => (if k.1 = ws.1 ∧ k.2 = ws.2 then (1 : Int) else 0) + (if k.1 = w ∧ k.2 = s then (1 : Int) else 0))
                (fun k => xval I σ t k.1 k.2)
                (by
                  intro k hk
                  have hk' := mem_keys.mp (by simpa using hk : (k.1, k.2) ∈ I.keys t)
                  have hnn := xval_nonneg h ht hk'.1 hk'.2
                  show (if k.1 = ws.1 ∧ k.2 = ws.2 then (1 : Int) else 0) +
                      (if k.1 = w ∧ k.2 = s then (1 : Int) else 0) ≤ xval I σ t k.1 k.2
                  by_cases ha : k.1 = ws.1 ∧ k.2 = ws.2
                  · have hb' : ¬ (k.1 = w ∧ k.2 = s) := by
                      intro hb'; apply hne; rw [← ha.1, ← ha.2]; exact hb'
                    have e : xval I σ t k.1 k.2 = 1 := by rw [ha.1, ha.2]; exact hx0
                    rw [if_pos ha, if_neg hb', e]; omega
                  · by_cases hb' : k.1 = w ∧ k.2 = s
                    · have e : xval I σ t k.1 k.2 = 1 := by rw [hb'.1, hb'.2]; exact h1
                      rw [if_neg ha, if_pos hb', e]; omega
                    · rw [if_neg ha, if_neg hb']; omega)
              omega
            omega

theorem psum_eq_placedI (h : sat σ (gen I)) (hwr : I.wfRunning = true) {t : Nat} (ht : t < I.nT) :
    psum I σ t = placedI I (fpOf I σ) t := by
  unfold psum
  have := isum_keys_xF (fp := fpOf I σ) fpOf_placeWf hwr ht (fun _ => (1 : Int))
  rw [isum_map_eq _ _ (fun k => (fun _ => (1 : Int)) k.2 * xF I (fpOf I σ) t k.1 k.2)
    (fun k hk => by
      have hk' := mem_keys.mp (by simpa using hk : (k.1, k.2) ∈ I.keys t)
      simp [xval_eq_xF h ht hk'.1 hk'.2]), this]
  unfold placedI placedB
  cases hr : I.running t with
  | true => simp
  | false => cases hp : (fpOf I σ).place t <;> simp

theorem dur_eq_durF (h : sat σ (gen I)) (hwr : I.wfRunning = true) {t : Nat} (ht : t < I.nT) :
    dur I σ t = durF I (fpOf I σ) t := by
  unfold dur
  have := isum_keys_xF (fp := fpOf I σ) fpOf_placeWf hwr ht (fun s => I.runtime t s)
  rw [isum_map_eq _ _ (fun k => (fun s => I.runtime t s) k.2 * xF I (fpOf I σ) t k.1 k.2)
    (fun k hk => by
      have hk' := mem_keys.mp (by simpa using hk : (k.1, k.2) ∈ I.keys t)
      simp [xval_eq_xF h ht hk'.1 hk'.2]), this]
  rfl

theorem sval_eq_svalF (t : Nat) : sval I σ t = svalF I (fpOf I σ) t := by
  unfold sval svalF Inst.startE
  split <;> simp [fpOf]

theorem dval_eq_dF (h : sat σ (gen I)) {t : Nat} (ht : t < I.nT) {w : Nat} (hw : w < I.nW) (r : String) :
    dval I σ t w r = dF I (fpOf I σ) t w r := by
  unfold dval dF
  apply isum_map_eq
  intro s hs
  rw [xval_eq_xF h ht hw (mem_stratsNeeding.mp hs).1]

/-- The `Overlap` variable of a feasible point is "closed intervals meet, not dependent". -/
theorem overlap_eq_ovF (h : sat σ (gen I)) (hwr : I.wfRunning = true) {a b : Nat}
    (hp : (a, b) ∈ I.pairs) : σ (.overlap a b) = ovF I (fpOf I σ) a b := by
  have hp' := mem_pairs.mp hp
  unfold ovF
  cases hd : I.dependent a b with
  | true =>
    have hc := sat_constr h (mem_constrs_overlap hp (c := .lin s!"{I.tname a}_no_overlap_{I.tname b}_dependent"
      (LinExpr.ofVar (.overlap a b)) .eq 0) (by simp [Inst.cOverlap, hd]))
    simpa [Constr.holds, Sense.holds] using hc
  | false =>
    simp only [Bool.false_eq_true, ↓reduceIte]
    have hbin := after_before_binary h hp hd
    have hmem : ∀ c ∈ I.cOverlap (a, b), c ∈ I.constrs := fun c hc => mem_constrs_overlap hp hc
    have r0 := sat_constr h (hmem (.ind s!"{I.tname a}_starts_after_{I.tname b}_ends_False" (.after a b) 0
      (I.afterExpr a b) .le 0) (by simp [Inst.cOverlap, hd]))
    have r1 := sat_constr h (hmem (.ind s!"{I.tname a}_starts_after_{I.tname b}_ends_True" (.after a b) 1
      (I.afterExpr a b) .ge 1) (by simp [Inst.cOverlap, hd]))
    have r2 := sat_constr h (hmem (.ind s!"{I.tname a}_ends_before_{I.tname b}_starts_False" (.before a b) 0
      (I.beforeExpr a b) .ge 0) (by simp [Inst.cOverlap, hd]))
    have r3 := sat_constr h (hmem (.ind s!"{I.tname a}_ends_before_{I.tname b}_starts_True" (.before a b) 1
      (I.beforeExpr a b) .le (-1)) (by simp [Inst.cOverlap, hd]))
    have r4 := sat_constr h (hmem (.lin s!"{I.tname a}_overlap_{I.tname b}"
        (LinExpr.add (LinExpr.add (LinExpr.ofVar (.after a b)) (LinExpr.ofVar (.before a b)))
          (LinExpr.ofVar (.overlap a b))) .eq 1) (by simp [Inst.cOverlap, hd]))
    simp only [Constr.holds, Sense.holds, eval_afterExpr, eval_beforeExpr, LinExpr.eval_add,
      LinExpr.eval_ofVar, sval_eq_svalF, dur_eq_durF h hwr hp'.1, dur_eq_durF h hwr hp'.2.1] at r0 r1 r2 r3 r4
    have d1 := durF_nonneg I (fpOf I σ) a
    have d2 := durF_nonneg I (fpOf I σ) b
    by_cases hA : afterF I (fpOf I σ) a b <;> by_cases hB : beforeF I (fpOf I σ) a b
    · exfalso
      unfold afterF at hA; unfold beforeF at hB
      omega
    · simp only [hA, hB, or_false, ↓reduceIte]
      unfold afterF at hA; unfold beforeF at hB
      rcases hbin.1 with h0 | h1'
      · have := r0 h0; omega
      · rcases hbin.2 with h0 | h1''
        · omega
        · have := r3 h1''; omega
    · simp only [hA, hB, or_true, ↓reduceIte]
      unfold afterF at hA; unfold beforeF at hB
      rcases hbin.2 with h0 | h1''
      · have := r2 h0; omega
      · rcases hbin.1 with h0 | h1'
        · omega
        · have := r1 h1'; omega
    · simp only [hA, hB, or_self, ↓reduceIte]
      unfold afterF at hA; unfold beforeF at hB
      rcases hbin.1 with h0 | h1'
      · rcases hbin.2 with h0' | h1''
        · omega
        · have := r3 h1''; omega
      · have := r1 h1'; omega

/-- **The feasible set of `gen inst` is exactly the as-coded reading** (soundness half). -/
theorem validFull_of_sat (h : sat σ (gen I)) (hwr : I.wfRunning = true) (hwp : I.wfParents = true) :
    ValidFull I (fpOf I σ) where
  placeWf := fpOf_placeWf
  startLb := fun t ht hr => start_lb h ht hr
  deadline := by
    intro t ht hr he
    have := C11_deadline_row h ht hr he
    rw [← dur_eq_durF h hwr ht]
    exact this
  required := by
    intro t ht hr hs hre
    have h1 := psum_eq_one_of_scheduled h ht hr hs hre
    rw [psum_eq_placedI h hwr ht] at h1
    unfold placedI placedB at h1
    cases hp : ((fpOf I σ).place t).isSome with
    | true => rfl
    | false => simp [hr, hp] at h1
  prec := by
    intro c p w s hc hr hp hw hs
    have hne : (I.parentVars c).isEmpty = false := by
      cases hl : I.parentVars c with
      | nil => simp [hl] at hp
      | cons _ _ => simp
    have hm := mem_nonRunning.mpr ⟨hc, hr⟩
    have hrow : Constr.lin
        s!"{I.tname c}_start_after_{I.tname p}_on_worker_{(I.worker w).name}_with_batch_size_{((I.task p).strat s).batch}_runtime_{((I.task p).strat s).runtime}"
        (LinExpr.sub (I.startE c) (LinExpr.add (I.startE p) (LinExpr.smul (I.runtime p s + 1) (I.xE p w s))))
        .ge 0 ∈ I.constrs := by
      apply mem_constrs_deps hm
      simp only [Inst.cDeps, hne, Bool.false_eq_true, ↓reduceIte, List.mem_append, List.mem_flatMap]
      refine Or.inl ⟨p, hp, ?_⟩
      simp only [Inst.cStartAfter, List.mem_map]
      exact ⟨(w, s), mem_keys.mpr ⟨hw, hs⟩, rfl⟩
    have := sat_constr h hrow
    simp only [Constr.holds, Sense.holds, LinExpr.eval_sub, LinExpr.eval_add, LinExpr.eval_smul] at this
    have e1 : (I.startE c).eval σ = σ (.start c) := sval_var hr
    have e2 : (I.xE p w s).eval σ = xF I (fpOf I σ) p w s := xval_eq_xF h (mem_parentVars.mp hp).1 hw hs
    have e3 : (I.startE p).eval σ = svalF I (fpOf I σ) p := sval_eq_svalF p
    rw [e1, e2, e3] at this
    show svalF I (fpOf I σ) p + (I.runtime p s + 1) * xF I (fpOf I σ) p w s ≤ σ (.start c)
    omega
  parents := by
    intro c hc hr hne hpl
    have h1 : 1 ≤ psum I σ c := by
      rw [psum_eq_placedI h hwr hc]; simp [placedI, placedB, hpl]
    unfold allParentsF
    simp only [Bool.and_eq_true, List.all_eq_true, decide_eq_true_eq]
    have hall : ∀ p ∈ I.parentVars c, psum I σ p = 1 := fun p hp =>
      C11_Ilp.child_placed_parents_placed h hwr hwp hc hr hp h1
    refine ⟨fun p hp => ?_, ?_⟩
    · have := hall p hp
      rw [psum_eq_placedI h hwr (mem_parentVars.mp hp).1] at this
      unfold placedI at this
      cases hb : placedB I (fpOf I σ) p with
      | true => rfl
      | false => simp [hb] at this
    · -- Σ over parents = nParents, each term 1
      have hm := mem_nonRunning.mpr ⟨hc, hr⟩
      have hF : Constr.ind s!"{I.tname c}_placement_False" (.allParents c) 0 (I.sumX c) .eq 0 ∈ I.constrs :=
        mem_constrs_deps hm (by simp [Inst.cDeps, hne])
      have hF' := sat_constr h hF
      simp only [Constr.holds, Sense.holds, eval_sumX] at hF'
      have hb := C11_Ilp.allParents_binary h hc hr hne
      have hone : σ (.allParents c) = 1 := by
        rcases hb with h0 | h1'
        · have := hF' h0; omega
        · exact h1'
      have hT : Constr.ind s!"{I.tname c}_parents_placed_True" (.allParents c) 1 (I.parentExpr c) .eq
          (I.nParents c : Int) ∈ I.constrs :=
        mem_constrs_deps hm (by simp [Inst.cDeps, hne])
      have hT' := sat_constr h hT hone
      simp only [Sense.holds, C11_Ilp.eval_parentExpr] at hT'
      have : isum ((I.parentVars c).map (fun p => psum I σ p)) = ((I.parentVars c).length : Nat) := by
        rw [isum_map_eq _ _ (fun _ => (1 : Int)) hall]
        clear hall hT'
        induction I.parentVars c with
        | nil => simp
        | cons x xs ih => simp [ih]; omega
      rw [this] at hT'
      exact_mod_cast hT'
  capacity := by
    intro t1 w r ht1 hw hskip hr
    have hrow := resource_row h ht1 hw hskip hr
    rw [dval_eq_dF h ht1 hw] at hrow
    have : isum ((I.others t1 w).map (fun t2 => dval I σ t2 w r * σ (.overlap t1 t2))) =
        isum ((I.others t1 w).map (fun t2 => dF I (fpOf I σ) t2 w r * ovF I (fpOf I σ) t1 t2)) := by
      apply isum_map_eq
      intro t2 ht2
      simp only [Inst.others, List.mem_filter, List.mem_range, Bool.and_eq_true, bne_iff_ne] at ht2
      rw [dval_eq_dF h ht2.1 hw, overlap_eq_ovF h hwr (mem_pairs.mpr ⟨ht1, ht2.1, ht2.2.1⟩)]
    rw [this] at hrow
    exact hrow

end

end FullPlan
end ErdosVerif.Ilp
