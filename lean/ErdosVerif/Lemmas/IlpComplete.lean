/-
Completeness of the model w.r.t. its *as-coded* semantic reading: a full plan (a start for
every task with variables, placed or not, plus an optional (worker, strategy)) that satisfies
the start bounds, the deadline rows, the precedence rows, the all-parents rule and the
pairwise capacity rows extends to a feasible point of `gen inst` (all auxiliary variables —
all_parents_placed, starts_after / ends_before / Overlap, task and graph rewards — can be
chosen consistently), with objective = number of graphs whose reward tasks are placed.
-/
import ErdosVerif.Lemmas.IlpCapacity
namespace ErdosVerif.Ilp
open ErdosVerif.Mip

structure FullPlan where
  start : Nat → Int
  place : Nat → Option (Nat × Nat)

namespace FullPlan

def svalF (I : Inst) (fp : FullPlan) (t : Nat) : Int := if I.running t then I.now else fp.start t

def xF (I : Inst) (fp : FullPlan) (t w s : Nat) : Int :=
  if I.running t then (if w = (I.task t).prevW ∧ s = (I.task t).prevS then 1 else 0)
  else if fp.place t = some (w, s) then 1 else 0

def placedB (I : Inst) (fp : FullPlan) (t : Nat) : Bool := I.running t || (fp.place t).isSome
def placedI (I : Inst) (fp : FullPlan) (t : Nat) : Int := if placedB I fp t then 1 else 0

def durF (I : Inst) (fp : FullPlan) (t : Nat) : Int :=
  if I.running t then I.runtime t (I.task t).prevS
  else match fp.place t with
    | some ws => I.runtime t ws.2
    | none => 0

def afterF (I : Inst) (fp : FullPlan) (a b : Nat) : Prop := svalF I fp a - svalF I fp b - durF I fp b ≥ 1
def beforeF (I : Inst) (fp : FullPlan) (a b : Nat) : Prop := svalF I fp a + durF I fp a - svalF I fp b ≤ -1
instance (I : Inst) (fp : FullPlan) (a b : Nat) : Decidable (afterF I fp a b) := by unfold afterF; infer_instance
instance (I : Inst) (fp : FullPlan) (a b : Nat) : Decidable (beforeF I fp a b) := by unfold beforeF; infer_instance

/-- Closed intervals meet and the tasks are not ancestor/descendant. -/
def ovF (I : Inst) (fp : FullPlan) (a b : Nat) : Int :=
  if I.dependent a b then 0 else if afterF I fp a b ∨ beforeF I fp a b then 0 else 1

def allParentsF (I : Inst) (fp : FullPlan) (c : Nat) : Bool :=
  (I.parentVars c).all (placedB I fp) && decide ((I.parentVars c).length = I.nParents c)

def graphDone (I : Inst) (fp : FullPlan) (gi : Nat) : Bool :=
  (I.rewardTasks (I.graphs.getD gi "")).all (placedB I fp)

/-- The assignment read off a full plan. -/
def sigmaOf (I : Inst) (fp : FullPlan) : Var → Int
  | .start t => fp.start t
  | .x t w s => if fp.place t = some (w, s) then 1 else 0
  | .allParents c => if allParentsF I fp c then 1 else 0
  | .after a b => if afterF I fp a b then 1 else 0
  | .before a b => if beforeF I fp a b then 1 else 0
  | .overlap a b => ovF I fp a b
  | .greward g => if graphDone I fp g then 1 else 0
  | .treward t => placedI I fp t

/-- Demand of task `t` on worker `w` for resource `r` under the plan. -/
def dF (I : Inst) (fp : FullPlan) (t w : Nat) (r : String) : Int :=
  isum ((I.stratsNeeding t r).map (fun s => (qreq I t s r : Int) * xF I fp t w s))

/-- The as-coded semantic reading of `gen inst`. -/
structure ValidFull (I : Inst) (fp : FullPlan) : Prop where
  placeWf : ∀ t w s, t < I.nT → I.running t = false → fp.place t = some (w, s) →
    w < I.nW ∧ s < (I.task t).nS ∧ compatible (I.worker w) ((I.task t).strat s) = true
  startLb : ∀ t, t < I.nT → I.running t = false → I.startLb t ≤ fp.start t
  deadline : ∀ t, t < I.nT → I.running t = false → I.enforce t = true →
    fp.start t + durF I fp t ≤ (I.task t).deadline
  required : ∀ t, t < I.nT → I.running t = false → (I.task t).state = .scheduled → I.retract = false →
    (fp.place t).isSome = true
  prec : ∀ c p w s, c < I.nT → I.running c = false → p ∈ I.parentVars c → w < I.nW → s < (I.task p).nS →
    svalF I fp p + (I.runtime p s + 1) * xF I fp p w s ≤ fp.start c
  parents : ∀ c, c < I.nT → I.running c = false → (I.parentVars c).isEmpty = false →
    (fp.place c).isSome = true → allParentsF I fp c = true
  capacity : ∀ t1 w r, t1 < I.nT → w < I.nW → I.skipOn t1 w = false → r ∈ (I.worker w).types →
    dF I fp t1 w r + isum ((I.others t1 w).map (fun t2 => dF I fp t2 w r * ovF I fp t1 t2)) ≤
      (qty (I.worker w).res r : Nat)

/-! ### Values of the model's expressions under `sigmaOf` -/

theorem C14_mem_rewardTasks_lt {I : Inst} {g : String} {t : Nat} (h : t ∈ I.rewardTasks g) : t < I.nT := by
  simp only [Inst.rewardTasks, List.mem_filter, List.mem_range] at h
  exact h.1

section
variable {I : Inst} {fp : FullPlan}

theorem sval_sigma (t : Nat) : sval I (sigmaOf I fp) t = svalF I fp t := by
  unfold sval svalF Inst.startE
  split <;> simp [sigmaOf]

theorem xval_sigma (hv : ValidFull I fp) {t : Nat} (ht : t < I.nT) (w s : Nat) :
    xval I (sigmaOf I fp) t w s = xF I fp t w s := by
  unfold xval xF Inst.xE
  cases hr : I.running t with
  | true => simp
  | false =>
    simp only [Bool.false_eq_true, ↓reduceIte]
    by_cases hc : compatible (I.worker w) ((I.task t).strat s) = true
    · simp [hc, sigmaOf]
    · simp only [hc]
      by_cases hp : fp.place t = some (w, s)
      · exact absurd (hv.placeWf t w s ht hr hp).2.2 hc
      · simp [hp]

theorem isum_keys_indicator (I : Inst) (t w0 s0 : Nat) (c : Int) :
    isum ((I.keys t).map (fun k => if k.1 = w0 ∧ k.2 = s0 then c else 0)) =
      if w0 < I.nW ∧ s0 < (I.task t).nS then c else 0 := by
  unfold Inst.keys
  rw [isum_flatMap]
  have h1 : ∀ w ∈ List.range I.nW,
      isum (((List.range (I.task t).nS).map (fun s => (w, s))).map
        (fun k => if k.1 = w0 ∧ k.2 = s0 then c else 0)) =
      (if w = w0 then (if s0 < (I.task t).nS then c else 0) else 0) := by
    intro w _
    rw [List.map_map]
    by_cases hw : w = w0
    · rw [isum_map_eq _ _ (fun s => if s = s0 then c else 0)]
      · rw [isum_range_indicator]; simp [hw]
      · intro s _; simp [Function.comp, hw]
    · rw [isum_map_zero]
      · simp [hw]
      · intro s _; simp [Function.comp, hw]
  rw [isum_map_eq _ _ _ h1, isum_range_indicator]
  by_cases ha : w0 < I.nW <;> by_cases hb : s0 < (I.task t).nS <;> simp [ha, hb]

/-- Weighted sum of the placement values of a task: only the selected pair contributes. -/
theorem isum_keys_xF (hv : ValidFull I fp) (hwr : I.wfRunning = true) {t : Nat} (ht : t < I.nT)
    (g : Nat → Int) :
    isum ((I.keys t).map (fun k => g k.2 * xF I fp t k.1 k.2)) =
      if I.running t then g (I.task t).prevS
      else match fp.place t with
        | some ws => g ws.2
        | none => 0 := by
  cases hr : I.running t with
  | true =>
    have hw := wfRunning_spec hwr ht hr
    rw [isum_map_eq _ _ (fun k => if k.1 = (I.task t).prevW ∧ k.2 = (I.task t).prevS then g (I.task t).prevS else 0)]
    · rw [isum_keys_indicator]; simp [hw.1, hw.2]
    · intro k _
      unfold xF
      by_cases hk : k.1 = (I.task t).prevW ∧ k.2 = (I.task t).prevS
      · simp [hr, hk]
      · simp [hr, hk]
  | false =>
    simp only [Bool.false_eq_true, ↓reduceIte]
    cases hp : fp.place t with
    | none =>
      apply isum_map_zero
      intro k _
      simp [xF, hr, hp]
    | some ws =>
      have hw := hv.placeWf t ws.1 ws.2 ht hr (by simpa using hp)
      rw [isum_map_eq _ _ (fun k => if k.1 = ws.1 ∧ k.2 = ws.2 then g ws.2 else 0)]
      · rw [isum_keys_indicator]; simp [hw.1, hw.2.1]
      · intro k _
        unfold xF
        by_cases hk : k.1 = ws.1 ∧ k.2 = ws.2
        · have : some ws = some (k.1, k.2) := by
            obtain ⟨a, b⟩ := ws
            obtain ⟨c, d⟩ := k
            simp only at hk
            rw [hk.1, hk.2]
          simp [hr, hp, hk, this]
        · have : ¬ (some ws = some (k.1, k.2)) := by
            intro h; apply hk; cases h; exact ⟨rfl, rfl⟩
          simp [hr, hp, hk, this]

theorem psum_sigma (hv : ValidFull I fp) (hwr : I.wfRunning = true) {t : Nat} (ht : t < I.nT) :
    psum I (sigmaOf I fp) t = placedI I fp t := by
  unfold psum
  have := isum_keys_xF hv hwr ht (fun _ => (1 : Int))
  rw [isum_map_eq _ _ (fun k => (fun _ => (1 : Int)) k.2 * xF I fp t k.1 k.2)
    (fun k _ => by simp [xval_sigma hv ht]), this]
  unfold placedI placedB
  cases hr : I.running t with
  | true => simp
  | false => cases hp : fp.place t <;> simp

theorem dur_sigma (hv : ValidFull I fp) (hwr : I.wfRunning = true) {t : Nat} (ht : t < I.nT) :
    dur I (sigmaOf I fp) t = durF I fp t := by
  unfold dur
  have := isum_keys_xF hv hwr ht (fun s => I.runtime t s)
  rw [isum_map_eq _ _ (fun k => (fun s => I.runtime t s) k.2 * xF I fp t k.1 k.2)
    (fun k _ => by simp [xval_sigma hv ht]), this]
  rfl

theorem dval_sigma (hv : ValidFull I fp) {t : Nat} (ht : t < I.nT) (w : Nat) (r : String) :
    dval I (sigmaOf I fp) t w r = dF I fp t w r := by
  unfold dval dF
  apply isum_map_eq
  intro s _
  rw [xval_sigma hv ht]

theorem durF_nonneg (I : Inst) (fp : FullPlan) (t : Nat) : 0 ≤ durF I fp t := by
  unfold durF
  split
  · simp [Inst.runtime]
  · split <;> simp [Inst.runtime]

theorem placedI_01 (I : Inst) (fp : FullPlan) (t : Nat) : placedI I fp t = 0 ∨ placedI I fp t = 1 := by
  unfold placedI; split <;> simp

theorem ovF_01 (I : Inst) (fp : FullPlan) (a b : Nat) : ovF I fp a b = 0 ∨ ovF I fp a b = 1 := by
  unfold ovF; split
  · simp
  · split <;> simp

theorem binDecl_ok {σ : Var → Int} {v : Var} (h : σ v = 0 ∨ σ v = 1) : (binDecl v).ok σ :=
  ⟨fun _ => h, fun hc => by simp [binDecl] at hc⟩

/-! ### Every declaration and every constraint holds -/

theorem vars_ok (hv : ValidFull I fp) : ∀ d ∈ I.vars, d.ok (sigmaOf I fp) := by
  intro d hd
  simp only [Inst.vars, List.mem_append] at hd
  rcases hd with ((((h | h) | h) | h) | h) | h
  · -- start and x variables
    simp only [List.mem_flatMap] at h
    obtain ⟨t, ht, hd⟩ := h
    have ht' := mem_nonRunning.mp ht
    simp only [Inst.taskVars, List.mem_cons, List.mem_map] at hd
    rcases hd with rfl | ⟨k, _, rfl⟩
    · refine ⟨fun hc => by simp at hc, fun _ => ⟨?_, trivial⟩⟩
      exact hv.startLb t ht'.1 ht'.2
    · apply binDecl_ok
      simp only [sigmaOf]; split <;> simp
  · simp only [List.mem_map] at h
    obtain ⟨c, _, rfl⟩ := h
    apply binDecl_ok
    simp only [sigmaOf]; split <;> simp
  · simp only [List.mem_map] at h
    obtain ⟨p, _, rfl⟩ := h
    apply binDecl_ok
    exact ovF_01 I fp p.1 p.2
  · simp only [List.mem_flatMap] at h
    obtain ⟨p, _, hd⟩ := h
    simp only [List.mem_cons, List.not_mem_nil, or_false] at hd
    rcases hd with rfl | rfl <;> apply binDecl_ok <;> simp only [sigmaOf] <;> split <;> simp
  · simp only [List.mem_map] at h
    obtain ⟨g, _, rfl⟩ := h
    exact ⟨fun hc => by simp at hc, fun _ => ⟨trivial, trivial⟩⟩
  · split at h
    · simp at h
    · simp only [List.mem_flatMap, List.mem_map] at h
      obtain ⟨gi, _, t, _, rfl⟩ := h
      apply binDecl_ok
      exact placedI_01 I fp t

/-- Number of placed parents: at most the number of parents, with equality iff all placed. -/
theorem isum_placedI_le (I : Inst) (fp : FullPlan) (l : List Nat) :
    isum (l.map (placedI I fp)) ≤ l.length ∧
    (l.all (placedB I fp) = true → isum (l.map (placedI I fp)) = l.length) ∧
    (l.all (placedB I fp) = false → isum (l.map (placedI I fp)) ≤ (l.length : Int) - 1) := by
  induction l with
  | nil => simp
  | cons x xs ih =>
    obtain ⟨h1, h2, h3⟩ := ih
    have e : isum ((x :: xs).map (placedI I fp)) = placedI I fp x + isum (xs.map (placedI I fp)) := rfl
    have hall : (x :: xs).all (placedB I fp) = (placedB I fp x && xs.all (placedB I fp)) := rfl
    have hlen : (((x :: xs).length : Nat) : Int) = (xs.length : Int) + 1 := by simp
    rw [e, hall, hlen]
    cases hx : placedB I fp x with
    | false =>
      have : placedI I fp x = 0 := by simp [placedI, hx]
      rw [this]
      refine ⟨by omega, by simp, fun _ => by omega⟩
    | true =>
      have : placedI I fp x = 1 := by simp [placedI, hx]
      rw [this]
      simp only [Bool.true_and]
      refine ⟨by omega, fun h => by have := h2 h; omega, fun h => by have := h3 h; omega⟩

theorem constrs_hold (hv : ValidFull I fp) (hwr : I.wfRunning = true) (hwp : I.wfParents = true) :
    ∀ c ∈ I.constrs, c.holds (sigmaOf I fp) := by
  intro c hc
  simp only [Inst.constrs, List.mem_append] at hc
  rcases hc with (((h | h) | h) | h) | h
  · -- deadline and placement rows
    simp only [List.mem_flatMap, List.mem_append] at h
    obtain ⟨t, ht, hc⟩ := h
    have ht' := mem_nonRunning.mp ht
    rcases hc with hc | hc
    · unfold Inst.cDeadline at hc
      split at hc
      · rename_i he
        simp only [List.mem_cons, List.not_mem_nil, or_false] at hc
        subst hc
        simp only [Constr.holds, Sense.holds, LinExpr.eval_add, eval_durE, dur_sigma hv hwr ht'.1]
        have := hv.deadline t ht'.1 ht'.2 he
        have e : (I.startE t).eval (sigmaOf I fp) = fp.start t := by
          have := sval_sigma (I := I) (fp := fp) t
          simp only [sval, svalF, ht'.2] at this
          simpa using this
        omega
      · simp at hc
    · unfold Inst.cPlacement at hc
      have hp := psum_sigma hv hwr ht'.1
      split at hc
      · rename_i hs
        simp only [List.mem_cons, List.not_mem_nil, or_false] at hc
        subst hc
        simp only [Constr.holds, Sense.holds, eval_sumX, hp]
        simp only [Bool.and_eq_true, beq_iff_eq, Bool.not_eq_true'] at hs
        have := hv.required t ht'.1 ht'.2 hs.1 hs.2
        simp [placedI, placedB, this]
      · simp only [List.mem_cons, List.not_mem_nil, or_false] at hc
        subst hc
        simp only [Constr.holds, Sense.holds, eval_sumX, hp]
        rcases placedI_01 I fp t with h0 | h1 <;> omega
  · -- dependency rows
    simp only [List.mem_flatMap] at h
    obtain ⟨c', hc', hc⟩ := h
    have hcn := mem_nonRunning.mp hc'
    unfold Inst.cDeps at hc
    split at hc
    · simp at hc
    · rename_i hne
      have hne' : (I.parentVars c').isEmpty = false := by simpa using hne
      simp only [List.mem_append, List.mem_flatMap, List.mem_cons, List.not_mem_nil, or_false] at hc
      have hcount := isum_placedI_le I fp (I.parentVars c')
      have hpe : (I.parentExpr c').eval (sigmaOf I fp) = isum ((I.parentVars c').map (placedI I fp)) := by
        rw [C11_Ilp.eval_parentExpr]
        apply isum_map_eq
        intro p hp
        exact psum_sigma hv hwr (mem_parentVars.mp hp).1
      have hlen := wfParents_spec hwp hcn.1
      rcases hc with ⟨p, hp, hrow⟩ | hrest
      · simp only [Inst.cStartAfter, List.mem_map] at hrow
        obtain ⟨k, hk, rfl⟩ := hrow
        have hk' := mem_keys.mp (by simpa using hk : (k.1, k.2) ∈ I.keys p)
        have hpt := (mem_parentVars.mp hp).1
        simp only [Constr.holds, Sense.holds, LinExpr.eval_sub, LinExpr.eval_add, LinExpr.eval_smul]
        have e1 : (I.startE c').eval (sigmaOf I fp) = fp.start c' := by
          have := sval_sigma (I := I) (fp := fp) c'
          simp only [sval, svalF, hcn.2] at this
          simpa using this
        have e2 : (I.startE p).eval (sigmaOf I fp) = svalF I fp p := sval_sigma p
        have e3 : (I.xE p k.1 k.2).eval (sigmaOf I fp) = xF I fp p k.1 k.2 := xval_sigma hv hpt k.1 k.2
        have := hv.prec c' p k.1 k.2 hcn.1 hcn.2 hp hk'.1 hk'.2
        rw [e1, e2, e3]
        omega
      · rcases hrest with rfl | rfl | rfl
        · -- all_parents_placed = 0 ⇒ Σ ≤ n − 1
          simp only [Constr.holds, Sense.holds, hpe, sigmaOf]
          intro h0
          have hf : allParentsF I fp c' = false := by
            cases hap : allParentsF I fp c' with
            | false => rfl
            | true => simp [hap] at h0
          unfold allParentsF at hf
          simp only [Bool.and_eq_false_iff, decide_eq_false_iff_not] at hf
          rcases hf with hf | hf
          · have := hcount.2.2 hf; omega
          · have := hcount.1; omega
        · -- all_parents_placed = 1 ⇒ Σ = n
          simp only [Constr.holds, Sense.holds, hpe, sigmaOf]
          intro h1
          have ht : allParentsF I fp c' = true := by
            cases hap : allParentsF I fp c' with
            | true => rfl
            | false => simp [hap] at h1
          unfold allParentsF at ht
          simp only [Bool.and_eq_true, decide_eq_true_eq] at ht
          have := hcount.2.1 ht.1
          omega
        · -- all_parents_placed = 0 ⇒ the task itself is unplaced
          simp only [Constr.holds, Sense.holds, eval_sumX, psum_sigma hv hwr hcn.1, sigmaOf]
          intro h0
          have hf : allParentsF I fp c' = false := by
            cases hap : allParentsF I fp c' with
            | false => rfl
            | true => simp [hap] at h0
          unfold placedI placedB
          cases hp : (fp.place c').isSome with
          | false => simp [hcn.2]
          | true =>
            have := hv.parents c' hcn.1 hcn.2 hne' hp
            rw [this] at hf; cases hf
  · -- overlap rows
    simp only [List.mem_flatMap] at h
    obtain ⟨p, hp, hc⟩ := h
    have hp' := mem_pairs.mp (by simpa using hp : (p.1, p.2) ∈ I.pairs)
    unfold Inst.cOverlap at hc
    simp only at hc
    split at hc
    · rename_i hd
      simp only [List.mem_cons, List.not_mem_nil, or_false] at hc
      subst hc
      simp [Constr.holds, Sense.holds, sigmaOf, ovF, hd]
    · rename_i hd
      have ea : (I.afterExpr p.1 p.2).eval (sigmaOf I fp) =
          svalF I fp p.1 - svalF I fp p.2 - durF I fp p.2 := by
        rw [eval_afterExpr, sval_sigma, sval_sigma, dur_sigma hv hwr hp'.2.1]
      have eb : (I.beforeExpr p.1 p.2).eval (sigmaOf I fp) =
          svalF I fp p.1 + durF I fp p.1 - svalF I fp p.2 := by
        rw [eval_beforeExpr, sval_sigma, sval_sigma, dur_sigma hv hwr hp'.1]
      simp only [List.mem_cons, List.not_mem_nil, or_false] at hc
      rcases hc with rfl | rfl | rfl | rfl | rfl
      · simp only [Constr.holds, Sense.holds, ea, sigmaOf]
        intro h0
        by_cases ha : afterF I fp p.1 p.2
        · simp [ha] at h0
        · unfold afterF at ha; omega
      · simp only [Constr.holds, Sense.holds, ea, sigmaOf]
        intro h1
        by_cases ha : afterF I fp p.1 p.2
        · exact ha
        · simp [ha] at h1
      · simp only [Constr.holds, Sense.holds, eb, sigmaOf]
        intro h0
        by_cases hb : beforeF I fp p.1 p.2
        · simp [hb] at h0
        · unfold beforeF at hb; omega
      · simp only [Constr.holds, Sense.holds, eb, sigmaOf]
        intro h1
        by_cases hb : beforeF I fp p.1 p.2
        · exact hb
        · simp [hb] at h1
      · simp only [Constr.holds, Sense.holds, LinExpr.eval_add, LinExpr.eval_ofVar, sigmaOf, ovF, hd]
        have d1 := durF_nonneg I fp p.1
        have d2 := durF_nonneg I fp p.2
        by_cases ha : afterF I fp p.1 p.2 <;> by_cases hb : beforeF I fp p.1 p.2
        · exfalso; unfold afterF at ha; unfold beforeF at hb; omega
        · simp [ha, hb]
        · simp [ha, hb]
        · simp [ha, hb]
  · -- capacity rows
    simp only [List.mem_flatMap, List.mem_range] at h
    obtain ⟨t1, ht1, hc⟩ := h
    simp only [Inst.cResource, List.mem_flatMap, List.mem_filter, List.mem_range, List.mem_map] at hc
    obtain ⟨w, ⟨hw, hskip⟩, r, hr, rfl⟩ := hc
    simp only [Constr.holds, Sense.holds, Inst.resExpr, QuadExpr.eval_add, QuadExpr.eval_ofLin,
      eval_ownDemand, QuadExpr.eval_sumQ, List.map_map, Function.comp_def, eval_otherDemand]
    have hcap := hv.capacity t1 w r ht1 hw (by simpa using hskip) hr
    rw [dval_sigma hv ht1]
    have : isum ((I.others t1 w).map (fun t2 => dval I (sigmaOf I fp) t2 w r * sigmaOf I fp (.overlap t1 t2))) =
        isum ((I.others t1 w).map (fun t2 => dF I fp t2 w r * ovF I fp t1 t2)) := by
      apply isum_map_eq
      intro t2 ht2
      simp only [Inst.others, List.mem_filter, List.mem_range] at ht2
      rw [dval_sigma hv ht2.1]
      rfl
    rw [this]
    exact hcap
  · -- reward rows
    unfold Inst.cObjective at h
    split at h
    · simp at h
    · simp only [List.mem_flatMap, List.mem_range, List.mem_append, List.mem_map, List.mem_cons,
        List.not_mem_nil, or_false] at h
      obtain ⟨gi, _, hc⟩ := h
      rcases hc with ⟨t, ht, rfl⟩ | rfl
      · simp only [Constr.holds, Sense.holds, LinExpr.eval_sub, LinExpr.eval_ofVar, eval_sumX,
          psum_sigma hv hwr (C14_mem_rewardTasks_lt ht), sigmaOf]
        omega
      · simp only [Constr.holds]
        have e : sigmaOf I fp (.greward gi) = if graphDone I fp gi = true then 1 else 0 := rfl
        rw [e]
        have key : (∀ a ∈ (I.rewardTasks (I.graphs.getD gi "")).map Var.treward, sigmaOf I fp a = 1) ↔
            (graphDone I fp gi = true) := by
          unfold graphDone
          simp only [List.mem_map, forall_exists_index, and_imp, forall_apply_eq_imp_iff₂,
            List.all_eq_true]
          constructor
          · intro hall t ht
            have := hall t ht
            have e2 : sigmaOf I fp (.treward t) = placedI I fp t := rfl
            rw [e2] at this
            cases hb : placedB I fp t with
            | true => rfl
            | false => simp [placedI, hb] at this
          · intro hall t ht
            have e2 : sigmaOf I fp (.treward t) = placedI I fp t := rfl
            rw [e2]
            simp [placedI, hall t ht]
        by_cases hk : (∀ a ∈ (I.rewardTasks (I.graphs.getD gi "")).map Var.treward, sigmaOf I fp a = 1)
        · rw [if_pos hk, if_pos (key.mp hk)]
        · rw [if_neg hk, if_neg (fun hh => hk (key.mpr hh))]

end

end FullPlan
end ErdosVerif.Ilp
