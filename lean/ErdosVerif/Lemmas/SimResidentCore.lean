import ErdosVerif.Lemmas.SimResidentPool
import ErdosVerif.Lemmas.SimResidentGraph
/-!
The residency / exact-runtime invariant over the views of the simulator state, and how
it moves under the three kinds of change that concern a RUNNING task: placement + start,
removal + finish, one `Task.step`. Core Lean only.
-/
namespace ErdosVerif.Model.Sim

/-- The resident list of worker `i` of pool `pi`. -/
def Wk (vs : List (List (List Nat))) (pi i : Nat) : Option (List Nat) := (vs[pi]?).bind (·[i]?)

theorem At_iff (vs : List (List (List Nat))) (pi i n : Nat) : At vs pi i n ↔ ∃ ks, Wk vs pi i = some ks ∧ n ∈ ks := by
  unfold At Wk
  constructor
  · rintro ⟨v, ks, h1, h2, h3⟩; exact ⟨ks, by simp [h1, h2], h3⟩
  · rintro ⟨ks, h1, h3⟩
    cases hv : vs[pi]? with
    | none => simp [hv] at h1
    | some v => exact ⟨v, ks, rfl, by simpa [hv] using h1, h3⟩

theorem Wk_set (vs : List (List (List Nat))) (pi i : Nat) (v : List (List Nat)) (ks ks' : List Nat)
    (hv : vs[pi]? = some v) (hk : v[i]? = some ks) (pj j : Nat) :
    Wk (vs.set pi (v.set i ks')) pj j = if pj = pi ∧ j = i then some ks' else Wk vs pj j := by
  have hpi : pi < vs.length := (List.getElem?_eq_some_iff.mp hv).1
  have hi : i < v.length := (List.getElem?_eq_some_iff.mp hk).1
  unfold Wk
  by_cases hp : pj = pi
  · subst hp
    obtain ⟨_, hve⟩ := List.getElem?_eq_some_iff.mp hv
    by_cases hj : j = i
    · subst hj; simp [hpi, hi]
    · have hj' : ¬ i = j := fun e => hj e.symm
      simp [hpi, hj, hj', hve]
  · have hp' : ¬ pi = pj := fun e => hp e.symm
    simp [hp, hp']

/-- The invariant over the views. `P` is what is known of every RUNNING task (exact
runtime bookkeeping), `q` the queued events. -/
structure Core (vs : List (List (List Nat))) (pm : List (AList Nat Nat)) (T : TaskId → Option TaskS)
    (P : TaskId → TaskS → Prop) (q : List SEvent) : Prop where
  /-- node indices fit the task-id encoding used as key in the worker pools -/
  small : ∀ t x, T t = some x → t.t < 65536
  preOK : ∀ t x, T t = some x → x.PreOK
  /-- no task id twice on one worker -/
  wnodup : ∀ pi i ks, Wk vs pi i = some ks → ks.Nodup
  /-- **single residency**: a task id is resident on at most one worker of one pool -/
  single : ∀ pi i pj j n, At vs pi i n → At vs pj j n → pi = pj ∧ i = j
  /-- the pool-level map knows every resident task -/
  bwd : ∀ pi i n, At vs pi i n → ∃ m, pm[pi]? = some m ∧ m.get? n = some i
  /-- every resident task is RUNNING -/
  resRun : ∀ pi i n, At vs pi i n → ∃ x, T (ungid n) = some x ∧ x.state = .running
  /-- every RUNNING task is resident -/
  runRes : ∀ t x, T t = some x → x.state = .running → ∃ pi i, At vs pi i (gid t)
  run : ∀ t x, T t = some x → x.state = .running → P t x
  /-- a queued TASK_FINISHED event belongs to a task that has started, and while the task
  is RUNNING the event is due exactly when the task's remaining time runs out -/
  fin : ∀ e ∈ q, e.ev.etype = ET.taskFinished → ∀ t, e.tid = some t →
    ∃ x, T t = some x ∧ (x.state = .running ∨ x.isComplete = true) ∧
      (x.state = .running → ∀ r, x.remaining = some r → e.ev.time = x.lastStep + r)

namespace Core
variable {vs : List (List (List Nat))} {pm : List (AList Nat Nat)} {T : TaskId → Option TaskS}
  {P : TaskId → TaskS → Prop} {q : List SEvent}

theorem mono_P {P' : TaskId → TaskS → Prop} (h : Core vs pm T P q)
    (hP : ∀ t x, T t = some x → x.state = .running → P t x → P' t x) : Core vs pm T P' q :=
  { h with run := fun t x ht hs => hP t x ht hs (h.run t x ht hs) }

theorem q_sub {q' : List SEvent} (h : Core vs pm T P q)
    (hq : ∀ e ∈ q', e.ev.etype = ET.taskFinished → e ∈ q) : Core vs pm T P q' :=
  { h with fin := fun e he hf => h.fin e (hq e he hf) hf }

theorem trel {T' : TaskId → Option TaskS} (h : Core vs pm T P q) (hr : TRel T T') : Core vs pm T' P q := by
  -- a RUNNING task of `T'` is the same RUNNING task of `T`
  have back : ∀ t x', T' t = some x' → x'.state = .running → T t = some x' := by
    intro t x' ht hs
    rcases hr.new t x' ht with ⟨x, hx⟩ | ⟨hn, _, _⟩
    · obtain ⟨y, hy, r⟩ := hr.old t x hx
      rw [ht] at hy; cases hy
      rcases r with r | r
      · rw [r]; exact hx
      · exact absurd hs r.2.1
    · exact absurd hs hn
  have fwd : ∀ t x, T t = some x → x.state = .running → T' t = some x := by
    intro t x ht hs
    obtain ⟨y, hy, r⟩ := hr.old t x ht
    rcases r with r | r
    · rw [← r]; exact hy
    · exact absurd hs r.1
  refine ⟨?_, ?_, h.wnodup, h.single, h.bwd, ?_, ?_, ?_, ?_⟩
  · intro t x' ht
    rcases hr.new t x' ht with ⟨x, hx⟩ | ⟨_, _, hs⟩
    · exact h.small t x hx
    · exact hs
  · intro t x' ht
    rcases hr.new t x' ht with ⟨x, hx⟩ | ⟨_, hp, _⟩
    · obtain ⟨y, hy, r⟩ := hr.old t x hx
      rw [ht] at hy; cases hy
      rcases r with r | r
      · rw [r]; exact h.preOK t x hx
      · exact r.2.2.1
    · exact hp
  · intro pi i n hat
    obtain ⟨x, hx, hs⟩ := h.resRun pi i n hat
    exact ⟨x, fwd _ x hx hs, hs⟩
  · intro t x' ht hs
    exact h.runRes t x' (back t x' ht hs) hs
  · intro t x' ht hs
    exact h.run t x' (back t x' ht hs) hs
  · intro e he hf t htid
    obtain ⟨x, hx, h1, h2⟩ := h.fin e he hf t htid
    obtain ⟨y, hy, r⟩ := hr.old t x hx
    rcases r with r | r
    · rw [r] at hy; exact ⟨x, hy, h1, h2⟩
    · refine ⟨y, hy, Or.inr ?_, fun hs => absurd hs r.2.1⟩
      rcases h1 with h1 | h1
      · exact absurd h1 r.1
      · exact r.2.2.2 h1

/-- One more queued event. -/
theorem q_add {q' : List SEvent} (e0 : SEvent) (h : Core vs pm T P q)
    (hq : ∀ e ∈ q', e ∈ q ∨ e = e0)
    (he0 : e0.ev.etype = ET.taskFinished → ∀ t, e0.tid = some t →
      ∃ x, T t = some x ∧ (x.state = .running ∨ x.isComplete = true) ∧
        (x.state = .running → ∀ r, x.remaining = some r → e0.ev.time = x.lastStep + r)) :
    Core vs pm T P q' := by
  refine { h with fin := ?_ }
  intro e he hf
  rcases hq e he with h1 | h1
  · exact h.fin e h1 hf
  · subst h1; exact he0 hf

/-- Residency after task `t` (not RUNNING) was added to worker `i` of pool `pi`. -/
theorem place_At (h : Core vs pm T P q)
    (t : TaskId) (x : TaskS) (pi i : Nat) (v : List (List Nat)) (ks : List Nat)
    (ht : T t = some x) (hx : x.state ≠ .running)
    (hv : vs[pi]? = some v) (hk : v[i]? = some ks) :
    (∀ pj j, ¬ At vs pj j (gid t)) ∧ gid t ∉ ks ∧ addKey ks (gid t) = ks ++ [gid t] ∧
    ∀ pj j n, At (vs.set pi (v.set i (addKey ks (gid t)))) pj j n ↔ ((pj = pi ∧ j = i ∧ n = gid t) ∨ At vs pj j n) := by
  have hsm := h.small t x ht
  have hfresh : ∀ pj j, ¬ At vs pj j (gid t) := by
    intro pj j hat
    obtain ⟨y, hy, hs⟩ := h.resRun pj j _ hat
    rw [ungid_gid t hsm, ht] at hy
    cases hy
    exact hx hs
  have hwk : Wk vs pi i = some ks := by simp [Wk, hv, hk]
  have hnk : gid t ∉ ks := fun hmem => hfresh pi i ((At_iff ..).mpr ⟨ks, hwk, hmem⟩)
  have hadd : addKey ks (gid t) = ks ++ [gid t] := by simp [addKey, hnk]
  refine ⟨hfresh, hnk, hadd, ?_⟩
  rw [hadd]
  intro pj j n
  rw [At_set vs pi i v ks _ hv hk]
  constructor
  · rintro (⟨a, b, c⟩ | ⟨_, c⟩)
    · simp only [List.mem_append, List.mem_singleton] at c
      rcases c with c | c
      · right; subst a; subst b; exact (At_iff ..).mpr ⟨ks, hwk, c⟩
      · exact Or.inl ⟨a, b, c⟩
    · exact Or.inr c
  · rintro (⟨a, b, c⟩ | c)
    · exact Or.inl ⟨a, b, by simp [c]⟩
    · by_cases hpj : pj = pi ∧ j = i
      · obtain ⟨a, b⟩ := hpj
        subst a; subst b
        obtain ⟨ks', h1, h2⟩ := (At_iff ..).mp c
        rw [hwk] at h1; cases h1
        exact Or.inl ⟨rfl, rfl, by simp [h2]⟩
      · exact Or.inr ⟨hpj, c⟩

/-- What survives a placement whose `Task.start` did not happen (or failed): single
residency, and every RUNNING task is resident. -/
theorem place_weak {T' : TaskId → Option TaskS} (h : Core vs pm T P q)
    (t : TaskId) (x : TaskS) (pi i : Nat) (v : List (List Nat)) (ks : List Nat)
    (ht : T t = some x) (hx : x.state ≠ .running)
    (hv : vs[pi]? = some v) (hk : v[i]? = some ks) (hoth : ∀ u, u ≠ t → T' u = T u) :
    (∀ pj j ks', Wk (vs.set pi (v.set i (addKey ks (gid t)))) pj j = some ks' → ks'.Nodup) ∧
    (∀ a b c d n, At (vs.set pi (v.set i (addKey ks (gid t)))) a b n →
        At (vs.set pi (v.set i (addKey ks (gid t)))) c d n → a = c ∧ b = d) ∧
    (∀ u y, T' u = some y → y.state = .running → ∃ pj j, At (vs.set pi (v.set i (addKey ks (gid t)))) pj j (gid u)) := by
  obtain ⟨hfresh, hnk, hadd, hAt⟩ := h.place_At t x pi i v ks ht hx hv hk
  have hwk : Wk vs pi i = some ks := by simp [Wk, hv, hk]
  refine ⟨?_, ?_, ?_⟩
  · intro pj j ks' hw
    rw [Wk_set vs pi i v ks _ hv hk] at hw
    split at hw
    · cases hw
      rw [hadd, List.nodup_append]
      refine ⟨h.wnodup pi i ks hwk, by simp, ?_⟩
      intro a ha b hb
      simp only [List.mem_singleton] at hb
      subst hb
      intro e; subst e; exact hnk ha
    · exact h.wnodup pj j ks' hw
  · intro a b c d n h1 h2
    rw [hAt] at h1 h2
    rcases h1 with ⟨e1, e2, e3⟩ | h1 <;> rcases h2 with ⟨f1, f2, f3⟩ | h2
    · exact ⟨e1.trans f1.symm, e2.trans f2.symm⟩
    · subst e3; exact absurd h2 (hfresh _ _)
    · subst f3; exact absurd h1 (hfresh _ _)
    · exact h.single a b c d n h1 h2
  · intro u y hu hs
    by_cases hut : u = t
    · subst hut; exact ⟨pi, i, (hAt ..).mpr (Or.inl ⟨rfl, rfl, rfl⟩)⟩
    · rw [hoth u hut] at hu
      obtain ⟨pj, j, hat⟩ := h.runRes u y hu hs
      exact ⟨pj, j, (hAt ..).mpr (Or.inr hat)⟩

/-- **Placement + start**: task `t` (not RUNNING, not finished) becomes resident on worker
`i` of pool `pi` and RUNNING. -/
theorem place_start {T' : TaskId → Option TaskS} (h : Core vs pm T P q)
    (t : TaskId) (x x' : TaskS) (pi i : Nat) (v : List (List Nat)) (ks : List Nat) (m : AList Nat Nat)
    (ht : T t = some x) (hx : x.state ≠ .running) (hxc : x.isComplete = false)
    (hv : vs[pi]? = some v) (hk : v[i]? = some ks) (hm : pm[pi]? = some m)
    (hT' : T' t = some x') (hoth : ∀ u, u ≠ t → T' u = T u)
    (hx' : x'.state = .running) (hpre : x'.PreOK) (hP : P t x') :
    Core (vs.set pi (v.set i (addKey ks (gid t)))) (pm.set pi (m.set (gid t) i)) T' P q := by
  have hsm := h.small t x ht
  obtain ⟨hfresh, hnk, hadd, hAt⟩ := h.place_At t x pi i v ks ht hx hv hk
  obtain ⟨hw1, hw2, hw3⟩ := h.place_weak (T' := T') t x pi i v ks ht hx hv hk hoth
  have hwk : Wk vs pi i = some ks := by simp [Wk, hv, hk]
  have hTt : ∀ u y, T' u = some y → (u = t ∧ y = x') ∨ (u ≠ t ∧ T u = some y) := by
    intro u y hu
    by_cases hut : u = t
    · subst hut; rw [hT'] at hu; cases hu; exact Or.inl ⟨rfl, rfl⟩
    · rw [hoth u hut] at hu; exact Or.inr ⟨hut, hu⟩
  refine ⟨?_, ?_, hw1, hw2, ?_, ?_, hw3, ?_, ?_⟩
  · intro u y hu
    rcases hTt u y hu with ⟨rfl, _⟩ | ⟨_, h2⟩
    · exact hsm
    · exact h.small u y h2
  · intro u y hu
    rcases hTt u y hu with ⟨_, rfl⟩ | ⟨_, h2⟩
    · exact hpre
    · exact h.preOK u y h2
  · intro pj j n hat
    rw [hAt] at hat
    rcases hat with ⟨e1, e2, e3⟩ | hat
    · subst e1; subst e2; subst e3
      have hlt : pj < pm.length := (List.getElem?_eq_some_iff.mp hm).1
      exact ⟨m.set (gid t) j, by simp [hlt], by rw [AList.get?_set]; simp⟩
    · obtain ⟨m1, hm1, hg⟩ := h.bwd pj j n hat
      have hne : gid t ≠ n := fun e => hfresh pj j (e ▸ hat)
      by_cases hpj : pj = pi
      · subst hpj
        rw [hm] at hm1; cases hm1
        have hlt : pj < pm.length := (List.getElem?_eq_some_iff.mp hm).1
        exact ⟨m.set (gid t) i, by simp [hlt], by rw [AList.get?_set]; simp [hne, hg]⟩
      · have hpj' : ¬ pi = pj := fun e => hpj e.symm
        exact ⟨m1, by simp [hpj', hm1], hg⟩
  · intro pj j n hat
    rw [hAt] at hat
    rcases hat with ⟨_, _, e3⟩ | hat
    · subst e3
      rw [ungid_gid t hsm]
      exact ⟨x', hT', hx'⟩
    · obtain ⟨y, hy, hs⟩ := h.resRun pj j n hat
      have hne : ungid n ≠ t := by
        intro e
        rw [e, ht] at hy; cases hy
        exact hx hs
      exact ⟨y, by rw [hoth _ hne]; exact hy, hs⟩
  · intro u y hu hs
    rcases hTt u y hu with ⟨rfl, rfl⟩ | ⟨_, h2⟩
    · exact hP
    · exact h.run u y h2 hs
  · intro e he hf u htid
    obtain ⟨y, hy, h1, h2⟩ := h.fin e he hf u htid
    have hne : u ≠ t := by
      intro e'
      rw [e', ht] at hy; cases hy
      rcases h1 with h1 | h1
      · exact hx h1
      · rw [hxc] at h1; cases h1
    exact ⟨y, by rw [hoth u hne]; exact hy, h1, h2⟩

/-- **Removal + finish**: task `t`, resident on worker `i` of pool `pi`, leaves the worker
and finishes. -/
theorem remove_finish {T' : TaskId → Option TaskS} (h : Core vs pm T P q)
    (t : TaskId) (x' : TaskS) (pi i : Nat) (v : List (List Nat)) (ks : List Nat) (m : AList Nat Nat)
    (hsm : t.t < 65536)
    (hv : vs[pi]? = some v) (hk : v[i]? = some ks) (hmem : gid t ∈ ks) (hm : pm[pi]? = some m)
    (hT' : T' t = some x') (hoth : ∀ u, u ≠ t → T' u = T u)
    (hx' : x'.isComplete = true) (hpre : x'.PreOK) :
    Core (vs.set pi (v.set i (ks.erase (gid t)))) (pm.set pi (m.erase (gid t))) T' P q := by
  have hwk : Wk vs pi i = some ks := by simp [Wk, hv, hk]
  have hnd := h.wnodup pi i ks hwk
  have hat0 : At vs pi i (gid t) := (At_iff ..).mpr ⟨ks, hwk, hmem⟩
  have hx'nr : x'.state ≠ .running := by
    intro hs; simp [TaskS.isComplete, hs] at hx'
  have hAt : ∀ pj j n, At (vs.set pi (v.set i (ks.erase (gid t)))) pj j n ↔ (n ≠ gid t ∧ At vs pj j n) := by
    intro pj j n
    rw [At_set vs pi i v ks _ hv hk]
    constructor
    · rintro (⟨a, b, c⟩ | ⟨hne, c⟩)
      · subst a; subst b
        have := (List.Nodup.mem_erase_iff hnd).mp c
        exact ⟨this.1, (At_iff ..).mpr ⟨ks, hwk, this.2⟩⟩
      · refine ⟨?_, c⟩
        intro e; subst e
        exact hne (h.single _ _ _ _ _ c hat0)
    · rintro ⟨hne, c⟩
      by_cases hpj : pj = pi ∧ j = i
      · obtain ⟨a, b⟩ := hpj
        subst a; subst b
        obtain ⟨ks', h1, h2⟩ := (At_iff ..).mp c
        rw [hwk] at h1; cases h1
        exact Or.inl ⟨rfl, rfl, (List.Nodup.mem_erase_iff hnd).mpr ⟨hne, h2⟩⟩
      · exact Or.inr ⟨hpj, c⟩
  have hTt : ∀ u y, T' u = some y → (u = t ∧ y = x') ∨ (u ≠ t ∧ T u = some y) := by
    intro u y hu
    by_cases hut : u = t
    · subst hut; rw [hT'] at hu; cases hu; exact Or.inl ⟨rfl, rfl⟩
    · rw [hoth u hut] at hu; exact Or.inr ⟨hut, hu⟩
  obtain ⟨x, hx, hxs⟩ := h.resRun pi i _ hat0
  rw [ungid_gid t hsm] at hx
  refine ⟨?_, ?_, ?_, ?_, ?_, ?_, ?_, ?_, ?_⟩
  · intro u y hu
    rcases hTt u y hu with ⟨rfl, _⟩ | ⟨_, h2⟩
    · exact hsm
    · exact h.small u y h2
  · intro u y hu
    rcases hTt u y hu with ⟨_, rfl⟩ | ⟨_, h2⟩
    · exact hpre
    · exact h.preOK u y h2
  · intro pj j ks' hw
    rw [Wk_set vs pi i v ks _ hv hk] at hw
    split at hw
    · cases hw; exact hnd.erase _
    · exact h.wnodup pj j ks' hw
  · intro a b c d n h1 h2
    exact h.single a b c d n ((hAt ..).mp h1).2 ((hAt ..).mp h2).2
  · intro pj j n hat
    obtain ⟨hne, hat⟩ := (hAt ..).mp hat
    obtain ⟨m1, hm1, hg⟩ := h.bwd pj j n hat
    by_cases hpj : pj = pi
    · subst hpj
      rw [hm] at hm1; cases hm1
      have hlt : pj < pm.length := (List.getElem?_eq_some_iff.mp hm).1
      exact ⟨m.erase (gid t), by simp [hlt], by rw [AList.get?_erase_ne _ _ _ (fun e => hne e.symm)]; exact hg⟩
    · have hpj' : ¬ pi = pj := fun e => hpj e.symm
      exact ⟨m1, by simp [hpj', hm1], hg⟩
  · intro pj j n hat
    obtain ⟨hne, hat⟩ := (hAt ..).mp hat
    obtain ⟨y, hy, hs⟩ := h.resRun pj j n hat
    have hne' : ungid n ≠ t := by
      intro e; apply hne; rw [← gid_ungid n, e]
    exact ⟨y, by rw [hoth _ hne']; exact hy, hs⟩
  · intro u y hu hs
    rcases hTt u y hu with ⟨_, rfl⟩ | ⟨hut, h2⟩
    · exact absurd hs hx'nr
    · obtain ⟨pj, j, hat⟩ := h.runRes u y h2 hs
      refine ⟨pj, j, (hAt ..).mpr ⟨?_, hat⟩⟩
      intro e
      exact hut (gid_inj u t (h.small u y h2) hsm e)
  · intro u y hu hs
    rcases hTt u y hu with ⟨_, rfl⟩ | ⟨_, h2⟩
    · exact absurd hs hx'nr
    · exact h.run u y h2 hs
  · intro e he hf u htid
    obtain ⟨y, hy, h1, h2⟩ := h.fin e he hf u htid
    by_cases hut : u = t
    · subst hut
      exact ⟨x', hT', Or.inr hx', fun hs => absurd hs hx'nr⟩
    · exact ⟨y, by rw [hoth u hut]; exact hy, h1, h2⟩

/-- **One step of a RUNNING task**: the task stays RUNNING and `last step + remaining`
does not change. -/
theorem update_running {T' : TaskId → Option TaskS} (h : Core vs pm T P q)
    (t : TaskId) (x x' : TaskS) (r r' : Int)
    (ht : T t = some x) (hxs : x.state = .running)
    (hT' : T' t = some x') (hoth : ∀ u, u ≠ t → T' u = T u)
    (hx' : x'.state = .running) (hpre : x'.PreOK) (hP : P t x')
    (hr : x.remaining = some r) (hr' : x'.remaining = some r') (heq : x'.lastStep + r' = x.lastStep + r) :
    Core vs pm T' P q := by
  have hTt : ∀ u y, T' u = some y → (u = t ∧ y = x') ∨ (u ≠ t ∧ T u = some y) := by
    intro u y hu
    by_cases hut : u = t
    · subst hut; rw [hT'] at hu; cases hu; exact Or.inl ⟨rfl, rfl⟩
    · rw [hoth u hut] at hu; exact Or.inr ⟨hut, hu⟩
  refine ⟨?_, ?_, h.wnodup, h.single, h.bwd, ?_, ?_, ?_, ?_⟩
  · intro u y hu
    rcases hTt u y hu with ⟨rfl, _⟩ | ⟨_, h2⟩
    · exact h.small _ x ht
    · exact h.small u y h2
  · intro u y hu
    rcases hTt u y hu with ⟨_, rfl⟩ | ⟨_, h2⟩
    · exact hpre
    · exact h.preOK u y h2
  · intro pj j n hat
    obtain ⟨y, hy, hs⟩ := h.resRun pj j n hat
    by_cases hut : ungid n = t
    · rw [hut]; exact ⟨x', hT', hx'⟩
    · exact ⟨y, by rw [hoth _ hut]; exact hy, hs⟩
  · intro u y hu hs
    rcases hTt u y hu with ⟨rfl, _⟩ | ⟨_, h2⟩
    · exact h.runRes _ x ht hxs
    · exact h.runRes u y h2 hs
  · intro u y hu hs
    rcases hTt u y hu with ⟨rfl, rfl⟩ | ⟨_, h2⟩
    · exact hP
    · exact h.run u y h2 hs
  · intro e he hf u htid
    obtain ⟨y, hy, h1, h2⟩ := h.fin e he hf u htid
    by_cases hut : u = t
    · subst hut
      rw [ht] at hy; cases hy
      refine ⟨x', hT', Or.inl hx', fun _ r'' hr'' => ?_⟩
      rw [hr'] at hr''; cases hr''
      rw [h2 hxs r hr, heq]
    · exact ⟨y, by rw [hoth u hut]; exact hy, h1, h2⟩

end Core

end ErdosVerif.Model.Sim
