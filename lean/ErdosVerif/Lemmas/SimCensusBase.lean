import Lean
import Std.Do
import Std.Tactic.Do
import ErdosVerif.Model.Sim
import ErdosVerif.Lemmas.SimAux
/-!
Run-level census of the simulator model, part 1: definitions.

What is counted, over the monotone history of a run (`rows`, `log`), and the two
predicates proved for every reachable state in `SimCensus.lean`:

* `Census s` — every end-of-run counter equals the number of rows of its kind written so
  far (and `finishedTasks` also the number of `.finish` history entries); every
  SIMULATOR_END row reports the census of the rows written before it;
* `CensusW s` — the same, except that `cancelledTasks` may be one ahead of the TASK_CANCEL
  rows: `__handle_task_cancellation` increments the counter *before* it formats the row,
  and formatting can raise (a task without execution strategy). This is the state an
  aborted run is left in.

This file deliberately does not import `Lemmas/SimInv.lean`: the `@[spec]` lemmas there
are global and would be picked by `mvcgen` for the same program fragments. The specs of
this development are `local` attributes.
-/
open Std.Do
set_option mvcgen.warning false

namespace ErdosVerif.Tactic
open Lean Elab Tactic Meta

/-- `pick_hyp h => tac`: for each hypothesis of the main goal (most recent first), rename it
to `h` and run `tac`; keeps the first attempt in which `tac` closes the goal. (Same as
`try_hyps` of `Lemmas/SimInv.lean`, which is not imported here.) -/
elab "pick_hyp " n:ident " => " tac:tacticSeq : tactic => do
  let goal ← getMainGoal
  let rest := (← getGoals).tail
  let decls ← goal.withContext do
    let lctx ← getLCtx
    pure (lctx.decls.toList.reverse.filterMap id |>.filter (fun d => !d.isImplementationDetail))
  for decl in decls do
    let s ← saveState
    try
      let goal' ← goal.rename decl.fvarId n.getId
      setGoals [goal']
      withoutRecover (evalTactic tac)
      unless (← getUnsolvedGoals).isEmpty do throwError "not closed"
      setGoals rest
      return
    catch _ => s.restore
  throwError "pick_hyp: no hypothesis worked"

end ErdosVerif.Tactic

namespace ErdosVerif.Model.Sim

/-! ### what is counted -/

/-- The kind column of a CSV row. -/
def rowKind (r : Row) : String := r[1]?.getD ""

/-- Number of rows of kind `k`. -/
def countRows (k : String) (rows : List Row) : Nat := rows.countP (fun r => rowKind r == k)

/-- A TASK_GRAPH_FINISHED row whose tardiness column is not 0 (the graph finished after
its deadline). -/
def lateGraphRow (r : Row) : Bool := rowKind r == "TASK_GRAPH_FINISHED" && r[4]?.getD "" != "0"

def isFinishLog : LogE → Bool
  | .finish _ _ => true
  | _ => false

/-- Rows whose kind is none of the counted ones. -/
def neutralRow (r : Row) : Bool :=
  rowKind r != "TASK_FINISHED" && rowKind r != "TASK_CANCEL" && rowKind r != "MISSED_DEADLINE" &&
  rowKind r != "TASK_GRAPH_FINISHED" && rowKind r != "MISSED_TASK_GRAPH_DEADLINE" && rowKind r != "SIMULATOR_END"

/-- What a SIMULATOR_END row must say, given the rows written before it: the numbers of
TASK_FINISHED, TASK_CANCEL, MISSED_DEADLINE, TASK_GRAPH_FINISHED rows, (the number of
cancelled task graphs, not constrained here,) and the number of task graphs that finished
late. -/
def endRowOK (pre : List Row) (r : Row) : Prop :=
  rowKind r = "SIMULATOR_END" →
    ∃ time cg, r = [time, "SIMULATOR_END", nstr (countRows "TASK_FINISHED" pre), nstr (countRows "TASK_CANCEL" pre),
                    nstr (countRows "MISSED_DEADLINE" pre), nstr (countRows "TASK_GRAPH_FINISHED" pre), cg,
                    nstr (pre.countP lateGraphRow)]

/-- Every SIMULATOR_END row of a trace reports the census of the rows before it. -/
def EndRowsOK (rows : List Row) : Prop := ∀ pre r post, rows = pre ++ r :: post → endRowOK pre r

/-- The counters equal the census of the history. -/
structure Census (s : SimS) : Prop where
  fin : s.finishedTasks = countRows "TASK_FINISHED" s.rows.toList
  finLog : s.finishedTasks = s.log.toList.countP isFinishLog
  can : s.cancelledTasks = countRows "TASK_CANCEL" s.rows.toList
  mis : s.missedTaskDeadlines = countRows "MISSED_DEADLINE" s.rows.toList
  gra : s.finishedGraphs = countRows "TASK_GRAPH_FINISHED" s.rows.toList
  misG : s.missedGraphDeadlines = s.rows.toList.countP lateGraphRow
  misGle : s.missedGraphDeadlines ≤ countRows "MISSED_TASK_GRAPH_DEADLINE" s.rows.toList
  ends : EndRowsOK s.rows.toList

/-- The state an aborted run can be left in: `cancelledTasks` may be one ahead. -/
structure CensusW (s : SimS) : Prop where
  fin : s.finishedTasks = countRows "TASK_FINISHED" s.rows.toList
  finLog : s.finishedTasks = s.log.toList.countP isFinishLog
  can : s.cancelledTasks = countRows "TASK_CANCEL" s.rows.toList ∨
        s.cancelledTasks = countRows "TASK_CANCEL" s.rows.toList + 1
  mis : s.missedTaskDeadlines = countRows "MISSED_DEADLINE" s.rows.toList
  gra : s.finishedGraphs = countRows "TASK_GRAPH_FINISHED" s.rows.toList
  misG : s.missedGraphDeadlines = s.rows.toList.countP lateGraphRow
  misGle : s.missedGraphDeadlines ≤ countRows "MISSED_TASK_GRAPH_DEADLINE" s.rows.toList
  ends : EndRowsOK s.rows.toList

theorem Census.weak {s : SimS} (h : Census s) : CensusW s :=
  ⟨h.fin, h.finLog, .inl h.can, h.mis, h.gra, h.misG, h.misGle, h.ends⟩

/-! ### elementary facts -/

theorem countRows_append (k : String) (a b : List Row) : countRows k (a ++ b) = countRows k a + countRows k b := by
  simp [countRows, List.countP_append]

theorem countRows_single (k : String) (r : Row) : countRows k [r] = if rowKind r == k then 1 else 0 := by
  simp [countRows, List.countP_cons]

theorem countRows_push_neutral (k : String) (rows : List Row) (r : Row) (h : rowKind r ≠ k) :
    countRows k (rows ++ [r]) = countRows k rows := by
  rw [countRows_append, countRows_single]
  have : (rowKind r == k) = false := by simpa using h
  simp [this]

theorem endRows_nil : EndRowsOK [] := by
  intro pre r post h
  cases pre <;> simp at h

/-- Appending a row that is not a SIMULATOR_END row keeps `EndRowsOK`. -/
theorem endRows_push (rows : List Row) (r : Row) (h : EndRowsOK rows) (hr : endRowOK rows r) :
    EndRowsOK (rows ++ [r]) := by
  intro pre x post hx
  rcases List.eq_nil_or_concat post with rfl | ⟨post', y, rfl⟩
  · have : rows = pre ∧ r = x := by simpa using hx
    obtain ⟨rfl, rfl⟩ := this
    exact hr
  · have hx' : rows ++ [r] = (pre ++ x :: post') ++ [y] := by simpa using hx
    have := List.append_inj' hx' (by simp)
    exact h pre x post' this.1

theorem endRowOK_of_not_end (pre : List Row) (r : Row) (h : rowKind r ≠ "SIMULATOR_END") : endRowOK pre r :=
  fun h' => absurd h' h

/-- The census reads only the trace, the history log and the five counters. -/
theorem Census.congr (s s' : SimS) (h : Census s) (hr : s'.rows = s.rows) (hl : s'.log = s.log)
    (h1 : s'.finishedTasks = s.finishedTasks) (h2 : s'.cancelledTasks = s.cancelledTasks)
    (h3 : s'.missedTaskDeadlines = s.missedTaskDeadlines) (h4 : s'.finishedGraphs = s.finishedGraphs)
    (h5 : s'.missedGraphDeadlines = s.missedGraphDeadlines) : Census s' := by
  obtain ⟨a, b, c, d, e, f, g, i⟩ := h
  exact ⟨by rw [h1, hr]; exact a, by rw [h1, hl]; exact b, by rw [h2, hr]; exact c, by rw [h3, hr]; exact d,
    by rw [h4, hr]; exact e, by rw [h5, hr]; exact f, by rw [h5, hr]; exact g, by rw [hr]; exact i⟩

theorem CensusW.congr (s s' : SimS) (h : CensusW s) (hr : s'.rows = s.rows) (hl : s'.log = s.log)
    (h1 : s'.finishedTasks = s.finishedTasks) (h2 : s'.cancelledTasks = s.cancelledTasks)
    (h3 : s'.missedTaskDeadlines = s.missedTaskDeadlines) (h4 : s'.finishedGraphs = s.finishedGraphs)
    (h5 : s'.missedGraphDeadlines = s.missedGraphDeadlines) : CensusW s' := by
  obtain ⟨a, b, c, d, e, f, g, i⟩ := h
  exact ⟨by rw [h1, hr]; exact a, by rw [h1, hl]; exact b, by rw [h2, hr]; exact c, by rw [h3, hr]; exact d,
    by rw [h4, hr]; exact e, by rw [h5, hr]; exact f, by rw [h5, hr]; exact g, by rw [hr]; exact i⟩

theorem lateGraphRow_neutral (r : Row) (h : neutralRow r = true) : lateGraphRow r = false := by
  simp only [neutralRow, Bool.and_eq_true, bne_iff_ne, ne_eq] at h
  have : (rowKind r == "TASK_GRAPH_FINISHED") = false := by simpa using h.1.1.2
  simp [lateGraphRow, this]

/-- Writing a row of a kind that is not counted keeps the census. -/
theorem Census.row (s : SimS) (r : Row) (h : Census s) (hn : neutralRow r = true) :
    Census { s with rows := s.rows.push r } := by
  have hl := lateGraphRow_neutral r hn
  simp only [neutralRow, Bool.and_eq_true, bne_iff_ne, ne_eq] at hn
  obtain ⟨⟨⟨⟨⟨n1, n2⟩, n3⟩, n4⟩, n5⟩, n6⟩ := hn
  obtain ⟨a, b, c, d, e, f, g, i⟩ := h
  refine ⟨?_, b, ?_, ?_, ?_, ?_, ?_, ?_⟩ <;> simp only [Array.toList_push]
  · rw [countRows_push_neutral _ _ _ n1]; exact a
  · rw [countRows_push_neutral _ _ _ n2]; exact c
  · rw [countRows_push_neutral _ _ _ n3]; exact d
  · rw [countRows_push_neutral _ _ _ n4]; exact e
  · rw [List.countP_append, List.countP_cons, List.countP_nil, hl]; simpa using f
  · rw [countRows_push_neutral _ _ _ n5]; exact g
  · exact endRows_push _ _ i (endRowOK_of_not_end _ _ n6)

/-- Appending a history entry that is not a `.finish` keeps the census. -/
theorem Census.log (s : SimS) (e : LogE) (h : Census s) (he : isFinishLog e = false) :
    Census { s with log := s.log.push e } := by
  obtain ⟨a, b, c, d, e', f, g, i⟩ := h
  refine ⟨a, ?_, c, d, e', f, g, i⟩
  simp only [Array.toList_push, List.countP_append, List.countP_cons, he, List.countP_nil]
  simpa using b

abbrev CA : Assertion (.except SErr (.arg SimS .pure)) := fun s => ⌜Census s⌝
abbrev CWA : Assertion (.except SErr (.arg SimS .pure)) := fun s => ⌜CensusW s⌝

/-- Keeps the census on normal and on exceptional exit. -/
abbrev KeepsC {α} (x : SimM α) : Prop := ⦃CA⦄ x ⦃post⟨fun _ => CA, fun _ => CA⟩⦄
/-- Keeps the census on normal exit; an exception may leave the weak census. -/
abbrev KeepsCW {α} (x : SimM α) : Prop := ⦃CA⦄ x ⦃post⟨fun _ => CA, fun _ => CWA⟩⦄

abbrev cLoop {β} : PostCond β (.except SErr (.arg SimS .pure)) :=
  post⟨fun _ s => ⌜Census s⌝, fun _ s => ⌜Census s⌝⟩

end ErdosVerif.Model.Sim
