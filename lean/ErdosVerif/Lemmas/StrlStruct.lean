/-
C20 helper lemmas, part 6: Min / Max / LessThan structure of what `populate` reads back.
-/
import ErdosVerif.Lemmas.StrlQuiet
namespace ErdosVerif.Strl

theorem childrenOK_mem (ctx : Ctx) (σ : Assign) (path : Path) : ∀ (cs : List Expr) (i : Nat),
    childrenOK ctx σ path i cs → ∀ x ∈ compileList ctx path i cs, IndOK σ x.2.pr
  | [], _, _ => by simp [compileList]
  | e :: es, i, hok => by
    simp only [childrenOK] at hok
    intro x hx
    simp only [compileList] at hx
    rcases List.mem_cons.mp hx with rfl | hx
    · exact hok.1.1
    · exact childrenOK_mem ctx σ path es (i + 1) hok.2 x hx

theorem varInd_le_isVar (σ : Assign) (r : PR) (h : IndOK σ r) :
    varInd σ r ≤ (if isVarInd r then 1 else 0) := by
  by_cases hv : isVarInd r = true
  · simp only [hv, if_true]; exact varInd_le_one σ r h
  · have hv' : isVarInd r = false := by simpa using hv
    rw [varInd_zero_of_not_var σ r hv']; simp [hv']

theorem pointwise_of_sum_eq (σ : Assign) (l : List (String × Out))
    (hok : ∀ x ∈ l, IndOK σ x.2.pr)
    (hsum : sumBy (fun x => varInd σ x.2.pr) l = sumBy (fun x : String × Out => if isVarInd x.2.pr then (1 : Int) else 0) l) :
    ∀ x ∈ l, isVarInd x.2.pr = true → varInd σ x.2.pr = 1 := by
  induction l with
  | nil => simp
  | cons y ys ih =>
    simp only [sumBy_cons] at hsum
    have h1 := varInd_le_isVar σ y.2.pr (hok y (by simp))
    have h2 : sumBy (fun x => varInd σ x.2.pr) ys ≤ sumBy (fun x : String × Out => if isVarInd x.2.pr then (1 : Int) else 0) ys :=
      sumBy_le_sumBy _ _ _ (fun x hx => varInd_le_isVar σ x.2.pr (hok x (by simp [hx])))
    intro x hx hv
    rcases List.mem_cons.mp hx with rfl | hx
    · simp only [hv, if_true] at h1 hsum
      omega
    · exact ih (fun z hz => hok z (by simp [hz])) (by omega) x hx hv

theorem satisfied_of_varInd (σ : Assign) (r : PR) (hu : r.util = true) (hok : IndOK σ r)
    (h : isVarInd r = true → varInd σ r = 1) : indVal σ r = 1 := by
  unfold indVal
  rcases hok hu with hc | ⟨v, hv, _, _⟩
  · simp [hc, resolveTV]
  · have : isVarInd r = true := by simp [isVarInd, hu, hv]
    have := h this
    simpa [varInd, hu, hv, resolveTV] using this

/-- A `Min` that reports a placement has all its children satisfied. -/
theorem min_all_children (ctx : Ctx) (σ : Assign) (path : Path) (name : String) (cs : List Expr)
    (hok : childrenOK ctx σ path 0 cs)
    (hv : ∀ v ∈ (compileNode ctx path (.min name cs)).vars, Var.holds σ v = true)
    (hc : ∀ c ∈ (compileNode ctx path (.min name cs)).cons, Constr.holds σ c = true)
    (hne : (populateNode ctx σ path (.min name cs)).placements ≠ []) :
    ∀ x ∈ compileList ctx path 0 cs, x.2.pr.util = true ∧ indVal σ x.2.pr = 1 := by
  obtain ⟨hio, hq1, hq2, hq3⟩ := min_quiet ctx σ path name cs hok hv hc
  obtain ⟨hmv, hmu, hmr⟩ := min_facts ctx path name cs
  have hu : (compileNode ctx path (.min name cs)).pr.util = true := by
    cases h : (compileNode ctx path (.min name cs)).pr.util with
    | true => rfl
    | false => exact absurd (hq1 h) hne
  obtain ⟨hall, hind⟩ := hmu hu
  have hcok := childrenOK_mem ctx σ path cs 0 hok
  -- the indicator is the variable `minInd` at 1
  rcases hio hu with hcst | ⟨v, hvar, _, hle⟩
  · exact absurd (hq2 _ hcst) hne
  · have hv1 : σ v = 1 := by
      have : σ v ≠ 0 := fun h0 => hne (hq3 v hvar h0)
      omega
    rw [hvar] at hind
    split at hind
    · simp at hind
    · rename_i h0
      have hcnt : (minAcc path name (minChildren ctx path cs)).count ≠ 0 := by simpa using h0
      simp only [TV.var.injEq] at hind
      subst hind
      have hrow := hc _ (hmr hcnt)
      simp only [Constr.holds, decide_eq_true_eq, evalTerms_append] at hrow
      simp only [evalTerms, List.map_cons, List.map_nil, List.sum_cons, List.sum_nil, hv1] at hrow
      have hf := minFold σ name ⟨path, .minStart⟩ ⟨path, .minEnd⟩ (minChildren ctx path cs) {}
      have hs := (minAcc_sums σ ctx path name cs).1
      simp only [evalTerms] at hs
      have hcount : ((minAcc path name (minChildren ctx path cs)).count : Int)
          = sumBy (fun x : String × Out => if isVarInd x.2.pr then (1 : Int) else 0) (compileList ctx path 0 cs) := by
        have := hf.2
        unfold minAcc
        rw [this]
        simp [minChildren, sumBy_map]
      have hpt := pointwise_of_sum_eq σ (compileList ctx path 0 cs) hcok (by
        simp only [Int.ofNat_eq_natCast] at hrow
        omega)
      intro x hx
      exact ⟨hall x hx, satisfied_of_varInd σ x.2.pr (hall x hx) (hcok x hx) (hpt x hx)⟩


theorem tvTerm_eval (σ : Assign) (k : Int) (tv : TV) :
    evalTerms σ (tvTerm k tv).1 - (tvTerm k tv).2 = k * resolveTV σ tv := by
  cases tv with
  | const c => simp [tvTerm, evalTerms, resolveTV]
  | var v => simp [tvTerm, evalTerms, resolveTV]

theorem indTermOf_count_le (σ : Assign) (r : PR) (hok : IndOK σ r) (hu : r.util = true) :
    varInd σ r ≤ ((indTermOf r.ind).2 : Int) ∧
    (varInd σ r = ((indTermOf r.ind).2 : Int) → indVal σ r = 1) := by
  unfold indVal
  rcases hok hu with hc | ⟨v, hv, h0, h1⟩
  · simp [hc, varInd, hu, indTermOf, resolveTV]
  · simp only [hv, varInd, hu, indTermOf, resolveTV, if_true]
    constructor
    · simpa using h1
    · intro h; simpa using h

/-- A `LessThan` that is not decided at compile time and whose children both provide utility:
the happens-before row holds for every feasible assignment, and if the node reports any
placement then both children are satisfied. -/
theorem lt_sound (ctx : Ctx) (σ : Assign) (path : Path) (name : String) (a b : Expr)
    (hua : (compileNode ctx (0 :: path) a).pr.util = true)
    (hub : (compileNode ctx (1 :: path) b).pr.util = true)
    (hns : ¬(isConst (compileNode ctx (0 :: path) a).pr.stop = true ∧
      isConst (compileNode ctx (1 :: path) b).pr.start = true))
    (ha : IndOK σ (compileNode ctx (0 :: path) a).pr ∧
      Quiet σ (compileNode ctx (0 :: path) a).pr (populateNode ctx σ (0 :: path) a).placements)
    (hb : IndOK σ (compileNode ctx (1 :: path) b).pr ∧
      Quiet σ (compileNode ctx (1 :: path) b).pr (populateNode ctx σ (1 :: path) b).placements)
    (hv : ∀ v ∈ (compileNode ctx path (.lt name a b)).vars, Var.holds σ v = true)
    (hc : ∀ c ∈ (compileNode ctx path (.lt name a b)).cons, Constr.holds σ c = true) :
    resolveTV σ (compileNode ctx (0 :: path) a).pr.stop ≤ resolveTV σ (compileNode ctx (1 :: path) b).pr.start ∧
    ((populateNode ctx σ path (.lt name a b)).placements ≠ [] →
      indVal σ (compileNode ctx (0 :: path) a).pr = 1 ∧ indVal σ (compileNode ctx (1 :: path) b).pr = 1) := by
  have hq := lt_quiet ctx σ path name a b (fun h => hns ⟨h.2.2.1, h.2.2.2⟩) ha hb hv hc
  simp only [compileNode] at hv hc hq
  generalize hpa : (compileNode ctx (0 :: path) a).pr = pa at *
  generalize hpb : (compileNode ctx (1 :: path) b).pr = pb at *
  unfold finishLt at hv hc hq
  have hu : (pa.util && pb.util) = true := by simp [hua, hub]
  have hst : (isConst pa.stop && isConst pb.start) = false := by
    cases h : (isConst pa.stop && isConst pb.start) with
    | false => rfl
    | true => simp at h; exact absurd h hns
  simp only [hu, Bool.not_true, Bool.false_eq_true, if_false, hst] at hv hc hq
  have hsat := hv ⟨⟨path, .ltSat⟩, name ++ "_is_satisfied", .bin, some 0, .none⟩ (by simp)
  simp [Var.holds] at hsat
  constructor
  · have hrow := hc ⟨name ++ "_happens_before_constraint", .le,
      0 + (tvTerm 1 pa.stop).2 + (tvTerm (-1) pb.start).2, (tvTerm 1 pa.stop).1 ++ (tvTerm (-1) pb.start).1⟩ (by simp)
    simp only [Constr.holds, decide_eq_true_eq, evalTerms_append] at hrow
    have e1 := tvTerm_eval σ 1 pa.stop
    have e2 := tvTerm_eval σ (-1) pb.start
    omega
  · intro hne
    obtain ⟨_, _, _, hq3⟩ := hq
    have hs1 : σ ⟨path, .ltSat⟩ = 1 := by
      have : σ ⟨path, .ltSat⟩ ≠ 0 := fun h0 => hne (hq3 _ rfl h0)
      omega
    have hrow := hc ⟨name ++ "_less_than_indicator_constraint", .eq, 0,
      (indTermOf pa.ind).1 ++ (indTermOf pb.ind).1 ++
        [(-(Int.ofNat ((indTermOf pa.ind).2 + (indTermOf pb.ind).2)), ⟨path, .ltSat⟩)]⟩ (by simp)
    simp only [Constr.holds, decide_eq_true_eq, evalTerms_append, evalTerms_indTermOf σ pa hua,
      evalTerms_indTermOf σ pb hub] at hrow
    simp only [evalTerms, List.map_cons, List.map_nil, List.sum_cons, List.sum_nil, hs1] at hrow
    have ⟨la, ea⟩ := indTermOf_count_le σ pa ha.1 hua
    have ⟨lb, eb⟩ := indTermOf_count_le σ pb hb.1 hub
    simp only [Int.ofNat_eq_natCast, Int.natCast_add] at hrow
    exact ⟨ea (by omega), eb (by omega)⟩


theorem quiet_clause (σ : Assign) (r : PR) (pls : List Placement) (hio : IndOK σ r) (hq : Quiet σ r pls) :
    (r.util = false ∨ indVal σ r = 0) → pls = [] := by
  obtain ⟨q1, q2, q3⟩ := hq
  rintro (h | h)
  · exact q1 h
  · by_cases hu : r.util = true
    · rcases hio hu with hc | ⟨v, hv, _, _⟩
      · exact q2 _ hc
      · apply q3 v hv
        simpa [indVal, hv, resolveTV] using h
    · exact q1 (by simpa using hu)

mutual
theorem node_structure (ctx : Ctx) (σ : Assign) :
    ∀ (e : Expr) (path : Path), buildErr e = none → noStaticLt ctx path e = true →
      (∀ v ∈ (compileNode ctx path e).vars, Var.holds σ v = true) →
      (∀ c ∈ (compileNode ctx path e).cons, Constr.holds σ c = true) →
      forallNodes (nodeClause ctx σ) path e
  | .choose name strategy parts n start dur u, path, hb, hn, hv, hc => by
    have hq := node_quiet ctx σ _ path hb hn hv hc
    simp only [forallNodes, nodeClause]
    exact ⟨quiet_clause σ _ _ hq.1 hq.2, trivial⟩
  | .alloc name allocs start dur, path, hb, hn, hv, hc => by
    have hq := node_quiet ctx σ _ path hb hn hv hc
    simp only [forallNodes, nodeClause]
    exact ⟨quiet_clause σ _ _ hq.1 hq.2, trivial⟩
  | .obj name cs, path, hb, hn, hv, hc => by
    have hq := node_quiet ctx σ _ path hb hn hv hc
    simp only [forallNodes, nodeClause]
    simp only [buildErr] at hb
    simp only [noStaticLt] at hn
    exact ⟨⟨quiet_clause σ _ _ hq.1 hq.2, trivial⟩, list_structure ctx σ cs path 0 hb hn
      (fun v h => hv v (by simp only [compileNode]; exact h))
      (fun c h => hc c (by simp only [compileNode]; exact h))⟩
  | .min name cs, path, hb, hn, hv, hc => by
    have hq := node_quiet ctx σ _ path hb hn hv hc
    simp only [forallNodes, nodeClause]
    simp only [buildErr] at hb
    simp only [noStaticLt] at hn
    have hv' := fun v h => hv v (min_vars ctx path name cs v h)
    have hc' := fun c h => hc c (min_cons ctx path name cs c h)
    exact ⟨⟨quiet_clause σ _ _ hq.1 hq.2,
        min_all_children ctx σ path name cs (list_quiet ctx σ cs path 0 hb hn hv' hc') hv hc⟩,
      list_structure ctx σ cs path 0 hb hn hv' hc'⟩
  | .max name cs, path, hb, hn, hv, hc => by
    have hq := node_quiet ctx σ _ path hb hn hv hc
    simp only [forallNodes, nodeClause]
    have hb' := hb
    simp only [buildErr] at hb
    simp only [noStaticLt] at hn
    have hcs : cs.all isLeafChoose = true := by
      split at hb
      · simp at hb
      · split at hb
        · simp at hb
        · rename_i h; simpa using h
    have hbl : buildErrList cs = none := by
      split at hb
      · simp at hb
      · assumption
    exact ⟨⟨quiet_clause σ _ _ hq.1 hq.2, max_node_at_most_one ctx σ path name cs hcs hv hc⟩,
      list_structure ctx σ cs path 0 hbl hn
        (fun v h => hv v (max_vars ctx path name cs v h))
        (fun c h => hc c (max_cons ctx path name cs c h))⟩
  | .lt name a b, path, hb, hn, hv, hc => by
    have hq := node_quiet ctx σ _ path hb hn hv hc
    simp only [forallNodes, nodeClause]
    simp only [buildErr] at hb
    have hba : buildErr a = none := by
      split at hb
      · simp at hb
      · assumption
    have hbb : buildErr b = none := by
      split at hb
      · simp at hb
      · exact hb
    simp only [noStaticLt, Bool.and_eq_true, Bool.not_eq_true'] at hn
    obtain ⟨⟨hna, hnb⟩, hns⟩ := hn
    have hva := fun v h => hv v (lt_vars ctx path name a b v (Or.inl h))
    have hca := fun c h => hc c (lt_cons ctx path name a b c (Or.inl h))
    have hvb := fun v h => hv v (lt_vars ctx path name a b v (Or.inr h))
    have hcb := fun c h => hc c (lt_cons ctx path name a b c (Or.inr h))
    refine ⟨⟨quiet_clause σ _ _ hq.1 hq.2, ?_⟩, node_structure ctx σ a (0 :: path) hba hna hva hca,
      node_structure ctx σ b (1 :: path) hbb hnb hvb hcb⟩
    intro hua hub
    exact lt_sound ctx σ path name a b hua hub (by
        rintro ⟨h3, h4⟩
        simp [hua, hub, h3, h4] at hns)
      (node_quiet ctx σ a (0 :: path) hba hna hva hca) (node_quiet ctx σ b (1 :: path) hbb hnb hvb hcb) hv hc
  | .scale name f d c, path, hb, hn, hv, hc => by
    have hq := node_quiet ctx σ _ path hb hn hv hc
    simp only [forallNodes, nodeClause]
    simp only [buildErr] at hb
    simp only [noStaticLt] at hn
    exact ⟨⟨quiet_clause σ _ _ hq.1 hq.2, trivial⟩, node_structure ctx σ c (0 :: path) hb hn
      (fun v h => hv v (by simp only [compileNode]; exact h))
      (fun c' h => hc c' (by simp only [compileNode]; exact h))⟩
theorem list_structure (ctx : Ctx) (σ : Assign) :
    ∀ (cs : List Expr) (path : Path) (i : Nat), buildErrList cs = none → noStaticLtL ctx path i cs = true →
      (∀ v ∈ (compileList ctx path i cs).flatMap (·.2.vars), Var.holds σ v = true) →
      (∀ c ∈ (compileList ctx path i cs).flatMap (·.2.cons), Constr.holds σ c = true) →
      forallNodesL (nodeClause ctx σ) path i cs
  | [], _, _, _, _, _, _ => by simp [forallNodesL]
  | e :: es, path, i, hb, hn, hv, hc => by
    simp only [buildErrList] at hb
    simp only [noStaticLtL, Bool.and_eq_true] at hn
    simp only [compileList, List.flatMap_cons] at hv hc
    have hbe : buildErr e = none := by
      split at hb
      · simp at hb
      · assumption
    have hbes : buildErrList es = none := by
      split at hb
      · simp at hb
      · exact hb
    simp only [forallNodesL]
    exact ⟨node_structure ctx σ e (i :: path) hbe hn.1
        (fun v h => hv v (List.mem_append_left _ h)) (fun c h => hc c (List.mem_append_left _ h)),
      list_structure ctx σ es path (i + 1) hbes hn.2
        (fun v h => hv v (List.mem_append_right _ h)) (fun c h => hc c (List.mem_append_right _ h))⟩
end

end ErdosVerif.Strl
