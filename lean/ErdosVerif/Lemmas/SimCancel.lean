import ErdosVerif.Lemmas.SimStatesRun
import ErdosVerif.Lemmas.Heap
/-!
The cancelled-task counter against the `.cancel` history entries, part 1: the invariant and
the pure lemmas.

`CC.Inv ex s` (`ex` = events that exist but are not in the queue at the moment: the popped
event being handled, events collected in a local list before they are queued):

* number of `.cancel` entries of the history = `cancelledTasks` + number of TASK_CANCEL
  events in `queue ++ ex`: every `.cancel` entry has exactly one TASK_CANCEL event, which is
  pending or was handled (and counted);
* the event ids cached in `_future_placement_events` are below the id counter, every pending
  TASK_CANCEL event has an id below the counter, and no cached id is the id of a pending
  TASK_CANCEL event — so `remove_event(cached id)` never removes a TASK_CANCEL event.

`CC.W s` (`cancelledTasks ≤ #.cancel`) is what also holds at the raise point of an aborted run.
-/
namespace ErdosVerif.Model.Sim.CC
open Heap

def isTC (e : SEvent) : Bool := e.ev.etype == ET.taskCancel

/-- Number of TASK_CANCEL events of a list. -/
abbrev tcN (l : List SEvent) : Nat := l.countP isTC

structure Inv (ex : List SEvent) (s : SimS) : Prop where
  acct : cancelLogN s = s.cancelledTasks + tcN (s.queue.toList ++ ex)
  futLt : ∀ p ∈ s.future, p.2 < s.nextEid
  tcLt : ∀ e ∈ s.queue.toList ++ ex, isTC e = true → e.ev.eid < s.nextEid
  tcNotFut : ∀ e ∈ s.queue.toList ++ ex, isTC e = true → ∀ p ∈ s.future, p.2 ≠ e.ev.eid

/-- The counter never exceeds the number of `.cancel` entries. -/
def W (s : SimS) : Prop := s.cancelledTasks ≤ cancelLogN s

theorem Inv.weak {ex : List SEvent} {s : SimS} (h : Inv ex s) : W s := by
  have := h.acct; unfold W; omega

theorem W.congr (s s' : SimS) (h : W s) (hl : s'.log = s.log) (hc : s'.cancelledTasks = s.cancelledTasks) : W s' := by
  unfold W cancelLogN at *; rw [hl, hc]; exact h

theorem cancelLogN_push (s s' : SimS) (e : LogE) (hl : s'.log = s.log.push e) :
    cancelLogN s' = cancelLogN s + (if isCancelLog e then 1 else 0) := by
  unfold cancelLogN; rw [hl]
  simp [List.countP_append, List.countP_cons]

/-- Any new history entry keeps the weak form. -/
theorem W.log (s s' : SimS) (e : LogE) (h : W s) (hl : s'.log = s.log.push e) (hc : s'.cancelledTasks = s.cancelledTasks) :
    W s' := by
  have := cancelLogN_push s s' e hl
  unfold W at *; rw [hc]; omega

theorem cancelLogN_push_other (s s' : SimS) (e : LogE) (hl : s'.log = s.log.push e) (he : isCancelLog e = false) :
    cancelLogN s' = cancelLogN s := by
  rw [cancelLogN_push s s' e hl, he]; simp

/-- Same events up to a permutation (queue and outside list together), kept ids shrink. -/
theorem Inv.perm {ex ex' : List SEvent} (s s' : SimS) (h : Inv ex s)
    (hp : (s'.queue.toList ++ ex').Perm (s.queue.toList ++ ex)) (hl : cancelLogN s' = cancelLogN s)
    (hc : s'.cancelledTasks = s.cancelledTasks) (hn : s'.nextEid = s.nextEid)
    (hf : ∀ p ∈ s'.future, p ∈ s.future) : Inv ex' s' := by
  obtain ⟨a, b, c, d⟩ := h
  refine ⟨?_, ?_, ?_, ?_⟩
  · rw [hl, hc, a]; unfold tcN; rw [hp.countP_eq]
  · intro p hp'; rw [hn]; exact b p (hf p hp')
  · intro e he ht; rw [hn]; exact c e (hp.mem_iff.mp he) ht
  · intro e he ht p hp'; exact d e (hp.mem_iff.mp he) ht p (hf p hp')

theorem Inv.congr {ex : List SEvent} (s s' : SimS) (h : Inv ex s) (hq : s'.queue = s.queue)
    (hl : cancelLogN s' = cancelLogN s)
    (hc : s'.cancelledTasks = s.cancelledTasks) (hn : s'.nextEid = s.nextEid) (hf : s'.future = s.future) :
    Inv ex s' :=
  Inv.perm s s' h (by rw [hq]) hl hc hn (by rw [hf]; exact fun _ h => h)

/-- The outside list only matters up to a permutation. -/
theorem Inv.exPerm {ex ex' : List SEvent} {s : SimS} (h : Inv ex s) (hp : ex'.Perm ex) : Inv ex' s :=
  Inv.perm s s h (List.Perm.append_left _ hp) rfl rfl rfl (fun _ h => h)

/-- A history entry that is not a `.cancel`. -/
theorem Inv.log {ex : List SEvent} (s s' : SimS) (e : LogE) (h : Inv ex s) (he : isCancelLog e = false)
    (hl : s'.log = s.log.push e) (hq : s'.queue = s.queue)
    (hc : s'.cancelledTasks = s.cancelledTasks) (hn : s'.nextEid = s.nextEid) (hf : s'.future = s.future) :
    Inv ex s' := by
  have hcl := cancelLogN_push s s' e hl
  rw [he] at hcl
  obtain ⟨a, b, c, d⟩ := h
  refine ⟨?_, ?_, ?_, ?_⟩
  · rw [hc, hq]; simp at hcl; omega
  · rw [hn, hf]; exact b
  · rw [hn, hq]; exact c
  · rw [hq, hf]; exact d

/-- A fresh event that is not a TASK_CANCEL event appears (in the queue or outside); its id
may be cached. -/
theorem Inv.fresh {ex ex' : List SEvent} (s s' : SimS) (r : SEvent) (h : Inv ex s) (hr : isTC r = false)
    (hp : (s'.queue.toList ++ ex').Perm (r :: (s.queue.toList ++ ex))) (hl : cancelLogN s' = cancelLogN s)
    (hc : s'.cancelledTasks = s.cancelledTasks) (hn : s'.nextEid = s.nextEid + 1)
    (hf : ∀ p ∈ s'.future, p ∈ s.future ∨ p.2 = s.nextEid) : Inv ex' s' := by
  obtain ⟨a, b, c, d⟩ := h
  have hmem : ∀ e ∈ s'.queue.toList ++ ex', isTC e = true → e ∈ s.queue.toList ++ ex := by
    intro e he ht
    rcases List.mem_cons.mp (hp.mem_iff.mp he) with h1 | h1
    · subst h1; rw [hr] at ht; cases ht
    · exact h1
  refine ⟨?_, ?_, ?_, ?_⟩
  · rw [hl, hc, a]; unfold tcN; rw [hp.countP_eq, List.countP_cons, hr]; simp
  · intro p hp'; rw [hn]
    rcases hf p hp' with h1 | h1
    · have := b p h1; omega
    · omega
  · intro e he ht; rw [hn]; have := c e (hmem e he ht) ht; omega
  · intro e he ht p hp'
    rcases hf p hp' with h1 | h1
    · exact d e (hmem e he ht) ht p h1
    · have := c e (hmem e he ht) ht; omega

/-- A `.cancel` entry together with its fresh TASK_CANCEL event. -/
theorem Inv.freshTC {ex ex' : List SEvent} (s s' : SimS) (r : SEvent) (t : TaskId) (tm : Int) (h : Inv ex s)
    (hr : isTC r = true) (hid : r.ev.eid = s.nextEid)
    (hp : (s'.queue.toList ++ ex').Perm (r :: (s.queue.toList ++ ex))) (hl : s'.log = s.log.push (.cancel t tm))
    (hc : s'.cancelledTasks = s.cancelledTasks) (hn : s'.nextEid = s.nextEid + 1)
    (hf : s'.future = s.future) : Inv ex' s' := by
  have hcl := cancelLogN_push s s' _ hl
  obtain ⟨a, b, c, d⟩ := h
  have hmem : ∀ e ∈ s'.queue.toList ++ ex', e = r ∨ e ∈ s.queue.toList ++ ex := by
    intro e he
    exact List.mem_cons.mp (hp.mem_iff.mp he)
  refine ⟨?_, ?_, ?_, ?_⟩
  · rw [hcl, hc, a]; unfold tcN; rw [hp.countP_eq, List.countP_cons, hr]; simp [isCancelLog]; omega
  · intro p hp'; rw [hn]; rw [hf] at hp'; have := b p hp'; omega
  · intro e he ht; rw [hn]
    rcases hmem e he with h1 | h1
    · subst h1; omega
    · have := c e h1 ht; omega
  · intro e he ht p hp'
    rw [hf] at hp'
    rcases hmem e he with h1 | h1
    · subst h1; have := b p hp'; omega
    · exact d e h1 ht p hp'

/-- The popped TASK_CANCEL event is counted. -/
theorem Inv.count {ex : List SEvent} (s s' : SimS) (ev : SEvent) (h : Inv (ev :: ex) s) (hev : isTC ev = true)
    (hq : s'.queue = s.queue) (hl : s'.log = s.log)
    (hc : s'.cancelledTasks = s.cancelledTasks + 1) (hn : s'.nextEid = s.nextEid) (hf : s'.future = s.future) :
    Inv ex s' := by
  obtain ⟨a, b, c, d⟩ := h
  have hsub : ∀ e ∈ s.queue.toList ++ ex, e ∈ s.queue.toList ++ ev :: ex := by
    intro e he
    rcases List.mem_append.mp he with h1 | h1
    · exact List.mem_append_left _ h1
    · exact List.mem_append_right _ (List.mem_cons_of_mem _ h1)
  refine ⟨?_, ?_, ?_, ?_⟩
  · unfold cancelLogN at *; rw [hl, hc, hq, a]; unfold tcN
    simp only [List.countP_append, List.countP_cons, hev]; simp; omega
  · rw [hn, hf]; exact b
  · rw [hn, hq]; exact fun e he ht => c e (hsub e he) ht
  · rw [hq, hf]; exact fun e he ht => d e (hsub e he) ht

/-- An outside event that is not a TASK_CANCEL event is irrelevant. -/
theorem Inv.dropEx {ex : List SEvent} {s : SimS} (ev : SEvent) (h : Inv (ev :: ex) s) (hev : isTC ev = false) :
    Inv ex s := by
  obtain ⟨a, b, c, d⟩ := h
  have hsub : ∀ e ∈ s.queue.toList ++ ex, e ∈ s.queue.toList ++ ev :: ex := by
    intro e he
    rcases List.mem_append.mp he with h1 | h1
    · exact List.mem_append_left _ h1
    · exact List.mem_append_right _ (List.mem_cons_of_mem _ h1)
  refine ⟨?_, b, fun e he ht => c e (hsub e he) ht, fun e he ht => d e (hsub e he) ht⟩
  rw [a]; unfold tcN
  simp only [List.countP_append, List.countP_cons, hev]; simp

/-! ### association lists -/

theorem alist_mem_of_get? (l : AList TaskId Nat) (t : TaskId) (v : Nat) (h : l.get? t = some v) : (t, v) ∈ l := by
  induction l with
  | nil => cases h
  | cons a l ih =>
    obtain ⟨k, w⟩ := a
    simp only [AList.get?] at h
    split at h
    · cases h; subst_vars; exact List.mem_cons_self ..
    · exact List.mem_cons_of_mem _ (ih h)

theorem alist_mem_erase (l : AList TaskId Nat) (t : TaskId) (p : TaskId × Nat) (h : p ∈ l.erase t) : p ∈ l := by
  induction l with
  | nil => cases h
  | cons a l ih =>
    obtain ⟨k, w⟩ := a
    simp only [AList.erase] at h
    split at h
    · exact List.mem_cons_of_mem _ h
    · rcases List.mem_cons.mp h with h1 | h1
      · rw [h1]; exact List.mem_cons_self ..
      · exact List.mem_cons_of_mem _ (ih h1)

theorem alist_mem_set (l : AList TaskId Nat) (t : TaskId) (v : Nat) (p : TaskId × Nat) (h : p ∈ l.set t v) :
    p ∈ l ∨ p.2 = v := by
  induction l with
  | nil =>
    simp only [AList.set, List.mem_singleton] at h
    right; rw [h]
  | cons a l ih =>
    obtain ⟨k, w⟩ := a
    simp only [AList.set] at h
    split at h
    · rcases List.mem_cons.mp h with h1 | h1
      · right; rw [h1]
      · left; exact List.mem_cons_of_mem _ h1
    · rcases List.mem_cons.mp h with h1 | h1
      · left; rw [h1]; exact List.mem_cons_self ..
      · rcases ih h1 with h2 | h2
        · left; exact List.mem_cons_of_mem _ h2
        · right; exact h2

/-! ### queue operations -/

theorem perm_heappush (q : Array SEvent) (e : SEvent) (ex : List SEvent) :
    ((heappush SEvent.lt q e).toList ++ ex).Perm (e :: (q.toList ++ ex)) := by
  have h1 : (heappush SEvent.lt q e).toList.Perm (q.push e).toList := (heappush_perm SEvent.lt q e).toList
  have h2 : (q.push e).toList.Perm (e :: q.toList) := by
    simp only [Array.toList_push]
    exact List.perm_append_singleton e q.toList
  exact (List.Perm.append_right ex (h1.trans h2))

theorem perm_heapify (q : Array SEvent) (ex : List SEvent) :
    ((heapify SEvent.lt q).toList ++ ex).Perm (q.toList ++ ex) :=
  List.Perm.append_right ex (heapify_perm SEvent.lt q).toList

theorem perm_heappop (q q' : Array SEvent) (e : SEvent) (ex : List SEvent) (h : heappop SEvent.lt q = some (e, q')) :
    (q'.toList ++ e :: ex).Perm (q.toList ++ ex) := by
  have h1 : (q'.push e).toList.Perm q.toList := (heappop_perm SEvent.lt q e q' h).toList
  simp only [Array.toList_push] at h1
  have : (q'.toList ++ e :: ex) = (q'.toList ++ [e]) ++ ex := by simp
  rw [this]
  exact List.Perm.append_right ex h1

theorem countP_eraseIdx_of_not {α} (p : α → Bool) (l : List α) (i : Nat) (h : i < l.length) (hp : p l[i] = false) :
    (l.eraseIdx i).countP p = l.countP p := by
  induction l generalizing i with
  | nil => simp at h
  | cons a l ih =>
    cases i with
    | zero =>
      simp only [List.getElem_cons_zero] at hp
      simp [hp]
    | succ i =>
      simp only [List.eraseIdx_cons_succ, List.countP_cons]
      rw [ih i (by simpa using h) (by simpa using hp)]

/-- `remove_event(eid)` for a cached id: the removed event is not a TASK_CANCEL event. -/
theorem Inv.remove {ex : List SEvent} (s s' : SimS) (eid i : Nat) (t : TaskId) (h : Inv ex s)
    (hi : s.queue.findIdx? (fun e => e.ev.eid == eid) = some i) (hfut : s.future.get? t = some eid)
    (hq : s'.queue = heapify SEvent.lt (s.queue.eraseIdxIfInBounds i)) (hl : cancelLogN s' = cancelLogN s)
    (hc : s'.cancelledTasks = s.cancelledTasks) (hn : s'.nextEid = s.nextEid)
    (hf : ∀ p ∈ s'.future, p ∈ s.future) : Inv ex s' := by
  obtain ⟨hlt, hid, -⟩ := Array.findIdx?_eq_some_iff_getElem.mp hi
  have hid' : (s.queue[i]).ev.eid = eid := by simpa using hid
  have hmemq : s.queue[i] ∈ s.queue.toList := Array.mem_toList_iff.mpr (Array.getElem_mem hlt)
  have hnot : isTC s.queue[i] = false := by
    cases hx : isTC s.queue[i] with
    | false => rfl
    | true =>
      have := h.tcNotFut _ (List.mem_append_left _ hmemq) hx _ (alist_mem_of_get? _ _ _ hfut)
      exact absurd hid'.symm this
  have hl' : i < s.queue.toList.length := by simpa using hlt
  have hE : (s.queue.eraseIdxIfInBounds i).toList = s.queue.toList.eraseIdx i := by
    rw [Array.eraseIdxIfInBounds_eq]; simp [hlt]
  have hcnt : tcN ((s.queue.eraseIdxIfInBounds i).toList ++ ex) = tcN (s.queue.toList ++ ex) := by
    unfold tcN
    rw [hE, List.countP_append, List.countP_append, countP_eraseIdx_of_not isTC _ i hl' (by simpa using hnot)]
  have hsub : ∀ e ∈ (s.queue.eraseIdxIfInBounds i).toList ++ ex, e ∈ s.queue.toList ++ ex := by
    intro e he
    rcases List.mem_append.mp he with h1 | h1
    · rw [hE] at h1; exact List.mem_append_left _ (List.mem_of_mem_eraseIdx h1)
    · exact List.mem_append_right _ h1
  have hp := perm_heapify (s.queue.eraseIdxIfInBounds i) ex
  obtain ⟨a, b, c, d⟩ := h
  refine ⟨?_, ?_, ?_, ?_⟩
  · rw [hl, hc, hq, a]; unfold tcN at *; rw [hp.countP_eq, hcnt]
  · intro p hp'; rw [hn]; exact b p (hf p hp')
  · intro e he ht; rw [hn]; rw [hq] at he; exact c e (hsub e (hp.mem_iff.mp he)) ht
  · intro e he ht p hp'; rw [hq] at he; exact d e (hsub e (hp.mem_iff.mp he)) ht p (hf p hp')

/-- An in-place edit that changes neither the type nor the id of an event. -/
theorem Inv.map {ex : List SEvent} (s s' : SimS) (g : SEvent → SEvent) (h : Inv ex s)
    (hg : ∀ e, isTC (g e) = isTC e ∧ (g e).ev.eid = e.ev.eid)
    (hq : s'.queue = s.queue.map g) (hl : cancelLogN s' = cancelLogN s)
    (hc : s'.cancelledTasks = s.cancelledTasks) (hn : s'.nextEid = s.nextEid)
    (hf : s'.future = s.future) : Inv ex s' := by
  obtain ⟨a, b, c, d⟩ := h
  have hcnt : tcN (s'.queue.toList ++ ex) = tcN (s.queue.toList ++ ex) := by
    unfold tcN
    rw [hq, Array.toList_map, List.countP_append, List.countP_append, List.countP_map]
    congr 1
    apply List.countP_congr
    intro e _
    simp [(hg e).1]
  have hmem : ∀ e ∈ s'.queue.toList ++ ex, ∃ e0 ∈ s.queue.toList ++ ex, isTC e = isTC e0 ∧ e.ev.eid = e0.ev.eid := by
    intro e he
    rcases List.mem_append.mp he with h1 | h1
    · rw [hq, Array.toList_map] at h1
      obtain ⟨e0, he0, rfl⟩ := List.mem_map.mp h1
      exact ⟨e0, List.mem_append_left _ he0, hg e0⟩
    · exact ⟨e, List.mem_append_right _ h1, rfl, rfl⟩
  refine ⟨?_, ?_, ?_, ?_⟩
  · rw [hl, hc, hcnt, a]
  · rw [hn, hf]; exact b
  · intro e he ht
    obtain ⟨e0, he0, h1, h2⟩ := hmem e he
    rw [hn, h2]; exact c e0 he0 (by rw [← h1]; exact ht)
  · intro e he ht p hp'
    obtain ⟨e0, he0, h1, h2⟩ := hmem e he
    rw [h2]; rw [hf] at hp'; exact d e0 he0 (by rw [← h1]; exact ht) p hp'

/-- `editEvent` followed by `reheapify`. -/
theorem Inv.editHeapify {ex : List SEvent} (s s' : SimS) (g : SEvent → SEvent) (h : Inv ex s)
    (hg : ∀ e, isTC (g e) = isTC e ∧ (g e).ev.eid = e.ev.eid)
    (hq : s'.queue = heapify SEvent.lt (s.queue.map g)) (hl : cancelLogN s' = cancelLogN s)
    (hc : s'.cancelledTasks = s.cancelledTasks) (hn : s'.nextEid = s.nextEid)
    (hf : s'.future = s.future) : Inv ex s' := by
  have h1 : Inv ex { s with queue := s.queue.map g } := Inv.map s _ g h hg rfl rfl rfl rfl rfl
  exact Inv.perm _ s' h1 (by rw [hq]; exact perm_heapify _ _) hl hc hn (by rw [hf]; exact fun _ h => h)

/-- The edits the simulator makes (new time, new placement) keep type and id. -/
theorem edit_ok (eid : Nat) (f : SEvent → SEvent) (hf : ∀ e, (f e).ev.etype = e.ev.etype ∧ (f e).ev.eid = e.ev.eid) :
    ∀ e, isTC (if e.ev.eid == eid then f e else e) = isTC e ∧ (if e.ev.eid == eid then f e else e).ev.eid = e.ev.eid := by
  intro e
  split
  · exact ⟨by unfold isTC; rw [(hf e).1], (hf e).2⟩
  · exact ⟨rfl, rfl⟩

/-! ### `sorted(events)` is a permutation -/

theorem foldl_insert_perm {α} (f : List α → α → Nat) (rest acc : List α) :
    (rest.foldl (fun acc x => acc.take (f acc x) ++ x :: acc.drop (f acc x)) acc).Perm (acc ++ rest) := by
  induction rest generalizing acc with
  | nil => simp
  | cons x rest ih =>
    simp only [List.foldl_cons]
    refine (ih _).trans ?_
    have h1 : (acc.take (f acc x) ++ x :: acc.drop (f acc x)).Perm (x :: acc) := by
      refine List.perm_middle.trans ?_
      rw [List.take_append_drop]
    have h2 : (x :: acc ++ rest).Perm (acc ++ x :: rest) := List.perm_middle.symm
    exact (List.Perm.append_right rest h1).trans h2

theorem pySorted_perm {α} (lt : α → α → Bool) (l : List α) : (pySorted lt l).Perm l := by
  unfold pySorted
  simp only
  refine (foldl_insert_perm (fun acc x => bisectRight lt acc.toArray x 0 acc.length) _ _).trans ?_
  have : ((if (countRun lt l).2 = true then (l.take (countRun lt l).1).reverse else l.take (countRun lt l).1)).Perm
      (l.take (countRun lt l).1) := by
    split
    · exact List.reverse_perm _
    · exact List.Perm.refl _
  refine (List.Perm.append_right _ this).trans ?_
  rw [List.take_append_drop]

end ErdosVerif.Model.Sim.CC
