import ErdosVerif.Lemmas.SimQueueRun2
/-!
Event order at simulator level, part 4: the dispatcher, `step` (relational
specification), `iter`, `init`, `run`, and the run theorem `simulate_qinv`.
-/
open Std.Do
set_option mvcgen.warning false

namespace ErdosVerif.Model.Sim
open Heap

attribute [local spec] row_q liftE_q liftTape_q getGraph_q setGraph_q raiseTask_q addEvent_q reheapify_q
  removeEvent_q editEvent_q findEvent_q nextOfType_q placedTasks_q getPool_q setPool_q raiseOutcome_q
  raisePlace_q advanceClock_q getTask_q uniqueName_q taskCall_q startTask_q mkEvent_q
  logUtilization_q handleSchedulerStart_q handleSchedulerFinish_q handleTaskCancel_q handleTaskRelease_q
  handleTaskGraphRelease_q handleProfile_q handleTaskPlacement_q handleUpdateWorkload_q handleTaskFinished_q

/-- `__handle_event` on an event whose time is the current clock. -/
theorem handleEvent_q (ev : SEvent) :
    ⦃fun s => ⌜QInv s ∧ s.now = ev.ev.time⌝⦄ handleEvent ev ⦃post⟨fun _ => QA, fun _ => QA⟩⦄ := by
  mvcgen [handleEvent, logE]
  all_goals first
    | q_close0
    | (pick_hyp h => exact QInv.logPop _ _ _ h.1 h.2)
    | (simp_all; done)

/-! ### `__step`, relationally -/

/-- The parts of the state the event order depends on are unchanged. -/
structure Fr (s0 s : SimS) : Prop where
  queue : s.queue = s0.queue
  now : s.now = s0.now
  log : s.log = s0.log

theorem Fr.congr {s0 s s' : SimS} (h : Fr s0 s) (hq : s'.queue = s.queue) (hn : s'.now = s.now) (hl : s'.log = s.log) :
    Fr s0 s' := ⟨hq.trans h.queue, hn.trans h.now, hl.trans h.log⟩

/-- A successful `step dt` from `s0`: the clock advanced by `dt ≥ 0`, one clock entry was
appended to the history, and the queue received well-formed events stamped with the new
clock (the TASK_FINISHED events), pushed one by one. -/
structure StepOK (s0 : SimS) (dt : Int) (s : SimS) : Prop where
  nonneg : 0 ≤ dt
  now : s.now = s0.now + dt
  log : s.log = s0.log.push (.clock (s0.now + dt))
  queue : ∃ evs : List SEvent, (∀ e ∈ evs, e.WF ∧ e.ev.time = s0.now + dt) ∧
    s.queue = evs.foldl (heappush SEvent.lt) s0.queue

theorem inv4_push {P : SEvent → Prop} {s0 s s' : SimS} {b : List SEvent} {e : SEvent}
    (h : Fr s0 s ∧ ∀ x ∈ b, P x) (hq : s'.queue = s.queue) (hn : s'.now = s.now) (hl : s'.log = s.log) (he : P e) :
    Fr s0 s' ∧ ∀ x ∈ b ++ [e], P x := by
  refine ⟨h.1.congr hq hn hl, fun x hx => ?_⟩
  rcases List.mem_append.mp hx with hx | hx
  · exact h.2 x hx
  · rw [List.mem_singleton.mp hx]; exact he

theorem inv5_pre {s0 s s' : SimS} {dt : Int} (h : Fr s0 s) (hn : s'.now = s.now + dt)
    (hl : s'.log = s.log.push (.clock (s.now + dt))) (hq : s'.queue = s.queue) :
    s'.now = s0.now + dt ∧ s'.log = s0.log.push (.clock (s0.now + dt)) ∧
      s'.queue = ([] : List SEvent).foldl (heappush SEvent.lt) s0.queue := by
  rw [hn, hl, hq, h.now, h.log, h.queue]
  exact ⟨rfl, rfl, rfl⟩

theorem qinv5_step {s0 s s' : SimS} {dt : Int} {pref : List SEvent} {cur : SEvent}
    (h : s.now = s0.now + dt ∧ s.log = s0.log.push (.clock (s0.now + dt)) ∧
      s.queue = pref.foldl (heappush SEvent.lt) s0.queue)
    (hn : s'.now = s.now) (hl : s'.log = s.log) (hq : s'.queue = heappush SEvent.lt s.queue cur) :
    s'.now = s0.now + dt ∧ s'.log = s0.log.push (.clock (s0.now + dt)) ∧
      s'.queue = (pref ++ [cur]).foldl (heappush SEvent.lt) s0.queue := by
  rw [hn, hl, hq, h.1, h.2.1, h.2.2, List.foldl_append]
  exact ⟨rfl, rfl, rfl⟩

theorem step_rel (dt : Int) (s0 : SimS) :
    ⦃fun s => ⌜s = s0⌝⦄ step dt ⦃post⟨fun _ s => ⌜StepOK s0 dt s⌝, fun _ s => ⌜Fr s0 s⌝⟩⦄ := by
  mvcgen [step, advanceClock, addEvent, getPool, setPool, getTask, getGraph, taskCall, setGraph, raiseTask,
    mkEvent, uniqueName]
  case inv1 => exact post⟨fun _ s => ⌜Fr s0 s⌝, fun _ s => ⌜Fr s0 s⌝⟩
  case inv2 => exact post⟨fun _ s => ⌜Fr s0 s⌝, fun _ s => ⌜Fr s0 s⌝⟩
  case inv3 => exact post⟨fun _ s => ⌜Fr s0 s⌝, fun _ s => ⌜Fr s0 s⌝⟩
  case inv4 =>
    exact post⟨fun r s => ⌜Fr s0 s ∧ ∀ e ∈ r.2, e.WF ∧ e.ev.time = s0.now + dt⌝, fun _ s => ⌜Fr s0 s⌝⟩
  case inv5 =>
    exact post⟨fun r s => ⌜s.now = s0.now + dt ∧ s.log = s0.log.push (.clock (s0.now + dt)) ∧
      s.queue = r.1.prefix.foldl (heappush SEvent.lt) s0.queue⌝, fun _ s => ⌜Fr s0 s⌝⟩
  all_goals try (pick_hyp h => exact h)
  all_goals try (pick_hyp h => exact Fr.congr h rfl rfl rfl)
  all_goals try (subst_vars; exact ⟨rfl, rfl, rfl⟩)
  all_goals try (intros; rfl)
  all_goals try subst_vars
  all_goals first
    | (pick_hyp h => exact h.1)
    | (pick_hyp h => exact ⟨h, fun _ he => by cases he⟩)
    | (pick_hyp h => exact inv4_push h rfl rfl rfl ⟨rfl, rfl⟩)
    | (pick_hyp h => exact inv5_pre h.1 rfl rfl rfl)
    | (pick_hyp h => exact qinv5_step h rfl rfl rfl)
    | (pick_hyp h => pick_hyp h4 => exact ⟨by omega, h.1, h.2.1, _, h4.2, h.2.2⟩)
    | skip

theorem mem_foldl_heappush (evs : List SEvent) (q : Array SEvent) (y : SEvent) :
    y ∈ evs.foldl (heappush SEvent.lt) q ↔ y ∈ q ∨ y ∈ evs := by
  induction evs generalizing q with
  | nil => simp
  | cons e evs ih =>
    simp only [List.foldl_cons, ih, List.mem_cons]
    rw [(heappush_perm SEvent.lt q e).mem_iff, Array.mem_push]
    constructor
    · rintro ((h | h) | h)
      · exact .inl h
      · exact .inr (.inl h)
      · exact .inr (.inr h)
    · rintro (h | h | h)
      · exact .inl (.inl h)
      · exact .inl (.inr h)
      · exact .inr h

theorem heap_foldl_heappush (evs : List SEvent) (q : Array SEvent) (hw : AllP SEvent.WF q)
    (hh : HeapFrom SEvent.lt q 0) (he : ∀ e ∈ evs, e.WF) :
    AllP SEvent.WF (evs.foldl (heappush SEvent.lt) q) ∧ HeapFrom SEvent.lt (evs.foldl (heappush SEvent.lt) q) 0 := by
  induction evs generalizing q with
  | nil => exact ⟨hw, hh⟩
  | cons e evs ih =>
    simp only [List.foldl_cons]
    have hwe := he e (List.mem_cons_self ..)
    exact ih _ (AllP.of_perm (heappush_perm ..) (allP_push hw hwe)) (heappush_heap sevent_swo q e hw hwe hh)
      (fun x hx => he x (List.mem_cons_of_mem _ hx))

/-- A successful step keeps the queue invariant. -/
theorem StepOK.qinv {s s1 : SimS} {dt : Int} (h : QInv s) (hs : StepOK s dt s1) : QInv s1 := by
  obtain ⟨evs, hev, hq⟩ := hs.queue
  have := heap_foldl_heappush evs s.queue h.wf h.heap (fun e he => (hev e he).1)
  have hc := QInv.clock s dt h hs.nonneg
  refine ⟨by rw [hq]; exact this.1, by rw [hq]; exact this.2, ?_, ?_, ?_, ?_⟩
  · rw [hs.now, hs.log]; exact hc.now
  · rw [hs.log]; exact hc.pops
  · rw [hs.log, hs.now]; exact hc.popsLe
  · rw [hs.log]; exact hc.popsMono

/-- **An event is popped at its own time.** If the clock is advanced by the distance to
the head of the queue (`step (head.time - now)` succeeded), the event popped next has
the clock's time, and the invariant holds after the pop. -/
theorem pop_after_step (s s1 : SimS) (head e : SEvent) (q : Array SEvent) (h : QInv s)
    (hh : s.queue[0]? = some head) (hs : StepOK s (head.ev.time - s.now) s1)
    (hp : heappop SEvent.lt s1.queue = some (e, q)) :
    QInv { s1 with queue := q } ∧ s1.now = e.ev.time := by
  have h1 := hs.qinv h
  refine ⟨QInv.pop s1 e q h1 hp, ?_⟩
  obtain ⟨⟨h0, he0⟩, -, -, hmin⟩ := pop_is_min s1 e q h1 hp
  obtain ⟨evs, hev, hq⟩ := hs.queue
  have hpos : 0 < s.queue.size := by
    rcases Nat.eq_zero_or_pos s.queue.size with hz | hz
    · simp [Array.size_eq_zero_iff.mp hz] at hh
    · exact hz
  have hhead : head = s.queue[0] := by
    rw [Array.getElem?_eq_getElem hpos] at hh
    exact (Option.some.inj hh).symm
  have hmem_head : head ∈ s1.queue := by
    rw [hq, mem_foldl_heappush]; left; rw [hhead]; exact Array.getElem_mem hpos
  have hle : e.ev.time ≤ head.ev.time := SEvent.time_le_of_not_lt (hmin head hmem_head)
  have hmem_e : e ∈ s1.queue := by rw [he0]; exact Array.getElem_mem h0
  rw [hq, mem_foldl_heappush] at hmem_e
  have hnow : s1.now = head.ev.time := by rw [hs.now]; omega
  rcases hmem_e with hm | hm
  · obtain ⟨j, hj, rfl⟩ := Array.getElem_of_mem hm
    have := root_min sevent_swo s.queue h.wf h.heap j hj
    rw [← hhead] at this
    have hge : head.ev.time ≤ (s.queue[j]).ev.time := SEvent.time_le_of_not_lt this
    omega
  · have := (hev e hm).2
    omega

/-- At the moment an event is popped nothing that stays queued is overdue: every remaining
event has a time ≥ the clock (= the popped event's time). -/
theorem nothing_overdue_at_pop (s s1 : SimS) (head e : SEvent) (q : Array SEvent) (h : QInv s)
    (hh : s.queue[0]? = some head) (hs : StepOK s (head.ev.time - s.now) s1)
    (hp : heappop SEvent.lt s1.queue = some (e, q)) : ∀ y ∈ q, s1.now ≤ y.ev.time := by
  intro y hy
  have h1 := hs.qinv h
  rw [(pop_after_step s s1 head e q h hh hs hp).2]
  exact SEvent.time_le_of_not_lt ((pop_is_min s1 e q h1 hp).2.2.1 y hy)

attribute [local spec] handleEvent_q step_rel

theorem iter_q : KeepsQ iter := by
  mvcgen [iter, popEvent, placedTasks, getTask, getGraph, liftE]
  split
  · mvcgen [popEvent, placedTasks, getTask, getGraph, liftE]
    case inv1 =>
      rename_i s hs x head heq hp
      exact post⟨fun _ s' => ⌜s' = s⌝, fun _ s' => ⌜s' = s⌝⟩
    all_goals try subst_vars
    all_goals try (first | rfl | assumption | (intros; rfl))
    all_goals first
      | exact StepOK.qinv ‹QInv _› ‹StepOK _ _ _›
      | (intro s hf; exact QInv.congr _ _ ‹QInv _› hf.queue hf.log hf.now)
      | exact pop_after_step _ _ _ _ _ ‹QInv _› ‹_ = some (_ : SEvent)› ‹StepOK _ _ _› ‹heappop _ _ = some _›
      | (refine ⟨fun _ _ h => ?_, trivial⟩; cases h; assumption)
  · mvcgen [popEvent, placedTasks, getTask, getGraph, liftE]

theorem init_q : ⦃fun s => ⌜QInv s⌝⦄ init ⦃post⟨fun _ => QA, fun _ => QA⟩⦄ := by
  mvcgen [init]
  all_goals first | exact qLoop | qev_close

theorem run_q (n : Nat) : KeepsQ (run n) := by
  induction n with
  | zero => mvcgen [run]
  | succ n ih =>
    mvcgen [run, ih, iter_q]
    all_goals first | exact qLoop | q_close

theorem whole_q (fuel : Nat) : KeepsQ (do init; run fuel) := by
  mvcgen [run_q, init_q]
  all_goals first | exact qLoop | q_close

/-- **The queue invariant holds in every state a run can reach** (after the constructor and
any number of loop iterations, normal or aborted): the event queue is a heap of
well-formed events w.r.t. `Event.__lt__`, the clock is the last clock entry of the
history, and every event was popped when the clock showed its time. -/
theorem simulate_qinv (s0 : SimS) (fuel : Nat) (h : QInv s0) : QInv (simulate s0 fuel).2 := by
  have := whole_q fuel s0 h
  simp only [wp, PredTrans.apply_pushExcept, PredTrans.apply_pushArg, Id.run] at this
  unfold simulate
  revert this
  cases (StateT.run (ExceptT.run (do init; run fuel)) s0) with
  | mk r s => cases r <;> (intro h; exact h)

/-- An initial state with an empty queue and an empty history at time 0. -/
theorem qinv_initial (s0 : SimS) (hq : s0.queue = #[]) (hl : s0.log = #[]) (hn : s0.now = 0) : QInv s0 := by
  refine ⟨?_, ?_, ?_, ?_, ?_, ?_⟩
  · intro i hi; simp [hq] at hi
  · intro j hj; simp [hq] at hj
  · simp [hl, hn, curClock]
  · rw [hl]; exact popsAtClock_nil
  · simp [hl]
  · simp [hl]

end ErdosVerif.Model.Sim
