import ErdosVerif.Model.TaskGraph
/-!
The scheduling frontier (`get_schedulable_tasks` selection loop,
`get_releasable_tasks`, release on completion). Core Lean only.
-/
namespace ErdosVerif.Model
namespace GraphS

/-! ### one step of the selection loop -/

/-- The result of one decision is one of three shapes. -/
theorem offerDecision_shape (t : TaskS) (e? : Option Int) (time l : Int) (retract r a o b : Bool)
    (h : offerDecision t e? time l retract r a = .ok (o, b)) :
    (o = true ∧ b = true) ∨ (o = false ∧ b = true ∧ (t.state = .completed ∨ t.state = .running)) ∨
    (o = false ∧ b = a) := by
  unfold offerDecision at h
  cases hs : t.state <;> simp only [hs] at h
  all_goals (repeat' split at h)
  all_goals first
    | (simp only [Except.ok.injEq, Prod.mk.injEq] at h; obtain ⟨h1, h2⟩ := h; subst h1; subst h2; simp)
    | simp at h

/-- When is a task offered. -/
theorem offerDecision_offered_iff (t : TaskS) (e? : Option Int) (time l : Int) (retract r a o b : Bool)
    (h : offerDecision t e? time l retract r a = .ok (o, b)) :
    o = true ↔
      (t.state = .released ∧ t.release ≤ time + l) ∨ t.state = .preempted ∨ t.state = .evicted ∨
      (t.state = .virtual ∧ ∃ e, e? = some e ∧ ((a && r) = true ∨ ∃ rem, t.remainingTime = .ok rem ∧ e ≤ time + l + rem)) ∨
      (t.state = .scheduled ∧ retract = true ∧ ∃ e, e? = some e ∧
        ((a && r) = true ∨ ∃ s, TaskS.slowest? t.strategies = some s ∧ e ≤ time + l + s.runtime)) := by
  unfold offerDecision at h
  cases hs : t.state <;> simp only [hs] at h
  · -- virtual
    cases e? with
    | none => simp only [Except.ok.injEq, Prod.mk.injEq] at h; simp [← h.1]
    | some e =>
      simp only at h
      by_cases c : (a && r) = true
      · simp only [c, if_true, Except.ok.injEq, Prod.mk.injEq] at h; simp [← h.1, c]
      · simp only [c, Bool.false_eq_true, if_false] at h
        cases hrem : t.remainingTime with
        | error err => simp [hrem] at h
        | ok rem =>
          simp only [hrem] at h
          by_cases e1 : e ≤ time + l + rem
          · simp only [e1, if_true, Except.ok.injEq, Prod.mk.injEq] at h; simp [← h.1, e1]
          · simp only [e1, if_false, Except.ok.injEq, Prod.mk.injEq] at h; simp [← h.1, e1, c]
  · -- released
    by_cases e1 : t.release ≤ time + l
    · simp only [e1, if_true, Except.ok.injEq, Prod.mk.injEq] at h; simp [← h.1, e1]
    · simp only [e1, if_false, Except.ok.injEq, Prod.mk.injEq] at h; simp [← h.1, e1]
  · -- scheduled
    by_cases hret : retract = true
    · simp only [hret, if_true] at h
      cases e? with
      | none => simp only [Except.ok.injEq, Prod.mk.injEq] at h; simp [← h.1]
      | some e =>
        simp only at h
        by_cases c : (a && r) = true
        · simp only [c, if_true, Except.ok.injEq, Prod.mk.injEq] at h; simp [← h.1, c, hret]
        · simp only [c, Bool.false_eq_true, if_false] at h
          cases hsl : TaskS.slowest? t.strategies with
          | none => simp [hsl] at h
          | some s =>
            simp only [hsl] at h
            by_cases e1 : e ≤ time + l + s.runtime
            · simp only [e1, if_true, Except.ok.injEq, Prod.mk.injEq] at h; simp [← h.1, e1, hret]
            · simp only [e1, if_false, Except.ok.injEq, Prod.mk.injEq] at h; simp [← h.1, e1, c]
    · simp only [hret, if_false, Bool.false_eq_true, Except.ok.injEq, Prod.mk.injEq] at h; simp [← h.1, hret]
  all_goals (simp only [Except.ok.injEq, Prod.mk.injEq] at h; simp [← h.1])

theorem offerStep_offered (g : GraphS) (ect : List (Nat × Int)) (time lookahead : Int) (retract rtg : Bool)
    (n : Nat) (a a' : Bool) (h : offerStep g ect time lookahead retract rtg n a = .ok (true, a')) :
    ∃ t, g.task? n = some t ∧ a' = true ∧
      (t.state = .released ∧ t.release ≤ time + lookahead ∨ t.state = .preempted ∨ t.state = .evicted ∨
       t.state = .virtual ∨ (t.state = .scheduled ∧ retract = true)) := by
  unfold offerStep at h
  cases ht : g.task? n with
  | none => simp [ht] at h
  | some t =>
    simp only [ht] at h
    refine ⟨t, rfl, ?_, ?_⟩
    · rcases offerDecision_shape t _ time lookahead retract rtg a true a' h with ⟨_, q⟩ | ⟨q, _⟩ | ⟨q, _⟩
      · exact q
      · cases q
      · cases q
    · rcases (offerDecision_offered_iff t _ time lookahead retract rtg a true a' h).mp rfl with
        q | q | q | ⟨q, _⟩ | ⟨q, q2, _⟩
      · exact Or.inl q
      · exact Or.inr (Or.inl q)
      · exact Or.inr (Or.inr (Or.inl q))
      · exact Or.inr (Or.inr (Or.inr (Or.inl q)))
      · exact Or.inr (Or.inr (Or.inr (Or.inr ⟨q, q2⟩)))

/-- A RELEASED task whose release time has arrived is offered (whatever else holds). -/
theorem offerStep_ready (g : GraphS) (ect : List (Nat × Int)) (time lookahead : Int) (retract rtg : Bool)
    (n : Nat) (a : Bool) (t : TaskS) (ht : g.task? n = some t) (hs : t.state = .released)
    (hr : t.release ≤ time + lookahead) :
    offerStep g ect time lookahead retract rtg n a = .ok (true, true) := by
  simp only [offerStep, ht, offerDecision, hs, hr, if_true]

/-- PREEMPTED and EVICTED tasks are always offered. -/
theorem offerStep_preempted (g : GraphS) (ect : List (Nat × Int)) (time lookahead : Int) (retract rtg : Bool)
    (n : Nat) (a : Bool) (t : TaskS) (ht : g.task? n = some t) (hs : t.state = .preempted ∨ t.state = .evicted) :
    offerStep g ect time lookahead retract rtg n a = .ok (true, true) := by
  rcases hs with hs | hs <;> simp only [offerStep, ht, offerDecision, hs]

/-- One decision is monotone in the lookahead, in `release_taskgraphs` and in `any_released`. -/
theorem offerDecision_mono (t : TaskS) (e? : Option Int) (time l1 l2 : Int) (retract r1 r2 : Bool)
    (a1 a2 o1 o2 b1 b2 : Bool) (hl : l1 ≤ l2) (hr : r1 = true → r2 = true) (ha : a1 = true → a2 = true)
    (h1 : offerDecision t e? time l1 retract r1 a1 = .ok (o1, b1))
    (h2 : offerDecision t e? time l2 retract r2 a2 = .ok (o2, b2)) :
    (o1 = true → o2 = true) ∧ (b1 = true → b2 = true) := by
  have hand : (a1 && r1) = true → (a2 && r2) = true := by
    intro c; simp only [Bool.and_eq_true] at c ⊢; exact ⟨ha c.1, hr c.2⟩
  have key : o1 = true → o2 = true := by
    intro ho
    rw [offerDecision_offered_iff t e? time l2 retract r2 a2 o2 b2 h2]
    rcases (offerDecision_offered_iff t e? time l1 retract r1 a1 o1 b1 h1).mp ho with
      ⟨q1, q2⟩ | q | q | ⟨q, e, he, q2⟩ | ⟨q, qr, e, he, q2⟩
    · exact Or.inl ⟨q1, by omega⟩
    · exact Or.inr (Or.inl q)
    · exact Or.inr (Or.inr (Or.inl q))
    · refine Or.inr (Or.inr (Or.inr (Or.inl ⟨q, e, he, ?_⟩)))
      rcases q2 with q2 | ⟨rem, hrem, q2⟩
      · exact Or.inl (hand q2)
      · exact Or.inr ⟨rem, hrem, by omega⟩
    · refine Or.inr (Or.inr (Or.inr (Or.inr ⟨q, qr, e, he, ?_⟩)))
      rcases q2 with q2 | ⟨s, hs, q2⟩
      · exact Or.inl (hand q2)
      · exact Or.inr ⟨s, hs, by omega⟩
  refine ⟨key, ?_⟩
  intro hb
  rcases offerDecision_shape t e? time l2 retract r2 a2 o2 b2 h2 with ⟨_, q⟩ | ⟨_, q, _⟩ | ⟨q0, q⟩
  · exact q
  · exact q
  · rw [q]
    rcases offerDecision_shape t e? time l1 retract r1 a1 o1 b1 h1 with ⟨p, _⟩ | ⟨_, _, p⟩ | ⟨_, p⟩
    · have := key p; rw [q0] at this; cases this
    · -- COMPLETED / RUNNING give (false, true) under every setting
      have hb2 : b2 = true := by
        unfold offerDecision at h2
        rcases p with p | p <;> simp only [p, Except.ok.injEq, Prod.mk.injEq] at h2 <;> exact h2.2.symm
      rw [← q]; exact hb2
    · apply ha; rw [← p]; exact hb

theorem offerStep_mono (g : GraphS) (ect : List (Nat × Int)) (time l1 l2 : Int) (retract r1 r2 : Bool)
    (n : Nat) (a1 a2 o1 o2 b1 b2 : Bool) (hl : l1 ≤ l2) (hr : r1 = true → r2 = true) (ha : a1 = true → a2 = true)
    (h1 : offerStep g ect time l1 retract r1 n a1 = .ok (o1, b1))
    (h2 : offerStep g ect time l2 retract r2 n a2 = .ok (o2, b2)) :
    (o1 = true → o2 = true) ∧ (b1 = true → b2 = true) := by
  unfold offerStep at h1 h2
  cases ht : g.task? n with
  | none => simp [ht] at h1
  | some t =>
    simp only [ht] at h1 h2
    exact offerDecision_mono t _ time l1 l2 retract r1 r2 a1 a2 o1 o2 b1 b2 hl hr ha h1 h2

/-! ### the whole loop -/

/-- **Only offerable work is offered**: every task the loop adds is in the
traversal order, is not COMPLETED / CANCELLED / RUNNING, and is SCHEDULED only
under retraction. -/
theorem selectLoop_sound (g : GraphS) (ect : List (Nat × Int)) (time lookahead : Int) (retract rtg : Bool) :
    ∀ (topo : List Nat) (a : Bool) (out L : List Nat),
      selectLoop g ect time lookahead retract rtg topo a out = .ok L →
      ∀ n ∈ L, n ∈ out ∨ (n ∈ topo ∧ ∃ t, g.task? n = some t ∧
        t.state ≠ .completed ∧ t.state ≠ .cancelled ∧ t.state ≠ .running ∧
        (t.state = .scheduled → retract = true)) := by
  intro topo
  induction topo with
  | nil => intro a out L h n hn; simp only [selectLoop, Except.ok.injEq] at h; subst h; exact Or.inl hn
  | cons m rest ih =>
    intro a out L h n hn
    simp only [selectLoop] at h
    cases hstep : offerStep g ect time lookahead retract rtg m a with
    | error e => simp [hstep] at h
    | ok p =>
      obtain ⟨offered, a'⟩ := p
      simp only [hstep] at h
      rcases ih a' _ L h n hn with h1 | ⟨h1, h2⟩
      · cases offered with
        | false => exact Or.inl (by simpa using h1)
        | true =>
          simp only [if_true, List.mem_append, List.mem_singleton] at h1
          rcases h1 with h1 | h1
          · exact Or.inl h1
          · subst h1
            obtain ⟨t, ht, _, hst⟩ := offerStep_offered g ect time lookahead retract rtg n a a' hstep
            refine Or.inr ⟨by simp, t, ht, ?_⟩
            rcases hst with ⟨hs, _⟩ | hs | hs | hs | ⟨hs, hr⟩ <;> simp [hs]
            exact hr
      · exact Or.inr ⟨List.mem_cons_of_mem _ h1, h2⟩

/-- Whatever was offered so far stays offered. -/
theorem selectLoop_keeps (g : GraphS) (ect : List (Nat × Int)) (time lookahead : Int) (retract rtg : Bool) :
    ∀ (topo : List Nat) (a : Bool) (out L : List Nat),
      selectLoop g ect time lookahead retract rtg topo a out = .ok L → ∀ n ∈ out, n ∈ L := by
  intro topo
  induction topo with
  | nil => intro a out L h n hn; simp only [selectLoop, Except.ok.injEq] at h; subst h; exact hn
  | cons m rest ih =>
    intro a out L h n hn
    simp only [selectLoop] at h
    cases hstep : offerStep g ect time lookahead retract rtg m a with
    | error e => simp [hstep] at h
    | ok p =>
      obtain ⟨offered, a'⟩ := p
      simp only [hstep] at h
      apply ih a' _ L h n
      cases offered <;> simp [hn]

/-- **No ready task is starved**: every RELEASED task in the traversal order
whose release time is within the horizon is in the offer; so is every PREEMPTED
or EVICTED task. -/
theorem selectLoop_complete (g : GraphS) (ect : List (Nat × Int)) (time lookahead : Int) (retract rtg : Bool) :
    ∀ (topo : List Nat) (a : Bool) (out L : List Nat),
      selectLoop g ect time lookahead retract rtg topo a out = .ok L →
      ∀ n ∈ topo, ∀ t, g.task? n = some t →
        (t.state = .released ∧ t.release ≤ time + lookahead ∨ t.state = .preempted ∨ t.state = .evicted) →
        n ∈ L := by
  intro topo
  induction topo with
  | nil => intro a out L _ n hn; simp at hn
  | cons m rest ih =>
    intro a out L h n hn t ht hst
    simp only [selectLoop] at h
    cases hstep : offerStep g ect time lookahead retract rtg m a with
    | error e => simp [hstep] at h
    | ok p =>
      obtain ⟨offered, a'⟩ := p
      simp only [hstep] at h
      simp only [List.mem_cons] at hn
      rcases hn with hn | hn
      · subst hn
        have : offerStep g ect time lookahead retract rtg n a = .ok (true, true) := by
          rcases hst with ⟨hs, hr⟩ | hs | hs
          · exact offerStep_ready g ect time lookahead retract rtg n a t ht hs hr
          · exact offerStep_preempted g ect time lookahead retract rtg n a t ht (Or.inl hs)
          · exact offerStep_preempted g ect time lookahead retract rtg n a t ht (Or.inr hs)
        rw [this] at hstep
        simp only [Except.ok.injEq, Prod.mk.injEq] at hstep
        obtain ⟨ho, _⟩ := hstep
        subst ho
        exact selectLoop_keeps g ect time lookahead retract rtg rest a' _ L h n (by simp)
      · exact ih a' _ L h n hn t ht hst

/-! ### `get_releasable_tasks` -/

theorem getReleasable_spec (g : GraphS) (n : Nat) :
    n ∈ g.getReleasable ↔
      n < g.tasks.size ∧
      (g.stateOf n = .virtual ∨ g.stateOf n = .scheduled ∨ g.stateOf n = .preempted) ∧
      ∀ p ∈ g.pars n, g.completeOf p = true := by
  simp only [getReleasable, nodes, List.mem_filter, List.mem_range, Bool.and_eq_true, Bool.or_eq_true,
    beq_iff_eq, List.all_eq_true, or_assoc]

end GraphS
end ErdosVerif.Model

namespace ErdosVerif.Model
namespace GraphS

/-- **Increasing the lookahead or releasing whole task graphs only adds tasks to
the offer** (same estimated completion times, i.e. same random tape). -/
theorem selectLoop_mono (g : GraphS) (ect : List (Nat × Int)) (time l1 l2 : Int) (retract r1 r2 : Bool)
    (hl : l1 ≤ l2) (hr : r1 = true → r2 = true) :
    ∀ (topo : List Nat) (a1 a2 : Bool) (out1 out2 L1 L2 : List Nat),
      (a1 = true → a2 = true) → (∀ n ∈ out1, n ∈ out2) →
      selectLoop g ect time l1 retract r1 topo a1 out1 = .ok L1 →
      selectLoop g ect time l2 retract r2 topo a2 out2 = .ok L2 →
      ∀ n ∈ L1, n ∈ L2 := by
  intro topo
  induction topo with
  | nil =>
    intro a1 a2 out1 out2 L1 L2 _ hsub h1 h2 n hn
    simp only [selectLoop, Except.ok.injEq] at h1 h2
    subst h1; subst h2; exact hsub n hn
  | cons m rest ih =>
    intro a1 a2 out1 out2 L1 L2 ha hsub h1 h2
    simp only [selectLoop] at h1 h2
    cases hs1 : offerStep g ect time l1 retract r1 m a1 with
    | error e => simp [hs1] at h1
    | ok p1 =>
      cases hs2 : offerStep g ect time l2 retract r2 m a2 with
      | error e => simp [hs2] at h2
      | ok p2 =>
        obtain ⟨o1, b1⟩ := p1
        obtain ⟨o2, b2⟩ := p2
        simp only [hs1] at h1
        simp only [hs2] at h2
        obtain ⟨mo, mb⟩ := offerStep_mono g ect time l1 l2 retract r1 r2 m a1 a2 o1 o2 b1 b2 hl hr ha hs1 hs2
        apply ih b1 b2 _ _ L1 L2 mb _ h1 h2
        intro n hn
        cases o1 with
        | false =>
          simp only [Bool.false_eq_true, if_false] at hn
          cases o2 <;> simp [hsub n hn]
        | true =>
          have := mo rfl
          subst this
          simp only [if_true, List.mem_append, List.mem_singleton] at hn ⊢
          rcases hn with hn | hn
          · exact Or.inl (hsub n hn)
          · exact Or.inr hn

end GraphS
end ErdosVerif.Model

namespace ErdosVerif.Model
namespace GraphS

/-- The release rule for the children of a completed, non-conditional task. -/
def releasedBy (g : GraphS) (c : Nat) : Bool :=
  match g.task? c with
  | none => false
  | some tc => tc.state != .cancelled && (tc.terminal || (g.pars c).all g.completeOf)

theorem notify_go_spec (g : GraphS) :
    ∀ (kids acc : List Nat) (tape : List Draw),
      (notifyCompletion.go g kids acc tape).err = none →
      (notifyCompletion.go g kids acc tape).released = acc ++ kids.filter g.releasedBy ∧
      (notifyCompletion.go g kids acc tape).cancelled = [] ∧
      (notifyCompletion.go g kids acc tape).g = g ∧
      (notifyCompletion.go g kids acc tape).tape = tape := by
  intro kids
  induction kids with
  | nil => intro acc tape _; simp [notifyCompletion.go]
  | cons c rest ih =>
    intro acc tape herr
    simp only [notifyCompletion.go] at herr ⊢
    cases htc : g.task? c with
    | none => simp [htc] at herr
    | some tc =>
      simp only [htc] at herr ⊢
      split at herr
      · simp at herr
      · rename_i h1
        simp only [h1, Bool.false_eq_true, if_false]
        split at herr
        · rename_i h2
          simp only [h2, if_true]
          have := ih acc tape herr
          have hf : g.releasedBy c = false := by
            have : tc.state = .cancelled := by simpa using h2
            simp [releasedBy, htc, this]
          simpa [List.filter_cons, hf] using this
        · rename_i h2
          simp only [h2, Bool.false_eq_true, if_false]
          split at herr
          · rename_i h3
            simp only [h3, if_true]
            have := ih (acc ++ [c]) tape herr
            have hf : g.releasedBy c = true := by
              simp only [releasedBy, htc, Bool.and_eq_true, bne_iff_ne, ne_eq]
              exact ⟨by simpa using h2, h3⟩
            simpa [List.filter_cons, hf, List.append_assoc] using this
          · rename_i h3
            simp only [h3, Bool.false_eq_true, if_false]
            have := ih acc tape herr
            have hf : g.releasedBy c = false := by
              simp only [releasedBy, htc, Bool.and_eq_false_iff]
              right; simpa using h3
            simpa [List.filter_cons, hf] using this

/-- **Release on completion** (non-conditional task): exactly the children that
are not cancelled and are either a join (terminal) or have every parent complete
are released, in child order; nothing is cancelled; no draw is consumed. -/
theorem notify_nonconditional (g : GraphS) (n : Nat) (finish : Int) (tape : List Draw) (t : TaskS)
    (ht : g.task? n = some t) (hc : t.isComplete = true) (hnc : t.conditional = false)
    (herr : (g.notifyCompletion n finish tape).err = none) :
    (g.notifyCompletion n finish tape).released = (g.kids n).filter g.releasedBy ∧
    (g.notifyCompletion n finish tape).cancelled = [] ∧
    (g.notifyCompletion n finish tape).g = g ∧
    (g.notifyCompletion n finish tape).tape = tape := by
  unfold notifyCompletion at herr ⊢
  simp only [ht, hc, hnc, Bool.not_true, Bool.false_eq_true, if_false] at herr ⊢
  simpa using notify_go_spec g (g.kids n) [] tape herr

end GraphS
end ErdosVerif.Model
