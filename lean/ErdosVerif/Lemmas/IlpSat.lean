/-
Extraction lemmas: what `sat σ (gen I)` says about the ILP scheduler's model, in
semantic form (values of start / placement expressions), so that the property
theorems never unfold `gen` again.
-/
import ErdosVerif.Model.Ilp
namespace ErdosVerif.Ilp
open ErdosVerif.Mip

/-! ### List / sum facts -/

theorem isum_nonneg {l : List Int} (h : ∀ a ∈ l, 0 ≤ a) : 0 ≤ isum l := by
  induction l with
  | nil => simp
  | cons x xs ih =>
    have h1 := h x (by simp)
    have h2 := ih (fun a ha => h a (by simp [ha]))
    simp; omega

theorem le_isum_of_mem {l : List Int} (h : ∀ a ∈ l, 0 ≤ a) {a : Int} (ha : a ∈ l) : a ≤ isum l := by
  induction l with
  | nil => simp at ha
  | cons x xs ih =>
    have hx := h x (by simp)
    have hxs : ∀ b ∈ xs, 0 ≤ b := fun b hb => h b (by simp [hb])
    have hn := isum_nonneg hxs
    simp at ha
    rcases ha with rfl | ha
    · simp; omega
    · have := ih hxs ha
      simp; omega

theorem isum_map_le {α : Type} (l : List α) (f g : α → Int) (h : ∀ a ∈ l, f a ≤ g a) :
    isum (l.map f) ≤ isum (l.map g) := by
  induction l with
  | nil => simp
  | cons x xs ih =>
    have h1 := h x (by simp)
    have h2 := ih (fun a ha => h a (by simp [ha]))
    simp; omega

theorem isum_map_eq {α : Type} (l : List α) (f g : α → Int) (h : ∀ a ∈ l, f a = g a) :
    isum (l.map f) = isum (l.map g) := by
  induction l with
  | nil => simp
  | cons x xs ih =>
    have h1 := h x (by simp)
    have h2 := ih (fun a ha => h a (by simp [ha]))
    simp; omega

theorem isum_map_zero {α : Type} (l : List α) (f : α → Int) (h : ∀ a ∈ l, f a = 0) :
    isum (l.map f) = 0 := by
  induction l with
  | nil => simp
  | cons x xs ih =>
    have h1 := h x (by simp)
    have h2 := ih (fun a ha => h a (by simp [ha]))
    simp; omega

/-- If every element is ≤ 1 and the sum reaches the length, every element is 1. -/
theorem all_one_of_isum_eq_length {l : List Int} (hle : ∀ a ∈ l, a ≤ 1)
    (hs : (l.length : Int) ≤ isum l) : ∀ a ∈ l, a = 1 := by
  induction l with
  | nil => intro a ha; simp at ha
  | cons x xs ih =>
    have hx := hle x (by simp)
    have hxs : ∀ b ∈ xs, b ≤ 1 := fun b hb => hle b (by simp [hb])
    have hub : isum xs ≤ (xs.length : Int) := by
      clear ih hs hle hx
      induction xs with
      | nil => simp
      | cons y ys ihy =>
        have hy := hxs y (by simp)
        have := ihy (fun b hb => hxs b (by simp [hb]))
        simp; omega
    simp at hs
    intro a ha
    simp at ha
    rcases ha with rfl | ha
    · omega
    · exact ih hxs (by omega) a ha

/-! ### Index sets -/

theorem mem_keys {I : Inst} {t w s : Nat} : (w, s) ∈ I.keys t ↔ w < I.nW ∧ s < (I.task t).nS := by
  simp [Inst.keys, List.mem_flatMap, List.mem_map, List.mem_range]

theorem mem_nonRunning {I : Inst} {t : Nat} : t ∈ I.nonRunning ↔ t < I.nT ∧ I.running t = false := by
  simp [Inst.nonRunning, List.mem_filter, List.mem_range]

theorem mem_pairs {I : Inst} {a b : Nat} : (a, b) ∈ I.pairs ↔ a < I.nT ∧ b < I.nT ∧ b ≠ a := by
  simp [Inst.pairs, List.mem_flatMap, List.mem_map, List.mem_filter, List.mem_range]

theorem mem_parentVars {I : Inst} {c p : Nat} :
    p ∈ I.parentVars c ↔ p < I.nT ∧ I.edges.contains ((I.task p).uniq, (I.task c).uniq) = true := by
  simp [Inst.parentVars, List.mem_filter, List.mem_range]

/-! ### Semantic values -/

/-- Value of `placed_on_worker_with_strategy(w, s)` under `σ` (constants for RUNNING tasks
and incompatible pairs). -/
def xval (I : Inst) (σ : Var → Int) (t w s : Nat) : Int := (I.xE t w s).eval σ
/-- Value of the start expression (`now` for a RUNNING task). -/
def sval (I : Inst) (σ : Var → Int) (t : Nat) : Int := (I.startE t).eval σ
/-- `Σ x[w,s]`. -/
def psum (I : Inst) (σ : Var → Int) (t : Nat) : Int := isum ((I.keys t).map (fun k => xval I σ t k.1 k.2))
/-- `Σ x[w,s] * runtime(s)`. -/
def dur (I : Inst) (σ : Var → Int) (t : Nat) : Int :=
  isum ((I.keys t).map (fun k => I.runtime t k.2 * xval I σ t k.1 k.2))

theorem eval_sumX (I : Inst) (σ : Var → Int) (t : Nat) : (I.sumX t).eval σ = psum I σ t := by
  simp [Inst.sumX, psum, LinExpr.eval_sumL, List.map_map, Function.comp_def, xval]

theorem eval_durE (I : Inst) (σ : Var → Int) (t : Nat) : (I.durE t).eval σ = dur I σ t := by
  simp [Inst.durE, dur, LinExpr.eval_sumL, List.map_map, Function.comp_def, xval]

theorem sval_running {I : Inst} {σ : Var → Int} {t : Nat} (h : I.running t = true) : sval I σ t = I.now := by
  simp [sval, Inst.startE, h]

theorem sval_var {I : Inst} {σ : Var → Int} {t : Nat} (h : I.running t = false) : sval I σ t = σ (.start t) := by
  simp [sval, Inst.startE, h]

theorem xval_var {I : Inst} {σ : Var → Int} {t w s : Nat} (h : I.hasVar t w s = true) :
    xval I σ t w s = σ (.x t w s) := by
  simp [Inst.hasVar] at h
  simp [xval, Inst.xE, h.1, h.2]

theorem xval_novar {I : Inst} {σ : Var → Int} {t w s : Nat} (hr : I.running t = false)
    (h : I.hasVar t w s = false) : xval I σ t w s = 0 := by
  simp [Inst.hasVar, hr] at h
  simp [xval, Inst.xE, hr, h]

theorem xval_running {I : Inst} {σ : Var → Int} {t w s : Nat} (hr : I.running t = true) :
    xval I σ t w s = if w = (I.task t).prevW ∧ s = (I.task t).prevS then 1 else 0 := by
  simp [xval, Inst.xE, hr]

/-! ### Feasible points -/

section
variable {I : Inst} {σ : Var → Int}

theorem sat_constr (h : sat σ (gen I)) {c : Constr Var} (hc : c ∈ I.constrs) : c.holds σ := h.2 c hc
theorem sat_var (h : sat σ (gen I)) {d : VarDecl Var} (hd : d ∈ I.vars) : d.ok σ := h.1 d hd

theorem mem_constrs_task {t : Nat} {c : Constr Var} (ht : t ∈ I.nonRunning)
    (hc : c ∈ I.cDeadline t ++ I.cPlacement t) : c ∈ I.constrs := by
  simp only [Inst.constrs, List.mem_append, List.mem_flatMap]
  exact Or.inl (Or.inl (Or.inl (Or.inl ⟨t, ht, by simpa using hc⟩)))

theorem mem_constrs_deps {t : Nat} {c : Constr Var} (ht : t ∈ I.nonRunning)
    (hc : c ∈ I.cDeps t) : c ∈ I.constrs := by
  simp only [Inst.constrs, List.mem_append, List.mem_flatMap]
  exact Or.inl (Or.inl (Or.inl (Or.inr ⟨t, ht, hc⟩)))

theorem mem_constrs_overlap {p : Nat × Nat} {c : Constr Var} (hp : p ∈ I.pairs)
    (hc : c ∈ I.cOverlap p) : c ∈ I.constrs := by
  simp only [Inst.constrs, List.mem_append, List.mem_flatMap]
  exact Or.inl (Or.inl (Or.inr ⟨p, hp, hc⟩))

theorem mem_constrs_resource {t : Nat} {c : Constr Var} (ht : t < I.nT)
    (hc : c ∈ I.cResource t) : c ∈ I.constrs := by
  simp only [Inst.constrs, List.mem_append, List.mem_flatMap]
  exact Or.inl (Or.inr ⟨t, List.mem_range.mpr ht, hc⟩)

theorem mem_constrs_objective {c : Constr Var} (hc : c ∈ I.cObjective) : c ∈ I.constrs := by
  simp only [Inst.constrs, List.mem_append]
  exact Or.inr hc

/-- Every placement value is 0 or 1. -/
theorem xval_binary (h : sat σ (gen I)) {t w s : Nat} (ht : t < I.nT) (hw : w < I.nW)
    (hs : s < (I.task t).nS) : xval I σ t w s = 0 ∨ xval I σ t w s = 1 := by
  cases hr : I.running t with
  | true =>
    rw [xval_running hr]; split <;> simp
  | false =>
    cases hv : I.hasVar t w s with
    | false => left; exact xval_novar hr hv
    | true =>
      rw [xval_var hv]
      have hd : binDecl (.x t w s) ∈ I.vars := by
        simp only [Inst.vars, List.mem_append, List.mem_flatMap]
        refine Or.inl (Or.inl (Or.inl (Or.inl (Or.inl ⟨t, mem_nonRunning.mpr ⟨ht, hr⟩, ?_⟩))))
        simp only [Inst.taskVars, List.mem_cons, List.mem_map, List.mem_filter]
        exact Or.inr ⟨(w, s), ⟨mem_keys.mpr ⟨hw, hs⟩, hv⟩, rfl⟩
      have := (sat_var h hd).1 rfl
      simpa [binDecl] using this

theorem xval_nonneg (h : sat σ (gen I)) {t w s : Nat} (ht : t < I.nT) (hw : w < I.nW)
    (hs : s < (I.task t).nS) : 0 ≤ xval I σ t w s := by
  rcases xval_binary h ht hw hs with h0 | h1 <;> omega

theorem xval_le_one (h : sat σ (gen I)) {t w s : Nat} (ht : t < I.nT) (hw : w < I.nW)
    (hs : s < (I.task t).nS) : xval I σ t w s ≤ 1 := by
  rcases xval_binary h ht hw hs with h0 | h1 <;> omega

/-- Start lower bound: `max(now + 1, release)`. -/
theorem start_lb (h : sat σ (gen I)) {t : Nat} (ht : t < I.nT) (hr : I.running t = false) :
    I.startLb t ≤ σ (.start t) := by
  have hd : (⟨.start t, .int, some (I.startLb t), none⟩ : VarDecl Var) ∈ I.vars := by
    simp only [Inst.vars, List.mem_append, List.mem_flatMap]
    refine Or.inl (Or.inl (Or.inl (Or.inl (Or.inl ⟨t, mem_nonRunning.mpr ⟨ht, hr⟩, ?_⟩))))
    simp [Inst.taskVars]
  have := ((sat_var h hd).2 rfl).1
  simpa [optLe] using this

theorem psum_nonneg (h : sat σ (gen I)) {t : Nat} (ht : t < I.nT) : 0 ≤ psum I σ t := by
  apply isum_nonneg
  intro a ha
  simp only [List.mem_map] at ha
  obtain ⟨k, hk, rfl⟩ := ha
  have := mem_keys.mp (by simpa using hk : (k.1, k.2) ∈ I.keys t)
  exact xval_nonneg h ht this.1 this.2

/-- `Σ x ≤ 1` for every task that is not RUNNING. -/
theorem psum_le_one (h : sat σ (gen I)) {t : Nat} (ht : t < I.nT) (hr : I.running t = false) :
    psum I σ t ≤ 1 := by
  have hm := mem_nonRunning.mpr ⟨ht, hr⟩
  by_cases hs : ((I.task t).state == .scheduled && !I.retract) = true
  · have hc : Constr.lin s!"{I.tname t}_previously_scheduled_required_placement" (I.sumX t) .eq 1 ∈ I.constrs :=
      mem_constrs_task hm (by simp [Inst.cPlacement, hs])
    have := sat_constr h hc
    simp [Constr.holds, Sense.holds, eval_sumX] at this
    omega
  · have hc : Constr.lin s!"{I.tname t}_consistent_placement" (I.sumX t) .le 1 ∈ I.constrs :=
      mem_constrs_task hm (by simp [Inst.cPlacement, hs])
    have := sat_constr h hc
    simpa [Constr.holds, Sense.holds, eval_sumX] using this

/-- A SCHEDULED task in non-retracting mode must be placed again. -/
theorem psum_eq_one_of_scheduled (h : sat σ (gen I)) {t : Nat} (ht : t < I.nT)
    (hr : I.running t = false) (hs : (I.task t).state = .scheduled) (hre : I.retract = false) :
    psum I σ t = 1 := by
  have hm := mem_nonRunning.mpr ⟨ht, hr⟩
  have hc : Constr.lin s!"{I.tname t}_previously_scheduled_required_placement" (I.sumX t) .eq 1 ∈ I.constrs :=
    mem_constrs_task hm (by simp [Inst.cPlacement, hs, hre])
  have := sat_constr h hc
  simpa [Constr.holds, Sense.holds, eval_sumX] using this

/-- One placement value is at most the sum. -/
theorem xval_le_psum (h : sat σ (gen I)) {t w s : Nat} (ht : t < I.nT) (hw : w < I.nW)
    (hs : s < (I.task t).nS) : xval I σ t w s ≤ psum I σ t := by
  apply le_isum_of_mem
  · intro a ha
    simp only [List.mem_map] at ha
    obtain ⟨k, hk, rfl⟩ := ha
    have := mem_keys.mp (by simpa using hk : (k.1, k.2) ∈ I.keys t)
    exact xval_nonneg h ht this.1 this.2
  · simp only [List.mem_map]
    exact ⟨(w, s), mem_keys.mpr ⟨hw, hs⟩, rfl⟩

/-- The chosen strategy's runtime is at most the duration expression. -/
theorem runtime_le_dur (h : sat σ (gen I)) {t w s : Nat} (ht : t < I.nT) (hw : w < I.nW)
    (hs : s < (I.task t).nS) (hx : xval I σ t w s = 1) : I.runtime t s ≤ dur I σ t := by
  have : I.runtime t s * xval I σ t w s ≤ dur I σ t := by
    apply le_isum_of_mem
    · intro a ha
      simp only [List.mem_map] at ha
      obtain ⟨k, hk, rfl⟩ := ha
      have hk' := mem_keys.mp (by simpa using hk : (k.1, k.2) ∈ I.keys t)
      have h1 := xval_nonneg h ht hk'.1 hk'.2
      have h2 : (0 : Int) ≤ I.runtime t k.2 := by simp [Inst.runtime]
      exact Int.mul_nonneg h2 h1
    · simp only [List.mem_map]
      exact ⟨(w, s), mem_keys.mpr ⟨hw, hs⟩, rfl⟩
  rw [hx] at this
  omega

end
end ErdosVerif.Ilp

namespace ErdosVerif.Ilp
open ErdosVerif.Mip

/-! ### Sums over index ranges; RUNNING tasks -/

theorem isum_flatMap {α β : Type} (l : List α) (f : α → List β) (g : β → Int) :
    isum ((l.flatMap f).map g) = isum (l.map (fun a => isum ((f a).map g))) := by
  induction l with
  | nil => simp
  | cons x xs ih => simp [List.flatMap_cons, isum_append, ih]

theorem isum_range_indicator (n a : Nat) (c : Int) :
    isum ((List.range n).map (fun i => if i = a then c else 0)) = if a < n then c else 0 := by
  induction n with
  | zero => simp
  | succ n ih =>
    rw [List.range_succ, List.map_append, isum_append, ih]
    simp only [List.map_cons, List.map_nil, isum_cons, isum_nil]
    by_cases h1 : a < n
    · have : n ≠ a := by omega
      simp [h1, this]; omega
    · by_cases h2 : n = a
      · subst h2; simp
      · have : ¬ a < n + 1 := by omega
        simp [h1, h2, this]

theorem wfRunning_spec {I : Inst} (h : I.wfRunning = true) {t : Nat} (ht : t < I.nT)
    (hr : I.running t = true) : (I.task t).prevW < I.nW ∧ (I.task t).prevS < (I.task t).nS := by
  simp only [Inst.wfRunning, List.all_eq_true, List.mem_range] at h
  have := h t ht
  simp [hr] at this
  exact ⟨this.1.1.1, this.1.1.2⟩

theorem wfRunning_compat {I : Inst} (h : I.wfRunning = true) {t : Nat} (ht : t < I.nT)
    (hr : I.running t = true) :
    compatible (I.worker (I.task t).prevW) ((I.task t).strat (I.task t).prevS) = true ∧
    I.parentVars t = [] := by
  simp only [Inst.wfRunning, List.all_eq_true, List.mem_range] at h
  have := h t ht
  simp [hr] at this
  exact ⟨this.1.2, this.2⟩

theorem wfParents_spec {I : Inst} (h : I.wfParents = true) {c : Nat} (hc : c < I.nT) :
    (I.parentVars c).length ≤ I.nParents c := by
  simp only [Inst.wfParents, List.all_eq_true, List.mem_range] at h
  simpa using h c hc

/-- A RUNNING task counts as placed: its constants sum to 1. -/
theorem psum_running {I : Inst} {σ : Var → Int} {t : Nat} (hr : I.running t = true)
    (hw : (I.task t).prevW < I.nW) (hs : (I.task t).prevS < (I.task t).nS) : psum I σ t = 1 := by
  unfold psum Inst.keys
  rw [isum_flatMap]
  have h1 : ∀ w ∈ List.range I.nW,
      isum (((List.range (I.task t).nS).map (fun s => (w, s))).map (fun k => xval I σ t k.1 k.2)) =
      (if w = (I.task t).prevW then 1 else 0) := by
    intro w _
    rw [List.map_map]
    by_cases hwp : w = (I.task t).prevW
    · rw [isum_map_eq _ _ (fun s => if s = (I.task t).prevS then 1 else 0)]
      · rw [isum_range_indicator]; simp [hwp, hs]
      · intro s _; simp [Function.comp, xval_running hr, hwp]
    · rw [isum_map_zero]
      · simp [hwp]
      · intro s _; simp [Function.comp, xval_running hr, hwp]
  rw [isum_map_eq _ _ _ h1, isum_range_indicator]
  simp [hw]

end ErdosVerif.Ilp
