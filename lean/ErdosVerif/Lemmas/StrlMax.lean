/-
C20 helper lemmas, part 4: a `Max` over Choose leaves reports at most one placement.
-/
import ErdosVerif.Lemmas.StrlExact
namespace ErdosVerif.Strl

theorem length_mergeP (acc : List Placement) (p : Placement) : (mergeP acc p).length ≤ acc.length + 1 := by
  unfold mergeP
  have := List.length_filter_le (fun q => q.name != p.name) acc
  simp only [List.length_append, List.length_cons, List.length_nil]
  omega

theorem length_foldl_mergeP (pls : List Placement) : ∀ acc : List Placement,
    (pls.foldl mergeP acc).length ≤ acc.length + pls.length := by
  induction pls with
  | nil => intro acc; simp
  | cons p pls ih =>
    intro acc
    simp only [List.foldl_cons, List.length_cons]
    have := ih (mergeP acc p)
    have := length_mergeP acc p
    omega

theorem length_mergeChildren_aux (sols : List Sol) : ∀ acc : List Placement,
    (sols.foldl (fun acc s => if s.utility == some 0 then acc else s.placements.foldl mergeP acc) acc).length
      ≤ acc.length + sumBy (fun s => (s.placements.length : Int)) sols := by
  induction sols with
  | nil => intro acc; simp
  | cons s sols ih =>
    intro acc
    simp only [List.foldl_cons, sumBy_cons]
    split
    · have := ih acc
      omega
    · have := ih (s.placements.foldl mergeP acc)
      have := length_foldl_mergeP s.placements acc
      omega

theorem length_mergeChildren (sols : List Sol) :
    ((mergeChildren sols).length : Int) ≤ sumBy (fun s => (s.placements.length : Int)) sols := by
  have := length_mergeChildren_aux sols []
  simpa [mergeChildren] using this

/-- What a child contributes to the "at most one" row of its `Max`. -/
def indTerm (σ : Assign) (r : PR) : Int := if r.util then resolveTV σ r.ind else 0

theorem maxFold_sub (σ : Assign) (children : List PR) : ∀ acc : MaxAcc,
    evalTerms σ (children.foldl maxStep acc).sub - (children.foldl maxStep acc).subRhs
      = evalTerms σ acc.sub - acc.subRhs + sumBy (indTerm σ) children := by
  induction children with
  | nil => intro acc; simp
  | cons r rs ih =>
    intro acc
    simp only [List.foldl_cons, sumBy_cons]
    rw [ih]
    unfold maxStep indTerm
    by_cases hu : r.util = true
    · simp only [hu, Bool.not_true, Bool.false_eq_true, if_false, if_true]
      cases hi : r.ind with
      | const c => simp [tvTerm, resolveTV, evalTerms]; omega
      | var v => simp [tvTerm, resolveTV, evalTerms]; omega
    · simp [hu]

theorem choose_len_le (ctx : Ctx) (σ : Assign) (path : Path) (e : Expr) (he : isLeafChoose e = true)
    (hv : ∀ v ∈ (compileNode ctx path e).vars, Var.holds σ v = true) :
    ((populateNode ctx σ path e).placements.length : Int) ≤ indTerm σ (compileNode ctx path e).pr := by
  cases e with
  | choose name strategy parts n start dur u =>
    simp only [populateNode, compileNode] at hv ⊢
    unfold compileChoose at hv ⊢
    unfold indTerm
    by_cases h1 : ctx.now > start
    · simp [h1, baseSol, PR.none, Sol.none]
    · simp only [h1, if_false] at hv ⊢
      by_cases h2 : (schedulable ctx parts).isEmpty = true
      · simp [h2, baseSol, PR.none, Sol.none]
      · simp only [h2] at hv ⊢
        simp only [Bool.false_eq_true, if_false] at hv ⊢
        have hind := hv ⟨⟨path, .placed⟩, chooseVarName name start strategy, .bin, some 0, .none⟩ (by simp)
        simp [Var.holds] at hind
        simp only [baseSol, Bool.not_true, Bool.false_eq_true, if_false, mergeChildren, List.foldl_nil,
          if_true, resolveTV]
        split
        · simp; omega
        · rename_i hu
          have hne : σ ⟨path, .placed⟩ ≠ 0 := by
            intro h0
            apply hu
            simp [evalU, h0]
          simp only [List.length_cons, List.length_nil]
          omega
  | _ => simp [isLeafChoose] at he

theorem maxList_len (ctx : Ctx) (σ : Assign) : ∀ (cs : List Expr) (path : Path) (i : Nat),
    cs.all isLeafChoose = true →
    (∀ v ∈ (compileList ctx path i cs).flatMap (·.2.vars), Var.holds σ v = true) →
    sumBy (fun s => (s.placements.length : Int)) (populateList ctx σ path i cs)
      ≤ sumBy (indTerm σ) ((compileList ctx path i cs).map (·.2.pr))
  | [], _, _, _, _ => by simp [populateList, compileList]
  | e :: es, path, i, hcs, hv => by
    simp only [List.all_cons, Bool.and_eq_true] at hcs
    simp only [compileList, List.flatMap_cons] at hv
    simp only [populateList, compileList, List.map_cons, sumBy_cons]
    have h1 := choose_len_le ctx σ (i :: path) e hcs.1 (fun v h => hv v (List.mem_append_left _ h))
    have h2 := maxList_len ctx σ es path (i + 1) hcs.2 (fun v h => hv v (List.mem_append_right _ h))
    omega


theorem max_pr_vars_cons (ctx : Ctx) (path : Path) (name : String) (cs : List Expr) :
    (⟨⟨path, .maxInd⟩, name ++ "_max_indicator", .bin, some 0, .none⟩ : Var) ∈ (compileNode ctx path (.max name cs)).vars ∧
    (⟨name ++ "_max_child_subexpr_constr", .eq,
        (((compileList ctx path 0 cs).map (·.2.pr)).foldl maxStep {}).subRhs,
        (((compileList ctx path 0 cs).map (·.2.pr)).foldl maxStep {}).sub ++ [(-1, ⟨path, .maxInd⟩)]⟩ : Constr)
      ∈ (compileNode ctx path (.max name cs)).cons := by
  simp only [compileNode, finishMax]
  constructor
  · apply List.mem_append_left
    simp
  · apply List.mem_append_right
    simp

/-- A `Max` whose children are Choose leaves reports at most one placement, for every
assignment that satisfies its variables' bounds and its constraints. -/
theorem max_node_at_most_one (ctx : Ctx) (σ : Assign) (path : Path) (name : String) (cs : List Expr)
    (hcs : cs.all isLeafChoose = true)
    (hv : ∀ v ∈ (compileNode ctx path (.max name cs)).vars, Var.holds σ v = true)
    (hc : ∀ c ∈ (compileNode ctx path (.max name cs)).cons, Constr.holds σ c = true) :
    (populateNode ctx σ path (.max name cs)).placements.length ≤ 1 := by
  have ⟨hmv, hmc⟩ := max_pr_vars_cons ctx path name cs
  have hind := hv _ hmv
  have hrow := hc _ hmc
  simp [Var.holds] at hind
  simp only [Constr.holds, decide_eq_true_eq, evalTerms_append] at hrow
  simp only [evalTerms, List.map_cons, List.map_nil, List.sum_cons, List.sum_nil] at hrow
  have hfold := maxFold_sub σ ((compileList ctx path 0 cs).map (·.2.pr)) {}
  simp only [evalTerms, List.map_nil, List.sum_nil] at hfold
  have hlen := maxList_len ctx σ cs path 0 hcs (fun v h => hv v (max_vars ctx path name cs v h))
  have hm := length_mergeChildren (populateList ctx σ path 0 cs)
  simp only [populateNode, baseSol]
  split
  · simp [Sol.none]
  · simp only
    omega


mutual
theorem node_max_one (ctx : Ctx) (σ : Assign) :
    ∀ (e : Expr) (path : Path), buildErr e = none →
      (∀ v ∈ (compileNode ctx path e).vars, Var.holds σ v = true) →
      (∀ c ∈ (compileNode ctx path e).cons, Constr.holds σ c = true) →
      forallMax (fun p n cs => (populateNode ctx σ p (.max n cs)).placements.length ≤ 1) path e
  | .choose .., _, _, _, _ => by simp [forallMax]
  | .alloc .., _, _, _, _ => by simp [forallMax]
  | .obj name cs, path, hb, hv, hc => by
    simp only [forallMax]
    simp only [buildErr] at hb
    exact list_max_one ctx σ cs path 0 hb
      (fun v h => hv v (by simp only [compileNode]; exact h))
      (fun c h => hc c (by simp only [compileNode]; exact h))
  | .min name cs, path, hb, hv, hc => by
    simp only [forallMax]
    simp only [buildErr] at hb
    exact list_max_one ctx σ cs path 0 hb
      (fun v h => hv v (min_vars ctx path name cs v h))
      (fun c h => hc c (min_cons ctx path name cs c h))
  | .max name cs, path, hb, hv, hc => by
    simp only [forallMax]
    simp only [buildErr] at hb
    have hcs : cs.all isLeafChoose = true := by
      split at hb
      · simp at hb
      · split at hb
        · simp at hb
        · rename_i h; simpa using h
    exact max_node_at_most_one ctx σ path name cs hcs hv hc
  | .lt name a b, path, hb, hv, hc => by
    simp only [forallMax]
    simp only [buildErr] at hb
    have hba : buildErr a = none := by
      split at hb
      · simp at hb
      · assumption
    have hbb : buildErr b = none := by
      split at hb
      · simp at hb
      · exact hb
    exact ⟨node_max_one ctx σ a (0 :: path) hba
        (fun v h => hv v (lt_vars ctx path name a b v (Or.inl h)))
        (fun c h => hc c (lt_cons ctx path name a b c (Or.inl h))),
      node_max_one ctx σ b (1 :: path) hbb
        (fun v h => hv v (lt_vars ctx path name a b v (Or.inr h)))
        (fun c h => hc c (lt_cons ctx path name a b c (Or.inr h)))⟩
  | .scale name f d c, path, hb, hv, hc => by
    simp only [forallMax]
    simp only [buildErr] at hb
    exact node_max_one ctx σ c (0 :: path) hb
      (fun v h => hv v (by simp only [compileNode]; exact h))
      (fun c' h => hc c' (by simp only [compileNode]; exact h))
theorem list_max_one (ctx : Ctx) (σ : Assign) :
    ∀ (cs : List Expr) (path : Path) (i : Nat), buildErrList cs = none →
      (∀ v ∈ (compileList ctx path i cs).flatMap (·.2.vars), Var.holds σ v = true) →
      (∀ c ∈ (compileList ctx path i cs).flatMap (·.2.cons), Constr.holds σ c = true) →
      forallMaxL (fun p n cs => (populateNode ctx σ p (.max n cs)).placements.length ≤ 1) path i cs
  | [], _, _, _, _, _ => by simp [forallMaxL]
  | e :: es, path, i, hb, hv, hc => by
    simp only [forallMaxL]
    simp only [buildErrList] at hb
    simp only [compileList, List.flatMap_cons] at hv hc
    have hbe : buildErr e = none := by
      split at hb
      · simp at hb
      · assumption
    have hbes : buildErrList es = none := by
      split at hb
      · simp at hb
      · exact hb
    exact ⟨node_max_one ctx σ e (i :: path) hbe
        (fun v h => hv v (List.mem_append_left _ h)) (fun c h => hc c (List.mem_append_left _ h)),
      list_max_one ctx σ es path (i + 1) hbes
        (fun v h => hv v (List.mem_append_right _ h)) (fun c h => hc c (List.mem_append_right _ h))⟩
end

end ErdosVerif.Strl
