import ErdosVerif.Lemmas.SimProgressRun
/-!
Progress of the `simulate()` loop, part 7: the pool-level map `WorkerPool._placed_tasks`
(which `get_placed_tasks()` reads) only mentions tasks that are resident on the worker it
names (`PFM`), in every state. Together with the residency invariant ("resident ⇒ RUNNING")
this makes every task the loop looks at a RUNNING task.
-/
open Std.Do
set_option mvcgen.warning false

namespace ErdosVerif.Model.Sim

/-- The pool-level task ↦ worker map has no duplicate key and every entry is resident on
the worker it names. -/
def Pool.FwdOK (p : Pool) : Prop :=
  (AList.keys p.placed).Nodup ∧ ∀ q ∈ p.placed, ∃ ks, p.view[q.2]? = some ks ∧ q.1 ∈ ks

def PFM (s : SimS) : Prop := ∀ p ∈ s.pools.toList, Pool.FwdOK p

theorem Pool.FwdOK.same {p p' : Pool} (h : Pool.FwdOK p) (hv : p'.view = p.view ∧ p'.placed = p.placed) : Pool.FwdOK p' := by
  unfold Pool.FwdOK; rw [hv.1, hv.2]; exact h

theorem nodup_addKey (ks : List Nat) (k : Nat) (h : ks.Nodup) : (addKey ks k).Nodup := by
  unfold addKey
  split
  · exact h
  · rename_i hk
    exact List.nodup_append.mpr ⟨h, by simp, by
      intro a ha b hb; simp only [List.mem_singleton] at hb; subst hb; intro he; subst he; exact hk ha⟩

theorem mem_addKey (ks : List Nat) (k x : Nat) (h : x ∈ ks) : x ∈ addKey ks k := by
  unfold addKey; split
  · exact h
  · exact List.mem_append_left _ h

theorem self_mem_addKey (ks : List Nat) (k : Nat) : k ∈ addKey ks k := by
  unfold addKey; split
  · assumption
  · simp

theorem Pool.fwd_placeTask (p : Pool) (t : Nat) (strats : List Strategy) (s? : Option Strategy) (wid? : Option Nat)
    (h : Pool.FwdOK p) : Pool.FwdOK (p.placeTask t strats s? wid?).1 := by
  rcases Pool.placeTask_view p t strats s? wid? with ⟨_, i, ks, hvi, hview, hplaced⟩ | ⟨_, hv⟩
  · unfold Pool.FwdOK
    rw [hview, hplaced]
    refine ⟨by rw [AList.keys_set]; exact nodup_addKey _ _ h.1, ?_⟩
    intro q hq
    have hi : i < p.view.length := (List.getElem?_eq_some_iff.mp hvi).1
    rcases AList.mem_set _ _ _ _ hq with h1 | h1
    · subst h1
      exact ⟨addKey ks t, by simp [hi], self_mem_addKey _ _⟩
    · obtain ⟨ks', hk', hm⟩ := h.2 q h1
      by_cases hqi : q.2 = i
      · rw [hqi] at hk' ⊢
        rw [hvi] at hk'; cases hk'
        exact ⟨addKey ks t, by simp [hi], mem_addKey _ _ _ hm⟩
      · refine ⟨ks', ?_, hm⟩
        rw [List.getElem?_set_ne (fun e => hqi e.symm)]; exact hk'
  · exact h.same hv

theorem alist_erase_key_ne {υ : Type} (l : AList Nat υ) (k : Nat) (q : Nat × υ) (hn : (AList.keys l).Nodup)
    (h : q ∈ AList.erase l k) : q.1 ≠ k := by
  induction l with
  | nil => simp [AList.erase] at h
  | cons a t ih =>
    obtain ⟨a1, a2⟩ := a
    simp only [AList.keys_cons, List.nodup_cons] at hn
    simp only [AList.erase] at h
    by_cases hak : a1 = k
    · rw [if_pos hak] at h
      intro he
      apply hn.1
      rw [hak, ← he]
      exact List.mem_map.mpr ⟨q, h, rfl⟩
    · rw [if_neg hak] at h
      rcases List.mem_cons.mp h with h1 | h1
      · rw [h1]; exact hak
      · exact ih hn.2 h1

theorem Pool.fwd_removeTask (p : Pool) (t : Nat) (h : Pool.FwdOK p) : Pool.FwdOK (p.removeTask t).1 := by
  rcases Pool.removeTask_view p t with ⟨_, i, ks, _, hvi, _, hview, hplaced⟩ | ⟨_, hv⟩
  · unfold Pool.FwdOK
    rw [hview, hplaced]
    refine ⟨by rw [AList.keys_erase]; exact h.1.erase _, ?_⟩
    intro q hq
    have hi : i < p.view.length := (List.getElem?_eq_some_iff.mp hvi).1
    have hne := alist_erase_key_ne _ _ _ h.1 hq
    obtain ⟨ks', hk', hm⟩ := h.2 q (AList.mem_erase _ _ _ hq)
    by_cases hqi : q.2 = i
    · rw [hqi] at hk' ⊢
      rw [hvi] at hk'; cases hk'
      exact ⟨ks.erase t, by simp [hi], (List.mem_erase_of_ne hne).mpr hm⟩
    · refine ⟨ks', ?_, hm⟩
      rw [List.getElem?_set_ne (fun e => hqi e.symm)]; exact hk'
  · exact h.same hv

theorem PFM.congr (s s' : SimS) (h : PFM s) (hp : s'.pools = s.pools) : PFM s' := by
  unfold PFM; rw [hp]; exact h

theorem PFM.set (s s' : SimS) (pi : Nat) (p p' : Pool) (h : PFM s) (hpi : s.pools[pi]? = some p)
    (hf : Pool.FwdOK p → Pool.FwdOK p') (hp : s'.pools = s.pools.setIfInBounds pi p') : PFM s' := by
  intro q hq
  rw [hp] at hq
  rcases Array.mem_or_eq_of_mem_setIfInBounds (Array.mem_toList_iff.mp hq) with h1 | h1
  · exact h q (Array.mem_toList_iff.mpr h1)
  · subst h1
    exact hf (h p (Array.mem_toList_iff.mpr (Array.mem_of_getElem? hpi)))

abbrev FA : Assertion (.except SErr (.arg SimS .pure)) := fun s => ⌜PFM s⌝
abbrev KeepsF {α} (x : SimM α) : Prop := ⦃FA⦄ x ⦃post⟨fun _ => FA, fun _ _ => ⌜True⌝⟩⦄
abbrev loopF {β} : PostCond β (.except SErr (.arg SimS .pure)) := post⟨fun _ s => ⌜PFM s⌝, fun _ _ => ⌜True⌝⟩

macro "pfm_close" : tactic => `(tactic| first
  | assumption
  | trivial
  | exact ExceptConds.entails.refl _
  | (intro s h; exact h)
  | (intros; trivial)
  | (rs_hyps h => exact h)
  | (rs_hyps h => exact PFM.congr _ _ h rfl)
  | (rs_hyps h => exact PFM.set _ _ _ _ _ h ‹_› (fun hf => hf.same (by first
        | exact Pool.loadProfile_view _ _ _ _ | exact Pool.evictProfile_view _ _ _ | exact Pool.onWorker'_view _ _ _
        | exact ⟨Pool.view_stepProfiles _ _, Pool.placed_stepProfiles _ _⟩)) rfl)
  | (rs_hyps h => exact PFM.set _ _ _ _ _ h ‹_› (Pool.fwd_placeTask _ _ _ _ _) rfl)
  | (rs_hyps h => exact PFM.set _ _ _ _ _ h ‹_› (Pool.fwd_removeTask _ _) rfl))

/-- Inline the small primitives; every verification condition is a frame condition. -/
macro "pf_gen" " [" ts:term,* "]" : tactic =>
  `(tactic| rmvcgen [row, logE, liftE, liftTape, getGraph, setGraph, getTask, uniqueName, raiseTask, taskCall, mkEvent,
      addEvent, reheapify, removeEvent, editEvent, findEvent, nextOfType, placedTasks, raiseOutcome, raisePlace, popEvent,
      advanceClock, startTask, getPool, setPool, $ts,*])

theorem logUtilization_f (time : Int) : KeepsF (logUtilization time) := by
  pf_gen [logUtilization]
  case inv1 => exact loopF
  case inv2 => exact loopF
  all_goals pfm_close

theorem schedulable_f (time : Int) : KeepsF (schedulable time) := by
  pf_gen [schedulable]
  case inv1 => exact loopF
  all_goals pfm_close

theorem notifyGraphCompletion_f (gi : Nat) (finish : Int) : KeepsF (notifyGraphCompletion gi finish) := by
  pf_gen [notifyGraphCompletion]
  all_goals pfm_close

theorem placementSkip_f (time : Int) (p : PlacementS) (drop : Bool) : KeepsF (placementSkip time p drop) := by
  have h1 := notifyGraphCompletion_f
  pf_gen [placementSkip, h1]
  case inv1 => exact loopF
  case inv2 => exact loopF
  case inv3 => exact loopF
  all_goals pfm_close

theorem placementEvents_f (time : Int) (p : PlacementS) : KeepsF (placementEvents time p) := by
  have h1 := placementSkip_f
  pf_gen [placementEvents, h1]
  all_goals pfm_close

theorem nextSchedulerEvent_f (evTime : Int) : KeepsF (nextSchedulerEvent evTime) := by
  have h1 := schedulable_f
  pf_gen [nextSchedulerEvent, h1]
  case inv1 => exact loopF
  all_goals pfm_close

theorem handleSchedulerStart_f (ev : SEvent) : KeepsF (handleSchedulerStart ev) := by
  have h1 := schedulable_f
  have h2 := logUtilization_f
  pf_gen [handleSchedulerStart, h1, h2]
  all_goals pfm_close

theorem handleSchedulerFinish_f (ev : SEvent) : KeepsF (handleSchedulerFinish ev) := by
  have h1 := placementSkip_f
  have h2 := placementEvents_f
  have h3 := nextSchedulerEvent_f
  pf_gen [handleSchedulerFinish, h1, h2, h3]
  case inv1 => exact loopF
  case inv2 => exact loopF
  all_goals pfm_close

theorem handleTaskCancel_f (ev : SEvent) : KeepsF (handleTaskCancel ev) := by
  pf_gen [handleTaskCancel]
  all_goals pfm_close

theorem handleTaskRelease_f (ev : SEvent) : KeepsF (handleTaskRelease ev) := by
  pf_gen [handleTaskRelease]
  all_goals pfm_close

theorem handleTaskGraphRelease_f (ev : SEvent) : KeepsF (handleTaskGraphRelease ev) := by
  pf_gen [handleTaskGraphRelease]
  all_goals pfm_close

theorem handleProfile_f (ev : SEvent) (load : Bool) : KeepsF (handleProfile ev load) := by
  pf_gen [handleProfile]
  all_goals pfm_close

theorem handleUpdateWorkload_f (ev : SEvent) : KeepsF (handleUpdateWorkload ev) := by
  pf_gen [handleUpdateWorkload, releasable]
  case inv1 => exact loopF
  case inv2 => exact loopF
  all_goals pfm_close

theorem handleTaskFinished_f (ev : SEvent) : KeepsF (handleTaskFinished ev) := by
  have h1 := notifyGraphCompletion_f
  pf_gen [handleTaskFinished, finishRemove, finishRows, finishNotify, h1]
  case inv1 => exact loopF
  case inv2 => exact loopF
  case inv3 => exact loopF
  case inv4 => exact loopF
  case inv5 => exact loopF
  case inv6 => exact loopF
  case inv7 => exact loopF
  all_goals pfm_close

theorem placementNotReady_f (ev : SEvent) (t : TaskId) (p : PlacementS) : KeepsF (placementNotReady ev t p) := by
  pf_gen [placementNotReady]
  case inv1 => exact loopF
  case inv2 => exact loopF
  all_goals pfm_close

theorem placementRow_f (t : TaskId) (pid : Nat) (time : Int) (st : Strategy) : KeepsF (placementRow t pid time st) := by
  pf_gen [placementRow]
  all_goals pfm_close

theorem placementPlace_f (ev : SEvent) (t : TaskId) (p : PlacementS) (g : GraphS) (h : g.isReadyToRun t.t = true) :
    KeepsF (placementPlace ev t p g h) := by
  have h1 := placementRow_f
  pf_gen [placementPlace, h1]
  all_goals pfm_close

theorem handleTaskPlacement_f (ev : SEvent) : KeepsF (handleTaskPlacement ev) := by
  have h1 := placementPlace_f ev
  have h2 := placementNotReady_f ev
  pf_gen [handleTaskPlacement, h1, h2]
  all_goals pfm_close

theorem handleEvent_f (ev : SEvent) : KeepsF (handleEvent ev) := by
  have h_cancel := handleTaskCancel_f
  have h_prof := handleProfile_f
  have h_fin := handleTaskFinished_f
  have h_tgr := handleTaskGraphRelease_f
  have h_rel := handleTaskRelease_f
  have h_upd := handleUpdateWorkload_f
  have h_place := handleTaskPlacement_f
  have h_ss := handleSchedulerStart_f
  have h_sf := handleSchedulerFinish_f
  have h_util := logUtilization_f
  pf_gen [handleEvent, h_cancel, h_prof, h_fin, h_tgr, h_rel, h_upd, h_place, h_ss, h_sf, h_util]
  all_goals pfm_close

theorem step_f (dt : Int) : KeepsF (step dt) := by
  pf_gen [step]
  case inv1 => exact loopF
  case inv2 => exact loopF
  case inv3 => exact loopF
  case inv4 => exact loopF
  case inv5 => exact loopF
  all_goals pfm_close

theorem iter_f : KeepsF iter := by
  have h1 := step_f
  have h2 := handleEvent_f
  rmvcgen [iter]
  split
  · pf_gen [h1, h2]
    case inv1 => exact loopF
    all_goals pfm_close
  · mvcgen
    all_goals pfm_close

theorem init_f : KeepsF init := by
  have h2 := logUtilization_f
  pf_gen [init, h2]
  case inv1 => exact loopF
  all_goals pfm_close

end ErdosVerif.Model.Sim
