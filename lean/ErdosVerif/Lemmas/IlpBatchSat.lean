/-
Extraction lemmas for the batching model: what `sat σ (genB I)` says about the values of the
start / placement expressions of the BatchTasks, so that the property theorems never unfold
`genB` again.  (The list / `isum` facts and `foldl_inv` are reused from the non-batching slice.)
-/
import ErdosVerif.Model.IlpBatch
import ErdosVerif.Lemmas.IlpDecode
namespace ErdosVerif.IlpBatch
open ErdosVerif.Mip ErdosVerif.Ilp

/-! ### Index sets -/

theorem mem_nonRunning {I : BInst} {b : Nat} : b ∈ I.nonRunning ↔ b < I.nB ∧ I.bRunning b = false := by
  simp [BInst.nonRunning, List.mem_filter, List.mem_range]

theorem mem_parentVars {I : BInst} {c p : Nat} :
    p ∈ I.parentVars c ↔ p < I.nB ∧ I.nParentsIn c p ≠ 0 := by
  simp [BInst.parentVars, List.mem_filter, List.mem_range]

theorem mem_freshOf {I : BInst} {t b : Nat} :
    b ∈ I.freshOf t ↔ b < I.nB ∧ (I.batch b).fresh = true ∧ t ∈ I.members b := by
  simp [BInst.freshOf, List.mem_filter, List.mem_range]

/-- `p` is a parent variable of `c` iff it holds a graph parent of some member of `c`. -/
theorem nParentsIn_ne_zero {I : BInst} {c p : Nat} :
    I.nParentsIn c p ≠ 0 ↔
      ∃ m ∈ I.members c, ∃ u ∈ I.base.parentsOf (I.task m).uniq, I.hasMember p u = true := by
  unfold BInst.nParentsIn BInst.parentTasks
  constructor
  · intro h
    have hne : (((I.members c).flatMap (fun m => I.base.parentsOf (I.task m).uniq)).eraseDups.filter
        (I.hasMember p)) ≠ [] := by
      intro e; apply h; rw [e]; rfl
    obtain ⟨u, hu⟩ := List.exists_mem_of_ne_nil _ hne
    have hu2 := List.mem_filter.mp hu
    have hu' : u ∈ (I.members c).flatMap (fun m => I.base.parentsOf (I.task m).uniq) := by
      simpa using hu2.1
    obtain ⟨m, hm1, hm2⟩ := List.mem_flatMap.mp hu'
    exact ⟨m, hm1, u, hm2, hu2.2⟩
  · rintro ⟨m, hm1, u, hu, hp⟩ h
    have hu' : u ∈ ((I.members c).flatMap (fun m => I.base.parentsOf (I.task m).uniq)).eraseDups := by
      simp only [List.mem_eraseDups]
      exact List.mem_flatMap.mpr ⟨m, hm1, hu⟩
    have hmem : u ∈ (((I.members c).flatMap (fun m => I.base.parentsOf (I.task m).uniq)).eraseDups.filter
        (I.hasMember p)) := List.mem_filter.mpr ⟨hu', hp⟩
    rw [List.length_eq_zero_iff] at h
    rw [h] at hmem
    cases hmem

/-! ### Semantic values -/

/-- Value of `placed_on_worker_with_strategy(w, batch strategy)` under `σ`. -/
def xval (I : BInst) (σ : Var → Int) (b w : Nat) : Int := (I.xE b w).eval σ
/-- Value of the start expression (`now` for a RUNNING BatchTask). -/
def sval (I : BInst) (σ : Var → Int) (b : Nat) : Int := (I.startE b).eval σ
/-- `quicksum(placed_on_workers)`. -/
def psum (I : BInst) (σ : Var → Int) (b : Nat) : Int := (I.sumX b).eval σ
/-- `Σ x[w] * runtime`. -/
def dur (I : BInst) (σ : Var → Int) (b : Nat) : Int := (I.durE b).eval σ

theorem xval_var {I : BInst} {σ : Var → Int} {b w : Nat} (h : I.hasVar b w = true) :
    xval I σ b w = σ (.x b w 0) := by
  simp [BInst.hasVar] at h
  simp [xval, BInst.xE, h.1, h.2]

theorem xval_novar {I : BInst} {σ : Var → Int} {b w : Nat} (h : I.hasVar b w = false) :
    xval I σ b w = 0 := by
  unfold xval BInst.xE
  cases hr : I.bRunning b with
  | true => simp
  | false =>
    simp [BInst.hasVar, hr] at h
    simp [h]

theorem sval_var {I : BInst} {σ : Var → Int} {b : Nat} (h : I.bRunning b = false) :
    sval I σ b = σ (.start b) := by
  simp [sval, BInst.startE, h]

theorem sval_running {I : BInst} {σ : Var → Int} {b : Nat} (h : I.bRunning b = true) :
    sval I σ b = I.now := by
  simp [sval, BInst.startE, h]

theorem psum_eq (I : BInst) (σ : Var → Int) (b : Nat) :
    psum I σ b = isum ((List.range I.nW).map (xval I σ b)) + (if I.bRunning b then 1 else 0) := by
  unfold psum BInst.sumX
  rw [LinExpr.eval_sumL, List.map_append, isum_append, List.map_map]
  have e : (LinExpr.eval σ ∘ I.xE b) = xval I σ b := rfl
  rw [e]
  cases I.bRunning b <;> simp

theorem dur_eq (I : BInst) (σ : Var → Int) (b : Nat) :
    dur I σ b = isum ((List.range I.nW).map (fun w => I.runtime b * xval I σ b w)) := by
  unfold dur BInst.durE
  rw [LinExpr.eval_sumL, List.map_map]
  apply isum_map_eq
  intro w _
  simp [Function.comp_def, xval]

/-! ### Feasible points -/

section
variable {I : BInst} {σ : Var → Int}

theorem sat_constr (h : sat σ (genB I)) {c : Constr Var} (hc : c ∈ I.constrs) : c.holds σ := h.2 c hc
theorem sat_var (h : sat σ (genB I)) {d : VarDecl Var} (hd : d ∈ I.vars) : d.ok σ := h.1 d hd

theorem mem_constrs_batch {b : Nat} {c : Constr Var} (hb : b ∈ I.nonRunning)
    (hc : c ∈ I.cDeadline b ++ I.cPlacement b) : c ∈ I.constrs := by
  simp only [BInst.constrs, List.mem_append, List.mem_flatMap]
  exact Or.inl (Or.inl (Or.inl (Or.inl (Or.inl ⟨b, hb, by simpa using hc⟩))))

theorem mem_constrs_unique {t : Nat} {c : Constr Var} (ht : t < I.nT)
    (hc : c ∈ I.cUnique t) : c ∈ I.constrs := by
  simp only [BInst.constrs, List.mem_append, List.mem_flatMap]
  exact Or.inl (Or.inl (Or.inl (Or.inl (Or.inr ⟨t, List.mem_range.mpr ht, hc⟩))))

theorem mem_constrs_deps {b : Nat} {c : Constr Var} (hb : b ∈ I.nonRunning)
    (hc : c ∈ I.cDeps b) : c ∈ I.constrs := by
  simp only [BInst.constrs, List.mem_append, List.mem_flatMap]
  exact Or.inl (Or.inl (Or.inl (Or.inr ⟨b, hb, hc⟩)))

/-- Every placement value is 0 or 1. -/
theorem xval_binary (h : sat σ (genB I)) {b w : Nat} (hb : b < I.nB) (hw : w < I.nW) :
    xval I σ b w = 0 ∨ xval I σ b w = 1 := by
  cases hv : I.hasVar b w with
  | false => left; exact xval_novar hv
  | true =>
    rw [xval_var hv]
    have hr : I.bRunning b = false := by
      simp [BInst.hasVar] at hv; exact hv.1
    have hd : binDecl (.x b w 0) ∈ I.vars := by
      simp only [BInst.vars, List.mem_append, List.mem_flatMap]
      refine Or.inl (Or.inl (Or.inl (Or.inl (Or.inl ⟨b, mem_nonRunning.mpr ⟨hb, hr⟩, ?_⟩))))
      simp only [BInst.batchVars, List.mem_cons, List.mem_map, List.mem_filter]
      exact Or.inr ⟨w, ⟨List.mem_range.mpr hw, hv⟩, rfl⟩
    have := (sat_var h hd).1 rfl
    simpa [binDecl] using this

theorem xval_nonneg (h : sat σ (genB I)) {b w : Nat} (hb : b < I.nB) (hw : w < I.nW) :
    0 ≤ xval I σ b w := by
  rcases xval_binary h hb hw with h0 | h1 <;> omega

/-- Start lower bound: `max(now + 1, latest release of a member)`. -/
theorem start_lb (h : sat σ (genB I)) {b : Nat} (hb : b ∈ I.nonRunning) :
    I.startLb b ≤ σ (.start b) := by
  have hd : (⟨.start b, .int, some (I.startLb b), none⟩ : VarDecl Var) ∈ I.vars := by
    simp only [BInst.vars, List.mem_append, List.mem_flatMap]
    refine Or.inl (Or.inl (Or.inl (Or.inl (Or.inl ⟨b, hb, ?_⟩))))
    simp [BInst.batchVars]
  have := ((sat_var h hd).2 rfl).1
  simpa [optLe] using this

theorem xsum_nonneg (h : sat σ (genB I)) {b : Nat} (hb : b < I.nB) :
    0 ≤ isum ((List.range I.nW).map (xval I σ b)) := by
  apply isum_nonneg
  intro a ha
  simp only [List.mem_map, List.mem_range] at ha
  obtain ⟨w, hw, rfl⟩ := ha
  exact xval_nonneg h hb hw

theorem psum_nonneg (h : sat σ (genB I)) {b : Nat} (hb : b < I.nB) : 0 ≤ psum I σ b := by
  rw [psum_eq]
  have := xsum_nonneg h hb
  split <;> omega

/-- One placement value is at most the sum. -/
theorem xval_le_psum (h : sat σ (genB I)) {b w : Nat} (hb : b < I.nB) (hw : w < I.nW) :
    xval I σ b w ≤ psum I σ b := by
  rw [psum_eq]
  have h1 : xval I σ b w ≤ isum ((List.range I.nW).map (xval I σ b)) := by
    apply le_isum_of_mem
    · intro a ha
      simp only [List.mem_map, List.mem_range] at ha
      obtain ⟨w', hw', rfl⟩ := ha
      exact xval_nonneg h hb hw'
    · simp only [List.mem_map, List.mem_range]
      exact ⟨w, hw, rfl⟩
  split <;> omega

/-- `Σ x ≤ 1` for every BatchTask that is not RUNNING. -/
theorem psum_le_one (h : sat σ (genB I)) {b : Nat} (hb : b ∈ I.nonRunning) : psum I σ b ≤ 1 := by
  by_cases hs : (I.bScheduled b && !I.retract) = true
  · have hc : Constr.lin s!"{I.bname b}_previously_scheduled_required_placement" (I.sumX b) .eq 1 ∈ I.constrs :=
      mem_constrs_batch hb (by simp [BInst.cPlacement, hs])
    have := sat_constr h hc
    simp [Constr.holds, Sense.holds] at this
    unfold psum; omega
  · have hc : Constr.lin s!"{I.bname b}_consistent_placement" (I.sumX b) .le 1 ∈ I.constrs :=
      mem_constrs_batch hb (by simp [BInst.cPlacement, hs])
    have := sat_constr h hc
    unfold psum
    simpa [Constr.holds, Sense.holds] using this

/-- A SCHEDULED BatchTask (non-retracting mode) must be placed again. -/
theorem psum_eq_one_of_scheduled (h : sat σ (genB I)) {b : Nat} (hb : b ∈ I.nonRunning)
    (hs : I.bScheduled b = true) (hre : I.retract = false) : psum I σ b = 1 := by
  have hc : Constr.lin s!"{I.bname b}_previously_scheduled_required_placement" (I.sumX b) .eq 1 ∈ I.constrs :=
    mem_constrs_batch hb (by simp [BInst.cPlacement, hs, hre])
  have := sat_constr h hc
  unfold psum
  simpa [Constr.holds, Sense.holds] using this

/-- The deadline row of a BatchTask whose deadline is enforced. -/
theorem deadline_row (h : sat σ (genB I)) {b : Nat} (hb : b ∈ I.nonRunning) (he : I.bEnforce b = true) :
    sval I σ b + dur I σ b ≤ I.bDeadline b := by
  have hc : Constr.lin s!"{I.bname b}_enforce_deadlines" (LinExpr.add (I.startE b) (I.durE b)) .le (I.bDeadline b)
      ∈ I.constrs := mem_constrs_batch hb (by simp [BInst.cDeadline, he])
  have := sat_constr h hc
  simpa [Constr.holds, Sense.holds, sval, dur] using this

/-- The runtime is at most the duration expression once some placement value is 1. -/
theorem runtime_le_dur (h : sat σ (genB I)) {b w : Nat} (hb : b < I.nB) (hw : w < I.nW)
    (hx : xval I σ b w = 1) : I.runtime b ≤ dur I σ b := by
  rw [dur_eq]
  have : I.runtime b * xval I σ b w ≤ isum ((List.range I.nW).map (fun w => I.runtime b * xval I σ b w)) := by
    apply le_isum_of_mem
    · intro a ha
      simp only [List.mem_map, List.mem_range] at ha
      obtain ⟨w', hw', rfl⟩ := ha
      have h1 := xval_nonneg h hb hw'
      have h2 : (0 : Int) ≤ I.runtime b := by simp [BInst.runtime]
      exact Int.mul_nonneg h2 h1
    · simp only [List.mem_map, List.mem_range]
      exact ⟨w, hw, rfl⟩
  rw [hx] at this
  omega

/-- `…_unique_batch_placement`. -/
theorem unique_row (h : sat σ (genB I)) {t : Nat} (ht : t < I.nT) (hne : I.freshOf t ≠ []) :
    isum ((I.freshOf t).map (psum I σ)) ≤ 1 := by
  have hc : Constr.lin s!"{(I.task t).uniq}_unique_batch_placement"
      (LinExpr.sumL ((I.freshOf t).map I.sumX)) .le 1 ∈ I.constrs := by
    apply mem_constrs_unique ht
    simp [BInst.cUnique, hne]
  have := sat_constr h hc
  simp only [Constr.holds, Sense.holds, LinExpr.eval_sumL, List.map_map] at this
  have e : (LinExpr.eval σ ∘ I.sumX) = psum I σ := rfl
  rw [e] at this
  exact this

/-- The precedence row of child BatchTask `c` w.r.t. parent variable `p` and worker `w`. -/
theorem start_after_row (h : sat σ (genB I)) {c p w : Nat} (hc : c ∈ I.nonRunning)
    (hp : p ∈ I.parentVars c) (hw : w < I.nW) :
    sval I σ p + (I.runtime p + 1) * xval I σ p w ≤ sval I σ c := by
  have hne : (I.parentVars c).isEmpty = false := by
    cases hl : I.parentVars c with
    | nil => rw [hl] at hp; cases hp
    | cons _ _ => rfl
  have hmem : Constr.lin
      s!"{I.bname c}_start_after_{I.bname p}_on_worker_{(I.worker w).name}_with_batch_size_{(I.bstrat p).batch}_runtime_{(I.bstrat p).runtime}"
      (LinExpr.sub (I.startE c) (LinExpr.add (I.startE p) (LinExpr.smul (I.runtime p + 1) (I.xE p w))))
      .ge 0 ∈ I.constrs := by
    apply mem_constrs_deps hc
    simp only [BInst.cDeps, hne, Bool.false_eq_true, if_false, List.mem_append, List.mem_flatMap]
    left
    refine ⟨p, hp, ?_⟩
    simp only [BInst.cStartAfter, List.mem_map, List.mem_range]
    exact ⟨w, hw, rfl⟩
  have := sat_constr h hmem
  simp only [Constr.holds, Sense.holds, LinExpr.eval_sub, LinExpr.eval_add, LinExpr.eval_smul] at this
  unfold sval xval
  omega

/-- The three indicator rows on `all_parents_placed`. -/
theorem parents_rows (h : sat σ (genB I)) {c : Nat} (hc : c ∈ I.nonRunning)
    (hne : I.parentVars c ≠ []) :
    (σ (.allParents c) = 0 → psum I σ c = 0) ∧
    (σ (.allParents c) = 1 → (I.parentExpr c).eval σ = ((I.parentTasks c).length : Int)) ∧
    (σ (.allParents c) = 0 ∨ σ (.allParents c) = 1) := by
  have hne' : (I.parentVars c).isEmpty = false := by
    cases hl : I.parentVars c with
    | nil => exact absurd hl hne
    | cons _ _ => rfl
  have h3 : Constr.ind s!"{I.bname c}_placement_False" (.allParents c) 0 (I.sumX c) .eq 0 ∈ I.constrs := by
    apply mem_constrs_deps hc
    simp [BInst.cDeps, hne']
  have h2 : Constr.ind s!"{I.bname c}_parents_placed_True" (.allParents c) 1 (I.parentExpr c) .eq
      ((I.parentTasks c).length : Int) ∈ I.constrs := by
    apply mem_constrs_deps hc
    simp [BInst.cDeps, hne']
  have hd : binDecl (.allParents c) ∈ I.vars := by
    simp only [BInst.vars, List.mem_append, List.mem_map, List.mem_filter]
    refine Or.inl (Or.inl (Or.inl (Or.inl (Or.inr ⟨c, ⟨hc, by simp [hne']⟩, rfl⟩))))
  have hb := (sat_var h hd).1 rfl
  have r3 := sat_constr h h3
  have r2 := sat_constr h h2
  simp only [Constr.holds, Sense.holds] at r3 r2
  exact ⟨fun h0 => by unfold psum; exact r3 h0, r2, by simpa [binDecl] using hb⟩

end

/-! ### The scan of `get_placements` -/

theorem chosen_spec {I : BInst} {σ : Var → Int} {b w : Nat} (h : I.chosen σ b = some w) :
    w < I.nW ∧ I.hasVar b w = true ∧ σ (.x b w 0) = 1 := by
  unfold BInst.chosen at h
  have key := foldl_inv (fun acc => ∀ w : Nat, acc = some w →
      w < I.nW ∧ I.hasVar b w = true ∧ σ (.x b w 0) = 1)
      (fun acc w => if I.hasVar b w && σ (.x b w 0) == 1 then some w else acc)
      (List.range I.nW) none (by intro w h; cases h)
      (by
        intro acc w hw hacc w' hw'
        by_cases hc : (I.hasVar b w && σ (.x b w 0) == 1) = true
        · simp only [hc, if_true] at hw'
          cases hw'
          simp at hc
          exact ⟨List.mem_range.mp hw, hc.1, hc.2⟩
        · simp only [hc] at hw'
          exact hacc w' hw')
  exact key w h

theorem chosen_isSome {I : BInst} {σ : Var → Int} {b w : Nat} (hw : w < I.nW)
    (hv : I.hasVar b w = true) (hx : σ (.x b w 0) = 1) : (I.chosen σ b).isSome = true := by
  unfold BInst.chosen
  have key : ∀ (l : List Nat) (acc : Option Nat), (acc.isSome = true ∨ w ∈ l) →
      (l.foldl (fun acc w => if I.hasVar b w && σ (.x b w 0) == 1 then some w else acc) acc).isSome = true := by
    intro l
    induction l with
    | nil => intro acc h; simpa using h
    | cons x xs ih =>
      intro acc hacc
      simp only [List.foldl_cons]
      apply ih
      by_cases hxk : x = w
      · left; subst hxk; simp [hv, hx]
      · rcases hacc with ha | hm
        · left
          split
          · simp
          · exact ha
        · right
          simp at hm
          rcases hm with rfl | hm
          · exact absurd rfl hxk
          · exact hm
  exact key (List.range I.nW) none (Or.inr (List.mem_range.mpr hw))

/-- A chosen worker has placement value 1. -/
theorem chosen_xval {I : BInst} {σ : Var → Int} {b w : Nat} (h : I.chosen σ b = some w) :
    xval I σ b w = 1 := by
  have := chosen_spec h
  rw [xval_var this.2.1]; exact this.2.2

theorem chosen_nonRunning {I : BInst} {σ : Var → Int} {b w : Nat} (h : I.chosen σ b = some w) :
    I.bRunning b = false := by
  have := (chosen_spec h).2.1
  simp [BInst.hasVar] at this
  exact this.1

/-- A placed BatchTask has `Σ x ≥ 1`. -/
theorem one_le_psum_of_chosen {I : BInst} {σ : Var → Int} (h : sat σ (genB I)) {b w : Nat}
    (hb : b < I.nB) (hc : I.chosen σ b = some w) : 1 ≤ psum I σ b := by
  have := xval_le_psum h hb (chosen_spec hc).1
  rw [chosen_xval hc] at this
  exact this

end ErdosVerif.IlpBatch
