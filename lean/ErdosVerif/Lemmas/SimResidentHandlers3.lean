import ErdosVerif.Lemmas.SimResidentHandlers2
/-!
Part 4: scheduler finish, workload update, profiles, the reporting / notification half of
TASK_FINISHED, a placement whose task is not ready, the TASK_PLACEMENT row.
-/
open Std.Do
set_option mvcgen.warning false

namespace ErdosVerif.Model.Sim

/-- The first UPDATE_WORKLOAD adopts the loader's graphs into the (still empty) workload. -/
theorem AP.load {ex : List SEvent} {n : Int} (s s' : SimS) (h : AP RunOK ex s ∧ s.now = n)
    (hnl : ¬ s.loaderReleased = true)
    (hp : s'.pools = s.pools) (hg : s'.graphs = s.allGraphs) (hn : s'.now = s.now) (hl : s'.log = s.log)
    (hq : s'.queue = s.queue) (hfu : s'.future = s.future) (hns : s'.nextSched = s.nextSched)
    (hid : s'.nextEid = s.nextEid) (ha : s'.allGraphs = s.allGraphs) (hj : s'.jobs = s.jobs)
    (hlr : s'.loaderReleased = true) : AP RunOK ex s' ∧ s'.now = n := by
  have hnl' : s.loaderReleased = false := by simpa using hnl
  have hemp := (h.1.loader hnl').1
  refine ⟨AP.step s s' h.1 hp ?_ hn ⟨[], by simp [hl], by simp⟩ (by rw [hq]; exact fun _ h' _ => h')
    (by rw [hfu, hns]; exact fun _ h' => h') (by rw [hid]; exact Nat.le_refl _) ha hj
    (fun hl' => by rw [hlr] at hl'; cases hl'), by rw [hn]; exact h.2⟩
  rw [hg, hemp]
  exact TRel.load _ h.1.allQ

/-- Writing back a pool with the same residency views (profiles loaded / evicted / stepped,
a ledger read). -/
theorem AP.poolSame {ex : List SEvent} {n : Int} (s s' : SimS) (pi : Nat) (p p' : Pool)
    (h : AP RunOK ex s ∧ s.now = n) (hpi : s.pools[pi]? = some p) (hv : p'.view = p.view ∧ p'.placed = p.placed)
    (hp : s'.pools = s.pools.setIfInBounds pi p') (hg : s'.graphs = s.graphs) (hn : s'.now = s.now)
    (hl : s'.log = s.log) (hq : s'.queue = s.queue) (hfu : s'.future = s.future) (hns : s'.nextSched = s.nextSched)
    (hid : s'.nextEid = s.nextEid) (ha : s'.allGraphs = s.allGraphs) (hj : s'.jobs = s.jobs)
    (hlr : s'.loaderReleased = s.loaderReleased) (hm : s'.metas = s.metas) : AP RunOK ex s' ∧ s'.now = n := by
  obtain ⟨e1, e2⟩ := views_set_same s.pools pi p p' hpi hv.1 hv.2
  refine ⟨AP.benign logMono_RunOK s s' h.1 (by rw [hp, e1]) (by rw [hp, e2]) (by rw [hg]; exact TRel.refl _) hn
    ⟨[], by simp [hl], by simp⟩ (by rw [hq]; exact fun _ h' _ => h') ?_ (by rw [hid]; exact Nat.le_refl _) ha ?_ ?_,
    by rw [hn]; exact h.2⟩
  · intro x hx; rw [hfu, hns] at hx; exact Or.inl hx
  · rw [hj]; exact h.1.tmplQ
  · rw [hlr, hg, hm]; exact h.1.loader

theorem AP.poolSameW {ex : List SEvent} {n : Int} (s s' : SimS) (pi : Nat) (p p' : Pool)
    (h : AP RunOK ex s ∧ s.now = n) (hpi : s.pools[pi]? = some p) (hv : p'.view = p.view ∧ p'.placed = p.placed)
    (hp : s'.pools = s.pools.setIfInBounds pi p') (hg : s'.graphs = s.graphs) (hn : s'.now = s.now)
    (hl : s'.log = s.log) (hq : s'.queue = s.queue) (hfu : s'.future = s.future) (hns : s'.nextSched = s.nextSched)
    (hid : s'.nextEid = s.nextEid) (ha : s'.allGraphs = s.allGraphs) (hj : s'.jobs = s.jobs)
    (hlr : s'.loaderReleased = s.loaderReleased) (hm : s'.metas = s.metas) : WInv s' :=
  (AP.poolSame s s' pi p p' h hpi hv hp hg hn hl hq hfu hns hid ha hj hlr hm).1.weak

macro "pool_same_close" : tactic => `(tactic| first
  | (have h := ‹AP RunOK _ _ ∧ _›
     exact AP.poolSame _ _ _ _ _ h ‹_›
       (by first | exact Pool.loadProfile_view _ _ _ _ | exact Pool.evictProfile_view _ _ _ | exact Pool.onWorker'_view _ _ _)
       rfl rfl rfl rfl rfl rfl rfl rfl rfl rfl rfl rfl)
  | (have h := ‹AP RunOK _ _ ∧ _›
     exact AP.poolSameW _ _ _ _ _ h ‹_›
       (by first | exact Pool.loadProfile_view _ _ _ _ | exact Pool.evictProfile_view _ _ _ | exact Pool.onWorker'_view _ _ _)
       rfl rfl rfl rfl rfl rfl rfl rfl rfl rfl rfl rfl))

theorem handleProfile_rspec (n : Int) (ex : List SEvent) (ev : SEvent) (load : Bool) :
    KeepsR n ex (handleProfile ev load) := by
  rmvcgen [handleProfile, getPool, setPool, raiseOutcome]
  all_goals first
    | ev_close
    | wk_close
    | pool_same_close
    | (intro s _ _ h3 _ _; rw [h3]; decide)

theorem placementRow_rspec (n : Int) (ex : List SEvent) (t : TaskId) (pid : Nat) (time : Int) (st : Strategy) :
    KeepsR n ex (placementRow t pid time st) := by
  have h_row := row_rspec n ex
  rmvcgen [placementRow, getTask, getGraph, getPool, setPool, h_row]
  all_goals first
    | ev_close
    | wk_close
    | pool_same_close
    | (intro s _ _ h3 _ _; rw [h3]; decide)

theorem finishRows_rspec (n : Int) (ex : List SEvent) (t : TaskId) (time : Int) : KeepsR n ex (finishRows t time) := by
  have h_row := row_rspec n ex
  rmvcgen [finishRows, getTask, getGraph, h_row]
  case inv1 => exact loopR n ex
  all_goals first
    | ev_close
    | wk_close
    | (intro s _ _ h3 _ _; rw [h3]; decide)

theorem handleUpdateWorkload_rspec (n : Int) (ex : List SEvent) (ev : SEvent) :
    KeepsR n ex (handleUpdateWorkload ev) := by
  have h_row := row_rspec n ex
  have h_mk := mkEvent_rspec n ex
  have h_add := addEvent_rspec n ex
  rmvcgen [handleUpdateWorkload, releasable, getTask, getGraph, h_row, h_mk, h_add]
  case inv1 => exact loopR n ex
  case inv2 => exact loopR n ex
  all_goals first
    | ev_close
    | wk_close
    | etype_close
    | (have h := ‹AP RunOK _ _ ∧ _›
       exact AP.load _ _ h ‹_› rfl rfl rfl rfl rfl rfl rfl rfl rfl rfl rfl)
    | (intro s _ _ h3 _ _; rw [h3]; decide)


/-- `notify_task_completion` written back. -/
theorem AP.notifyGraph {ex : List SEvent} {n : Int} (s s' : SimS) (gi k : Nat) (time : Int) (tape : List Draw) (g : GraphS)
    (h : AP RunOK ex s ∧ s.now = n) (hg : s.graphs[gi]? = some g)
    (hp : s'.pools = s.pools) (hgr : s'.graphs = s.graphs.setIfInBounds gi (g.notifyCompletion k time tape).g)
    (hn : s'.now = s.now) (hl : s'.log = s.log) (hq : s'.queue = s.queue)
    (hef : ∀ x, EF s'.future s'.nextSched x → EF s.future s.nextSched x)
    (hid : s'.nextEid = s.nextEid) (ha : s'.allGraphs = s.allGraphs) (hj : s'.jobs = s.jobs)
    (hlr : s'.loaderReleased = s.loaderReleased) : AP RunOK ex s' ∧ s'.now = n :=
  AP.setGraphR s s' gi g _ h hg (GraphS.rframe_notifyCompletion g k time tape (h.1.allPre gi g hg)) hp hgr hn hl hq hef
    hid ha hj hlr

theorem AP.notifyGraphW {ex : List SEvent} {n : Int} (s s' : SimS) (gi k : Nat) (time : Int) (tape : List Draw) (g : GraphS)
    (h : AP RunOK ex s ∧ s.now = n) (hg : s.graphs[gi]? = some g)
    (hp : s'.pools = s.pools) (hgr : s'.graphs = s.graphs.setIfInBounds gi (g.notifyCompletion k time tape).g)
    (hn : s'.now = s.now) (hl : s'.log = s.log) (hq : s'.queue = s.queue)
    (hef : ∀ x, EF s'.future s'.nextSched x → EF s.future s.nextSched x)
    (hid : s'.nextEid = s.nextEid) (ha : s'.allGraphs = s.allGraphs) (hj : s'.jobs = s.jobs)
    (hlr : s'.loaderReleased = s.loaderReleased) : WInv s' :=
  (AP.notifyGraph s s' gi k time tape g h hg hp hgr hn hl hq hef hid ha hj hlr).1.weak

macro "notify_close" : tactic => `(tactic| first
  | (have h := ‹AP RunOK _ _ ∧ _›
     exact AP.notifyGraph _ _ _ _ _ _ _ h ‹_› rfl rfl rfl rfl rfl (fun _ h' => h') rfl rfl rfl rfl)
  | (have h := ‹AP RunOK _ _ ∧ _›
     exact AP.notifyGraphW _ _ _ _ _ _ _ h ‹_› rfl rfl rfl rfl rfl (fun _ h' => h') rfl rfl rfl rfl))

theorem finishNotify_rspec (n : Int) (ex : List SEvent) (t : TaskId) (time : Int) : KeepsR n ex (finishNotify t time) := by
  have h_mk := mkEvent_rspec n ex
  have h_add := addEvent_rspec n ex
  have h_logE := logE_rspec n ex
  have h_ngc := notifyGraphCompletion_rspec n ex
  rmvcgen [finishNotify, getTask, getGraph, setGraph, h_mk, h_add, h_logE, h_ngc]
  case inv1 => exact loopR n ex
  case inv2 => exact loopR n ex
  case inv3 => exact loopR n ex
  case inv4 => exact loopR n ex
  case inv5 => exact loopR n ex
  case inv6 => exact loopR n ex
  all_goals first
    | ev_close
    | wk_close
    | etype_close
    | notify_close
    | (intro s _ _ h3 _ _; rw [h3]; decide)

theorem placementNotReady_rspec (n : Int) (ex : List SEvent) (ev : SEvent) (t : TaskId) (p : PlacementS) :
    KeepsR n ex (placementNotReady ev t p) := by
  have h_mk := mkEvent_rspec' n ex
  have h_add := addEvent_rspec n ex
  have h_logE := logE_rspec n ex
  have h_row := row_rspec n ex
  have h_liftE : ∀ e : Except SErr Int, KeepsR n ex (liftE e) := fun e => liftE_rspec n ex e
  rmvcgen [placementNotReady, getTask, getGraph, setGraph, h_mk, h_add, h_logE, h_row, h_liftE]
  case inv1 => exact loopR n ex
  case inv2 => exact loopR n ex
  all_goals first
    | ev_close
    | wk_close
    | etype_close
    | efadd_close
    | (intro s _ _ h3 _ _; rw [h3]; decide)
    | (intro s _ _ h3 _ _ _ _; rw [h3]; decide)


theorem noFin_mem_sorted (evs : List SEvent) (h : NoFin evs) (pref suff : List SEvent) (cur : SEvent)
    (hs : Heap.pySorted SEvent.lt evs = pref ++ cur :: suff) : cur.ev.etype ≠ ET.taskFinished :=
  h cur (mem_pySorted evs cur (by rw [hs]; simp))

set_option maxHeartbeats 800000 in
theorem handleSchedulerFinish_rspec (n : Int) (ex : List SEvent) (ev : SEvent) :
    KeepsR n ex (handleSchedulerFinish ev) := by
  have h_mk := mkEvent_rspec n ex
  have h_add := addEvent_rspec n ex
  have h_row := row_rspec n ex
  have h_skip := placementSkip_rspec n ex
  have h_pe := placementEvents_rspec n ex
  have h_next := nextSchedulerEvent_rspec n ex
  rmvcgen [handleSchedulerFinish, getTask, getGraph, h_mk, h_add, h_row, h_skip, h_pe, h_next]
  case inv1 => exact loopEv n ex
  case inv2 => exact loopR n ex
  all_goals first
    | ev_close
    | wk_close
    | etype_close
    | (intro s _ _ h3 _ _; rw [h3]; decide)
    | (rs_hyps h => rs_hyps h2 => exact ⟨h.1, NoFin.append h2.2 h.2⟩)
    | (rs_hyps h => rs_hyps h2 => exact ⟨h.1, NoFin.append (NoFin.editPending h2.2 _ _) h.2⟩)
    | (rs_hyps h => rs_hyps h2 => exact noFin_mem_sorted _ h.2 _ _ _ h2)

end ErdosVerif.Model.Sim
