import ErdosVerif.Lemmas.SimResidentStepLemmas
/-!
Part 7b: the loop invariants of `__step(dt)` and their transitions (pure).
-/
namespace ErdosVerif.Model.Sim

/-- Pools replaced by pools with the same residency views (generic in the per-task predicate). -/
theorem AP.viewsSame {P : Int → List LogE → TaskId → TaskS → Prop} {ex : List SEvent} (s s' : SimS) (h : AP P ex s)
    (hv : views s'.pools = views s.pools) (hm : pmaps s'.pools = pmaps s.pools)
    (hg : s'.graphs = s.graphs) (hn : s'.now = s.now) (hl : s'.log = s.log) (hq : s'.queue = s.queue)
    (hfu : s'.future = s.future) (hns : s'.nextSched = s.nextSched) (hid : s'.nextEid = s.nextEid)
    (ha : s'.allGraphs = s.allGraphs) (hj : s'.jobs = s.jobs) (hlr : s'.loaderReleased = s.loaderReleased)
    (hme : s'.metas = s.metas) : AP P ex s' := by
  obtain ⟨h1, h2, h3, h4, h5, h6⟩ := h
  refine ⟨?_, ?_, ?_, ?_, ?_, ?_⟩
  · rw [hv, hm, hg, hn, hl, hq]; exact h1
  · rw [hl]; exact h2
  · rw [hq, hfu, hns, hid]; exact h3
  · rw [ha]; exact h4
  · rw [hj]; exact h5
  · rw [hlr, hg, hme]; exact h6

/-- What holds throughout the stepping loops of `__step(dt)`, relative to the entry state `s0`. -/
structure StepJ (n dt : Int) (s0 s : SimS) : Prop where
  ap : AP (RunMid dt) [] s
  now : s.now = n
  dtnn : 0 ≤ dt
  queue : s.queue = s0.queue
  pools : views s.pools = views s0.pools

/-- Outer loop (over the pools): the tasks in `fin` ran out of work; the residents of the
pools already visited have been stepped. -/
def Inv1 (n dt : Int) (s0 : SimS) (pref : List Nat) (fin : List TaskId) (s : SimS) : Prop :=
  StepJ n dt s0 s ∧ (∀ u ∈ fin, FinAt s (n + dt) u) ∧
  (∀ pj ∈ pref, ∀ i m, At (views s0.pools) pj i m → SteppedAt s (n + dt) (ungid m))

/-- Middle loop (over the workers of pool `pi`). -/
def Inv2 (n dt : Int) (s0 : SimS) (pref : List Nat) (pi : Nat) (pool : Pool) (wpref : List Worker)
    (fin : List TaskId) (s : SimS) : Prop :=
  Inv1 n dt s0 pref fin s ∧ (views s0.pools)[pi]? = some pool.view ∧
  (∀ w ∈ wpref, ∀ m ∈ AList.keys w.placed, SteppedAt s (n + dt) (ungid m))

/-- Inner loop (over the tasks placed on one worker). -/
def Inv3 (n dt : Int) (s0 : SimS) (pref : List Nat) (pi : Nat) (pool : Pool) (wpref : List Worker)
    (epref : List (Nat × Strategy)) (fin : List TaskId) (s : SimS) : Prop :=
  Inv2 n dt s0 pref pi pool wpref fin s ∧ (∀ q ∈ epref, SteppedAt s (n + dt) (ungid q.1))

/-- The loop that creates the TASK_FINISHED events (`evs`: created, not yet queued). -/
def Inv4 (n dt : Int) (s0 : SimS) (fin : List TaskId) (evs : List SEvent) (s : SimS) : Prop :=
  AP (RunMid dt) evs s ∧ s.now = n ∧ 0 ≤ dt ∧ s.queue = s0.queue ∧ (∀ t, SteppedAt s (n + dt) t) ∧
  (∀ u ∈ fin, FinAt s (n + dt) u) ∧ ∀ e ∈ evs, e.ev.time = n + dt

/-- The loop that queues them, after the clock moved. -/
def Inv5 (n dt : Int) (T : Option Int) (rest : List SEvent) (s : SimS) : Prop :=
  AP RunOK rest s ∧ s.now = n + dt ∧ (∀ e ∈ rest, e.ev.time = n + dt) ∧
  ∀ h1, s.queue[0]? = some h1 → some h1.ev.time = T ∨ h1.ev.time = n + dt

theorem inv1_init (n dt : Int) (T : Option Int) (s : SimS) (hdt : ¬ dt < 0)
    (h : (AP RunOK [] s ∧ s.now = n) ∧ DtOK s dt ∧ (s.queue[0]?).map (·.ev.time) = T) : Inv1 n dt s [] [] s := by
  refine ⟨⟨h.1.1.enterStep h.2.1, h.1.2, by omega, rfl, rfl⟩, ?_, ?_⟩
  · intro u hu; cases hu
  · intro pj hp; cases hp

theorem Inv1.weak {n dt : Int} {s0 : SimS} {pref : List Nat} {fin : List TaskId} {s : SimS}
    (h : Inv1 n dt s0 pref fin s) : WInv s := h.1.ap.weak

theorem inv2_init {n dt : Int} {s0 : SimS} {pref : List Nat} {fin : List TaskId} (s s' : SimS) (pi : Nat) (pool : Pool)
    (h : Inv1 n dt s0 pref fin s) (hpool : s.pools[pi]? = some pool)
    (hp : s'.pools = s.pools.setIfInBounds pi (pool.stepProfiles dt))
    (hg : s'.graphs = s.graphs) (hn : s'.now = s.now) (hl : s'.log = s.log) (hq : s'.queue = s.queue)
    (hfu : s'.future = s.future) (hns : s'.nextSched = s.nextSched) (hid : s'.nextEid = s.nextEid)
    (ha : s'.allGraphs = s.allGraphs) (hj : s'.jobs = s.jobs) (hlr : s'.loaderReleased = s.loaderReleased)
    (hme : s'.metas = s.metas) : Inv2 n dt s0 pref pi pool [] fin s' := by
  obtain ⟨hJ, hfin, hdone⟩ := h
  obtain ⟨e1, e2⟩ := views_set_same s.pools pi pool (pool.stepProfiles dt) hpool (Pool.view_stepProfiles pool dt)
    (Pool.placed_stepProfiles pool dt)
  have hv : views s'.pools = views s.pools := by rw [hp, e1]
  have hm : pmaps s'.pools = pmaps s.pools := by rw [hp, e2]
  have hT : taskAt s'.graphs = taskAt s.graphs := by rw [hg]
  refine ⟨⟨⟨AP.viewsSame s s' hJ.ap hv hm hg hn hl hq hfu hns hid ha hj hlr hme, by rw [hn]; exact hJ.now, hJ.dtnn,
    by rw [hq]; exact hJ.queue, by rw [hv]; exact hJ.pools⟩, ?_, ?_⟩, ?_, fun _ hw => by cases hw⟩
  · intro u hu
    obtain ⟨x, hx, r⟩ := hfin u hu
    exact ⟨x, by rw [hT]; exact hx, r⟩
  · intro pj hpj i m hat x hx hs
    exact hdone pj hpj i m hat x (by rw [← hT]; exact hx) hs
  · rw [← hJ.pools, views_getElem?, hpool]; rfl

theorem inv3_init {n dt : Int} {s0 : SimS} {pref : List Nat} {pi : Nat} {pool : Pool} {wpref : List Worker}
    {fin : List TaskId} {s : SimS} (h : Inv2 n dt s0 pref pi pool wpref fin s) :
    Inv3 n dt s0 pref pi pool wpref [] fin s := ⟨h, fun _ hq => by cases hq⟩

theorem Inv3.weak {n dt : Int} {s0 : SimS} {pref : List Nat} {pi : Nat} {pool : Pool} {wpref : List Worker}
    {epref : List (Nat × Strategy)} {fin : List TaskId} {s : SimS}
    (h : Inv3 n dt s0 pref pi pool wpref epref fin s) : WInv s := h.1.1.weak

/-- A placed task that is not RUNNING is skipped (`continue`). -/
theorem inv3_skip {n dt : Int} {s0 : SimS} {pref : List Nat} {pi : Nat} {pool : Pool} {wpref : List Worker}
    {epref : List (Nat × Strategy)} {fin : List TaskId} {s : SimS} (cur : Nat × Strategy) (g : GraphS) (x : TaskS)
    (h : Inv3 n dt s0 pref pi pool wpref epref fin s) (hg : s.graphs[(ungid cur.1).g]? = some g)
    (hx : g.task? (ungid cur.1).t = some x) (hnr : (x.state != .running) = true) :
    Inv3 n dt s0 pref pi pool wpref (epref ++ [cur]) fin s := by
  refine ⟨h.1, ?_⟩
  intro q hq
  rcases List.mem_append.mp hq with h1 | h1
  · exact h.2 q h1
  · simp only [List.mem_singleton] at h1
    subst h1
    intro y hy hs
    rw [taskAt_of _ _ g x hg hx] at hy
    cases hy
    simp [hs] at hnr

/-- A RUNNING task is stepped; it joins `fin` exactly when `Task.step` reports completion. -/
theorem inv3_step {n dt : Int} {s0 : SimS} {pref : List Nat} {pi : Nat} {pool : Pool} {wpref : List Worker}
    {epref : List (Nat × Strategy)} {fin : List TaskId} (s s' : SimS) (cur : Nat × Strategy) (m0 : Int)
    (g1 g2 : GraphS) (x1 x2 : TaskS) (fin' : List TaskId)
    (h : Inv3 n dt s0 pref pi pool wpref epref fin s) (hm0 : m0 = n)
    (hrun : ¬ (x1.state != .running) = true)
    (hx1 : g1.task? (ungid cur.1).t = some x1) (hg1 : s.graphs[(ungid cur.1).g]? = some g1)
    (hfin' : fin' = fin ∨ (fin' = fin ++ [ungid cur.1] ∧ (x1.doStep m0 dt).2 = true))
    (hp : s'.pools = s.pools)
    (hgr : s'.graphs = s.graphs.setIfInBounds (ungid cur.1).g (g2.setTask (ungid cur.1).t (x2.call (.step m0 dt)).1))
    (hn : s'.now = s.now) (hl : s'.log = s.log) (hq : s'.queue = s.queue) (hfu : s'.future = s.future)
    (hns : s'.nextSched = s.nextSched) (hid : s'.nextEid = s.nextEid) (ha : s'.allGraphs = s.allGraphs)
    (hj : s'.jobs = s.jobs) (hlr : s'.loaderReleased = s.loaderReleased)
    (hx2 : g2.task? (ungid cur.1).t = some x2) (hg2 : s.graphs[(ungid cur.1).g]? = some g2) :
    Inv3 n dt s0 pref pi pool wpref (epref ++ [cur]) fin' s' := by
  have hgg : g2 = g1 := Option.some.inj (hg2.symm.trans hg1)
  subst hgg
  have hxx : x2 = x1 := Option.some.inj (hx2.symm.trans hx1)
  subst hxx
  subst hm0
  obtain ⟨⟨⟨hJ, hfin, hdone⟩, hview, hw⟩, he⟩ := h
  have hrun' : x2.state = .running := by
    cases hs : x2.state <;> simp [hs] at hrun ⊢
  have hnow := hJ.now
  obtain ⟨hap, hst, hpres, hfpres, hnew⟩ := AP.stepTask s s' (ungid cur.1) g2 x2 hJ.ap hJ.dtnn hg2 hx2 hrun' hp
    (by rw [hgr, hnow]; rfl) hn hl hq hfu hns hid ha hj hlr
  rw [hnow] at hst hpres hfpres hnew
  refine ⟨⟨⟨⟨hap, by rw [hn]; exact hnow, hJ.dtnn, by rw [hq]; exact hJ.queue, by rw [hp]; exact hJ.pools⟩, ?_, ?_⟩,
    hview, ?_⟩, ?_⟩
  · intro u hu
    rcases hfin' with e | ⟨e, hd⟩
    · rw [e] at hu; exact hfpres u (hfin u hu)
    · rw [e] at hu
      rcases List.mem_append.mp hu with h1 | h1
      · exact hfpres u (hfin u h1)
      · simp only [List.mem_singleton] at h1
        rw [h1]; exact hnew hd
  · intro pj hpj i m hat
    exact hpres _ (hdone pj hpj i m hat)
  · intro w hw' m hm
    exact hpres _ (hw w hw' m hm)
  · intro q hq'
    rcases List.mem_append.mp hq' with h1 | h1
    · exact hpres _ (he q h1)
    · simp only [List.mem_singleton] at h1
      rw [h1]; exact hst

theorem inv2_next {n dt : Int} {s0 : SimS} {pref : List Nat} {pi : Nat} {pool : Pool} {wpref : List Worker}
    {fin : List TaskId} {s : SimS} (w : Worker)
    (h : Inv3 n dt s0 pref pi pool wpref w.placed fin s) : Inv2 n dt s0 pref pi pool (wpref ++ [w]) fin s := by
  obtain ⟨⟨h1, hview, hw⟩, he⟩ := h
  refine ⟨h1, hview, ?_⟩
  intro w' hw' m hm
  rcases List.mem_append.mp hw' with h2 | h2
  · exact hw w' h2 m hm
  · simp only [List.mem_singleton] at h2
    subst h2
    simp only [AList.keys, List.mem_map] at hm
    obtain ⟨q, hq, rfl⟩ := hm
    exact he q hq

theorem inv1_next {n dt : Int} {s0 : SimS} {pref : List Nat} {pi : Nat} {pool : Pool} {fin : List TaskId} {s : SimS}
    (h : Inv2 n dt s0 pref pi pool pool.workers fin s) : Inv1 n dt s0 (pref ++ [pi]) fin s := by
  obtain ⟨⟨hJ, hfin, hdone⟩, hview, hw⟩ := h
  refine ⟨hJ, hfin, ?_⟩
  intro pj hpj i m hat
  rcases List.mem_append.mp hpj with h1 | h1
  · exact hdone pj h1 i m hat
  · simp only [List.mem_singleton] at h1
    subst h1
    obtain ⟨v, ks, hv, hk, hmem⟩ := hat
    rw [hview] at hv
    cases hv
    rw [Pool.view_getElem?] at hk
    cases hwk : pool.workers[i]? with
    | none => simp [hwk] at hk
    | some w =>
      simp only [hwk, Option.map_some, Option.some.injEq] at hk
      subst hk
      exact hw w (List.mem_of_getElem? hwk) m hmem

/-- After the stepping loops every RUNNING task has been stepped (it is resident somewhere). -/
theorem inv4_init {n dt : Int} {s0 : SimS} {fin : List TaskId} {s : SimS}
    (h : Inv1 n dt s0 (List.range s0.pools.size) fin s) : Inv4 n dt s0 fin [] s := by
  obtain ⟨hJ, hfin, hdone⟩ := h
  refine ⟨hJ.ap, hJ.now, hJ.dtnn, hJ.queue, ?_, hfin, fun _ he => by cases he⟩
  intro t x hx hs
  obtain ⟨pj, i, hat⟩ := hJ.ap.core.runRes t x hx hs
  rw [hJ.pools] at hat
  have hlt : pj < s0.pools.size := by
    obtain ⟨v, ks, hv, _, _⟩ := hat
    have := (List.getElem?_eq_some_iff.mp hv).1
    simpa [views] using this
  have := hdone pj (List.mem_range.mpr hlt) i _ hat
  rw [ungid_gid t (hJ.ap.core.small t x hx)] at this
  exact this x hx hs

theorem Inv4.weak {n dt : Int} {s0 : SimS} {fin : List TaskId} {evs : List SEvent} {s : SimS}
    (h : Inv4 n dt s0 fin evs s) : WInv s := h.1.weak

theorem inv4_step {n dt : Int} {s0 : SimS} {fin : List TaskId} {evs : List SEvent} (s s' : SimS) (e : SEvent) (t : TaskId)
    (m0 : Int) (h : Inv4 n dt s0 fin evs s) (hm0 : m0 = n) (ht : t ∈ fin)
    (htid : e.tid = some t) (htime : e.ev.time = m0 + dt) (heid : e.ev.eid = s.nextEid)
    (hp : s'.pools = s.pools) (hg : s'.graphs = s.graphs) (hn : s'.now = s.now) (hl : s'.log = s.log)
    (hq : s'.queue = s.queue) (hfu : s'.future = s.future) (hns : s'.nextSched = s.nextSched)
    (hid : s'.nextEid = s.nextEid + 1) (ha : s'.allGraphs = s.allGraphs) (hj : s'.jobs = s.jobs)
    (hlr : s'.loaderReleased = s.loaderReleased) (hm : s'.metas = s.metas) : Inv4 n dt s0 fin (evs ++ [e]) s' := by
  subst hm0
  obtain ⟨hap, hnow, hdt, hqu, hall, hfin, hev⟩ := h
  have hT : taskAt s'.graphs = taskAt s.graphs := by rw [hg]
  refine ⟨AP.mkFin s s' hap e t (m0 + dt) (hfin t ht) htid htime heid hp hg hn hl hq hfu hns hid ha hj hlr hm,
    by rw [hn]; exact hnow, hdt, by rw [hq]; exact hqu, ?_, ?_, ?_⟩
  · intro u x hx hs; exact hall u x (by rw [← hT]; exact hx) hs
  · intro u hu
    obtain ⟨x, hx, r⟩ := hfin u hu
    exact ⟨x, by rw [hT]; exact hx, r⟩
  · intro e' he'
    rcases List.mem_append.mp he' with h1 | h1
    · exact hev e' h1
    · simp only [List.mem_singleton] at h1
      rw [h1]; exact htime

/-- The clock advances. -/
theorem inv5_init {n dt : Int} {s0 : SimS} {fin : List TaskId} {evs : List SEvent} (T : Option Int) (s s' : SimS)
    (h : Inv4 n dt s0 fin evs s) (hT : (s0.queue[0]?).map (·.ev.time) = T)
    (hp : s'.pools = s.pools) (hg : s'.graphs = s.graphs) (hn : s'.now = s.now + dt)
    (hl : s'.log = s.log.push (.clock (s.now + dt))) (hq : s'.queue = s.queue) (hfu : s'.future = s.future)
    (hns : s'.nextSched = s.nextSched) (hid : s'.nextEid = s.nextEid) (ha : s'.allGraphs = s.allGraphs)
    (hj : s'.jobs = s.jobs) (hlr : s'.loaderReleased = s.loaderReleased) (hm : s'.metas = s.metas) :
    Inv5 n dt T evs s' := by
  obtain ⟨hap, hnow, hdt, hqu, hall, _, hev⟩ := h
  refine ⟨AP.leaveStep s s' hap hdt (by rw [hnow]; exact hall) hp hg hn hl hq hfu hns hid ha hj hlr hm,
    by rw [hn, hnow], hev, ?_⟩
  intro h1 hh
  left
  rw [hq, hqu] at hh
  rw [← hT, hh]; rfl

theorem inv5_step {n dt : Int} {T : Option Int} {rest : List SEvent} (s s' : SimS) (e : SEvent)
    (h : Inv5 n dt T (e :: rest) s)
    (hp : s'.pools = s.pools) (hg : s'.graphs = s.graphs) (hn : s'.now = s.now) (hl : s'.log = s.log)
    (hq : s'.queue = Heap.heappush SEvent.lt s.queue e) (hfu : s'.future = s.future) (hns : s'.nextSched = s.nextSched)
    (hid : s'.nextEid = s.nextEid) (ha : s'.allGraphs = s.allGraphs) (hj : s'.jobs = s.jobs)
    (hlr : s'.loaderReleased = s.loaderReleased) (hm : s'.metas = s.metas) : Inv5 n dt T rest s' := by
  obtain ⟨hap, hnow, hev, hhead⟩ := h
  refine ⟨AP.moveEx s s' hap ?_ hp hg hn hl hfu hns hid ha hj hlr hm, by rw [hn]; exact hnow,
    fun e' he' => hev e' (List.mem_cons_of_mem _ he'), ?_⟩
  · intro e' he'
    rw [hq] at he'
    rcases List.mem_append.mp he' with h1 | h1
    · rcases mem_heappush _ _ _ h1 with h2 | h2
      · exact List.mem_append_left _ h2
      · rw [h2]; exact List.mem_append_right _ (List.mem_cons_self ..)
    · exact List.mem_append_right _ (List.mem_cons_of_mem _ h1)
  · intro h1 hh
    rw [hq] at hh
    rcases heappush_root _ _ _ hh with h2 | h2
    · exact hhead h1 h2
    · right; rw [h2]; exact hev e (List.mem_cons_self ..)

end ErdosVerif.Model.Sim
