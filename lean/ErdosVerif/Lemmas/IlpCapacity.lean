/-
Capacity at every planned instant, from the pairwise overlap rows: for a feasible point
`σ`, the plan read off `σ` never loads a worker beyond its total quantity of any resource
at any instant `τ`.
-/
import ErdosVerif.Lemmas.IlpChain
import ErdosVerif.Model.IlpSpec
namespace ErdosVerif.Ilp
open ErdosVerif.Mip ErdosVerif.IlpSpec

/-! ### Sums -/

theorem nsum_cast (l : List Nat) : ((nsum l : Nat) : Int) = isum (l.map (fun (n : Nat) => (n : Int))) := by
  induction l with
  | nil => rfl
  | cons x xs ih => simp [nsum, ih]

theorem isum_map_add {α : Type} (l : List α) (f g : α → Int) :
    isum (l.map (fun a => f a + g a)) = isum (l.map f) + isum (l.map g) := by
  induction l with
  | nil => simp
  | cons x xs ih => simp [ih]; omega

theorem isum_map_mul_right {α : Type} (l : List α) (f : α → Int) (c : Int) :
    isum (l.map (fun a => f a * c)) = isum (l.map f) * c := by
  induction l with
  | nil => simp
  | cons x xs ih => simp [ih, Int.add_mul]

theorem isum_filter {α : Type} (l : List α) (p : α → Bool) (f : α → Int) :
    isum ((l.filter p).map f) = isum (l.map (fun a => if p a then f a else 0)) := by
  induction l with
  | nil => simp
  | cons x xs ih =>
    by_cases hp : p x = true
    · simp [hp, ih]
    · simp [hp, ih]

/-- Split one index off a sum over a range. -/
theorem isum_range_split (n a : Nat) (f : Nat → Int) (ha : a < n) :
    isum ((List.range n).map f) = f a + isum ((List.range n).map (fun t => if t = a then 0 else f t)) := by
  have h1 : isum ((List.range n).map f) =
      isum ((List.range n).map (fun t => (if t = a then f a else 0) + (if t = a then 0 else f t))) := by
    apply isum_map_eq
    intro t _
    by_cases h : t = a <;> simp [h]
  rw [h1, isum_map_add, isum_range_indicator]
  simp [ha]

/-! ### The plan read off an assignment -/

theorem planOf_get {I : Inst} {σ : Var → Int} {t : Nat} (ht : t < I.nT) :
    (planOf I σ).get t =
      if I.running t then some (runningPlace I t)
      else (I.chosen σ t).map (fun ws => ⟨ws.1, ws.2, σ (.start t)⟩) := by
  simp [planOf, Plan.get, List.getD_eq_getElem?_getD, List.getElem?_map, List.getElem?_range ht]

theorem planOf_length (I : Inst) (σ : Var → Int) : (planOf I σ).length = I.nT := by
  simp [planOf]

/-- What a placement of the plan says about the assignment. -/
theorem placed_spec {I : Inst} {σ : Var → Int} (hwr : I.wfRunning = true) {t : Nat} (ht : t < I.nT)
    {pl : Place} (hg : (planOf I σ).get t = some pl) :
    pl.w < I.nW ∧ pl.s < (I.task t).nS ∧ xval I σ t pl.w pl.s = 1 ∧ pl.start = sval I σ t ∧
    compatible (I.worker pl.w) ((I.task t).strat pl.s) = true := by
  rw [planOf_get ht] at hg
  cases hr : I.running t with
  | true =>
    simp [hr] at hg
    subst hg
    have h1 := wfRunning_spec hwr ht hr
    have h2 := wfRunning_compat hwr ht hr
    refine ⟨h1.1, h1.2, ?_, ?_, h2.1⟩
    · simp [xval_running hr, runningPlace]
    · simp [sval_running hr, runningPlace]
  | false =>
    simp [hr] at hg
    obtain ⟨w, s, hc, rfl⟩ := hg
    have hs := chosen_spec hc
    exact ⟨hs.1, hs.2.1, chosen_xval hc, (sval_var hr).symm, (hasVar_compatible hs.2.2.1).2⟩

/-! ### Demand values -/

/-- Request of strategy `s` of task `t` for resource `r`. -/
def qreq (I : Inst) (t s : Nat) (r : String) : Nat := qty ((I.task t).strat s).req r

/-- Value of the demand expression of task `t` on worker `w` for resource `r`. -/
def dval (I : Inst) (σ : Var → Int) (t w : Nat) (r : String) : Int :=
  isum ((I.stratsNeeding t r).map (fun s => (qreq I t s r : Int) * xval I σ t w s))

theorem eval_ownDemand (I : Inst) (σ : Var → Int) (t w : Nat) (r : String) :
    (I.ownDemand t w r).eval σ = dval I σ t w r := by
  simp [Inst.ownDemand, dval, LinExpr.eval_sumL, List.map_map, Function.comp_def, xval, qreq]

theorem eval_otherDemand (I : Inst) (σ : Var → Int) (t1 t2 w : Nat) (r : String) :
    (I.otherDemand t1 t2 w r).eval σ = dval I σ t2 w r * σ (.overlap t1 t2) := by
  simp only [Inst.otherDemand, dval, QuadExpr.eval_sumQ, List.map_map, Function.comp_def,
    QuadExpr.eval_mulVar, LinExpr.eval_smul]
  rw [← isum_map_mul_right]
  rfl

theorem mem_stratsNeeding {I : Inst} {t s : Nat} {r : String} :
    s ∈ I.stratsNeeding t r ↔ s < (I.task t).nS ∧ qreq I t s r ≠ 0 := by
  simp [Inst.stratsNeeding, List.mem_filter, List.mem_range, qreq]

theorem dval_nonneg {I : Inst} {σ : Var → Int} (h : sat σ (gen I)) {t w : Nat} (ht : t < I.nT)
    (hw : w < I.nW) (r : String) : 0 ≤ dval I σ t w r := by
  apply isum_nonneg
  intro a ha
  obtain ⟨s, hs, rfl⟩ := List.mem_map.mp ha
  have hs' := mem_stratsNeeding.mp hs
  exact Int.mul_nonneg (by simp) (xval_nonneg h ht hw hs'.1)

/-- A selected pair's request is at most the demand value. -/
theorem qreq_le_dval {I : Inst} {σ : Var → Int} (h : sat σ (gen I)) {t w s : Nat} (ht : t < I.nT)
    (hw : w < I.nW) (hs : s < (I.task t).nS) (hx : xval I σ t w s = 1) (r : String) :
    (qreq I t s r : Int) ≤ dval I σ t w r := by
  by_cases hq : qreq I t s r = 0
  · rw [hq]; exact dval_nonneg h ht hw r
  · have : (qreq I t s r : Int) * xval I σ t w s ≤ dval I σ t w r := by
      apply le_isum_of_mem
      · intro a ha
        obtain ⟨s', hs', rfl⟩ := List.mem_map.mp ha
        exact Int.mul_nonneg (by simp) (xval_nonneg h ht hw (mem_stratsNeeding.mp hs').1)
      · exact List.mem_map.mpr ⟨s, mem_stratsNeeding.mpr ⟨hs, hq⟩, rfl⟩
    rw [hx] at this
    omega

/-- The task occupies instant `τ` on worker `w` with a selected pair. -/
def active (I : Inst) (σ : Var → Int) (t w : Nat) (τ : Int) : Prop :=
  w < I.nW ∧ ∃ s, s < (I.task t).nS ∧ xval I σ t w s = 1 ∧ sval I σ t ≤ τ ∧ τ ≤ sval I σ t + I.runtime t s

/-- A positive demand at `τ` comes from an active task; the demand is at most `dval`. -/
theorem demandAt_spec {I : Inst} {σ : Var → Int} (h : sat σ (gen I)) (hwr : I.wfRunning = true)
    {t w : Nat} (ht : t < I.nT) (hw : w < I.nW) (r : String) (τ : Int) :
    (demandAt I (planOf I σ) w r τ t : Int) ≤ dval I σ t w r ∧
    (demandAt I (planOf I σ) w r τ t ≠ 0 → active I σ t w τ) := by
  unfold demandAt
  cases hg : (planOf I σ).get t with
  | none => exact ⟨by simpa using dval_nonneg h ht hw r, by simp⟩
  | some pl =>
    have hp := placed_spec hwr ht hg
    by_cases hc : pl.w = w ∧ occupies I t pl τ
    · simp only [hc, and_self, ↓reduceIte]
      obtain ⟨rfl, hocc⟩ := hc
      refine ⟨qreq_le_dval h ht hp.1 hp.2.1 hp.2.2.1 r, fun _ => ⟨hp.1, pl.s, hp.2.1, hp.2.2.1, ?_, ?_⟩⟩
      · rw [← hp.2.2.2.1]; exact hocc.1
      · rw [← hp.2.2.2.1]; exact hocc.2
    · simp only [hc, ↓reduceIte]
      exact ⟨by simpa using dval_nonneg h ht hw r, by simp⟩


/-! ### Overlap variables -/

section
variable {I : Inst} {σ : Var → Int}

theorem overlap_binary (h : sat σ (gen I)) {a b : Nat} (hp : (a, b) ∈ I.pairs) :
    σ (.overlap a b) = 0 ∨ σ (.overlap a b) = 1 := by
  have hd : binDecl (.overlap a b) ∈ I.vars := by
    simp only [Inst.vars, List.mem_append, List.mem_map]
    exact Or.inl (Or.inl (Or.inl (Or.inr ⟨(a, b), hp, rfl⟩)))
  have := (sat_var h hd).1 rfl
  simpa [binDecl] using this

theorem after_before_binary (h : sat σ (gen I)) {a b : Nat} (hp : (a, b) ∈ I.pairs)
    (hd : I.dependent a b = false) :
    (σ (.after a b) = 0 ∨ σ (.after a b) = 1) ∧ (σ (.before a b) = 0 ∨ σ (.before a b) = 1) := by
  have h1 : binDecl (.after a b) ∈ I.vars := by
    simp only [Inst.vars, List.mem_append, List.mem_flatMap, List.mem_filter]
    exact Or.inl (Or.inl (Or.inr ⟨(a, b), ⟨hp, by simp [hd]⟩, by simp⟩))
  have h2 : binDecl (.before a b) ∈ I.vars := by
    simp only [Inst.vars, List.mem_append, List.mem_flatMap, List.mem_filter]
    exact Or.inl (Or.inl (Or.inr ⟨(a, b), ⟨hp, by simp [hd]⟩, by simp⟩))
  have e1 := (sat_var h h1).1 rfl
  have e2 := (sat_var h h2).1 rfl
  exact ⟨by simpa [binDecl] using e1, by simpa [binDecl] using e2⟩

theorem eval_afterExpr (a b : Nat) :
    (I.afterExpr a b).eval σ = sval I σ a - sval I σ b - dur I σ b := by
  simp [Inst.afterExpr, eval_durE, sval]

theorem eval_beforeExpr (a b : Nat) :
    (I.beforeExpr a b).eval σ = sval I σ a + dur I σ a - sval I σ b := by
  simp [Inst.beforeExpr, eval_durE, sval]

/-- Two distinct tasks that both occupy instant `τ` have their `Overlap` variable at 1. -/
theorem overlap_one (h : sat σ (gen I)) (hwr : I.wfRunning = true) (hwp : I.wfParents = true)
    (hwc : I.wfChains = true) {a b wa wb : Nat} {τ : Int} (ha : a < I.nT) (hb : b < I.nT)
    (hne : b ≠ a) (hA : active I σ a wa τ) (hB : active I σ b wb τ) : σ (.overlap a b) = 1 := by
  obtain ⟨hwa, sa, hsa, hxa, ha1, ha2⟩ := hA
  obtain ⟨hwb, sb, hsb, hxb, hb1, hb2⟩ := hB
  have hpa : 1 ≤ psum I σ a := by have := xval_le_psum h ha hwa hsa; omega
  have hpb : 1 ≤ psum I σ b := by have := xval_le_psum h hb hwb hsb; omega
  cases hd : I.dependent a b with
  | true =>
    exfalso
    rcases wfChains_spec hwc ha hb hd with hl | hl
    · have hrb := hl.nonrunning hwr
      have := (linked_ordered h hwr hwp hl hpb).2 wa sa hwa hsa hxa
      rw [sval_var hrb] at hb1
      omega
    · have hra := hl.nonrunning hwr
      have := (linked_ordered h hwr hwp hl hpa).2 wb sb hwb hsb hxb
      rw [sval_var hra] at ha1
      omega
  | false =>
    have hp : (a, b) ∈ I.pairs := mem_pairs.mpr ⟨ha, hb, hne⟩
    have hbin := after_before_binary h hp hd
    have hov := overlap_binary h hp
    have hda := runtime_le_dur h ha hwa hsa hxa
    have hdb := runtime_le_dur h hb hwb hsb hxb
    have hmem : ∀ c ∈ I.cOverlap (a, b), c ∈ I.constrs := fun c hc => mem_constrs_overlap hp hc
    have r1 := sat_constr h (hmem (.ind s!"{I.tname a}_starts_after_{I.tname b}_ends_True" (.after a b) 1
      (I.afterExpr a b) .ge 1) (by simp [Inst.cOverlap, hd]))
    have r2 := sat_constr h (hmem (.ind s!"{I.tname a}_ends_before_{I.tname b}_starts_True" (.before a b) 1
      (I.beforeExpr a b) .le (-1)) (by simp [Inst.cOverlap, hd]))
    have r3 := sat_constr h (hmem (.lin s!"{I.tname a}_overlap_{I.tname b}"
        (LinExpr.add (LinExpr.add (LinExpr.ofVar (.after a b)) (LinExpr.ofVar (.before a b)))
          (LinExpr.ofVar (.overlap a b))) .eq 1) (by simp [Inst.cOverlap, hd]))
    simp only [Constr.holds, Sense.holds, eval_afterExpr, eval_beforeExpr, LinExpr.eval_add,
      LinExpr.eval_ofVar] at r1 r2 r3
    have hA0 : σ (.after a b) = 0 := by
      rcases hbin.1 with h0 | h1
      · exact h0
      · have := r1 h1; omega
    have hB0 : σ (.before a b) = 0 := by
      rcases hbin.2 with h0 | h1
      · exact h0
      · have := r2 h1; omega
    omega

/-- The capacity row of task `t1` on worker `w` for resource type `r`, semantically. -/
theorem resource_row (h : sat σ (gen I)) {t1 w : Nat} {r : String} (ht : t1 < I.nT) (hw : w < I.nW)
    (hskip : I.skipOn t1 w = false) (hr : r ∈ (I.worker w).types) :
    dval I σ t1 w r + isum ((I.others t1 w).map (fun t2 => dval I σ t2 w r * σ (.overlap t1 t2))) ≤
      (qty (I.worker w).res r : Nat) := by
  have hc : Constr.quad s!"{I.tname t1}_{(I.worker w).name}_{r}_constraint" (I.resExpr t1 w r) .le
      (qty (I.worker w).res r : Nat) ∈ I.constrs := by
    apply mem_constrs_resource ht
    simp only [Inst.cResource, List.mem_flatMap, List.mem_filter, List.mem_range, List.mem_map]
    exact ⟨w, ⟨hw, by simp [hskip]⟩, r, hr, rfl⟩
  have := sat_constr h hc
  simp only [Constr.holds, Sense.holds, Inst.resExpr, QuadExpr.eval_add, QuadExpr.eval_ofLin,
    eval_ownDemand, QuadExpr.eval_sumQ, List.map_map, Function.comp_def, eval_otherDemand] at this
  exact this

/-! ### Resource quantities -/

theorem qty_eq_zero_of_not_mem {l : List (String × Nat)} {r : String} (h : r ∉ l.map (fun p => p.1)) :
    qty l r = 0 := by
  unfold qty
  have : l.filter (fun p => p.1 == r) = [] := by
    rw [List.filter_eq_nil_iff]
    intro p hp hpr
    apply h
    simp only [List.mem_map]
    exact ⟨p, hp, by simpa using hpr⟩
  simp [this, nsum]

theorem nsum_eq_zero {l : List Nat} (h : ∀ a ∈ l, a = 0) : nsum l = 0 := by
  induction l with
  | nil => rfl
  | cons x xs ih =>
    have := h x (by simp)
    have := ih (fun a ha => h a (by simp [ha]))
    simp [nsum, *]

/-- A compatible strategy asks nothing of a resource the worker has none of. -/
theorem compat_qty_zero {W : WorkerI} {S : Strat} {r : String} (hc : compatible W S = true)
    (h0 : qty W.res r = 0) : qty S.req r = 0 := by
  unfold qty
  apply nsum_eq_zero
  intro a ha
  obtain ⟨p, hp, rfl⟩ := List.mem_map.mp ha
  have hp' := List.mem_filter.mp hp
  simp only [compatible, List.all_eq_true, decide_eq_true_eq] at hc
  have := hc p hp'.1
  have hpr : p.1 = r := by simpa using hp'.2
  rw [hpr, h0] at this
  omega

/-- **Capacity at every planned instant.** -/
theorem capacity_at_instant (h : sat σ (gen I)) (hwr : I.wfRunning = true) (hwp : I.wfParents = true)
    (hwc : I.wfChains = true) {w : Nat} (hw : w < I.nW) (r : String) (τ : Int) :
    load I (planOf I σ) w r τ ≤ qty (I.worker w).res r := by
  have hcast : ((load I (planOf I σ) w r τ : Nat) : Int) =
      isum ((List.range I.nT).map (fun t => (demandAt I (planOf I σ) w r τ t : Int))) := by
    unfold load
    rw [nsum_cast, List.map_map]
    rfl
  suffices hs : isum ((List.range I.nT).map (fun t => (demandAt I (planOf I σ) w r τ t : Int))) ≤
      (qty (I.worker w).res r : Nat) by
    rw [← hcast] at hs
    exact_mod_cast hs
  by_cases hall : ∀ t, t < I.nT → demandAt I (planOf I σ) w r τ t = 0
  · rw [isum_map_zero]
    · exact Int.natCast_nonneg _
    · intro t ht
      simp [hall t (List.mem_range.mp ht)]
  · -- some task t1 has a positive demand at τ on w
    have : ∃ t1, t1 < I.nT ∧ demandAt I (planOf I σ) w r τ t1 ≠ 0 := by
      by_cases hex : ∃ t1, t1 < I.nT ∧ demandAt I (planOf I σ) w r τ t1 ≠ 0
      · exact hex
      · exfalso; apply hall; intro t ht
        by_cases h0 : demandAt I (planOf I σ) w r τ t = 0
        · exact h0
        · exact absurd ⟨t, ht, h0⟩ hex
    obtain ⟨t1, ht1, hd1⟩ := this
    have hact1 := (demandAt_spec h hwr ht1 hw r τ).2 hd1
    -- active tasks are not skipped on w
    have noskip : ∀ t, t < I.nT → active I σ t w τ → I.skipOn t w = false := by
      intro t ht hact
      obtain ⟨_, s, hs, hx, _, _⟩ := hact
      cases hrt : I.running t with
      | false => simp [Inst.skipOn, hrt]
      | true =>
        rw [xval_running hrt] at hx
        have hws : w = (I.task t).prevW ∧ s = (I.task t).prevS := by
          by_cases hc : w = (I.task t).prevW ∧ s = (I.task t).prevS
          · exact hc
          · simp [hc] at hx
        have := wfRunning_spec hwr ht hrt
        simp [Inst.skipOn, hrt, hws.1, this.2]
    -- the worker owns resource r (otherwise nothing compatible asks for it)
    have hrt : r ∈ (I.worker w).types := by
      by_cases hm : r ∈ (I.worker w).types
      · exact hm
      · exfalso
        apply hd1
        have h0 : qty (I.worker w).res r = 0 :=
          qty_eq_zero_of_not_mem (by simpa [WorkerI.types, List.mem_eraseDups] using hm)
        unfold demandAt
        cases hg : (planOf I σ).get t1 with
        | none => rfl
        | some pl =>
          have hp := placed_spec hwr ht1 hg
          by_cases hc : pl.w = w ∧ occupies I t1 pl τ
          · simp only [hc, and_self, ↓reduceIte]
            obtain ⟨rfl, _⟩ := hc
            exact compat_qty_zero hp.2.2.2.2 h0
          · simp [hc]
    have hrow := resource_row h ht1 hw (noskip t1 ht1 hact1) hrt
    rw [Inst.others, isum_filter] at hrow
    rw [isum_range_split I.nT t1 _ ht1]
    have h1 := (demandAt_spec h hwr ht1 hw r τ).1
    have h2 : isum ((List.range I.nT).map (fun t => if t = t1 then 0 else (demandAt I (planOf I σ) w r τ t : Int))) ≤
        isum ((List.range I.nT).map (fun t2 => if (t2 != t1 && !I.skipOn t2 w) = true then
          dval I σ t2 w r * σ (.overlap t1 t2) else 0)) := by
      apply isum_map_le
      intro t htm
      have ht := List.mem_range.mp htm
      by_cases hte : t = t1
      · simp [hte]
      · simp only [hte, ↓reduceIte]
        have hsp := demandAt_spec h hwr ht hw r τ
        have hov := overlap_binary h (mem_pairs.mpr ⟨ht1, ht, hte⟩)
        have hdn := dval_nonneg h ht hw r
        by_cases hz : demandAt I (planOf I σ) w r τ t = 0
        · rw [hz]
          split
          · rcases hov with h0 | h1' <;> simp [*]
          · simp
        · have hact := hsp.2 hz
          have hns := noskip t ht hact
          have ho := overlap_one h hwr hwp hwc ht1 ht hte hact1 hact
          have hcond : (t != t1 && !I.skipOn t w) = true := by simp [hte, hns]
          rw [if_pos hcond, ho]
          simpa using hsp.1
    omega

end
end ErdosVerif.Ilp
