/-
Specification of `Graph.getLongestPath` (model of `get_longest_path`) and of
`Graph.criticalPathRuntime`: on a well-formed non-empty DAG with strictly
positive weights the function returns a source-to-sink path of maximal weight.

The correctness of `topologicalSort` is taken as hypotheses (`htopo`, `hperm`,
`hfwd`); it is proved in `GraphTopo.lean`.

Structure of the proof:
* `RelaxInv`   — loop invariant of the relaxation (`relaxChildren` / `relaxNode`),
* `LongestTable` — what the final DP table satisfies (Bellman equations),
* `argmaxFirst_spec`, `walkBack_spec`, `LongestTable.path_le` — the three
  consumers of the table.
-/
import ErdosVerif.Lemmas.GraphBasic

namespace ErdosVerif.Model.Graph

/-! ### `pathSum` -/

theorem foldl_add_eq (w : Nat → Int) (p : List Nat) (a : Int) :
    p.foldl (fun a n => a + w n) a = a + p.foldl (fun a n => a + w n) 0 := by
  induction p generalizing a with
  | nil => simp
  | cons n r ih =>
    simp only [List.foldl_cons]
    rw [ih (a + w n), ih (0 + w n)]
    omega

@[simp] theorem pathSum_nil (w : Nat → Int) : pathSum w [] = 0 := rfl

theorem pathSum_cons (w : Nat → Int) (n : Nat) (p : List Nat) :
    pathSum w (n :: p) = w n + pathSum w p := by
  unfold pathSum
  simp only [List.foldl_cons]
  rw [foldl_add_eq]
  omega

@[simp] theorem pathSum_singleton (w : Nat → Int) (n : Nat) : pathSum w [n] = w n := by
  simp [pathSum]

theorem pathSum_append (w : Nat → Int) (p q : List Nat) :
    pathSum w (p ++ q) = pathSum w p + pathSum w q := by
  unfold pathSum
  rw [List.foldl_append, foldl_add_eq]

theorem pathSum_concat (w : Nat → Int) (p : List Nat) (n : Nat) :
    pathSum w (p ++ [n]) = pathSum w p + w n := by
  rw [pathSum_append, pathSum_singleton]

theorem pathSum_reverse (w : Nat → Int) (p : List Nat) :
    pathSum w p.reverse = pathSum w p := by
  induction p with
  | nil => rfl
  | cons n r ih =>
    rw [List.reverse_cons, pathSum_concat, pathSum_cons, ih]
    omega

/-! ### `IsPath` -/

@[simp] theorem isPath_nil (g : Graph) : g.IsPath [] := trivial

@[simp] theorem isPath_singleton (g : Graph) (u : Nat) : g.IsPath [u] := trivial

theorem isPath_cons_cons (g : Graph) (u v : Nat) (r : List Nat) :
    g.IsPath (u :: v :: r) ↔ g.Edge u v ∧ g.IsPath (v :: r) := Iff.rfl

theorem IsPath.tail {g : Graph} {u : Nat} {r : List Nat} (h : g.IsPath (u :: r)) : g.IsPath r := by
  cases r with
  | nil => trivial
  | cons v r => exact h.2

/-- Gluing two paths along an edge. -/
theorem isPath_append_cons {g : Graph} :
    ∀ (p : List Nat) (u v : Nat) (r : List Nat),
      g.IsPath (p ++ [u]) → g.Edge u v → g.IsPath (v :: r) → g.IsPath (p ++ u :: v :: r)
  | [], _, _, _, _, he, hr => ⟨he, hr⟩
  | [_], _, _, _, hp, he, hr => ⟨hp.1, he, hr⟩
  | _ :: b :: p, u, v, r, hp, he, hr =>
    ⟨hp.1, isPath_append_cons (b :: p) u v r hp.2 he hr⟩

theorem isPath_concat {g : Graph} (p : List Nat) (u v : Nat)
    (hp : g.IsPath (p ++ [u])) (he : g.Edge u v) : g.IsPath (p ++ [u, v]) :=
  isPath_append_cons p u v [] hp he trivial

/-- Every node of a path with at least one edge … and in particular its members
are nodes as soon as the head is one. -/
theorem IsPath.hasNode_of_mem {g : Graph} (wf : g.WF) :
    ∀ {p : List Nat} {u : Nat}, g.IsPath (u :: p) → g.hasNode u = true →
      ∀ x ∈ u :: p, g.hasNode x = true
  | [], u, _, hu, x, hx => by
    simp at hx; subst hx; exact hu
  | v :: r, u, hp, hu, x, hx => by
    rcases List.mem_cons.mp hx with h | h
    · subst h; exact hu
    · exact IsPath.hasNode_of_mem wf hp.2 (wf.closed _ _ hp.1) x h

/-! ### `Before` -/

theorem Before.irrefl (l : List Nat) (u : Nat) : ¬ Before l u u := by
  unfold Before; omega

theorem Before.mem_prefix {l₁ l₂ : List Nat} {u v : Nat} (h : Before (l₁ ++ l₂) u v)
    (hv : v ∈ l₁) : u ∈ l₁ := by
  apply Classical.byContradiction
  intro hu
  unfold Before at h
  rw [List.idxOf_append, List.idxOf_append, if_pos hv, if_neg hu] at h
  have := List.idxOf_lt_length_iff.mpr hv
  omega

/-- A forward-edge order excludes self loops. -/
theorem not_edge_self_of_fwd {g : Graph} {order : List Nat}
    (hfwd : ∀ u v, g.Edge u v → Before order u v) (u : Nat) : ¬ g.Edge u u :=
  fun h => Before.irrefl order u (hfwd u u h)

/-! ### The initial table -/

theorem lookup_map_weight (w : Nat → Int) (l : List Nat) (c : Nat) (x : Int)
    (h : List.lookup c (l.map (fun n => (n, w n))) = some x) : x = w c := by
  induction l with
  | nil => simp at h
  | cons a r ih =>
    by_cases hc : c = a
    · subst hc
      simp at h
      exact h.symm
    · have : (c == a) = false := by simp [hc]
      simp only [List.map_cons, List.lookup, this] at h
      exact ih h

/-! ### Relaxation invariant -/

/-- Invariant of the relaxation loops.  `frozen` are the nodes whose table entry
can no longer change (they were processed, or are being processed); `R p c`
says that the edge `p → c` has already been relaxed. -/
structure RelaxInv (g : Graph) (w : Nat → Int) (frozen : List Nat) (R : Nat → Nat → Prop)
    (s : Dict Int × Dict Nat) : Prop where
  keys : s.1.map Prod.fst = g.getNodes
  ge : ∀ c x, List.lookup c s.1 = some x → w c ≤ x
  ach : ∀ c x, List.lookup c s.1 = some x → x = w c ∨
    ∃ p, p ∈ frozen ∧ List.lookup c s.2 = some p ∧ g.Edge p c ∧
      List.lookup p s.1 = some (x - w c)
  opt : ∀ p c y x, p ∈ frozen → R p c → g.Edge p c → List.lookup p s.1 = some y →
    List.lookup c s.1 = some x → y + w c ≤ x

theorem RelaxInv.lookup_of_hasNode {g : Graph} {w : Nat → Int} {frozen : List Nat}
    {R : Nat → Nat → Prop} {s : Dict Int × Dict Nat} (inv : RelaxInv g w frozen R s)
    {c : Nat} (hc : g.hasNode c = true) : ∃ x, List.lookup c s.1 = some x := by
  have : (List.lookup c s.1).isSome = true := by
    rw [Dict.lookup_isSome_iff_mem_keys, inv.keys]
    exact (hasNode_iff_mem_getNodes g c).mp hc
  exact Option.isSome_iff_exists.mp this

theorem RelaxInv.mono {g : Graph} {w : Nat → Int} {frozen frozen' : List Nat}
    {R R' : Nat → Nat → Prop} {s : Dict Int × Dict Nat} (inv : RelaxInv g w frozen R s)
    (hf : ∀ p, p ∈ frozen → p ∈ frozen')
    (hR : ∀ p c, p ∈ frozen' → R' p c → g.Edge p c → p ∈ frozen ∧ R p c) :
    RelaxInv g w frozen' R' s where
  keys := inv.keys
  ge := inv.ge
  ach := fun c x h => by
    rcases inv.ach c x h with h1 | ⟨p, hp, h2, h3, h4⟩
    · exact Or.inl h1
    · exact Or.inr ⟨p, hf p hp, h2, h3, h4⟩
  opt := fun p c y x hp hr he hy hx => by
    obtain ⟨hp', hr'⟩ := hR p c hp hr he
    exact inv.opt p c y x hp' hr' he hy hx

theorem RelaxInv.update {g : Graph} {w : Nat → Int} (hw : ∀ n, 0 < w n) {frozen : List Nat}
    {R : Nat → Nat → Prop} {lpl : Dict Int} {pred : Dict Nat}
    (inv : RelaxInv g w frozen R (lpl, pred)) {n c : Nat} (hn : n ∈ frozen) (hc : c ∉ frozen)
    (he : g.Edge n c) {lc ln : Int} (hlc : List.lookup c lpl = some lc)
    (hln : List.lookup n lpl = some ln) (hle : lc ≤ ln + w c) :
    RelaxInv g w frozen (fun p c' => R p c' ∨ (p = n ∧ c' = c))
      (Dict.set lpl c (ln + w c), Dict.set pred c n) := by
  have hnc : n ≠ c := fun e => hc (e ▸ hn)
  refine ⟨?_, ?_, ?_, ?_⟩
  · show (Dict.set lpl c (ln + w c)).map Prod.fst = g.getNodes
    rw [Dict.keys_set, hlc]
    simpa using inv.keys
  · intro c' x h
    change List.lookup c' (Dict.set lpl c (ln + w c)) = some x at h
    rw [Dict.lookup_set] at h
    split at h
    · next e =>
      subst e
      have h1 := inv.ge n ln hln
      have h2 := hw n
      simp only [Option.some.injEq] at h
      omega
    · exact inv.ge c' x h
  · intro c' x h
    change List.lookup c' (Dict.set lpl c (ln + w c)) = some x at h
    show x = w c' ∨ ∃ p, p ∈ frozen ∧ List.lookup c' (Dict.set pred c n) = some p ∧ g.Edge p c' ∧
      List.lookup p (Dict.set lpl c (ln + w c)) = some (x - w c')
    rw [Dict.lookup_set] at h
    split at h
    · next e =>
      subst e
      simp only [Option.some.injEq] at h
      refine Or.inr ⟨n, hn, Dict.lookup_set_self _ _ _, he, ?_⟩
      rw [Dict.lookup_set_ne _ _ hnc, hln]
      congr 1
      omega
    · next e =>
      rcases inv.ach c' x h with h1 | ⟨p, hp, h2, h3, h4⟩
      · exact Or.inl h1
      · have hpc : p ≠ c := fun e' => hc (e' ▸ hp)
        refine Or.inr ⟨p, hp, ?_, h3, ?_⟩
        · rw [Dict.lookup_set_ne _ _ e]; exact h2
        · rw [Dict.lookup_set_ne _ _ hpc]; exact h4
  · intro p c' y x hp hr hpe hy hx
    change List.lookup p (Dict.set lpl c (ln + w c)) = some y at hy
    change List.lookup c' (Dict.set lpl c (ln + w c)) = some x at hx
    have hpc : p ≠ c := fun e' => hc (e' ▸ hp)
    rw [Dict.lookup_set_ne _ _ hpc] at hy
    rw [Dict.lookup_set] at hx
    split at hx
    · next e =>
      subst e
      simp only [Option.some.injEq] at hx
      rcases hr with hr | ⟨rfl, _⟩
      · have := inv.opt p c' y lc hp hr hpe hy hlc
        omega
      · rw [hln] at hy
        simp only [Option.some.injEq] at hy
        omega
    · next e =>
      rcases hr with hr | ⟨_, h2⟩
      · exact inv.opt p c' y x hp hr hpe hy hx
      · exact absurd h2 e

theorem RelaxInv.skip {g : Graph} {w : Nat → Int} {frozen : List Nat}
    {R : Nat → Nat → Prop} {lpl : Dict Int} {pred : Dict Nat}
    (inv : RelaxInv g w frozen R (lpl, pred)) {n c : Nat}
    {lc ln : Int} (hlc : List.lookup c lpl = some lc)
    (hln : List.lookup n lpl = some ln) (hle : ¬ lc ≤ ln + w c) :
    RelaxInv g w frozen (fun p c' => R p c' ∨ (p = n ∧ c' = c)) (lpl, pred) where
  keys := inv.keys
  ge := inv.ge
  ach := inv.ach
  opt := fun p c' y x hp hr he hy hx => by
    rcases hr with hr | ⟨rfl, rfl⟩
    · exact inv.opt p c' y x hp hr he hy hx
    · change List.lookup p lpl = some y at hy
      change List.lookup c' lpl = some x at hx
      rw [hln] at hy; rw [hlc] at hx
      simp only [Option.some.injEq] at hy hx
      omega

/-- The inner loop keeps the invariant and relaxes every edge `n → c`, `c ∈ cs`. -/
theorem relaxChildren_inv {g : Graph} {w : Nat → Int} (hw : ∀ n, 0 < w n) {frozen : List Nat}
    {n : Nat} (hn : n ∈ frozen) (hnode : g.hasNode n = true) :
    ∀ (cs : List Nat) (R : Nat → Nat → Prop) (s : Dict Int × Dict Nat),
      (∀ c ∈ cs, g.Edge n c ∧ c ∉ frozen ∧ g.hasNode c = true) →
      RelaxInv g w frozen R s →
      ∃ s', relaxChildren w n cs s = .ok s' ∧
        RelaxInv g w frozen (fun p c => R p c ∨ (p = n ∧ c ∈ cs)) s' := by
  intro cs
  induction cs with
  | nil =>
    intro R s _ inv
    refine ⟨s, by simp [relaxChildren], inv.mono (fun _ h => h) ?_⟩
    intro p c hp hr _
    rcases hr with hr | ⟨_, h⟩
    · exact ⟨hp, hr⟩
    · simp at h
  | cons c cs ih =>
    intro R s hcs inv
    obtain ⟨lpl, pred⟩ := s
    obtain ⟨hce, hcf, hcn⟩ := hcs c (List.mem_cons_self ..)
    obtain ⟨lc, hlc⟩ := inv.lookup_of_hasNode hcn
    obtain ⟨ln, hln⟩ := inv.lookup_of_hasNode hnode
    have hcs' : ∀ c' ∈ cs, g.Edge n c' ∧ c' ∉ frozen ∧ g.hasNode c' = true :=
      fun c' h => hcs c' (List.mem_cons_of_mem _ h)
    change List.lookup c lpl = some lc at hlc
    change List.lookup n lpl = some ln at hln
    have hfin : ∀ s₁, RelaxInv g w frozen (fun p c' => R p c' ∨ (p = n ∧ c' = c)) s₁ →
        ∃ s', relaxChildren w n cs s₁ = .ok s' ∧
          RelaxInv g w frozen (fun p c' => R p c' ∨ (p = n ∧ c' ∈ c :: cs)) s' := by
      intro s₁ inv₁
      obtain ⟨s', hs', inv'⟩ := ih _ s₁ hcs' inv₁
      refine ⟨s', hs', inv'.mono (fun _ h => h) ?_⟩
      intro p c' hp hr _
      refine ⟨hp, ?_⟩
      rcases hr with hr | ⟨h1, h2⟩
      · exact Or.inl (Or.inl hr)
      · rcases List.mem_cons.mp h2 with h3 | h3
        · exact Or.inl (Or.inr ⟨h1, h3⟩)
        · exact Or.inr ⟨h1, h3⟩
    by_cases hle : lc ≤ ln + w c
    · have := hfin _ (inv.update hw hn hcf hce hlc hln hle)
      simpa only [relaxChildren, hlc, hln, hle, if_true] using this
    · have := hfin _ (inv.skip (n := n) (c := c) hlc hln hle)
      simpa only [relaxChildren, hlc, hln, hle, if_false] using this

/-- The outer loop over a forward-edge order. -/
theorem relaxAll_inv {g : Graph} {w : Nat → Int} (wf : g.WF) (hw : ∀ n, 0 < w n) :
    ∀ (rest done : List Nat) (s : Dict Int × Dict Nat),
      (done ++ rest).Nodup →
      (∀ u v, g.Edge u v → Before (done ++ rest) u v) →
      (∀ n ∈ rest, g.hasNode n = true) →
      RelaxInv g w done (fun _ _ => True) s →
      ∃ s', foldE (relaxNode g w) rest s = .ok s' ∧
        RelaxInv g w (done ++ rest) (fun _ _ => True) s' := by
  intro rest
  induction rest with
  | nil =>
    intro done s _ _ _ inv
    exact ⟨s, rfl, by simpa using inv⟩
  | cons n rest ih =>
    intro done s hnd hfwd hnodes inv
    have hnode : g.hasNode n = true := hnodes n (List.mem_cons_self ..)
    have happ : done ++ n :: rest = (done ++ [n]) ++ rest := by simp
    have hn_notin : n ∉ done := by
      intro h
      have := (List.nodup_append.mp hnd).2.2 n h n (List.mem_cons_self ..)
      exact this rfl
    obtain ⟨cs, hcs⟩ : ∃ cs, List.lookup n g.children = some cs :=
      Option.isSome_iff_exists.mp hnode
    have hchild : ∀ c ∈ cs, g.Edge n c ∧ c ∉ done ++ [n] ∧ g.hasNode c = true := by
      intro c hc
      have he : g.Edge n c := edge_iff_lookup.mpr ⟨cs, hcs, hc⟩
      refine ⟨he, ?_, wf.closed _ _ he⟩
      intro hmem
      have hb := hfwd n c he
      rcases List.mem_append.mp hmem with h | h
      · exact hn_notin (Before.mem_prefix hb h)
      · simp at h; subst h; exact Before.irrefl _ _ hb
    have inv₀ : RelaxInv g w (done ++ [n]) (fun p _ => p ∈ done) s :=
      inv.mono (fun p h => List.mem_append_left _ h) (fun p c _ hr _ => ⟨hr, trivial⟩)
    obtain ⟨s₁, hs₁, inv₁⟩ :=
      relaxChildren_inv hw (List.mem_append_right _ (List.mem_singleton_self n)) hnode cs _ s
        hchild inv₀
    have inv₂ : RelaxInv g w (done ++ [n]) (fun _ _ => True) s₁ := by
      refine inv₁.mono (fun _ h => h) ?_
      intro p c hp _ he
      refine ⟨hp, ?_⟩
      rcases List.mem_append.mp hp with h | h
      · exact Or.inl h
      · simp at h; subst h
        refine Or.inr ⟨rfl, ?_⟩
        have := he
        unfold Edge at this
        rwa [childrenOf_of_lookup hcs] at this
    obtain ⟨s', hs', inv'⟩ := ih (done ++ [n]) s₁ (happ ▸ hnd) (happ ▸ hfwd)
      (fun m h => hnodes m (List.mem_cons_of_mem _ h)) inv₂
    refine ⟨s', ?_, happ ▸ inv'⟩
    rw [foldE_cons]
    simp only [relaxNode, hcs, hs₁]
    exact hs'

/-! ### The final table -/

/-- What the table computed by the relaxation satisfies (Bellman equations in
inequality form plus a witness in `pred`). -/
structure LongestTable (g : Graph) (w : Nat → Int) (lpl : Dict Int) (pred : Dict Nat) : Prop where
  keys : lpl.map Prod.fst = g.getNodes
  ge : ∀ c x, List.lookup c lpl = some x → w c ≤ x
  ach : ∀ c x, List.lookup c lpl = some x → x = w c ∨
    ∃ p, List.lookup c pred = some p ∧ g.Edge p c ∧ List.lookup p lpl = some (x - w c)
  opt : ∀ p c y x, g.Edge p c → List.lookup p lpl = some y →
    List.lookup c lpl = some x → y + w c ≤ x

theorem LongestTable.lookup_of_hasNode {g : Graph} {w : Nat → Int} {lpl : Dict Int}
    {pred : Dict Nat} (T : LongestTable g w lpl pred) {c : Nat} (hc : g.hasNode c = true) :
    ∃ x, List.lookup c lpl = some x := by
  have : (List.lookup c lpl).isSome = true := by
    rw [Dict.lookup_isSome_iff_mem_keys, T.keys]
    exact (hasNode_iff_mem_getNodes g c).mp hc
  exact Option.isSome_iff_exists.mp this

theorem LongestTable.hasNode_of_lookup {g : Graph} {w : Nat → Int} {lpl : Dict Int}
    {pred : Dict Nat} (T : LongestTable g w lpl pred) {c : Nat} {x : Int}
    (h : List.lookup c lpl = some x) : g.hasNode c = true := by
  rw [hasNode_iff_mem_getNodes, ← T.keys, ← Dict.lookup_isSome_iff_mem_keys, h]
  rfl

/-- The relaxation over a topological order succeeds and yields a `LongestTable`. -/
theorem relax_table {g : Graph} (wf : g.WF) {order : List Nat}
    (hperm : order.Perm g.getNodes) (hfwd : ∀ u v, g.Edge u v → Before order u v)
    (w : Nat → Int) (hw : ∀ n, 0 < w n) :
    ∃ lpl pred, foldE (relaxNode g w) order (g.getNodes.map (fun n => (n, w n)), []) =
        .ok (lpl, pred) ∧ LongestTable g w lpl pred := by
  have hnd : order.Nodup := hperm.nodup_iff.mpr wf.nodupKeys
  have hmem : ∀ n, n ∈ order ↔ g.hasNode n = true := fun n => by
    rw [hasNode_iff_mem_getNodes]; exact hperm.mem_iff
  have inv₀ : RelaxInv g w [] (fun _ _ => True) (g.getNodes.map (fun n => (n, w n)), []) := by
    refine ⟨?_, ?_, ?_, ?_⟩
    · show (g.getNodes.map (fun n => (n, w n))).map Prod.fst = g.getNodes
      rw [List.map_map]
      exact List.map_id' _
    · intro c x h
      have := lookup_map_weight w _ c x h
      omega
    · intro c x h
      exact Or.inl (lookup_map_weight w _ c x h)
    · intro p c y x hp
      simp at hp
  obtain ⟨⟨lpl, pred⟩, hs, inv⟩ := relaxAll_inv wf hw order [] _ (by simpa using hnd)
    (by simpa using hfwd) (fun n h => (hmem n).mp h) inv₀
  refine ⟨lpl, pred, hs, inv.keys, inv.ge, ?_, ?_⟩
  · intro c x h
    rcases inv.ach c x h with h1 | ⟨p, _, h2, h3, h4⟩
    · exact Or.inl h1
    · exact Or.inr ⟨p, h2, h3, h4⟩
  · intro p c y x he hy hx
    refine inv.opt p c y x ?_ trivial he hy hx
    simpa using (hmem p).mpr he.left_hasNode

/-- Optimality: the table dominates every path, by induction from the head. -/
theorem LongestTable.path_le_aux {g : Graph} (wf : g.WF) {w : Nat → Int} {lpl : Dict Int}
    {pred : Dict Nat} (T : LongestTable g w lpl pred) :
    ∀ (r : List Nat) (u : Nat) (a y : Int), g.IsPath (u :: r) → List.lookup u lpl = some y →
      a + w u ≤ y →
      ∃ t x, (u :: r).getLast? = some t ∧ List.lookup t lpl = some x ∧
        a + pathSum w (u :: r) ≤ x := by
  intro r
  induction r with
  | nil =>
    intro u a y _ hy hle
    exact ⟨u, y, rfl, hy, by simpa using hle⟩
  | cons v r ih =>
    intro u a y hp hy hle
    obtain ⟨x', hx'⟩ := T.lookup_of_hasNode (wf.closed _ _ hp.1)
    have h1 := T.opt u v y x' hp.1 hy hx'
    obtain ⟨t, x, ht, hx, hsum⟩ := ih v (a + w u) x' hp.2 hx' (by omega)
    refine ⟨t, x, ?_, hx, ?_⟩
    · rw [List.getLast?_cons_cons]; exact ht
    · rw [pathSum_cons]; omega

/-- Every path that starts at a node is at most as heavy as the table entry of its end. -/
theorem LongestTable.path_le {g : Graph} (wf : g.WF) {w : Nat → Int} {lpl : Dict Int}
    {pred : Dict Nat} (T : LongestTable g w lpl pred) {q : List Nat} {s : Nat}
    (hq : g.IsPath q) (hs : q.head? = some s) (hnode : g.hasNode s = true) :
    ∃ t x, q.getLast? = some t ∧ List.lookup t lpl = some x ∧ pathSum w q ≤ x := by
  cases q with
  | nil => simp at hs
  | cons u r =>
    simp only [List.head?_cons, Option.some.injEq] at hs
    subst hs
    obtain ⟨y, hy⟩ := T.lookup_of_hasNode hnode
    obtain ⟨t, x, h1, h2, h3⟩ := T.path_le_aux wf r u 0 y hq hy (by have := T.ge u y hy; omega)
    exact ⟨t, x, h1, h2, by omega⟩

/-! ### `argmaxFirst` -/

theorem argmax_foldl_spec :
    ∀ (r : List (Nat × Int)) (p : Nat × Int),
      let b := r.foldl (fun best q => if q.2 > best.2 then q else best) p
      b ∈ p :: r ∧ ∀ q ∈ p :: r, q.2 ≤ b.2 := by
  intro r
  induction r with
  | nil => intro p; simp
  | cons a r ih =>
    intro p
    simp only [List.foldl_cons]
    have hm : ∃ m, m = (if a.2 > p.2 then a else p) ∧ (m = a ∨ m = p) ∧ a.2 ≤ m.2 ∧ p.2 ≤ m.2 := by
      refine ⟨_, rfl, ?_⟩
      split
      · exact ⟨Or.inl rfl, by omega, by omega⟩
      · exact ⟨Or.inr rfl, by omega, by omega⟩
    obtain ⟨m, hm, hmem, hma, hmp⟩ := hm
    rw [← hm]
    obtain ⟨h1, h2⟩ := ih m
    refine ⟨?_, ?_⟩
    · rcases List.mem_cons.mp h1 with h | h
      · rw [h]
        rcases hmem with e | e <;> simp [e]
      · exact List.mem_cons_of_mem _ (List.mem_cons_of_mem _ h)
    · intro q hq
      have hbase := h2 _ (List.mem_cons_self ..)
      rcases List.mem_cons.mp hq with h | h
      · subst h; omega
      · rcases List.mem_cons.mp h with h | h
        · subst h; omega
        · exact h2 q (List.mem_cons_of_mem _ h)

theorem argmaxFirst_spec {d : Dict Int} (hd : d ≠ []) :
    ∃ k x, argmaxFirst d = some (k, x) ∧ (k, x) ∈ d ∧ ∀ q ∈ d, q.2 ≤ x := by
  cases d with
  | nil => exact absurd rfl hd
  | cons p r =>
    obtain ⟨h1, h2⟩ := argmax_foldl_spec r p
    exact ⟨_, _, rfl, h1, h2⟩

/-! ### `walkBack` -/

/-- The walk along `pred` reaches a source within `idxOf cur order + 1` steps and
prepends a path whose weight is exactly the remaining weight `cum`. -/
theorem walkBack_spec {g : Graph} (wf : g.WF) {order : List Nat}
    (hfwd : ∀ u v, g.Edge u v → Before order u v) {w : Nat → Int} (hw : ∀ n, 0 < w n)
    {lpl : Dict Int} {pred : Dict Nat} (T : LongestTable g w lpl pred) :
    ∀ (fuel cur : Nat) (cum : Int) (path tl : List Nat),
      path.reverse = cur :: tl → g.IsPath (cur :: tl) →
      List.lookup cur lpl = some (cum + w cur) → order.idxOf cur < fuel →
      ∃ res s front front', walkBack w pred fuel cur cum path = .ok res ∧
        res.reverse = s :: front ∧ s :: front = front' ++ cur :: tl ∧ g.IsPath (s :: front) ∧
        g.hasNode s = true ∧ g.parentsOf s = [] ∧ pathSum w res = pathSum w path + cum := by
  intro fuel
  induction fuel with
  | zero => intro cur cum path tl _ _ _ h; omega
  | succ k ih =>
    intro cur cum path tl hrev hpath hlk hfuel
    have hge := T.ge cur _ hlk
    by_cases hcum : cum > 0
    · rcases T.ach cur _ hlk with h | ⟨p, hp, he, hl⟩
      · omega
      · have hb := hfwd p cur he
        unfold Before at hb
        have hl' : List.lookup p lpl = some (cum - w p + w p) := by
          rw [hl]; congr 1; omega
        obtain ⟨res, s, front, front', h1, h2, h3, h4, h5, h6, h7⟩ :=
          ih p (cum - w p) (path ++ [p]) (cur :: tl) (by simp [hrev]) ⟨he, hpath⟩ hl' (by omega)
        refine ⟨res, s, front, front' ++ [p], ?_, h2, ?_, h4, h5, h6, ?_⟩
        · simp only [walkBack, hcum, if_true, hp]
          exact h1
        · rw [h3]; simp
        · rw [h7, pathSum_concat]; omega
    · have hc0 : cum = 0 := by omega
      subst hc0
      refine ⟨path, cur, tl, [], ?_, hrev, rfl, hpath, T.hasNode_of_lookup hlk, ?_, by simp⟩
      · simp [walkBack]
      · apply List.eq_nil_iff_forall_not_mem.mpr
        intro p hp
        have he : g.Edge p cur := wf.mem_parentsOf.mp hp
        obtain ⟨y, hy⟩ := T.lookup_of_hasNode he.left_hasNode
        have h1 := T.opt p cur y _ he hy hlk
        have h2 := T.ge p y hy
        have h3 := hw p
        omega

/-! ### Main theorems -/

theorem longest_path_spec {g : Graph} (wf : g.WF) {order : List Nat}
    (htopo : g.topologicalSort = .ok order) (hperm : order.Perm g.getNodes)
    (hfwd : ∀ u v, g.Edge u v → Before order u v)
    (hne : g.getNodes ≠ []) (w : Nat → Int) (hw : ∀ n, 0 < w n) :
    ∃ p, g.getLongestPath w = .ok p ∧ g.IsSourceSinkPath p ∧
      ∀ q, g.IsSourceSinkPath q → pathSum w q ≤ pathSum w p := by
  obtain ⟨lpl, pred, hfold, T⟩ := relax_table wf hperm hfwd w hw
  have hlne : lpl ≠ [] := by
    intro h
    apply hne
    rw [← T.keys, h]; rfl
  obtain ⟨k, x, hamax, hmem, hmax⟩ := argmaxFirst_spec hlne
  have hnd : (lpl.map Prod.fst).Nodup := by rw [T.keys]; exact wf.nodupKeys
  have hlk : List.lookup k lpl = some x := Dict.lookup_eq_some_of_mem hnd hmem
  have hmax' : ∀ c y, List.lookup c lpl = some y → y ≤ x :=
    fun c y h => hmax (c, y) (Dict.mem_of_lookup_eq_some h)
  -- the argmax is a sink
  have hsink : g.childrenOf k = [] := by
    apply List.eq_nil_iff_forall_not_mem.mpr
    intro c hc
    have he : g.Edge k c := hc
    obtain ⟨y, hy⟩ := T.lookup_of_hasNode (wf.closed _ _ he)
    have h1 := T.opt k c x y he hlk hy
    have h2 := hmax' c y hy
    have h3 := hw c
    omega
  -- the walk back
  have hfuel : order.idxOf k < g.size + 1 := by
    have h1 : order.idxOf k ≤ order.length := List.idxOf_le_length
    have h2 : order.length = g.size := by
      rw [hperm.length_eq]; simp [getNodes, size]
    omega
  have hlk' : List.lookup k lpl = some (x - w k + w k) := by
    rw [hlk]; congr 1; omega
  obtain ⟨res, s, front, front', hwalk, hrev, hfront, hpath, hsnode, hsrc, hsum⟩ :=
    walkBack_spec wf hfwd hw T (g.size + 1) k (x - w k) [k] [] rfl trivial hlk' hfuel
  have hsum' : pathSum w res.reverse = x := by
    rw [pathSum_reverse, hsum, pathSum_singleton]; omega
  refine ⟨res.reverse, ?_, ⟨?_, s, k, ?_, ?_, hsnode, hsrc, hsink⟩, ?_⟩
  · simp only [getLongestPath, htopo, hfold, hamax, hwalk]
  · rw [hrev]; exact hpath
  · rw [hrev]; rfl
  · rw [hrev, hfront]; simp
  · intro q ⟨hq, s', t', hhead, hlast, hs'node, _, _⟩
    obtain ⟨t, y, _, hy, hle⟩ := T.path_le wf hq hhead hs'node
    have := hmax' t y hy
    omega

theorem critical_path_runtime_spec {g : Graph} (wf : g.WF) {order : List Nat}
    (htopo : g.topologicalSort = .ok order) (hperm : order.Perm g.getNodes)
    (hfwd : ∀ u v, g.Edge u v → Before order u v)
    (hne : g.getNodes ≠ []) (w : Nat → Int) (hw : ∀ n, 0 < w n) :
    ∃ t, g.criticalPathRuntime w = .ok t ∧
      (∃ p, g.IsSourceSinkPath p ∧ pathSum w p = t) ∧
      ∀ q, g.IsSourceSinkPath q → pathSum w q ≤ t := by
  obtain ⟨p, hp, hssp, hopt⟩ := longest_path_spec wf htopo hperm hfwd hne w hw
  refine ⟨pathSum w p, ?_, ⟨p, hssp, rfl⟩, hopt⟩
  simp only [criticalPathRuntime, hp]

end ErdosVerif.Model.Graph
