import ErdosVerif.Lemmas.SimStatesRun2
/-!
Census against the task states, part 4: the remaining cancellation sites, the handlers, the
loop; `simulate_tally`.
-/
open Std.Do
set_option mvcgen.warning false

namespace ErdosVerif.Model.Sim

attribute [local spec] row_t logE_t liftE_t liftTape_t getGraph_t raiseTask_t addEvent_t reheapify_t
  removeEvent_t editEvent_t findEvent_t nextOfType_t placedTasks_t popEvent_t getPool_t setPool_t raiseOutcome_t
  raisePlace_t advanceClock_t getTask_t uniqueName_t mkEvent_t taskCall_t finishRemove_t finishRows_t
  notifyGraphCompletion_t placementSkip_t

theorem placementNotReady_t (ev : SEvent) (t : TaskId) (p : PlacementS) : KeepsT (placementNotReady ev t p) := by
  mvcgen [placementNotReady, getGraph, setGraph, logE, mkEvent, uniqueName, getTask, addEvent]
  case inv1 => exact owedLoop
  case inv2 => exact tLoop
  all_goals try subst_vars
  all_goals try t_close0
  all_goals first
    | exact tally_cancel_w _ _ _ _ _ ‹Tally _› ‹_ = some _›
    | exact tally_cancel_ok _ _ _ _ _ ‹Tally _› ‹_ = some _› (none_of_forall ‹_›)
    | (pick_hyp h => exact TallyP.congr _ _ (TallyP.logCancel _ _ _ h) rfl rfl rfl rfl rfl rfl rfl)
    | (pick_hyp h => exact TallyP.weak (TallyP.congr _ _ (TallyP.logCancel _ _ _ h) rfl rfl rfl rfl rfl rfl rfl))
    | skip
  · pick_hyp hg => exact tally_cancel_w' _ _ _ _ _ _ ‹Tally _› hg rfl rfl rfl rfl rfl rfl rfl
  · pick_hyp hg => exact tally_cancel_ok' _ _ _ _ _ _ ‹Tally _› hg (none_of_forall ‹_›) rfl rfl rfl rfl rfl rfl rfl

end ErdosVerif.Model.Sim
