import ErdosVerif.Lemmas.SimStates
/-!
Census against the task states, part 2: the invariant `Tally` over simulator states and the
Hoare triples for every handler; `simulate_tally`.

`Tally s`:
* `finishedTasks` = number of tasks of the workload that are done (COMPLETED / EVICTED):
  every finished task is counted once, nothing else is counted;
* number of `.cancel` history entries = number of CANCELLED tasks;
* (auxiliary) every task graph satisfies `GInv`, the loader's graphs and the job templates
  are pristine, and there is no task graph before the loader handed the workload over.

`TallyW` is what an aborted run leaves: the same, except that CANCELLED tasks may outnumber
the `.cancel` entries (a `TaskGraph.cancel` that raised half way, or an exception between
the cancellation and the bookkeeping loop that follows it).
-/
open Std.Do
set_option mvcgen.warning false

namespace ErdosVerif.Model.Sim

def isCancelLog : LogE → Bool
  | .cancel _ _ => true
  | _ => false

def doneTotal (s : SimS) : Nat := totalCnt isDone s.graphs
def cancTotal (s : SimS) : Nat := totalCnt isCanc s.graphs
def cancelLogN (s : SimS) : Nat := s.log.toList.countP isCancelLog

/-- The tally with `k` `.cancel` entries still owed. -/
structure TallyP (k : Nat) (s : SimS) : Prop where
  ginv : ∀ g ∈ s.graphs.toList, g.GInv
  fresh : ∀ g ∈ s.allGraphs.toList, g.Fresh
  templ : ∀ j ∈ s.jobs.toList, j.template.Fresh
  empty : s.loaderReleased = false → s.graphs = #[] ∧ s.metas = #[]
  done : s.finishedTasks = doneTotal s
  canc : cancelLogN s + k = cancTotal s

abbrev Tally (s : SimS) : Prop := TallyP 0 s

structure TallyW (s : SimS) : Prop where
  ginv : ∀ g ∈ s.graphs.toList, g.GInv
  fresh : ∀ g ∈ s.allGraphs.toList, g.Fresh
  templ : ∀ j ∈ s.jobs.toList, j.template.Fresh
  empty : s.loaderReleased = false → s.graphs = #[] ∧ s.metas = #[]
  done : s.finishedTasks = doneTotal s
  canc : cancelLogN s ≤ cancTotal s

theorem TallyP.weak {k : Nat} {s : SimS} (h : TallyP k s) : TallyW s :=
  ⟨h.ginv, h.fresh, h.templ, h.empty, h.done, by have := h.canc; omega⟩

theorem TallyP.congr {k : Nat} (s s' : SimS) (h : TallyP k s) (hg : s'.graphs = s.graphs) (ha : s'.allGraphs = s.allGraphs)
    (hj : s'.jobs = s.jobs) (hr : s'.loaderReleased = s.loaderReleased) (hf : s'.finishedTasks = s.finishedTasks)
    (hl : s'.log = s.log) (hm : s'.metas = s.metas) : TallyP k s' := by
  obtain ⟨a, b, c, d, e, f⟩ := h
  refine ⟨by rw [hg]; exact a, by rw [ha]; exact b, by rw [hj]; exact c, by rw [hr, hg, hm]; exact d, ?_, ?_⟩
  · rw [hf]; unfold doneTotal; rw [hg]; exact e
  · unfold cancelLogN cancTotal; rw [hl, hg]; exact f

theorem TallyW.congr (s s' : SimS) (h : TallyW s) (hg : s'.graphs = s.graphs) (ha : s'.allGraphs = s.allGraphs)
    (hj : s'.jobs = s.jobs) (hr : s'.loaderReleased = s.loaderReleased) (hf : s'.finishedTasks = s.finishedTasks)
    (hl : s'.log = s.log) (hm : s'.metas = s.metas) : TallyW s' := by
  obtain ⟨a, b, c, d, e, f⟩ := h
  refine ⟨by rw [hg]; exact a, by rw [ha]; exact b, by rw [hj]; exact c, by rw [hr, hg, hm]; exact d, ?_, ?_⟩
  · rw [hf]; unfold doneTotal; rw [hg]; exact e
  · unfold cancelLogN cancTotal; rw [hl, hg]; exact f

/-- A history entry that is not a `.cancel`. -/
theorem TallyP.log {k : Nat} (s : SimS) (e : LogE) (h : TallyP k s) (he : isCancelLog e = false) :
    TallyP k { s with log := s.log.push e } := by
  obtain ⟨a, b, c, d, e', f⟩ := h
  refine ⟨a, b, c, d, e', ?_⟩
  unfold cancelLogN cancTotal at *
  simp only [Array.toList_push, List.countP_append, List.countP_cons, he, List.countP_nil]
  simpa using f

/-- A `.cancel` entry pays one owed entry. -/
theorem TallyP.logCancel {k : Nat} (s : SimS) (t : TaskId) (time : Int) (h : TallyP (k + 1) s) :
    TallyP k { s with log := s.log.push (.cancel t time) } := by
  obtain ⟨a, b, c, d, e', f⟩ := h
  refine ⟨a, b, c, d, e', ?_⟩
  unfold cancelLogN cancTotal at *
  have hc : isCancelLog (.cancel t time) = true := rfl
  simp only [Array.toList_push, List.countP_append, List.countP_cons, hc, List.countP_nil]
  simp only [if_true] at *
  omega

theorem ginv_set (gs : Array GraphS) (gi : Nat) (g' : GraphS) (h : ∀ g ∈ gs.toList, g.GInv) (hg' : g'.GInv) :
    ∀ g ∈ (gs.setIfInBounds gi g').toList, g.GInv := by
  intro q hq
  simp only [Array.mem_toList_iff] at hq
  rcases Array.mem_or_eq_of_mem_setIfInBounds hq with hq | hq
  · exact h q (Array.mem_toList_iff.mpr hq)
  · subst hq; exact hg'

theorem ginv_get {gs : Array GraphS} {gi : Nat} {g : GraphS} (h : ∀ g ∈ gs.toList, g.GInv) (hg : gs[gi]? = some g) :
    g.GInv := h g (Array.mem_toList_iff.mpr (Array.mem_of_getElem? hg))

/-- Writing back a task graph whose done-count is unchanged and whose cancelled-count grew
by `m`: `m` more `.cancel` entries are owed. -/
theorem TallyP.setGraph {k : Nat} (s : SimS) (gi : Nat) (g g' : GraphS) (m : Nat) (h : TallyP k s)
    (hg : s.graphs[gi]? = some g) (hi : g'.GInv) (hd : g'.cnt isDone = g.cnt isDone)
    (hc : g'.cnt isCanc = g.cnt isCanc + m) :
    TallyP (k + m) { s with graphs := s.graphs.setIfInBounds gi g' } := by
  obtain ⟨a, b, c, d, e, f⟩ := h
  refine ⟨ginv_set _ _ _ a hi, b, c, ?_, ?_, ?_⟩
  · intro hl
    have := (d hl).1
    rw [this] at hg; simp at hg
  · show s.finishedTasks = totalCnt isDone (s.graphs.setIfInBounds gi g')
    rw [totalCnt_set_same isDone _ gi g g' hg hd]; exact e
  · show cancelLogN s + (k + m) = totalCnt isCanc (s.graphs.setIfInBounds gi g')
    have := totalCnt_set isCanc s.graphs gi g g' hg
    unfold cancelLogN cancTotal at f
    unfold cancelLogN
    omega

/-- … when the cancelled-count only did not decrease. -/
theorem TallyW.setGraph (s : SimS) (gi : Nat) (g g' : GraphS) (h : TallyW s)
    (hg : s.graphs[gi]? = some g) (hi : g'.GInv) (hd : g'.cnt isDone = g.cnt isDone)
    (hc : g.cnt isCanc ≤ g'.cnt isCanc) :
    TallyW { s with graphs := s.graphs.setIfInBounds gi g' } := by
  obtain ⟨a, b, c, d, e, f⟩ := h
  refine ⟨ginv_set _ _ _ a hi, b, c, ?_, ?_, ?_⟩
  · intro hl
    have := (d hl).1
    rw [this] at hg; simp at hg
  · show s.finishedTasks = totalCnt isDone (s.graphs.setIfInBounds gi g')
    rw [totalCnt_set_same isDone _ gi g g' hg hd]; exact e
  · show cancelLogN s ≤ totalCnt isCanc (s.graphs.setIfInBounds gi g')
    have := totalCnt_set isCanc s.graphs gi g g' hg
    unfold cancelLogN cancTotal at f
    unfold cancelLogN
    omega

/-- A benign `Task` API call (not `finish`, not `cancel`) on one task. -/
theorem TallyP.call {k : Nat} (s : SimS) (t : TaskId) (g : GraphS) (x : TaskS) (c : TaskCall) (h : TallyP k s)
    (hg : s.graphs[t.g]? = some g) (hx : g.task? t.t = some x) (hb : c.isBenign = true) (hf : c.isFinish = false)
    (hc : c.isCancel = false) :
    TallyP k { s with graphs := s.graphs.setIfInBounds t.g (g.setTask t.t (x.call c).1) } := by
  have hgi := ginv_get h.ginv hg
  have hp := hgi.preOK _ _ hx
  have := TallyP.setGraph s t.g g (g.setTask t.t (x.call c).1) 0 h hg
    (GraphS.ginv_setTask _ _ _ _ hgi hx (GraphS.benign_call _ c hp (hgi.noPreempt _ _ hx) hb))
    (GraphS.cnt_setTask_same _ g t.t x _ hx (call_done x c hp hf))
    (by rw [GraphS.cnt_setTask_same _ g t.t x _ hx (call_canc x c hp hc)]; rfl)
  simpa using this

/-- `task.finish()` followed by the two history entries and the counter increment (the
accepted case), or by nothing (the refused case leaves the task as it was). -/
theorem TallyP.finishOk {k : Nat} (s : SimS) (t : TaskId) (g : GraphS) (x : TaskS) (h : TallyP k s)
    (hg : s.graphs[t.g]? = some g) (hx : g.task? t.t = some x) (hok : (x.call (.finish none)).2 = none) :
    TallyP k { s with graphs := s.graphs.setIfInBounds t.g (g.setTask t.t (x.call (.finish none)).1),
                      finishedTasks := s.finishedTasks + 1 } := by
  have hgi := ginv_get h.ginv hg
  have hp := hgi.preOK _ _ hx
  have hfin := (finish_done x none).1 hok
  obtain ⟨a, b, c, d, e, f⟩ := h
  have hcd := GraphS.cnt_setTask isDone g t.t x (x.call (.finish none)).1 hx
  simp only [TaskS.call] at hcd hok hfin ⊢
  simp only [hfin.1, hfin.2, if_true] at hcd
  have hcc : (g.setTask t.t (x.doFinish none).1).cnt isCanc = g.cnt isCanc :=
    GraphS.cnt_setTask_same _ g t.t x _ hx (call_canc x (.finish none) hp rfl)
  refine ⟨ginv_set _ _ _ a (GraphS.ginv_setTask _ _ _ _ hgi hx (GraphS.benign_call _ (.finish none) hp (hgi.noPreempt _ _ hx) rfl)),
    b, c, ?_, ?_, ?_⟩
  · intro hl
    have := (d hl).1
    rw [this] at hg; simp at hg
  · show s.finishedTasks + 1 = totalCnt isDone (s.graphs.setIfInBounds t.g (g.setTask t.t (x.doFinish none).1))
    have := totalCnt_set isDone s.graphs t.g g (g.setTask t.t (x.doFinish none).1) hg
    unfold doneTotal at e
    simp at hcd
    omega
  · show cancelLogN s + k = totalCnt isCanc (s.graphs.setIfInBounds t.g (g.setTask t.t (x.doFinish none).1))
    rw [totalCnt_set_same isCanc _ t.g g _ hg hcc]; exact f

theorem TallyP.finishErr {k : Nat} (s : SimS) (t : TaskId) (g : GraphS) (x : TaskS) (h : TallyP k s)
    (hg : s.graphs[t.g]? = some g) (hx : g.task? t.t = some x) (e : SErr) (herr : (x.call (.finish none)).2 = some e) :
    TallyP k { s with graphs := s.graphs.setIfInBounds t.g (g.setTask t.t (x.call (.finish none)).1) } := by
  have hsame : (x.call (.finish none)).1 = x := (finish_done x none).2 (by simp [TaskS.call] at herr ⊢; rw [herr]; simp)
  rw [hsame]
  have hgi := ginv_get h.ginv hg
  have := TallyP.setGraph s t.g g (g.setTask t.t x) 0 h hg
    (GraphS.ginv_setTask _ _ _ _ hgi hx (GraphS.benign_refl x (hgi.preOK _ _ hx) (hgi.noPreempt _ _ hx)))
    (GraphS.cnt_setTask_same _ g t.t x x hx rfl) (by rw [GraphS.cnt_setTask_same _ g t.t x x hx rfl]; rfl)
  simpa using this

/-- `Task.start` on the graph whose readiness was checked. -/
theorem TallyP.start {k : Nat} (s : SimS) (t : TaskId) (g : GraphS) (x : TaskS) (time fuzzed : Int) (h : TallyP k s)
    (hg : s.graphs[t.g]? = some g) (hx : g.task? t.t = some x) (hr : g.isReadyToRun t.t = true) :
    TallyP k { s with graphs := s.graphs.setIfInBounds t.g (g.setTask t.t (x.doStart time fuzzed).1) } := by
  have hgi := ginv_get h.ginv hg
  have := TallyP.setGraph s t.g g (g.setTask t.t (x.doStart time fuzzed).1) 0 h hg
    (GraphS.ginv_start g t.t x time fuzzed hgi hx hr)
    (GraphS.cnt_setTask_same _ g t.t x _ hx (doStart_done x time fuzzed))
    (by rw [GraphS.cnt_setTask_same _ g t.t x _ hx (doStart_canc x time fuzzed)]; rfl)
  simpa using this

/-- The first UPDATE_WORKLOAD adopts the loader's (pristine) task graphs. -/
theorem TallyP.load {k : Nat} (s s' : SimS) (h : TallyP k s) (hl : s.loaderReleased = false)
    (hg : s'.graphs = s.allGraphs) (ha : s'.allGraphs = s.allGraphs) (hj : s'.jobs = s.jobs)
    (hf : s'.finishedTasks = s.finishedTasks) (hlog : s'.log = s.log) (hr : s'.loaderReleased = true) : TallyP k s' := by
  obtain ⟨a, b, c, d, e, f⟩ := h
  have hempty := (d hl).1
  refine ⟨by rw [hg]; exact fun g hgm => GraphS.ginv_of_fresh g (b g hgm), by rw [ha]; exact b, by rw [hj]; exact c,
    fun h => (by rw [hr] at h; cases h), ?_, ?_⟩
  · rw [hf, e]; unfold doneTotal; rw [hg, hempty, totalCnt_empty]
    exact (totalCnt_zero _ _ (fun g hgm => GraphS.cnt_fresh_done g (b g hgm))).symm
  · unfold cancelLogN cancTotal at *
    rw [hlog, hg, f, hempty, totalCnt_empty]
    exact (totalCnt_zero _ _ (fun g hgm => GraphS.cnt_fresh_canc g (b g hgm))).symm

/-- A closed-loop follow-up graph (pristine) is appended; one job's counters change. -/
theorem TallyP.push {k : Nat} (s s' : SimS) (g : GraphS) (ji : Nat) (j' : JobS) (h : TallyP k s) (hgf : g.Fresh)
    (hjf : j'.template.Fresh) (hg : s'.graphs = s.graphs.push g) (ha : s'.allGraphs = s.allGraphs)
    (hj : s'.jobs = s.jobs.setIfInBounds ji j') (hf : s'.finishedTasks = s.finishedTasks) (hlog : s'.log = s.log)
    (hr : s'.loaderReleased = true) : TallyP k s' := by
  obtain ⟨a, b, c, d, e, f⟩ := h
  refine ⟨?_, by rw [ha]; exact b, ?_, fun h => (by rw [hr] at h; cases h), ?_, ?_⟩
  · rw [hg]; intro q hq
    simp only [Array.toList_push, List.mem_append, List.mem_singleton] at hq
    rcases hq with hq | hq
    · exact a q hq
    · subst hq; exact GraphS.ginv_of_fresh _ hgf
  · rw [hj]; intro q hq
    simp only [Array.mem_toList_iff] at hq
    rcases Array.mem_or_eq_of_mem_setIfInBounds hq with hq | hq
    · exact c q (Array.mem_toList_iff.mpr hq)
    · subst hq; exact hjf
  · rw [hf, e]; unfold doneTotal; rw [hg, totalCnt_push, GraphS.cnt_fresh_done g hgf]; rfl
  · unfold cancelLogN cancTotal at *
    rw [hlog, hg, totalCnt_push, GraphS.cnt_fresh_canc g hgf]; exact f

/-- `TaskGraph.cancel` written back: as many `.cancel` entries are owed as tasks were reported. -/
theorem tally_cancel_ok (s : SimS) (gi : Nat) (g : GraphS) (n : Nat) (time : Int) (h : Tally s)
    (hg : s.graphs[gi]? = some g) (he : (g.cancel n time).err = none) :
    TallyP (g.cancel n time).cancelled.length { s with graphs := s.graphs.setIfInBounds gi (g.cancel n time).g } := by
  have hc := GraphS.cancel_cnt g n time
  have := TallyP.setGraph s gi g (g.cancel n time).g (g.cancel n time).cancelled.length h hg
    (GraphS.ginv_cancel g n time (ginv_get h.ginv hg)) hc.1 (hc.2.2 he)
  simpa using this

theorem tally_cancel_w (s : SimS) (gi : Nat) (g : GraphS) (n : Nat) (time : Int) (h : Tally s)
    (hg : s.graphs[gi]? = some g) :
    TallyW { s with graphs := s.graphs.setIfInBounds gi (g.cancel n time).g } := by
  have hc := GraphS.cancel_cnt g n time
  exact TallyW.setGraph s gi g (g.cancel n time).g h.weak hg (GraphS.ginv_cancel g n time (ginv_get h.ginv hg)) hc.1 hc.2.1

theorem tally_cancel_ok' (s s' : SimS) (gi : Nat) (g : GraphS) (n : Nat) (time : Int) (h : Tally s)
    (hg : s.graphs[gi]? = some g) (he : (g.cancel n time).err = none)
    (hgr : s'.graphs = s.graphs.setIfInBounds gi (g.cancel n time).g) (ha : s'.allGraphs = s.allGraphs)
    (hj : s'.jobs = s.jobs) (hr : s'.loaderReleased = s.loaderReleased) (hf : s'.finishedTasks = s.finishedTasks)
    (hl : s'.log = s.log) (hm : s'.metas = s.metas) : TallyP (g.cancel n time).cancelled.length s' :=
  TallyP.congr _ _ (tally_cancel_ok s gi g n time h hg he) hgr ha hj hr hf hl hm

theorem tally_cancel_w' (s s' : SimS) (gi : Nat) (g : GraphS) (n : Nat) (time : Int) (h : Tally s)
    (hg : s.graphs[gi]? = some g)
    (hgr : s'.graphs = s.graphs.setIfInBounds gi (g.cancel n time).g) (ha : s'.allGraphs = s.allGraphs)
    (hj : s'.jobs = s.jobs) (hr : s'.loaderReleased = s.loaderReleased) (hf : s'.finishedTasks = s.finishedTasks)
    (hl : s'.log = s.log) (hm : s'.metas = s.metas) : TallyW s' :=
  TallyW.congr _ _ (tally_cancel_w s gi g n time h hg) hgr ha hj hr hf hl hm

/-- `notify_task_completion` written back. -/
theorem tally_notify_ok (s : SimS) (gi : Nat) (g : GraphS) (n : Nat) (time : Int) (tape : List Draw) (h : Tally s)
    (hg : s.graphs[gi]? = some g) (he : (g.notifyCompletion n time tape).err = none) :
    TallyP (g.notifyCompletion n time tape).cancelled.length
      { s with graphs := s.graphs.setIfInBounds gi (g.notifyCompletion n time tape).g } := by
  have hc := GraphS.notifyCompletion_cnt g n time tape
  have := TallyP.setGraph s gi g (g.notifyCompletion n time tape).g (g.notifyCompletion n time tape).cancelled.length h hg
    (GraphS.ginv_notifyCompletion g n time tape (ginv_get h.ginv hg)) hc.1 (hc.2.2 he)
  simpa using this

theorem tally_notify_w (s : SimS) (gi : Nat) (g : GraphS) (n : Nat) (time : Int) (tape : List Draw) (h : Tally s)
    (hg : s.graphs[gi]? = some g) :
    TallyW { s with graphs := s.graphs.setIfInBounds gi (g.notifyCompletion n time tape).g } := by
  have hc := GraphS.notifyCompletion_cnt g n time tape
  exact TallyW.setGraph s gi g _ h.weak hg (GraphS.ginv_notifyCompletion g n time tape (ginv_get h.ginv hg)) hc.1 hc.2.1

theorem tally_notify_ok' (s s' : SimS) (gi : Nat) (g : GraphS) (n : Nat) (time : Int) (tape : List Draw) (h : Tally s)
    (hg : s.graphs[gi]? = some g) (he : (g.notifyCompletion n time tape).err = none)
    (hgr : s'.graphs = s.graphs.setIfInBounds gi (g.notifyCompletion n time tape).g) (ha : s'.allGraphs = s.allGraphs)
    (hj : s'.jobs = s.jobs) (hr : s'.loaderReleased = s.loaderReleased) (hf : s'.finishedTasks = s.finishedTasks)
    (hl : s'.log = s.log) (hm : s'.metas = s.metas) : TallyP (g.notifyCompletion n time tape).cancelled.length s' :=
  TallyP.congr _ _ (tally_notify_ok s gi g n time tape h hg he) hgr ha hj hr hf hl hm

theorem tally_notify_w' (s s' : SimS) (gi : Nat) (g : GraphS) (n : Nat) (time : Int) (tape : List Draw) (h : Tally s)
    (hg : s.graphs[gi]? = some g)
    (hgr : s'.graphs = s.graphs.setIfInBounds gi (g.notifyCompletion n time tape).g) (ha : s'.allGraphs = s.allGraphs)
    (hj : s'.jobs = s.jobs) (hr : s'.loaderReleased = s.loaderReleased) (hf : s'.finishedTasks = s.finishedTasks)
    (hl : s'.log = s.log) (hm : s'.metas = s.metas) : TallyW s' :=
  TallyW.congr _ _ (tally_notify_w s gi g n time tape h hg) hgr ha hj hr hf hl hm

theorem tally_initial (s0 : SimS) (hg : s0.graphs = #[]) (hm : s0.metas = #[]) (ha : ∀ g ∈ s0.allGraphs.toList, g.Fresh)
    (hj : ∀ j ∈ s0.jobs.toList, j.template.Fresh) (hf : s0.finishedTasks = 0) (hl : s0.log = #[]) : Tally s0 := by
  refine ⟨by rw [hg]; intro g h; (cases h), ha, hj, fun _ => ⟨hg, hm⟩, ?_, ?_⟩
  · rw [hf]; unfold doneTotal; rw [hg]; rfl
  · unfold cancelLogN cancTotal; rw [hl, hg]; rfl

end ErdosVerif.Model.Sim
