import ErdosVerif.Lemmas.SimProgressFwd
import ErdosVerif.Lemmas.SimQueueRun3
/-!
Progress of the `simulate()` loop, part 8: the loop-head invariant `PJ` = pending-finish
invariant ∧ residency invariant ∧ queue invariant ∧ pool-map invariant; it holds at every
loop head of every run from a well-formed initial state.
-/
open Std.Do
set_option mvcgen.warning false

namespace ErdosVerif.Model.Sim

/-- Converse of `triple_run`. -/
theorem triple_of_run {α} (x : SimM α) (P : SimS → Prop) (Q : α → SimS → Prop) (W : SimS → Prop)
    (h : ∀ s0, P s0 → HoldsAfter Q W ((ExceptT.run x).run s0)) :
    ⦃fun s => ⌜P s⌝⦄ x ⦃post⟨fun a s => ⌜Q a s⌝, fun _ s => ⌜W s⌝⟩⦄ := by
  intro s0 hp
  have := h s0 hp
  simp only [wp, PredTrans.apply_pushExcept, PredTrans.apply_pushArg, Id.run]
  revert this
  cases (StateT.run (ExceptT.run x) s0) with
  | mk r s => cases r <;> (intro h; exact h)

/-- The loop-head invariant. -/
structure PJ (s : SimS) : Prop where
  pg : PG none [] s
  ap : AP RunOK [] s
  q : QInv s
  pf : PFM s

/-- Every task `get_placed_tasks()` returns is a RUNNING task. -/
theorem PJ.placed_running {s : SimS} (h : PJ s) (t : TaskId) (ht : t ∈ placedList s) :
    ∃ x, taskAt s.graphs t = some x ∧ x.state = .running := by
  unfold placedList at ht
  obtain ⟨p, hp, htp⟩ := List.mem_flatMap.mp ht
  obtain ⟨q, hq, rfl⟩ := List.mem_map.mp htp
  obtain ⟨ks, hk, hm⟩ := (h.pf p hp).2 q hq
  obtain ⟨pi, hpi, hpe⟩ := List.getElem_of_mem hp
  have hvs : (views s.pools)[pi]? = some p.view := by
    rw [views_getElem?]
    have : s.pools[pi]? = some p := by
      rw [Array.getElem?_eq_getElem (by simpa using hpi)]
      simp only [Array.getElem_toList] at hpe
      rw [hpe]
    rw [this]; rfl
  have hat : At (views s.pools) pi q.2 q.1 := ⟨p.view, ks, hvs, hk, hm⟩
  exact h.ap.core.resRun pi q.2 q.1 hat

/-- **At a loop head, if a placed task has remaining time 0 then the head of the queue is due
now or earlier** (its TASK_FINISHED event is queued, and the root of the heap is not later). -/
theorem PJ.noStall {s : SimS} (h : PJ s) : NoStallPre s := by
  intro t ht x hx hrem head hh
  obtain ⟨x', hx', hrun⟩ := h.placed_running t ht
  rw [hx] at hx'; cases hx'
  have hr : x.remaining = some 0 := by
    simp only [TaskS.remainingTime, hrun] at hrem
    cases hr : x.remaining with
    | none => rw [hr] at hrem; cases hrem
    | some r => rw [hr] at hrem; cases hrem; rfl
  obtain ⟨e, he, _, _, hle⟩ := h.pg.due t x hx hrun hr (by simp)
  simp only [List.append_nil] at he
  obtain ⟨j, hj, hje⟩ := Array.getElem_of_mem (Array.mem_toList_iff.mp he)
  have hmin := Heap.root_min sevent_swo s.queue h.q.wf h.q.heap j hj
  have h0 : 0 < s.queue.size := by omega
  have hhead : head = s.queue[0] := by
    rw [Array.getElem?_eq_getElem h0] at hh; exact (Option.some.inj hh).symm
  rw [hje, ← hhead] at hmin
  have : ¬ (e.ev.time < head.ev.time) := by
    intro hlt
    have := (Event.lt_iff e.ev head.ev).mpr (Or.inl hlt)
    simp only [SEvent.lt] at hmin
    rw [this] at hmin; cases hmin
  omega

/-- **One iteration keeps the loop-head invariant.** -/
theorem iter_j : ⦃fun s => ⌜PJ s⌝⦄ iter ⦃post⟨fun _ s => ⌜PJ s⌝, fun _ _ => ⌜True⌝⟩⦄ := by
  apply triple_of_run iter PJ (fun _ s => PJ s) (fun _ => True)
  intro s0 h
  have a := triple_run iter _ _ _ iter_p s0 ⟨h.pg, h.noStall⟩
  have b := triple_run iter _ _ _ iter_rspec s0 h.ap
  have c := triple_run iter _ _ _ iter_q s0 h.q
  have d := triple_run iter _ _ _ iter_f s0 h.pf
  revert a b c d
  cases (StateT.run (ExceptT.run iter) s0) with
  | mk r s =>
    cases r with
    | ok v => intro a b c d; exact ⟨a, b, c, d⟩
    | error e => intro _ _ _ _; trivial

theorem init_p : KeepsP [] init := by
  have h_row := row_p []
  have h_util := logUtilization_p []
  have h_mk := mkEvent_p []
  have h_add := addEvent_p []
  rmvcgen [init, h_row, h_util, h_mk, h_add]
  case inv1 => exact loopP []
  all_goals first
    | pg_frame
    | pg_etype
    | (rs_hyps h => exact h.1)

theorem init_j : ⦃fun s => ⌜PJ s⌝⦄ init ⦃post⟨fun _ s => ⌜PJ s⌝, fun _ _ => ⌜True⌝⟩⦄ := by
  apply triple_of_run init PJ (fun _ s => PJ s) (fun _ => True)
  intro s0 h
  have a := triple_run init _ _ _ init_p s0 h.pg
  have b := triple_run init _ _ _ (init_rspec s0.now) s0 ⟨h.ap, rfl⟩
  have c := triple_run init _ _ _ init_q s0 h.q
  have d := triple_run init _ _ _ init_f s0 h.pf
  revert a b c d
  cases (StateT.run (ExceptT.run init) s0) with
  | mk r s =>
    cases r with
    | ok v => intro a b c d; exact ⟨a, b.1, c, d⟩
    | error e => intro _ _ _ _; trivial

theorem runK_j (k : Nat) : ⦃fun s => ⌜PJ s⌝⦄ runK k ⦃post⟨fun _ s => ⌜PJ s⌝, fun _ _ => ⌜True⌝⟩⦄ := by
  induction k with
  | zero => rmvcgen [runK]
  | succ k ih => rmvcgen [runK, ih, iter_j]

theorem run_j (k : Nat) : ⦃fun s => ⌜PJ s⌝⦄ run k ⦃post⟨fun _ s => ⌜PJ s⌝, fun _ _ => ⌜True⌝⟩⦄ := by
  induction k with
  | zero => rmvcgen [run]
  | succ k ih => rmvcgen [run, ih, iter_j]

theorem wholeK_j (k : Nat) :
    ⦃fun s => ⌜PJ s⌝⦄ (do init; runK k) ⦃post⟨fun _ s => ⌜PJ s⌝, fun _ _ => ⌜True⌝⟩⦄ := by
  have h_init := init_j
  have h_run := runK_j k
  rmvcgen [h_init, h_run]

theorem whole_j (fuel : Nat) :
    ⦃fun s => ⌜PJ s⌝⦄ (do init; run fuel) ⦃post⟨fun _ s => ⌜PJ s⌝, fun _ _ => ⌜True⌝⟩⦄ := by
  have h_init := init_j
  have h_run := run_j fuel
  rmvcgen [h_init, h_run]

/-- **Well-formed initial state for the progress theorems** (decidable): `wf0`, clock 0, and
empty pool-level placement maps. -/
def wfP (s : SimS) : Bool := wf0 s && decide (s.now = 0) && s.pools.all (fun p => p.placed.isEmpty)

theorem pj_initial (s : SimS) (h : wfP s = true) : PJ s := by
  simp only [wfP, Bool.and_eq_true, decide_eq_true_eq] at h
  obtain ⟨⟨hwf, hnow⟩, hpl⟩ := h
  have hap := ap_initial s hwf
  simp only [wf0, Bool.and_eq_true, Bool.not_eq_true', Array.isEmpty_iff, List.isEmpty_iff,
    Option.isNone_iff_eq_none] at hwf
  obtain ⟨⟨⟨⟨⟨⟨⟨⟨⟨hg, hm⟩, hlr⟩, hq⟩, hf⟩, hns⟩, hl⟩, hp⟩, haq⟩, hjq⟩ := hwf
  have hT : ∀ t, taskAt s.graphs t = none := by intro t; simp [taskAt, hg]
  refine ⟨⟨?_, ?_, hap.eids, hap.allQ, hap.tmplQ, ?_⟩, hap, qinv_initial s hq hl hnow, ?_⟩
  · intro t x ht; rw [hT] at ht; cases ht
  · intro t x ht; rw [hT] at ht; cases ht
  · rw [hl]; exact ⟨SF.nil, by intro a ha; simp [pg_skel] at ha⟩
  · intro p hpm
    rw [Array.all_eq_true] at hpl
    obtain ⟨i, hi, rfl⟩ := Array.getElem_of_mem (Array.mem_toList_iff.mp hpm)
    have := hpl i hi
    have he : s.pools[i].placed = [] := List.isEmpty_iff.mp this
    unfold Pool.FwdOK
    rw [he]
    exact ⟨List.nodup_nil, by intro q hq; cases hq⟩

/-- **The loop-head invariant holds after the constructor and any number `k` of completed
iterations of the `simulate()` loop.** -/
theorem loop_head_pj (s0 : SimS) (k : Nat) (h : wfP s0 = true) :
    HoldsAfter (fun _ s => PJ s) (fun _ => True) ((ExceptT.run (do init; runK k : SimM Bool)).run s0) :=
  triple_run (do init; runK k : SimM Bool) _ _ _ (wholeK_j k) s0 (pj_initial s0 h)

/-- … and when `simulate` returns normally. -/
theorem simulate_pj (s0 : SimS) (fuel : Nat) (h : wfP s0 = true) (hok : (simulate s0 fuel).1 = none) :
    PJ (simulate s0 fuel).2 := by
  have := triple_run _ _ _ _ (whole_j fuel) s0 (pj_initial s0 h)
  unfold simulate at hok ⊢
  revert this hok
  cases (StateT.run (ExceptT.run (do init; run fuel)) s0) with
  | mk r s =>
    cases r with
    | ok a => intro _ h; exact h
    | error e => intro hok _; simp at hok

end ErdosVerif.Model.Sim
