/-
C15 helper lemmas, part 3: admission (`add_task`, `Models.add_task`,
`run_admission`) preserves the invariant; cancellation of hopeless requests.
-/
import ErdosVerif.Lemmas.Clockwork

namespace ErdosVerif.Clockwork
open List

/-! ### `bisect.insort` -/

theorem mem_insort {r x : Req} {q : List Req} : x ∈ insort r q ↔ x = r ∨ x ∈ q := by
  induction q with
  | nil => simp [insort]
  | cons y ys ih =>
    unfold insort
    split
    · simp
    · simp only [List.mem_cons, ih]
      constructor
      · rintro (h | h | h)
        · exact Or.inr (Or.inl h)
        · exact Or.inl h
        · exact Or.inr (Or.inr h)
      · rintro (h | h | h)
        · exact Or.inr (Or.inl h)
        · exact Or.inl h
        · exact Or.inr (Or.inr h)

theorem insort_sorted {r : Req} {q : List Req} (h : SortedQ q) : SortedQ (insort r q) := by
  induction q with
  | nil => simp [insort, SortedQ]
  | cons y ys ih =>
    unfold insort
    have hy := List.pairwise_cons.mp h
    split
    · rename_i hlt
      refine List.pairwise_cons.mpr ⟨?_, h⟩
      intro x hx
      rcases List.mem_cons.mp hx with rfl | hx
      · omega
      · have := hy.1 x hx; omega
    · rename_i hlt
      refine List.pairwise_cons.mpr ⟨?_, ih hy.2⟩
      intro x hx
      rcases mem_insort.mp hx with rfl | hx
      · omega
      · exact hy.1 x hx

theorem insort_nodup {r : Req} {q : List Req} (h : NodupQ q) (hr : ∀ x ∈ q, x.tid ≠ r.tid) :
    NodupQ (insort r q) := by
  induction q with
  | nil => simp [insort, NodupQ]
  | cons y ys ih =>
    unfold insort
    have hy := List.pairwise_cons.mp h
    split
    · refine List.pairwise_cons.mpr ⟨?_, h⟩
      intro x hx
      exact fun e => hr x hx e.symm
    · refine List.pairwise_cons.mpr ⟨?_, ih hy.2 (fun x hx => hr x (List.mem_cons_of_mem _ hx))⟩
      intro x hx
      rcases mem_insort.mp hx with rfl | hx
      · exact hr y List.mem_cons_self
      · exact hy.1 x hx

/-! ### `Model.add_task` -/

theorem addTask_mid (s : MState) (tid : Nat) (d : Int) : (s.addTask tid d).mid = s.mid := by
  unfold MState.addTask; split <;> rfl

theorem addTask_taskIds (s : MState) (tid : Nat) (d : Int) :
    ∀ x ∈ taskIds (s.addTask tid d), x ∈ taskIds s ∨ x = tid := by
  unfold MState.addTask; split
  · intro x hx; exact Or.inl hx
  · intro x hx
    simp only [taskIds, List.map_append, List.map_cons, List.map_nil, List.mem_append,
      List.mem_singleton] at hx
    exact hx

theorem MInv.addTask {c : Cfg} {s : MState} (h : MInv c s) {tid : Nat} {t : TaskCfg}
    (ht : c.tasks[tid]? = some t) (hm : t.model = s.mid) : MInv c (s.addTask tid t.deadline) := by
  unfold MState.addTask
  split
  · exact h
  · rename_i hnot
    have hnotin : tid ∉ taskIds s := by
      intro hin
      apply hnot
      obtain ⟨e, he, hte⟩ := List.mem_map.mp hin
      exact List.any_eq_true.mpr ⟨e, he, by simp [hte]⟩
    have hfresh : ∀ q ∈ s.queues, ∀ x ∈ q, x.tid ≠ tid := fun q hq x hx e =>
      hnotin (e ▸ h.qsub q hq x hx)
    have htids : taskIds { s with
        tasks := s.tasks ++ [{ tid := tid, deadline := t.deadline, cnt := (s.queues.length : Int) }],
        queues := s.queues.map (insort { tid := tid, deadline := t.deadline }) } = taskIds s ++ [tid] := by
      simp [taskIds]
    refine ⟨?_, ?_, ?_, ?_, ?_, ?_, ?_⟩
    · intro q' hq'
      obtain ⟨q, hq, rfl⟩ := List.mem_map.mp hq'
      exact insort_sorted (h.qsorted q hq)
    · intro q' hq'
      obtain ⟨q, hq, rfl⟩ := List.mem_map.mp hq'
      exact insort_nodup (h.qnodup q hq) (hfresh q hq)
    · intro q' hq' r hr
      obtain ⟨q, hq, rfl⟩ := List.mem_map.mp hq'
      rw [htids]
      rcases mem_insort.mp hr with rfl | hr
      · simp
      · exact List.mem_append_left _ (h.qsub q hq r hr)
    · rw [htids]
      exact List.nodup_append.mpr ⟨h.tnodup, by simp, fun x hx y hy e => by
        simp only [List.mem_singleton] at hy; subst hy; subst e; exact hnotin hx⟩
    · intro q' hq' r hr
      obtain ⟨q, hq, rfl⟩ := List.mem_map.mp hq'
      rcases mem_insort.mp hr with rfl | hr
      · exact ⟨t, ht, hm, rfl⟩
      · exact h.qcfg q hq r hr
    · intro x hx
      rw [htids] at hx
      rcases List.mem_append.mp hx with hx | hx
      · exact h.tcfg x hx
      · simp only [List.mem_singleton] at hx; subst hx; exact ⟨t, ht, hm⟩
    · simpa using h.qlen

/-! ### `Models.add_model` / `Models.add_task` -/

theorem newModel_inv (c : Cfg) (m : Nat) : MInv c (newModel c m) := by
  refine ⟨?_, ?_, ?_, ?_, ?_, ?_, ?_⟩ <;> simp [newModel, taskIds, SortedQ, NodupQ]
  all_goals
    intros
    subst_vars
    first | exact List.Pairwise.nil | exact List.not_mem_nil | (rename_i hr; cases hr)

theorem addModel_spec {c : Cfg} {st : SState} (h : SInv c st) (m : Nat) :
    SInv c (addModel c st m) ∧ (∀ tid ∈ allTids (addModel c st m), tid ∈ allTids st) ∧
    hasModel (addModel c st m) m = true := by
  unfold addModel
  split
  · rename_i hh; exact ⟨h, fun _ hx => hx, hh⟩
  · rename_i hno
    have hnot : m ∉ st.map (·.mid) := by
      intro hin
      apply hno
      obtain ⟨s, hs, hsm⟩ := List.mem_map.mp hin
      exact List.any_eq_true.mpr ⟨s, hs, by simp [hsm]⟩
    refine ⟨⟨?_, ?_⟩, ?_, ?_⟩
    · intro s hs
      rcases List.mem_append.mp hs with hs | hs
      · exact h.1 s hs
      · simp only [List.mem_singleton] at hs; subst hs; exact newModel_inv c m
    · rw [List.map_append]
      exact List.nodup_append.mpr ⟨h.2, by simp, fun x hx y hy e => by
        simp only [List.map_cons, List.map_nil, List.mem_singleton, newModel] at hy
        subst hy; subst e; exact hnot hx⟩
    · intro tid htid
      obtain ⟨s, hs, ht⟩ := mem_allTids.mp htid
      rcases List.mem_append.mp hs with hs | hs
      · exact mem_allTids.mpr ⟨s, hs, ht⟩
      · simp only [List.mem_singleton] at hs; subst hs; simp [newModel, taskIds] at ht
    · simp [hasModel, newModel]

theorem updModel_addTask_spec {c : Cfg} {st : SState} (h : SInv c st) {tid : Nat} {t : TaskCfg}
    (ht : c.tasks[tid]? = some t) :
    SInv c (updModel st t.model (fun s => s.addTask tid t.deadline)) ∧
    ∀ x ∈ allTids (updModel st t.model (fun s => s.addTask tid t.deadline)), x ∈ allTids st ∨ x = tid := by
  refine ⟨⟨?_, ?_⟩, ?_⟩
  · intro s' hs'
    obtain ⟨s, hs, h1 | h1⟩ := mem_updModel hs'
    · rw [h1.2]; exact (h.1 s hs).addTask ht h1.1.symm
    · rw [h1.2]; exact h.1 s hs
  · have : (updModel st t.model (fun s => s.addTask tid t.deadline)).map (·.mid) = st.map (·.mid) := by
      unfold updModel
      rw [List.map_map]
      apply List.map_congr_left
      intro s _
      simp only [Function.comp]
      split
      · exact addTask_mid s tid t.deadline
      · rfl
    rw [this]; exact h.2
  · intro x hx
    obtain ⟨s', hs', hxs⟩ := mem_allTids.mp hx
    obtain ⟨s, hs, h1 | h1⟩ := mem_updModel hs'
    · rw [h1.2] at hxs
      rcases addTask_taskIds s tid t.deadline x hxs with h2 | h2
      · exact Or.inl (mem_allTids.mpr ⟨s, hs, h2⟩)
      · exact Or.inr h2
    · rw [h1.2] at hxs
      exact Or.inl (mem_allTids.mpr ⟨s, hs, hxs⟩)

/-! ### `run_admission` -/

/-- The request cannot meet its deadline even with the fastest strategy of its model. -/
def Hopeless (c : Cfg) (now : Int) (tid : Nat) : Prop :=
  ∃ t f, c.tasks[tid]? = some t ∧ fastest (c.strategiesOf t.model) = some f ∧ t.deadline < now + f

theorem admitOne_spec {c : Cfg} (now : Int) {st : SState} (h : SInv c st) (tid : Nat) :
    SInv c (admitOne c now st tid).1 ∧
    (∀ x ∈ allTids (admitOne c now st tid).1, x ∈ allTids st ∨ x = tid) ∧
    ((admitOne c now st tid).2.2 = none →
      (Hopeless c now tid → (admitOne c now st tid).2.1 = some tid) ∧
      (∀ x, (admitOne c now st tid).2.1 = some x → x = tid ∧ Hopeless c now tid)) := by
  unfold admitOne
  split
  · exact ⟨h, fun x hx => Or.inl hx, by simp⟩
  · rename_i t ht
    split
    · exact ⟨h, fun x hx => Or.inl hx, by simp⟩
    · rename_i f hf
      split
      · rename_i hlt
        refine ⟨h, fun x hx => Or.inl hx, fun _ => ⟨fun _ => rfl, ?_⟩⟩
        intro x hx
        simp only [Option.some.injEq] at hx
        exact ⟨hx.symm, t, f, ht, hf, hlt⟩
      · rename_i hge
        have hnh : ¬ Hopeless c now tid := by
          rintro ⟨t', f', e1, e2, e3⟩
          rw [ht] at e1; cases e1
          rw [hf] at e2; cases e2
          exact hge e3
        have ham := addModel_spec h t.model
        simp only []
        split
        · exact ⟨ham.1, fun x hx => Or.inl (ham.2.1 x hx), fun _ => ⟨fun hh => absurd hh hnh, by simp⟩⟩
        · split
          · exact ⟨ham.1, fun x hx => Or.inl (ham.2.1 x hx), by simp⟩
          · have hu := updModel_addTask_spec ham.1 ht
            refine ⟨hu.1, ?_, fun _ => ⟨fun hh => absurd hh hnh, by simp⟩⟩
            intro x hx
            rcases hu.2 x hx with h1 | h1
            · exact Or.inl (ham.2.1 x h1)
            · exact Or.inr h1

theorem admitAll_spec {c : Cfg} (now : Int) (offered : List Nat) {st : SState} (h : SInv c st) :
    SInv c (admitAll c now st offered).1 ∧
    (∀ x ∈ allTids (admitAll c now st offered).1, x ∈ allTids st ∨ x ∈ offered) ∧
    ((admitAll c now st offered).2.2 = none →
      (∀ tid ∈ offered, Hopeless c now tid → tid ∈ (admitAll c now st offered).2.1) ∧
      (∀ x ∈ (admitAll c now st offered).2.1, x ∈ offered ∧ Hopeless c now x)) := by
  induction offered generalizing st with
  | nil => exact ⟨h, fun x hx => Or.inl hx, by simp [admitAll]⟩
  | cons tid rest ih =>
    have h1 := admitOne_spec now h tid
    unfold admitAll
    split
    · rename_i st1 cn e heq
      rw [heq] at h1
      refine ⟨h1.1, ?_, by simp⟩
      intro x hx
      rcases h1.2.1 x hx with h2 | h2
      · exact Or.inl h2
      · exact Or.inr (h2 ▸ List.mem_cons_self)
    · rename_i st1 cn heq
      rw [heq] at h1
      simp only [] at h1 ⊢
      have hr := ih h1.1
      refine ⟨hr.1, ?_, ?_⟩
      · intro x hx
        rcases hr.2.1 x hx with h2 | h2
        · rcases h1.2.1 x h2 with h3 | h3
          · exact Or.inl h3
          · exact Or.inr (h3 ▸ List.mem_cons_self)
        · exact Or.inr (List.mem_cons_of_mem _ h2)
      · intro hnone
        have h1c := h1.2.2 trivial
        have hrc := hr.2.2 hnone
        refine ⟨?_, ?_⟩
        · intro t' ht' hh
          rcases List.mem_cons.mp ht' with rfl | ht'
          · have := h1c.1 hh
            simp [this]
          · exact List.mem_append_right _ (hrc.1 t' ht' hh)
        · intro x hx
          rcases List.mem_append.mp hx with hx | hx
          · cases cn with
            | none => simp at hx
            | some y =>
              simp only [List.mem_singleton] at hx
              subst hx
              obtain ⟨e1, e2⟩ := h1c.2 x rfl
              subst e1
              exact ⟨List.mem_cons_self, e2⟩
          · exact ⟨List.mem_cons_of_mem _ (hrc.2 x hx).1, (hrc.2 x hx).2⟩

theorem fastest_le {l : List Strategy} {f : Int} (h : fastest l = some f) :
    ∀ s ∈ l, f ≤ s.runtime := by
  cases l with
  | nil => simp [fastest] at h
  | cons a as =>
    simp only [fastest, Option.some.injEq] at h
    subst h
    -- the fold computes a lower bound of the accumulator and of every element
    have key : ∀ (xs : List Strategy) (acc : Int),
        xs.foldl (fun acc x => if x.runtime < acc then x.runtime else acc) acc ≤ acc ∧
        ∀ s ∈ xs, xs.foldl (fun acc x => if x.runtime < acc then x.runtime else acc) acc ≤ s.runtime := by
      intro xs
      induction xs with
      | nil => intro acc; simp
      | cons x xs ih =>
        intro acc
        simp only [List.foldl_cons]
        have h1 := ih (if x.runtime < acc then x.runtime else acc)
        refine ⟨?_, ?_⟩
        · have := h1.1; split at this <;> omega
        · intro s hs
          rcases List.mem_cons.mp hs with rfl | hs
          · have := h1.1; split at this <;> omega
          · exact h1.2 s hs
    intro s hs
    rcases List.mem_cons.mp hs with rfl | hs
    · exact (key as s.runtime).1
    · exact (key as a.runtime).2 s hs

end ErdosVerif.Clockwork
