/-
Helper lemmas for C15 (Clockwork model): the CPython sort is a permutation,
per-model queue invariants and their preservation by every queue operation.
-/
import ErdosVerif.Model.Clockwork

namespace ErdosVerif.Clockwork
open List

/-! ### `pySort` is a permutation of its input -/

theorem binInsert_perm {α} (lt : α → α → Bool) (l : List α) (x : α) :
    (binInsert lt l x).Perm (x :: l) := by
  unfold binInsert
  simp only []
  have h := List.take_append_drop (bsearch lt l x (l.length + 1) 0 l.length) l
  calc _ ~ x :: (l.take _ ++ l.drop _) := List.perm_middle
    _ = x :: l := by rw [h]

theorem foldl_binInsert_perm {α} (lt : α → α → Bool) (xs acc : List α) :
    (xs.foldl (binInsert lt) acc).Perm (acc ++ xs) := by
  induction xs generalizing acc with
  | nil => simp
  | cons x xs ih =>
    simp only [List.foldl_cons]
    refine (ih _).trans ?_
    have := binInsert_perm lt acc x
    calc binInsert lt acc x ++ xs ~ (x :: acc) ++ xs := this.append_right xs
      _ ~ acc ++ x :: xs := by simpa using (List.perm_middle (l₁ := acc) (l₂ := xs) (a := x)).symm

theorem pySort_perm {α} (lt : α → α → Bool) (l : List α) : (pySort lt l).Perm l := by
  match l with
  | [] => simp [pySort]
  | [x] => simp [pySort]
  | x :: y :: rest =>
    simp only [pySort]
    split
    · refine (foldl_binInsert_perm lt _ _).trans ?_
      have h1 : ((x :: y :: rest.take (runDesc lt y rest)).reverse).Perm
          (x :: y :: rest.take (runDesc lt y rest)) := List.reverse_perm _
      refine (h1.append_right _).trans ?_
      simp [List.take_append_drop]
    · refine (foldl_binInsert_perm lt _ _).trans ?_
      simp [List.take_append_drop]

theorem mem_pySort {α} (lt : α → α → Bool) (l : List α) (x : α) : x ∈ pySort lt l ↔ x ∈ l :=
  (pySort_perm lt l).mem_iff

end ErdosVerif.Clockwork

namespace ErdosVerif.Clockwork
open List

/-! ### Per-model invariant -/

def SortedQ (q : List Req) : Prop := q.Pairwise (fun a b => a.deadline ≤ b.deadline)
def NodupQ (q : List Req) : Prop := q.Pairwise (fun a b => a.tid ≠ b.tid)
def taskIds (s : MState) : List Nat := s.tasks.map (·.tid)

structure MInv (c : Cfg) (s : MState) : Prop where
  qsorted : ∀ q ∈ s.queues, SortedQ q
  qnodup : ∀ q ∈ s.queues, NodupQ q
  qsub : ∀ q ∈ s.queues, ∀ r ∈ q, r.tid ∈ taskIds s
  tnodup : (taskIds s).Nodup
  qcfg : ∀ q ∈ s.queues, ∀ r ∈ q, ∃ t, c.tasks[r.tid]? = some t ∧ t.model = s.mid ∧ t.deadline = r.deadline
  tcfg : ∀ tid ∈ taskIds s, ∃ t, c.tasks[tid]? = some t ∧ t.model = s.mid
  qlen : s.queues.length = (c.strategiesOf s.mid).length

/-- Every operation except `add_task` only shrinks the queues and the task table. -/
theorem MInv.shrink {c : Cfg} {s s' : MState} (h : MInv c s) (hmid : s'.mid = s.mid)
    (hlen : s'.queues.length = s.queues.length)
    (hq : ∀ q' ∈ s'.queues, ∃ q ∈ s.queues, q'.Sublist q)
    (ht : (taskIds s').Sublist (taskIds s))
    (hsub : ∀ q ∈ s'.queues, ∀ r ∈ q, r.tid ∈ taskIds s') : MInv c s' where
  qsorted := fun q' hq' => by
    obtain ⟨q, hqm, hs⟩ := hq q' hq'
    exact (h.qsorted q hqm).sublist hs
  qnodup := fun q' hq' => by
    obtain ⟨q, hqm, hs⟩ := hq q' hq'
    exact (h.qnodup q hqm).sublist hs
  qsub := hsub
  tnodup := h.tnodup.sublist ht
  qcfg := fun q' hq' r hr => by
    obtain ⟨q, hqm, hs⟩ := hq q' hq'
    rw [hmid]
    exact h.qcfg q hqm r (hs.subset hr)
  tcfg := fun tid htid => by
    rw [hmid]
    exact h.tcfg tid (ht.subset htid)
  qlen := by rw [hlen, hmid]; exact h.qlen

/-! ### `remove_task` -/

theorem removeTid_sublist (tid : Nat) (q : List Req) : (removeTid tid q).Sublist q :=
  List.eraseP_sublist

theorem removeTid_ne {tid : Nat} {q : List Req} (hn : NodupQ q) {r : Req}
    (hr : r ∈ removeTid tid q) : r.tid ≠ tid := by
  induction q with
  | nil => simp [removeTid] at hr
  | cons x xs ih =>
    unfold removeTid at hr
    have hx := List.pairwise_cons.mp hn
    by_cases hxt : x.tid = tid
    · rw [List.eraseP_cons_of_pos (by simpa using hxt)] at hr
      have := hx.1 r hr
      omega
    · rw [List.eraseP_cons_of_neg (by simpa using hxt)] at hr
      rcases List.mem_cons.mp hr with h | h
      · subst h; exact hxt
      · exact ih hx.2 h

theorem taskIds_eraseP_sublist (tid : Nat) (l : List TEntry) :
    ((l.eraseP (fun e => e.tid == tid)).map (·.tid)).Sublist (l.map (·.tid)) :=
  (List.eraseP_sublist).map _

theorem not_mem_eraseP_tid {tid : Nat} {l : List TEntry} (hn : (l.map (·.tid)).Nodup) :
    tid ∉ (l.eraseP (fun e => e.tid == tid)).map (·.tid) := by
  induction l with
  | nil => simp
  | cons x xs ih =>
    simp only [List.map_cons, List.nodup_cons] at hn
    by_cases hxt : x.tid = tid
    · rw [List.eraseP_cons_of_pos (by simpa using hxt)]
      rw [← hxt]; exact hn.1
    · rw [List.eraseP_cons_of_neg (by simpa using hxt)]
      simp only [List.map_cons, List.mem_cons, not_or]
      exact ⟨fun h => hxt h.symm, ih hn.2⟩

theorem mem_eraseP_tid_of_ne {tid t : Nat} {l : List TEntry} (hne : t ≠ tid)
    (h : t ∈ l.map (·.tid)) : t ∈ (l.eraseP (fun e => e.tid == tid)).map (·.tid) := by
  obtain ⟨e, he, rfl⟩ := List.mem_map.mp h
  refine List.mem_map.mpr ⟨e, ?_, rfl⟩
  exact (List.mem_eraseP_of_neg (by simpa using hne)).mpr he

theorem removeTask_mid (s : MState) (tid : Nat) : (s.removeTask tid).mid = s.mid := by
  unfold MState.removeTask; split <;> rfl

theorem removeTask_taskIds_sublist (s : MState) (tid : Nat) :
    (taskIds (s.removeTask tid)).Sublist (taskIds s) := by
  unfold MState.removeTask; split
  · exact taskIds_eraseP_sublist tid s.tasks
  · exact List.Sublist.refl _

theorem removeTask_not_mem {s : MState} (hn : (taskIds s).Nodup) (tid : Nat) :
    tid ∉ taskIds (s.removeTask tid) := by
  unfold MState.removeTask; split
  · exact not_mem_eraseP_tid hn
  · rename_i h
    intro hm
    apply h
    obtain ⟨e, he, hte⟩ := List.mem_map.mp hm
    exact List.any_eq_true.mpr ⟨e, he, by simp [hte]⟩

theorem removeTask_queues (s : MState) (tid : Nat) :
    ∀ q' ∈ (s.removeTask tid).queues, ∃ q ∈ s.queues, q'.Sublist q := by
  unfold MState.removeTask; split
  · intro q' hq'
    obtain ⟨q, hq, rfl⟩ := List.mem_map.mp hq'
    exact ⟨q, hq, removeTid_sublist tid q⟩
  · intro q' hq'; exact ⟨q', hq', List.Sublist.refl _⟩

theorem removeTask_queues_length (s : MState) (tid : Nat) :
    (s.removeTask tid).queues.length = s.queues.length := by
  unfold MState.removeTask; split <;> simp

theorem MInv.removeTask {c : Cfg} {s : MState} (h : MInv c s) (tid : Nat) :
    MInv c (s.removeTask tid) := by
  refine h.shrink (removeTask_mid s tid) (removeTask_queues_length s tid) (removeTask_queues s tid)
    (removeTask_taskIds_sublist s tid) ?_
  unfold MState.removeTask; split
  · intro q' hq' r hr
    obtain ⟨q, hq, rfl⟩ := List.mem_map.mp hq'
    have hne := removeTid_ne (h.qnodup q hq) hr
    have hin := h.qsub q hq r ((removeTid_sublist tid q).subset hr)
    exact mem_eraseP_tid_of_ne hne hin
  · exact h.qsub

end ErdosVerif.Clockwork

namespace ErdosVerif.Clockwork
open List

/-! ### Expiry -/

theorem decrCnt_tids (tid : Nat) (l : List TEntry) : (decrCnt tid l).map (·.tid) = l.map (·.tid) := by
  unfold decrCnt
  rw [List.map_map]
  apply List.map_congr_left
  intro e _
  simp only [Function.comp]
  split <;> rfl

/-- Post-condition shared by all shrinking operations. -/
def Shrunk (c : Cfg) (s s' : MState) : Prop :=
  MInv c s' ∧ s'.mid = s.mid ∧ (taskIds s').Sublist (taskIds s)

theorem Shrunk.refl {c : Cfg} {s : MState} (h : MInv c s) : Shrunk c s s :=
  ⟨h, rfl, List.Sublist.refl _⟩

theorem Shrunk.trans {c : Cfg} {s s' s'' : MState} (h1 : Shrunk c s s') (h2 : Shrunk c s' s'') :
    Shrunk c s s'' :=
  ⟨h2.1, h2.2.1.trans h1.2.1, h2.2.2.trans h1.2.2⟩

theorem removeTask_shrunk {c : Cfg} {s : MState} (h : MInv c s) (tid : Nat) :
    Shrunk c s (s.removeTask tid) :=
  ⟨h.removeTask tid, removeTask_mid s tid, removeTask_taskIds_sublist s tid⟩

theorem popExpired_shrunk {c : Cfg} {s : MState} (h : MInv c s) {i : Nat} {r : Req} {rest : List Req}
    (hi : s.queues[i]? = some (r :: rest)) : Shrunk c s (s.popExpired i r rest) := by
  have hmem : (r :: rest) ∈ s.queues := List.mem_of_getElem? hi
  let s1 : MState := { s with queues := s.queues.set i rest, tasks := decrCnt r.tid s.tasks }
  have ht1 : taskIds s1 = taskIds s := decrCnt_tids r.tid s.tasks
  have h1 : MInv c s1 := by
    refine h.shrink rfl (by simp [s1]) ?_ (by rw [ht1]; exact List.Sublist.refl _) ?_
    · intro q' hq'
      rcases List.mem_or_eq_of_mem_set hq' with hq | hq
      · exact ⟨q', hq, List.Sublist.refl _⟩
      · exact ⟨r :: rest, hmem, hq ▸ List.sublist_cons_self r rest⟩
    · intro q' hq' r' hr'
      rw [ht1]
      rcases List.mem_or_eq_of_mem_set hq' with hq | hq
      · exact h.qsub q' hq r' hr'
      · exact h.qsub _ hmem r' (List.mem_cons_of_mem _ (hq ▸ hr'))
  have hs1 : Shrunk c s s1 := ⟨h1, rfl, by rw [ht1]; exact List.Sublist.refl _⟩
  unfold MState.popExpired
  simp only []
  split
  · exact hs1.trans (removeTask_shrunk h1 r.tid)
  · exact hs1

theorem expireLoop_shrunk {c : Cfg} (now rt : Int) (i : Nat) (fuel : Nat) {s : MState} (h : MInv c s) :
    Shrunk c s (expireLoop now rt i fuel s) := by
  induction fuel generalizing s with
  | zero => exact Shrunk.refl h
  | succ n ih =>
    unfold expireLoop
    split
    · rename_i r rest hi
      split
      · have hp := popExpired_shrunk h hi
        exact hp.trans (ih hp.1)
      · exact Shrunk.refl h
    · exact Shrunk.refl h

theorem expireFrom_shrunk {c : Cfg} (now : Int) (i : Nat) (strats : List Strategy) {s : MState}
    (h : MInv c s) : Shrunk c s (expireFrom now i strats s) := by
  induction strats generalizing s i with
  | nil => exact Shrunk.refl h
  | cons st sts ih =>
    unfold expireFrom
    have h1 := expireLoop_shrunk (c := c) now st.runtime i ((s.queues.getD i []).length) h
    exact h1.trans (ih (i + 1) h1.1)

theorem expire_shrunk {c : Cfg} (now : Int) (strats : List Strategy) {s : MState} (h : MInv c s) :
    Shrunk c s (s.expire now strats) := expireFrom_shrunk now 0 strats h

/-! ### `get_placements` -/

theorem foldl_removeTask_shrunk {c : Cfg} (tids : List Nat) {s : MState} (h : MInv c s) :
    Shrunk c s (tids.foldl (fun acc t => acc.removeTask t) s) := by
  induction tids generalizing s with
  | nil => exact Shrunk.refl h
  | cons t ts ih =>
    simp only [List.foldl_cons]
    have h1 := removeTask_shrunk h t
    exact h1.trans (ih h1.1)

theorem foldl_removeTask_not_mem {c : Cfg} (tids : List Nat) {s : MState} (h : MInv c s) :
    ∀ t ∈ tids, t ∉ taskIds (tids.foldl (fun acc t => acc.removeTask t) s) := by
  induction tids generalizing s with
  | nil => simp
  | cons t ts ih =>
    intro t' ht'
    simp only [List.foldl_cons]
    have h1 := removeTask_shrunk h t
    rcases List.mem_cons.mp ht' with rfl | hts
    · intro hm
      have := (foldl_removeTask_shrunk ts h1.1).2.2.subset hm
      exact removeTask_not_mem h.tnodup _ this
    · exact ih h1.1 t' hts

end ErdosVerif.Clockwork

namespace ErdosVerif.Clockwork
open List

/-! ### Available strategies are available -/

theorem candsFrom_sound {now : Int} {k : Nat} {strats : List Strategy} {queues : List (List Req)}
    {cd : Cand} (h : cd ∈ candsFrom now k strats queues) :
    ∃ j r rest, cd.idx = k + j ∧ strats[j]? = some cd.strat ∧ queues[j]? = some (r :: rest) ∧
      cd.strat.batch ≤ (r :: rest).length ∧ now + cd.strat.runtime ≤ r.deadline := by
  induction strats generalizing k queues with
  | nil => simp [candsFrom] at h
  | cons st sts ih =>
    cases queues with
    | nil => simp [candsFrom] at h
    | cons q qs =>
      have shift : cd ∈ candsFrom now (k + 1) sts qs →
          ∃ j r rest, cd.idx = k + j ∧ (st :: sts)[j]? = some cd.strat ∧
            (q :: qs)[j]? = some (r :: rest) ∧ cd.strat.batch ≤ (r :: rest).length ∧
            now + cd.strat.runtime ≤ r.deadline := by
        intro h'
        obtain ⟨j, r, rest, h1, h2, h3, h4, h5⟩ := ih h'
        exact ⟨j + 1, r, rest, by omega, by simpa using h2, by simpa using h3, h4, h5⟩
      cases q with
      | nil =>
        simp only [candsFrom] at h
        exact shift h
      | cons r rest =>
        simp only [candsFrom] at h
        split at h
        · rename_i hc
          rcases List.mem_cons.mp h with rfl | h'
          · simp only [Bool.and_eq_true, decide_eq_true_eq] at hc
            exact ⟨0, r, rest, by simp, by simp, by simp, hc.1, hc.2⟩
          · exact shift h'
        · exact shift h

theorem availableStrats_sound {now : Int} {strats : List Strategy} {s : MState} {i : Nat}
    (h : i ∈ availableStrats now strats s) :
    ∃ st r rest, strats[i]? = some st ∧ s.queues[i]? = some (r :: rest) ∧
      st.batch ≤ (r :: rest).length ∧ now + st.runtime ≤ r.deadline := by
  unfold availableStrats at h
  split at h
  · simp at h
  · obtain ⟨cd, hcd, rfl⟩ := List.mem_map.mp h
    rw [mem_pySort] at hcd
    obtain ⟨j, r, rest, h1, h2, h3, h4, h5⟩ := candsFrom_sound hcd
    have : cd.idx = j := by omega
    exact ⟨cd.strat, r, rest, this ▸ h2, this ▸ h3, h4, h5⟩

/-! ### `get_placements` -/

theorem sorted_head_le {r : Req} {rest : List Req} (hs : SortedQ (r :: rest)) :
    ∀ x ∈ r :: rest, r.deadline ≤ x.deadline := by
  intro x hx
  rcases List.mem_cons.mp hx with rfl | hx
  · exact Int.le_refl _
  · exact (List.pairwise_cons.mp hs).1 x hx

theorem takeBatch_spec {c : Cfg} {s : MState} (h : MInv c s) {i batch : Nat} {now rt : Int}
    {r : Req} {rest : List Req} (hi : s.queues[i]? = some (r :: rest))
    (hb : batch ≤ (r :: rest).length) (hd : now + rt ≤ r.deadline) :
    ∃ tids s', s.takeBatch i batch = some (tids, s') ∧ tids.length = batch ∧ tids.Nodup ∧
      (∀ tid ∈ tids, tid ∈ taskIds s ∧
        ∃ t, c.tasks[tid]? = some t ∧ t.model = s.mid ∧ now + rt ≤ t.deadline) ∧
      Shrunk c s s' ∧ ∀ tid ∈ tids, tid ∉ taskIds s' := by
  have hmem : (r :: rest) ∈ s.queues := List.mem_of_getElem? hi
  have hget : s.queues.getD i [] = r :: rest := by
    rw [List.getD_eq_getElem?_getD, hi]; rfl
  unfold MState.takeBatch
  simp only [hget]
  rw [if_neg (by omega)]
  refine ⟨_, _, rfl, ?_, ?_, ?_, foldl_removeTask_shrunk _ h, foldl_removeTask_not_mem _ h⟩
  · simp only [List.length_map, List.length_take]; omega
  · have hn := h.qnodup _ hmem
    have : ((r :: rest).map (·.tid)).Nodup := by
      unfold NodupQ at hn
      exact (List.pairwise_map).mpr hn
    exact (this.sublist ((List.take_sublist _ _).map _))
  · intro tid htid
    obtain ⟨x, hx, rfl⟩ := List.mem_map.mp htid
    have hx' : x ∈ r :: rest := List.mem_of_mem_take hx
    refine ⟨h.qsub _ hmem x hx', ?_⟩
    obtain ⟨t, ht1, ht2, ht3⟩ := h.qcfg _ hmem x hx'
    refine ⟨t, ht1, ht2, ?_⟩
    have := sorted_head_le (h.qsorted _ hmem) x hx'
    omega

end ErdosVerif.Clockwork

namespace ErdosVerif.Clockwork
open List

/-! ### Scheduler-level invariant -/

def SInv (c : Cfg) (st : SState) : Prop := (∀ s ∈ st, MInv c s) ∧ (st.map (·.mid)).Nodup

def allTids (st : SState) : List Nat := st.flatMap taskIds

theorem mem_allTids {st : SState} {tid : Nat} : tid ∈ allTids st ↔ ∃ s ∈ st, tid ∈ taskIds s := by
  unfold allTids; exact List.mem_flatMap

theorem getModel_mem {st : SState} {m : Nat} {ms : MState} (h : getModel st m = some ms) :
    ms ∈ st ∧ ms.mid = m := by
  unfold getModel at h
  exact ⟨List.mem_of_find?_eq_some h, by simpa using List.find?_some h⟩

theorem getModel_of_mem {st : SState} (hn : (st.map (·.mid)).Nodup) {s : MState} (hs : s ∈ st) :
    getModel st s.mid = some s := by
  induction st with
  | nil => cases hs
  | cons x xs ih =>
    simp only [List.map_cons, List.nodup_cons] at hn
    unfold getModel
    rcases List.mem_cons.mp hs with rfl | hxs
    · simp
    · have hne : x.mid ≠ s.mid := fun he => hn.1 (he ▸ List.mem_map_of_mem hxs)
      rw [List.find?_cons_of_neg (by simpa using hne)]
      exact ih hn.2 hxs

theorem updModel_mids {st : SState} {m : Nat} {ms2 : MState} (hm : ms2.mid = m) :
    (updModel st m (fun _ => ms2)).map (·.mid) = st.map (·.mid) := by
  unfold updModel
  rw [List.map_map]
  apply List.map_congr_left
  intro s _
  simp only [Function.comp]
  split
  · rename_i h; rw [hm]; exact (by simpa using h : s.mid = m).symm
  · rfl

theorem mem_updModel {st : SState} {m : Nat} {f : MState → MState} {s' : MState}
    (h : s' ∈ updModel st m f) : ∃ s ∈ st, (s.mid = m ∧ s' = f s) ∨ (s.mid ≠ m ∧ s' = s) := by
  unfold updModel at h
  obtain ⟨s, hs, rfl⟩ := List.mem_map.mp h
  refine ⟨s, hs, ?_⟩
  by_cases hm : s.mid = m
  · left; exact ⟨hm, by simp [hm]⟩
  · right; exact ⟨hm, by simp [hm]⟩

theorem getModel_updModel_other {st : SState} {m m' : Nat} {ms2 : MState} (hm : ms2.mid = m)
    (hne : m' ≠ m) : getModel (updModel st m (fun _ => ms2)) m' = getModel st m' := by
  unfold getModel updModel
  induction st with
  | nil => rfl
  | cons x xs ih =>
    simp only [List.map_cons]
    by_cases hx : x.mid = m
    · have h1 : ¬ (x.mid = m') := fun h => hne (h ▸ hx)
      simp only [hx, beq_self_eq_true, if_true]
      rw [List.find?_cons_of_neg (by simpa [hm] using hne.symm),
          List.find?_cons_of_neg (by simpa using h1)]
      exact ih
    · simp only [show (x.mid == m) = false by simpa using hx]
      by_cases hx' : x.mid = m'
      · simp [hx']
      · simp only [Bool.false_eq_true, if_false]
        rw [List.find?_cons_of_neg (by simpa using hx'), List.find?_cons_of_neg (by simpa using hx')]
        exact ih

theorem getModel_updModel_self {st : SState} {m : Nat} {ms ms2 : MState} (hm : ms2.mid = m)
    (hg : getModel st m = some ms) : getModel (updModel st m (fun _ => ms2)) m = some ms2 := by
  unfold getModel updModel at *
  induction st with
  | nil => simp at hg
  | cons x xs ih =>
    simp only [List.map_cons]
    by_cases hx : x.mid = m
    · simp [hx, hm]
    · simp only [show (x.mid == m) = false by simpa using hx, Bool.false_eq_true, if_false]
      rw [List.find?_cons_of_neg (by simpa using hx)] at hg ⊢
      exact ih hg

/-- Replacing model `m` by a shrunk version keeps the invariant and only removes task ids. -/
theorem updModel_shrunk {c : Cfg} {st : SState} (h : SInv c st) {m : Nat} {ms ms2 : MState}
    (hg : getModel st m = some ms) (hs : Shrunk c ms ms2) :
    SInv c (updModel st m (fun _ => ms2)) ∧
    (∀ tid ∈ allTids (updModel st m (fun _ => ms2)), tid ∈ allTids st) := by
  have hm2 : ms2.mid = m := hs.2.1.trans (getModel_mem hg).2
  refine ⟨⟨?_, ?_⟩, ?_⟩
  · intro s' hs'
    obtain ⟨s, hsm, h1 | h1⟩ := mem_updModel hs'
    · rw [h1.2]; exact hs.1
    · rw [h1.2]; exact h.1 s hsm
  · rw [updModel_mids hm2]; exact h.2
  · intro tid htid
    obtain ⟨s', hs', ht⟩ := mem_allTids.mp htid
    obtain ⟨s, hsm, h1 | h1⟩ := mem_updModel hs'
    · rw [h1.2] at ht
      exact mem_allTids.mpr ⟨ms, (getModel_mem hg).1, hs.2.2.subset ht⟩
    · rw [h1.2] at ht
      exact mem_allTids.mpr ⟨s, hsm, ht⟩

/-- Task ids of different models never coincide (each id names one task of the table). -/
theorem tid_model_unique {c : Cfg} {s1 s2 : MState} (h1 : MInv c s1) (h2 : MInv c s2) {tid : Nat}
    (ht1 : tid ∈ taskIds s1) (ht2 : tid ∈ taskIds s2) : s1.mid = s2.mid := by
  obtain ⟨t1, e1, m1⟩ := h1.tcfg tid ht1
  obtain ⟨t2, e2, m2⟩ := h2.tcfg tid ht2
  rw [e1] at e2
  cases e2
  omega

end ErdosVerif.Clockwork
