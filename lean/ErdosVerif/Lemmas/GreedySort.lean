import ErdosVerif.Model.Greedy
/-!
`sortBy` (the model of Python's `sorted`) is a stable sort: a sorted permutation in which
elements that are not strictly ordered keep their relative order; it commutes with `filter`.
The three priority comparisons are strict weak orders.  Core Lean only.
-/
namespace ErdosVerif.Model.Greedy

/-- A strict weak order given as a Boolean `<`. `a ≤ b` is `lt b a = false`. -/
structure StrictWeak {α} (lt : α → α → Bool) : Prop where
  asymm : ∀ a b, lt a b = true → lt b a = false
  negTrans : ∀ a b c, lt b a = false → lt c b = false → lt c a = false

theorem StrictWeak.irrefl {α} {lt : α → α → Bool} (h : StrictWeak lt) (a : α) : lt a a = false := by
  cases e : lt a a with
  | false => rfl
  | true => have := h.asymm a a e; rw [e] at this; exact this

/-- Sorted: no later element is strictly smaller than an earlier one. -/
def SortedBy {α} (lt : α → α → Bool) (l : List α) : Prop := l.Pairwise (fun a b => lt b a = false)

variable {α : Type} {lt : α → α → Bool}

theorem mem_insertBy (x a : α) (l : List α) : a ∈ insertBy lt x l ↔ a = x ∨ a ∈ l := by
  induction l with
  | nil => simp [insertBy]
  | cons y ys ih =>
    simp only [insertBy]
    split
    · simp only [List.mem_cons, ih]
      constructor
      · rintro (h | h | h)
        · exact .inr (.inl h)
        · exact .inl h
        · exact .inr (.inr h)
      · rintro (h | h | h)
        · exact .inr (.inl h)
        · exact .inl h
        · exact .inr (.inr h)
    · simp only [List.mem_cons]

theorem insertBy_perm (x : α) (l : List α) : (insertBy lt x l).Perm (x :: l) := by
  induction l with
  | nil => exact List.Perm.refl _
  | cons y ys ih =>
    simp only [insertBy]
    split
    · exact ((List.Perm.cons y ih).trans (List.Perm.swap x y ys))
    · exact List.Perm.refl _

theorem sortBy_perm (l : List α) : (sortBy lt l).Perm l := by
  induction l with
  | nil => exact List.Perm.refl _
  | cons x xs ih => exact (insertBy_perm x _).trans (List.Perm.cons x ih)

theorem mem_sortBy (a : α) (l : List α) : a ∈ sortBy lt l ↔ a ∈ l := (sortBy_perm l).mem_iff

theorem length_sortBy (l : List α) : (sortBy lt l).length = l.length := (sortBy_perm l).length_eq

theorem insertBy_sorted (h : StrictWeak lt) (x : α) (l : List α) (hs : SortedBy lt l) :
    SortedBy lt (insertBy lt x l) := by
  induction l with
  | nil => simp [insertBy, SortedBy]
  | cons y ys ih =>
    have hy : ∀ z ∈ ys, lt z y = false := (List.pairwise_cons.mp hs).1
    have hys : SortedBy lt ys := (List.pairwise_cons.mp hs).2
    simp only [insertBy]
    split
    · rename_i hlt
      refine List.pairwise_cons.mpr ⟨?_, ih hys⟩
      intro z hz
      rcases (mem_insertBy x z ys).mp hz with rfl | hz
      · exact h.asymm _ _ hlt
      · exact hy z hz
    · rename_i hlt
      have hlt : lt y x = false := by simpa using hlt
      refine List.pairwise_cons.mpr ⟨?_, hs⟩
      intro z hz
      rcases List.mem_cons.mp hz with rfl | hz
      · exact hlt
      · exact h.negTrans x y z hlt (hy z hz)

theorem sortBy_sorted (h : StrictWeak lt) (l : List α) : SortedBy lt (sortBy lt l) := by
  induction l with
  | nil => simp [sortBy, SortedBy]
  | cons x xs ih => exact insertBy_sorted h x _ ih

theorem sublist_insertBy (x : α) (l : List α) : l.Sublist (insertBy lt x l) := by
  induction l with
  | nil => simp [insertBy]
  | cons y ys ih =>
    simp only [insertBy]
    split
    · exact List.Sublist.cons_cons y ih
    · exact List.Sublist.cons x (List.Sublist.refl _)

/-- `x` followed by elements none of which is strictly smaller stays in front of them. -/
theorem cons_sublist_insertBy (x : α) (c l : List α) (hc : ∀ z ∈ c, lt z x = false)
    (hsub : c.Sublist l) : (x :: c).Sublist (insertBy lt x l) := by
  induction l generalizing c with
  | nil =>
    have : c = [] := List.sublist_nil.mp hsub
    subst this
    simp [insertBy]
  | cons y ys ih =>
    simp only [insertBy]
    split
    · rename_i hlt
      cases hsub with
      | cons _ h' => exact List.Sublist.cons y (ih c hc h')
      | cons_cons _ h' =>
        have := hc y (List.mem_cons_self ..)
        rw [hlt] at this
        exact absurd this (by simp)
    · exact List.Sublist.cons_cons x hsub

/-- **Stability**: a sub-sequence of the input in which no later element is strictly smaller
than an earlier one appears, in the same order, in the output. In particular two tasks with
equal keys keep the order in which they were offered. -/
theorem sortBy_stable (c l : List α) (hsub : c.Sublist l) (hc : SortedBy lt c) :
    c.Sublist (sortBy lt l) := by
  induction l generalizing c with
  | nil => simpa [sortBy] using hsub
  | cons x xs ih =>
    simp only [sortBy]
    cases hsub with
    | cons _ h' => exact (ih c h' hc).trans (sublist_insertBy x _)
    | cons_cons _ h' =>
      rename_i c'
      have hp := List.pairwise_cons.mp hc
      exact cons_sublist_insertBy x c' _ hp.1 (ih c' h' hp.2)

/-! ### `sorted` commutes with `filter` -/

theorem insertBy_head (x : α) (l : List α) (h : ∀ z ∈ l.head?, lt z x = false) :
    insertBy lt x l = x :: l := by
  cases l with
  | nil => rfl
  | cons y ys =>
    have := h y (by simp)
    simp [insertBy, this]

theorem filter_insertBy_neg (p : α → Bool) (x : α) (l : List α) (hx : p x = false) :
    (insertBy lt x l).filter p = l.filter p := by
  induction l with
  | nil => simp [insertBy, hx]
  | cons y ys ih =>
    simp only [insertBy]
    split
    · simp only [List.filter_cons, ih]
    · simp only [List.filter_cons, hx]
      simp

theorem filter_insertBy_pos (h : StrictWeak lt) (p : α → Bool) (x : α) (l : List α) (hx : p x = true)
    (hs : SortedBy lt l) : (insertBy lt x l).filter p = insertBy lt x (l.filter p) := by
  induction l with
  | nil => simp [insertBy, hx]
  | cons y ys ih =>
    have hy : ∀ z ∈ ys, lt z y = false := (List.pairwise_cons.mp hs).1
    have hys : SortedBy lt ys := (List.pairwise_cons.mp hs).2
    simp only [insertBy]
    split
    · rename_i hlt
      by_cases hpy : p y = true
      · simp only [List.filter_cons, hpy, if_true, ih hys, insertBy, hlt]
      · have hpy : p y = false := by simpa using hpy
        simp only [List.filter_cons, hpy, ih hys]
        simp
    · rename_i hlt
      have hlt : lt y x = false := by simpa using hlt
      have hhead : insertBy lt x ((y :: ys).filter p) = x :: (y :: ys).filter p := by
        apply insertBy_head
        intro z hz
        have hzm : z ∈ (y :: ys).filter p := List.mem_of_mem_head? hz
        have hzm : z ∈ y :: ys := (List.mem_filter.mp hzm).1
        rcases List.mem_cons.mp hzm with rfl | hzm
        · exact hlt
        · exact h.negTrans x y z hlt (hy z hzm)
      rw [hhead]
      simp only [List.filter_cons, hx, if_true]

theorem sortBy_filter (h : StrictWeak lt) (p : α → Bool) (l : List α) :
    (sortBy lt l).filter p = sortBy lt (l.filter p) := by
  induction l with
  | nil => simp [sortBy]
  | cons x xs ih =>
    simp only [sortBy]
    by_cases hx : p x = true
    · rw [filter_insertBy_pos h p x _ hx (sortBy_sorted h xs), ih]
      simp [hx, sortBy]
    · have hx : p x = false := by simpa using hx
      rw [filter_insertBy_neg p x _ hx, ih]
      simp [hx]

/-! ### the three priority comparisons are strict weak orders -/

theorem edfLt_strictWeak : StrictWeak edfLt := by
  constructor
  · intro a b h
    unfold edfLt at h ⊢
    by_cases e : a.task.deadline = b.task.deadline
    · have e' : b.task.deadline = a.task.deadline := e.symm
      simp only [e, beq_self_eq_true, if_true, decide_eq_true_eq] at h
      simp only [e', beq_self_eq_true, if_true, decide_eq_false_iff_not]
      exact String.lt_asymm h
    · have e' : ¬ b.task.deadline = a.task.deadline := fun x => e x.symm
      simp only [beq_iff_eq, e, if_false, decide_eq_true_eq] at h
      simp only [beq_iff_eq, e', if_false, decide_eq_false_iff_not]
      omega
  · intro a b c h1 h2
    unfold edfLt at h1 h2 ⊢
    by_cases e1 : b.task.deadline = a.task.deadline <;> by_cases e2 : c.task.deadline = b.task.deadline
    · have e3 : c.task.deadline = a.task.deadline := e2.trans e1
      simp only [e1, e2, beq_self_eq_true, if_true, decide_eq_false_iff_not] at h1 h2 ⊢
      have h1' := String.not_lt.mp h1
      have h2' := String.not_lt.mp h2
      exact String.not_lt.mpr (String.le_trans h1' h2')
    · have e3 : ¬ c.task.deadline = a.task.deadline := fun x => e2 (x.trans e1.symm)
      simp only [beq_iff_eq, e2, e3, if_false, decide_eq_false_iff_not] at h2 ⊢
      omega
    · have e3 : ¬ c.task.deadline = a.task.deadline := fun x => e1 (e2.symm.trans x)
      simp only [beq_iff_eq, e1, e3, if_false, decide_eq_false_iff_not] at h1 ⊢
      omega
    · simp only [beq_iff_eq, e1, e2, if_false, decide_eq_false_iff_not] at h1 h2
      have e3 : ¬ c.task.deadline = a.task.deadline := by omega
      simp only [beq_iff_eq, e3, if_false, decide_eq_false_iff_not]
      omega

theorem fifoLt_strictWeak : StrictWeak fifoLt := by
  constructor
  · intro a b h
    simp only [fifoLt, decide_eq_true_eq, decide_eq_false_iff_not] at h ⊢
    omega
  · intro a b c h1 h2
    simp only [fifoLt, decide_eq_false_iff_not] at h1 h2 ⊢
    omega

theorem lsfLt_strictWeak (now : Int) : StrictWeak (lsfLt now) := by
  constructor
  · intro a b h
    simp only [lsfLt, decide_eq_true_eq, decide_eq_false_iff_not] at h ⊢
    omega
  · intro a b c h1 h2
    simp only [lsfLt, decide_eq_false_iff_not] at h1 h2 ⊢
    omega

theorem prioLt_strictWeak (cfg : Cfg) : StrictWeak (prioLt cfg) := by
  unfold prioLt
  cases cfg.policy
  · exact edfLt_strictWeak
  · exact fifoLt_strictWeak
  · exact lsfLt_strictWeak cfg.now

end ErdosVerif.Model.Greedy
