import Lean
import Std.Do
import Std.Tactic.Do
import ErdosVerif.Lemmas.SimResidentInv
import ErdosVerif.Lemmas.Heap
import ErdosVerif.Lemmas.SimInv
/-!
Hoare triples (`Std.Do`, `mvcgen`) showing that the residency / exact-runtime invariant
`AP RunOK` holds whenever a handler of the simulator model returns, and its weak form
`WInv` wherever a handler raises. Part 1: primitives and the handlers that never touch a
RUNNING task.

The specs carry two ghost parameters: `n`, the value of the clock (only `__step` moves
it), and `ex`, the events that exist outside the queue (see `AP`).
-/
open Std.Do
set_option mvcgen.warning false

namespace ErdosVerif.Tactic
open Lean Elab Tactic Meta

/-- `rs_hyps h => tac`: for each hypothesis of the main goal (most recent first), rename it
to `h` and run `tac`; keeps the first attempt in which `tac` closes the goal. -/
elab "rs_hyps " n:ident " => " tac:tacticSeq : tactic => do
  let goal ← getMainGoal
  let rest := (← getGoals).tail
  let decls ← goal.withContext do
    let lctx ← getLCtx
    pure (lctx.decls.toList.reverse.filterMap id |>.filter (fun d => !d.isImplementationDetail))
  for decl in decls do
    let s ← saveState
    try
      let goal' ← goal.rename decl.fvarId n.getId
      setGoals [goal']
      withoutRecover (evalTactic tac)
      unless (← getUnsolvedGoals).isEmpty do throwError "not closed"
      setGoals rest
      return
    catch _ => s.restore
  throwError "rs_hyps: no hypothesis worked"

end ErdosVerif.Tactic

namespace ErdosVerif.Tactic
open Lean

/-- `rmvcgen [lemmas]`: `mvcgen [lemmas]` without the `@[spec]` lemmas of `Lemmas/SimInv.lean`
(those are specifications of the same functions for the ledger / clock / graph invariant `Inv`;
this file and the following ones prove specifications for the residency invariant, passed
explicitly). `SimInv` is imported so that the auxiliary match lemmas `mvcgen` generates for the
simulator's functions exist once. -/
macro "rmvcgen" " [" ts:term,* "]" : tactic => do
  let names : Array Name := #[`row_spec, `logE_spec, `liftE_spec, `liftTape_spec, `getGraph_spec, `setGraph_spec, `getTask_spec, `uniqueName_spec, `raiseTask_spec, `taskCall_spec, `startTask_spec, `mkEvent_spec, `addEvent_spec, `reheapify_spec, `removeEvent_spec, `editEvent_spec, `findEvent_spec, `nextOfType_spec, `placedTasks_spec, `popEvent_spec, `getPool_spec, `setPool_spec, `logUtilization_spec, `schedulable_spec, `releasable_spec, `notifyGraphCompletion_spec, `placementSkip_spec, `placementEvents_spec, `nextSchedulerEvent_spec, `handleSchedulerStart_spec, `handleSchedulerFinish_spec, `handleTaskCancel_spec, `handleTaskRelease_spec, `handleUpdateWorkload_spec, `handleTaskGraphRelease_spec, `raiseOutcome_spec, `raisePlace_spec, `finishRemove_spec, `finishRows_spec, `finishNotify_spec, `handleTaskFinished_spec, `placementNotReady_spec, `placementRow_spec, `placementPlace_spec, `handleTaskPlacement_spec, `handleProfile_spec, `handleEvent_spec, `advanceClock_spec, `step_spec, `iter_spec, `init_spec]
  let ls : Array Syntax ← ts.getElems.mapM fun t => do
    let l ← `(Lean.Parser.Tactic.simpLemma| $t:term)
    pure l.raw
  let es : Array Syntax ← names.mapM fun n => do
    let e ← `(Lean.Parser.Tactic.simpErase| -$(mkIdent (`ErdosVerif.Model.Sim ++ n)))
    pure e.raw
  let sep : Syntax.TSepArray [`Lean.Parser.Tactic.simpErase, `Lean.Parser.Tactic.simpLemma] "," :=
    ⟨mkSepArray (ls ++ es) (mkAtom ",")⟩
  `(tactic| mvcgen [$sep,*])

end ErdosVerif.Tactic

namespace ErdosVerif.Model.Sim

/-! ### queue membership under the heap operations -/

theorem mem_heappush (q : Array SEvent) (e e' : SEvent) (h : e' ∈ (Heap.heappush SEvent.lt q e).toList) :
    e' ∈ q.toList ∨ e' = e := by
  have := ((Heap.heappush_perm SEvent.lt q e).mem_iff (a := e')).mp (Array.mem_toList_iff.mp h)
  rcases Array.mem_push.mp this with h1 | h1
  · exact Or.inl (Array.mem_toList_iff.mpr h1)
  · exact Or.inr h1

theorem mem_heapify (q : Array SEvent) (e' : SEvent) (h : e' ∈ (Heap.heapify SEvent.lt q).toList) : e' ∈ q.toList :=
  Array.mem_toList_iff.mpr (((Heap.heapify_perm SEvent.lt q).mem_iff (a := e')).mp (Array.mem_toList_iff.mp h))

theorem mem_eraseIdx (q : Array SEvent) (i : Nat) (e' : SEvent) (h : e' ∈ (q.eraseIdxIfInBounds i).toList) :
    e' ∈ q.toList := by
  unfold Array.eraseIdxIfInBounds at h
  split at h
  · rw [Array.toList_eraseIdx] at h
    exact List.mem_of_mem_eraseIdx h
  · exact h

theorem mem_heappop (q q' : Array SEvent) (e : SEvent) (h : Heap.heappop SEvent.lt q = some (e, q')) :
    (∀ e' ∈ q'.toList, e' ∈ q.toList) ∧ e ∈ q.toList := by
  have hp := Heap.heappop_perm SEvent.lt q e q' h
  constructor
  · intro e' he'
    exact Array.mem_toList_iff.mpr ((hp.mem_iff (a := e')).mp (Array.mem_push.mpr (Or.inl (Array.mem_toList_iff.mp he'))))
  · exact Array.mem_toList_iff.mpr ((hp.mem_iff (a := e)).mp (Array.mem_push.mpr (Or.inr rfl)))

/-! ### assertions -/

/-- The invariant with the clock at `n` and the events `ex` outside the queue. -/
abbrev RA (n : Int) (ex : List SEvent) : Assertion (.except SErr (.arg SimS .pure)) :=
  fun s => ⌜AP RunOK ex s ∧ s.now = n⌝

/-- A computation that keeps the invariant (and the clock) when it returns, and leaves the
weak invariant where it raises. -/
abbrev KeepsR {α} (n : Int) (ex : List SEvent) (x : SimM α) : Prop :=
  ⦃RA n ex⦄ x ⦃post⟨fun _ => RA n ex, fun _ s => ⌜WInv s⌝⟩⦄

/-- Loop invariant for loops that only have to keep the invariant. -/
abbrev loopR {β} (n : Int) (ex : List SEvent) : PostCond β (.except SErr (.arg SimS .pure)) :=
  post⟨fun _ s => ⌜AP RunOK ex s ∧ s.now = n⌝, fun _ s => ⌜WInv s⌝⟩

def LogE.isFinish : LogE → Bool
  | .finish _ _ => true
  | _ => false

theorem LogE.ne_finish (e : LogE) (h : LogE.isFinish e = false) : ∀ t τ, e ≠ LogE.finish t τ := by
  intro t τ he; subst he; simp [LogE.isFinish] at h

/-- Pure frame: none of the fields the invariant reads changed. -/
theorem AP.congr {P : Int → List LogE → TaskId → TaskS → Prop} {ex : List SEvent} (s s' : SimS) (h : AP P ex s)
    (hp : s'.pools = s.pools) (hg : s'.graphs = s.graphs) (hn : s'.now = s.now) (hl : s'.log = s.log)
    (hq : s'.queue = s.queue) (hf : s'.future = s.future) (hns : s'.nextSched = s.nextSched)
    (hid : s'.nextEid = s.nextEid) (ha : s'.allGraphs = s.allGraphs) (hj : s'.jobs = s.jobs)
    (hlr : s'.loaderReleased = s.loaderReleased) (hm : s'.metas = s.metas) : AP P ex s' := by
  obtain ⟨h1, h2, h3, h4, h5, h6⟩ := h
  refine ⟨?_, ?_, ?_, ?_, ?_, ?_⟩
  · rw [hp, hg, hn, hl, hq]; exact h1
  · rw [hl]; exact h2
  · rw [hq, hf, hns, hid]; exact h3
  · rw [ha]; exact h4
  · rw [hj]; exact h5
  · rw [hlr, hg, hm]; exact h6

/-- Closes "the invariant still holds" when only fields the invariant does not read changed. -/
macro "frame_close" : tactic => `(tactic| first
  | assumption
  | exact ExceptConds.entails.refl _
  | (intro s h; exact h)
  | (rs_hyps h => exact h)
  | (rs_hyps h => exact AP.weak h.1)
  | (rs_hyps h => exact AP.weak h)
  | (rs_hyps h => exact ⟨AP.congr _ _ h.1 rfl rfl rfl rfl rfl rfl rfl rfl rfl rfl rfl rfl, h.2⟩)
  | (rs_hyps h => exact AP.weak (AP.congr _ _ h.1 rfl rfl rfl rfl rfl rfl rfl rfl rfl rfl rfl rfl)))

/-! ### primitives -/

theorem row_rspec (n : Int) (ex : List SEvent) (r : Row) : KeepsR n ex (row r) := by
  rmvcgen [row]
  all_goals frame_close

theorem liftE_rspec {α} (n : Int) (ex : List SEvent) (e : Except SErr α) : KeepsR n ex (liftE e) := by
  unfold liftE; cases e <;> mvcgen
  all_goals frame_close

theorem liftTape_rspec {α} (n : Int) (ex : List SEvent) (x : TapeM α) : KeepsR n ex (liftTape x) := by
  rmvcgen [liftTape, liftE_rspec]
  all_goals frame_close


/-- Field-wise form of `AP.benign` for the common case: pools, clock, kept ids and loader
flags unchanged; graphs `TRel`-related; log extended by non-`.finish` entries; no new
TASK_FINISHED event; event counter not smaller. -/
theorem AP.step {ex ex' : List SEvent} (s s' : SimS) (h : AP RunOK ex s)
    (hp : s'.pools = s.pools) (hg : TRel (taskAt s.graphs) (taskAt s'.graphs)) (hn : s'.now = s.now)
    (hl : ∃ es, s'.log.toList = s.log.toList ++ es ∧ ∀ e ∈ es, ∀ t τ, e ≠ LogE.finish t τ)
    (hq : ∀ e ∈ s'.queue.toList ++ ex', e.ev.etype = ET.taskFinished → e ∈ s.queue.toList ++ ex)
    (hef : ∀ x, EF s'.future s'.nextSched x → EF s.future s.nextSched x) (hid : s.nextEid ≤ s'.nextEid)
    (ha : s'.allGraphs = s.allGraphs) (hj : s'.jobs = s.jobs)
    (hld : s'.loaderReleased = false → s'.graphs = #[] ∧ s'.metas = #[]) : AP RunOK ex' s' := by
  refine AP.benign logMono_RunOK s s' h (by rw [hp]) (by rw [hp]) hg hn hl hq ?_ hid ha ?_ hld
  · intro x hx; exact Or.inl (hef x hx)
  · rw [hj]; exact h.tmplQ

theorem AP.allPre {P : Int → List LogE → TaskId → TaskS → Prop} {ex : List SEvent} {s : SimS} (h : AP P ex s)
    (gi : Nat) (g : GraphS) (hg : s.graphs[gi]? = some g) : g.AllPre := by
  intro k x hx
  exact h.core.preOK ⟨gi, k⟩ x (taskAt_of s.graphs ⟨gi, k⟩ g x hg hx)

theorem log_push_ext (l : Array LogE) (e : LogE) (he : LogE.isFinish e = false) :
    ∃ es, (l.push e).toList = l.toList ++ es ∧ ∀ e' ∈ es, ∀ t τ, e' ≠ LogE.finish t τ :=
  ⟨[e], by simp, by intro e' he'; simp only [List.mem_singleton] at he'; subst he'; exact LogE.ne_finish _ he⟩

theorem log_same_ext (l : Array LogE) :
    ∃ es, l.toList = l.toList ++ es ∧ ∀ e' ∈ es, ∀ t τ, e' ≠ LogE.finish t τ :=
  ⟨[], by simp, by simp⟩

/-- Appending a non-`.finish` entry to the history keeps the invariant. -/
theorem logE_rspec (n : Int) (ex : List SEvent) (e : LogE) (he : LogE.isFinish e = false) : KeepsR n ex (logE e) := by
  rmvcgen [logE]
  rs_hyps h => exact ⟨AP.step _ _ h.1 rfl (TRel.refl _) rfl (log_push_ext _ e he) (fun _ h' _ => h') (fun _ h' => h')
    (Nat.le_refl _) rfl rfl h.1.loader, h.2⟩

theorem raiseTask_rspec (n : Int) (ex : List SEvent) (e : Option SErr) : KeepsR n ex (raiseTask e) := by
  unfold raiseTask; cases e <;> mvcgen
  all_goals frame_close

theorem raiseOutcome_rspec (n : Int) (ex : List SEvent) (o : Outcome) : KeepsR n ex (raiseOutcome o) := by
  unfold raiseOutcome
  cases o with
  | ok => mvcgen; all_goals frame_close
  | raised e => cases e <;> mvcgen <;> frame_close

theorem raisePlace_rspec (n : Int) (ex : List SEvent) (r : Except PyErr Bool) :
    ⦃RA n ex⦄ raisePlace r ⦃post⟨fun b s => ⌜(AP RunOK ex s ∧ s.now = n) ∧ r = .ok b⌝, fun _ s => ⌜WInv s⌝⟩⦄ := by
  unfold raisePlace
  cases r with
  | ok b => mvcgen; all_goals first | frame_close | (rs_hyps h => exact ⟨h, rfl⟩)
  | error e => cases e <;> mvcgen <;> frame_close


/-- Side conditions of `AP.step` in their most common form. -/
macro "ap_side" : tactic => `(tactic| first
  | rfl
  | exact TRel.refl _
  | exact log_same_ext _
  | exact log_push_ext _ _ rfl
  | exact (fun _ h' _ => h')
  | exact (fun _ h' => h')
  | exact Nat.le_refl _
  | exact Nat.le_succ _
  | (rs_hyps h => exact h.1.loader)
  | skip)

/-- `AP RunOK ex s' ∧ s'.now = n` from the most recent hypothesis of that form by `AP.step`;
leaves the side conditions that are not routine. -/
macro "ap_step" : tactic => `(tactic|
  (have h := ‹AP RunOK _ _ ∧ _›
   refine ⟨AP.step _ _ h.1 ?_ ?_ ?_ ?_ ?_ ?_ ?_ ?_ ?_ ?_, h.2⟩ <;> ap_side))

/-- A fresh event: only the event counter moves. -/
theorem mkEvent_rspec (n : Int) (ex : List SEvent) (a : Nat) (b : Int) (c : Option TaskId) (d : Option PlacementS)
    (e : Option Nat) :
    ⦃RA n ex⦄ mkEvent a b c d e
    ⦃post⟨fun r s => ⌜(AP RunOK ex s ∧ s.now = n) ∧ r.ev.etype = a ∧ r.ev.time = b ∧ r.tid = c⌝, fun _ s => ⌜WInv s⌝⟩⦄ := by
  rmvcgen [mkEvent, uniqueName, getGraph, getTask]
  all_goals first
    | frame_close
    | (refine ⟨?_, trivial, trivial, by first | assumption | rfl⟩; ap_step)

theorem mem_queue_push (q : Array SEvent) (ex : List SEvent) (e : SEvent) (he : e.ev.etype ≠ ET.taskFinished) :
    ∀ e' ∈ (Heap.heappush SEvent.lt q e).toList ++ ex, e'.ev.etype = ET.taskFinished → e' ∈ q.toList ++ ex := by
  intro e' he' hf
  rcases List.mem_append.mp he' with h1 | h1
  · rcases mem_heappush _ _ _ h1 with h2 | h2
    · exact List.mem_append_left _ h2
    · subst h2; exact absurd hf he
  · exact List.mem_append_right _ h1

theorem mem_queue_heapify (q : Array SEvent) (ex : List SEvent) :
    ∀ e' ∈ (Heap.heapify SEvent.lt q).toList ++ ex, e'.ev.etype = ET.taskFinished → e' ∈ q.toList ++ ex := by
  intro e' he' _
  rcases List.mem_append.mp he' with h1 | h1
  · exact List.mem_append_left _ (mem_heapify _ _ h1)
  · exact List.mem_append_right _ h1

theorem mem_queue_remove (q : Array SEvent) (ex : List SEvent) (i : Nat) :
    ∀ e' ∈ (Heap.heapify SEvent.lt (q.eraseIdxIfInBounds i)).toList ++ ex, e'.ev.etype = ET.taskFinished →
      e' ∈ q.toList ++ ex := by
  intro e' he' _
  rcases List.mem_append.mp he' with h1 | h1
  · exact List.mem_append_left _ (mem_eraseIdx _ _ _ (mem_heapify _ _ h1))
  · exact List.mem_append_right _ h1

/-- Queueing an event that is not a TASK_FINISHED. -/
theorem addEvent_rspec (n : Int) (ex : List SEvent) (e : SEvent) (he : e.ev.etype ≠ ET.taskFinished) :
    KeepsR n ex (addEvent e) := by
  rmvcgen [addEvent]
  ap_step
  exact mem_queue_push _ _ _ he

theorem reheapify_rspec (n : Int) (ex : List SEvent) : KeepsR n ex reheapify := by
  rmvcgen [reheapify]
  ap_step
  exact mem_queue_heapify _ _

theorem removeEvent_rspec (n : Int) (ex : List SEvent) (eid : Nat) : KeepsR n ex (removeEvent eid) := by
  rmvcgen [removeEvent]
  all_goals first
    | frame_close
    | (ap_step; exact mem_queue_remove _ _ _)

theorem mem_queue_edit {ex : List SEvent} {s : SimS} (h1 : AP RunOK ex s) (eid : Nat) (f : SEvent → SEvent)
    (hf : ∀ e, (f e).ev.etype = e.ev.etype) (h3 : EF s.future s.nextSched eid) :
    ∀ e' ∈ (s.queue.map (fun e => if e.ev.eid == eid then f e else e)).toList ++ ex,
      e'.ev.etype = ET.taskFinished → e' ∈ s.queue.toList ++ ex := by
  intro e' he' hfin
  rcases List.mem_append.mp he' with h4 | h4
  · simp only [Array.toList_map, List.mem_map] at h4
    obtain ⟨e0, he0, heq⟩ := h4
    by_cases hid : (e0.ev.eid == eid) = true
    · exfalso
      rw [if_pos hid] at heq
      have hfin0 : e0.ev.etype = ET.taskFinished := by rw [← hf e0, heq]; exact hfin
      have := h1.eids.finNotEF e0 (List.mem_append_left _ he0) hfin0
      have he : e0.ev.eid = eid := by simpa using hid
      rw [he] at this
      exact this h3
    · rw [if_neg hid] at heq
      subst heq; exact List.mem_append_left _ he0
  · exact List.mem_append_right _ h4

/-- In-place edit of the event(s) with a kept id: never a TASK_FINISHED event. -/
theorem editEvent_rspec (n : Int) (ex : List SEvent) (eid : Nat) (f : SEvent → SEvent)
    (hf : ∀ e, (f e).ev.etype = e.ev.etype) :
    ⦃fun s => ⌜(AP RunOK ex s ∧ s.now = n) ∧ EF s.future s.nextSched eid⌝⦄ editEvent eid f
    ⦃post⟨fun _ => RA n ex, fun _ s => ⌜WInv s⌝⟩⦄ := by
  rmvcgen [editEvent]
  rename_i s h _
  obtain ⟨h12, h3⟩ := h
  ap_step
  exact mem_queue_edit h12.1 eid f hf h3

/-- State-level form of "one task was changed by a quiet call". -/
theorem AP.quietCall {ex : List SEvent} {n : Int} (s s' : SimS) (t : TaskId) (c : TaskCall) (g : GraphS) (x : TaskS)
    (h : AP RunOK ex s ∧ s.now = n) (hg : s.graphs[t.g]? = some g) (hx : g.task? t.t = some x)
    (hc : c.isQuiet = true)
    (hs' : s' = { s with graphs := s.graphs.setIfInBounds t.g (g.setTask t.t (x.call c).1) }) :
    AP RunOK ex s' ∧ s'.now = n := by
  subst hs'
  refine ⟨AP.step s _ h.1 rfl
    (TRel.setGraph _ _ g _ hg (RFrame.setTask g _ x _ hx (call_TR x c (h.1.allPre _ g hg _ x hx) hc)))
    rfl (log_same_ext _) (fun _ h' _ => h') (fun _ h' => h') (Nat.le_refl _) rfl rfl ?_, h.2⟩
  intro hl
  have := (h.1.loader hl).1
  rw [this] at hg; simp at hg

/-- `release`, `schedule`, `unschedule` through the simulator: the task is not RUNNING
before (or the call is refused) and not RUNNING after. -/
theorem taskCall_rspec (n : Int) (ex : List SEvent) (t : TaskId) (c : TaskCall) (hc : c.isQuiet = true) :
    KeepsR n ex (taskCall t c) := by
  rmvcgen [taskCall, getGraph, setGraph, raiseTask]
  all_goals first
    | frame_close
    | (refine AP.quietCall _ _ t c _ _ ?_ ?_ ?_ hc rfl <;> assumption)
    | (rs_hyps h => exact AP.weak (AP.quietCall _ _ t c _ _ h ‹_› ‹_› hc rfl).1)


/-! ### state-level lemmas for the handlers -/

theorem AP.loaded {P : Int → List LogE → TaskId → TaskS → Prop} {ex : List SEvent} {s : SimS} (h : AP P ex s)
    {gi : Nat} {g : GraphS} (hg : s.graphs[gi]? = some g) : s.loaderReleased = true := by
  cases hl : s.loaderReleased with
  | true => rfl
  | false => have := (h.loader hl).1; rw [this] at hg; simp at hg

/-- The loader clause when a task graph is known to exist. -/
theorem AP.loaderOf {P : Int → List LogE → TaskId → TaskS → Prop} {ex : List SEvent} {s : SimS} (h : AP P ex s)
    {gi : Nat} {g : GraphS} (hg : s.graphs[gi]? = some g) (s' : SimS) (hlr : s'.loaderReleased = s.loaderReleased) :
    s'.loaderReleased = false → s'.graphs = #[] ∧ s'.metas = #[] := by
  intro hl; rw [hlr, h.loaded hg] at hl; cases hl

theorem EF_erase (fut : AList TaskId Nat) (ns : Option Nat) (t : TaskId) :
    ∀ x, EF (fut.erase t) ns x → EF fut ns x := by
  intro x hx
  rcases hx with ⟨u, hu⟩ | hx
  · exact Or.inl ⟨u, AList.mem_erase _ _ _ hu⟩
  · exact Or.inr hx

theorem EF_none (fut : AList TaskId Nat) (ns : Option Nat) : ∀ x, EF fut none x → EF fut ns x := by
  intro x hx
  rcases hx with hx | hx
  · exact Or.inl hx
  · cases hx

theorem EF_set (fut : AList TaskId Nat) (ns : Option Nat) (t : TaskId) (x0 : Nat) :
    ∀ x, EF (fut.set t x0) ns x → EF fut ns x ∨ x = x0 := by
  intro x hx
  rcases hx with ⟨u, hu⟩ | hx
  · rcases AList.mem_set _ _ _ _ hu with h1 | h1
    · right; cases h1; rfl
    · exact Or.inl (Or.inl ⟨u, h1⟩)
  · exact Or.inl (Or.inr hx)

theorem EF_some (fut : AList TaskId Nat) (ns : Option Nat) (x0 : Nat) :
    ∀ x, EF fut (some x0) x → EF fut ns x ∨ x = x0 := by
  intro x hx
  rcases hx with hx | hx
  · exact Or.inl (Or.inl hx)
  · right; cases hx; rfl

/-- A fresh event id is kept (`_future_placement_events[task] = event`, `_next_scheduler_event = event`). -/
theorem AP.efAdd {ex ex' : List SEvent} (s s' : SimS) (h : AP RunOK ex s) (x0 : Nat) (hx : x0 < s.nextEid)
    (hfresh : ∀ e ∈ s.queue.toList ++ ex, e.ev.etype = ET.taskFinished → e.ev.eid < x0)
    (hp : s'.pools = s.pools) (hg : s'.graphs = s.graphs) (hn : s'.now = s.now) (hl : s'.log = s.log)
    (hq : ∀ e ∈ s'.queue.toList ++ ex', e.ev.etype = ET.taskFinished → e ∈ s.queue.toList ++ ex)
    (hef : ∀ x, EF s'.future s'.nextSched x → EF s.future s.nextSched x ∨ x = x0)
    (hid : s'.nextEid = s.nextEid) (ha : s'.allGraphs = s.allGraphs) (hj : s'.jobs = s.jobs)
    (hlr : s'.loaderReleased = s.loaderReleased) (hm : s'.metas = s.metas) : AP RunOK ex' s' := by
  obtain ⟨h1, h2, h3, h4, h5, h6⟩ := h
  refine ⟨?_, ?_, ?_, ?_, ?_, ?_⟩
  · rw [hp, hg, hn, hl]; exact h1.q_sub hq
  · rw [hl]; exact h2
  · rw [hid]
    exact h3.ef_add x0 hx hq (fun e he hf => Nat.ne_of_lt (hfresh e he hf)) hef
  · rw [ha]; exact h4
  · rw [hj]; exact h5
  · rw [hlr, hg, hm]; exact h6

/-- A fresh event: only the event counter moves. The post-condition records that the id
is below the counter and above the ids of all TASK_FINISHED events. -/
theorem mkEvent_rspec' (n : Int) (ex : List SEvent) (a : Nat) (b : Int) (c : Option TaskId) (d : Option PlacementS)
    (e : Option Nat) :
    ⦃RA n ex⦄ mkEvent a b c d e
    ⦃post⟨fun r s => ⌜(AP RunOK ex s ∧ s.now = n) ∧ r.ev.etype = a ∧ r.ev.time = b ∧ r.tid = c ∧
        r.ev.eid < s.nextEid ∧ ∀ e' ∈ s.queue.toList ++ ex, e'.ev.etype = ET.taskFinished → e'.ev.eid < r.ev.eid⌝,
      fun _ s => ⌜WInv s⌝⟩⦄ := by
  rmvcgen [mkEvent, uniqueName, getGraph, getTask]
  all_goals first
    | frame_close
    | (refine ⟨?_, trivial, trivial, by first | assumption | rfl, Nat.lt_succ_self _, ?_⟩
       · ap_step
       · have h := ‹AP RunOK _ _ ∧ _›
         exact h.1.eids.finLt)

theorem mem_pySorted (l : List SEvent) : ∀ e ∈ Heap.pySorted SEvent.lt l, e ∈ l := by
  unfold Heap.pySorted
  generalize Heap.countRun SEvent.lt l = cr
  obtain ⟨k, desc⟩ := cr
  simp only []
  have key : ∀ (xs acc : List SEvent), (∀ e ∈ acc, e ∈ l) → (∀ e ∈ xs, e ∈ l) →
      ∀ e ∈ xs.foldl (fun acc x =>
        let i := Heap.bisectRight SEvent.lt acc.toArray x 0 acc.length
        acc.take i ++ x :: acc.drop i) acc, e ∈ l := by
    intro xs
    induction xs with
    | nil => intro acc ha _ e he; exact ha e he
    | cons x xs ih =>
      intro acc ha hx e he
      simp only [List.foldl_cons] at he
      refine ih _ ?_ (fun e he => hx e (List.mem_cons_of_mem _ he)) e he
      intro e' he'
      simp only [List.mem_append, List.mem_cons] at he'
      rcases he' with h1 | h1 | h1
      · exact ha e' (List.mem_of_mem_take h1)
      · rw [h1]; exact hx x (List.mem_cons_self ..)
      · exact ha e' (List.mem_of_mem_drop h1)
  apply key
  · intro e he
    split at he
    · exact List.mem_of_mem_take (List.mem_reverse.mp he)
    · exact List.mem_of_mem_take he
  · intro e he; exact List.mem_of_mem_drop he

end ErdosVerif.Model.Sim
