/-
The witness of completeness: for a valid plan, `sigmaOf I plan` satisfies every variable
domain and every row of `gen I` (either formulation), decodes to the plan and earns the plan's
reward.
-/
import ErdosVerif.Lemmas.TetriComplete
namespace ErdosVerif.Tetri
open ErdosVerif.Mip ErdosVerif.TetriSpec

variable {I : Inst} {plan : Plan}

theorem binDecl_ok {σ : Var → Int} {v : Var} (h : σ v = 0 ∨ σ v = 1) : (binDecl v).ok σ := by
  simp [VarDecl.ok, binDecl, h]

theorem ite01 (p : Prop) [Decidable p] : (if p then (1 : Int) else 0) = 0 ∨ (if p then (1 : Int) else 0) = 1 := by
  split <;> simp

/-! ### Basic values of the witness -/

theorem act_of_nonRunning {t : Nat} (ht : t ∈ I.nonRunning) : t ∈ I.act :=
  mem_act.mpr ⟨(mem_nonRunning.mp ht).1, (mem_nonRunning.mp ht).2.1⟩

theorem plan_nonRunning_hasVar (hv : ValidPlan I plan) {t : Nat} (ht : t ∈ I.nonRunning) {c : Cell}
    (hp : plan.get t = some c) : c ∈ I.keys t ∧ I.hasVar t c.1 c.2.1 c.2.2 = true := by
  obtain ⟨h1, h2, h3, h4⟩ := hv.wf t c (mem_nonRunning.mp ht).1 (mem_nonRunning.mp ht).2.2 hp
  exact ⟨mem_keys.mpr ⟨h1, h2, h3⟩, by simp [Inst.hasVar, (mem_nonRunning.mp ht).2.2, h4]⟩

theorem ind_sigmaOf (hv : ValidPlan I plan) (hwf : I.wf = true) (hm : I.noModel = false) :
    Ind I (sigmaOf I plan) plan := by
  intro t ht
  by_cases hr : I.running t = true
  · have hp := hv.running t (mem_act.mp ht).1 (mem_act.mp ht).2 hr
    constructor
    · intro q _
      rw [cellVal_running _ hr, hp]
      by_cases hq : q = runningCell I t
      · simp [hq]
      · have : ¬ runningCell I t = q := fun e => hq e.symm
        simp [hq, this]
    · intro c hc
      rw [hp] at hc
      simp only [Option.some.injEq] at hc
      exact hc ▸ running_key hwf ht hr hm
  · have hr' : I.running t = false := by simpa using hr
    have htn : t ∈ I.nonRunning := mem_nonRunning.mpr ⟨(mem_act.mp ht).1, (mem_act.mp ht).2, hr'⟩
    constructor
    · intro q _
      rw [cellVal_nonRunning _ hr']
      by_cases hvq : I.hasVar t q.1 q.2.1 q.2.2 = true
      · simp only [hvq, if_true, sigmaOf]
      · have : plan.get t ≠ some q := by
          intro hp
          exact hvq (plan_nonRunning_hasVar hv htn hp).2
        simp [hvq, this]
    · intro c hc
      exact (plan_nonRunning_hasVar hv htn hc).1

theorem isPlacedE_sigmaOf (hv : ValidPlan I plan) {t : Nat} (ht : t ∈ I.act) :
    (I.isPlacedE t).eval (sigmaOf I plan) = if (plan.get t).isSome then 1 else 0 := by
  by_cases hr : I.running t = true
  · have hp := hv.running t (mem_act.mp ht).1 (mem_act.mp ht).2 hr
    simp [Inst.isPlacedE, hr, hp]
  · have hr' : I.running t = false := by simpa using hr
    by_cases hmu : I.must t = true
    · have := hv.required t (mem_act.mp ht).1 (mem_act.mp ht).2 hmu
      simp [Inst.isPlacedE, hmu, this]
    · have hmu' : I.must t = false := by simpa using hmu
      simp [Inst.isPlacedE, hr', hmu', sigmaOf]

theorem startE_sigmaOf (hv : ValidPlan I plan) {t : Nat} (ht : t ∈ I.act) :
    (I.startE t).eval (sigmaOf I plan) =
      match plan.get t with
      | some c => I.slot c.2.1
      | none => I.slot I.nSlots + (lp I I.nT t : Nat) := by
  by_cases hr : I.running t = true
  · have hp := hv.running t (mem_act.mp ht).1 (mem_act.mp ht).2 hr
    simp [Inst.startE, hr, hp, runningCell, Inst.slot]
  · have hr' : I.running t = false := by simpa using hr
    simp only [Inst.startE, hr', Bool.false_eq_true, if_false, LinExpr.eval_ofVar, sigmaOf]
    cases plan.get t <;> rfl

theorem rew_bounds (I : Inst) {k : Nat} (hk : k < I.nSlots) :
    (I.den : Int) ≤ I.rew k ∧ I.rew k ≤ 2 * (I.den : Int) := by
  unfold Inst.rew Inst.den
  by_cases hs : I.span = 0
  · simp [hs]
  · simp only [hs, if_false]
    have h1 : k * I.disc ≤ I.span := by
      unfold Inst.span
      exact Nat.mul_le_mul_right _ (by omega)
    omega

/-! ### Time-slot helper rows (Gurobi) -/

theorem slots_hold (hv : ValidPlan I plan) (hwf : I.wf = true) (hm : I.noModel = false)
    {t : Nat} (ht : t ∈ I.nonRunning) {c : Constr Var} (hc : c ∈ I.cSlotsG t) :
    c.holds (sigmaOf I plan) := by
  have hI := ind_sigmaOf hv hwf hm
  have hta := act_of_nonRunning ht
  simp only [Inst.cSlotsG, List.mem_append, List.mem_flatMap, List.mem_filter, List.mem_range,
    List.mem_cons, List.mem_singleton, List.not_mem_nil, or_false] at hc
  rcases hc with (⟨k, _, hc | hc⟩ | ⟨k, ⟨_, hk0⟩, hc | hc⟩) | hc
  · subst hc
    simp only [Constr.holds, Sense.holds, LinExpr.eval_sub, LinExpr.eval_ofVar, sumCellsAt_ind hI hta, sigmaOf]
    cases plan.get t <;> simp
  · subst hc
    simp only [Constr.holds, Sense.holds, LinExpr.eval_add, LinExpr.eval_ofVar, sigmaOf]
    cases plan.get t with
    | none => simp
    | some c => by_cases hck : c.2.1 = k <;> simp [hck]
  · subst hc
    have hk0' : k ≠ 0 := by simpa using hk0
    simp only [Constr.holds, sigmaOf, List.mem_cons, List.not_mem_nil, or_false, forall_eq_or_imp, forall_eq]
    cases plan.get t with
    | none => simp
    | some c =>
      by_cases hck : c.2.1 = k
      · have h1 : ¬ c.2.1 = k - 1 := by omega
        have h2 : ¬ k = k - 1 := by omega
        simp [hck, hk0', h1, h2]
      · simp [hck]
  · subst hc
    have hk0' : k ≠ 0 := by simpa using hk0
    simp only [Constr.holds, Sense.holds, LinExpr.eval_ofVar, sigmaOf]
    cases plan.get t with
    | none => simp
    | some c =>
      by_cases hck : c.2.1 = k
      · simp [hck]
      · simp [hck]
  · subst hc
    simp only [Constr.holds, Sense.holds, LinExpr.eval_ofVar, sigmaOf]
    cases plan.get t with
    | none => simp
    | some c =>
      by_cases hck : c.2.1 = 0
      · simp [hck]
      · simp [hck]

/-! ### Placement rows (both formulations) -/

theorem place_hold (hv : ValidPlan I plan) (hwf : I.wf = true) (hm : I.noModel = false)
    {t : Nat} (ht : t ∈ I.nonRunning) {c : Constr Var} (hc : c ∈ I.cPlace t) :
    c.holds (sigmaOf I plan) := by
  have hI := ind_sigmaOf hv hwf hm
  have hta := act_of_nonRunning ht
  unfold Inst.cPlace at hc
  split at hc
  · next hmu =>
    simp only [List.mem_singleton] at hc
    subst hc
    have := hv.required t (mem_act.mp hta).1 (mem_act.mp hta).2 hmu
    simp [Constr.holds, Sense.holds, sumCells_ind hI hta, this]
  · simp only [List.mem_cons, List.mem_singleton, List.not_mem_nil, or_false] at hc
    rcases hc with hc | hc
    · subst hc
      simp only [Constr.holds, Sense.holds, sumCells_ind hI hta]
      split <;> omega
    · subst hc
      simp only [Constr.holds, Sense.holds, LinExpr.eval_sub, LinExpr.eval_ofVar, sumCells_ind hI hta, sigmaOf]
      omega

/-! ### Capacity rows (both formulations) -/

theorem res_hold (hv : ValidPlan I plan) (hwf : I.wf = true) (hm : I.noModel = false)
    {c : Constr Var} (hc : c ∈ I.cRes) : c.holds (sigmaOf I plan) := by
  have hI := ind_sigmaOf hv hwf hm
  simp only [Inst.cRes, List.mem_flatMap, List.mem_range, List.mem_map, List.mem_filter] at hc
  obtain ⟨k, hk, w, hw, r, _, rfl⟩ := hc
  simp only [Constr.holds, Sense.holds, resE_ind hI]
  exact_mod_cast hv.capacity w hw k hk r

/-! ### Dependency rows (Gurobi) -/

theorem isum_ind_le {α : Type} (l : List α) (P : α → Prop) [DecidablePred P] :
    isum (l.map (fun a => if P a then (1 : Int) else 0)) ≤ l.length ∧
    ((∀ a ∈ l, P a) → isum (l.map (fun a => if P a then (1 : Int) else 0)) = l.length) ∧
    ((∃ a ∈ l, ¬ P a) → isum (l.map (fun a => if P a then (1 : Int) else 0)) ≤ (l.length : Int) - 1) := by
  have h := isum_le_length l (fun a => if P a then (1 : Int) else 0) (fun a _ => ite01 (P a))
  refine ⟨h.1, ?_, ?_⟩
  · intro hall
    rw [isum_map_congr l _ (fun _ => 1) (fun a ha => by simp [hall a ha])]
    clear h hall
    induction l with
    | nil => simp
    | cons x xs ih => simp [ih]; omega
  · rintro ⟨a, ha, hna⟩
    by_cases he : isum (l.map (fun a => if P a then (1 : Int) else 0)) = l.length
    · have := h.2 he a ha
      simp [hna] at this
    · have := h.1
      omega

theorem parentExpr_sigmaOf (hv : ValidPlan I plan) (c : Nat) :
    (I.parentExpr c).eval (sigmaOf I plan) =
      isum ((I.parentVars c).map (fun p => if (plan.get p).isSome = true then (1 : Int) else 0)) := by
  simp only [Inst.parentExpr, LinExpr.eval_sumL, List.map_map, Function.comp_def]
  apply isum_map_congr
  intro p hp
  exact isPlacedE_sigmaOf hv (List.mem_filter.mp hp).1

theorem deps_hold (hv : ValidPlan I plan) (hG : I.cplex = false) (hwf : I.wf = true)
    (hm : I.noModel = false) (hac : wfAcyclic I = true) {t : Nat} (ht : t ∈ I.nonRunning) {c : Constr Var} (hc : c ∈ I.cDeps t) :
    c.holds (sigmaOf I plan) := by
  have hta := act_of_nonRunning ht
  have htn := (mem_nonRunning.mp ht)
  unfold Inst.cDeps at hc
  split at hc
  · simp at hc
  · next hemp =>
    have hne : I.parentVars t ≠ [] := by
      intro he; rw [he] at hemp; simp at hemp
    have hwp : (I.parentVars t).length ≤ I.nParents t := by
      simp only [Inst.wf, Bool.and_eq_true] at hwf
      have := List.all_eq_true.mp hwf.1.1.2 t hta
      simpa using this
    have hcount := isum_ind_le (I.parentVars t) (fun p => (plan.get p).isSome = true)
    simp only [List.mem_append, List.mem_map, List.mem_cons, List.mem_singleton, List.not_mem_nil, or_false] at hc
    rcases hc with ⟨p, hp, rfl⟩ | hc | hc | hc
    · -- precedence row
      have hpa : p ∈ I.act := (List.mem_filter.mp hp).1
      have hacp := List.all_eq_true.mp (List.all_eq_true.mp hac t hta) p hp
      simp only [decide_eq_true_eq] at hacp
      simp only [Inst.cStartAfter, Constr.holds, Sense.holds, LinExpr.eval_sub, startE_sigmaOf hv hta,
        startE_sigmaOf hv hpa]
      cases hpt : plan.get t with
      | some ct =>
        obtain ⟨_, hpar⟩ := hv.prec hG t ct htn.1 htn.2.2 hpt
        obtain ⟨cp, hcp, hle⟩ := hpar p hp
        simp only [hcp, startOf] at hle ⊢
        omega
      | none =>
        cases hpp : plan.get p with
        | none =>
          simp only
          have : ((lp I I.nT p + I.parentDur p + 1 : Nat) : Int) ≤ (lp I I.nT t : Nat) := by exact_mod_cast hacp
          push_cast at this
          omega
        | some cp =>
          simp only
          have hkp : cp.2.1 < I.nSlots := (mem_keys.mp ((ind_sigmaOf hv hwf hm p hpa).2 cp hpp)).2.1
          have h1 := slot_mono I (Nat.le_of_lt hkp)
          have : ((lp I I.nT p + I.parentDur p + 1 : Nat) : Int) ≤ (lp I I.nT t : Nat) := by exact_mod_cast hacp
          push_cast at this
          omega
    · subst hc
      simp only [Constr.holds, Sense.holds, parentExpr_sigmaOf hv, sigmaOf]
      intro h0
      by_cases hall : ∀ p ∈ I.parentVars t, (plan.get p).isSome = true
      · have hlen : ¬ (I.parentVars t).length = I.nParents t := by
          intro he
          have : ((I.parentVars t).all (fun p => (plan.get p).isSome) && (I.parentVars t).length == I.nParents t) = true := by
            simp only [Bool.and_eq_true, List.all_eq_true, beq_iff_eq]
            exact ⟨hall, he⟩
          simp [this] at h0
        rw [hcount.2.1 hall]
        omega
      · have hex : ∃ p ∈ I.parentVars t, ¬ (plan.get p).isSome = true := by
          simpa using hall
        have := hcount.2.2 hex
        omega
    · subst hc
      simp only [Constr.holds, Sense.holds, parentExpr_sigmaOf hv, sigmaOf]
      intro h1
      have hcond : ((I.parentVars t).all (fun p => (plan.get p).isSome) && (I.parentVars t).length == I.nParents t) = true := by
        by_cases hb : ((I.parentVars t).all (fun p => (plan.get p).isSome) && (I.parentVars t).length == I.nParents t) = true
        · exact hb
        · simp [hb] at h1
      simp only [Bool.and_eq_true, List.all_eq_true, beq_iff_eq] at hcond
      rw [hcount.2.1 hcond.1]
      omega
    · subst hc
      simp only [Constr.holds, Sense.holds, isPlacedE_sigmaOf hv hta, sigmaOf]
      intro h0
      cases hpt : plan.get t with
      | none => simp
      | some ct =>
        obtain ⟨hlen, hpar⟩ := hv.prec hG t ct htn.1 htn.2.2 hpt
        have hall : ∀ p ∈ I.parentVars t, (plan.get p).isSome = true := by
          intro p hp
          obtain ⟨cp, hcp, _⟩ := hpar p hp
          simp [hcp]
        have : ((I.parentVars t).all (fun p => (plan.get p).isSome) && (I.parentVars t).length == I.nParents t) = true := by
          simp only [Bool.and_eq_true, List.all_eq_true, beq_iff_eq]
          exact ⟨hall, hlen hne⟩
        simp [this] at h0

end ErdosVerif.Tetri
