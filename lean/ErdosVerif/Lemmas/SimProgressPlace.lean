import ErdosVerif.Lemmas.SimProgressHandlers
/-!
Progress of the `simulate()` loop, part 4: TASK_FINISHED (the handled event leaves `ex`:
its task is no longer RUNNING) and TASK_PLACEMENT (a task that starts with no work left
gets its TASK_FINISHED event at once).
-/
open Std.Do
set_option mvcgen.warning false

namespace ErdosVerif.Model.Sim

/-- An event that is not a TASK_FINISHED event may leave (or join) `ex`. -/
theorem PG.dropEx {sk : Option TaskId} {ev : SEvent} {s : SimS} (h : PG sk [ev] s)
    (hne : ev.ev.etype ≠ ET.taskFinished) : PG sk [] s := by
  refine PG.step s s h (TRel.refl _) rfl rfl ?_ ?_ (fun _ h' => h') (Nat.le_refl _) rfl rfl
  · intro e he _; simp only [List.append_nil] at he; exact List.mem_append_left _ he
  · intro e he hf
    rcases List.mem_append.mp he with h1 | h1
    · simpa using h1
    · simp only [List.mem_singleton] at h1; subst h1; exact absurd hf hne

theorem pg_skel_push2 (l : Array LogE) (a b : LogE) (ha : pg_sk a = none) (hb : pg_sk b = none) :
    pg_skel ((l.push a).push b).toList = pg_skel l.toList := by
  rw [pg_skel_push_other _ _ hb, pg_skel_push_other _ _ ha]

/-- What a successful `Task.finish` did. -/
theorem doFinish_ok (x : TaskS) (h : (x.call (.finish none)).2 = none) :
    (x.call (.finish none)).1.state ≠ .running ∧ (x.call (.finish none)).1.pre = x.pre := by
  simp only [TaskS.call, TaskS.doFinish] at h ⊢
  split at h
  · simp at h
  · rename_i hst
    rw [if_neg hst]
    constructor
    · simp only []; split <;> simp
    · rfl

/-- **TASK_FINISHED**: `Task.finish` succeeded on the task of the handled event `e0`; the
event is forgotten. -/
theorem PG.removeFinish (s s' : SimS) (t : TaskId) (e0 : SEvent) (htid : e0.tid = some t)
    (h : PG none [e0] s) (g : GraphS) (x : TaskS) (hg : s.graphs[t.g]? = some g) (hx : g.task? t.t = some x)
    (hfin : (x.call (.finish none)).2 = none)
    (hgr : s'.graphs = s.graphs.setIfInBounds t.g (g.setTask t.t (x.call (.finish none)).1))
    (hn : s'.now = s.now) (hl : pg_skel s'.log.toList = pg_skel s.log.toList)
    (hq : s'.queue = s.queue) (hfu : s'.future = s.future) (hns : s'.nextSched = s.nextSched)
    (hid : s'.nextEid = s.nextEid) (ha : s'.allGraphs = s.allGraphs) (hj : s'.jobs = s.jobs) : PG none [] s' := by
  have hT : taskAt s.graphs t = some x := taskAt_of _ _ g x hg hx
  obtain ⟨hT't, hT'o⟩ := taskAt_setTask s.graphs t g x (x.call (.finish none)).1 hg hx
  obtain ⟨hnr, hpre⟩ := doFinish_ok x hfin
  refine ⟨?_, ?_, ?_, by rw [ha]; exact h.allQ, by rw [hj]; exact h.tmplQ, by unfold LG; rw [hl, hn]; exact h.lg⟩
  · intro u y hu
    rw [hgr] at hu
    by_cases hut : u = t
    · subst hut
      rw [hT't] at hu; cases hu
      have := h.pre u x hT
      unfold TaskS.PreOK at this ⊢
      rw [hpre]; exact this
    · rw [hT'o u hut] at hu; exact h.pre u y hu
  · intro u y hu hs hr _
    rw [hgr] at hu
    by_cases hut : u = t
    · subst hut
      rw [hT't] at hu; cases hu
      exact absurd hs hnr
    · rw [hT'o u hut] at hu
      obtain ⟨e, he, h1, h2, h3⟩ := h.due u y hu hs hr (by simp)
      refine ⟨e, ?_, h1, h2, by rw [hn]; exact h3⟩
      rcases List.mem_append.mp he with h4 | h4
      · rw [hq]; simpa using h4
      · simp only [List.mem_singleton] at h4
        subst h4
        rw [htid] at h2; cases h2; exact absurd rfl hut
  · rw [hq, hfu, hns, hid]
    exact h.eids.benign (fun e he _ => by simp only [List.append_nil] at he; exact List.mem_append_left _ he)
      (fun _ h' => Or.inl h') (Nat.le_refl _)

theorem finishRemove_p (t : TaskId) (time : Int) (e0 : SEvent) (htid : e0.tid = some t) :
    ⦃PA [e0]⦄ finishRemove t time ⦃post⟨fun _ => PA [], fun _ _ => ⌜True⌝⟩⦄ := by
  rmvcgen [finishRemove, getTask, getGraph, getPool, setPool, raiseOutcome, logE, taskCall, setGraph, raiseTask]
  all_goals first
    | pg_frame
    | (have h := ‹PG none _ _›
       exact PG.removeFinish _ _ t e0 htid h _ _ ‹_› ‹_› ‹_›
         rfl rfl (pg_skel_push2 _ _ _ rfl rfl) rfl rfl rfl rfl rfl rfl)

/-- TASK_FINISHED, for the popped event `ev` (kept in `ex` while it is handled). -/
theorem handleTaskFinished_p (ev : SEvent) :
    ⦃PA [ev]⦄ handleTaskFinished ev ⦃post⟨fun _ => PA [], fun _ _ => ⌜True⌝⟩⦄ := by
  have h_fr : ∀ t time, ev.tid = some t → ⦃PA [ev]⦄ finishRemove t time ⦃post⟨fun _ => PA [], fun _ _ => ⌜True⌝⟩⦄ :=
    fun t time h1 => finishRemove_p t time ev h1
  have h_rows := finishRows_p []
  have h_not := finishNotify_p []
  rmvcgen [handleTaskFinished, h_fr, h_rows, h_not]
  all_goals pg_frame

/-! ### TASK_PLACEMENT -/

/-- The task started (`Task.start` succeeded) with work left: no new obligation. -/
theorem PG.placeStart {ex : List SEvent} (s s' : SimS) (t : TaskId) (time fuzzed : Int)
    (h : PG none ex s) (g : GraphS) (x : TaskS) (hg : s.graphs[t.g]? = some g) (hx : g.task? t.t = some x)
    (hstart : (x.doStart time fuzzed).2 = none)
    (x2 : TaskS) (a : Int) (hrt : x2.remainingTime = .ok a) (ha0 : ¬ (a == 0) = true)
    (g2 : GraphS) (hx2 : g2.task? t.t = some x2)
    (hg2 : (s.graphs.setIfInBounds t.g (g.setTask t.t (x.doStart time fuzzed).1))[t.g]? = some g2)
    (hgr : s'.graphs = s.graphs.setIfInBounds t.g (g.setTask t.t (x.doStart time fuzzed).1))
    (hn : s'.now = s.now) (hl : pg_skel s'.log.toList = pg_skel s.log.toList)
    (hq : s'.queue = s.queue) (hfu : s'.future = s.future) (hns : s'.nextSched = s.nextSched)
    (hid : s'.nextEid = s.nextEid) (ha : s'.allGraphs = s.allGraphs) (hj : s'.jobs = s.jobs) : PG none ex s' := by
  have hT : taskAt s.graphs t = some x := taskAt_of _ _ g x hg hx
  obtain ⟨_, _, k1, _, _, k4, k5⟩ := doStart_ok x time fuzzed hstart
  obtain ⟨hT't, hT'o⟩ := taskAt_setTask s.graphs t g x (x.doStart time fuzzed).1 hg hx
  have hx2' : x2 = (x.doStart time fuzzed).1 := by
    have := taskAt_of _ t g2 x2 hg2 hx2
    rw [hT't] at this; cases this; rfl
  have hrem : (x.doStart time fuzzed).1.remaining ≠ some 0 := by
    rw [hx2'] at hrt
    simp only [TaskS.remainingTime, k1, k4] at hrt
    cases hrt
    rw [k4]
    intro he; cases he; exact ha0 rfl
  refine ⟨?_, ?_, ?_, by rw [ha]; exact h.allQ, by rw [hj]; exact h.tmplQ, by unfold LG; rw [hl, hn]; exact h.lg⟩
  · intro u y hu
    rw [hgr] at hu
    by_cases hut : u = t
    · subst hut
      rw [hT't] at hu; cases hu
      have := h.pre u x hT
      unfold TaskS.PreOK at this ⊢
      rw [k5]; exact this
    · rw [hT'o u hut] at hu; exact h.pre u y hu
  · intro u y hu hs hr _
    rw [hgr] at hu
    by_cases hut : u = t
    · subst hut
      rw [hT't] at hu; cases hu
      exact absurd hr hrem
    · rw [hT'o u hut] at hu
      obtain ⟨e, he, h1, h2, h3⟩ := h.due u y hu hs hr (by simp)
      exact ⟨e, by rw [hq]; exact he, h1, h2, by rw [hn]; exact h3⟩
  · rw [hq, hfu, hns, hid]; exact h.eids

/-- **The task started with no work left: its TASK_FINISHED event is created and queued at
once**, stamped with the time of the handled event (not later than the clock). -/
theorem PG.placeStartFin {ex : List SEvent} (s s' : SimS) (t : TaskId) (time fuzzed : Int) (htime : time ≤ s.now)
    (h : PG none ex s) (g : GraphS) (x : TaskS) (hg : s.graphs[t.g]? = some g) (hx : g.task? t.t = some x)
    (hstart : (x.doStart time fuzzed).2 = none)
    (e : SEvent) (hq : s'.queue = Heap.heappush SEvent.lt s.queue e)
    (hty : e.ev.etype = ET.taskFinished) (htid : e.tid = some t) (hetime : e.ev.time = time) (heid : e.ev.eid = s.nextEid)
    (hgr : s'.graphs = s.graphs.setIfInBounds t.g (g.setTask t.t (x.doStart time fuzzed).1))
    (hn : s'.now = s.now) (hl : pg_skel s'.log.toList = pg_skel s.log.toList)
    (hfu : s'.future = s.future) (hns : s'.nextSched = s.nextSched)
    (hid : s'.nextEid = s.nextEid + 1) (ha : s'.allGraphs = s.allGraphs) (hj : s'.jobs = s.jobs) : PG none ex s' := by
  have hT : taskAt s.graphs t = some x := taskAt_of _ _ g x hg hx
  obtain ⟨_, _, k1, _, _, k4, k5⟩ := doStart_ok x time fuzzed hstart
  obtain ⟨hT't, hT'o⟩ := taskAt_setTask s.graphs t g x (x.doStart time fuzzed).1 hg hx
  have hmem : ∀ e' ∈ s'.queue.toList ++ ex, e' ∈ s.queue.toList ++ ex ∨ e' = e := by
    intro e' he'
    rw [hq] at he'
    rcases List.mem_append.mp he' with h1 | h1
    · rcases mem_heappush _ _ _ h1 with h2 | h2
      · exact Or.inl (List.mem_append_left _ h2)
      · exact Or.inr h2
    · exact Or.inl (List.mem_append_right _ h1)
  have hmem2 : ∀ e' ∈ s.queue.toList ++ ex, e' ∈ s'.queue.toList ++ ex := by
    intro e' he'
    rw [hq]
    rcases List.mem_append.mp he' with h1 | h1
    · refine List.mem_append_left _ ?_
      exact Array.mem_toList_iff.mpr (((Heap.heappush_perm SEvent.lt s.queue e).mem_iff (a := e')).mpr
        (Array.mem_push.mpr (Or.inl (Array.mem_toList_iff.mp h1))))
    · exact List.mem_append_right _ h1
  refine ⟨?_, ?_, ?_, by rw [ha]; exact h.allQ, by rw [hj]; exact h.tmplQ, by unfold LG; rw [hl, hn]; exact h.lg⟩
  · intro u y hu
    rw [hgr] at hu
    by_cases hut : u = t
    · subst hut
      rw [hT't] at hu; cases hu
      have := h.pre u x hT
      unfold TaskS.PreOK at this ⊢
      rw [k5]; exact this
    · rw [hT'o u hut] at hu; exact h.pre u y hu
  · intro u y hu hs hr _
    rw [hgr] at hu
    by_cases hut : u = t
    · subst hut
      refine ⟨e, ?_, hty, htid, by rw [hetime, hn]; exact htime⟩
      rw [hq]; exact List.mem_append_left _ (mem_heappush_self _ _)
    · rw [hT'o u hut] at hu
      obtain ⟨e1, he1, h1, h2, h3⟩ := h.due u y hu hs hr (by simp)
      exact ⟨e1, hmem2 e1 he1, h1, h2, by rw [hn]; exact h3⟩
  · rw [hfu, hns, hid]
    have := h.eids
    refine ⟨fun y hy => Nat.lt_succ_of_lt (this.efLt y hy), ?_, ?_⟩
    · intro e' he' hf
      rcases hmem e' he' with h1 | h1
      · exact Nat.lt_succ_of_lt (this.finLt e' h1 hf)
      · rw [h1, heid]; exact Nat.lt_succ_self _
    · intro e' he' hf hef
      rcases hmem e' he' with h1 | h1
      · exact this.finNotEF e' h1 hf hef
      · rw [h1, heid] at hef
        exact Nat.lt_irrefl _ (this.efLt _ hef)

/-- WORKER_NOT_READY: a new placement event one microsecond later is queued and kept. -/
theorem PG.notPlaced {ex : List SEvent} (s s' : SimS) (h : PG none ex s)
    (e : SEvent) (hq : s'.queue = Heap.heappush SEvent.lt s.queue e)
    (he : e.ev.etype ≠ ET.taskFinished) (heid : e.ev.eid = s.nextEid) (t : TaskId)
    (hg : s'.graphs = s.graphs) (hn : s'.now = s.now) (hl : s'.log = s.log)
    (hfu : s'.future = s.future.set t e.ev.eid) (hns : s'.nextSched = s.nextSched) (hid : s'.nextEid = s.nextEid + 1)
    (ha : s'.allGraphs = s.allGraphs) (hj : s'.jobs = s.jobs) : PG none ex s' := by
  let s2 : SimS := { s with nextEid := s.nextEid + 1, queue := Heap.heappush SEvent.lt s.queue e }
  have h2 : PG none ex s2 := PG.step s s2 h (TRel.refl _) rfl rfl (mem_queue_push _ _ _ he) (mem_queue_push2 _ _ _)
    (fun _ h' => h') (Nat.le_succ _) rfl rfl
  refine PG.efAdd s2 s' h2 e.ev.eid (by rw [heid]; exact Nat.lt_succ_self _) ?_ hg hn hl hq
    (by rw [hfu, hns]; exact EF_set _ _ _ _) hid ha hj
  intro e' he' hf
  have := mem_queue_push s.queue ex e he e' he' hf
  rw [heid]
  exact h.eids.finLt e' this hf

set_option maxHeartbeats 1600000 in
theorem placementPlace_p (ex : List SEvent) (ev : SEvent) (t : TaskId) (p : PlacementS) (g : GraphS)
    (h : g.isReadyToRun t.t = true) :
    ⦃fun s => ⌜(PG none ex s ∧ ev.ev.time ≤ s.now) ∧ s.graphs[t.g]? = some g⌝⦄ placementPlace ev t p g h
    ⦃post⟨fun _ => PA ex, fun _ _ => ⌜True⌝⟩⦄ := by
  have h_prow := placementRow_p ex
  have h_row := row_p ex
  rmvcgen [placementPlace, getTask, getGraph, getPool, setPool, raisePlace, logE, liftTape, liftE, startTask, setGraph,
    raiseTask, mkEvent, uniqueName, addEvent, h_prow, h_row]
  all_goals first
    | pg_frame
    | (rs_hyps h => exact h.1.1)
    | (have h0 := ‹(PG none _ _ ∧ _) ∧ _›
       exact PG.placeStart _ _ t _ _ h0.1.1 g _ h0.2 ‹g.task? t.t = some _› ‹_›
         _ _ ‹(_ : TaskS).remainingTime = Except.ok _› ‹_› _ ‹_› ‹_›
         rfl rfl (pg_skel_push2 _ _ _ rfl rfl) rfl rfl rfl rfl rfl rfl)
    | (have h0 := ‹(PG none _ _ ∧ _) ∧ _›
       exact PG.placeStartFin _ _ t _ _ h0.1.2 h0.1.1 g _ h0.2 ‹g.task? t.t = some _› ‹_›
         _ rfl rfl rfl rfl rfl rfl rfl (pg_skel_push2 _ _ _ rfl rfl) rfl rfl rfl rfl rfl)
    | (have h0 := ‹(PG none _ _ ∧ _) ∧ _›
       exact PG.notPlaced _ _ h0.1.1 _ rfl (by show ET.taskPlacement ≠ ET.taskFinished; decide) rfl t
         rfl rfl rfl rfl rfl rfl rfl rfl)
    | (pg_step; exact EF_erase _ _ _)

/-- TASK_PLACEMENT, handled when the clock has reached the time of the event. -/
theorem handleTaskPlacement_p (ex : List SEvent) (ev : SEvent) :
    ⦃fun s => ⌜PG none ex s ∧ ev.ev.time ≤ s.now⌝⦄ handleTaskPlacement ev ⦃post⟨fun _ => PA ex, fun _ _ => ⌜True⌝⟩⦄ := by
  have h_pp := fun t p g h => placementPlace_p ex ev t p g h
  have h_nr := placementNotReady_p ex
  rmvcgen [handleTaskPlacement, getGraph, h_pp, h_nr]
  all_goals first
    | pg_frame
    | (rs_hyps h => exact h.1)
    | (rs_hyps h => rs_hyps h2 => exact ⟨h, h2⟩)

end ErdosVerif.Model.Sim
