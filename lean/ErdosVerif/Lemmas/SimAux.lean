import Lean
import ErdosVerif.Model.Sim
import ErdosVerif.Lemmas.LedgerPool
import ErdosVerif.Lemmas.GraphInv
import ErdosVerif.Lemmas.Event
/-!
Auxiliary declarations for the proofs over `Model/Sim.lean`.

`mvcgen`, `split` and `simp` generate, on demand, congruence equations for the `match`
expressions of the program they work on (`f.match_N.congr_eq_K`, together with nested
helper declarations) and equations for sparse `casesOn` combinators (`….else_eq`). They are
added to the module in which the tactic happens to run first. Two modules that verify the
simulator model independently of each other (e.g. `Lemmas/SimInv.lean` and
`Lemmas/SimCensus.lean`) would then both define the same helper names and could not be
imported together (the registry audit imports all modules of a property at once).

This module generates these declarations once, for every matcher and sparse `casesOn` of
`Model/Sim.lean` and of the models it is built on (`Task`, `TaskGraph`, `Ledger`, `Heap`,
`Event`); it imports the lemma libraries over those models so that whatever they already
generated is reused. Every development over the simulator model imports it (directly or
through `Lemmas/SimInv.lean`). It contains no definitions, theorems or attributes of its own.
-/
open Lean Meta in
run_meta do
  let env ← getEnv
  let mods := [`ErdosVerif.Model.Sim, `ErdosVerif.Model.Task, `ErdosVerif.Model.TaskGraph, `ErdosVerif.Model.Ledger,
    `ErdosVerif.Model.Heap, `ErdosVerif.Model.Event]
  let idxs := mods.filterMap env.getModuleIdx?
  if idxs.length != mods.length then throwError "a model module is not imported"
  let names := env.constants.map₁.toList.filterMap fun (n, _) =>
    match env.getModuleIdxFor? n with
    | some i => if idxs.contains i then some n else none
    | none => none
  let names := names.toArray.qsort (fun a b => a.toString < b.toString)
  for n in names do
    if (← getMatcherInfo? n).isSome then
      discard <| Match.genMatchCongrEqns n
  -- sparse `casesOn` combinators of the model
  for n in names do
    if (← getSparseCasesOnInfo n).isSome then
      discard <| getSparseCasesOnEq n
