import ErdosVerif.Lemmas.SimProgressStep
/-!
Progress of the `simulate()` loop, part 6: `__handle_event`, one iteration of the loop.
-/
open Std.Do
set_option mvcgen.warning false

namespace ErdosVerif.Model.Sim

/-- The pop entry is appended: the owed entry becomes a real one. -/
theorem PG.popLogged {ex : List SEvent} (s s' : SimS) (a : Int) (b : Nat) (h : PG none ex (popped s))
    (hg : s'.graphs = s.graphs) (hn : s'.now = s.now) (hl : s'.log = s.log.push (.pop a b))
    (hq : s'.queue = s.queue) (hf : s'.future = s.future) (hns : s'.nextSched = s.nextSched)
    (hid : s'.nextEid = s.nextEid) (ha : s'.allGraphs = s.allGraphs) (hj : s'.jobs = s.jobs) : PG none ex s' :=
  PG.congr (popped s) s' h hg hn (by rw [hl, pg_skel_push_pop]; exact (pg_skel_push_pop _ _ _).symm) hq hf hns hid ha hj

theorem ne_fin_of_beq {ty k : Nat} (h : (ty == k) = true) (hk : k ≠ ET.taskFinished) : ty ≠ ET.taskFinished := by
  have : ty = k := by simpa using h
  rw [this]; exact hk

theorem ne_fin_of_not {ty : Nat} (h : ¬ (ty == ET.taskFinished) = true) : ty ≠ ET.taskFinished := by
  intro he; apply h; simp [he]

set_option maxHeartbeats 800000 in
/-- `__handle_event` for the popped event `ev`, due now or earlier; the pop entry is still owed. -/
theorem handleEvent_p (ev : SEvent) :
    ⦃fun s => ⌜PG none [ev] (popped s) ∧ ev.ev.time ≤ s.now⌝⦄ handleEvent ev
    ⦃post⟨fun _ => PA [], fun _ _ => ⌜True⌝⟩⦄ := by
  have h_row := row_p []
  have h_cancel := handleTaskCancel_p []
  have h_prof := handleProfile_p []
  have h_fin := handleTaskFinished_p ev
  have h_tgr := handleTaskGraphRelease_p []
  have h_rel := handleTaskRelease_p []
  have h_upd := handleUpdateWorkload_p []
  have h_place := handleTaskPlacement_p [] ev
  have h_ss := handleSchedulerStart_p []
  have h_sf := handleSchedulerFinish_p []
  have h_util := logUtilization_p []
  rmvcgen [handleEvent, logE, h_row, h_cancel, h_prof, h_fin, h_tgr, h_rel, h_upd, h_place, h_ss, h_sf, h_util]
  all_goals first
    | pg_frame
    | (rs_hyps h => exact PG.popLogged _ _ _ _ h.1 rfl rfl rfl rfl rfl rfl rfl rfl rfl)
    | (rs_hyps h =>
        refine PG.dropEx (PG.popLogged _ _ _ _ h.1 rfl rfl rfl rfl rfl rfl rfl rfl rfl) ?_
        first
          | exact ne_fin_of_beq ‹_› (by decide)
          | exact ne_fin_of_not ‹_›)
    | (rs_hyps h =>
        refine ⟨PG.dropEx (PG.popLogged _ _ _ _ h.1 rfl rfl rfl rfl rfl rfl rfl rfl rfl) ?_, h.2⟩
        first
          | exact ne_fin_of_beq ‹_› (by decide)
          | exact ne_fin_of_not ‹_›)

/-! ### one iteration of the loop -/

/-- The placed tasks as `iter` reads them (`WorkerPools.get_placed_tasks()`). -/
def placedList (s : SimS) : List TaskId := s.pools.toList.flatMap (fun p => p.placed.map (fun q => ungid q.1))

/-- What the loop head must know to exclude a zero-length step without a pop: **whenever a
placed task has remaining time 0, the event at the head of the queue is due now or earlier.** -/
def NoStallPre (s : SimS) : Prop :=
  ∀ t ∈ placedList s, ∀ x, taskAt s.graphs t = some x → x.remainingTime = .ok 0 →
    ∀ head, s.queue[0]? = some head → head.ev.time ≤ s.now

/-- Loop invariant of the loop that collects the remaining times of the placed tasks (the
state does not change): every collected value is the remaining time of a placed task. -/
def RemsInv2 (s0 : SimS) (pref : List TaskId) (rems : List Int) (s : SimS) : Prop :=
  s = s0 ∧ rems.length = pref.length ∧
    ∀ r ∈ rems, ∃ t ∈ pref, ∃ x, taskAt s0.graphs t = some x ∧ x.remainingTime = .ok r

theorem remsInv2_step {s0 s : SimS} {pref : List TaskId} {rems : List Int} (cur : TaskId) (g : GraphS) (x : TaskS) (a : Int)
    (h : RemsInv2 s0 pref rems s) (hg : s.graphs[cur.g]? = some g) (hx : g.task? cur.t = some x)
    (ha : x.remainingTime = .ok a) : RemsInv2 s0 (pref ++ [cur]) (rems ++ [a]) s := by
  obtain ⟨rfl, hlen, hr⟩ := h
  refine ⟨rfl, by simp [hlen], ?_⟩
  intro r hr'
  rcases List.mem_append.mp hr' with h1 | h1
  · obtain ⟨t, ht, y, hy, hyr⟩ := hr r h1
    exact ⟨t, List.mem_append_left _ ht, y, hy, hyr⟩
  · simp only [List.mem_singleton] at h1
    subst h1
    exact ⟨cur, by simp, x, taskAt_of _ _ g x hg hx, ha⟩

theorem foldl_min_mem (rs : List Int) : ∀ (r0 : Int), rs.foldl min r0 ∈ r0 :: rs := by
  induction rs with
  | nil => intro r0; simp
  | cons a rs ih =>
    intro r0
    simp only [List.foldl_cons]
    have := ih (min r0 a)
    rcases List.mem_cons.mp this with h | h
    · rw [h]
      by_cases hle : r0 ≤ a
      · rw [Int.min_eq_left hle]; simp
      · rw [Int.min_eq_right (by omega)]; simp
    · exact List.mem_cons_of_mem _ (List.mem_cons_of_mem _ h)

/-- **The non-popping branch advances the clock**: the smallest remaining time of the placed
tasks, when it is smaller than the time to the next event and not negative, is positive. -/
theorem minRem_pos {s0 s : SimS} {rems : List Int} (h : RemsInv2 s0 (placedList s0) rems s) (hns : NoStallPre s0)
    (hne' : (!(placedList s0).isEmpty) = true)
    (head : SEvent) (hh : s0.queue[0]? = some head) (hlt : minRemOf rems < head.ev.time - s0.now)
    (h0 : 0 ≤ minRemOf rems) : 0 < minRemOf rems := by
  have hne : placedList s0 ≠ [] := by
    intro he; rw [he] at hne'; simp at hne'
  rcases Int.lt_or_eq_of_le h0 with hpos | hz
  · exact hpos
  · exfalso
    cases rems with
    | nil =>
      have := h.2.1
      simp only [List.length_nil] at this
      exact hne (List.eq_nil_of_length_eq_zero this.symm)
    | cons r rs =>
      have hm : minRemOf (r :: rs) ∈ r :: rs := foldl_min_mem rs r
      obtain ⟨t, ht, x, hx, hxr⟩ := h.2.2 _ hm
      rw [← hz] at hxr
      have := hns t ht x hx hxr head hh
      omega

/-- The event `heappop` returns is kept aside while it is handled. -/
theorem PG.afterPop (s s' : SimS) (e : SEvent) (q' : Array SEvent) (h : PG none [] (popped s))
    (hpop : Heap.heappop SEvent.lt s.queue = some (e, q'))
    (hg : s'.graphs = s.graphs) (hn : s'.now = s.now) (hl : s'.log = s.log)
    (hq : s'.queue = q') (hfu : s'.future = s.future) (hns : s'.nextSched = s.nextSched)
    (hid : s'.nextEid = s.nextEid) (ha : s'.allGraphs = s.allGraphs) (hj : s'.jobs = s.jobs) :
    PG none [e] (popped s') := by
  obtain ⟨h1, h2⟩ := mem_heappop s.queue q' e hpop
  have hp := Heap.heappop_perm SEvent.lt s.queue e q' hpop
  refine PG.step (popped s) (popped s') h ?_ hn ?_ ?_ ?_ ?_ ?_ ha hj
  · show TRel (taskAt s.graphs) (taskAt s'.graphs); rw [hg]; exact TRel.refl _
  · show pg_skel (s'.log.push _).toList = pg_skel (s.log.push _).toList; rw [hl]
  · intro e' he' _
    show e' ∈ s.queue.toList ++ []
    have he'' : e' ∈ s'.queue.toList ++ [e] := he'
    rw [hq] at he''
    rcases List.mem_append.mp he'' with h3 | h3
    · exact List.mem_append_left _ (h1 e' h3)
    · simp only [List.mem_singleton] at h3
      rw [h3]; exact List.mem_append_left _ h2
  · intro e' he' _
    show e' ∈ s'.queue.toList ++ [e]
    have he'' : e' ∈ s.queue.toList ++ [] := he'
    simp only [List.append_nil] at he''
    rw [hq]
    have := (hp.mem_iff (a := e')).mpr (Array.mem_toList_iff.mp he'')
    rcases Array.mem_push.mp this with h3 | h3
    · exact List.mem_append_left _ (Array.mem_toList_iff.mpr h3)
    · rw [h3]; exact List.mem_append_right _ (List.mem_singleton.mpr rfl)
  · show ∀ x, EF s'.future s'.nextSched x → EF s.future s.nextSched x; rw [hfu, hns]; exact fun _ h' => h'
  · show s.nextEid ≤ s'.nextEid; rw [hid]; exact Nat.le_refl _

/-- Precondition of `__step` after the remaining times were collected. -/
theorem step_pre2 {s0 s : SimS} {pref : List TaskId} {rems : List Int} (h0 : PG none [] s0 ∧ NoStallPre s0)
    (h : RemsInv2 s0 pref rems s) :
    (PG none [] s ∧ s.now = s.now) ∧ RootA ((s.queue[0]?).map (·.ev.time)) s := by
  obtain ⟨rfl, _⟩ := h
  exact ⟨⟨h0.1, rfl⟩, rfl⟩

/-- The branch that does not pop: the clock moved by a positive amount, so the invariant
(including the log shape) holds again. -/
theorem nonpop_post {s0 s1 s : SimS} {rems : List Int} {n : Int} {R : Prop} (h0 : PG none [] s0 ∧ NoStallPre s0)
    (h : RemsInv2 s0 (placedList s0) rems s1) (hne : (!(placedList s0).isEmpty) = true)
    (head : SEvent) (hh : s0.queue[0]? = some head) (hlt : minRemOf rems < head.ev.time - s0.now)
    (hp : ((PGC (minRemOf rems) [] s ∧ s.now = n + minRemOf rems) ∧ 0 ≤ minRemOf rems) ∧ R) : PG none [] s :=
  hp.1.1.1.2 (minRem_pos h h0.2 hne head hh hlt hp.1.2)

/-- Precondition of `__handle_event` for the popped event. -/
theorem handle_pre2 {s0 s1 s2 s' : SimS} {rems : List Int} {pref : List TaskId} {dt : Int} (head e : SEvent) (q' : Array SEvent)
    (h : RemsInv2 s0 pref rems s1) (hh : s0.queue[0]? = some head) (hdt : dt = head.ev.time - s0.now)
    (hs : ((PGC dt [] s2 ∧ s2.now = s1.now + dt) ∧ 0 ≤ dt) ∧
      ∀ h1, s2.queue[0]? = some h1 → some h1.ev.time = (s1.queue[0]?).map (·.ev.time) ∨ h1.ev.time = s1.now + dt)
    (hp : Heap.heappop SEvent.lt s2.queue = some (e, q'))
    (hg : s'.graphs = s2.graphs) (hn : s'.now = s2.now) (hl : s'.log = s2.log)
    (hq : s'.queue = q') (hfu : s'.future = s2.future) (hns : s'.nextSched = s2.nextSched)
    (hid : s'.nextEid = s2.nextEid) (ha : s'.allGraphs = s2.allGraphs) (hj : s'.jobs = s2.jobs) :
    PG none [e] (popped s') ∧ e.ev.time ≤ s2.now := by
  obtain ⟨rfl, _⟩ := h
  refine ⟨PG.afterPop s2 s' e q' hs.1.1.1.1 hp hg hn hl hq hfu hns hid ha hj, ?_⟩
  have := popped_time s1 s2 head e s1.now dt hh hdt hs.1.1.2 hs.2 (popped_root _ _ _ hp)
  omega

theorem handle_pre2' {s0 s2 s' : SimS} {dt : Int} (head e : SEvent) (q' : Array SEvent)
    (hh : s0.queue[0]? = some head) (hdt : dt = head.ev.time - s0.now)
    (hs : ((PGC dt [] s2 ∧ s2.now = s0.now + dt) ∧ 0 ≤ dt) ∧
      ∀ h1, s2.queue[0]? = some h1 → some h1.ev.time = (s0.queue[0]?).map (·.ev.time) ∨ h1.ev.time = s0.now + dt)
    (hp : Heap.heappop SEvent.lt s2.queue = some (e, q'))
    (hg : s'.graphs = s2.graphs) (hn : s'.now = s2.now) (hl : s'.log = s2.log)
    (hq : s'.queue = q') (hfu : s'.future = s2.future) (hns : s'.nextSched = s2.nextSched)
    (hid : s'.nextEid = s2.nextEid) (ha : s'.allGraphs = s2.allGraphs) (hj : s'.jobs = s2.jobs) :
    PG none [e] (popped s') ∧ e.ev.time ≤ s2.now := by
  refine ⟨PG.afterPop s2 s' e q' hs.1.1.1.1 hp hg hn hl hq hfu hns hid ha hj, ?_⟩
  have := popped_time s0 s2 head e s0.now dt hh hdt hs.1.1.2 hs.2 (popped_root _ _ _ hp)
  omega

set_option maxHeartbeats 1600000 in
/-- **One iteration of the `while True` loop of `simulate()`.** -/
theorem iter_p : ⦃fun s => ⌜PG none [] s ∧ NoStallPre s⌝⦄ iter ⦃post⟨fun _ s => ⌜PG none [] s⌝, fun _ _ => ⌜True⌝⟩⦄ := by
  have h_step := fun n dt T => step_p n dt T
  have h_he := fun ev => handleEvent_p ev
  rmvcgen [iter]
  split
  · rmvcgen [placedTasks, getTask, getGraph, liftE, popEvent, h_step, h_he]
    case inv1 =>
      rename_i s0 _ _ _ _ _
      exact post⟨fun p s => ⌜RemsInv2 s0 p.1.prefix p.2 s⌝, fun _ _ => ⌜True⌝⟩
    all_goals first
      | pg_frame
      | exact ⟨rfl, rfl, fun _ hm => by cases hm⟩
      | (have h := ‹RemsInv2 _ _ _ _›
         exact remsInv2_step _ _ _ _ h ‹_› ‹_› ‹_›)
      | (have h := ‹RemsInv2 _ _ _ _›
         have h0 := ‹PG none [] _ ∧ NoStallPre _›
         exact step_pre2 h0 h)
      | (rs_hyps h0 => exact ⟨⟨h0.1, rfl⟩, show _ = _ from rfl⟩)
      | (have h := ‹RemsInv2 _ _ _ _›
         have h0 := ‹PG none [] _ ∧ NoStallPre _›
         exact nonpop_post h0 h ‹_› _ ‹_› ‹_› ‹_›)
      | (have h := ‹RemsInv2 _ _ _ _›
         exact handle_pre2 _ _ _ h ‹_› rfl ‹_› ‹_› rfl rfl rfl rfl rfl rfl rfl rfl rfl)
      | (exact handle_pre2' _ _ _ ‹_› rfl ‹_› ‹_› rfl rfl rfl rfl rfl rfl rfl rfl rfl)
      | skip
    all_goals
      refine ⟨⟨?_, rfl⟩, ?_⟩
      · rs_hyps h0 => exact h0.1
      · unfold RootA; rfl
  · mvcgen
    all_goals pg_frame

end ErdosVerif.Model.Sim
