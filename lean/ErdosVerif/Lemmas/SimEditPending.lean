import ErdosVerif.Model.Sim
import ErdosVerif.Lemmas.SimAux
/-!
`Sim.editPending`: the in-place edit of a cached TASK_PLACEMENT event that is still in the
local list of `__handle_scheduler_finish` (second placement of a task within one scheduler
answer). The edit changes the time and the placement of at most the events with the cached
id; identity, type, task and the length / order of the list are kept. Every development
over the simulator model that tracks the pending list uses these facts.
-/
namespace ErdosVerif.Model.Sim

/-- The edit applied to one event. -/
def retime (pt : Int) (p : PlacementS) (e : SEvent) : SEvent :=
  { e with ev := { e.ev with time := pt }, placement := some p }

@[simp] theorem retime_eid (pt : Int) (p : PlacementS) (e : SEvent) : (retime pt p e).ev.eid = e.ev.eid := rfl
@[simp] theorem retime_etype (pt : Int) (p : PlacementS) (e : SEvent) : (retime pt p e).ev.etype = e.ev.etype := rfl
@[simp] theorem retime_task (pt : Int) (p : PlacementS) (e : SEvent) : (retime pt p e).ev.task = e.ev.task := rfl
@[simp] theorem retime_tid (pt : Int) (p : PlacementS) (e : SEvent) : (retime pt p e).tid = e.tid := rfl
@[simp] theorem retime_graph (pt : Int) (p : PlacementS) (e : SEvent) : (retime pt p e).graph = e.graph := rfl
@[simp] theorem retime_time (pt : Int) (p : PlacementS) (e : SEvent) : (retime pt p e).ev.time = pt := rfl
@[simp] theorem retime_placement (pt : Int) (p : PlacementS) (e : SEvent) : (retime pt p e).placement = some p := rfl

/-- Every event of the edited list is an event of the old list, or the re-timed copy of one
whose id is the cached id. -/
theorem mem_editPending {c : Option Nat} {p : PlacementS} {evs : List SEvent} {e : SEvent}
    (h : e ∈ editPending c p evs) :
    e ∈ evs ∨ ∃ eid pt e0, c = some eid ∧ p.time = some pt ∧ e0 ∈ evs ∧ e0.ev.eid = eid ∧ e = retime pt p e0 := by
  unfold editPending at h
  split at h
  · rename_i eid pt hpt
    obtain ⟨e0, he0, rfl⟩ := List.mem_map.mp h
    by_cases hc : (e0.ev.eid == eid) = true
    · right
      refine ⟨eid, pt, e0, rfl, hpt, he0, eq_of_beq hc, ?_⟩
      simp only [hc, if_true]; rfl
    · left
      simp only [hc]
      exact he0
  · exact Or.inl h

/-- A property of events that the edit keeps holds of the edited list when it holds of the
old one. -/
theorem editPending_forall {P : SEvent → Prop} (hP : ∀ pt p e, P e → P (retime pt p e))
    (c : Option Nat) (p : PlacementS) (evs : List SEvent) (h : ∀ e ∈ evs, P e) :
    ∀ e ∈ editPending c p evs, P e := by
  intro e he
  rcases mem_editPending he with he | ⟨_, pt, e0, _, _, he0, _, rfl⟩
  · exact h e he
  · exact hP pt p e0 (h e0 he0)

/-- Without a cached event the list is unchanged. -/
@[simp] theorem editPending_none (p : PlacementS) (evs : List SEvent) : editPending none p evs = evs := by
  unfold editPending; rfl

@[simp] theorem editPending_nil (c : Option Nat) (p : PlacementS) : editPending c p [] = [] := by
  unfold editPending; split <;> rfl

@[simp] theorem editPending_length (c : Option Nat) (p : PlacementS) (evs : List SEvent) :
    (editPending c p evs).length = evs.length := by
  unfold editPending; split <;> simp

/-- The identities, types and tasks of the pending events are unchanged. -/
theorem editPending_map_eid (c : Option Nat) (p : PlacementS) (evs : List SEvent) :
    (editPending c p evs).map (·.ev.eid) = evs.map (·.ev.eid) := by
  unfold editPending
  split
  · rw [List.map_map]
    apply List.map_congr_left
    intro e _
    simp only [Function.comp]
    split <;> rfl
  · rfl

theorem editPending_map_etype (c : Option Nat) (p : PlacementS) (evs : List SEvent) :
    (editPending c p evs).map (·.ev.etype) = evs.map (·.ev.etype) := by
  unfold editPending
  split
  · rw [List.map_map]
    apply List.map_congr_left
    intro e _
    simp only [Function.comp]
    split <;> rfl
  · rfl

theorem editPending_map_tid (c : Option Nat) (p : PlacementS) (evs : List SEvent) :
    (editPending c p evs).map (·.tid) = evs.map (·.tid) := by
  unfold editPending
  split
  · rw [List.map_map]
    apply List.map_congr_left
    intro e _
    simp only [Function.comp]
    split <;> rfl
  · rfl

end ErdosVerif.Model.Sim
