import ErdosVerif.Model.Ledger
/-!
Helper lemmas for C04 (ledger conservation). Core Lean only.
Simp-normal form: quantities are read with `getQ`, ledgers with `allocAt` /
`pairsAt`; vectors are compared through `vec_ext`.
-/
namespace ErdosVerif.Model

/-- Quantity stored under the exact key `k` (0 when absent). -/
def getQ (v : Vec) (k : Res) : Nat := (AList.get? v k).getD 0

/-- Quantity recorded for the exact key `x` in a list of `(key, quantity)` pairs. -/
def pairsAt : List (Res × Nat) → Res → Nat
  | [], _ => 0
  | (r, q) :: t, x => (if r = x then q else 0) + pairsAt t x

/-- Quantity of the exact key `x` allocated over all computations. -/
def allocAt : AList Comp (List (Res × Nat)) → Res → Nat
  | [], _ => 0
  | (_, l) :: t, x => pairsAt l x + allocAt t x

@[simp] theorem pairsAt_nil (x : Res) : pairsAt [] x = 0 := rfl
@[simp] theorem allocAt_nil (x : Res) : allocAt [] x = 0 := rfl

theorem pairsAt_append (l₁ l₂ : List (Res × Nat)) (x : Res) :
    pairsAt (l₁ ++ l₂) x = pairsAt l₁ x + pairsAt l₂ x := by
  induction l₁ with
  | nil => simp
  | cons p t ih => obtain ⟨r, q⟩ := p; simp [pairsAt, ih]; omega

theorem pairsAt_take_drop (l : List (Res × Nat)) (n : Nat) (x : Res) :
    pairsAt (l.take n) x + pairsAt (l.drop n) x = pairsAt l x := by
  rw [← pairsAt_append, List.take_append_drop]

/-! ### association lists -/
section AListLemmas
variable {κ υ : Type} [DecidableEq κ]

theorem AList.get?_set (l : AList κ υ) (k x : κ) (v : υ) :
    AList.get? (AList.set l k v) x = if k = x then some v else AList.get? l x := by
  induction l with
  | nil => simp [AList.set, AList.get?]
  | cons p t ih =>
    obtain ⟨a, b⟩ := p
    simp only [AList.set]
    by_cases h : a = k
    · subst h; simp only [if_true, AList.get?]; split <;> rfl
    · simp only [h, if_false, AList.get?]
      by_cases h2 : a = x
      · subst h2
        have : ¬ k = a := fun e => h e.symm
        simp [this]
      · simp [h2, ih]

theorem AList.keys_set_of_mem (l : AList κ υ) (k : κ) (v : υ) (h : k ∈ AList.keys l) :
    AList.keys (AList.set l k v) = AList.keys l := by
  induction l with
  | nil => simp at h
  | cons p t ih =>
    obtain ⟨a, b⟩ := p
    simp only [AList.set]
    by_cases hak : a = k
    · simp [hak]
    · simp only [hak, if_false, AList.keys_cons]
      have hk : k ∈ AList.keys t := by
        simp only [AList.keys_cons, List.mem_cons] at h
        rcases h with h | h
        · exact absurd h.symm hak
        · exact h
      rw [ih hk]

theorem AList.keys_set_of_not_mem (l : AList κ υ) (k : κ) (v : υ) (h : k ∉ AList.keys l) :
    AList.keys (AList.set l k v) = AList.keys l ++ [k] := by
  induction l with
  | nil => simp [AList.set]
  | cons p t ih =>
    obtain ⟨a, b⟩ := p
    simp only [AList.keys_cons, List.mem_cons, not_or] at h
    simp only [AList.set]
    have hak : ¬ a = k := fun e => h.1 e.symm
    simp only [hak, if_false, AList.keys_cons, List.cons_append]
    rw [ih h.2]

theorem AList.get?_eq_none_of_not_mem (l : AList κ υ) (k : κ) (h : k ∉ AList.keys l) :
    AList.get? l k = none := by
  induction l with
  | nil => rfl
  | cons p t ih =>
    obtain ⟨a, b⟩ := p
    simp only [AList.keys_cons, List.mem_cons, not_or] at h
    have hak : ¬ a = k := fun e => h.1 e.symm
    simp only [AList.get?, hak, if_false]
    exact ih h.2

theorem AList.get?_isSome_of_mem (l : AList κ υ) (k : κ) (h : k ∈ AList.keys l) :
    (AList.get? l k).isSome = true := by
  induction l with
  | nil => simp at h
  | cons p t ih =>
    obtain ⟨a, b⟩ := p
    simp only [AList.get?]
    by_cases hak : a = k
    · simp [hak]
    · simp only [hak, if_false]
      simp only [AList.keys_cons, List.mem_cons] at h
      rcases h with h | h
      · exact absurd h.symm hak
      · exact ih h

theorem AList.mem_keys_of_get?_some (l : AList κ υ) (k : κ) (v : υ) (h : AList.get? l k = some v) :
    k ∈ AList.keys l := by
  by_cases hm : k ∈ AList.keys l
  · exact hm
  · rw [AList.get?_eq_none_of_not_mem l k hm] at h; cases h

theorem AList.mem_of_get?_some (l : AList κ υ) (k : κ) (v : υ) (h : AList.get? l k = some v) :
    (k, v) ∈ l := by
  induction l with
  | nil => simp [AList.get?] at h
  | cons p t ih =>
    obtain ⟨a, b⟩ := p
    simp only [AList.get?] at h
    by_cases hak : a = k
    · simp only [hak, if_true, Option.some.injEq] at h; subst h; subst hak; simp
    · simp only [hak, if_false] at h; exact List.mem_cons_of_mem _ (ih h)

theorem AList.keys_erase_subset (l : AList κ υ) (k x : κ) (h : x ∈ AList.keys (AList.erase l k)) :
    x ∈ AList.keys l := by
  induction l with
  | nil => simp [AList.erase] at h
  | cons p t ih =>
    obtain ⟨a, b⟩ := p
    simp only [AList.erase] at h
    by_cases hak : a = k
    · simp only [hak, if_true] at h; simp [h]
    · simp only [hak, if_false, AList.keys_cons, List.mem_cons] at h ⊢
      rcases h with h | h
      · exact Or.inl h
      · exact Or.inr (ih h)

theorem AList.mem_erase (l : AList κ υ) (k : κ) (p : κ × υ) (h : p ∈ AList.erase l k) : p ∈ l := by
  induction l with
  | nil => simp [AList.erase] at h
  | cons q t ih =>
    obtain ⟨a, b⟩ := q
    simp only [AList.erase] at h
    by_cases hak : a = k
    · simp only [hak, if_true] at h; exact List.mem_cons_of_mem _ h
    · simp only [hak, if_false, List.mem_cons] at h ⊢
      rcases h with h | h
      · exact Or.inl h
      · exact Or.inr (ih h)

theorem AList.mem_set (l : AList κ υ) (k : κ) (v : υ) (p : κ × υ) (h : p ∈ AList.set l k v) :
    p = (k, v) ∨ p ∈ l := by
  induction l with
  | nil => simp [AList.set] at h; exact Or.inl h
  | cons q t ih =>
    obtain ⟨a, b⟩ := q
    simp only [AList.set] at h
    by_cases hak : a = k
    · simp only [hak, if_true, List.mem_cons] at h
      rcases h with h | h
      · exact Or.inl h
      · exact Or.inr (List.mem_cons_of_mem _ h)
    · simp only [hak, if_false, List.mem_cons] at h
      rcases h with h | h
      · exact Or.inr (by simp [h])
      · rcases ih h with h | h
        · exact Or.inl h
        · exact Or.inr (List.mem_cons_of_mem _ h)

end AListLemmas

/-! ### vectors -/

theorem getQ_set (v : Vec) (k x : Res) (n : Nat) :
    getQ (AList.set v k n) x = if k = x then n else getQ v x := by
  unfold getQ; rw [AList.get?_set]; split <;> rfl

theorem getQ_of_not_mem (v : Vec) (k : Res) (h : k ∉ AList.keys v) : getQ v k = 0 := by
  unfold getQ; rw [AList.get?_eq_none_of_not_mem v k h]; rfl

theorem getQ_cons (r : Res) (q : Nat) (t : Vec) (x : Res) :
    getQ ((r, q) :: t) x = if r = x then q else getQ t x := by
  unfold getQ; simp only [AList.get?]; split <;> rfl

/-- Two vectors with the same (duplicate-free) key list and the same quantities are equal. -/
theorem vec_ext (v w : Vec) (hk : AList.keys v = AList.keys w) (hnd : (AList.keys v).Nodup)
    (hq : ∀ k, getQ v k = getQ w k) : v = w := by
  induction v generalizing w with
  | nil => cases w with
    | nil => rfl
    | cons p t => simp [AList.keys] at hk
  | cons p t ih =>
    obtain ⟨a, b⟩ := p
    cases w with
    | nil => simp [AList.keys] at hk
    | cons p' t' =>
      obtain ⟨a', b'⟩ := p'
      simp [AList.keys] at hk hnd
      obtain ⟨ha, hkt⟩ := hk
      subst ha
      have hb : b = b' := by simpa [getQ_cons] using hq a
      subst hb
      have : t = t' := by
        apply ih
        · simpa [AList.keys] using hkt
        · simpa [AList.keys] using hnd.2
        · intro k
          by_cases hka : a = k
          · subst hka
            rw [getQ_of_not_mem t a (by simpa [AList.keys] using hnd.1)]
            rw [getQ_of_not_mem t' a (by
              have : AList.keys t' = AList.keys t := by simp [AList.keys, hkt]
              rw [this]; simpa [AList.keys] using hnd.1)]
          · simpa [getQ_cons, hka] using hq k
      subst this; rfl

/-! ### the allocation scan -/

theorem scan_keys (k : Res) (v : Vec) (n : Nat) :
    AList.keys (Resources.scan k v n).1 = AList.keys v := by
  fun_induction Resources.scan k v n <;> simp_all

/-- Per exact key: what the scan took from the vector is what it recorded. -/
theorem scan_conserve (k : Res) (v : Vec) (n : Nat) (hnd : (AList.keys v).Nodup) :
    ∀ x, getQ (Resources.scan k v n).1 x + pairsAt (Resources.scan k v n).2 x = getQ v x := by
  induction v generalizing n with
  | nil => intro x; simp [Resources.scan, getQ, AList.get?]
  | cons p rest ih =>
    obtain ⟨r, q⟩ := p
    intro x
    simp only [AList.keys_cons, List.nodup_cons] at hnd
    obtain ⟨hr, hnd'⟩ := hnd
    have e1 := getQ_of_not_mem rest r hr
    have e2 : ∀ m, getQ (Resources.scan k rest m).1 r = 0 := fun m =>
      getQ_of_not_mem _ r (by rw [scan_keys]; exact hr)
    have e3 : ∀ m, pairsAt (Resources.scan k rest m).2 r = 0 := fun m => by
      have := ih m hnd' r; omega
    simp only [Resources.scan]
    by_cases hx : r = x
    · subst hx
      split
      · split
        · simp only [getQ_cons, pairsAt, if_true]; omega
        · split
          · simp only [getQ_cons, pairsAt, if_true, e3]; omega
          · simp only [getQ_cons, if_true, e3]; omega
      · split
        · simp [getQ_cons]
        · simp only [getQ_cons, if_true, e3]; omega
    · split
      · split
        · simp only [getQ_cons, pairsAt, hx, if_false]; omega
        · split
          · simp only [getQ_cons, pairsAt, hx, if_false]; have := ih (n - q) hnd' x; omega
          · simp only [getQ_cons, hx, if_false]; exact ih (n - q) hnd' x
      · split
        · simp [getQ_cons, hx]
        · simp only [getQ_cons, hx, if_false]; exact ih n hnd' x

/-- Every recorded pair is an entry of the vector that `==` the requested key. -/
theorem scan_recorded (k : Res) (v : Vec) (n : Nat) :
    ∀ p ∈ (Resources.scan k v n).2, p.1 ∈ AList.keys v ∧ p.1.matches k = true := by
  induction v generalizing n with
  | nil => simp [Resources.scan]
  | cons p rest ih =>
    obtain ⟨r, q⟩ := p
    intro p hp
    simp only [Resources.scan] at hp
    split at hp
    · rename_i hm
      split at hp
      · simp only [List.mem_singleton] at hp; subst hp; simp [hm]
      · split at hp
        · simp only [List.mem_cons] at hp
          rcases hp with hp | hp
          · subst hp; simp [hm]
          · have := ih _ p hp; simp [this.1, this.2]
        · have := ih _ p hp; simp [this.1, this.2]
    · split at hp
      · simp at hp
      · have := ih _ p hp; simp [this.1, this.2]

/-- Total recorded quantity. -/
def pairsSum : List (Res × Nat) → Nat
  | [] => 0
  | (_, q) :: t => q + pairsSum t

/-- A successful allocation takes exactly the requested quantity. -/
theorem scan_total (k : Res) (v : Vec) (n : Nat) (h : n ≤ sumMatching k v) :
    pairsSum (Resources.scan k v n).2 = n := by
  induction v generalizing n with
  | nil => simp [sumMatching] at h; simp [Resources.scan, pairsSum, h]
  | cons p rest ih =>
    obtain ⟨r, q⟩ := p
    simp only [Resources.scan]
    simp only [sumMatching] at h
    split
    · rename_i hm
      simp only [hm, if_true] at h
      split
      · simp [pairsSum]
      · split
        · simp only [pairsSum]; have := ih (n - q) (by omega); omega
        · have := ih (n - q) (by omega)
          show pairsSum (Resources.scan k rest (n - q)).2 = n
          omega
    · rename_i hm
      simp only [hm] at h
      split
      · rename_i hz; simp [pairsSum, hz]
      · exact ih n (by simpa using h)

/-! ### ledgers -/

theorem allocAt_set (a : AList Comp (List (Res × Nat))) (c : Comp) (l : List (Res × Nat)) (x : Res) :
    allocAt (AList.set a c l) x + pairsAt ((AList.get? a c).getD []) x = allocAt a x + pairsAt l x := by
  induction a with
  | nil => simp [AList.set, AList.get?, allocAt]
  | cons p t ih =>
    obtain ⟨c', l'⟩ := p
    simp only [AList.set, AList.get?]
    by_cases h : c' = c
    · simp [h, allocAt]; omega
    · simp only [h, if_false, allocAt]; omega

theorem allocAt_record (a : AList Comp (List (Res × Nat))) (c : Comp) (rec : List (Res × Nat)) (x : Res) :
    allocAt (Resources.record a c rec) x = allocAt a x + pairsAt rec x := by
  unfold Resources.record
  have := allocAt_set a c ((AList.get? a c).getD [] ++ rec) x
  rw [pairsAt_append] at this
  omega

theorem allocAt_erase (a : AList Comp (List (Res × Nat))) (c : Comp) (x : Res) :
    allocAt (AList.erase a c) x + pairsAt ((AList.get? a c).getD []) x = allocAt a x := by
  induction a with
  | nil => simp [AList.erase, AList.get?]
  | cons p t ih =>
    obtain ⟨c', l'⟩ := p
    simp only [AList.erase, AList.get?]
    by_cases h : c' = c
    · simp [h, allocAt]; omega
    · simp only [h, if_false, allocAt]; omega

theorem giveBack_keys (v : Vec) (l : List (Res × Nat)) (h : ∀ p ∈ l, p.1 ∈ AList.keys v) :
    AList.keys (Resources.giveBack v l) = AList.keys v := by
  induction l generalizing v with
  | nil => rfl
  | cons p t ih =>
    obtain ⟨k, q⟩ := p
    simp only [Resources.giveBack]
    have hk : k ∈ AList.keys v := h (k, q) (by simp)
    have e := AList.keys_set_of_mem v k ((AList.get? v k).getD 0 + q) hk
    rw [ih _ (by intro p hp; rw [e]; exact h p (by simp [hp])), e]

theorem giveBack_getQ (v : Vec) (l : List (Res × Nat)) (x : Res) :
    getQ (Resources.giveBack v l) x = getQ v x + pairsAt l x := by
  induction l generalizing v with
  | nil => simp [Resources.giveBack]
  | cons p t ih =>
    obtain ⟨k, q⟩ := p
    simp only [Resources.giveBack, pairsAt]
    rw [ih, getQ_set]
    by_cases h : k = x
    · subst h; simp [getQ]; omega
    · simp [h]

end ErdosVerif.Model
