/-
C17 — properties of the iterative `depth_first` model (`Graph.dfsLoop`,
`Graph.depthFirstWith`): fuel sufficiency, absence of errors on closed graphs,
yielded set = reachable set, `Nodup` of the repaired generator and
"current generator with duplicates dropped = repaired generator".

Everything is stated for an explicit `skip` flag (see `dfsSkipVisitedOnPop`).
-/
import ErdosVerif.Lemmas.GraphBasic

namespace ErdosVerif.Model.Graph

/-! ### Unfolding lemmas for `dfsLoop` -/

theorem dfsLoop_zero (g : Graph) (skip : Bool) (stack visited acc : List Nat) :
    dfsLoop g skip 0 stack visited acc = (acc, some "OutOfFuel") := by
  simp [dfsLoop]

theorem dfsLoop_nil (g : Graph) (skip : Bool) (fuel : Nat) (visited acc : List Nat) :
    dfsLoop g skip (fuel + 1) [] visited acc = (acc, none) := by
  simp [dfsLoop]

theorem dfsLoop_cons (g : Graph) (skip : Bool) (fuel n : Nat) (stack visited acc : List Nat) :
    dfsLoop g skip (fuel + 1) (n :: stack) visited acc =
      if (skip && visited.contains n) = true then dfsLoop g skip fuel stack visited acc
      else match List.lookup n g.children with
        | none => (acc ++ [n], some "ValueError")
        | some cs =>
          dfsLoop g skip fuel
            ((cs.filter (fun c => !(n :: visited).contains c)).reverse ++ stack)
            (n :: visited) (acc ++ [n]) := by
  rfl

/-- The popped node is skipped (repaired variant, node already visited). -/
theorem dfsLoop_cons_skip {g : Graph} {skip : Bool} {fuel n : Nat} {stack visited acc : List Nat}
    (h : (skip && visited.contains n) = true) :
    dfsLoop g skip (fuel + 1) (n :: stack) visited acc = dfsLoop g skip fuel stack visited acc := by
  rw [dfsLoop_cons, if_pos h]

/-- The popped node is not a key of `_graph`: `get_children` raises. -/
theorem dfsLoop_cons_none {g : Graph} {skip : Bool} {fuel n : Nat} {stack visited acc : List Nat}
    (h : ¬ (skip && visited.contains n) = true) (hl : List.lookup n g.children = none) :
    dfsLoop g skip (fuel + 1) (n :: stack) visited acc = (acc ++ [n], some "ValueError") := by
  rw [dfsLoop_cons, if_neg h, hl]

/-- The popped node is expanded. -/
theorem dfsLoop_cons_some {g : Graph} {skip : Bool} {fuel n : Nat} {stack visited acc cs : List Nat}
    (h : ¬ (skip && visited.contains n) = true) (hl : List.lookup n g.children = some cs) :
    dfsLoop g skip (fuel + 1) (n :: stack) visited acc =
      dfsLoop g skip fuel
        ((cs.filter (fun c => !(n :: visited).contains c)).reverse ++ stack)
        (n :: visited) (acc ++ [n]) := by
  rw [dfsLoop_cons, if_neg h, hl]

theorem depthFirstWith_some (skip : Bool) (g : Graph) (n : Nat) :
    g.depthFirstWith skip (some n) = dfsLoop g skip (dfsFuel g [n]) [n] [] [] := rfl

theorem depthFirstWith_none (skip : Bool) (g : Graph) :
    g.depthFirstWith skip none =
      dfsLoop g skip (dfsFuel g g.getSources.reverse) g.getSources.reverse [] [] := rfl

/-! ### A generic invariant principle for `dfsLoop`

One induction on the fuel; every set-level property below is an instance. -/

/-- If `Inv` is preserved by the two kinds of loop step, the loop ends in one of
three ways, each with `Inv` at the state where it stopped. -/
theorem dfsLoop_inv (g : Graph) (skip : Bool) (Inv : List Nat → List Nat → List Nat → Prop)
    (hskip : ∀ n rest v a, Inv (n :: rest) v a → skip = true → n ∈ v → Inv rest v a)
    (hpush : ∀ n rest v a cs, Inv (n :: rest) v a → (skip = true → n ∉ v) →
        List.lookup n g.children = some cs →
        Inv ((cs.filter (fun c => !(n :: v).contains c)).reverse ++ rest) (n :: v) (a ++ [n]))
    (fuel : Nat) (stack visited acc : List Nat) (h0 : Inv stack visited acc) :
    (∃ v, Inv [] v (dfsLoop g skip fuel stack visited acc).1 ∧
        (dfsLoop g skip fuel stack visited acc).2 = none) ∨
    (∃ n rest v a, Inv (n :: rest) v a ∧ List.lookup n g.children = none ∧
        (skip = true → n ∉ v) ∧
        dfsLoop g skip fuel stack visited acc = (a ++ [n], some "ValueError")) ∨
    (∃ s v, Inv s v (dfsLoop g skip fuel stack visited acc).1 ∧
        (dfsLoop g skip fuel stack visited acc).2 = some "OutOfFuel") := by
  induction fuel generalizing stack visited acc with
  | zero =>
    right; right
    exact ⟨stack, visited, by simpa [dfsLoop_zero] using h0, by simp [dfsLoop_zero]⟩
  | succ fuel ih =>
    cases stack with
    | nil =>
      left
      exact ⟨visited, by simpa [dfsLoop_nil] using h0, by simp [dfsLoop_nil]⟩
    | cons n rest =>
      by_cases hs : (skip && visited.contains n) = true
      · rw [dfsLoop_cons_skip hs]
        have hs' : skip = true ∧ n ∈ visited := by simpa using hs
        exact ih _ _ _ (hskip n rest visited acc h0 hs'.1 hs'.2)
      · have hs' : skip = true → n ∉ visited := by
          intro h; simpa [h] using hs
        cases hl : List.lookup n g.children with
        | none =>
          right; left
          exact ⟨n, rest, visited, acc, h0, hl, hs', dfsLoop_cons_none hs hl⟩
        | some cs =>
          rw [dfsLoop_cons_some hs hl]
          exact ih _ _ _ (hpush n rest visited acc cs h0 hs' hl)

/-! ### Fuel -/

/-- Potential: total length of the child lists of the entries of `d` whose key is
not yet visited (duplicate keys only make it larger). -/
def dfsPot (visited : List Nat) : Dict (List Nat) → Nat
  | [] => 0
  | p :: r => (if p.1 ∈ visited then 0 else p.2.length) + dfsPot visited r

theorem foldl_length_eq_dfsPot (d : Dict (List Nat)) (a : Nat) :
    d.foldl (fun a p => a + p.2.length) a = a + dfsPot [] d := by
  induction d generalizing a with
  | nil => simp [dfsPot]
  | cons p r ih => simp [dfsPot, ih, Nat.add_assoc]

theorem dfsPot_head_le (visited : List Nat) (n : Nat) (p : Nat × List Nat) :
    (if p.1 ∈ n :: visited then 0 else p.2.length) ≤
      (if p.1 ∈ visited then 0 else p.2.length) := by
  by_cases h1 : p.1 ∈ visited
  · simp [h1]
  · by_cases h2 : p.1 = n
    · simp [h2]
    · simp [h1, h2]

theorem dfsPot_cons_le (visited : List Nat) (n : Nat) (d : Dict (List Nat)) :
    dfsPot (n :: visited) d ≤ dfsPot visited d := by
  induction d with
  | nil => simp [dfsPot]
  | cons p r ih =>
    have := dfsPot_head_le visited n p
    simp only [dfsPot]
    omega

/-- Visiting a fresh key `n` with child list `cs` frees `cs.length` units. -/
theorem dfsPot_visit {d : Dict (List Nat)} {n : Nat} {cs visited : List Nat}
    (hmem : (n, cs) ∈ d) (hn : n ∉ visited) :
    dfsPot (n :: visited) d + cs.length ≤ dfsPot visited d := by
  induction d with
  | nil => simp at hmem
  | cons p r ih =>
    rcases List.mem_cons.mp hmem with h | h
    · subst h
      have := dfsPot_cons_le visited n r
      simp only [dfsPot, List.mem_cons, true_or, if_true, if_neg hn]
      omega
    · have := ih h
      have h2 := dfsPot_head_le visited n p
      simp only [dfsPot]
      omega

/-- KEY STACK INVARIANT: below every *visited* stack entry `p`, each child of `p`
is visited or sits above `p` on the stack. -/
def DfsStackInv (g : Graph) (visited stack : List Nat) : Prop :=
  ∀ above p below, stack = above ++ p :: below → p ∈ visited →
    ∀ c, c ∈ g.childrenOf p → c ∈ visited ∨ c ∈ above

theorem DfsStackInv.init (g : Graph) (stack : List Nat) : DfsStackInv g [] stack := by
  intro above p below _ hp
  simp at hp

/-- A visited node on top of the stack has only visited children. -/
theorem DfsStackInv.top {g : Graph} {visited rest : List Nat} {n : Nat}
    (h : DfsStackInv g visited (n :: rest)) (hn : n ∈ visited) :
    ∀ c, c ∈ g.childrenOf n → c ∈ visited := by
  intro c hc
  have := h [] n rest rfl hn c hc
  simpa using this

theorem DfsStackInv.pop {g : Graph} {visited rest : List Nat} {n : Nat}
    (h : DfsStackInv g visited (n :: rest)) (hn : n ∈ visited) :
    DfsStackInv g visited rest := by
  intro above p below hst hp c hc
  have := h (n :: above) p below (by simp [hst]) hp c hc
  rcases this with h1 | h1
  · exact .inl h1
  · rcases List.mem_cons.mp h1 with h2 | h2
    · exact .inl (h2 ▸ hn)
    · exact .inr h2

theorem DfsStackInv.push {g : Graph} {visited rest cs : List Nat} {n : Nat}
    (h : DfsStackInv g visited (n :: rest)) (hl : List.lookup n g.children = some cs) :
    DfsStackInv g (n :: visited)
      ((cs.filter (fun c => !(n :: visited).contains c)).reverse ++ rest) := by
  intro above p below hst hp c hc
  have key : ∀ a', above = (cs.filter (fun c => !(n :: visited).contains c)).reverse ++ a' →
      rest = a' ++ p :: below → c ∈ n :: visited ∨ c ∈ above := by
    intro a' ha hr
    rcases List.mem_cons.mp hp with hpn | hpv
    · subst hpn
      rw [childrenOf_of_lookup hl] at hc
      by_cases hv : c ∈ p :: visited
      · exact .inl hv
      · right
        rw [ha]
        apply List.mem_append_left
        simp only [List.mem_reverse, List.mem_filter]
        exact ⟨hc, by simpa using hv⟩
    · have := h (n :: a') p below (by simp [hr]) hpv c hc
      rcases this with h1 | h1
      · exact .inl (List.mem_cons_of_mem _ h1)
      · rcases List.mem_cons.mp h1 with h2 | h2
        · exact .inl (h2 ▸ List.mem_cons_self)
        · exact .inr (ha ▸ List.mem_append_right _ h2)
  rcases List.append_eq_append_iff.mp hst with ⟨a', ha, hr⟩ | ⟨c', hc', hr⟩
  · exact key a' ha hr
  · cases c' with
    | nil =>
      simp at hc' hr
      exact key [] (by simp [hc']) (by simp [hr])
    | cons q c'' =>
      exfalso
      simp only [List.cons_append, List.cons.injEq] at hr
      have hq : p ∈ (cs.filter (fun c => !(n :: visited).contains c)).reverse := by
        rw [hc', hr.1]; simp
      simp only [List.mem_reverse, List.mem_filter] at hq
      have : p ∉ n :: visited := by simpa using hq.2
      exact this hp

/-- The loop never runs out of fuel when started with more fuel than
`potential + stack height`. -/
theorem dfsLoop_fuel (g : Graph) (skip : Bool) (fuel : Nat) (stack visited acc : List Nat)
    (hI : DfsStackInv g visited stack)
    (hfuel : dfsPot visited g.children + stack.length < fuel) :
    (dfsLoop g skip fuel stack visited acc).2 ≠ some "OutOfFuel" := by
  induction fuel generalizing stack visited acc with
  | zero => omega
  | succ fuel ih =>
    cases stack with
    | nil => simp [dfsLoop_nil]
    | cons n rest =>
      simp only [List.length_cons] at hfuel
      by_cases hs : (skip && visited.contains n) = true
      · rw [dfsLoop_cons_skip hs]
        have hs' : skip = true ∧ n ∈ visited := by simpa using hs
        exact ih _ _ _ (hI.pop hs'.2) (by omega)
      · cases hl : List.lookup n g.children with
        | none => rw [dfsLoop_cons_none hs hl]; simp
        | some cs =>
          rw [dfsLoop_cons_some hs hl]
          apply ih _ _ _ (hI.push hl)
          by_cases hv : n ∈ visited
          · -- revisit (only when `skip = false`): nothing is pushed
            have hnil : cs.filter (fun c => !(n :: visited).contains c) = [] := by
              rw [List.filter_eq_nil_iff]
              intro c hc
              have := hI.top hv c (by rw [childrenOf_of_lookup hl]; exact hc)
              simp [this]
            have := dfsPot_cons_le visited n g.children
            simp only [hnil, List.reverse_nil, List.nil_append]
            omega
          · have h1 := dfsPot_visit (Dict.mem_of_lookup_eq_some hl) hv
            have h2 : (cs.filter (fun c => !(n :: visited).contains c)).length ≤ cs.length :=
              List.length_filter_le _ _
            simp only [List.length_append, List.length_reverse]
            omega

/-- `dfsFuel` suffices for every frontier. -/
theorem dfsLoop_dfsFuel (g : Graph) (skip : Bool) (frontier : List Nat) :
    (dfsLoop g skip (dfsFuel g frontier) frontier [] []).2 ≠ some "OutOfFuel" := by
  apply dfsLoop_fuel g skip _ _ _ _ (DfsStackInv.init g frontier)
  unfold dfsFuel
  rw [foldl_length_eq_dfsPot]
  omega

/-- fuel: every graph, every start, both variants: the model never runs out of fuel -/
theorem dfs_fuel_suffices (skip : Bool) (g : Graph) (start : Option Nat) :
    (g.depthFirstWith skip start).2 ≠ some "OutOfFuel" := by
  cases start with
  | none => rw [depthFirstWith_none]; exact dfsLoop_dfsFuel g skip _
  | some n => rw [depthFirstWith_some]; exact dfsLoop_dfsFuel g skip _

/-! ### No `ValueError` on closed graphs -/

/-- If every stack entry is a node of a child-closed graph, `get_children` never raises. -/
theorem dfsLoop_no_valueError (g : Graph) (skip : Bool)
    (hclosed : ∀ u v, g.Edge u v → g.hasNode v = true)
    (fuel : Nat) (stack visited acc : List Nat) (hst : ∀ x ∈ stack, g.hasNode x = true) :
    (dfsLoop g skip fuel stack visited acc).2 = none ∨
      (dfsLoop g skip fuel stack visited acc).2 = some "OutOfFuel" := by
  have := dfsLoop_inv g skip (fun s _ _ => ∀ x ∈ s, g.hasNode x = true)
    (fun n rest v a h _ _ x hx => h x (List.mem_cons_of_mem _ hx))
    (by
      intro n rest v a cs h _ hl x hx
      rcases List.mem_append.mp hx with hx | hx
      · simp only [List.mem_reverse, List.mem_filter] at hx
        exact hclosed n x (edge_iff_lookup.mpr ⟨cs, hl, hx.1⟩)
      · exact h x (List.mem_cons_of_mem _ hx))
    fuel stack visited acc hst
  rcases this with ⟨_, _, h⟩ | ⟨n, rest, v, a, h, hl, _, _⟩ | ⟨_, _, _, h⟩
  · exact .inl h
  · have := h n List.mem_cons_self
    simp [hasNode, hl] at this
  · exact .inr h

/-! ### Soundness: everything yielded is reachable -/

/-- Any edge-closed predicate that holds on the stack and on `acc` holds on the output. -/
theorem dfsLoop_sound (g : Graph) (skip : Bool) (R : Nat → Prop)
    (hR : ∀ u v, R u → g.Edge u v → R v)
    (fuel : Nat) (stack visited acc : List Nat)
    (hst : ∀ x ∈ stack, R x) (hacc : ∀ x ∈ acc, R x) :
    ∀ x ∈ (dfsLoop g skip fuel stack visited acc).1, R x := by
  have := dfsLoop_inv g skip (fun s _ a => (∀ x ∈ s, R x) ∧ (∀ x ∈ a, R x))
    (fun n rest v a h _ _ => ⟨fun x hx => h.1 x (List.mem_cons_of_mem _ hx), h.2⟩)
    (by
      intro n rest v a cs h _ hl
      have hn : R n := h.1 n List.mem_cons_self
      refine ⟨fun x hx => ?_, fun x hx => ?_⟩
      · rcases List.mem_append.mp hx with hx | hx
        · simp only [List.mem_reverse, List.mem_filter] at hx
          exact hR n x hn (edge_iff_lookup.mpr ⟨cs, hl, hx.1⟩)
        · exact h.1 x (List.mem_cons_of_mem _ hx)
      · rcases List.mem_append.mp hx with hx | hx
        · exact h.2 x hx
        · simp at hx; exact hx ▸ hn)
    fuel stack visited acc ⟨hst, hacc⟩
  rcases this with ⟨_, h, _⟩ | ⟨n, rest, v, a, h, _, _, heq⟩ | ⟨_, _, h, _⟩
  · exact h.2
  · rw [heq]
    intro x hx
    rcases List.mem_append.mp hx with hx | hx
    · exact h.2 x hx
    · simp at hx; exact hx ▸ h.1 n List.mem_cons_self
  · exact h.2

/-! ### Completeness: on normal termination the output is closed under children -/

/-- On normal termination the output contains a set that includes the initial stack and
visited set and is closed under edges. -/
theorem dfsLoop_complete (g : Graph) (skip : Bool)
    (fuel : Nat) (stack visited acc : List Nat)
    (hJ : ∀ p ∈ visited, ∀ c, g.Edge p c → c ∈ visited ∨ c ∈ stack)
    (hva : ∀ x ∈ visited, x ∈ acc)
    (hnone : (dfsLoop g skip fuel stack visited acc).2 = none) :
    ∃ V : List Nat, (∀ x, x ∈ visited ∨ x ∈ stack → x ∈ V) ∧
      (∀ p ∈ V, ∀ c, g.Edge p c → c ∈ V) ∧
      (∀ x ∈ V, x ∈ (dfsLoop g skip fuel stack visited acc).1) := by
  have := dfsLoop_inv g skip
    (fun s v a => (∀ p ∈ v, ∀ c, g.Edge p c → c ∈ v ∨ c ∈ s) ∧ (∀ x ∈ v, x ∈ a) ∧
      (∀ x, x ∈ visited ∨ x ∈ stack → x ∈ v ∨ x ∈ s))
    (by
      intro n rest v a h _ hn
      refine ⟨fun p hp c hc => ?_, h.2.1, fun x hx => ?_⟩
      · rcases h.1 p hp c hc with h1 | h1
        · exact .inl h1
        · rcases List.mem_cons.mp h1 with h2 | h2
          · exact .inl (h2 ▸ hn)
          · exact .inr h2
      · rcases h.2.2 x hx with h1 | h1
        · exact .inl h1
        · rcases List.mem_cons.mp h1 with h2 | h2
          · exact .inl (h2 ▸ hn)
          · exact .inr h2)
    (by
      intro n rest v a cs h _ hl
      refine ⟨fun p hp c hc => ?_, fun x hx => ?_, fun x hx => ?_⟩
      · rcases List.mem_cons.mp hp with hpn | hpv
        · subst hpn
          by_cases hv : c ∈ p :: v
          · exact .inl hv
          · right
            apply List.mem_append_left
            simp only [List.mem_reverse, List.mem_filter]
            obtain ⟨cs', hl', hc'⟩ := edge_iff_lookup.mp hc
            rw [hl] at hl'
            cases hl'
            exact ⟨hc', by simpa using hv⟩
        · rcases h.1 p hpv c hc with h1 | h1
          · exact .inl (List.mem_cons_of_mem _ h1)
          · rcases List.mem_cons.mp h1 with h2 | h2
            · exact .inl (h2 ▸ List.mem_cons_self)
            · exact .inr (List.mem_append_right _ h2)
      · rcases List.mem_cons.mp hx with h1 | h1
        · simp [h1]
        · exact List.mem_append_left _ (h.2.1 x h1)
      · rcases h.2.2 x hx with h1 | h1
        · exact .inl (List.mem_cons_of_mem _ h1)
        · rcases List.mem_cons.mp h1 with h2 | h2
          · exact .inl (h2 ▸ List.mem_cons_self)
          · exact .inr (List.mem_append_right _ h2))
    fuel stack visited acc ⟨hJ, hva, fun x hx => hx⟩
  rcases this with ⟨V, h, _⟩ | ⟨n, rest, v, a, _, _, _, heq⟩ | ⟨_, _, _, h⟩
  · refine ⟨V, fun x hx => ?_, fun p hp c hc => ?_, h.2.1⟩
    · simpa using h.2.2 x hx
    · simpa using h.1 p hp c hc
  · rw [heq] at hnone; simp at hnone
  · rw [h] at hnone; simp at hnone

/-- A list closed under edges is closed under reachability. -/
theorem Reach.mem_of_closed {g : Graph} {V : List Nat}
    (hV : ∀ p ∈ V, ∀ c, g.Edge p c → c ∈ V) {s m : Nat} (h : g.Reach s m) (hs : s ∈ V) :
    m ∈ V := by
  induction h with
  | refl => exact hs
  | head e _ ih => exact ih (hV _ hs _ e)

/-! ### Frontier-level statements -/

theorem dfsFrontier_no_error (skip : Bool) {g : Graph}
    (hclosed : ∀ u v, g.Edge u v → g.hasNode v = true)
    {frontier : List Nat} (hF : ∀ x ∈ frontier, g.hasNode x = true) :
    (dfsLoop g skip (dfsFuel g frontier) frontier [] []).2 = none := by
  rcases dfsLoop_no_valueError g skip hclosed (dfsFuel g frontier) frontier [] [] hF with h | h
  · exact h
  · exact absurd h (dfsLoop_dfsFuel g skip frontier)

theorem dfsFrontier_mem_iff (skip : Bool) {g : Graph}
    (hclosed : ∀ u v, g.Edge u v → g.hasNode v = true)
    {frontier : List Nat} (hF : ∀ x ∈ frontier, g.hasNode x = true) (m : Nat) :
    m ∈ (dfsLoop g skip (dfsFuel g frontier) frontier [] []).1 ↔
      ∃ s, s ∈ frontier ∧ g.Reach s m := by
  constructor
  · exact dfsLoop_sound g skip (fun x => ∃ s, s ∈ frontier ∧ g.Reach s x)
      (fun u v ⟨s, hs, hr⟩ e => ⟨s, hs, hr.tail e⟩) _ frontier [] []
      (fun x hx => ⟨x, hx, .refl x⟩) (by simp) m
  · rintro ⟨s, hs, hr⟩
    obtain ⟨V, h1, h2, h3⟩ := dfsLoop_complete g skip (dfsFuel g frontier) frontier [] []
      (by simp) (by simp) (dfsFrontier_no_error skip hclosed hF)
    exact h3 m (hr.mem_of_closed h2 (h1 s (.inr hs)))

theorem dfs_no_error (skip : Bool) {g : Graph} (hclosed : ∀ u v, g.Edge u v → g.hasNode v = true)
    {n : Nat} (hn : g.hasNode n = true) : (g.depthFirstWith skip (some n)).2 = none := by
  rw [depthFirstWith_some]
  exact dfsFrontier_no_error skip hclosed (by simpa using hn)

theorem dfs_mem_iff_reach (skip : Bool) {g : Graph}
    (hclosed : ∀ u v, g.Edge u v → g.hasNode v = true)
    {n : Nat} (hn : g.hasNode n = true) (m : Nat) :
    m ∈ (g.depthFirstWith skip (some n)).1 ↔ g.Reach n m := by
  rw [depthFirstWith_some, dfsFrontier_mem_iff skip hclosed (by simpa using hn)]
  simp

theorem getSources_hasNode {g : Graph} {s : Nat} (hs : s ∈ g.getSources) : g.hasNode s = true := by
  rw [hasNode_iff_mem_getNodes]
  exact (List.mem_filter.mp hs).1

theorem dfs_sources_no_error (skip : Bool) {g : Graph}
    (hclosed : ∀ u v, g.Edge u v → g.hasNode v = true) :
    (g.depthFirstWith skip none).2 = none := by
  rw [depthFirstWith_none]
  exact dfsFrontier_no_error skip hclosed
    (fun x hx => getSources_hasNode (List.mem_reverse.mp hx))

theorem dfs_sources_mem_iff (skip : Bool) {g : Graph}
    (hclosed : ∀ u v, g.Edge u v → g.hasNode v = true) (m : Nat) :
    m ∈ (g.depthFirstWith skip none).1 ↔ ∃ s, s ∈ g.getSources ∧ g.Reach s m := by
  rw [depthFirstWith_none, dfsFrontier_mem_iff skip hclosed
    (fun x hx => getSources_hasNode (List.mem_reverse.mp hx))]
  simp

/-! ### The repaired generator yields each node at most once -/

theorem dfsLoop_nodup_of_skip (g : Graph) (fuel : Nat) (stack visited acc : List Nat)
    (hnd : acc.Nodup) (hav : ∀ x ∈ acc, x ∈ visited) :
    (dfsLoop g true fuel stack visited acc).1.Nodup := by
  have step : ∀ (n : Nat) (v a : List Nat), a.Nodup → (∀ x ∈ a, x ∈ v) → n ∉ v →
      (a ++ [n]).Nodup := by
    intro n v a h1 h2 h3
    rw [List.nodup_append]
    refine ⟨h1, by simp, ?_⟩
    intro x hx y hy
    simp at hy
    subst hy
    intro e
    exact h3 (e ▸ h2 x hx)
  have := dfsLoop_inv g true (fun _ v a => a.Nodup ∧ ∀ x ∈ a, x ∈ v)
    (fun n rest v a h _ _ => h)
    (by
      intro n rest v a cs h hn _
      refine ⟨step n v a h.1 h.2 (hn rfl), fun x hx => ?_⟩
      rcases List.mem_append.mp hx with hx | hx
      · exact List.mem_cons_of_mem _ (h.2 x hx)
      · simp at hx; simp [hx])
    fuel stack visited acc ⟨hnd, hav⟩
  rcases this with ⟨_, h, _⟩ | ⟨n, rest, v, a, h, _, hn, heq⟩ | ⟨_, _, h, _⟩
  · exact h.1
  · rw [heq]; exact step n v a h.1 h.2 (hn rfl)
  · exact h.1

/-- the repaired generator yields each node at most once -/
theorem dfs_nodup_of_skip (g : Graph) (start : Option Nat) :
    (g.depthFirstWith true start).1.Nodup := by
  cases start with
  | none => rw [depthFirstWith_none]; exact dfsLoop_nodup_of_skip g _ _ [] [] (by simp) (by simp)
  | some n => rw [depthFirstWith_some]; exact dfsLoop_nodup_of_skip g _ _ [] [] (by simp) (by simp)

/-! ### The current generator with duplicates dropped is the repaired generator -/

theorem eraseDups_append_singleton (l : List Nat) (n : Nat) :
    (l ++ [n]).eraseDups = if n ∈ l then l.eraseDups else l.eraseDups ++ [n] := by
  rw [List.eraseDups_append]
  by_cases h : n ∈ l
  · simp [List.removeAll, h]
  · simp [List.removeAll, h, List.eraseDups_cons]

/-- Lock-step simulation of the current (`skip = false`) and the repaired
(`skip = true`) loop: same stack, same visited *set*, and the repaired output is
the current output with later duplicates dropped. -/
theorem dfsLoop_dedup (g : Graph) (fuel : Nat) (stack vf vt af at' : List Nat)
    (hv : ∀ x, x ∈ vf ↔ x ∈ vt)
    (hI : DfsStackInv g vf stack)
    (hnode : ∀ x ∈ vf, List.lookup x g.children ≠ none)
    (haf : ∀ x, x ∈ af ↔ x ∈ vf)
    (hacc : af.eraseDups = at') :
    (dfsLoop g false fuel stack vf af).1.eraseDups = (dfsLoop g true fuel stack vt at').1 := by
  induction fuel generalizing stack vf vt af at' with
  | zero => simpa [dfsLoop_zero] using hacc
  | succ fuel ih =>
    cases stack with
    | nil => simpa [dfsLoop_nil] using hacc
    | cons n rest =>
      have hsf : ¬ (false && vf.contains n) = true := by simp
      by_cases hn : n ∈ vf
      · -- revisit: the current code yields `n` again and pushes nothing
        have hst : (true && vt.contains n) = true := by simpa using (hv n).mp hn
        rw [dfsLoop_cons_skip hst]
        cases hl : List.lookup n g.children with
        | none => exact absurd hl (hnode n hn)
        | some cs =>
          rw [dfsLoop_cons_some hsf hl]
          have hnil : cs.filter (fun c => !(n :: vf).contains c) = [] := by
            rw [List.filter_eq_nil_iff]
            intro c hc
            have := hI.top hn c (by rw [childrenOf_of_lookup hl]; exact hc)
            simp [this]
          have hI' := hI.push hl
          simp only [hnil, List.reverse_nil, List.nil_append] at hI' ⊢
          apply ih _ _ _ _ _ _ hI'
          · intro x hx
            rcases List.mem_cons.mp hx with h | h
            · exact h ▸ hnode n hn
            · exact hnode x h
          · intro x
            simp only [List.mem_append, List.mem_cons, List.not_mem_nil,
              or_false, haf]
            exact or_comm
          · rw [eraseDups_append_singleton, if_pos ((haf n).mpr hn)]
            exact hacc
          · intro x
            rw [← hv x]
            constructor
            · intro hx
              rcases List.mem_cons.mp hx with h | h
              · exact h ▸ hn
              · exact h
            · exact List.mem_cons_of_mem _
      · have hnt : n ∉ vt := fun h => hn ((hv n).mpr h)
        have hst : ¬ (true && vt.contains n) = true := by simpa using hnt
        have hnaf : n ∉ af := fun h => hn ((haf n).mp h)
        cases hl : List.lookup n g.children with
        | none =>
          rw [dfsLoop_cons_none hsf hl, dfsLoop_cons_none hst hl]
          simp only []
          rw [eraseDups_append_singleton, if_neg hnaf, hacc]
        | some cs =>
          rw [dfsLoop_cons_some hsf hl, dfsLoop_cons_some hst hl]
          have hfilt : cs.filter (fun c => !(n :: vt).contains c) =
              cs.filter (fun c => !(n :: vf).contains c) := by
            apply List.filter_congr
            intro c _
            have := hv c
            by_cases h1 : c = n
            · simp [h1]
            · by_cases h2 : c ∈ vf
              · simp [h2, this.mp h2]
              · have h3 : c ∉ vt := fun h => h2 (this.mpr h)
                simp [h1, h2, h3]
          rw [hfilt]
          apply ih _ _ _ _ _ _ (hI.push hl)
          · intro x hx
            rcases List.mem_cons.mp hx with h | h
            · rw [h, hl]; simp
            · exact hnode x h
          · intro x
            simp only [List.mem_append, List.mem_cons, List.not_mem_nil,
              or_false, haf]
            exact or_comm
          · rw [eraseDups_append_singleton, if_neg hnaf, hacc]
          · intro x
            simp only [List.mem_cons, hv]

/-- the current generator with duplicates dropped is the repaired generator -/
theorem dfs_dedup_eq_skip (g : Graph) (start : Option Nat) :
    (g.depthFirstWith false start).1.eraseDups = (g.depthFirstWith true start).1 := by
  cases start with
  | none =>
    rw [depthFirstWith_none, depthFirstWith_none]
    exact dfsLoop_dedup g _ _ [] [] [] [] (by simp) (DfsStackInv.init g _) (by simp) (by simp) rfl
  | some n =>
    rw [depthFirstWith_some, depthFirstWith_some]
    exact dfsLoop_dedup g _ _ [] [] [] [] (by simp) (DfsStackInv.init g _) (by simp) (by simp) rfl

end ErdosVerif.Model.Graph
