/-
Lemmas about CPython's heapq algorithms (`Model/Heap.lean`): permutation, heap invariant.
-/
import ErdosVerif.Model.Heap

namespace ErdosVerif.Model.Heap

variable {α : Type}

/-- What the proofs need from the comparison, relative to a predicate `P` that holds of
every element ever stored: asymmetry and transitivity of `x ≤ y := ¬ (y < x)`. -/
structure SWO (lt : α → α → Bool) (P : α → Prop) : Prop where
  asymm : ∀ {x y}, P x → P y → lt x y = true → lt y x = false
  le_trans : ∀ {x y z}, P x → P y → P z → lt y x = false → lt z y = false → lt z x = false

def AllP (P : α → Prop) (a : Array α) : Prop := ∀ i (h : i < a.size), P a[i]

theorem allP_iff_mem {P : α → Prop} {a : Array α} : AllP P a ↔ ∀ x ∈ a, P x := by
  constructor
  · intro h x hx
    obtain ⟨i, hi, rfl⟩ := Array.getElem_of_mem hx
    exact h i hi
  · intro h i hi
    exact h _ (Array.getElem_mem hi)

theorem AllP.of_perm {P : α → Prop} {a b : Array α} (hp : a.Perm b) (h : AllP P b) : AllP P a := by
  rw [allP_iff_mem] at *
  intro x hx
  exact h x ((hp.mem_iff).mp hx)

/-! ### permutation -/

theorem siftdown_perm (lt : α → α → Bool) (a : Array α) (s p : Nat) : (siftdown lt a s p).Perm a := by
  fun_induction siftdown lt a s p with
  | case1 a p h parent hp hlt ih => exact ih.trans (Array.swap_perm _ _)
  | case2 => exact .rfl
  | case3 => exact .rfl

theorem siftdown_size (lt : α → α → Bool) (a : Array α) (s p : Nat) : (siftdown lt a s p).size = a.size :=
  (siftdown_perm lt a s p).size_eq

theorem bubbleToLeaf_perm (lt : α → α → Bool) (a : Array α) (p : Nat) : (bubbleToLeaf lt a p).1.Perm a := by
  fun_induction bubbleToLeaf lt a p with
  | case1 a p h c hc hg ih => exact ih.trans (Array.swap_perm _ _)
  | case2 => exact .rfl

theorem siftup_perm (lt : α → α → Bool) (a : Array α) (p : Nat) : (siftup lt a p).Perm a := by
  unfold siftup
  exact (siftdown_perm ..).trans (bubbleToLeaf_perm ..)

theorem heapifyLoop_perm (lt : α → α → Bool) (a : Array α) (k : Nat) : (heapifyLoop lt a k).Perm a := by
  induction k generalizing a with
  | zero => exact .rfl
  | succ k ih => exact (ih _).trans (siftup_perm ..)

theorem heapify_perm (lt : α → α → Bool) (a : Array α) : (heapify lt a).Perm a := heapifyLoop_perm ..

theorem heappush_perm (lt : α → α → Bool) (a : Array α) (x : α) : (heappush lt a x).Perm (a.push x) :=
  siftdown_perm ..


theorem pop_push_last (a : Array α) (h : 0 < a.size) : a.pop.push a[a.size - 1] = a := by
  apply Array.ext
  · simp; omega
  · intro i h1 h2
    simp only [Array.getElem_push, Array.size_pop, Array.getElem_pop]
    split
    · rfl
    · have : i = a.size - 1 := by simp at h1; omega
      subst this; rfl

theorem set_zero_push_perm (b : Array α) (h : 0 < b.size) (y : α) :
    ((b.set 0 y h).push b[0]).Perm (b.push y) := by
  obtain ⟨l⟩ := b
  cases l with
  | nil => simp at h
  | cons b0 bs =>
    simp only [Array.perm_iff_toList_perm]
    simp
    have e1 : (bs ++ [b0]).Perm (b0 :: bs) := List.perm_append_comm
    have e2 : (bs ++ [y]).Perm (y :: bs) := List.perm_append_comm
    exact (e1.cons y).trans ((List.Perm.swap b0 y bs).trans (e2.cons b0).symm)

theorem heappop_perm (lt : α → α → Bool) (a : Array α) (x : α) (a' : Array α)
    (h : heappop lt a = some (x, a')) : (a'.push x).Perm a := by
  unfold heappop at h
  split at h
  · rename_i hpos
    simp only at h
    split at h
    · rename_i hpos'
      simp only [Option.some.injEq, Prod.mk.injEq] at h
      obtain ⟨rfl, rfl⟩ := h
      have h1 := (siftup_perm lt (a.pop.set 0 a[a.size - 1] hpos') 0).push (a.pop[0])
      have h2 := set_zero_push_perm a.pop hpos' a[a.size - 1]
      refine h1.trans (h2.trans ?_)
      rw [pop_push_last a hpos]
    · simp only [Option.some.injEq, Prod.mk.injEq] at h
      obtain ⟨rfl, rfl⟩ := h
      rw [pop_push_last a hpos]
  · simp at h


/-! ### the heap invariant -/

/-- `p` lies in the subtree rooted at `i` (implicit binary tree on indices). -/
inductive Desc (i : Nat) : Nat → Prop
  | refl : Desc i i
  | left {p} : Desc i p → Desc i (2 * p + 1)
  | right {p} : Desc i p → Desc i (2 * p + 2)

theorem Desc.le {i p : Nat} (h : Desc i p) : i ≤ p := by
  induction h <;> omega

theorem Desc.parent {i p : Nat} (h : Desc i p) (hp : i < p) : Desc i ((p - 1) / 2) ∧ i ≤ (p - 1) / 2 := by
  cases h with
  | refl => omega
  | @left q hq =>
    have : (2 * q + 1 - 1) / 2 = q := by omega
    rw [this]; exact ⟨hq, hq.le⟩
  | @right q hq =>
    have : (2 * q + 2 - 1) / 2 = q := by omega
    rw [this]; exact ⟨hq, hq.le⟩

theorem desc_zero (p : Nat) : Desc 0 p := by
  induction p using Nat.strongRecOn with
  | _ p ih =>
    rcases Nat.eq_zero_or_pos p with rfl | hp
    · exact .refl
    · have hq := ih ((p - 1) / 2) (by omega)
      rcases Nat.mod_two_eq_zero_or_one p with h | h
      · have : p = 2 * ((p - 1) / 2) + 2 := by omega
        rw [this]; exact .right hq
      · have : p = 2 * ((p - 1) / 2) + 1 := by omega
        rw [this]; exact .left hq

/-- Every child `j` whose parent index is at least `k` is not `<` its parent. `HeapFrom a 0` is
the heap invariant of `heapq`. -/
def HeapFrom (lt : α → α → Bool) (a : Array α) (k : Nat) : Prop :=
  ∀ j (hj : j < a.size), 0 < j → k ≤ (j - 1) / 2 → lt a[j] (a[(j - 1) / 2]'(by omega)) = false

/-- Phase 2 (`_siftdown`) invariant: only the pair (parent pos, pos) may be out of order, and
the parent of `pos` is ≤ the children of `pos`. -/
structure Inv2 (lt : α → α → Bool) (a : Array α) (i pos : Nat) : Prop where
  pairs : ∀ j (hj : j < a.size), 0 < j → i ≤ (j - 1) / 2 → j ≠ pos →
    lt a[j] (a[(j - 1) / 2]'(by omega)) = false
  bridge : i < pos → ∀ c (hc : c < a.size) (_ : 0 < c) (_ : (c - 1) / 2 = pos),
    lt a[c] (a[(pos - 1) / 2]'(by omega)) = false
  desc : Desc i pos

/-- Phase 1 (bubble to leaf) invariant: pairs touching `pos` are unconstrained. -/
structure Inv1 (lt : α → α → Bool) (a : Array α) (i pos : Nat) : Prop where
  pairs : ∀ j (hj : j < a.size), 0 < j → i ≤ (j - 1) / 2 → j ≠ pos → (j - 1) / 2 ≠ pos →
    lt a[j] (a[(j - 1) / 2]'(by omega)) = false
  bridge : i < pos → ∀ c (hc : c < a.size) (_ : 0 < c) (_ : (c - 1) / 2 = pos),
    lt a[c] (a[(pos - 1) / 2]'(by omega)) = false
  desc : Desc i pos

variable {lt : α → α → Bool} {P : α → Prop}

theorem siftdown_heapFrom (swo : SWO lt P) (a : Array α) (i pos : Nat)
    (hP : AllP P a) (hpos : pos < a.size) (inv : Inv2 lt a i pos) :
    HeapFrom lt (siftdown lt a i pos) i := by
  fun_induction siftdown lt a i pos with
  | case1 a pos h q hq hlt ih =>
    have hd := inv.desc.parent h.1
    have hP' : AllP P (a.swap q pos hq h.2) := AllP.of_perm (Array.swap_perm _ _) hP
    apply ih hP' (by simpa using hq)
    have hqpos : q < pos := by omega
    have hqdef : q = (pos - 1) / 2 := rfl
    refine ⟨?_, ?_, hd.1⟩
    · intro j hj hj0 hij hjq
      have hj' : j < a.size := by simpa using hj
      simp only [Array.getElem_swap]
      by_cases hjp : j = pos
      · subst hjp
        have : (j - 1) / 2 = q := rfl
        simp only [this, if_neg (Nat.ne_of_gt hqpos), if_pos]
        exact swo.asymm (hP _ _) (hP _ _) hlt
      · by_cases hpq : (j - 1) / 2 = q
        · -- sibling of pos
          simp only [if_neg hjq, if_neg hjp, hpq, if_true]
          have h1 := inv.pairs j hj' hj0 hij hjp
          simp only [hpq] at h1
          exact swo.le_trans (hP _ _) (hP _ _) (hP _ _) (swo.asymm (hP _ _) (hP _ _) hlt) h1
        · by_cases hpp : (j - 1) / 2 = pos
          · simp only [if_neg hjq, if_neg hjp, hpp, if_true, if_neg (Nat.ne_of_gt hqpos)]
            exact inv.bridge h.1 j hj' hj0 hpp
          · simp only [if_neg hjq, if_neg hjp, if_neg hpq, if_neg hpp]
            exact inv.pairs j hj' hj0 hij hjp
    · intro hiq c hc hc0 hcq
      have hc' : c < a.size := by simpa using hc
      have hq0 : 0 < q := by omega
      have hdq := hd.1.parent hiq
      have hqq : lt a[q] (a[(q - 1) / 2]'(by omega)) = false :=
        inv.pairs q hq hq0 hdq.2 (by omega)
      simp only [Array.getElem_swap]
      have n1 : (q - 1) / 2 ≠ q := by omega
      have n2 : (q - 1) / 2 ≠ pos := by omega
      have hcq' : c ≠ q := by omega
      simp only [if_neg n1, if_neg n2, if_neg hcq']
      by_cases hcp : c = pos
      · simp only [if_pos hcp]; exact hqq
      · simp only [if_neg hcp]
        have h1 := inv.pairs c hc' hc0 (by omega) hcp
        simp only [hcq] at h1
        exact swo.le_trans (hP _ _) (hP _ _) (hP _ _) hqq h1
  | case2 a pos h q hq hlt =>
    intro j hj hj0 hij
    by_cases hjp : j = pos
    · subst hjp; simpa using hlt
    · exact inv.pairs j hj hj0 hij hjp
  | case3 a pos h =>
    intro j hj hj0 hij
    have : pos ≤ i := by omega
    have := inv.desc.le
    exact inv.pairs j hj hj0 hij (by omega)


theorem SWO.irrefl (swo : SWO lt P) {x : α} (hx : P x) : lt x x = false := by
  cases h : lt x x with
  | false => rfl
  | true => exact absurd (swo.asymm hx hx h) (by simp [h])

theorem smallerChild_cases (a : Array α) (pos : Nat) (h : 2 * pos + 1 < a.size) :
    smallerChild lt a pos h = 2 * pos + 1 ∨ smallerChild lt a pos h = 2 * pos + 2 := by
  unfold smallerChild; split
  · split <;> simp
  · simp

theorem smallerChild_le (swo : SWO lt P) (a : Array α) (hP : AllP P a) (pos : Nat) (h : 2 * pos + 1 < a.size)
    (c : Nat) (hc : c = smallerChild lt a pos h) (hc' : c < a.size)
    (s : Nat) (hs : s < a.size) (hs0 : 0 < s) (hsp : (s - 1) / 2 = pos) : lt a[s] a[c] = false := by
  have hs' : s = 2 * pos + 1 ∨ s = 2 * pos + 2 := by omega
  unfold smallerChild at hc
  split at hc
  · rename_i h2
    split at hc
    · rename_i hlt
      subst hc
      rcases hs' with rfl | rfl
      · exact swo.irrefl (hP _ _)
      · exact swo.asymm (hP _ _) (hP _ _) hlt
    · rename_i hlt
      subst hc
      rcases hs' with rfl | rfl
      · simpa using hlt
      · exact swo.irrefl (hP _ _)
  · subst hc
    rcases hs' with rfl | rfl
    · exact swo.irrefl (hP _ _)
    · omega

theorem bubbleToLeaf_inv2 (swo : SWO lt P) (a : Array α) (i pos : Nat)
    (hP : AllP P a) (hpos : pos < a.size) (inv : Inv1 lt a i pos) :
    Inv2 lt (bubbleToLeaf lt a pos).1 i (bubbleToLeaf lt a pos).2 ∧
      (bubbleToLeaf lt a pos).2 < (bubbleToLeaf lt a pos).1.size := by
  fun_induction bubbleToLeaf lt a pos with
  | case1 a pos h c hc hg ih =>
    have hP' : AllP P (a.swap pos c (by omega) hc) := AllP.of_perm (Array.swap_perm _ _) hP
    apply ih hP' (by simpa using hc)
    have hcc := smallerChild_cases (lt := lt) a pos h
    have hcdef : c = smallerChild lt a pos h := rfl
    have hcpar : (c - 1) / 2 = pos := by omega
    have hile := inv.desc.le
    refine ⟨?_, ?_, ?_⟩
    · intro j hj hj0 hij hjc hpc
      have hj' : j < a.size := by simpa using hj
      simp only [Array.getElem_swap]
      by_cases hjp : j = pos
      · subst hjp
        have n1 : (j - 1) / 2 ≠ j := by omega
        simp only [if_neg n1, if_neg hpc, if_true]
        exact inv.bridge (by omega) c hc (by omega) hcpar
      · by_cases hpp : (j - 1) / 2 = pos
        · simp only [if_neg hjp, if_neg hjc, hpp, if_true]
          exact smallerChild_le swo a hP pos h c hcdef hc j hj' hj0 hpp
        · simp only [if_neg hjp, if_neg hjc, if_neg hpp, if_neg hpc]
          exact inv.pairs j hj' hj0 hij hjp hpp
    · intro _ d hd hd0 hdc
      have hd' : d < a.size := by simpa using hd
      simp only [Array.getElem_swap]
      have n1 : d ≠ pos := by omega
      have n2 : d ≠ c := by omega
      simp only [if_neg n1, if_neg n2, hcpar, if_true]
      have := inv.pairs d hd' hd0 (by omega) n1 (by omega)
      simpa only [hdc] using this
    · rcases hcc with e | e
      · rw [hcdef, e]; exact .left inv.desc
      · rw [hcdef, e]; exact .right inv.desc
  | case2 a pos h =>
    refine ⟨⟨?_, inv.bridge, inv.desc⟩, hpos⟩
    intro j hj hj0 hij hjp
    have hj' : j < a.size := hj
    exact inv.pairs j hj' hj0 hij hjp (by omega)

theorem Inv1.init {a : Array α} {i : Nat} (h : HeapFrom lt a (i + 1)) : Inv1 lt a i i := by
  refine ⟨?_, ?_, .refl⟩
  · intro j hj hj0 hij hji hpi
    exact h j hj hj0 (by omega)
  · intro hlt; omega

/-- `_siftup` at `i` extends the heap property from the subtrees below `i` to `i`. -/
theorem siftup_heapFrom (swo : SWO lt P) (a : Array α) (i : Nat) (hP : AllP P a)
    (h : HeapFrom lt a (i + 1)) : HeapFrom lt (siftup lt a i) i := by
  by_cases hi : i < a.size
  · unfold siftup
    have h2 := bubbleToLeaf_inv2 swo a i i hP hi (Inv1.init h)
    exact siftdown_heapFrom swo _ i _ (AllP.of_perm (bubbleToLeaf_perm ..) hP) h2.2 h2.1
  · -- nothing to do: no index ≥ i has a child inside the array
    have e : siftup lt a i = a := by
      unfold siftup
      have : bubbleToLeaf lt a i = (a, i) := by
        unfold bubbleToLeaf; rw [dif_neg (by omega)]
      rw [this]; unfold siftdown; simp
    rw [e]
    intro j hj hj0 hij
    omega

theorem heapFrom_half (a : Array α) : HeapFrom lt a (a.size / 2) := by
  intro j hj hj0 hij; omega

theorem heapifyLoop_heapFrom (swo : SWO lt P) (a : Array α) (k : Nat) (hP : AllP P a)
    (h : HeapFrom lt a k) : HeapFrom lt (heapifyLoop lt a k) 0 := by
  induction k generalizing a with
  | zero => exact h
  | succ k ih =>
    exact ih _ (AllP.of_perm (siftup_perm ..) hP) (siftup_heapFrom swo a k hP h)

/-- `heapify` establishes the heap invariant, whatever the array was. -/
theorem heapify_heap (swo : SWO lt P) (a : Array α) (hP : AllP P a) : HeapFrom lt (heapify lt a) 0 :=
  heapifyLoop_heapFrom swo a _ hP (heapFrom_half a)


/-- `heappush` preserves the heap invariant. -/
theorem heappush_heap (swo : SWO lt P) (a : Array α) (x : α) (hP : AllP P a) (hx : P x)
    (h : HeapFrom lt a 0) : HeapFrom lt (heappush lt a x) 0 := by
  unfold heappush
  have hP' : AllP P (a.push x) := by
    rw [allP_iff_mem] at *
    intro y hy
    rcases Array.mem_push.mp hy with hy | rfl
    · exact hP y hy
    · exact hx
  apply siftdown_heapFrom swo (a.push x) 0 a.size hP' (by simp)
  refine ⟨?_, ?_, desc_zero _⟩
  · intro j hj hj0 _ hjn
    have hj' : j < a.size := by simp at hj; omega
    have hq : (j - 1) / 2 < a.size := by omega
    rw [Array.getElem_push_lt hj', Array.getElem_push_lt hq]
    exact h j hj' hj0 (Nat.zero_le _)
  · intro _ c hc hc0 hcp
    simp at hc; omega

/-- `heappop` preserves the heap invariant. -/
theorem heappop_heap (swo : SWO lt P) (a : Array α) (x : α) (a' : Array α) (hP : AllP P a)
    (h : HeapFrom lt a 0) (hpop : heappop lt a = some (x, a')) : HeapFrom lt a' 0 := by
  unfold heappop at hpop
  split at hpop
  · rename_i hpos
    simp only at hpop
    split at hpop
    · rename_i hpos'
      simp only [Option.some.injEq, Prod.mk.injEq] at hpop
      obtain ⟨-, rfl⟩ := hpop
      have hPb : AllP P (a.pop.set 0 a[a.size - 1] hpos') := by
        intro j hj
        simp only [Array.getElem_set, Array.getElem_pop]
        split <;> exact hP _ _
      apply siftup_heapFrom swo _ 0 hPb
      intro j hj hj0 hij
      have hj' : j < a.size := by simp at hj; omega
      have n1 : 0 ≠ j := by omega
      have n2 : 0 ≠ (j - 1) / 2 := by omega
      simp only [Array.getElem_set, if_neg n1, if_neg n2, Array.getElem_pop]
      exact h j hj' hj0 (Nat.zero_le _)
    · simp only [Option.some.injEq, Prod.mk.injEq] at hpop
      obtain ⟨-, rfl⟩ := hpop
      intro j hj; omega
  · simp at hpop

/-- In a heap the root is not greater than any element. -/
theorem root_min (swo : SWO lt P) (a : Array α) (hP : AllP P a) (h : HeapFrom lt a 0)
    (j : Nat) (hj : j < a.size) : lt a[j] (a[0]'(by omega)) = false := by
  induction j using Nat.strongRecOn with
  | _ j ih =>
    rcases Nat.eq_zero_or_pos j with rfl | hj0
    · exact swo.irrefl (hP _ _)
    · have h1 := h j hj hj0 (Nat.zero_le _)
      have h2 := ih ((j - 1) / 2) (by omega) (by omega)
      exact swo.le_trans (hP _ _) (hP _ _) (hP _ _) h2 h1

/-- `heappop` returns the root. -/
theorem heappop_fst (a : Array α) (x : α) (a' : Array α) (hpop : heappop lt a = some (x, a')) :
    ∃ h : 0 < a.size, x = a[0] := by
  unfold heappop at hpop
  split at hpop
  · rename_i hpos
    refine ⟨hpos, ?_⟩
    simp only at hpop
    split at hpop
    · simp only [Option.some.injEq, Prod.mk.injEq] at hpop
      rw [← hpop.1, Array.getElem_pop]
    · rename_i hs
      simp only [Option.some.injEq, Prod.mk.injEq] at hpop
      rw [← hpop.1]
      have : a.size - 1 = 0 := by simp at hs; omega
      simp only [this]
  · simp at hpop

theorem heappop_isSome (a : Array α) : (heappop lt a).isSome = decide (0 < a.size) := by
  unfold heappop
  split
  · simp only; split <;> simp [*]
  · simp [*]

/-- What `heappop` returns is not greater than anything that stays in the heap. -/
theorem heappop_min (swo : SWO lt P) (a : Array α) (x : α) (a' : Array α) (hP : AllP P a)
    (h : HeapFrom lt a 0) (hpop : heappop lt a = some (x, a')) : ∀ y ∈ a', lt y x = false := by
  intro y hy
  obtain ⟨hpos, rfl⟩ := heappop_fst a x a' hpop
  have hmem : y ∈ a := ((heappop_perm lt a _ a' hpop).mem_iff).mp (Array.mem_push.mpr (.inl hy))
  obtain ⟨j, hj, rfl⟩ := Array.getElem_of_mem hmem
  exact root_min swo a hP h j hj


/-! ### draining a heap, `min` -/

theorem drain_mem (a : Array α) (n : Nat) (y : α) (hy : y ∈ drain lt n a) : y ∈ a := by
  induction n generalizing a with
  | zero => simp [drain] at hy
  | succ n ih =>
    unfold drain at hy
    split at hy
    · simp at hy
    · rename_i x a' hpop
      have hp := heappop_perm lt a x a' hpop
      rcases List.mem_cons.mp hy with rfl | hy
      · exact hp.mem_iff.mp (Array.mem_push.mpr (.inr rfl))
      · exact hp.mem_iff.mp (Array.mem_push.mpr (.inl (ih a' hy)))

/-- Popping repeatedly yields a non-decreasing sequence. -/
theorem drain_sorted (swo : SWO lt P) (a : Array α) (hP : AllP P a) (h : HeapFrom lt a 0) (n : Nat) :
    (drain lt n a).Pairwise (fun x y => lt y x = false) := by
  induction n generalizing a with
  | zero => simp [drain]
  | succ n ih =>
    unfold drain
    split
    · exact .nil
    · rename_i x a' hpop
      have hp := heappop_perm lt a x a' hpop
      have hP' : AllP P a' := by
        rw [allP_iff_mem] at *
        intro y hy
        exact hP y (hp.mem_iff.mp (Array.mem_push.mpr (.inl hy)))
      refine List.Pairwise.cons ?_ (ih a' hP' (heappop_heap swo a x a' hP h hpop))
      intro y hy
      exact heappop_min swo a x a' hP h hpop y (drain_mem a' n y hy)

/-- Draining with enough fuel returns every element exactly once. -/
theorem drain_perm (a : Array α) (n : Nat) (hn : a.size ≤ n) : (drain lt n a).Perm a.toList := by
  induction n generalizing a with
  | zero =>
    have : a = #[] := by apply Array.eq_empty_of_size_eq_zero; omega
    subst this; simp [drain]
  | succ n ih =>
    unfold drain
    split
    · rename_i hnone
      have := heappop_isSome (lt := lt) a
      rw [hnone] at this
      have hz : ¬ 0 < a.size := by intro hpos; simp [hpos] at this
      have : a = #[] := by apply Array.eq_empty_of_size_eq_zero; omega
      subst this; simp
    · rename_i x a' hpop
      have hp := heappop_perm lt a x a' hpop
      have hs : a'.size + 1 = a.size := by simpa using hp.size_eq
      have h1 := ih a' (by omega)
      have h2 : (x :: a'.toList).Perm a.toList := by
        have := Array.perm_iff_toList_perm.mp hp
        simp only [Array.toList_push] at this
        exact (List.perm_append_comm (l₁ := [x]) (l₂ := a'.toList)).trans this
      exact (h1.cons x).trans h2

/-- Python's `min` returns an element that nothing in the list is `<` of. -/
theorem minFirst_spec (swo : SWO lt P) (l : List α) (hP : ∀ x ∈ l, P x) (m : α)
    (h : minFirst lt l = some m) : m ∈ l ∧ ∀ y ∈ l, lt y m = false := by
  cases l with
  | nil => simp [minFirst] at h
  | cons x xs =>
    simp only [minFirst, Option.some.injEq] at h
    subst h
    suffices H : ∀ (ys : List α) (best : α) (seen : List α), best ∈ seen → (∀ z ∈ seen, P z) →
        (∀ z ∈ ys, P z) → (∀ z ∈ seen, lt z best = false) →
        (ys.foldl (fun best y => if lt y best then y else best) best) ∈ seen ++ ys ∧
          ∀ z ∈ seen ++ ys, lt z (ys.foldl (fun best y => if lt y best then y else best) best) = false by
      have := H xs x [x] (by simp) (by intro z hz; simp at hz; subst hz; exact hP _ (by simp))
        (by intro z hz; exact hP z (by simp [hz]))
        (by intro z hz; simp at hz; subst hz; exact swo.irrefl (hP _ (by simp)))
      simpa using this
    intro ys
    induction ys with
    | nil => intro best seen hb _ _ hmin; simpa using ⟨hb, hmin⟩
    | cons y ys ih =>
      intro best seen hb hPs hPy hmin
      simp only [List.foldl_cons]
      have hPy' : P y := hPy y (by simp)
      have hPb : P best := hPs best hb
      have hseen' : ∀ z ∈ seen ++ [y], P z := by
        intro z hz; rcases List.mem_append.mp hz with hz | hz
        · exact hPs z hz
        · simp at hz; subst hz; exact hPy'
      have hys' : ∀ z ∈ ys, P z := fun z hz => hPy z (by simp [hz])
      by_cases hlt : lt y best = true
      · simp only [hlt, if_true]
        have := ih y (seen ++ [y]) (by simp) hseen' hys' (by
          intro z hz
          rcases List.mem_append.mp hz with hz | hz
          · exact swo.le_trans hPy' hPb (hPs z hz) (swo.asymm hPy' hPb hlt) (hmin z hz)
          · simp at hz; subst hz; exact swo.irrefl hPy')
        simpa [List.append_assoc] using this
      · have hlt' : lt y best = false := by simpa using hlt
        simp only [hlt', Bool.false_eq_true, if_false]
        have := ih best (seen ++ [y]) (by simp [hb]) hseen' hys' (by
          intro z hz
          rcases List.mem_append.mp hz with hz | hz
          · exact hmin z hz
          · simp at hz; subst hz; exact hlt')
        simpa [List.append_assoc] using this

end ErdosVerif.Model.Heap
