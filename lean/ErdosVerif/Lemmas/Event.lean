/-
Lemmas about `Event.lt` (`Event.__lt__`) and the `EventQueue` model.
-/
import ErdosVerif.Model.Event
import ErdosVerif.Lemmas.Heap

namespace ErdosVerif.Model

/-- Well-formed relative to `ht`: whether an event carries a task is decided by its type
(the simulator creates tasks exactly for the six `TASK_*` types of `Event.__init__`). -/
def Event.WF (ht : Nat → Bool) (e : Event) : Prop := e.task.isSome = ht e.etype

instance (ht : Nat → Bool) (e : Event) : Decidable (Event.WF ht e) := by unfold Event.WF; infer_instance

/-- `Event.__lt__` spelled out as a lexicographic comparison (any events). -/
theorem Event.lt_iff (a b : Event) :
    Event.lt a b = true ↔
      a.time < b.time ∨ (a.time = b.time ∧ (a.etype < b.etype ∨
        (a.etype = b.etype ∧ ∃ x y, a.task = some x ∧ b.task = some y ∧ x < y))) := by
  unfold Event.lt
  by_cases ht : a.time = b.time
  · simp only [ht, beq_self_eq_true, if_true]
    by_cases he : a.etype = b.etype
    · simp only [he, beq_self_eq_true]
      cases hta : a.task <;> cases htb : b.task <;> simp
    · have : (a.etype == b.etype) = false := by simpa using he
      simp only [this]
      simp [he]
  · have : (a.time == b.time) = false := by simpa using ht
    simp [this, ht]

theorem Event.lt_swo (ht : Nat → Bool) : Heap.SWO Event.lt (Event.WF ht) where
  asymm := by
    intro x y _ _ h
    rw [Event.lt_iff] at h
    cases h' : Event.lt y x with
    | false => rfl
    | true =>
      rw [Event.lt_iff] at h'
      exfalso
      rcases h with h | ⟨h1, h | ⟨h2, a, b, ha, hb, hab⟩⟩
      · rcases h' with h' | ⟨h1', _⟩ <;> omega
      · rcases h' with h' | ⟨_, h' | ⟨h2', _⟩⟩ <;> omega
      · rcases h' with h' | ⟨_, h' | ⟨_, b', a', hb', ha', hba⟩⟩
        · omega
        · omega
        · rw [hb] at hb'; rw [ha] at ha'
          cases hb'; cases ha'
          exact String.lt_asymm hab hba
  le_trans := by
    intro x y z wx wy wz hyx hzy
    cases hzx : Event.lt z x with
    | false => rfl
    | true =>
      exfalso
      have nyx : ¬ (Event.lt y x = true) := by simp [hyx]
      have nzy : ¬ (Event.lt z y = true) := by simp [hzy]
      rw [Event.lt_iff] at hzx nyx nzy
      have t1 : x.time ≤ y.time := by
        apply Int.not_lt.mp; intro h; exact nyx (.inl h)
      have t2 : y.time ≤ z.time := by
        apply Int.not_lt.mp; intro h; exact nzy (.inl h)
      rcases hzx with h | ⟨h1, hrest⟩
      · omega
      · have e1 : y.time = x.time := by omega
        have e2 : z.time = y.time := by omega
        have s1 : x.etype ≤ y.etype := by
          apply Nat.not_lt.mp; intro h; exact nyx (.inr ⟨e1, .inl h⟩)
        have s2 : y.etype ≤ z.etype := by
          apply Nat.not_lt.mp; intro h; exact nzy (.inr ⟨e2, .inl h⟩)
        rcases hrest with h | ⟨h2, c, a, hc, ha, hca⟩
        · omega
        · have f1 : y.etype = x.etype := by omega
          have f2 : z.etype = y.etype := by omega
          have hy : y.task.isSome = true := by
            have : x.task.isSome = true := by simp [ha]
            rw [Event.WF] at wx wy
            rw [wy, f1, ← wx, this]
          obtain ⟨b, hb⟩ := Option.isSome_iff_exists.mp hy
          have nba : ¬ b < a := fun h => nyx (.inr ⟨e1, .inr ⟨f1, b, a, hb, ha, h⟩⟩)
          have ncb : ¬ c < b := fun h => nzy (.inr ⟨e2, .inr ⟨f2, c, b, hc, hb, h⟩⟩)
          exact (String.le_trans (a := a) (b := b) (c := c) nba ncb) hca


/-! ### the event queue -/

namespace EventQueue
open Heap

/-- The state invariant of the queue: well-formed events in heap order. -/
def Good (ht : Nat → Bool) (q : EventQueue) : Prop :=
  AllP (Event.WF ht) q ∧ HeapFrom Event.lt q 0

theorem good_empty (ht : Nat → Bool) : Good ht empty :=
  ⟨fun i h => by simp [empty] at h, fun j hj => by simp [empty] at hj⟩

theorem allP_push {P : Event → Prop} {q : EventQueue} {e : Event} (h : AllP P q) (he : P e) :
    AllP P (q.push e) := by
  rw [allP_iff_mem] at *
  intro y hy
  rcases Array.mem_push.mp hy with hy | rfl
  · exact h y hy
  · exact he

theorem good_add {ht : Nat → Bool} {q : EventQueue} {e : Event} (h : Good ht q) (he : Event.WF ht e) :
    Good ht (q.addEvent e) :=
  ⟨AllP.of_perm (heappush_perm ..) (allP_push h.1 he), heappush_heap (Event.lt_swo ht) q e h.1 he h.2⟩

/-- `reheapify` repairs any array of well-formed events. -/
theorem good_reheapify {ht : Nat → Bool} {q : EventQueue} (h : AllP (Event.WF ht) q) :
    Good ht q.reheapify :=
  ⟨AllP.of_perm (heapify_perm ..) h, heapify_heap (Event.lt_swo ht) q h⟩

theorem list_eraseIdx_perm {α : Type} (l : List α) (i : Nat) (h : i < l.length) :
    (l[i] :: l.eraseIdx i).Perm l := by
  induction l generalizing i with
  | nil => simp at h
  | cons x xs ih =>
    cases i with
    | zero => simp
    | succ i =>
      simp only [List.getElem_cons_succ, List.eraseIdx_cons_succ]
      exact (List.Perm.swap x _ _).trans ((ih i (by simpa using h)).cons x)

/-- What `remove_event` does to the contents: exactly the first entry with that identity leaves. -/
theorem removeEvent_spec {q q' : EventQueue} {eid : Nat} (h : q.removeEvent eid = .ok q') :
    ∃ (i : Nat) (hi : i < q.size), q[i].eid = eid ∧ (∀ j (hj : j < i), q[j].eid ≠ eid) ∧
      q' = reheapify (q.eraseIdx i hi) ∧ (q'.push q[i]).Perm q := by
  unfold removeEvent at h
  split at h
  · cases h
  · rename_i i hfind
    obtain ⟨hi, hp, hfirst⟩ := Array.findIdx?_eq_some_iff_getElem.mp hfind
    simp only [Except.ok.injEq] at h
    rw [Array.eraseIdxIfInBounds_eq, dif_pos hi] at h
    refine ⟨i, hi, by simpa using hp, ?_, h.symm, ?_⟩
    · intro j hj; simpa using hfirst j hj
    · subst h
      refine ((heapify_perm Event.lt (q.eraseIdx i hi)).push q[i]).trans ?_
      rw [Array.perm_iff_toList_perm]
      simp only [Array.toList_push, Array.toList_eraseIdx]
      have hl := list_eraseIdx_perm q.toList i (by simpa using hi)
      rw [Array.getElem_toList] at hl
      exact (List.perm_append_comm (l₁ := q.toList.eraseIdx i) (l₂ := [q[i]])).trans hl

theorem removeEvent_error {q : EventQueue} {eid : Nat} {c : String} (h : q.removeEvent eid = .error c) :
    c = "ValueError" ∧ ∀ e ∈ q, e.eid ≠ eid := by
  unfold removeEvent at h
  split at h
  · rename_i hnone
    simp only [Except.error.injEq] at h
    refine ⟨h.symm, ?_⟩
    intro e he
    have := Array.findIdx?_eq_none_iff.mp hnone e he
    simpa using this
  · cases h

theorem good_remove {ht : Nat → Bool} {q q' : EventQueue} {eid : Nat} (h : Good ht q)
    (hr : q.removeEvent eid = .ok q') : Good ht q' := by
  obtain ⟨i, hi, -, -, rfl, -⟩ := removeEvent_spec hr
  apply good_reheapify
  rw [allP_iff_mem]
  intro y hy
  exact (allP_iff_mem.mp h.1) y (Array.mem_of_mem_eraseIdx hy)

theorem allP_retime {ht : Nat → Bool} {q : EventQueue} (h : AllP (Event.WF ht) q) (eid : Nat) (t : Int) :
    AllP (Event.WF ht) (q.retime eid t) := by
  rw [allP_iff_mem] at *
  intro y hy
  unfold retime at hy
  obtain ⟨x, hx, rfl⟩ := Array.mem_map.mp hy
  have := h x hx
  split
  · simpa [Event.WF] using this
  · exact this

theorem good_retimeReheapify {ht : Nat → Bool} {q : EventQueue} (h : AllP (Event.WF ht) q)
    (eid : Nat) (t : Int) : Good ht (q.retimeReheapify eid t) :=
  good_reheapify (allP_retime h eid t)

theorem next_eq {q : EventQueue} {x : Event} {q' : EventQueue} (h : q.next = .ok (x, q')) :
    heappop Event.lt q = some (x, q') := by
  unfold next at h
  split at h
  · cases h
  · rename_i r hr
    simp only [Except.ok.injEq] at h
    rw [hr, h]

theorem next_error {q : EventQueue} {c : String} (h : q.next = .error c) : c = "IndexError" ∧ q.size = 0 := by
  unfold next at h
  split at h
  · rename_i hnone
    simp only [Except.error.injEq] at h
    have := heappop_isSome (lt := Event.lt) q
    rw [hnone] at this
    refine ⟨h.symm, ?_⟩
    by_cases hz : 0 < q.size
    · simp [hz] at this
    · omega
  · cases h

theorem good_next {ht : Nat → Bool} {q : EventQueue} {x : Event} {q' : EventQueue} (h : Good ht q)
    (hn : q.next = .ok (x, q')) : Good ht q' := by
  have hpop := next_eq hn
  have hp := heappop_perm Event.lt q x q' hpop
  refine ⟨?_, heappop_heap (Event.lt_swo ht) q x q' h.1 h.2 hpop⟩
  rw [allP_iff_mem]
  intro y hy
  exact (allP_iff_mem.mp h.1) y (hp.mem_iff.mp (Array.mem_push.mpr (.inl hy)))

/-- Every operation of a history keeps the invariant, provided the inserted events are
well-formed. -/
theorem good_apply {ht : Nat → Bool} {q : EventQueue} (h : Good ht q) (op : QOp)
    (hop : ∀ e, op = .add e → Event.WF ht e) : Good ht (op.apply q) := by
  cases op with
  | add e => exact good_add h (hop e rfl)
  | remove eid =>
    simp only [QOp.apply]
    split
    · rename_i q' hr; exact good_remove h hr
    · exact h
  | retime eid t => exact good_retimeReheapify h.1 eid t
  | reheapify => exact good_reheapify h.1
  | pop =>
    simp only [QOp.apply]
    split
    · rename_i r hr
      exact good_next (x := r.1) (q' := r.2) h hr
    · exact h

theorem good_foldl {ht : Nat → Bool} (ops : List QOp) (q : EventQueue) (h : Good ht q)
    (hops : ∀ e, QOp.add e ∈ ops → Event.WF ht e) : Good ht (ops.foldl QOp.apply q) := by
  induction ops generalizing q with
  | nil => exact h
  | cons op ops ih =>
    simp only [List.foldl_cons]
    apply ih
    · exact good_apply h op (fun e he => hops e (by simp [he]))
    · intro e he; exact hops e (by simp [he])

theorem good_run {ht : Nat → Bool} (ops : List QOp) (hops : ∀ e, QOp.add e ∈ ops → Event.WF ht e) :
    Good ht (run ops) :=
  good_foldl ops empty (good_empty ht) hops

theorem next_min {ht : Nat → Bool} {q : EventQueue} {x : Event} {q' : EventQueue} (h : Good ht q)
    (hn : q.next = .ok (x, q')) : ∀ y ∈ q', Event.lt y x = false :=
  heappop_min (Event.lt_swo ht) q x q' h.1 h.2 (next_eq hn)

theorem peek_min {ht : Nat → Bool} {q : EventQueue} {x : Event} (h : Good ht q)
    (hp : q.peek = some x) : ∀ y ∈ q, Event.lt y x = false := by
  intro y hy
  unfold peek at hp
  obtain ⟨j, hj, rfl⟩ := Array.getElem_of_mem hy
  have h0 : 0 < q.size := by omega
  have : x = q[0] := by
    rw [Array.getElem?_eq_getElem h0] at hp; exact (Option.some.inj hp).symm
  subst this
  exact root_min (Event.lt_swo ht) q h.1 h.2 j hj

theorem nextOfType_min {ht : Nat → Bool} {q : EventQueue} {x : Event} {t : Nat}
    (h : AllP (Event.WF ht) q) (hx : q.nextOfType t = some x) :
    x ∈ q ∧ x.etype = t ∧ ∀ y ∈ q, y.etype = t → Event.lt y x = false := by
  unfold nextOfType at hx
  have hP : ∀ e ∈ q.toList.filter (fun e => e.etype == t), Event.WF ht e := by
    intro e he
    exact (allP_iff_mem.mp h) e (by simpa using (List.mem_filter.mp he).1)
  obtain ⟨hm, hmin⟩ := minFirst_spec (Event.lt_swo ht) _ hP x hx
  have hm' := List.mem_filter.mp hm
  refine ⟨by simpa using hm'.1, by simpa using hm'.2, ?_⟩
  intro y hy hyt
  exact hmin y (List.mem_filter.mpr ⟨by simpa using hy, by simpa using hyt⟩)

end EventQueue

end ErdosVerif.Model
