/-
C20 helper lemmas, part 5: an unsatisfied node (indicator 0) and a node with a constant
indicator report no placement, provided no `LessThan` is decided at compile time.
-/
import ErdosVerif.Lemmas.StrlMax
namespace ErdosVerif.Strl

/-- The indicator of a node that provides utility is the constant 1 or a 0/1 variable. -/
def IndOK (σ : Assign) (r : PR) : Prop :=
  r.util = true → (r.ind = .const 1 ∨ ∃ v, r.ind = .var v ∧ 0 ≤ σ v ∧ σ v ≤ 1)

/-- The node has nothing to report when it is unsatisfied (indicator variable at 0) or when its
indicator is a constant (it then contains no Choose leaf at all, see `noStaticLt`). -/
def Quiet (σ : Assign) (r : PR) (pls : List Placement) : Prop :=
  (r.util = false → pls = []) ∧
  (∀ c, r.ind = .const c → pls = []) ∧
  (∀ v, r.ind = .var v → σ v = 0 → pls = [])

theorem mergeChildren_empty (sols : List Sol) (h : ∀ s ∈ sols, s.placements = []) :
    mergeChildren sols = [] := by
  cases hm : mergeChildren sols with
  | nil => rfl
  | cons q qs =>
    have : q ∈ mergeChildren sols := by rw [hm]; simp
    obtain ⟨s, hs, hq⟩ := mem_mergeChildren sols q this
    rw [h s hs] at hq
    simp at hq

theorem baseSol_empty (σ : Assign) (pr : PR) (sols : List Sol) (h : ∀ s ∈ sols, s.placements = []) :
    (baseSol σ pr sols).placements = [] := by
  unfold baseSol
  split
  · rfl
  · exact mergeChildren_empty sols h

theorem baseSol_noutil (σ : Assign) (pr : PR) (sols : List Sol) (h : pr.util = false) :
    (baseSol σ pr sols).placements = [] := by
  unfold baseSol
  simp [h, Sol.none]

/-- The Choose leaf. -/
theorem choose_quiet (ctx : Ctx) (σ : Assign) (path : Path) (name strategy : String)
    (parts : List Nat) (n start dur : Nat) (u : Int)
    (hv : ∀ v ∈ (compileChoose ctx path name strategy parts n start dur u).vars, Var.holds σ v = true) :
    IndOK σ (compileChoose ctx path name strategy parts n start dur u).pr ∧
    Quiet σ (compileChoose ctx path name strategy parts n start dur u).pr
      (populateNode ctx σ path (.choose name strategy parts n start dur u)).placements := by
  simp only [populateNode]
  unfold compileChoose at hv ⊢
  by_cases h1 : ctx.now > start
  · simp [h1, IndOK, Quiet, baseSol, PR.none, Sol.none]
  · simp only [h1, if_false] at hv ⊢
    by_cases h2 : (schedulable ctx parts).isEmpty = true
    · simp [h2, IndOK, Quiet, baseSol, PR.none, Sol.none]
    · simp only [h2] at hv ⊢
      simp only [Bool.false_eq_true, if_false] at hv ⊢
      have hind := hv ⟨⟨path, .placed⟩, chooseVarName name start strategy, .bin, some 0, .none⟩ (by simp)
      simp [Var.holds] at hind
      constructor
      · intro _
        exact Or.inr ⟨_, rfl, hind.1, hind.2⟩
      · refine ⟨by simp, by simp, ?_⟩
        intro v hvv h0
        simp only [TV.var.injEq] at hvv
        subst hvv
        simp [baseSol, mergeChildren, evalU, h0]


/-- Contribution of a child to the "all children" row of its `Min` / `LessThan`. -/
def varInd (σ : Assign) (r : PR) : Int :=
  if r.util then (match r.ind with | .var v => σ v | .const _ => 0) else 0

def isVarInd (r : PR) : Bool := r.util && (match r.ind with | .var _ => true | .const _ => false)

theorem varInd_nonneg (σ : Assign) (r : PR) (h : IndOK σ r) : 0 ≤ varInd σ r := by
  unfold varInd
  split
  · rename_i hu
    rcases h hu with hc | ⟨v, hv, h0, _⟩
    · simp [hc]
    · simp [hv, h0]
  · omega

theorem varInd_le_one (σ : Assign) (r : PR) (h : IndOK σ r) : varInd σ r ≤ 1 := by
  unfold varInd
  split
  · rename_i hu
    rcases h hu with hc | ⟨v, hv, _, h1⟩
    · simp [hc]
    · simp [hv, h1]
  · omega

theorem minFold (σ : Assign) (name : String) (ms me : VarId) (children : List (String × PR)) :
    ∀ acc : MinAcc,
    evalTerms σ (children.foldl (fun a x => minStep name ms me a x.1 x.2) acc).indTerms
        = evalTerms σ acc.indTerms + sumBy (fun x => varInd σ x.2) children ∧
    ((children.foldl (fun a x => minStep name ms me a x.1 x.2) acc).count : Int)
        = acc.count + sumBy (fun x => if isVarInd x.2 then 1 else 0) children := by
  induction children with
  | nil => intro acc; simp
  | cons x xs ih =>
    intro acc
    obtain ⟨cn, r⟩ := x
    simp only [List.foldl_cons, sumBy_cons]
    have := ih (minStep name ms me acc cn r)
    rw [this.1, this.2]
    unfold minStep varInd isVarInd
    by_cases hu : r.util = true
    · cases hi : r.ind with
      | const c => simp [hu, evalTerms, indTermOf]
      | var v => simp [hu, evalTerms, List.sum_append, indTermOf]; omega
    · simp [hu]

theorem varInd_zero_of_not_var (σ : Assign) (r : PR) (h : isVarInd r = false) : varInd σ r = 0 := by
  unfold isVarInd at h
  unfold varInd
  by_cases hu : r.util = true
  · cases hi : r.ind with
    | const c => simp [hu]
    | var v => simp [hu, hi] at h
  · simp [hu]

theorem sum_varInd_zero_of_count_zero (σ : Assign) (children : List (String × PR))
    (h : sumBy (fun x : String × PR => if isVarInd x.2 then (1 : Int) else 0) children = 0) :
    sumBy (fun x => varInd σ x.2) children = 0 := by
  induction children with
  | nil => simp
  | cons x xs ih =>
    simp only [sumBy_cons] at h ⊢
    have hn : 0 ≤ sumBy (fun x : String × PR => if isVarInd x.2 then (1 : Int) else 0) xs :=
      sumBy_nonneg _ _ (fun a _ => by split <;> omega)
    by_cases hx : isVarInd x.2 = true
    · simp [hx] at h; omega
    · have hx' : isVarInd x.2 = false := by simpa using hx
      simp only [hx', Bool.false_eq_true, if_false, Int.zero_add] at h
      rw [ih h, varInd_zero_of_not_var σ x.2 hx']
      omega

/-- Every child is `IndOK` and `Quiet`. -/
def childrenOK (ctx : Ctx) (σ : Assign) (path : Path) : Nat → List Expr → Prop
  | _, [] => True
  | i, e :: es =>
    (IndOK σ (compileNode ctx (i :: path) e).pr ∧
      Quiet σ (compileNode ctx (i :: path) e).pr (populateNode ctx σ (i :: path) e).placements) ∧
    childrenOK ctx σ path (i + 1) es

theorem children_sum_nonneg (ctx : Ctx) (σ : Assign) (path : Path) : ∀ (cs : List Expr) (i : Nat),
    childrenOK ctx σ path i cs →
    0 ≤ sumBy (fun x => varInd σ x.2.pr) (compileList ctx path i cs)
  | [], _, _ => by simp [compileList]
  | e :: es, i, hok => by
    simp only [childrenOK] at hok
    simp only [compileList, sumBy_cons]
    have h1 := varInd_nonneg σ _ hok.1.1
    have h2 := children_sum_nonneg ctx σ path es (i + 1) hok.2
    omega

theorem quiet_of_varInd_zero (σ : Assign) (r : PR) (pls : List Placement) (hq : Quiet σ r pls)
    (h0 : varInd σ r = 0) : pls = [] := by
  obtain ⟨q1, q2, q3⟩ := hq
  by_cases hu : r.util = true
  · cases hi : r.ind with
    | const c => exact q2 c hi
    | var v =>
      apply q3 v hi
      simpa [varInd, hu, hi] using h0
  · exact q1 (by simpa using hu)

theorem children_quiet (ctx : Ctx) (σ : Assign) (path : Path) : ∀ (cs : List Expr) (i : Nat),
    childrenOK ctx σ path i cs →
    sumBy (fun x => varInd σ x.2.pr) (compileList ctx path i cs) = 0 →
    ∀ s ∈ populateList ctx σ path i cs, s.placements = []
  | [], _, _, _ => by simp [populateList]
  | e :: es, i, hok, hsum => by
    have hok' := hok
    simp only [childrenOK] at hok
    simp only [compileList, sumBy_cons] at hsum
    obtain ⟨⟨hio, hq⟩, hrest⟩ := hok
    have h1 := varInd_nonneg σ _ hio
    have h2 := children_sum_nonneg ctx σ path es (i + 1) hrest
    intro s hs
    simp only [populateList] at hs
    rcases List.mem_cons.mp hs with rfl | hs
    · exact quiet_of_varInd_zero σ _ _ hq (by omega)
    · exact children_quiet ctx σ path es (i + 1) hrest (by omega) s hs


/-- The (name, parse result) list a `Min` hands to `finishMin`. -/
def minChildren (ctx : Ctx) (path : Path) (cs : List Expr) : List (String × PR) :=
  (compileList ctx path 0 cs).map (fun x => (x.1, x.2.pr))

/-- Facts about the result of `MinExpression::parse`. -/
theorem min_facts (ctx : Ctx) (path : Path) (name : String) (cs : List Expr) :
    (⟨⟨path, .minInd⟩, name ++ "_min_indicator", .bin, some 0, .none⟩ : Var)
      ∈ (compileNode ctx path (.min name cs)).vars ∧
    ((compileNode ctx path (.min name cs)).pr.util = true →
      (∀ x ∈ compileList ctx path 0 cs, x.2.pr.util = true) ∧
      (compileNode ctx path (.min name cs)).pr.ind =
        (if (minAcc path name (minChildren ctx path cs)).count == 0 then .const 1 else .var ⟨path, .minInd⟩)) ∧
    ((minAcc path name (minChildren ctx path cs)).count ≠ 0 →
      (⟨name ++ "_min_enforce_all_children", .eq, 0,
        (minAcc path name (minChildren ctx path cs)).indTerms ++
        [(-(Int.ofNat (minAcc path name (minChildren ctx path cs)).count), ⟨path, .minInd⟩)]⟩ : Constr)
        ∈ (compileNode ctx path (.min name cs)).cons) := by
  simp only [compileNode, finishMin, minChildren]
  refine ⟨?_, ?_, ?_⟩
  · apply List.mem_append_left
    split <;> simp
  · intro hu
    by_cases hall : ((compileList ctx path 0 cs).map (fun x => (x.1, x.2.pr))).all (fun x => x.2.util) = true
    · refine ⟨?_, ?_⟩
      · intro x hx
        have := List.all_eq_true.mp hall (x.1, x.2.pr) (List.mem_map.mpr ⟨x, hx, rfl⟩)
        simpa using this
      · by_cases hc : ((minAcc path name ((compileList ctx path 0 cs).map (fun x => (x.1, x.2.pr)))).count == 0) = true
        · simp [hc, hall]
        · simp [hc, hall]
    · by_cases hc : ((minAcc path name ((compileList ctx path 0 cs).map (fun x => (x.1, x.2.pr)))).count == 0) = true
      · simp [hc, hall, PR.none] at hu
      · simp [hc, hall, PR.none] at hu
  · intro hc
    apply List.mem_append_right
    have hc' : ((minAcc path name ((compileList ctx path 0 cs).map (fun x => (x.1, x.2.pr)))).count == 0) = false := by
      simpa using hc
    simp [hc']


theorem minAcc_sums (σ : Assign) (ctx : Ctx) (path : Path) (name : String) (cs : List Expr) :
    evalTerms σ (minAcc path name (minChildren ctx path cs)).indTerms
      = sumBy (fun x => varInd σ x.2.pr) (compileList ctx path 0 cs) ∧
    (((minAcc path name (minChildren ctx path cs)).count : Int) = 0 →
      sumBy (fun x => varInd σ x.2.pr) (compileList ctx path 0 cs) = 0) := by
  have h := minFold σ name ⟨path, .minStart⟩ ⟨path, .minEnd⟩ (minChildren ctx path cs) {}
  unfold minAcc
  constructor
  · rw [h.1]
    simp only [evalTerms, List.map_nil, List.sum_nil, Int.zero_add, minChildren, sumBy_map]
  · intro h0
    rw [h.2] at h0
    have := sum_varInd_zero_of_count_zero σ (minChildren ctx path cs) (by simpa using h0)
    simpa only [minChildren, sumBy_map] using this

theorem min_quiet (ctx : Ctx) (σ : Assign) (path : Path) (name : String) (cs : List Expr)
    (hok : childrenOK ctx σ path 0 cs)
    (hv : ∀ v ∈ (compileNode ctx path (.min name cs)).vars, Var.holds σ v = true)
    (hc : ∀ c ∈ (compileNode ctx path (.min name cs)).cons, Constr.holds σ c = true) :
    IndOK σ (compileNode ctx path (.min name cs)).pr ∧
    Quiet σ (compileNode ctx path (.min name cs)).pr (populateNode ctx σ path (.min name cs)).placements := by
  obtain ⟨hmv, hmu, hmr⟩ := min_facts ctx path name cs
  have hb := hv _ hmv
  simp [Var.holds] at hb
  have hs := minAcc_sums σ ctx path name cs
  constructor
  · intro hu
    rw [(hmu hu).2]
    split
    · exact Or.inl rfl
    · exact Or.inr ⟨_, rfl, hb.1, hb.2⟩
  · simp only [populateNode]
    refine ⟨fun hu => baseSol_noutil σ _ _ hu, ?_, ?_⟩
    · intro c hcst
      by_cases hu : (compileNode ctx path (.min name cs)).pr.util = true
      · have hind := (hmu hu).2
        rw [hcst] at hind
        split at hind
        · rename_i h0
          have h0' : ((minAcc path name (minChildren ctx path cs)).count : Int) = 0 := by
            have : (minAcc path name (minChildren ctx path cs)).count = 0 := by simpa using h0
            omega
          exact baseSol_empty σ _ _ (children_quiet ctx σ path cs 0 hok (hs.2 h0'))
        · simp at hind
      · exact baseSol_noutil σ _ _ (by simpa using hu)
    · intro v hvar hz
      by_cases hu : (compileNode ctx path (.min name cs)).pr.util = true
      · have hind := (hmu hu).2
        rw [hvar] at hind
        split at hind
        · simp at hind
        · rename_i h0
          have hne : (minAcc path name (minChildren ctx path cs)).count ≠ 0 := by simpa using h0
          have hrow := hc _ (hmr hne)
          simp only [TV.var.injEq] at hind
          subst hind
          simp only [Constr.holds, decide_eq_true_eq, evalTerms_append] at hrow
          simp only [evalTerms, List.map_cons, List.map_nil, List.sum_cons, List.sum_nil, hz] at hrow
          have h1 := hs.1
          simp only [evalTerms] at h1
          exact baseSol_empty σ _ _ (children_quiet ctx σ path cs 0 hok (by omega))
      · exact baseSol_noutil σ _ _ (by simpa using hu)


theorem max_quiet (ctx : Ctx) (σ : Assign) (path : Path) (name : String) (cs : List Expr)
    (hcs : cs.all isLeafChoose = true)
    (hv : ∀ v ∈ (compileNode ctx path (.max name cs)).vars, Var.holds σ v = true)
    (hc : ∀ c ∈ (compileNode ctx path (.max name cs)).cons, Constr.holds σ c = true) :
    IndOK σ (compileNode ctx path (.max name cs)).pr ∧
    Quiet σ (compileNode ctx path (.max name cs)).pr (populateNode ctx σ path (.max name cs)).placements := by
  have ⟨hmv, hmc⟩ := max_pr_vars_cons ctx path name cs
  have hind := hv _ hmv
  have hrow := hc _ hmc
  simp [Var.holds] at hind
  have hpr : (compileNode ctx path (.max name cs)).pr.ind = .var ⟨path, .maxInd⟩ ∧
      (compileNode ctx path (.max name cs)).pr.util = true := by
    simp [compileNode, finishMax]
  constructor
  · intro _
    exact Or.inr ⟨_, hpr.1, hind.1, hind.2⟩
  · refine ⟨fun hu => by rw [hpr.2] at hu; simp at hu, fun c hcst => by rw [hpr.1] at hcst; simp at hcst, ?_⟩
    intro v hvar hz
    rw [hpr.1] at hvar
    simp only [TV.var.injEq] at hvar
    subst hvar
    simp only [Constr.holds, decide_eq_true_eq, evalTerms_append] at hrow
    simp only [evalTerms, List.map_cons, List.map_nil, List.sum_cons, List.sum_nil, hz] at hrow
    have hfold := maxFold_sub σ ((compileList ctx path 0 cs).map (·.2.pr)) {}
    simp only [evalTerms, List.map_nil, List.sum_nil] at hfold
    have hlen := maxList_len ctx σ cs path 0 hcs (fun v h => hv v (max_vars ctx path name cs v h))
    have hm := length_mergeChildren (populateList ctx σ path 0 cs)
    have hle : ((populateNode ctx σ path (.max name cs)).placements.length : Int) ≤ 0 := by
      simp only [populateNode, baseSol]
      split
      · simp [Sol.none]
      · simp only
        omega
    cases hp : (populateNode ctx σ path (.max name cs)).placements with
    | nil => rfl
    | cons q qs => rw [hp] at hle; simp at hle; omega


theorem evalTerms_indTermOf (σ : Assign) (r : PR) (hu : r.util = true) :
    evalTerms σ (indTermOf r.ind).1 = varInd σ r := by
  unfold varInd indTermOf
  cases hi : r.ind with
  | const c => simp [hu, evalTerms]
  | var v => simp [hu, evalTerms]

theorem lt_quiet (ctx : Ctx) (σ : Assign) (path : Path) (name : String) (a b : Expr)
    (hns : ¬((compileNode ctx (0 :: path) a).pr.util = true ∧ (compileNode ctx (1 :: path) b).pr.util = true ∧
      isConst (compileNode ctx (0 :: path) a).pr.stop = true ∧ isConst (compileNode ctx (1 :: path) b).pr.start = true))
    (ha : IndOK σ (compileNode ctx (0 :: path) a).pr ∧
      Quiet σ (compileNode ctx (0 :: path) a).pr (populateNode ctx σ (0 :: path) a).placements)
    (hb : IndOK σ (compileNode ctx (1 :: path) b).pr ∧
      Quiet σ (compileNode ctx (1 :: path) b).pr (populateNode ctx σ (1 :: path) b).placements)
    (hv : ∀ v ∈ (compileNode ctx path (.lt name a b)).vars, Var.holds σ v = true)
    (hc : ∀ c ∈ (compileNode ctx path (.lt name a b)).cons, Constr.holds σ c = true) :
    IndOK σ (compileNode ctx path (.lt name a b)).pr ∧
    Quiet σ (compileNode ctx path (.lt name a b)).pr (populateNode ctx σ path (.lt name a b)).placements := by
  simp only [populateNode]
  simp only [compileNode] at hv hc ⊢
  generalize hpa : (compileNode ctx (0 :: path) a).pr = pa at *
  generalize hpb : (compileNode ctx (1 :: path) b).pr = pb at *
  unfold finishLt at hv hc ⊢
  by_cases hu : (pa.util && pb.util) = true
  · have hua : pa.util = true := by simp at hu; exact hu.1
    have hub : pb.util = true := by simp at hu; exact hu.2
    have hst : (isConst pa.stop && isConst pb.start) = false := by
      cases h : (isConst pa.stop && isConst pb.start) with
      | false => rfl
      | true => simp at h; exact absurd ⟨hua, hub, h.1, h.2⟩ hns
    simp only [hu, Bool.not_true, Bool.false_eq_true, if_false, hst] at hv hc ⊢
    have hsat := hv ⟨⟨path, .ltSat⟩, name ++ "_is_satisfied", .bin, some 0, .none⟩ (by simp)
    simp [Var.holds] at hsat
    constructor
    · intro _
      exact Or.inr ⟨_, rfl, hsat.1, hsat.2⟩
    · refine ⟨by simp, by simp, ?_⟩
      intro v hvar hz
      simp only [TV.var.injEq] at hvar
      subst hvar
      have hrow := hc ⟨name ++ "_less_than_indicator_constraint", .eq, 0,
        (indTermOf pa.ind).1 ++ (indTermOf pb.ind).1 ++
          [(-(Int.ofNat ((indTermOf pa.ind).2 + (indTermOf pb.ind).2)), ⟨path, .ltSat⟩)]⟩ (by simp)
      simp only [Constr.holds, decide_eq_true_eq, evalTerms_append, evalTerms_indTermOf σ pa hua,
        evalTerms_indTermOf σ pb hub] at hrow
      simp only [evalTerms, List.map_cons, List.map_nil, List.sum_cons, List.sum_nil, hz] at hrow
      have h1 := varInd_nonneg σ pa ha.1
      have h2 := varInd_nonneg σ pb hb.1
      apply baseSol_empty
      intro s hs
      simp only [List.mem_cons, List.not_mem_nil, or_false] at hs
      rcases hs with rfl | rfl
      · exact quiet_of_varInd_zero σ pa _ ha.2 (by omega)
      · exact quiet_of_varInd_zero σ pb _ hb.2 (by omega)
  · have hu' : (pa.util && pb.util) = false := by simpa using hu
    simp only [hu', Bool.not_false, if_true]
    constructor
    · intro h; simp [PR.none] at h
    · have : (baseSol σ PR.none [populateNode ctx σ (0 :: path) a, populateNode ctx σ (1 :: path) b]).placements = [] :=
        baseSol_noutil σ _ _ rfl
      exact ⟨fun _ => this, fun _ _ => this, fun _ _ _ => this⟩

theorem scale_quiet (ctx : Ctx) (σ : Assign) (path : Path) (name : String) (f : Int) (d : Bool) (c : Expr)
    (hch : IndOK σ (compileNode ctx (0 :: path) c).pr ∧
      Quiet σ (compileNode ctx (0 :: path) c).pr (populateNode ctx σ (0 :: path) c).placements) :
    IndOK σ (compileNode ctx path (.scale name f d c)).pr ∧
    Quiet σ (compileNode ctx path (.scale name f d c)).pr (populateNode ctx σ path (.scale name f d c)).placements := by
  simp only [populateNode]
  simp only [compileNode]
  generalize (compileNode ctx (0 :: path) c).pr = pc at *
  obtain ⟨hio, hq1, hq2, hq3⟩ := hch
  unfold finishScale
  by_cases hu : pc.util = true
  · have single : ∀ pr', (populateNode ctx σ (0 :: path) c).placements = [] →
        (baseSol σ pr' [populateNode ctx σ (0 :: path) c]).placements = [] := by
      intro pr' h
      apply baseSol_empty
      intro s hs
      simp only [List.mem_cons, List.not_mem_nil, or_false] at hs
      subst hs; exact h
    simp only [hu, Bool.not_true, Bool.false_eq_true, if_false]
    by_cases hd : d = true
    · simp only [hd, if_true]
      exact ⟨fun _ => hio hu, by simp, fun c' h => single _ (hq2 c' h), fun v h hz => single _ (hq3 v h hz)⟩
    · simp only [hd, Bool.false_eq_true, if_false]
      exact ⟨fun _ => hio hu, by simp, fun c' h => single _ (hq2 c' h), fun v h hz => single _ (hq3 v h hz)⟩
  · have hu' : pc.util = false := by simpa using hu
    simp only [hu', Bool.not_false, if_true]
    have : (baseSol σ PR.none [populateNode ctx σ (0 :: path) c]).placements = [] := baseSol_noutil σ _ _ rfl
    exact ⟨fun h => by simp [PR.none] at h, fun _ => this, fun _ _ => this, fun _ _ _ => this⟩


mutual
theorem node_quiet (ctx : Ctx) (σ : Assign) :
    ∀ (e : Expr) (path : Path), buildErr e = none → noStaticLt ctx path e = true →
      (∀ v ∈ (compileNode ctx path e).vars, Var.holds σ v = true) →
      (∀ c ∈ (compileNode ctx path e).cons, Constr.holds σ c = true) →
      IndOK σ (compileNode ctx path e).pr ∧
      Quiet σ (compileNode ctx path e).pr (populateNode ctx σ path e).placements
  | .choose name strategy parts n start dur u, path, _, _, hv, _ => by
    simp only [compileNode] at hv ⊢
    exact choose_quiet ctx σ path name strategy parts n start dur u hv
  | .alloc name allocs start dur, path, _, _, _, _ => by
    simp only [compileNode, compileAlloc, populateNode, baseSol, mergeChildren]
    exact ⟨fun _ => Or.inl rfl, by simp, by simp, by simp⟩
  | .obj name cs, path, _, _, _, _ => by
    simp only [compileNode, populateNode, Sol.none]
    exact ⟨fun h => by simp [PR.none] at h, by simp, by simp, by simp⟩
  | .min name cs, path, hb, hn, hv, hc => by
    simp only [buildErr] at hb
    simp only [noStaticLt] at hn
    exact min_quiet ctx σ path name cs
      (list_quiet ctx σ cs path 0 hb hn (fun v h => hv v (min_vars ctx path name cs v h))
        (fun c h => hc c (min_cons ctx path name cs c h))) hv hc
  | .max name cs, path, hb, _, hv, hc => by
    simp only [buildErr] at hb
    have hcs : cs.all isLeafChoose = true := by
      split at hb
      · simp at hb
      · split at hb
        · simp at hb
        · rename_i h; simpa using h
    exact max_quiet ctx σ path name cs hcs hv hc
  | .lt name a b, path, hb, hn, hv, hc => by
    simp only [buildErr] at hb
    have hba : buildErr a = none := by
      split at hb
      · simp at hb
      · assumption
    have hbb : buildErr b = none := by
      split at hb
      · simp at hb
      · exact hb
    simp only [noStaticLt, Bool.and_eq_true, Bool.not_eq_true'] at hn
    obtain ⟨⟨hna, hnb⟩, hns⟩ := hn
    have ha := node_quiet ctx σ a (0 :: path) hba hna
      (fun v h => hv v (lt_vars ctx path name a b v (Or.inl h)))
      (fun c h => hc c (lt_cons ctx path name a b c (Or.inl h)))
    have hb' := node_quiet ctx σ b (1 :: path) hbb hnb
      (fun v h => hv v (lt_vars ctx path name a b v (Or.inr h)))
      (fun c h => hc c (lt_cons ctx path name a b c (Or.inr h)))
    refine lt_quiet ctx σ path name a b ?_ ha hb' hv hc
    rintro ⟨h1, h2, h3, h4⟩
    simp [h1, h2, h3, h4] at hns
  | .scale name f d c, path, hb, hn, hv, hc => by
    simp only [buildErr] at hb
    simp only [noStaticLt] at hn
    exact scale_quiet ctx σ path name f d c (node_quiet ctx σ c (0 :: path) hb hn
      (fun v h => hv v (by simp only [compileNode]; exact h))
      (fun c' h => hc c' (by simp only [compileNode]; exact h)))
theorem list_quiet (ctx : Ctx) (σ : Assign) :
    ∀ (cs : List Expr) (path : Path) (i : Nat), buildErrList cs = none → noStaticLtL ctx path i cs = true →
      (∀ v ∈ (compileList ctx path i cs).flatMap (·.2.vars), Var.holds σ v = true) →
      (∀ c ∈ (compileList ctx path i cs).flatMap (·.2.cons), Constr.holds σ c = true) →
      childrenOK ctx σ path i cs
  | [], _, _, _, _, _, _ => by simp [childrenOK]
  | e :: es, path, i, hb, hn, hv, hc => by
    simp only [buildErrList] at hb
    simp only [noStaticLtL, Bool.and_eq_true] at hn
    simp only [compileList, List.flatMap_cons] at hv hc
    have hbe : buildErr e = none := by
      split at hb
      · simp at hb
      · assumption
    have hbes : buildErrList es = none := by
      split at hb
      · simp at hb
      · exact hb
    simp only [childrenOK]
    exact ⟨node_quiet ctx σ e (i :: path) hbe hn.1
        (fun v h => hv v (List.mem_append_left _ h)) (fun c h => hc c (List.mem_append_left _ h)),
      list_quiet ctx σ es path (i + 1) hbes hn.2
        (fun v h => hv v (List.mem_append_right _ h)) (fun c h => hc c (List.mem_append_right _ h))⟩
end

end ErdosVerif.Strl
