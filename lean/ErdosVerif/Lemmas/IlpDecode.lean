/-
Facts about `decode` (the mirror of `get_placements`): what a reported placement says
about the assignment it was read from.
-/
import ErdosVerif.Lemmas.IlpSat
namespace ErdosVerif.Ilp
open ErdosVerif.Mip

theorem foldl_inv {α β : Type} (P : β → Prop) (f : β → α → β) (l : List α) (b : β) (hb : P b)
    (hf : ∀ b a, a ∈ l → P b → P (f b a)) : P (l.foldl f b) := by
  induction l generalizing b with
  | nil => simpa using hb
  | cons x xs ih =>
    simp only [List.foldl_cons]
    apply ih
    · exact hf b x (by simp) hb
    · intro b a ha hp; exact hf b a (by simp [ha]) hp

/-- What the scan of `get_placements` guarantees about the pair it returns. -/
theorem chosen_spec {I : Inst} {σ : Var → Int} {t w s : Nat} (h : I.chosen σ t = some (w, s)) :
    w < I.nW ∧ s < (I.task t).nS ∧ I.hasVar t w s = true ∧ σ (.x t w s) = 1 := by
  unfold Inst.chosen at h
  have key := foldl_inv (fun acc => ∀ ws : Nat × Nat, acc = some ws →
      ws.1 < I.nW ∧ ws.2 < (I.task t).nS ∧ I.hasVar t ws.1 ws.2 = true ∧ σ (.x t ws.1 ws.2) = 1)
      (I.scanStep σ t) (List.range I.nW) none (by intro ws h; cases h)
      (by
        intro acc w hw hacc ws hws
        unfold Inst.scanStep at hws
        split at hws
        · rename_i s hs
          cases hws
          have h1 := List.find?_some hs
          have h2 := List.mem_of_find?_eq_some hs
          simp at h1
          exact ⟨List.mem_range.mp hw, List.mem_range.mp h2, h1.1, h1.2⟩
        · exact hacc ws hws)
  exact key (w, s) h

/-- The scan finds a pair as soon as some variable of the task has value 1. -/
theorem chosen_isSome {I : Inst} {σ : Var → Int} {t w s : Nat} (hw : w < I.nW)
    (hs : s < (I.task t).nS) (hv : I.hasVar t w s = true) (hx : σ (.x t w s) = 1) :
    (I.chosen σ t).isSome = true := by
  unfold Inst.chosen
  have key : ∀ (l : List Nat) (acc : Option (Nat × Nat)), (acc.isSome = true ∨ w ∈ l) →
      (l.foldl (I.scanStep σ t) acc).isSome = true := by
    intro l
    induction l with
    | nil => intro acc h; simpa using h
    | cons x xs ih =>
      intro acc hacc
      simp only [List.foldl_cons]
      apply ih
      by_cases hxk : x = w
      · left
        subst hxk
        unfold Inst.scanStep
        have : ((List.range (I.task t).nS).find? (fun s => I.hasVar t x s && σ (.x t x s) == 1)).isSome := by
          rw [List.find?_isSome]
          exact ⟨s, List.mem_range.mpr hs, by simp [hv, hx]⟩
        cases hf : (List.range (I.task t).nS).find? (fun s => I.hasVar t x s && σ (.x t x s) == 1) with
        | none => simp [hf] at this
        | some s => simp
      · rcases hacc with ha | hm
        · left
          unfold Inst.scanStep
          split
          · simp
          · exact ha
        · right
          simp at hm
          rcases hm with rfl | hm
          · exact absurd rfl hxk
          · exact hm
  exact key (List.range I.nW) none (Or.inr (List.mem_range.mpr hw))

/-- A chosen pair has placement value 1. -/
theorem chosen_xval {I : Inst} {σ : Var → Int} {t w s : Nat} (h : I.chosen σ t = some (w, s)) :
    xval I σ t w s = 1 := by
  have := chosen_spec h
  rw [xval_var this.2.2.1]; exact this.2.2.2

theorem hasVar_compatible {I : Inst} {t w s : Nat} (h : I.hasVar t w s = true) :
    I.running t = false ∧ compatible (I.worker w) ((I.task t).strat s) = true := by
  simpa [Inst.hasVar] using h

/-- Membership in `decode`. -/
theorem mem_decode {I : Inst} {σ : Var → Int} {d : Decision} :
    d ∈ decode I σ ↔ ∃ t, t < I.nT ∧ I.running t = false ∧ d = I.decodeTask σ t := by
  simp only [decode, List.mem_map]
  constructor
  · rintro ⟨t, ht, rfl⟩; exact ⟨t, (mem_nonRunning.mp ht).1, (mem_nonRunning.mp ht).2, rfl⟩
  · rintro ⟨t, ht, hr, rfl⟩; exact ⟨t, mem_nonRunning.mpr ⟨ht, hr⟩, rfl⟩

/-- A placed decision comes from a chosen pair and the start variable. -/
theorem decodeTask_placed {I : Inst} {σ : Var → Int} {t w s : Nat} {time : Int}
    (h : (I.decodeTask σ t).placed = some (w, s, time)) :
    I.chosen σ t = some (w, s) ∧ time = σ (.start t) := by
  simp only [Inst.decodeTask, Option.map_eq_some_iff] at h
  obtain ⟨ws, hws, heq⟩ := h
  cases heq
  exact ⟨by simpa using hws, rfl⟩

end ErdosVerif.Ilp
