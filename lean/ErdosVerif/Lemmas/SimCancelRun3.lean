import ErdosVerif.Lemmas.SimCancelRun2
/-!
The cancelled-task counter against the `.cancel` history entries, part 4: the specifications
with no event outside the queue (`ex = []`, the situation between two statements of a
handler), the scheduler-restart event and the handlers that neither cancel nor cache event ids.
-/
open Std.Do
set_option mvcgen.warning false

namespace ErdosVerif.Model.Sim.CC
open Heap

/-- `x` keeps the invariant when no event exists outside the queue. -/
abbrev K0 {α} (x : SimM α) : Prop := Keeps [] x

theorem row_0 (r : Row) : K0 (row r) := row_c [] r
theorem logE_0 (e : LogE) (he : isCancelLog e = false) : K0 (logE e) := logE_c [] e he
theorem liftE_0 {α} (e : Except SErr α) : K0 (liftE e) := liftE_c [] e
theorem getGraph_0 (gi : Nat) : K0 (getGraph gi) := getGraph_c [] gi
theorem setGraph_0 (gi : Nat) (g : GraphS) : K0 (setGraph gi g) := setGraph_c [] gi g
theorem raiseTask_0 (e : Option SErr) : K0 (raiseTask e) := raiseTask_c [] e
theorem getTask_0 (t : TaskId) : K0 (getTask t) := getTask_c [] t
theorem taskCall_0 (t : TaskId) (c : TaskCall) : K0 (taskCall t c) := taskCall_c [] t c
theorem liftTape_0 {α} (x : TapeM α) : K0 (liftTape x) := liftTape_c [] x
theorem addEvent_0 (e : SEvent) : ⦃IA [e]⦄ addEvent e ⦃post⟨fun _ => IA [], fun _ => WA⟩⦄ := addEvent_c [] e
theorem reheapify_0 : K0 reheapify := reheapify_c []
theorem editEvent_0 (eid : Nat) (f : SEvent → SEvent)
    (hf : ∀ e, (f e).ev.etype = e.ev.etype ∧ (f e).ev.eid = e.ev.eid) : K0 (editEvent eid f) := editEvent_c [] eid f hf
theorem findEvent_0 (eid : Nat) : K0 (findEvent eid) := findEvent_c [] eid
theorem nextOfType_0 (ty : Nat) : K0 (nextOfType ty) := nextOfType_c [] ty
theorem placedTasks_0 : K0 placedTasks := placedTasks_c []
theorem popEvent_0 : ⦃IA []⦄ popEvent ⦃post⟨fun r => IA [r], fun _ => WA⟩⦄ := popEvent_c []
theorem getPool_0 (p : Nat) : K0 (getPool p) := getPool_c [] p
theorem setPool_0 (p : Nat) (x : Pool) : K0 (setPool p x) := setPool_c [] p x
theorem raiseOutcome_0 (o : Outcome) : K0 (raiseOutcome o) := raiseOutcome_c [] o
theorem raisePlace_0 (r : Except PyErr Bool) : K0 (raisePlace r) := raisePlace_c [] r
theorem advanceClock_0 (dt : Int) : K0 (advanceClock dt) := advanceClock_c [] dt
theorem uniqueName_0 (t : TaskId) : K0 (uniqueName t) := uniqueName_c [] t
theorem startTask_0 (t : TaskId) (g : GraphS) (h : g.isReadyToRun t.t = true) (time fuzzed : Int) :
    K0 (startTask t g h time fuzzed) := startTask_c [] t g h time fuzzed
theorem mkEvent_0 (a : Nat) (b : Int) (c : Option TaskId) (d : Option PlacementS) (e : Option Nat)
    (ha : (a == ET.taskCancel) = false) :
    ⦃IA []⦄ mkEvent a b c d e ⦃post⟨fun r => IA [r], fun _ => WA⟩⦄ := mkEvent_c [] a b c d e ha
theorem logUtilization_0 (time : Int) : K0 (logUtilization time) := logUtilization_c [] time
theorem schedulable_0 (time : Int) : K0 (schedulable time) := schedulable_c [] time
theorem releasable_0 : K0 releasable := releasable_c []
theorem notifyGraphCompletion_0 (gi : Nat) (finish : Int) : K0 (notifyGraphCompletion gi finish) :=
  notifyGraphCompletion_c [] gi finish

attribute [local spec] row_0 logE_0 liftE_0 getGraph_0 setGraph_0 raiseTask_0 getTask_0 taskCall_0 liftTape_0 addEvent_0
  reheapify_0 editEvent_0 findEvent_0 nextOfType_0 placedTasks_0 popEvent_0 getPool_0 setPool_0 raiseOutcome_0
  raisePlace_0 advanceClock_0 uniqueName_0 startTask_0 mkEvent_0 logUtilization_0 schedulable_0 releasable_0
  notifyGraphCompletion_0

macro "k_close" : tactic => `(tactic| first
  | c_close0
  | (intro e; exact ⟨rfl, rfl⟩)
  | (simp_all; done))

/-- The event type `restart` decides on is not TASK_CANCEL. -/
theorem restart_not_cancel (f : SimFlags) (l e : Int) (i : RestartIn) :
    ((restart f l e i).1 == ET.taskCancel) = false := by
  unfold restart
  simp only []
  repeat' split
  all_goals rfl

theorem nextSchedulerEvent_0 (evTime : Int) :
    ⦃IA []⦄ nextSchedulerEvent evTime ⦃post⟨fun r => IA [r], fun _ => WA⟩⦄ := by
  mvcgen [nextSchedulerEvent]
  case inv1 => exact cLoop []
  all_goals first
    | k_close
    | exact restart_not_cancel _ _ _ _
   

/-! ### handlers -/

theorem handleSchedulerStart_0 (ev : SEvent) : K0 (handleSchedulerStart ev) := by
  mvcgen [handleSchedulerStart]
  all_goals first | k_close
theorem handleTaskRelease_0 (ev : SEvent) : K0 (handleTaskRelease ev) := by
  mvcgen [handleTaskRelease]
  all_goals first | k_close
theorem handleTaskGraphRelease_0 (ev : SEvent) : K0 (handleTaskGraphRelease ev) := by
  mvcgen [handleTaskGraphRelease]
  all_goals first | k_close
theorem handleProfile_0 (ev : SEvent) (load : Bool) : K0 (handleProfile ev load) := by
  mvcgen [handleProfile]
  all_goals first | k_close
theorem placementRow_0 (t : TaskId) (pid : Nat) (time : Int) (st : Strategy) : K0 (placementRow t pid time st) := by
  mvcgen [placementRow]
  all_goals first | k_close
theorem handleUpdateWorkload_0 (ev : SEvent) : K0 (handleUpdateWorkload ev) := by
  mvcgen [handleUpdateWorkload]
  case inv1 => exact cLoop []
  case inv2 => exact cLoop []
  all_goals first | k_close
theorem finishRemove_0 (t : TaskId) (time : Int) : K0 (finishRemove t time) := by
  mvcgen [finishRemove]
  all_goals first | k_close
theorem finishRows_0 (t : TaskId) (time : Int) : K0 (finishRows t time) := by
  mvcgen [finishRows]
  all_goals first | exact cLoop [] | k_close

end ErdosVerif.Model.Sim.CC
