import ErdosVerif.Lemmas.SimCancelRun4
import ErdosVerif.Lemmas.SimEditPending
/-!
The cancelled-task counter against the `.cancel` history entries, part 6: the handler of
TASK_CANCEL, `__handle_scheduler_finish`, the dispatcher, `__step`, the loop, and the run
theorem `simulate_cc`.
-/
open Std.Do
set_option mvcgen.warning false

namespace ErdosVerif.Model.Sim.CC
open Heap

/-! ### TASK_CANCEL -/

/-- The handler of a popped TASK_CANCEL event counts it (before anything can raise). -/
theorem handleTaskCancel_0 (ev : SEvent) :
    ⦃fun s => ⌜Inv [ev] s ∧ isTC ev = true⌝⦄ handleTaskCancel ev ⦃post⟨fun _ => IA [], fun _ => WA⟩⦄ := by
  mvcgen [handleTaskCancel, getTask, getGraph, row, removeEvent]
  all_goals try subst_vars
  all_goals first
    | (pick_hyp h => exact Inv.weak h.1)
    | (pick_hyp h => exact Inv.weak (Inv.count _ _ ev h.1 h.2 rfl rfl rfl rfl rfl))
    | (pick_hyp h => exact Inv.count _ _ ev h.1 h.2 rfl rfl rfl rfl rfl)
    | (pick_hyp h => pick_hyp hi => pick_hyp hf =>
        exact Inv.countRemove _ _ ev _ _ _ h.1 h.2 hi hf rfl rfl rfl rfl (fun _ hp => alist_mem_erase _ _ _ hp))
   

/-! ### `__handle_scheduler_finish` -/

theorem tcN_editPending (c : Option Nat) (p : PlacementS) (evs : List SEvent) :
    tcN (editPending c p evs) = tcN evs := by
  have h : ∀ l : List SEvent, tcN l = (l.map (·.ev.etype)).countP (· == ET.taskCancel) := by
    intro l; unfold tcN; rw [List.countP_map]; rfl
  rw [h, h, editPending_map_etype]

/-- The in-place edit of a pending placement event (time and placement only) keeps the
accounting of the TASK_CANCEL events that exist outside the queue. -/
theorem Inv.editPending {ex : List SEvent} {s : SimS} (h : Inv ex s) (c : Option Nat) (p : PlacementS) :
    Inv (editPending c p ex) s := by
  obtain ⟨a, b, c', d⟩ := h
  have hmem : ∀ e ∈ s.queue.toList ++ Sim.editPending c p ex, isTC e = true →
      ∃ e0 ∈ s.queue.toList ++ ex, isTC e0 = true ∧ e0.ev.eid = e.ev.eid := by
    intro e he htc
    rcases List.mem_append.mp he with he | he
    · exact ⟨e, List.mem_append.mpr (.inl he), htc, rfl⟩
    · rcases mem_editPending he with he | ⟨_, pt, e0, _, _, he0, _, rfl⟩
      · exact ⟨e, List.mem_append.mpr (.inr he), htc, rfl⟩
      · exact ⟨e0, List.mem_append.mpr (.inr he0), htc, rfl⟩
  refine ⟨?_, b, ?_, ?_⟩
  · rw [a]; unfold tcN; rw [List.countP_append, List.countP_append]
    have := tcN_editPending c p ex
    unfold tcN at this; rw [this]
  · intro e he htc
    obtain ⟨e0, he0, h0, hid⟩ := hmem e he htc
    rw [← hid]; exact c' e0 he0 h0
  · intro e he htc q hq
    obtain ⟨e0, he0, h0, hid⟩ := hmem e he htc
    rw [← hid]; exact d e0 he0 h0 q hq

theorem Inv.editPendingCongr {ex : List SEvent} (s s' : SimS) (h : Inv ex s) (hq : s'.queue = s.queue)
    (hl : cancelLogN s' = cancelLogN s)
    (hc : s'.cancelledTasks = s.cancelledTasks) (hn : s'.nextEid = s.nextEid) (hf : s'.future = s.future)
    (c : Option Nat) (p : PlacementS) : Inv (Sim.editPending c p ex) s' :=
  Inv.editPending (Inv.congr s s' h hq hl hc hn hf) c p

section schedFinish
attribute [local spec] placementSkip_r placementEvents_r nextSchedulerEvent_0

set_option maxHeartbeats 1600000 in
theorem handleSchedulerFinish_0 (ev : SEvent) : K0 (handleSchedulerFinish ev) := by
  mvcgen [handleSchedulerFinish, getTask, getGraph, row, mkEvent, uniqueName, addEvent]
  case inv1 => exact post⟨fun r s => ⌜Inv r.2 s⌝, fun _ s => ⌜W s⌝⟩
  case inv2 => exact post⟨fun r s => ⌜Inv r.1.suffix s⌝, fun _ s => ⌜W s⌝⟩
  all_goals try subst_vars
  all_goals first
    | d_solve
    | (pick_hyp hS => pick_hyp h => exact Inv.exPerm (hS _ h) List.perm_append_comm)
    | (pick_hyp hS => pick_hyp h => exact Inv.exPerm (hS _ (Inv.congr _ _ h rfl rfl rfl rfl rfl)) List.perm_append_comm)
    | (pick_hyp hS => pick_hyp h => exact Inv.exPerm (hS _ (Inv.editPending h _ _)) List.perm_append_comm)
    | (pick_hyp hS => pick_hyp h =>
        exact Inv.exPerm (hS _ (Inv.editPendingCongr _ _ h rfl rfl rfl rfl rfl _ _)) List.perm_append_comm)
    | (intro s hS; pick_hyp h => exact hS _ h)
    | (intro s hS; pick_hyp h => exact hS _ (Inv.congr _ _ h rfl rfl rfl rfl rfl))
    | (pick_hyp h => exact Inv.addFreshAdd _ _ _ _ h (by rfl) rfl rfl rfl rfl rfl)
    | skip
  -- left: a placed PLACE_TASK entry (TASK_SCHEDULED row written; the pending list is edited, then extended)
  rename_i hI _ _ _ _ _ _ _ _ _ t _ _ _ _ hS
  have h1 : Inv _ _ := hI
  have h2 := Inv.editPendingCongr _ t.snd h1 rfl rfl rfl rfl rfl
  exact Inv.exPerm (hS _ (h2 _ _)) List.perm_append_comm
   
end schedFinish

/-! ### the dispatcher -/

theorem not_isTC_of_ne {ev : SEvent} (h : ¬ (ev.ev.etype == ET.taskCancel) = true) : isTC ev = false := by
  unfold isTC
  cases hx : (ev.ev.etype == ET.taskCancel) with
  | false => rfl
  | true => exact absurd hx h

theorem not_isTC_of_start {ev : SEvent} (h : (ev.ev.etype == ET.simulatorStart) = true) : isTC ev = false := by
  unfold isTC
  rw [eq_of_beq h]; rfl

section dispatch
attribute [local spec] handleTaskCancel_0 handleProfile_0 handleTaskFinished_0 handleTaskGraphRelease_0
  handleTaskRelease_0 handleUpdateWorkload_0 handleTaskPlacement_0 handleSchedulerStart_0 handleSchedulerFinish_0
  logUtilization_0

set_option maxHeartbeats 1600000 in
/-- `__handle_event` on the popped event (which exists outside the queue). -/
theorem handleEvent_0 (ev : SEvent) :
    ⦃IA [ev]⦄ handleEvent ev ⦃post⟨fun _ => IA [], fun _ => WA⟩⦄ := by
  mvcgen [handleEvent, logE, row]
  all_goals try subst_vars
  all_goals first
    | c_close0
    | (pick_hyp h => pick_hyp hn =>
        exact Inv.congr _ _ (Inv.dropEx ev h (not_isTC_of_ne hn)) rfl (cancelLogN_push_other _ _ _ rfl rfl) rfl rfl rfl)
    | (pick_hyp h => pick_hyp hn =>
        exact Inv.congr _ _ (Inv.dropEx ev h (not_isTC_of_start hn)) rfl (cancelLogN_push_other _ _ _ rfl rfl) rfl rfl rfl)
    | (pick_hyp h => pick_hyp hc =>
        exact ⟨Inv.congr _ _ h rfl (cancelLogN_push_other _ _ _ rfl rfl) rfl rfl rfl, hc⟩)
    | (pick_hyp h => exact W.log _ _ _ (Inv.weak h) rfl rfl)
   
end dispatch

/-! ### `__step` -/

set_option maxHeartbeats 1600000 in
/-- `__step`: the TASK_FINISHED events it creates are collected, then queued. -/
theorem step_0 (dt : Int) : K0 (step dt) := by
  mvcgen [step, advanceClock, addEvent, getPool, setPool, getTask, getGraph, taskCall, setGraph, raiseTask,
    mkEvent, uniqueName]
  case inv1 => exact cLoop []
  case inv2 => exact cLoop []
  case inv3 => exact cLoop []
  case inv4 => exact post⟨fun r s => ⌜Inv r.2 s⌝, fun _ s => ⌜W s⌝⟩
  case inv5 => exact post⟨fun r s => ⌜Inv r.1.suffix s⌝, fun _ s => ⌜W s⌝⟩
  all_goals try subst_vars
  all_goals first | d_solve

/-! ### the loop -/

section loop
attribute [local spec] row_0 liftE_0 getGraph_0 getTask_0 placedTasks_0 popEvent_0 addEvent_0 mkEvent_0 logUtilization_0
  step_0 handleEvent_0

theorem iter_0 : K0 iter := by
  mvcgen [iter]
  split
  · mvcgen
    all_goals first | exact cLoop [] | k_close
  · mvcgen
    all_goals first | exact cLoop [] | k_close

theorem init_0 : K0 init := by
  mvcgen [init]
  all_goals first | exact cLoop [] | k_close

theorem run_0 (n : Nat) : K0 (run n) := by
  induction n with
  | zero => mvcgen [run]; all_goals k_close
  | succ n ih =>
    mvcgen [run, ih, iter_0]
    all_goals first | exact cLoop [] | k_close

theorem whole_0 (fuel : Nat) : K0 (do init; run fuel) := by
  mvcgen [run_0, init_0]
  all_goals first | exact cLoop [] | k_close
end loop

/-- **Every `.cancel` entry has exactly one TASK_CANCEL event, every run.** From an initial
state satisfying the invariant (no `.cancel` entry, counter 0, no TASK_CANCEL event queued, cached
ids below the id counter):
* whatever way the run stops, `cancelledTasks ≤` number of `.cancel` history entries (`W`);
* when it ends normally, number of `.cancel` entries = `cancelledTasks` + number of TASK_CANCEL
  events still queued (`Inv []`). -/
theorem simulate_cc (s0 : SimS) (fuel : Nat) (h : Inv [] s0) :
    W (simulate s0 fuel).2 ∧ ((simulate s0 fuel).1 = none → Inv [] (simulate s0 fuel).2) := by
  have := whole_0 fuel s0 h
  simp only [wp, PredTrans.apply_pushExcept, PredTrans.apply_pushArg, Id.run] at this
  unfold simulate
  revert this
  cases (StateT.run (ExceptT.run (do init; run fuel)) s0) with
  | mk r s =>
    cases r with
    | ok a => intro h; exact ⟨Inv.weak h, fun _ => h⟩
    | error e => intro h; exact ⟨h, fun hh => by cases hh⟩

/-- An initial state: no `.cancel` entry, counter 0, no TASK_CANCEL event queued, every cached
event id below the id counter (in particular: empty queue, empty history, no cached id). -/
theorem inv_initial (s0 : SimS) (hl : cancelLogN s0 = 0) (hc : s0.cancelledTasks = 0)
    (hq : ∀ e ∈ s0.queue.toList, isTC e = false) (hf : ∀ p ∈ s0.future, p.2 < s0.nextEid) : Inv [] s0 := by
  have hno : ∀ e ∈ s0.queue.toList ++ [], isTC e = true → False := by
    intro e he ht
    rw [List.append_nil] at he
    rw [hq e he] at ht; cases ht
  refine ⟨?_, hf, fun e he ht => (hno e he ht).elim, fun e he ht => (hno e he ht).elim⟩
  rw [hl, hc]
  unfold tcN
  rw [List.append_nil, Nat.zero_add]
  symm
  rw [List.countP_eq_zero]
  intro e he
  rw [hq e he]; simp

end ErdosVerif.Model.Sim.CC
