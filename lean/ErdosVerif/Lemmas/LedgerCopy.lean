import ErdosVerif.Lemmas.LedgerByName
/-!
A shallow copy has the same occupancy per resource type as the original.
-/
namespace ErdosVerif.Model

theorem pairsByName_append (l₁ l₂ : List (Res × Nat)) (n : String) :
    pairsByName (l₁ ++ l₂) n = pairsByName l₁ n + pairsByName l₂ n := by
  induction l₁ with
  | nil => simp [pairsByName]
  | cons p t ih => obtain ⟨r, q⟩ := p; simp only [List.cons_append, pairsByName, ih]; omega

theorem allocByName_set (a : AList Comp (List (Res × Nat))) (c : Comp) (l : List (Res × Nat)) (n : String) :
    allocByName (AList.set a c l) n + pairsByName ((AList.get? a c).getD []) n
      = allocByName a n + pairsByName l n := by
  induction a with
  | nil => simp [AList.set, AList.get?, allocByName, pairsByName]
  | cons p t ih =>
    obtain ⟨c', l'⟩ := p
    simp only [AList.set, AList.get?]
    by_cases h : c' = c
    · simp [h, allocByName]; omega
    · simp only [h, if_false, allocByName]; omega

theorem allocByName_record (a : AList Comp (List (Res × Nat))) (c : Comp) (rec : List (Res × Nat)) (n : String) :
    allocByName (Resources.record a c rec) n = allocByName a n + pairsByName rec n := by
  unfold Resources.record
  have := allocByName_set a c ((AList.get? a c).getD [] ++ rec) n
  rw [pairsByName_append] at this
  omega

namespace Resources

theorem allocate_total (r : Resources) (k : Res) (c : Comp) (q : Nat) :
    (r.allocate k c q).1.total = r.total := by
  unfold allocate; split <;> rfl

/-- A successful `allocate` charges exactly `q` units of type `k.name` to the ledger. -/
theorem allocate_allocByName (r : Resources) (k : Res) (c : Comp) (q : Nat) (n : String)
    (hok : (r.allocate k c q).2 = .ok) :
    allocByName (r.allocate k c q).1.allocs n = allocByName r.allocs n + (if k.name = n then q else 0) := by
  unfold allocate at hok ⊢
  split
  · rename_i hlt; simp [hlt] at hok
  · rename_i hge
    simp only [allocByName_record, scan_total_byName]
    have := scan_total k r.avail q (by unfold availQ at hge; omega)
    rw [this]

theorem replayPairs_spec (inst : Resources) (c : Comp) (l : List (Res × Nat)) (n : String)
    (hok : (replayPairs inst c l).2 = .ok) :
    (replayPairs inst c l).1.total = inst.total ∧
    allocByName (replayPairs inst c l).1.allocs n = allocByName inst.allocs n + pairsByName l n := by
  induction l generalizing inst with
  | nil => simp [replayPairs, pairsByName]
  | cons p rest ih =>
    obtain ⟨k, q⟩ := p
    simp only [replayPairs] at hok ⊢
    have ht := allocate_total inst k c q
    cases hres : inst.allocate k c q with
    | mk r' o =>
      rw [hres] at hok ht
      cases o with
      | raised e => simp at hok
      | ok =>
        simp only at hok ht ⊢
        have h1 := allocate_allocByName inst k c q n (by rw [hres])
        rw [hres] at h1
        simp only at h1
        obtain ⟨i1, i2⟩ := ih r' hok
        refine ⟨i1.trans ht, ?_⟩
        rw [i2, h1]; simp only [pairsByName]; omega

theorem replayAll_spec (inst : Resources) (a : AList Comp (List (Res × Nat))) (n : String)
    (hok : (replayAll inst a).2 = .ok) :
    (replayAll inst a).1.total = inst.total ∧
    allocByName (replayAll inst a).1.allocs n = allocByName inst.allocs n + allocByName a n := by
  induction a generalizing inst with
  | nil => simp [replayAll, allocByName]
  | cons p rest ih =>
    obtain ⟨c, l⟩ := p
    simp only [replayAll] at hok ⊢
    cases hres : replayPairs { inst with allocs := record inst.allocs c [] } c l with
    | mk r' o =>
      rw [hres] at hok
      cases o with
      | raised e => simp at hok
      | ok =>
        simp only at hok ⊢
        have h1 := replayPairs_spec { inst with allocs := record inst.allocs c [] } c l n (by rw [hres])
        rw [hres] at h1
        simp only [allocByName_record, pairsByName] at h1
        obtain ⟨i1, i2⟩ := ih r' hok
        refine ⟨i1.trans h1.1, ?_⟩
        rw [i2, h1.2]; simp only [allocByName]; omega

/-- **A successful shallow copy has the same totals and the same availability
per resource type as the original.** -/
theorem copy_same_occupancy (r r' : Resources) (h : r.Inv) (hc : r.copy = (r', .ok)) (n : String) :
    r'.total = r.total ∧ byName r'.avail n = byName r.avail n := by
  have hok : (replayAll (ofVec r.total) r.allocs).2 = .ok := by
    have : r.copy.2 = .ok := by rw [hc]
    exact this
  have hs := replayAll_spec (ofVec r.total) r.allocs n hok
  have hinv : r'.Inv := by have := inv_copy r h; rw [hc] at this; exact this
  have e : replayAll (ofVec r.total) r.allocs = (r', .ok) := hc
  rw [e] at hs
  simp only [ofVec, allocByName, Nat.zero_add] at hs
  refine ⟨hs.1, ?_⟩
  have c1 := conserve_byName r h n
  have c2 := conserve_byName r' hinv n
  rw [hs.1] at c2
  omega

end Resources
end ErdosVerif.Model
