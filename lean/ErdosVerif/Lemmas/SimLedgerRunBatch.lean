import ErdosVerif.Lemmas.SimLedgerRunDefs
import ErdosVerif.Lemmas.LedgerByName
/-!
The batch part of the worker invariant: `Worker.BOK` — the live batches, their members, the
placeholder computation of each batch and its ledger entry — preserved by every worker operation
the simulator issues. Core Lean only.
-/
namespace ErdosVerif.Model

section
variable {κ υ : Type} [DecidableEq κ]
theorem AList.lr_get?_erase_set (l : AList κ υ) (k x : κ) (v : υ) (h : (AList.keys l).Nodup) :
    AList.get? (AList.erase (AList.set l k v) k) x = if k = x then none else AList.get? l x := by
  rw [AList.lr_get?_erase _ _ _ (AList.lr_nodup_set _ _ _ h), AList.get?_set]
  by_cases e : k = x <;> simp [e]
theorem AList.lr_has_of_get? (l : AList κ υ) (k : κ) (v : υ) (h : AList.get? l k = some v) : l.has k = true := by
  simp [AList.has, h]
end

/-- **Live batches (set equation and amounts)**: a resident placed with a batch strategy is a
member of the live batch of that strategy; the members of a live batch are residents placed with
that strategy, without repetition, at least one; every live batch has a placeholder computation
whose ledger entry holds the demand of a strategy with the batch's identity (the one that opened
the batch); every `.batch` ledger entry is the placeholder of a live batch; placeholders are not
shared and are older than the worker's placeholder counter. -/
structure Worker.BOK (w : Worker) : Prop where
  bnodup : (AList.keys w.batches).Nodup
  btnodup : (AList.keys w.batchTask).Nodup
  memBatch : ∀ t s, AList.get? w.placed t = some s → s.isBatch = true →
    ∃ ms, AList.get? w.batches s.sid = some ms ∧ t ∈ ms
  batchMem : ∀ sid ms, AList.get? w.batches sid = some ms → ms.Nodup ∧ ms ≠ [] ∧
    ∀ t ∈ ms, ∃ s, AList.get? w.placed t = some s ∧ s.isBatch = true ∧ s.sid = sid
  batchHeld : ∀ sid ms, AList.get? w.batches sid = some ms → ∃ (g : Nat) (l : List (Res × Nat)) (s0 : Strategy), AList.get? w.batchTask sid = some (.batch g) ∧
    AList.get? w.res.allocs (.batch g) = some l ∧ s0.sid = sid ∧ s0.isBatch = true ∧ Amt l s0.req
  heldBatch : ∀ g l, AList.get? w.res.allocs (.batch g) = some l →
    ∃ sid, AList.get? w.batchTask sid = some (.batch g) ∧ w.batches.has sid = true
  btInj : ∀ sid sid' c, AList.get? w.batchTask sid = some c → AList.get? w.batchTask sid' = some c → sid = sid'
  btFresh : ∀ sid g, AList.get? w.batchTask sid = some (.batch g) → g < w.fresh

namespace Worker.BOK

theorem ofVec (v : Vec) : (Worker.ofVec v).BOK :=
  ⟨List.nodup_nil, List.nodup_nil, fun _ _ h => by simp [Worker.ofVec, AList.get?] at h,
   fun _ _ h => by simp [Worker.ofVec, AList.get?] at h, fun _ _ h => by simp [Worker.ofVec, AList.get?] at h,
   fun _ _ h => by simp [Worker.ofVec, Resources.ofVec, AList.get?] at h,
   fun _ _ _ h => by simp [Worker.ofVec, AList.get?] at h, fun _ _ h => by simp [Worker.ofVec, AList.get?] at h⟩

variable {w w' : Worker}

/-- Effect: nothing that concerns batches changed. -/
theorem frame (h : w.BOK) (hb : w'.batches = w.batches) (hbt : w'.batchTask = w.batchTask) (hf : w'.fresh = w.fresh)
    (ha : ∀ g, AList.get? w'.res.allocs (.batch g) = AList.get? w.res.allocs (.batch g))
    (hp : ∀ u su, su.isBatch = true → (AList.get? w'.placed u = some su ↔ AList.get? w.placed u = some su)) :
    w'.BOK := by
  refine ⟨by rw [hb]; exact h.bnodup, by rw [hbt]; exact h.btnodup, ?_, ?_, ?_, ?_, by rw [hbt]; exact h.btInj,
    by rw [hbt, hf]; exact h.btFresh⟩
  · intro t s hs hsb
    rw [hb]; exact h.memBatch t s ((hp t s hsb).mp hs) hsb
  · intro sid ms hms
    rw [hb] at hms
    obtain ⟨h1, h2, h3⟩ := h.batchMem sid ms hms
    refine ⟨h1, h2, ?_⟩
    intro t ht
    obtain ⟨s, hs, hsb, hsid⟩ := h3 t ht
    exact ⟨s, (hp t s hsb).mpr hs, hsb, hsid⟩
  · intro sid ms hms
    rw [hb] at hms
    obtain ⟨g, l, s0, h1, h2, h3⟩ := h.batchHeld sid ms hms
    exact ⟨g, l, s0, by rw [hbt]; exact h1, by rw [ha]; exact h2, h3⟩
  · intro g l hl
    rw [ha] at hl
    rw [hb, hbt]; exact h.heldBatch g l hl

/-- Effect: a task that is not resident opens a batch. -/
theorem openB {t : Nat} {s : Strategy} {recs : List (Res × Nat)} (h : w.BOK) (hn : t ∉ AList.keys w.placed)
    (hs : s.isBatch = true) (hnone : AList.get? w.batches s.sid = none)
    (ha : w'.res.allocs = AList.set w.res.allocs (.batch w.fresh) ((AList.get? w.res.allocs (.batch w.fresh)).getD [] ++ recs))
    (hamt : Amt recs s.req) (hp : w'.placed = AList.set w.placed t s)
    (hb : w'.batches = AList.set w.batches s.sid [t]) (hbt : w'.batchTask = AList.set w.batchTask s.sid (.batch w.fresh))
    (hf : w'.fresh = w.fresh + 1) : w'.BOK := by
  have hfreshNone : AList.get? w.res.allocs (.batch w.fresh) = none := by
    cases hg : AList.get? w.res.allocs (.batch w.fresh) with
    | none => rfl
    | some l =>
      obtain ⟨sid, h1, _⟩ := h.heldBatch _ l hg
      exact absurd (h.btFresh sid _ h1) (Nat.lt_irrefl _)
  rw [hfreshNone] at ha
  simp only [Option.getD_none, List.nil_append] at ha
  have hnt : ∀ u, u ≠ t → AList.get? w'.placed u = AList.get? w.placed u := by
    intro u hu
    rw [hp, AList.get?_set]
    have : ¬ t = u := fun e => hu e.symm
    simp [this]
  have hpt : AList.get? w'.placed t = some s := by rw [hp, AList.get?_set]; simp
  have hplaced_ne : ∀ u su, AList.get? w.placed u = some su → u ≠ t :=
    fun u su hu e => hn (e ▸ AList.mem_keys_of_get?_some _ _ _ hu)
  refine ⟨by rw [hb]; exact AList.lr_nodup_set _ _ _ h.bnodup, by rw [hbt]; exact AList.lr_nodup_set _ _ _ h.btnodup,
    ?_, ?_, ?_, ?_, ?_, ?_⟩
  · intro u su hu hsb
    by_cases e : u = t
    · subst e
      rw [hpt] at hu; cases hu
      exact ⟨[u], by rw [hb, AList.get?_set]; simp, by simp⟩
    · rw [hnt u e] at hu
      obtain ⟨ms, hms, hmem⟩ := h.memBatch u su hu hsb
      have hne : ¬ s.sid = su.sid := by intro e'; rw [e', hms] at hnone; cases hnone
      exact ⟨ms, by rw [hb, AList.get?_set]; simp [hne, hms], hmem⟩
  · intro sid ms hms
    rw [hb, AList.get?_set] at hms
    by_cases e : s.sid = sid
    · simp only [e, if_true, Option.some.injEq] at hms
      subst hms
      refine ⟨by simp, by simp, ?_⟩
      intro u hu
      simp only [List.mem_singleton] at hu
      subst hu
      exact ⟨s, hpt, hs, e⟩
    · simp only [e, if_false] at hms
      obtain ⟨h1, h2, h3⟩ := h.batchMem sid ms hms
      refine ⟨h1, h2, ?_⟩
      intro u hu
      obtain ⟨su, hsu, hsb, hsid⟩ := h3 u hu
      exact ⟨su, by rw [hnt u (hplaced_ne u su hsu)]; exact hsu, hsb, hsid⟩
  · intro sid ms hms
    rw [hb, AList.get?_set] at hms
    by_cases e : s.sid = sid
    · refine ⟨w.fresh, recs, s, by rw [hbt, AList.get?_set]; simp [e], by rw [ha, AList.get?_set]; simp, e, hs, hamt⟩
    · simp only [e, if_false] at hms
      obtain ⟨g, l, s0, h1, h2, h3⟩ := h.batchHeld sid ms hms
      have hg : g ≠ w.fresh := Nat.ne_of_lt (h.btFresh sid g h1)
      refine ⟨g, l, s0, by rw [hbt, AList.get?_set]; simp [e, h1], ?_, h3⟩
      rw [ha, AList.get?_set]
      have : ¬ Comp.batch w.fresh = Comp.batch g := by simp; exact fun e' => hg e'.symm
      simp [this, h2]
  · intro g l hl
    rw [ha, AList.get?_set] at hl
    by_cases e : w.fresh = g
    · subst e
      exact ⟨s.sid, by rw [hbt, AList.get?_set]; simp, by rw [hb, AList.has_set]; simp⟩
    · have : ¬ Comp.batch w.fresh = Comp.batch g := by simp [e]
      simp only [this, if_false] at hl
      obtain ⟨sid, h1, h2⟩ := h.heldBatch g l hl
      have hne : ¬ s.sid = sid := by
        intro e'; subst e'
        simp [AList.has, hnone] at h2
      exact ⟨sid, by rw [hbt, AList.get?_set]; simp [hne, h1], by rw [hb, AList.has_set]; simp [h2]⟩
  · intro sid sid' c h1 h2
    rw [hbt, AList.get?_set] at h1 h2
    by_cases e1 : s.sid = sid <;> by_cases e2 : s.sid = sid'
    · rw [← e1, ← e2]
    · simp only [e1, if_true, Option.some.injEq] at h1
      simp only [e2, if_false] at h2
      subst h1
      exact absurd (h.btFresh sid' _ h2) (Nat.lt_irrefl _)
    · simp only [e2, if_true, Option.some.injEq] at h2
      simp only [e1, if_false] at h1
      subst h2
      exact absurd (h.btFresh sid _ h1) (Nat.lt_irrefl _)
    · simp only [e1, if_false] at h1
      simp only [e2, if_false] at h2
      exact h.btInj sid sid' c h1 h2
  · intro sid g hg
    rw [hbt, AList.get?_set] at hg
    rw [hf]
    by_cases e : s.sid = sid
    · simp only [e, if_true, Option.some.injEq, Comp.batch.injEq] at hg
      omega
    · simp only [e, if_false] at hg
      exact Nat.lt_succ_of_lt (h.btFresh sid g hg)

/-- Effect: a task that is not resident joins a live batch. -/
theorem joinB {t : Nat} {s : Strategy} {ms : List Nat} (h : w.BOK) (hn : t ∉ AList.keys w.placed)
    (hs : s.isBatch = true) (hms : AList.get? w.batches s.sid = some ms)
    (ha : w'.res.allocs = w.res.allocs) (hp : w'.placed = AList.set w.placed t s)
    (hb : w'.batches = AList.set w.batches s.sid (if ms.contains t then ms else ms ++ [t]))
    (hbt : w'.batchTask = w.batchTask) (hf : w'.fresh = w.fresh) : w'.BOK := by
  obtain ⟨mnd, mne, mmem⟩ := h.batchMem s.sid ms hms
  have htms : t ∉ ms := by
    intro ht
    obtain ⟨s1, hs1, _⟩ := mmem t ht
    exact hn (AList.mem_keys_of_get?_some _ _ _ hs1)
  have hcont : (if ms.contains t then ms else ms ++ [t]) = ms ++ [t] := by
    rw [if_neg (by simpa using htms)]
  rw [hcont] at hb
  have hnt : ∀ u, u ≠ t → AList.get? w'.placed u = AList.get? w.placed u := by
    intro u hu
    rw [hp, AList.get?_set]
    have : ¬ t = u := fun e => hu e.symm
    simp [this]
  have hpt : AList.get? w'.placed t = some s := by rw [hp, AList.get?_set]; simp
  have hplaced_ne : ∀ u su, AList.get? w.placed u = some su → u ≠ t :=
    fun u su hu e => hn (e ▸ AList.mem_keys_of_get?_some _ _ _ hu)
  refine ⟨by rw [hb]; exact AList.lr_nodup_set _ _ _ h.bnodup, by rw [hbt]; exact h.btnodup, ?_, ?_, ?_, ?_,
    by rw [hbt]; exact h.btInj, by rw [hbt, hf]; exact h.btFresh⟩
  · intro u su hu hsb
    by_cases e : u = t
    · subst e
      rw [hpt] at hu; cases hu
      exact ⟨ms ++ [u], by rw [hb, AList.get?_set]; simp, by simp⟩
    · rw [hnt u e] at hu
      obtain ⟨ms1, hms1, hmem⟩ := h.memBatch u su hu hsb
      rw [hb, AList.get?_set]
      by_cases e' : s.sid = su.sid
      · rw [← e', hms] at hms1; cases hms1
        exact ⟨ms ++ [t], by simp [e'], List.mem_append_left _ hmem⟩
      · exact ⟨ms1, by simp [e', hms1], hmem⟩
  · intro sid ms1 hms1
    rw [hb, AList.get?_set] at hms1
    by_cases e : s.sid = sid
    · simp only [e, if_true, Option.some.injEq] at hms1
      subst hms1
      refine ⟨?_, by simp, ?_⟩
      · rw [List.nodup_append]
        refine ⟨mnd, by simp, ?_⟩
        intro a ha b hb'
        simp only [List.mem_singleton] at hb'
        subst hb'
        intro e'; subst e'; exact htms ha
      · intro u hu
        rcases List.mem_append.mp hu with hu | hu
        · obtain ⟨su, hsu, hsb, hsid⟩ := mmem u hu
          exact ⟨su, by rw [hnt u (hplaced_ne u su hsu)]; exact hsu, hsb, by rw [← e]; exact hsid⟩
        · simp only [List.mem_singleton] at hu
          subst hu
          exact ⟨s, hpt, hs, e⟩
    · simp only [e, if_false] at hms1
      obtain ⟨h1, h2, h3⟩ := h.batchMem sid ms1 hms1
      refine ⟨h1, h2, ?_⟩
      intro u hu
      obtain ⟨su, hsu, hsb, hsid⟩ := h3 u hu
      exact ⟨su, by rw [hnt u (hplaced_ne u su hsu)]; exact hsu, hsb, hsid⟩
  · intro sid ms1 hms1
    rw [hb, AList.get?_set] at hms1
    rw [hbt, ha]
    by_cases e : s.sid = sid
    · exact h.batchHeld sid ms (by rw [← e]; exact hms)
    · simp only [e, if_false] at hms1
      exact h.batchHeld sid ms1 hms1
  · intro g l hl
    rw [ha] at hl
    obtain ⟨sid, h1, h2⟩ := h.heldBatch g l hl
    exact ⟨sid, by rw [hbt]; exact h1, by rw [hb, AList.has_set]; simp [h2]⟩

/-- Effect: a member leaves its batch; when it was the last one the batch, its placeholder and
the placeholder's ledger entry go. -/
theorem leaveB {t : Nat} {s : Strategy} {ms : List Nat} (h : w.BOK) (hg : AList.get? w.placed t = some s)
    (_hs : s.isBatch = true) (hms : AList.get? w.batches s.sid = some ms)
    (hp : w'.placed = AList.erase w.placed t) (hpn : (AList.keys w.placed).Nodup) (hf : w'.fresh = w.fresh)
    (hcase : (ms.erase t ≠ [] ∧ w'.batches = AList.set w.batches s.sid (ms.erase t) ∧ w'.batchTask = w.batchTask ∧
                w'.res.allocs = w.res.allocs) ∨
             (ms.erase t = [] ∧ w'.batches = AList.erase (AList.set w.batches s.sid (ms.erase t)) s.sid ∧
                w'.batchTask = AList.erase w.batchTask s.sid ∧
                ∃ g, AList.get? w.batchTask s.sid = some (.batch g) ∧
                  w'.res.allocs = AList.erase w.res.allocs (.batch g))) (hand : (AList.keys w.res.allocs).Nodup) :
    w'.BOK := by
  obtain ⟨mnd, mne, mmem⟩ := h.batchMem s.sid ms hms
  have hnt : ∀ u, AList.get? w'.placed u = if t = u then none else AList.get? w.placed u := by
    intro u; rw [hp]; exact AList.lr_get?_erase _ _ _ hpn
  -- a resident of another batch is not `t`
  have hother : ∀ u su, AList.get? w.placed u = some su → su.sid ≠ s.sid → ¬ t = u := by
    intro u su hu hne e
    subst e
    rw [hg] at hu; cases hu; exact hne rfl
  rcases hcase with ⟨hne, hb, hbt, ha⟩ | ⟨hlast, hb, hbt, g, hbg, ha⟩
  · refine ⟨by rw [hb]; exact AList.lr_nodup_set _ _ _ h.bnodup, by rw [hbt]; exact h.btnodup, ?_, ?_, ?_, ?_,
      by rw [hbt]; exact h.btInj, by rw [hbt, hf]; exact h.btFresh⟩
    · intro u su hu hsb
      rw [hnt u] at hu
      by_cases e : t = u
      · simp [e] at hu
      · simp only [e, if_false] at hu
        obtain ⟨ms1, hms1, hmem⟩ := h.memBatch u su hu hsb
        rw [hb, AList.get?_set]
        by_cases e' : s.sid = su.sid
        · rw [← e', hms] at hms1; cases hms1
          exact ⟨ms.erase t, by simp [e'], (List.mem_erase_of_ne (fun e'' => e e''.symm)).mpr hmem⟩
        · exact ⟨ms1, by simp [e', hms1], hmem⟩
    · intro sid ms1 hms1
      rw [hb, AList.get?_set] at hms1
      by_cases e : s.sid = sid
      · simp only [e, if_true, Option.some.injEq] at hms1
        subst hms1
        refine ⟨mnd.erase _, hne, ?_⟩
        intro u hu
        have hu' := (List.Nodup.mem_erase_iff mnd).mp hu
        obtain ⟨su, hsu, hsb, hsid⟩ := mmem u hu'.2
        have hne' : ¬ t = u := fun e' => hu'.1 e'.symm
        exact ⟨su, by rw [hnt u, if_neg hne']; exact hsu, hsb, by rw [← e]; exact hsid⟩
      · simp only [e, if_false] at hms1
        obtain ⟨h1, h2, h3⟩ := h.batchMem sid ms1 hms1
        refine ⟨h1, h2, ?_⟩
        intro u hu
        obtain ⟨su, hsu, hsb, hsid⟩ := h3 u hu
        have : ¬ t = u := hother u su hsu (by rw [hsid]; exact fun e' => e e'.symm)
        exact ⟨su, by rw [hnt u]; simp [this, hsu], hsb, hsid⟩
    · intro sid ms1 hms1
      rw [hb, AList.get?_set] at hms1
      rw [hbt, ha]
      by_cases e : s.sid = sid
      · exact h.batchHeld sid ms (by rw [← e]; exact hms)
      · simp only [e, if_false] at hms1
        exact h.batchHeld sid ms1 hms1
    · intro g l hl
      rw [ha] at hl
      obtain ⟨sid, h1, h2⟩ := h.heldBatch g l hl
      exact ⟨sid, by rw [hbt]; exact h1, by rw [hb, AList.has_set]; simp [h2]⟩
  · have hbget : ∀ x, AList.get? w'.batches x = if s.sid = x then none else AList.get? w.batches x := by
      intro x; rw [hb]; exact AList.lr_get?_erase_set _ _ _ _ h.bnodup
    have hbtget : ∀ x, AList.get? w'.batchTask x = if s.sid = x then none else AList.get? w.batchTask x := by
      intro x; rw [hbt]; exact AList.lr_get?_erase _ _ _ h.btnodup
    have haget : ∀ c, AList.get? w'.res.allocs c = if Comp.batch g = c then none else AList.get? w.res.allocs c := by
      intro c; rw [ha]; exact AList.lr_get?_erase _ _ _ hand
    -- the only member was `t`
    have honly : ∀ u ∈ ms, u = t := by
      intro u hu
      by_cases e : u = t
      · exact e
      · have : u ∈ ms.erase t := (List.mem_erase_of_ne e).mpr hu
        rw [hlast] at this; cases this
    refine ⟨by rw [hb]; exact AList.lr_nodup_erase _ _ (AList.lr_nodup_set _ _ _ h.bnodup),
      by rw [hbt]; exact AList.lr_nodup_erase _ _ h.btnodup, ?_, ?_, ?_, ?_, ?_, ?_⟩
    · intro u su hu hsb
      rw [hnt u] at hu
      by_cases e : t = u
      · simp [e] at hu
      · simp only [e, if_false] at hu
        obtain ⟨ms1, hms1, hmem⟩ := h.memBatch u su hu hsb
        have hne : ¬ s.sid = su.sid := by
          intro e'
          rw [← e', hms] at hms1; cases hms1
          exact e (honly u hmem).symm
        exact ⟨ms1, by rw [hbget]; simp [hne, hms1], hmem⟩
    · intro sid ms1 hms1
      rw [hbget] at hms1
      by_cases e : s.sid = sid
      · simp [e] at hms1
      · simp only [e, if_false] at hms1
        obtain ⟨h1, h2, h3⟩ := h.batchMem sid ms1 hms1
        refine ⟨h1, h2, ?_⟩
        intro u hu
        obtain ⟨su, hsu, hsb, hsid⟩ := h3 u hu
        have : ¬ t = u := hother u su hsu (by rw [hsid]; exact fun e' => e e'.symm)
        exact ⟨su, by rw [hnt u]; simp [this, hsu], hsb, hsid⟩
    · intro sid ms1 hms1
      rw [hbget] at hms1
      by_cases e : s.sid = sid
      · simp [e] at hms1
      · simp only [e, if_false] at hms1
        obtain ⟨g1, l, s0, h1, h2, h3⟩ := h.batchHeld sid ms1 hms1
        have hgg : ¬ Comp.batch g = Comp.batch g1 := by
          intro e'
          rw [← e'] at h1
          exact e (h.btInj _ _ _ hbg h1)
        exact ⟨g1, l, s0, by rw [hbtget]; simp [e, h1], by rw [haget]; simp only [hgg, if_false]; exact h2, h3⟩
    · intro g1 l hl
      rw [haget] at hl
      by_cases e : Comp.batch g = Comp.batch g1
      · simp [e] at hl
      · simp only [e, if_false] at hl
        obtain ⟨sid, h1, h2⟩ := h.heldBatch g1 l hl
        have hne : ¬ s.sid = sid := by
          intro e'; subst e'
          rw [hbg] at h1; exact e (Option.some.inj h1)
        refine ⟨sid, by rw [hbtget]; simp [hne, h1], ?_⟩
        unfold AList.has at h2 ⊢
        rw [hbget]; simp only [hne, if_false]; exact h2
    · intro sid sid' c h1 h2
      rw [hbtget] at h1 h2
      by_cases e1 : s.sid = sid
      · simp [e1] at h1
      · by_cases e2 : s.sid = sid'
        · simp [e2] at h2
        · simp only [e1, if_false] at h1
          simp only [e2, if_false] at h2
          exact h.btInj sid sid' c h1 h2
    · intro sid g1 hg1
      rw [hbtget] at hg1
      rw [hf]
      by_cases e : s.sid = sid
      · simp [e] at hg1
      · simp only [e, if_false] at hg1
        exact h.btFresh sid g1 hg1

end Worker.BOK

theorem lr_placed_set_iff (pl : AList Nat Strategy) (t : Nat) (s : Strategy) (hn : t ∉ AList.keys pl)
    (hs : s.isBatch = false) :
    ∀ u su, su.isBatch = true → (AList.get? (AList.set pl t s) u = some su ↔ AList.get? pl u = some su) := by
  intro u su hsb
  rw [AList.get?_set]
  by_cases e : t = u
  · subst e
    simp only [if_true, Option.some.injEq]
    constructor
    · intro e'; subst e'; rw [hs] at hsb; cases hsb
    · intro h; exact absurd (AList.mem_keys_of_get?_some _ _ _ h) hn
  · simp [e]

theorem lr_placed_erase_iff (pl : AList Nat Strategy) (t : Nat) (s : Strategy) (hnd : (AList.keys pl).Nodup)
    (hg : AList.get? pl t = some s) (hs : s.isBatch = false) :
    ∀ u su, su.isBatch = true → (AList.get? (AList.erase pl t) u = some su ↔ AList.get? pl u = some su) := by
  intro u su hsb
  rw [AList.lr_get?_erase _ _ _ hnd]
  by_cases e : t = u
  · subst e
    simp only [if_true]
    constructor
    · intro h; cases h
    · intro h; rw [hg] at h; cases h; rw [hs] at hsb; cases hsb
  · simp [e]

namespace Worker

theorem lb_placeTask (w : Worker) (t : Nat) (s : Strategy) (h : w.BOK) (ht : w.TOK) (hn : t ∉ AList.keys w.placed)
    (hok : (w.placeTask t s).2 = .ok) : (w.placeTask t s).1.BOK := by
  revert hok
  unfold placeTask
  split
  · rename_i hb
    split
    · rename_i hnone
      split
      · intro hok; simp at hok
      · cases hres : w.res.allocateMultiple s.req (.batch w.fresh) with
        | mk r o =>
          cases o with
          | ok =>
            intro _
            obtain ⟨recs, ha, hamt⟩ := Resources.lr_allocateMultiple_ok w.res s.req (.batch w.fresh) ht.rinv (by rw [hres])
            rw [hres] at ha
            exact h.openB hn hb hnone ha hamt rfl rfl rfl rfl
          | raised e => intro hok; simp at hok
    · rename_i ms hms
      split
      · intro hok; simp at hok
      · intro _
        exact h.joinB hn hb hms rfl rfl rfl rfl rfl
  · rename_i hb
    have hb' : s.isBatch = false := by simpa using hb
    cases hres : w.res.allocateMultiple s.req (.task t) with
    | mk r o =>
      cases o with
      | ok =>
        intro _
        obtain ⟨recs, ha, _⟩ := Resources.lr_allocateMultiple_ok w.res s.req (.task t) ht.rinv (by rw [hres])
        rw [hres] at ha
        refine h.frame rfl rfl rfl ?_ (lr_placed_set_iff _ _ _ hn hb')
        intro g
        show AList.get? r.allocs (.batch g) = _
        rw [ha, AList.get?_set]; simp
      | raised e => intro hok; simp at hok

theorem lb_removeTask (w : Worker) (t : Nat) (h : w.BOK) (ht : w.TOK) (hok : (w.removeTask t).2 = .ok) :
    (w.removeTask t).1.BOK := by
  revert hok
  unfold removeTask
  split
  · intro hok; simp at hok
  · rename_i s hs
    split
    · rename_i hb
      split
      · intro hok; simp at hok
      · rename_i ms hms
        split
        · intro hok; simp at hok
        · simp only []
          obtain ⟨g, l, s0, hbg, _⟩ := h.batchHeld s.sid ms hms
          split
          · rename_i hlen
            have hlast : ms.erase t = [] := List.length_eq_zero_iff.mp hlen
            rw [hbg]
            simp only []
            cases hd : w.res.deallocate (.batch g) with
            | mk r o =>
              cases o with
              | ok =>
                intro _
                have ha := Resources.lr_deallocate_ok w.res (.batch g) (by rw [hd])
                rw [hd] at ha
                exact h.leaveB hs hb hms rfl ht.pnodup rfl (Or.inr ⟨hlast, rfl, rfl, g, hbg, ha⟩) ht.anodup
              | raised e => intro hok; simp at hok
          · rename_i hlen
            intro _
            have hne : ms.erase t ≠ [] := fun e => hlen (by rw [e]; rfl)
            exact h.leaveB hs hb hms rfl ht.pnodup rfl (Or.inl ⟨hne, rfl, rfl, rfl⟩) ht.anodup
    · rename_i hb
      have hb' : s.isBatch = false := by simpa using hb
      cases hd : w.res.deallocate (.task t) with
      | mk r o =>
        cases o with
        | ok =>
          intro _
          have ha := Resources.lr_deallocate_ok w.res (.task t) (by rw [hd])
          rw [hd] at ha
          refine h.frame rfl rfl rfl ?_ (lr_placed_erase_iff _ _ _ ht.pnodup hs hb')
          intro g
          show AList.get? r.allocs (.batch g) = _
          rw [ha]; exact AList.get?_erase_ne _ _ _ (by simp)
        | raised e => intro hok; simp at hok

theorem lb_loadProfile (w : Worker) (p : Nat) (s : Strategy) (h : w.BOK) (ht : w.TOK) (hok : (w.loadProfile p s).2 = .ok) :
    (w.loadProfile p s).1.BOK := by
  revert hok
  unfold loadProfile
  cases hres : w.res.allocateMultiple s.req (.profile p) with
  | mk r o =>
    cases o with
    | ok =>
      intro _
      obtain ⟨recs, ha, _⟩ := Resources.lr_allocateMultiple_ok w.res s.req (.profile p) ht.rinv (by rw [hres])
      rw [hres] at ha
      refine h.frame rfl rfl rfl ?_ (fun _ _ _ => Iff.rfl)
      intro g
      show AList.get? r.allocs (.batch g) = _
      rw [ha, AList.get?_set]; simp
    | raised e => intro hok; simp at hok

theorem lb_evictProfile (w : Worker) (p : Nat) (h : w.BOK) (hok : (w.evictProfile p).2 = .ok) :
    (w.evictProfile p).1.BOK := by
  revert hok
  unfold evictProfile
  split
  · intro hok; simp at hok
  · cases hd : w.res.deallocate (.profile p) with
    | mk r o =>
      cases o with
      | ok =>
        have ha := Resources.lr_deallocate_ok w.res (.profile p) (by rw [hd])
        rw [hd] at ha
        have hg : ∀ g, AList.get? r.allocs (.batch g) = AList.get? w.res.allocs (.batch g) := by
          intro g; rw [ha]; exact AList.get?_erase_ne _ _ _ (by simp)
        simp only []
        split
        · intro _; exact h.frame rfl rfl rfl hg (fun _ _ _ => Iff.rfl)
        · intro _; exact h.frame rfl rfl rfl hg (fun _ _ _ => Iff.rfl)
      | raised e => intro hok; simp at hok

theorem lb_stepProfiles (w : Worker) (dt : Int) (h : w.BOK) : (w.stepProfiles dt).BOK :=
  h.frame (w' := w.stepProfiles dt) rfl rfl rfl (fun _ => rfl) (fun _ _ _ => Iff.rfl)

theorem lb_getAllocated (w : Worker) (t : Nat) (h : w.BOK) (ht : w.TOK) : (w.getAllocated t).1.BOK := by
  unfold getAllocated
  split
  · exact h
  · rename_i s hs
    split
    · rename_i hb
      obtain ⟨ms, hms, _⟩ := h.memBatch t s hs hb
      obtain ⟨g, l, s0, hbg, hl, _⟩ := h.batchHeld s.sid ms hms
      rw [hbg]
      simp only []
      have hga := Resources.lr_getAllocated w.res (.batch g)
      cases hres : w.res.getAllocated (.batch g) with
      | mk r l' =>
        rw [hres] at hga
        rcases hga with hga | ⟨hn, _⟩
        · exact h.frame rfl rfl rfl (fun g' => by show AList.get? r.allocs _ = _; rw [hga]) (fun _ _ _ => Iff.rfl)
        · rw [hl] at hn; cases hn
    · rename_i hb
      obtain ⟨l, hl, _⟩ := ht.taskHeld t s hs (by simpa using hb)
      have hga := Resources.lr_getAllocated w.res (.task t)
      cases hres : w.res.getAllocated (.task t) with
      | mk r l' =>
        rw [hres] at hga
        rcases hga with hga | ⟨hn, _⟩
        · exact h.frame rfl rfl rfl (fun g' => by show AList.get? r.allocs _ = _; rw [hga]) (fun _ _ _ => Iff.rfl)
        · rw [hl] at hn; cases hn

/-- **The worker invariant**: task / profile part and batch part. -/
def LOK (w : Worker) : Prop := w.TOK ∧ w.BOK

theorem LOK.ofVec (v : Vec) (h : (AList.keys v).Nodup) : (Worker.ofVec v).LOK := ⟨TOK.ofVec v h, BOK.ofVec v⟩

theorem lk_placeTask (w : Worker) (t : Nat) (s : Strategy) (h : w.LOK) (hn : t ∉ AList.keys w.placed)
    (hok : (w.placeTask t s).2 = .ok) : (w.placeTask t s).1.LOK :=
  ⟨lr_placeTask w t s h.1 hn hok, lb_placeTask w t s h.2 h.1 hn hok⟩
theorem lk_removeTask (w : Worker) (t : Nat) (h : w.LOK) (hok : (w.removeTask t).2 = .ok) : (w.removeTask t).1.LOK :=
  ⟨lr_removeTask w t h.1 hok, lb_removeTask w t h.2 h.1 hok⟩
theorem lk_loadProfile (w : Worker) (p : Nat) (s : Strategy) (h : w.LOK) (hok : (w.loadProfile p s).2 = .ok) :
    (w.loadProfile p s).1.LOK :=
  ⟨lr_loadProfile w p s h.1 hok, lb_loadProfile w p s h.2 h.1 hok⟩
theorem lk_evictProfile (w : Worker) (p : Nat) (h : w.LOK) (hok : (w.evictProfile p).2 = .ok) : (w.evictProfile p).1.LOK :=
  ⟨lr_evictProfile w p h.1 hok, lb_evictProfile w p h.2 hok⟩
theorem lk_stepProfiles (w : Worker) (dt : Int) (h : w.LOK) : (w.stepProfiles dt).LOK :=
  ⟨lr_stepProfiles w dt h.1, lb_stepProfiles w dt h.2⟩
theorem lk_getAllocated (w : Worker) (t : Nat) (h : w.LOK) : (w.getAllocated t).1.LOK :=
  ⟨lr_getAllocated w t h.1, lb_getAllocated w t h.2 h.1⟩

/-- **Under the invariant `Worker.remove_task` of a resident task never raises** (the ledger entry
of the task / of its batch's placeholder exists, the batch maps know the task). -/
theorem removeTask_ok_of_LOK (w : Worker) (t : Nat) (s : Strategy) (h : w.LOK) (hs : AList.get? w.placed t = some s) :
    (w.removeTask t).2 = .ok := by
  unfold removeTask
  rw [hs]
  simp only []
  split
  · rename_i hb
    obtain ⟨ms, hms, hmem⟩ := h.2.memBatch t s hs hb
    obtain ⟨g, l, s0, hbg, hl, _⟩ := h.2.batchHeld s.sid ms hms
    rw [hms]
    simp only []
    have hc : ms.contains t = true := by simpa using hmem
    simp only [hc, Bool.not_true, Bool.false_eq_true, if_false]
    split
    · rw [hbg]
      simp only []
      simp only [Resources.deallocate, hl]
    · rfl
  · rename_i hb
    obtain ⟨l, hl, _⟩ := h.1.taskHeld t s hs (by simpa using hb)
    simp only [Resources.deallocate, hl]

/-- **A refused `Worker.remove_task` changes nothing** — for batch members too, under the invariant
(`C04.refusal_noop_remove_partial` covers non-batch tasks without the invariant). -/
theorem removeTask_refused_of_LOK (w : Worker) (t : Nat) (h : w.LOK) (hr : (w.removeTask t).2 ≠ .ok) :
    (w.removeTask t).1 = w := by
  cases hs : AList.get? w.placed t with
  | none => unfold removeTask; rw [hs]
  | some s => exact absurd (removeTask_ok_of_LOK w t s h hs) hr

/-! Whatever the outcome: -/

theorem lka_placeTask (w : Worker) (t : Nat) (s : Strategy) (h : w.LOK) (hn : t ∉ AList.keys w.placed) :
    (w.placeTask t s).1.LOK := by
  by_cases hok : (w.placeTask t s).2 = .ok
  · exact lk_placeTask w t s h hn hok
  · rw [placeTask_refused w t s h.1.rinv hok]; exact h
theorem lka_removeTask (w : Worker) (t : Nat) (h : w.LOK) : (w.removeTask t).1.LOK := by
  by_cases hok : (w.removeTask t).2 = .ok
  · exact lk_removeTask w t h hok
  · rw [removeTask_refused_of_LOK w t h hok]; exact h
theorem lka_loadProfile (w : Worker) (p : Nat) (s : Strategy) (h : w.LOK) : (w.loadProfile p s).1.LOK := by
  by_cases hok : (w.loadProfile p s).2 = .ok
  · exact lk_loadProfile w p s h hok
  · rw [loadProfile_refused w p s h.1.rinv hok]; exact h
theorem lka_evictProfile (w : Worker) (p : Nat) (h : w.LOK) : (w.evictProfile p).1.LOK := by
  by_cases hok : (w.evictProfile p).2 = .ok
  · exact lk_evictProfile w p h hok
  · rw [evictProfile_refused w p hok]; exact h

end Worker
end ErdosVerif.Model
