import ErdosVerif.Lemmas.SimQueue
/-!
Event order at simulator level, part 2: Hoare triples for every primitive, handler and
the main loop; `simulate_qinv`.

`KeepsQ x` = `⦃QInv⦄ x ⦃QInv on normal AND exceptional exit⦄`. Special shapes:
* `mkEvent` additionally describes the event it returns (`MkPost`), from which the
  well-formedness side condition of `addEvent` is discharged;
* functions that return events to be queued later (`placementSkip`, `placementEvents`,
  `nextSchedulerEvent`) promise that these are well formed;
* `editEvent` leaves `QW` (the heap order may be broken), `reheapify` restores `QInv`;
* `step` is specified relationally (`StepOK`): the clock advances by `dt`, the history
  gets one clock entry, and the queue receives events stamped with the new clock;
* `handleEvent ev` requires the clock to be `ev`'s time (it appends the `.pop` entry);
  `iter` establishes that from the heap order.
-/
open Std.Do
set_option mvcgen.warning false

namespace ErdosVerif.Model.Sim
open Heap

abbrev QA : Assertion (.except SErr (.arg SimS .pure)) := fun s => ⌜QInv s⌝
abbrev QWA : Assertion (.except SErr (.arg SimS .pure)) := fun s => ⌜QW s⌝
abbrev KeepsQ {α} (x : SimM α) : Prop := ⦃QA⦄ x ⦃post⟨fun _ => QA, fun _ => QA⟩⦄
abbrev qLoop {β} : PostCond β (.except SErr (.arg SimS .pure)) :=
  post⟨fun _ s => ⌜QInv s⌝, fun _ s => ⌜QInv s⌝⟩

/-- What `mkEvent` returns. -/
structure MkPost (e : SEvent) (ty : Nat) (time : Int) (tid : Option TaskId) : Prop where
  ty : e.ev.etype = ty
  time : e.ev.time = time
  task : e.ev.task.isSome = tid.isSome
  tid : e.tid = tid

theorem MkPost.wf {e : SEvent} {ty : Nat} {time : Int} {tid : Option TaskId} (h : MkPost e ty time tid)
    (ht : taskType ty = tid.isSome) : e.WF := by
  unfold SEvent.WF Event.WF
  rw [h.task, h.ty, ht]

macro "q_close0" : tactic => `(tactic| first
  | (intros; rfl)
  | assumption
  | (intro s h; exact h)
  | (intro e h; exact h)
  | (pick_hyp h => exact h)
  | (pick_hyp h => exact h.1)
  | (pick_hyp h => exact QInv.congr _ _ h rfl rfl rfl)
  | (pick_hyp h => exact QInv.congr _ _ h.1 rfl rfl rfl)
  | (pick_hyp h => exact MkPost.wf h rfl)
  | (intro s _ h; exact MkPost.wf h rfl)
  | (pick_hyp h => exact MkPost.wf h.2 rfl))
macro "q_close" : tactic => `(tactic| first
  | q_close0
  | (simp_all; done))

/-! ### primitives -/

theorem row_q (r : Row) : KeepsQ (row r) := by
  mvcgen [row]
  all_goals q_close
theorem logE_q (e : LogE) (h1 : clk e = none) (h2 : isPop e = false) : KeepsQ (logE e) := by
  mvcgen [logE]
  rename_i s h _
  exact QInv.log s e h h1 h2
theorem liftE_q {α} (e : Except SErr α) : KeepsQ (liftE e) := by
  unfold liftE; cases e <;> mvcgen
attribute [local spec] row_q logE_q liftE_q
theorem liftTape_q {α} (x : TapeM α) : KeepsQ (liftTape x) := by
  mvcgen [liftTape]
  all_goals q_close
theorem getGraph_q (gi : Nat) : KeepsQ (getGraph gi) := by mvcgen [getGraph]
theorem setGraph_q (gi : Nat) (g : GraphS) : KeepsQ (setGraph gi g) := by
  mvcgen [setGraph]
  all_goals q_close
theorem raiseTask_q (e : Option SErr) : KeepsQ (raiseTask e) := by
  unfold raiseTask; cases e <;> mvcgen
theorem addEvent_q (e : SEvent) (he : e.WF) : KeepsQ (addEvent e) := by
  mvcgen [addEvent]
  rename_i s h _
  exact QInv.add s e h he
theorem reheapify_q : ⦃QWA⦄ reheapify ⦃post⟨fun _ => QA, fun _ => QA⟩⦄ := by
  mvcgen [reheapify]
  rename_i s h _
  exact QW.heapify s h
theorem removeEvent_q (eid : Nat) : KeepsQ (removeEvent eid) := by
  mvcgen [removeEvent]
  all_goals first | q_close | (pick_hyp h => exact QInv.remove _ _ h)
theorem editEvent_q (eid : Nat) (f : SEvent → SEvent) (hf : ∀ e, e.WF → (f e).WF) :
    ⦃QA⦄ editEvent eid f ⦃post⟨fun _ => QWA, fun _ _ => ⌜False⌝⟩⦄ := by
  mvcgen [editEvent]
  rename_i s h _
  exact QInv.edit s eid f h hf
theorem findEvent_q (eid : Nat) : KeepsQ (findEvent eid) := by mvcgen [findEvent]
theorem nextOfType_q (ty : Nat) : KeepsQ (nextOfType ty) := by mvcgen [nextOfType]
theorem placedTasks_q : KeepsQ placedTasks := by mvcgen [placedTasks]
theorem getPool_q (p : Nat) : KeepsQ (getPool p) := by mvcgen [getPool]
theorem setPool_q (p : Nat) (x : Pool) : KeepsQ (setPool p x) := by
  mvcgen [setPool]
  all_goals q_close
theorem raiseOutcome_q (o : Outcome) : KeepsQ (raiseOutcome o) := by
  unfold raiseOutcome
  cases o with
  | ok => mvcgen
  | raised e => cases e <;> mvcgen
theorem raisePlace_q (r : Except PyErr Bool) : KeepsQ (raisePlace r) := by
  unfold raisePlace
  cases r with
  | ok b => mvcgen
  | error e => cases e <;> mvcgen
theorem advanceClock_q (dt : Int) (hdt : 0 ≤ dt) : KeepsQ (advanceClock dt) := by
  mvcgen [advanceClock]
  rename_i s h _
  exact QInv.clock s dt h hdt

attribute [local spec] liftTape_q getGraph_q setGraph_q raiseTask_q addEvent_q reheapify_q
  removeEvent_q editEvent_q findEvent_q nextOfType_q placedTasks_q getPool_q setPool_q raiseOutcome_q
  raisePlace_q advanceClock_q

theorem getTask_q (t : TaskId) : KeepsQ (getTask t) := by
  mvcgen [getTask]
  all_goals q_close
attribute [local spec] getTask_q
theorem uniqueName_q (t : TaskId) : KeepsQ (uniqueName t) := by
  mvcgen [uniqueName]
  all_goals q_close
attribute [local spec] uniqueName_q
theorem taskCall_q (t : TaskId) (c : TaskCall) : KeepsQ (taskCall t c) := by
  mvcgen [taskCall]
  all_goals q_close
theorem startTask_q (t : TaskId) (g : GraphS) (h : g.isReadyToRun t.t = true) (time fuzzed : Int) :
    KeepsQ (startTask t g h time fuzzed) := by
  mvcgen [startTask]
  all_goals q_close
/-- `mkEvent` keeps the invariant and returns an event of the requested type and time
that carries a task name iff a task was given. -/
theorem mkEvent_q (a : Nat) (b : Int) (c : Option TaskId) (d : Option PlacementS) (e : Option Nat) :
    ⦃QA⦄ mkEvent a b c d e ⦃post⟨fun r s => ⌜QInv s ∧ MkPost r a b c⌝, fun _ => QA⟩⦄ := by
  cases c with
  | none =>
    mvcgen [mkEvent]
    exact ⟨by q_close, ⟨rfl, rfl, rfl, rfl⟩⟩
  | some t =>
    mvcgen [mkEvent]
    all_goals try q_close
    exact ⟨by q_close, ⟨rfl, rfl, rfl, rfl⟩⟩
attribute [local spec] taskCall_q startTask_q mkEvent_q

/-! ### workload level -/

theorem logUtilization_q (time : Int) : KeepsQ (logUtilization time) := by
  mvcgen [logUtilization]
  case inv1 => exact qLoop
  case inv2 => exact qLoop
  all_goals q_close
theorem schedulable_q (time : Int) : KeepsQ (schedulable time) := by
  mvcgen [schedulable]
  case inv1 => exact qLoop
  all_goals q_close
theorem releasable_q : KeepsQ releasable := by mvcgen [releasable]
theorem notifyGraphCompletion_q (gi : Nat) (finish : Int) : KeepsQ (notifyGraphCompletion gi finish) := by
  mvcgen [notifyGraphCompletion]
  all_goals q_close
attribute [local spec] logUtilization_q schedulable_q releasable_q notifyGraphCompletion_q

/-- Loop invariant for loops that accumulate events to be queued later. -/
abbrev evLoop {γ} : PostCond (γ × List SEvent) (.except SErr (.arg SimS .pure)) :=
  post⟨fun r s => ⌜QInv s ∧ ∀ e ∈ r.2, e.WF⌝, fun _ s => ⌜QInv s⌝⟩

theorem evInv_nil {s : SimS} (h : QInv s) : QInv s ∧ ∀ e ∈ ([] : List SEvent), e.WF :=
  ⟨h, fun _ he => by cases he⟩
theorem evInv_carry {s2 s : SimS} {b : List SEvent} (h2 : QInv s2 ∧ ∀ e ∈ b, e.WF) (h : QInv s) :
    QInv s ∧ ∀ e ∈ b, e.WF := ⟨h, h2.2⟩
theorem evInv_push {s2 s : SimS} {b : List SEvent} {r : SEvent} {ty : Nat} {time : Int} {tid : Option TaskId}
    (h2 : QInv s2 ∧ ∀ e ∈ b, e.WF) (h : QInv s ∧ MkPost r ty time tid) (ht : taskType ty = tid.isSome) :
    QInv s ∧ ∀ e ∈ b ++ [r], e.WF := by
  refine ⟨h.1, fun e he => ?_⟩
  rcases List.mem_append.mp he with he | he
  · exact h2.2 e he
  · rw [List.mem_singleton.mp he]; exact h.2.wf ht
theorem evInv_append {s2 s : SimS} {b r : List SEvent} (h2 : QInv s2 ∧ ∀ e ∈ b, e.WF) (h : QInv s ∧ ∀ e ∈ r, e.WF) :
    QInv s ∧ ∀ e ∈ b ++ r, e.WF := by
  refine ⟨h.1, fun e he => ?_⟩
  rcases List.mem_append.mp he with he | he
  · exact h2.2 e he
  · exact h.2 e he
theorem evInv_single {s : SimS} {r : SEvent} {ty : Nat} {time : Int} {tid : Option TaskId}
    (h : QInv s ∧ MkPost r ty time tid) (ht : taskType ty = tid.isSome) : QInv s ∧ ∀ e ∈ [r], e.WF :=
  ⟨h.1, fun e he => by rw [List.mem_singleton.mp he]; exact h.2.wf ht⟩

theorem wf_of_sorted {s : SimS} {r pref suff : List SEvent} {cur : SEvent} (hl : QInv s ∧ ∀ e ∈ r, e.WF)
    (h : pySorted SEvent.lt r = pref ++ cur :: suff) : cur.WF :=
  hl.2 cur (pySorted_mem _ _ _ (by rw [h]; simp))

/-- The list part of an event-list goal `QInv s ∧ ∀ e ∈ l, e.WF`. -/
macro "ev_mem" : tactic => `(tactic| (
  intro e he
  first
  | (cases he; done)
  | (pick_hyp h => exact h.2 e he)
  | (rw [List.mem_singleton.mp he]; pick_hyp h => exact MkPost.wf h.2 rfl)
  | (rcases List.mem_append.mp he with he | he
     · pick_hyp h => exact h.2 e he
     · first
       | (pick_hyp h => exact h.2 e he)
       | (rw [List.mem_singleton.mp he]; pick_hyp h => exact MkPost.wf h.2 rfl))))

/-- Closes the verification conditions about accumulated event lists. -/
macro "qev_close0" : tactic => `(tactic| first
  | q_close0
  | (intro s h; exact h.elim)
  | (show QInv _ ∧ ∀ e ∈ _, SEvent.WF e
     refine ⟨?_, ?_⟩
     · q_close0
     · ev_mem))
macro "qev_close" : tactic => `(tactic| first
  | qev_close0
  | (simp_all; done))

theorem placementSkip_q (time : Int) (p : PlacementS) (drop : Bool) :
    ⦃QA⦄ placementSkip time p drop ⦃post⟨fun r s => ⌜QInv s ∧ ∀ e ∈ r, e.WF⌝, fun _ => QA⟩⦄ := by
  mvcgen [placementSkip]
  case inv1 => exact evLoop
  case inv2 => exact evLoop
  case inv3 => exact evLoop
  all_goals qev_close
attribute [local spec] placementSkip_q

theorem placementEvents_q (time : Int) (p : PlacementS) :
    ⦃QA⦄ placementEvents time p ⦃post⟨fun r s => ⌜QInv s ∧ ∀ e ∈ r, e.WF⌝, fun _ => QA⟩⦄ := by
  mvcgen [placementEvents]
  all_goals qev_close

attribute [local spec] placementEvents_q

end ErdosVerif.Model.Sim
