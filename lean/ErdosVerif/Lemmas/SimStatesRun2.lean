import ErdosVerif.Lemmas.SimStatesRun
/-!
Census against the task states, part 3: Hoare triples. `KeepsT x` = `⦃Tally⦄ x ⦃Tally on
normal exit, TallyW on exceptional exit⦄`.
-/
open Std.Do
set_option mvcgen.warning false

namespace ErdosVerif.Model.Sim

abbrev TA : Assertion (.except SErr (.arg SimS .pure)) := fun s => ⌜Tally s⌝
abbrev TWA : Assertion (.except SErr (.arg SimS .pure)) := fun s => ⌜TallyW s⌝
abbrev KeepsT {α} (x : SimM α) : Prop := ⦃TA⦄ x ⦃post⟨fun _ => TA, fun _ => TWA⟩⦄
abbrev tLoop {β} : PostCond β (.except SErr (.arg SimS .pure)) :=
  post⟨fun _ s => ⌜Tally s⌝, fun _ s => ⌜TallyW s⌝⟩

macro "t_close0" : tactic => `(tactic| first
  | (intros; rfl)
  | assumption
  | (intro s h; exact h)
  | (pick_hyp h => exact h)
  | (pick_hyp h => exact h.1)
  | (pick_hyp h => exact TallyP.congr _ _ h rfl rfl rfl rfl rfl rfl rfl)
  | (pick_hyp h => exact TallyP.congr _ _ h.1 rfl rfl rfl rfl rfl rfl rfl)
  | (pick_hyp h => exact TallyP.weak h)
  | (pick_hyp h => exact TallyP.weak h.1)
  | (intro s h; exact TallyP.weak h)
  | (pick_hyp h => exact TallyP.weak (TallyP.congr _ _ h rfl rfl rfl rfl rfl rfl rfl))
  | (pick_hyp h => exact TallyW.congr _ _ h rfl rfl rfl rfl rfl rfl rfl)
  | (pick_hyp h => exact TallyP.log _ _ h rfl)
  | (pick_hyp h => exact TallyP.weak (TallyP.log _ _ h rfl))
  | exact ⟨fun _ _ h => TallyP.weak h, trivial⟩
  | exact ⟨fun _ _ h => h, trivial⟩)
macro "t_close" : tactic => `(tactic| first
  | t_close0
  | (simp_all; done))

/-! ### primitives -/

theorem row_t (r : Row) : KeepsT (row r) := by
  mvcgen [row]
  all_goals t_close
theorem logE_t (e : LogE) (he : isCancelLog e = false) : KeepsT (logE e) := by
  mvcgen [logE]
  rename_i s h _
  exact TallyP.log s e h he
theorem liftE_t {α} (e : Except SErr α) : KeepsT (liftE e) := by
  unfold liftE; cases e <;> mvcgen <;> t_close
attribute [local spec] row_t logE_t liftE_t
theorem liftTape_t {α} (x : TapeM α) : KeepsT (liftTape x) := by
  mvcgen [liftTape]
  all_goals t_close
theorem getGraph_t (gi : Nat) : KeepsT (getGraph gi) := by
  mvcgen [getGraph]
  all_goals t_close
theorem raiseTask_t (e : Option SErr) : KeepsT (raiseTask e) := by
  unfold raiseTask; cases e <;> mvcgen <;> t_close
theorem addEvent_t (e : SEvent) : KeepsT (addEvent e) := by
  mvcgen [addEvent]
  all_goals t_close
theorem reheapify_t : KeepsT reheapify := by
  mvcgen [reheapify]
  all_goals t_close
theorem removeEvent_t (eid : Nat) : KeepsT (removeEvent eid) := by
  mvcgen [removeEvent]
  all_goals t_close
theorem editEvent_t (eid : Nat) (f : SEvent → SEvent) : KeepsT (editEvent eid f) := by
  mvcgen [editEvent]
  all_goals t_close
theorem findEvent_t (eid : Nat) : KeepsT (findEvent eid) := by mvcgen [findEvent]
theorem nextOfType_t (ty : Nat) : KeepsT (nextOfType ty) := by mvcgen [nextOfType]
theorem placedTasks_t : KeepsT placedTasks := by mvcgen [placedTasks]
theorem popEvent_t : KeepsT popEvent := by
  mvcgen [popEvent]
  all_goals t_close
theorem getPool_t (p : Nat) : KeepsT (getPool p) := by
  mvcgen [getPool]
  all_goals t_close
theorem setPool_t (p : Nat) (x : Pool) : KeepsT (setPool p x) := by
  mvcgen [setPool]
  all_goals t_close
theorem raiseOutcome_t (o : Outcome) : KeepsT (raiseOutcome o) := by
  unfold raiseOutcome
  cases o with
  | ok => mvcgen
  | raised e => cases e <;> mvcgen <;> t_close
theorem raisePlace_t (r : Except PyErr Bool) : KeepsT (raisePlace r) := by
  unfold raisePlace
  cases r with
  | ok b => mvcgen
  | error e => cases e <;> mvcgen <;> t_close
theorem advanceClock_t (dt : Int) : KeepsT (advanceClock dt) := by
  mvcgen [advanceClock]
  rename_i s h _
  exact TallyP.congr _ _ (TallyP.log s (.clock (s.now + dt)) h rfl) rfl rfl rfl rfl rfl rfl rfl

attribute [local spec] liftTape_t getGraph_t raiseTask_t addEvent_t reheapify_t
  removeEvent_t editEvent_t findEvent_t nextOfType_t placedTasks_t popEvent_t getPool_t setPool_t raiseOutcome_t
  raisePlace_t advanceClock_t

theorem getTask_t (t : TaskId) : KeepsT (getTask t) := by
  mvcgen [getTask]
  all_goals t_close
attribute [local spec] getTask_t
theorem uniqueName_t (t : TaskId) : KeepsT (uniqueName t) := by
  mvcgen [uniqueName]
  all_goals t_close
attribute [local spec] uniqueName_t
theorem mkEvent_t (a : Nat) (b : Int) (c : Option TaskId) (d : Option PlacementS) (e : Option Nat) :
    KeepsT (mkEvent a b c d e) := by
  mvcgen [mkEvent]
  all_goals t_close
attribute [local spec] mkEvent_t

/-- A `Task` API call that is neither `start`, `preempt`, `finish` nor `cancel`. -/
theorem taskCall_t (t : TaskId) (c : TaskCall) (hb : c.isBenign = true) (hf : c.isFinish = false)
    (hc : c.isCancel = false) : KeepsT (taskCall t c) := by
  mvcgen [taskCall, getGraph, setGraph, raiseTask]
  all_goals first
    | t_close0
    | (rename_i s h g hg x hx _ _ ; exact TallyP.call s t g x c h hg hx hb hf hc)
    | (rename_i s h g hg x hx _ _ _ ; exact (TallyP.call s t g x c h hg hx hb hf hc).weak)
attribute [local spec] taskCall_t

/-- Starting a task on the graph that is its current graph and whose readiness was checked. -/
theorem startTask_t (t : TaskId) (g : GraphS) (h : g.isReadyToRun t.t = true) (time fuzzed : Int) :
    ⦃fun s => ⌜Tally s ∧ s.graphs[t.g]? = some g⌝⦄ startTask t g h time fuzzed ⦃post⟨fun _ => TA, fun _ => TWA⟩⦄ := by
  mvcgen [startTask, setGraph, raiseTask]
  all_goals first
    | t_close0
    | exact TallyP.start _ t g _ time fuzzed (‹Tally _ ∧ _›).1 (‹Tally _ ∧ _›).2 ‹g.task? t.t = some _› h
    | exact (TallyP.start _ t g _ time fuzzed (‹Tally _ ∧ _›).1 (‹Tally _ ∧ _›).2 ‹g.task? t.t = some _› h).weak

/-! ### a finished task -/

theorem finishRemove_t (t : TaskId) (time : Int) : KeepsT (finishRemove t time) := by
  mvcgen [finishRemove, taskCall, getGraph, setGraph, raiseTask, logE]
  all_goals try t_close0
  · rename_i s h s1 g hg x hx s2 hok s3 s4
    have h1 : Tally s1.snd := TallyP.log s _ h rfl
    have h2 := TallyP.finishOk _ t g x h1 hg hx hok
    have h3 := TallyP.log _ (.finish t time) h2 rfl
    exact TallyP.congr _ _ h3 rfl rfl rfl rfl rfl rfl rfl
  · rename_i s h s1 g hg x hx s2 e herr
    have h1 : Tally s1.snd := TallyP.log s _ h rfl
    exact (TallyP.finishErr _ t g x h1 hg hx e herr).weak
attribute [local spec] finishRemove_t

theorem finishRows_t (t : TaskId) (time : Int) : KeepsT (finishRows t time) := by
  mvcgen [finishRows]
  all_goals first | exact tLoop | t_close

/-! ### task graphs appear -/

theorem fresh_instantiate' (g0 : GraphS) (nm : String) (f : Nat → TaskS → TaskS)
    (hf : ∀ i t, (f i t).state = t.state ∧ (f i t).pre = t.pre) (h : g0.Fresh) :
    ({ g0 with name := nm, tasks := g0.tasks.mapIdx f } : GraphS).Fresh := by
  intro n t ht
  simp only [GraphS.task?, Array.getElem?_mapIdx] at ht
  cases hx : g0.tasks[n]? with
  | none => simp [hx] at ht
  | some x =>
    simp only [hx, Option.map_some, Option.some.injEq] at ht
    subst ht
    obtain ⟨h1, h2⟩ := hf n x
    obtain ⟨i1, i2⟩ := h n x (by simpa [GraphS.task?] using hx)
    exact ⟨by rw [h1]; exact i1, by rw [h2]; exact i2⟩

/-- Relational form (`s0` = the state before the call; `mvcgen` instantiates it): whatever
number `k` of `.cancel` entries is owed before is owed after. -/
theorem notifyGraphCompletion_t (gi : Nat) (finish : Int) (s0 : SimS) :
    ⦃fun s => ⌜s = s0⌝⦄ notifyGraphCompletion gi finish
    ⦃post⟨fun _ s => ⌜∀ k, TallyP k s0 → TallyP k s⌝, fun _ s => ⌜∀ k, TallyP k s0 → TallyW s⌝⟩⦄ := by
  mvcgen [notifyGraphCompletion, liftTape, liftE]
  all_goals subst_vars
  all_goals intro k h
  all_goals try t_close0
  · rename_i s m hm j hj _ _ s1 _ _ _ _ _ _ _ _ _ _ _
    have hjf : j.template.Fresh := h.templ j (Array.mem_toList_iff.mpr (Array.mem_of_getElem? hj))
    have hrel : s.loaderReleased = true := by
      cases hl : s.loaderReleased with
      | true => rfl
      | false => have := (h.empty hl).2; rw [this] at hm; simp at hm
    refine TallyP.push s _ _ m.job { j with remaining := j.remaining - 1, index := j.index + 1 } h ?_ hjf rfl rfl rfl rfl rfl hrel
    apply fresh_instantiate'
    · intro i t; exact ⟨rfl, rfl⟩
    · exact hjf

attribute [local spec] notifyGraphCompletion_t finishRows_t

/-! ### cancellations -/

theorem none_of_forall {α} {o : Option α} (h : ∀ e, o = some e → False) : o = none := by
  cases o with
  | none => rfl
  | some e => exact (h e rfl).elim

/-- Closes goals that follow a call of `notifyGraphCompletion` (relational spec). -/
macro "t_rel" : tactic => `(tactic| first
  | (pick_hyp h => pick_hyp h1 => exact h 0 h1)
  | (pick_hyp h => pick_hyp h1 => exact TallyP.congr _ _ (h 0 h1) rfl rfl rfl rfl rfl rfl rfl)
  | (pick_hyp h => pick_hyp h1 => exact TallyP.weak (h 0 h1))
  | (pick_hyp h => pick_hyp h1 => exact TallyP.weak (TallyP.congr _ _ (h 0 h1) rfl rfl rfl rfl rfl rfl rfl))
  | (intro s hh; pick_hyp h1 => exact hh 0 h1))

/-- Loop invariant of the bookkeeping loop after a cancellation: one `.cancel` entry is
still owed for every task not yet visited. -/
abbrev owedLoop {α β} {l : List α} : PostCond (List.Cursor l × β) (.except SErr (.arg SimS .pure)) :=
  post⟨fun r s => ⌜TallyP r.1.suffix.length s⌝, fun _ s => ⌜TallyW s⌝⟩

theorem placementSkip_t (time : Int) (p : PlacementS) (drop : Bool) : KeepsT (placementSkip time p drop) := by
  mvcgen [placementSkip, getGraph, setGraph, logE, mkEvent, uniqueName, getTask]
  case inv1 => exact owedLoop
  case inv2 => exact tLoop
  case inv3 => exact tLoop
  all_goals try subst_vars
  all_goals try t_close0
  all_goals first
    | exact tally_cancel_w _ _ _ _ _ ‹Tally _› ‹_ = some _›
    | exact tally_cancel_ok _ _ _ _ _ ‹Tally _› ‹_ = some _› (none_of_forall ‹_›)
    | (pick_hyp h => exact TallyP.congr _ _ (TallyP.logCancel _ _ _ h) rfl rfl rfl rfl rfl rfl rfl)
    | (pick_hyp h => exact TallyP.weak (TallyP.congr _ _ (TallyP.logCancel _ _ _ h) rfl rfl rfl rfl rfl rfl rfl))
    | t_rel
attribute [local spec] placementSkip_t

end ErdosVerif.Model.Sim
