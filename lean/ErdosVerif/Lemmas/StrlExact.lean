/-
C20 helper lemmas, part 3: every placement read back is exactly one Choose leaf.
-/
import ErdosVerif.Lemmas.StrlCap
namespace ErdosVerif.Strl

theorem mem_mergeP (acc : List Placement) (p q : Placement) (h : q ∈ mergeP acc p) : q ∈ acc ∨ q = p := by
  unfold mergeP at h
  rcases List.mem_append.mp h with h | h
  · exact Or.inl (List.mem_filter.mp h).1
  · exact Or.inr (by simpa using h)

theorem mem_foldl_mergeP (pls : List Placement) : ∀ (acc : List Placement) (q : Placement),
    q ∈ pls.foldl mergeP acc → q ∈ acc ∨ q ∈ pls := by
  induction pls with
  | nil => intro acc q h; exact Or.inl h
  | cons p pls ih =>
    intro acc q h
    simp only [List.foldl_cons] at h
    rcases ih _ q h with h | h
    · rcases mem_mergeP acc p q h with h | h
      · exact Or.inl h
      · exact Or.inr (by simp [h])
    · exact Or.inr (by simp [h])

theorem mem_mergeChildren_aux (sols : List Sol) : ∀ (acc : List Placement) (q : Placement),
    q ∈ sols.foldl (fun acc s => if s.utility == some 0 then acc else s.placements.foldl mergeP acc) acc →
    q ∈ acc ∨ ∃ s ∈ sols, q ∈ s.placements := by
  induction sols with
  | nil => intro acc q h; exact Or.inl h
  | cons s sols ih =>
    intro acc q h
    simp only [List.foldl_cons] at h
    rcases ih _ q h with h | ⟨s', hs', hq⟩
    · split at h
      · exact Or.inl h
      · rcases mem_foldl_mergeP _ _ _ h with h | h
        · exact Or.inl h
        · exact Or.inr ⟨s, by simp, h⟩
    · exact Or.inr ⟨s', by simp [hs'], hq⟩

theorem mem_mergeChildren (sols : List Sol) (q : Placement) (h : q ∈ mergeChildren sols) :
    ∃ s ∈ sols, q ∈ s.placements := by
  rcases mem_mergeChildren_aux sols [] q h with h | h
  · simp at h
  · exact h

theorem mem_baseSol (σ : Assign) (pr : PR) (sols : List Sol) (q : Placement)
    (h : q ∈ (baseSol σ pr sols).placements) : ∃ s ∈ sols, q ∈ s.placements := by
  unfold baseSol at h
  split at h
  · simp [Sol.none] at h
  · exact mem_mergeChildren sols q h

theorem sumBy_filterMap_all (σ : Assign) (path : Path) (start : Nat) (sched : List Partition) :
    sumBy (fun a : Nat × Int × Int => a.2.2)
      (sched.filterMap (fun q =>
        let x := σ ⟨path, .using q.id⟩
        if x == 0 then none else some (q.id, (start : Int), x)))
    = sumBy (fun q : Partition => σ ⟨path, .using q.id⟩) sched := by
  induction sched with
  | nil => simp
  | cons q l ih =>
    simp only [List.filterMap_cons, sumBy_cons]
    by_cases hx : σ ⟨path, .using q.id⟩ = 0
    · simp only [hx, beq_self_eq_true, if_true, ih]
      omega
    · have hb : (σ ⟨path, .using q.id⟩ == 0) = false := by simpa using hx
      simp only [hb, Bool.false_eq_true, if_false, sumBy_cons, ih]

theorem evalTerms_append (σ : Assign) (a b : List (Int × VarId)) :
    evalTerms σ (a ++ b) = evalTerms σ a + evalTerms σ b := by
  simp [evalTerms, List.sum_append]

theorem evalTerms_ones (σ : Assign) (path : Path) (sched : List Partition) :
    evalTerms σ (sched.map (fun p => ((1 : Int), (⟨path, .using p.id⟩ : VarId)))) =
      sumBy (fun q : Partition => σ ⟨path, .using q.id⟩) sched := by
  induction sched with
  | nil => simp [evalTerms]
  | cons q l ih =>
    simp only [evalTerms, List.map_cons, List.sum_cons, sumBy_cons] at ih ⊢
    rw [ih]; omega

theorem schedulable_mem (ctx : Ctx) (parts : List Nat) (q : Partition) (hq : q ∈ schedulable ctx parts) :
    q.id ∈ parts ∧ q.id ∈ ctx.avail := by
  unfold schedulable at hq
  obtain ⟨pid, hpid, h⟩ := List.mem_filterMap.mp hq
  split at h
  · rename_i hav
    have := find_id ctx pid q h
    rw [this]
    exact ⟨hpid, by simpa using hav⟩
  · simp at h

theorem choose_matches (ctx : Ctx) (σ : Assign) (path : Path) (name strategy : String)
    (parts : List Nat) (n start dur : Nat) (u : Int)
    (hv : ∀ v ∈ (compileChoose ctx path name strategy parts n start dur u).vars, Var.holds σ v = true)
    (hc : ∀ c ∈ (compileChoose ctx path name strategy parts n start dur u).cons, Constr.holds σ c = true) :
    ∀ pl ∈ (populateNode ctx σ path (.choose name strategy parts n start dur u)).placements,
      pl.matches ctx ⟨name, parts, n, start, dur⟩ := by
  simp only [populateNode]
  unfold compileChoose at hv hc ⊢
  by_cases h1 : ctx.now > start
  · simp [h1, baseSol, PR.none, Sol.none]
  · simp only [h1, if_false] at hv hc ⊢
    by_cases h2 : (schedulable ctx parts).isEmpty = true
    · simp [h2, baseSol, PR.none, Sol.none]
    · simp only [h2] at hv hc ⊢
      simp only [Bool.false_eq_true, if_false] at hv hc ⊢
      simp only [baseSol, Bool.not_true, Bool.false_eq_true, if_false, mergeChildren, List.foldl_nil]
      split
      · simp
      · rename_i hu
        intro pl hpl
        have hpl := List.mem_singleton.mp hpl
        subst hpl
        -- the indicator is 1
        have hind := hv ⟨⟨path, .placed⟩, chooseVarName name start strategy, .bin, some 0, .none⟩ (by simp)
        simp [Var.holds] at hind
        have hne : σ ⟨path, .placed⟩ ≠ 0 := by
          intro h0
          apply hu
          simp [evalU, h0]
        have hone : σ ⟨path, .placed⟩ = 1 := by omega
        -- bounds of the allocation variables
        have hb : ∀ q ∈ schedulable ctx parts,
            0 ≤ σ ⟨path, .using q.id⟩ ∧ σ ⟨path, .using q.id⟩ ≤ q.qty := by
          intro q hq
          have := hv ⟨⟨path, .using q.id⟩, usingVarName name q.id start, .int, some 0,
            some (Int.ofNat (Nat.min q.qty n))⟩ (by
              apply List.mem_cons_of_mem
              exact List.mem_map.mpr ⟨q, hq, rfl⟩)
          simp [Var.holds] at this
          have hmin : (Nat.min q.qty n : Int) ≤ q.qty := by
            have : Nat.min q.qty n ≤ q.qty := Nat.min_le_left _ _
            omega
          omega
        -- the demand row
        have hd := hc _ (List.mem_singleton.mpr rfl)
        simp only [Constr.holds, decide_eq_true_eq, evalTerms_append, evalTerms_ones] at hd
        simp only [evalTerms, List.map_cons, List.map_nil, List.sum_cons, List.sum_nil, hone] at hd
        refine ⟨rfl, rfl, rfl, by simp only; omega, ?_, ?_⟩
        · simp only
          rw [sumBy_filterMap_all]
          simp only [Int.ofNat_eq_natCast] at hd
          omega
        · intro a ha
          simp only at ha
          obtain ⟨q, hq, hqa⟩ := List.mem_filterMap.mp ha
          have ⟨hb1, hb2⟩ := hb q hq
          have ⟨hm1, hm2⟩ := schedulable_mem ctx parts q hq
          split at hqa
          · simp at hqa
          · rename_i hx
            simp at hqa; subst hqa
            simp only
            have hx' : σ ⟨path, .using q.id⟩ ≠ 0 := by simpa using hx
            exact ⟨trivial, by omega, hm1, hm2, q, schedulable_find ctx parts q hq, hb2⟩


theorem min_cons (ctx : Ctx) (path : Path) (name : String) (cs : List Expr) :
    ∀ c ∈ (compileList ctx path 0 cs).flatMap (·.2.cons), c ∈ (compileNode ctx path (.min name cs)).cons := by
  intro c hc
  simp only [compileNode]
  exact List.mem_append_left _ hc

theorem max_cons (ctx : Ctx) (path : Path) (name : String) (cs : List Expr) :
    ∀ c ∈ (compileList ctx path 0 cs).flatMap (·.2.cons), c ∈ (compileNode ctx path (.max name cs)).cons := by
  intro c hc
  simp only [compileNode]
  exact List.mem_append_left _ hc

theorem lt_cons (ctx : Ctx) (path : Path) (name : String) (a b : Expr) :
    ∀ c, (c ∈ (compileNode ctx (0 :: path) a).cons ∨ c ∈ (compileNode ctx (1 :: path) b).cons) →
      c ∈ (compileNode ctx path (.lt name a b)).cons := by
  intro c hc
  simp only [compileNode]
  rcases hc with h | h
  · exact List.mem_append_left _ (List.mem_append_left _ h)
  · exact List.mem_append_left _ (List.mem_append_right _ h)

mutual
theorem node_matches (ctx : Ctx) (σ : Assign) :
    ∀ (e : Expr) (path : Path),
      (∀ v ∈ (compileNode ctx path e).vars, Var.holds σ v = true) →
      (∀ c ∈ (compileNode ctx path e).cons, Constr.holds σ c = true) →
      ∀ pl ∈ (populateNode ctx σ path e).placements, ∃ c ∈ chooseLeaves e, pl.matches ctx c
  | .choose name strategy parts n start dur u, path, hv, hc => by
    intro pl hpl
    simp only [compileNode] at hv hc
    exact ⟨_, by simp [chooseLeaves], choose_matches ctx σ path name strategy parts n start dur u hv hc pl hpl⟩
  | .alloc name allocs start dur, path, _, _ => by
    intro pl hpl
    simp [populateNode, baseSol, compileAlloc, mergeChildren] at hpl
  | .obj name cs, path, _, _ => by
    intro pl hpl
    simp [populateNode, Sol.none] at hpl
  | .min name cs, path, hv, hc => by
    intro pl hpl
    simp only [populateNode] at hpl
    obtain ⟨s, hs, hps⟩ := mem_baseSol _ _ _ _ hpl
    simp only [chooseLeaves]
    exact list_matches ctx σ cs path 0 (fun v h => hv v (min_vars ctx path name cs v h))
      (fun c h => hc c (min_cons ctx path name cs c h)) s hs pl hps
  | .max name cs, path, hv, hc => by
    intro pl hpl
    simp only [populateNode] at hpl
    obtain ⟨s, hs, hps⟩ := mem_baseSol _ _ _ _ hpl
    simp only [chooseLeaves]
    exact list_matches ctx σ cs path 0 (fun v h => hv v (max_vars ctx path name cs v h))
      (fun c h => hc c (max_cons ctx path name cs c h)) s hs pl hps
  | .lt name a b, path, hv, hc => by
    intro pl hpl
    simp only [populateNode] at hpl
    obtain ⟨s, hs, hps⟩ := mem_baseSol _ _ _ _ hpl
    simp only [chooseLeaves]
    simp only [List.mem_cons, List.not_mem_nil, or_false] at hs
    rcases hs with rfl | rfl
    · obtain ⟨c, hc1, hc2⟩ := node_matches ctx σ a (0 :: path)
        (fun v h => hv v (lt_vars ctx path name a b v (Or.inl h)))
        (fun c h => hc c (lt_cons ctx path name a b c (Or.inl h))) pl hps
      exact ⟨c, List.mem_append_left _ hc1, hc2⟩
    · obtain ⟨c, hc1, hc2⟩ := node_matches ctx σ b (1 :: path)
        (fun v h => hv v (lt_vars ctx path name a b v (Or.inr h)))
        (fun c h => hc c (lt_cons ctx path name a b c (Or.inr h))) pl hps
      exact ⟨c, List.mem_append_right _ hc1, hc2⟩
  | .scale name f d c, path, hv, hc => by
    intro pl hpl
    simp only [populateNode] at hpl
    obtain ⟨s, hs, hps⟩ := mem_baseSol _ _ _ _ hpl
    simp only [chooseLeaves]
    simp only [List.mem_cons, List.not_mem_nil, or_false] at hs
    subst hs
    exact node_matches ctx σ c (0 :: path)
      (fun v h => hv v (by simp only [compileNode]; exact h))
      (fun c' h => hc c' (by simp only [compileNode]; exact h)) pl hps
theorem list_matches (ctx : Ctx) (σ : Assign) :
    ∀ (cs : List Expr) (path : Path) (i : Nat),
      (∀ v ∈ (compileList ctx path i cs).flatMap (·.2.vars), Var.holds σ v = true) →
      (∀ c ∈ (compileList ctx path i cs).flatMap (·.2.cons), Constr.holds σ c = true) →
      ∀ s ∈ populateList ctx σ path i cs, ∀ pl ∈ s.placements, ∃ c ∈ chooseLeavesL cs, pl.matches ctx c
  | [], _, _, _, _ => by
    intro s hs
    simp [populateList] at hs
  | e :: es, path, i, hv, hc => by
    intro s hs pl hpl
    simp only [compileList, List.flatMap_cons] at hv hc
    simp only [populateList] at hs
    simp only [chooseLeavesL]
    rcases List.mem_cons.mp hs with rfl | hs
    · obtain ⟨c, hc1, hc2⟩ := node_matches ctx σ e (i :: path)
        (fun v h => hv v (List.mem_append_left _ h)) (fun c h => hc c (List.mem_append_left _ h)) pl hpl
      exact ⟨c, List.mem_append_left _ hc1, hc2⟩
    · obtain ⟨c, hc1, hc2⟩ := list_matches ctx σ es path (i + 1)
        (fun v h => hv v (List.mem_append_right _ h)) (fun c h => hc c (List.mem_append_right _ h)) s hs pl hpl
      exact ⟨c, List.mem_append_right _ hc1, hc2⟩
end

end ErdosVerif.Strl
