/-
The reachable-state invariant `Graph.WF` holds for every graph built through the
public constructors (`Graph()`, `add_node`, `add_child`, `Graph(nodes=…)`), and
the elementary getters (`get_sources`, sinks, `get_edges`, `is_source`) meet
their definitions.  `remove` (repaired, /repo ce9bde1) is treated in
`GraphRemove.lean`.
-/
import ErdosVerif.Lemmas.GraphBasic

namespace ErdosVerif.Model.Graph

/-! ### `touch` and `linkChild` -/

theorem lookup_append_single (d : Dict (List Nat)) (x u : Nat) (v : List Nat) :
    List.lookup u (d ++ [(x, v)]) =
      match List.lookup u d with
      | some r => some r
      | none => if u = x then some v else none := by
  induction d with
  | nil =>
    by_cases h : u = x
    · subst h; simp [List.lookup]
    · have : (u == x) = false := by simp [h]
      simp [List.lookup, this, h]
  | cons p r ih =>
    obtain ⟨k, w⟩ := p
    by_cases h : u = k
    · subst h; simp [List.lookup]
    · have : (u == k) = false := by simp [h]
      simp only [List.cons_append, List.lookup, this]
      exact ih

theorem lookup_touch (d : Dict (List Nat)) (x u : Nat) :
    List.lookup u (touch d x) =
      match List.lookup u d with
      | some r => some r
      | none => if u = x then some [] else none := by
  unfold touch
  by_cases hx : (List.lookup x d).isSome = true
  · simp only [hx, if_true]
    cases hu : List.lookup u d with
    | some r => rfl
    | none =>
      have : u ≠ x := by
        intro e; subst e; simp [hu] at hx
      simp [this]
  · simp only [hx]
    exact lookup_append_single d x u []

theorem keys_touch (d : Dict (List Nat)) (x : Nat) :
    (touch d x).map Prod.fst =
      if (List.lookup x d).isSome then d.map Prod.fst else d.map Prod.fst ++ [x] := by
  unfold touch
  split <;> simp

theorem childrenOf_linkChild (g : Graph) (n c u : Nat) (hn : g.hasNode n = true) :
    (g.linkChild n c).childrenOf u = if u = n then g.childrenOf n ++ [c] else g.childrenOf u := by
  unfold childrenOf linkChild
  simp only [lookup_touch, Dict.lookup_set]
  by_cases h : u = n
  · subst h; simp [childrenOf]
  · simp only [h, if_false]
    cases hu : List.lookup u g.children with
    | some r => rfl
    | none => by_cases hc : u = c <;> simp [hc]

theorem parentsOf_linkChild (g : Graph) (n c v : Nat) :
    (g.linkChild n c).parentsOf v = if v = c then g.parentsOf c ++ [n] else g.parentsOf v := by
  unfold parentsOf linkChild
  simp only [Dict.lookup_set]
  by_cases h : v = c
  · subst h; simp [parentsOf]
  · simp [h]

theorem hasNode_linkChild (g : Graph) (n c u : Nat) (hn : g.hasNode n = true) :
    (g.linkChild n c).hasNode u = (g.hasNode u || decide (u = c)) := by
  unfold hasNode linkChild
  simp only [lookup_touch, Dict.lookup_set]
  by_cases h : u = n
  · subst h
    unfold hasNode at hn
    simp [hn]
  · simp only [h, if_false]
    cases hu : List.lookup u g.children with
    | some r => simp
    | none => by_cases hc : u = c <;> simp [hc]

theorem keys_linkChild (g : Graph) (n c : Nat) (hn : g.hasNode n = true) :
    (g.linkChild n c).getNodes = if g.hasNode c then g.getNodes else g.getNodes ++ [c] := by
  unfold getNodes linkChild
  have hk : (Dict.set g.children n (g.childrenOf n ++ [c])).map Prod.fst = g.children.map Prod.fst := by
    rw [Dict.keys_set]; unfold hasNode at hn; simp [hn]
  simp only [keys_touch, hk, Dict.lookup_set]
  by_cases h : c = n
  · subst h; simp [hn]
  · unfold hasNode; simp only [h, if_false]

/-! ### WF is preserved by the constructors -/

theorem wf_empty : Graph.empty.WF where
  nodupKeys := by simp [Graph.empty]
  closed := by intro u v h; simp [Edge, childrenOf, Graph.empty] at h
  parentsCount := by intro u v; simp [parentsOf, childrenOf, Graph.empty]

theorem wf_touch {g : Graph} (wf : g.WF) (n : Nat) : ({ g with children := touch g.children n } : Graph).WF := by
  have hch : ∀ u, ({ g with children := touch g.children n } : Graph).childrenOf u = g.childrenOf u := by
    intro u
    unfold childrenOf
    simp only [lookup_touch]
    cases hu : List.lookup u g.children with
    | some r => rfl
    | none => by_cases hc : u = n <;> simp [hc]
  refine ⟨?_, ?_, ?_⟩
  · show ((touch g.children n).map Prod.fst).Nodup
    rw [keys_touch]
    split
    · exact wf.nodupKeys
    · rename_i h
      have hnot : n ∉ g.children.map Prod.fst := by
        rw [← Dict.lookup_isSome_iff_mem_keys]; exact h
      exact List.nodup_append.mpr ⟨wf.nodupKeys, by simp, by
        intro a ha b hb; simp at hb; subst hb; exact fun e => hnot (e ▸ ha)⟩
  · intro u v h
    unfold Edge at h
    rw [hch] at h
    have := wf.closed u v h
    unfold hasNode at this ⊢
    simp only [lookup_touch]
    cases hv : List.lookup v g.children with
    | some r => rfl
    | none => simp [hv] at this
  · intro u v
    rw [hch]
    exact wf.parentsCount u v

theorem wf_linkChild {g : Graph} (wf : g.WF) {n : Nat} (hn : g.hasNode n = true) (c : Nat) :
    (g.linkChild n c).WF := by
  refine ⟨?_, ?_, ?_⟩
  · have := keys_linkChild g n c hn
    unfold getNodes at this
    rw [this]
    split
    · exact wf.nodupKeys
    · rename_i h
      have hnot : c ∉ g.children.map Prod.fst := by
        intro hm
        exact h ((hasNode_iff_mem_getNodes g c).mpr hm)
      exact List.nodup_append.mpr ⟨wf.nodupKeys, by simp, by
        intro a ha b hb; simp at hb; subst hb; exact fun e => hnot (e ▸ ha)⟩
  · intro u v h
    unfold Edge at h
    rw [childrenOf_linkChild g n c u hn] at h
    rw [hasNode_linkChild g n c v hn]
    by_cases hu : u = n
    · simp only [hu, if_true, List.mem_append, List.mem_singleton] at h
      rcases h with h | h
      · simp [wf.closed n v h]
      · simp [h]
    · simp only [hu, if_false] at h
      simp [wf.closed u v h]
  · intro u v
    rw [childrenOf_linkChild g n c u hn, parentsOf_linkChild]
    by_cases hv : v = c <;> by_cases hu : u = n
    · subst hv; subst hu
      simp [List.count_append, wf.parentsCount]
    · subst hv
      have : (n == u) = false := by simp; exact fun e => hu e.symm
      simp [hu, List.count_append, wf.parentsCount, List.count_cons, this]
    · subst hu
      have : (c == v) = false := by simp; exact fun e => hv e.symm
      simp [hv, List.count_append, wf.parentsCount, List.count_cons, this]
    · simp [hv, hu, wf.parentsCount]

theorem wf_addChild {g g' : Graph} (wf : g.WF) {n c : Nat} (h : g.addChild n c = .ok g') : g'.WF := by
  unfold addChild at h
  split at h
  · rename_i hn
    cases h
    exact wf_linkChild wf hn c
  · cases h

private theorem wf_foldl_link {n : Nat} (cs : List Nat) :
    ∀ {g : Graph}, g.WF → g.hasNode n = true →
      (cs.foldl (fun g c => g.linkChild n c) g).WF := by
  induction cs with
  | nil => intro g wf _; exact wf
  | cons c cs ih =>
    intro g wf hn
    simp only [List.foldl_cons]
    refine ih (wf_linkChild wf hn c) ?_
    rw [hasNode_linkChild g n c n hn]; simp [hn]

theorem wf_addNode {g : Graph} (wf : g.WF) (n : Nat) (cs : List Nat) : (g.addNode n cs).WF := by
  unfold addNode
  refine wf_foldl_link cs (wf_touch wf n) ?_
  unfold hasNode
  simp only [lookup_touch]
  cases List.lookup n g.children <;> simp

theorem wf_ofMapping (m : List (Nat × List Nat)) : (ofMapping m).WF := by
  unfold ofMapping
  suffices h : ∀ g : Graph, g.WF → (m.foldl (fun g p => g.addNode p.1 p.2) g).WF from h _ wf_empty
  induction m with
  | nil => intro g wf; exact wf
  | cons p m ih => intro g wf; exact ih _ (wf_addNode wf p.1 p.2)

/-! ### Elementary getters -/

/-- `get_sources()`: exactly the nodes without incoming edge, in dict order. -/
theorem sources_spec {g : Graph} (wf : g.WF) :
    g.getSources.Sublist g.getNodes ∧
      ∀ n, n ∈ g.getSources ↔ g.hasNode n = true ∧ ∀ u, ¬ g.Edge u n := by
  refine ⟨List.filter_sublist, ?_⟩
  intro n
  unfold getSources
  rw [List.mem_filter, ← hasNode_iff_mem_getNodes]
  constructor
  · rintro ⟨hn, he⟩
    refine ⟨hn, fun u hu => ?_⟩
    have := (wf.mem_parentsOf).mpr hu
    rw [List.isEmpty_iff.mp he] at this
    exact List.not_mem_nil this
  · rintro ⟨hn, he⟩
    refine ⟨hn, ?_⟩
    rw [List.isEmpty_iff]
    apply List.eq_nil_iff_forall_not_mem.mpr
    intro u hu
    exact he u ((wf.mem_parentsOf).mp hu)

/-- Sinks (what `TaskGraph.get_sink_tasks` filters): exactly the nodes without
outgoing edge, in dict order. -/
theorem sinks_spec (g : Graph) :
    g.getSinks.Sublist g.getNodes ∧
      ∀ n, n ∈ g.getSinks ↔ g.hasNode n = true ∧ ∀ v, ¬ g.Edge n v := by
  refine ⟨List.filter_sublist, ?_⟩
  intro n
  unfold getSinks Edge
  rw [List.mem_filter, ← hasNode_iff_mem_getNodes, List.isEmpty_iff]
  constructor
  · rintro ⟨hn, he⟩
    exact ⟨hn, fun v hv => by rw [he] at hv; exact List.not_mem_nil hv⟩
  · rintro ⟨hn, he⟩
    exact ⟨hn, List.eq_nil_iff_forall_not_mem.mpr he⟩

/-- `is_source(n)` agrees with `get_sources()`. -/
theorem isSource_spec {g : Graph} {n : Nat} (hn : g.hasNode n = true) :
    g.isSource n = .ok (decide (n ∈ g.getSources)) := by
  unfold isSource
  simp only [hn, if_true]
  congr 1
  unfold getSources
  have hm : n ∈ g.getNodes := (hasNode_iff_mem_getNodes g n).mp hn
  by_cases he : (g.parentsOf n).isEmpty = true
  · simp [List.mem_filter, hm, he]
  · simp [List.mem_filter, he]

/-- `get_edges()` lists exactly the edges (with multiplicity, dict order). -/
theorem mem_getEdges {g : Graph} (wf : g.WF) (u v : Nat) : (u, v) ∈ g.getEdges ↔ g.Edge u v := by
  unfold getEdges
  rw [List.mem_flatMap]
  constructor
  · rintro ⟨p, hp, hm⟩
    obtain ⟨k, cs⟩ := p
    simp only [List.mem_map, Prod.mk.injEq] at hm
    obtain ⟨c, hc, rfl, rfl⟩ := hm
    have := Dict.lookup_eq_some_of_mem wf.nodupKeys hp
    exact edge_iff_lookup.mpr ⟨cs, this, hc⟩
  · intro h
    obtain ⟨cs, hl, hv⟩ := edge_iff_lookup.mp h
    exact ⟨(u, cs), Dict.mem_of_lookup_eq_some hl, List.mem_map.mpr ⟨v, hv, rfl⟩⟩

end ErdosVerif.Model.Graph
