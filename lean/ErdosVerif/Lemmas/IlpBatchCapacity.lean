/-
Capacity at an instant for the batching model — the part that is true of the code: the
BatchTasks that are not RUNNING, placed on a worker and occupying an instant, pairwise *not
dependent*, never exceed the worker's quantity of any of its resource types (each BatchTask
counted once).  RUNNING BatchTasks and dependent pairs are exactly the two counterexample
classes (C10-ILPB-1, C10-ILPB-5).  The argument is the one of `Lemmas/IlpCapacity.lean`
(pairwise overlap rows ⇒ per-instant load) over BatchTasks.
-/
import ErdosVerif.Lemmas.IlpBatchParents
namespace ErdosVerif.IlpBatch
open ErdosVerif.Mip ErdosVerif.Ilp

section
variable {I : BInst} {σ : Var → Int}

theorem mem_pairs {a b : Nat} : (a, b) ∈ I.pairs ↔ a < I.nB ∧ b < I.nB ∧ b ≠ a := by
  simp [BInst.pairs, List.mem_flatMap, List.mem_map, List.mem_filter, List.mem_range]

theorem mem_constrs_overlap {p : Nat × Nat} {c : Constr Var} (hp : p ∈ I.pairs)
    (hc : c ∈ I.cOverlap p) : c ∈ I.constrs := by
  simp only [BInst.constrs, List.mem_append, List.mem_flatMap]
  exact Or.inl (Or.inl (Or.inr ⟨p, hp, hc⟩))

theorem mem_constrs_resource {t : Nat} {c : Constr Var} (ht : t < I.nB)
    (hc : c ∈ I.cResource t) : c ∈ I.constrs := by
  simp only [BInst.constrs, List.mem_append, List.mem_flatMap]
  exact Or.inl (Or.inr ⟨t, List.mem_range.mpr ht, hc⟩)

theorem overlap_binary (h : sat σ (genB I)) {a b : Nat} (hp : (a, b) ∈ I.pairs) :
    σ (.overlap a b) = 0 ∨ σ (.overlap a b) = 1 := by
  have hd : binDecl (.overlap a b) ∈ I.vars := by
    simp only [BInst.vars, List.mem_append, List.mem_map]
    exact Or.inl (Or.inl (Or.inl (Or.inr ⟨(a, b), hp, rfl⟩)))
  simpa [binDecl] using (sat_var h hd).1 rfl

theorem after_before_binary (h : sat σ (genB I)) {a b : Nat} (hp : (a, b) ∈ I.pairs)
    (hnd : I.dependent a b = false) :
    (σ (.after a b) = 0 ∨ σ (.after a b) = 1) ∧ (σ (.before a b) = 0 ∨ σ (.before a b) = 1) := by
  have hmem : ∀ v, v ∈ [binDecl (Var.after a b), binDecl (Var.before a b)] → v ∈ I.vars := by
    intro v hv
    simp only [BInst.vars, List.mem_append, List.mem_flatMap, List.mem_filter]
    exact Or.inl (Or.inl (Or.inr ⟨(a, b), ⟨hp, by simp [hnd]⟩, hv⟩))
  have h1 := (sat_var h (hmem (binDecl (Var.after a b)) (by simp))).1 rfl
  have h2 := (sat_var h (hmem (binDecl (Var.before a b)) (by simp))).1 rfl
  exact ⟨by simpa [binDecl] using h1, by simpa [binDecl] using h2⟩

/-- Two BatchTasks that are not dependent, both placed, whose closed occupancies
`[start, start + runtime]` share an instant, have `Overlap = 1`. -/
theorem overlap_one (h : sat σ (genB I)) {a b wa wb : Nat} (ha : a < I.nB) (hb : b < I.nB)
    (hab : b ≠ a) (hnd : I.dependent a b = false)
    (hca : I.chosen σ a = some wa) (hcb : I.chosen σ b = some wb) {τ : Int}
    (ha1 : σ (.start a) ≤ τ) (ha2 : τ ≤ σ (.start a) + I.runtime a)
    (hb1 : σ (.start b) ≤ τ) (hb2 : τ ≤ σ (.start b) + I.runtime b) : σ (.overlap a b) = 1 := by
  have hp : (a, b) ∈ I.pairs := mem_pairs.mpr ⟨ha, hb, hab⟩
  have hra := chosen_nonRunning hca
  have hrb := chosen_nonRunning hcb
  have hda := runtime_le_dur h ha (chosen_spec hca).1 (chosen_xval hca)
  have hdb := runtime_le_dur h hb (chosen_spec hcb).1 (chosen_xval hcb)
  have rows : ∀ c ∈ I.cOverlap (a, b), c.holds σ := fun c hc => sat_constr h (mem_constrs_overlap hp hc)
  simp only [BInst.cOverlap, hnd, Bool.false_eq_true, if_false, List.mem_cons, List.mem_nil_iff,
    or_false, forall_eq_or_imp, forall_eq] at rows
  obtain ⟨_, r2, _, r4, r5⟩ := rows
  simp only [Constr.holds, Sense.holds, BInst.afterExpr, BInst.beforeExpr, LinExpr.eval_sub,
    LinExpr.eval_add, LinExpr.eval_ofVar] at r2 r4 r5
  have sa : (I.startE a).eval σ = σ (.start a) := sval_var hra
  have sb : (I.startE b).eval σ = σ (.start b) := sval_var hrb
  have da : (I.durE a).eval σ = dur I σ a := rfl
  have db : (I.durE b).eval σ = dur I σ b := rfl
  rw [sa, sb, db] at r2
  rw [sa, sb, da] at r4
  obtain ⟨hA, hB⟩ := after_before_binary h hp hnd
  have hA0 : σ (.after a b) = 0 := by
    rcases hA with h0 | h1
    · exact h0
    · have := r2 h1; omega
  have hB0 : σ (.before a b) = 0 := by
    rcases hB with h0 | h1
    · exact h0
    · have := r4 h1; omega
  omega

theorem isum_map_ite_filter {α : Type} (l : List α) (q : α → Bool) (f : α → Int) :
    isum (l.map (fun x => if q x = true then f x else 0)) = isum ((l.filter q).map f) := by
  induction l with
  | nil => rfl
  | cons x xs ih =>
    cases hq : q x with
    | true => simp [List.filter_cons, hq, ih]
    | false => simp [List.filter_cons, hq, ih]

/-- Is BatchTask `b` (not RUNNING) placed on `w` and occupying `τ` (closed occupancy)? -/
def occ (I : BInst) (σ : Var → Int) (w : Nat) (τ : Int) (b : Nat) : Prop :=
  I.chosen σ b = some w ∧ σ (.start b) ≤ τ ∧ τ ≤ σ (.start b) + I.runtime b

instance (I : BInst) (σ : Var → Int) (w : Nat) (τ : Int) (b : Nat) : Decidable (occ I σ w τ b) :=
  inferInstanceAs (Decidable (_ ∧ _ ∧ _))

/-- Demand of the not-RUNNING BatchTasks placed on `w` that occupy `τ`, each counted once. -/
def loadNR (I : BInst) (σ : Var → Int) (w : Nat) (r : String) (τ : Int) : Int :=
  isum ((List.range I.nB).map (fun b => if occ I σ w τ b then ((qty (I.bstrat b).req r : Nat) : Int) else 0))

theorem eval_ownDemand (t w : Nat) (r : String) :
    (I.ownDemand t w r).eval σ = ((qty (I.bstrat t).req r : Nat) : Int) * xval I σ t w := by
  unfold BInst.ownDemand BInst.needs
  by_cases hq : qty (I.bstrat t).req r = 0
  · simp [hq]
  · have : (qty (I.bstrat t).req r != 0) = true := by simpa using hq
    simp [this, xval]

theorem eval_otherDemand (t1 t2 w : Nat) (r : String) :
    (I.otherDemand t1 t2 w r).eval σ =
      ((qty (I.bstrat t2).req r : Nat) : Int) * xval I σ t2 w * σ (.overlap t1 t2) := by
  unfold BInst.otherDemand BInst.needs
  by_cases hq : qty (I.bstrat t2).req r = 0
  · simp [hq]
  · have : (qty (I.bstrat t2).req r != 0) = true := by simpa using hq
    simp [this, xval]

/-- **Capacity at every instant** for the not-RUNNING, pairwise not dependent BatchTasks. -/
theorem capacity_at_instant_partial (h : sat σ (genB I)) {w : Nat} (hw : w < I.nW) {r : String}
    (hr : r ∈ (I.worker w).types) (τ : Int)
    (hind : ∀ a b, a < I.nB → b < I.nB → b ≠ a → occ I σ w τ a → occ I σ w τ b → I.dependent a b = false) :
    loadNR I σ w r τ ≤ (qty (I.worker w).res r : Nat) := by
  by_cases hex : ∃ t1, t1 < I.nB ∧ occ I σ w τ t1
  · obtain ⟨t1, ht1, ho1⟩ := hex
    have hr1 := chosen_nonRunning ho1.1
    -- the capacity row of t1 on (w, r)
    have hrow : Constr.quad s!"{I.bname t1}_{(I.worker w).name}_{r}_constraint" (I.resExpr t1 w r) .le
        (qty (I.worker w).res r : Nat) ∈ I.constrs := by
      apply mem_constrs_resource ht1
      simp only [BInst.cResource, hr1, Bool.false_eq_true, if_false, List.mem_flatMap, List.mem_range, List.mem_map]
      exact ⟨w, hw, r, hr, rfl⟩
    have hle := sat_constr h hrow
    simp only [Constr.holds, Sense.holds, BInst.resExpr, QuadExpr.eval_add, QuadExpr.eval_ofLin,
      QuadExpr.eval_sumQ, List.map_map] at hle
    rw [eval_ownDemand] at hle
    -- termwise bound
    let T : Nat → Int := fun b =>
      (if b = t1 then ((qty (I.bstrat t1).req r : Nat) : Int) * xval I σ t1 w else 0) +
      (if (b != t1 && !I.bRunning b) = true then
        ((qty (I.bstrat b).req r : Nat) : Int) * xval I σ b w * σ (.overlap t1 b) else 0)
    have hterm : ∀ b ∈ List.range I.nB,
        (if occ I σ w τ b then ((qty (I.bstrat b).req r : Nat) : Int) else 0) ≤ T b := by
      intro b hb
      have hbb := List.mem_range.mp hb
      have hq0 : (0 : Int) ≤ ((qty (I.bstrat b).req r : Nat) : Int) := Int.natCast_nonneg _
      by_cases hbt : b = t1
      · subst hbt
        simp only [T, if_true, bne_self_eq_false, Bool.false_and, Bool.false_eq_true, if_false]
        rw [chosen_xval ho1.1]
        simp [ho1]
      · have hne : (b != t1) = true := by simpa using hbt
        simp only [T, hbt, if_false, hne, Bool.true_and, Int.zero_add]
        by_cases hob : occ I σ w τ b
        · have hrb := chosen_nonRunning hob.1
          have hnd := hind t1 b ht1 hbb hbt ho1 hob
          have hov := overlap_one h ht1 hbb hbt hnd ho1.1 hob.1 ho1.2.1 ho1.2.2 hob.2.1 hob.2.2
          simp [hob, hrb, chosen_xval hob.1, hov]
        · simp only [hob, if_false]
          cases hrb : I.bRunning b with
          | true => simp
          | false =>
            simp only [Bool.not_false, if_true]
            have hx := xval_nonneg h hbb hw
            have hov : 0 ≤ σ (.overlap t1 b) := by
              rcases overlap_binary h (mem_pairs.mpr ⟨ht1, hbb, hbt⟩) with h0 | h1 <;> omega
            exact Int.mul_nonneg (Int.mul_nonneg hq0 hx) hov
    have hsum := isum_map_le (List.range I.nB) _ T hterm
    -- Σ T = own + Σ_{others} term
    have hT : isum ((List.range I.nB).map T) =
        ((qty (I.bstrat t1).req r : Nat) : Int) * xval I σ t1 w +
        isum ((I.others t1).map (fun b => ((qty (I.bstrat b).req r : Nat) : Int) * xval I σ b w * σ (.overlap t1 b))) := by
      have split : ∀ (l : List Nat) (f g : Nat → Int),
          isum (l.map (fun b => f b + g b)) = isum (l.map f) + isum (l.map g) := by
        intro l f g
        induction l with
        | nil => simp
        | cons x xs ih => simp only [List.map_cons, isum_cons, ih]; omega
      show isum ((List.range I.nB).map (fun b => _ + _)) = _
      rw [split, isum_range_indicator]
      simp only [ht1, if_true]
      congr 1
      unfold BInst.others
      exact isum_map_ite_filter _ _ _
    have hothers : isum ((I.others t1).map ((QuadExpr.eval σ) ∘ fun t2 => I.otherDemand t1 t2 w r)) =
        isum ((I.others t1).map (fun b => ((qty (I.bstrat b).req r : Nat) : Int) * xval I σ b w * σ (.overlap t1 b))) := by
      apply isum_map_eq
      intro b _
      simp [Function.comp, eval_otherDemand]
    unfold loadNR
    rw [hothers] at hle
    omega
  · -- nothing occupies τ on w
    have : loadNR I σ w r τ = 0 := by
      unfold loadNR
      apply isum_map_zero
      intro b hb
      have : ¬ occ I σ w τ b := fun ho => hex ⟨b, List.mem_range.mp hb, ho⟩
      simp [this]
    rw [this]
    exact Int.natCast_nonneg _

end
end ErdosVerif.IlpBatch
