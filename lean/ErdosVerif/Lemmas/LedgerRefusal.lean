import ErdosVerif.Lemmas.LedgerInv
/-!
Exact-state lemmas: a refused request changes nothing; deallocation undoes an
allocation exactly. Core Lean only.
-/
namespace ErdosVerif.Model

section AListMore
variable {κ υ : Type} [DecidableEq κ]

theorem AList.set_set (l : AList κ υ) (k : κ) (v w : υ) :
    AList.set (AList.set l k v) k w = AList.set l k w := by
  induction l with
  | nil => simp [AList.set]
  | cons p t ih =>
    obtain ⟨a, b⟩ := p
    simp only [AList.set]
    by_cases h : a = k
    · simp [h, AList.set]
    · simp [h, AList.set, ih]

theorem AList.set_of_get? (l : AList κ υ) (k : κ) (v : υ) (h : AList.get? l k = some v) :
    AList.set l k v = l := by
  induction l with
  | nil => simp [AList.get?] at h
  | cons p t ih =>
    obtain ⟨a, b⟩ := p
    simp only [AList.get?] at h
    simp only [AList.set]
    by_cases hak : a = k
    · simp only [hak, if_true, Option.some.injEq] at h; subst h; simp [hak]
    · simp only [hak, if_false] at h ⊢; rw [ih h]

theorem AList.erase_set_of_not_mem (l : AList κ υ) (k : κ) (v : υ) (h : k ∉ AList.keys l) :
    AList.erase (AList.set l k v) k = l := by
  induction l with
  | nil => simp [AList.set, AList.erase]
  | cons p t ih =>
    obtain ⟨a, b⟩ := p
    simp only [AList.keys_cons, List.mem_cons, not_or] at h
    have hak : ¬ a = k := fun e => h.1 e.symm
    simp only [AList.set, hak, if_false, AList.erase]
    rw [ih h.2]

theorem AList.get?_set_self (l : AList κ υ) (k : κ) (v : υ) :
    AList.get? (AList.set l k v) k = some v := by
  rw [AList.get?_set]; simp

end AListMore

namespace Resources

theorem allocate_refused (r : Resources) (k : Res) (c : Comp) (q : Nat)
    (h : (r.allocate k c q).2 ≠ .ok) : (r.allocate k c q).1 = r := by
  unfold allocate at h ⊢
  split
  · rfl
  · rename_i hlt; simp [hlt] at h

theorem deallocate_refused (r : Resources) (c : Comp)
    (h : (r.deallocate c).2 ≠ .ok) : (r.deallocate c).1 = r := by
  unfold deallocate at h ⊢
  split
  · rfl
  · rename_i l hg; simp [hg] at h

/-- `b` is `a` after some successful allocations to `c` that recorded `recs`. -/
structure Ext (c : Comp) (a b : Resources) (recs : List (Res × Nat)) : Prop where
  total : b.total = a.total
  keys : AList.keys b.avail = AList.keys a.avail
  qty : ∀ x, getQ b.avail x + pairsAt recs x = getQ a.avail x
  allocs : b.allocs = AList.set a.allocs c ((AList.get? a.allocs c).getD [] ++ recs)
  recsKeys : ∀ p ∈ recs, p.1 ∈ AList.keys a.avail

theorem Ext.refl (c : Comp) (a : Resources) (l : List (Res × Nat)) (h : AList.get? a.allocs c = some l) :
    Ext c a a [] :=
  ⟨rfl, rfl, fun _ => by simp, by simp [h, AList.set_of_get? _ _ _ h], by simp⟩

theorem Ext.trans {c : Comp} {a b d : Resources} {r1 r2 : List (Res × Nat)}
    (h1 : Ext c a b r1) (h2 : Ext c b d r2) : Ext c a d (r1 ++ r2) := by
  refine ⟨h2.total.trans h1.total, h2.keys.trans h1.keys, ?_, ?_, ?_⟩
  · intro x
    have := h1.qty x; have := h2.qty x
    rw [pairsAt_append]; omega
  · rw [h2.allocs, h1.allocs, AList.get?_set_self, AList.set_set]
    simp [List.append_assoc]
  · intro p hp
    rcases List.mem_append.mp hp with hp | hp
    · exact h1.recsKeys p hp
    · exact h1.keys ▸ h2.recsKeys p hp

theorem ext_allocate (r : Resources) (k : Res) (c : Comp) (q : Nat)
    (hnd : (AList.keys r.avail).Nodup) (hok : (r.allocate k c q).2 = .ok) :
    Ext c r (r.allocate k c q).1 (scan k r.avail q).2 := by
  unfold allocate at hok ⊢
  split
  · rename_i hlt; simp [hlt] at hok
  · refine ⟨rfl, scan_keys _ _ _, scan_conserve k r.avail q hnd, rfl, ?_⟩
    intro p hp; exact (scan_recorded k r.avail q p hp).1

/-- What `allocateEach` has done when it stops (successfully or not). -/
theorem ext_allocateEach (r : Resources) (c : Comp) (req : Vec) (hnd : (AList.keys r.avail).Nodup)
    (l : List (Res × Nat)) (hl : AList.get? r.allocs c = some l) :
    ∃ recs, Ext c r (r.allocateEach c req).1 recs := by
  induction req generalizing r l with
  | nil => exact ⟨[], Ext.refl c r l hl⟩
  | cons p rest ih =>
    obtain ⟨k, q⟩ := p
    simp only [allocateEach]
    cases hres : r.allocate k c q with
    | mk r' o =>
      cases o with
      | ok =>
        have hok : (r.allocate k c q).2 = .ok := by rw [hres]
        have e1 := ext_allocate r k c q hnd hok
        rw [hres] at e1
        have hnd' : (AList.keys r'.avail).Nodup := e1.keys ▸ hnd
        have hl' : AList.get? r'.allocs c = some (l ++ (scan k r.avail q).2) := by
          rw [e1.allocs, AList.get?_set_self, hl]; rfl
        obtain ⟨recs, e2⟩ := ih r' hnd' _ hl'
        exact ⟨_, e1.trans e2⟩
      | raised e =>
        have : (r.allocate k c q).2 ≠ .ok := by rw [hres]; simp
        have := allocate_refused r k c q this
        rw [hres] at this
        simp only at this
        subst this
        exact ⟨[], Ext.refl c _ l hl⟩

/-- **A refused `allocate_multiple` changes nothing** (exact state equality). -/
theorem allocateMultiple_refused (r : Resources) (req : Vec) (c : Comp) (h : r.Inv)
    (hr : (r.allocateMultiple req c).2 ≠ .ok) : (r.allocateMultiple req c).1 = r := by
  unfold allocateMultiple at hr ⊢
  split
  · rename_i hchk
    simp only [hchk, if_true] at hr
    have hnd : (AList.keys r.avail).Nodup := h.keys_eq ▸ h.nodup
    -- the touched resources
    have hl0 : AList.get? (record r.allocs c []) c = some ((AList.get? r.allocs c).getD []) := by
      simp [record, AList.get?_set_self]
    obtain ⟨recs, e⟩ := ext_allocateEach { r with allocs := record r.allocs c [] } c req hnd _ hl0
    cases hres : allocateEach { r with allocs := record r.allocs c [] } c req with
    | mk r' o =>
      rw [hres] at e hr
      cases o with
      | ok => simp at hr
      | raised err =>
        simp only at e ⊢
        have hget : AList.get? r'.allocs c = some ((AList.get? r.allocs c).getD [] ++ recs) := by
          rw [e.allocs, AList.get?_set_self, hl0]; rfl
        have hdrop : (((AList.get? r'.allocs c).getD []).drop ((AList.get? r.allocs c).getD []).length) = recs := by
          simp [hget]
        have htake : (((AList.get? r'.allocs c).getD []).take ((AList.get? r.allocs c).getD []).length) =
            (AList.get? r.allocs c).getD [] := by
          simp [hget]
        have havail : giveBack r'.avail recs = r.avail := by
          apply vec_ext
          · rw [giveBack_keys _ _ (fun p hp => e.keys ▸ e.recsKeys p hp)]; exact e.keys
          · rw [giveBack_keys _ _ (fun p hp => e.keys ▸ e.recsKeys p hp), e.keys]; exact hnd
          · intro x; rw [giveBack_getQ]; exact e.qty x
        have hallocs : (if AList.has r.allocs c = true then AList.set r'.allocs c ((AList.get? r.allocs c).getD [])
            else AList.erase r'.allocs c) = r.allocs := by
          rw [e.allocs]
          simp only [record, AList.set_set]
          cases hg : AList.get? r.allocs c with
          | none =>
            have hnm : c ∉ AList.keys r.allocs := fun hm => by
              have := AList.get?_isSome_of_mem _ _ hm; simp [hg] at this
            simp [AList.has, hg, AList.erase_set_of_not_mem _ _ _ hnm]
          | some l0 => simp [AList.has, hg, AList.set_of_get? _ _ _ hg]
        have htot : r'.total = r.total := e.total
        cases r' with
        | mk av tot al =>
          cases r with
          | mk av0 tot0 al0 =>
            simp only at htot havail hallocs hdrop htake ⊢
            simp only [hdrop, htake, havail, hallocs, htot]
  · rfl

/-- Deallocation gives back exactly the recorded quantities. -/
theorem deallocate_getQ (r : Resources) (c : Comp) (l : List (Res × Nat))
    (hg : AList.get? r.allocs c = some l) (x : Res) :
    getQ (r.deallocate c).1.avail x = getQ r.avail x + pairsAt l x := by
  simp only [deallocate, hg, giveBack_getQ]

/-- **Deallocating right after a successful `allocate_multiple` restores the
pre-allocation state exactly** (for a computation that held nothing before). -/
theorem deallocate_allocateMultiple (r : Resources) (req : Vec) (c : Comp) (h : r.Inv)
    (hc : c ∉ AList.keys r.allocs) (hok : (r.allocateMultiple req c).2 = .ok) :
    (r.allocateMultiple req c).1.deallocate c = (r, .ok) := by
  unfold allocateMultiple at hok ⊢
  split
  · rename_i hchk
    simp only [hchk, if_true] at hok
    have hnd : (AList.keys r.avail).Nodup := h.keys_eq ▸ h.nodup
    have hnone : AList.get? r.allocs c = none := AList.get?_eq_none_of_not_mem _ _ hc
    have hl0 : AList.get? (record r.allocs c []) c = some [] := by
      simp [record, AList.get?_set_self, hnone]
    obtain ⟨recs, e⟩ := ext_allocateEach { r with allocs := record r.allocs c [] } c req hnd _ hl0
    cases hres : allocateEach { r with allocs := record r.allocs c [] } c req with
    | mk r' o =>
      rw [hres] at e hok
      cases o with
      | raised err => simp at hok
      | ok =>
        simp only at e ⊢
        have hget : AList.get? r'.allocs c = some recs := by
          rw [e.allocs, AList.get?_set_self, hl0]; rfl
        have havail : giveBack r'.avail recs = r.avail := by
          apply vec_ext
          · rw [giveBack_keys _ _ (fun p hp => e.keys ▸ e.recsKeys p hp)]; exact e.keys
          · rw [giveBack_keys _ _ (fun p hp => e.keys ▸ e.recsKeys p hp), e.keys]; exact hnd
          · intro x; rw [giveBack_getQ]; exact e.qty x
        have hallocs : AList.erase r'.allocs c = r.allocs := by
          rw [e.allocs]
          simp only [record, AList.set_set]
          exact AList.erase_set_of_not_mem _ _ _ hc
        have htot : r'.total = r.total := e.total
        simp only [deallocate, hget]
        cases r' with
        | mk av tot al =>
          cases r with
          | mk av0 tot0 al0 =>
            simp only at htot havail hallocs ⊢
            simp only [havail, hallocs, htot]
  · rename_i hchk; simp [hchk] at hok

/-- Nothing allocated ⇒ full capacity. -/
theorem empty_full (r : Resources) (h : r.Inv) (he : r.allocs = []) : r.avail = r.total := by
  apply vec_ext
  · exact h.keys_eq
  · rw [h.keys_eq]; exact h.nodup
  · intro x; have := h.conserve x; simp [he] at this; exact this

end Resources
end ErdosVerif.Model
