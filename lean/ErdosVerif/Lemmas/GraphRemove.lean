/-
`Graph.remove` (as repaired by /repo commit ce9bde1) on a well-formed graph:
it raises nothing, keeps the graph well formed, deletes exactly the key of the
node (the order of the other keys is kept) and exactly the edges incident to it.

`WF` says nothing about the keys of `_parent_graph` (`Graph.parents`); `del
_parent_graph[node]` on an association list with a duplicated key would expose
the hidden second entry, so the statements carry the extra hypothesis
`(g.parents.map Prod.fst).Nodup`.  It is an invariant of every graph built
through the public constructors (`parentsKeysNodup_*` below).
-/
import ErdosVerif.Lemmas.GraphWF

namespace ErdosVerif.Model

/-! ### More dictionary lemmas: `set` keeps distinct keys, `erase` -/
namespace Dict
variable {β : Type}

theorem nodup_keys_set {d : Dict β} (h : (d.map Prod.fst).Nodup) (k : Nat) (v : β) :
    ((Dict.set d k v).map Prod.fst).Nodup := by
  rw [keys_set]
  split
  · exact h
  · rename_i hk
    have hnot : k ∉ d.map Prod.fst := by
      rw [← lookup_isSome_iff_mem_keys]; exact hk
    exact List.nodup_append.mpr ⟨h, by simp, by
      intro a ha b hb; simp at hb; subst hb; exact fun e => hnot (e ▸ ha)⟩

theorem keys_erase_sublist (d : Dict β) (k : Nat) :
    ((Dict.erase d k).map Prod.fst).Sublist (d.map Prod.fst) := by
  induction d with
  | nil => simp [Dict.erase]
  | cons p r ih =>
    obtain ⟨k₀, v₀⟩ := p
    by_cases h : k₀ = k
    · simp [Dict.erase, h]
    · simp only [Dict.erase, h, if_false, List.map_cons]
      exact ih.cons_cons _

theorem nodup_keys_erase {d : Dict β} (h : (d.map Prod.fst).Nodup) (k : Nat) :
    ((Dict.erase d k).map Prod.fst).Nodup :=
  List.Nodup.sublist (keys_erase_sublist d k) h

theorem lookup_erase_ne (d : Dict β) {k k' : Nat} (h : k' ≠ k) :
    List.lookup k' (Dict.erase d k) = List.lookup k' d := by
  induction d with
  | nil => simp [Dict.erase]
  | cons p r ih =>
    obtain ⟨k₀, v₀⟩ := p
    by_cases h0 : k₀ = k
    · subst h0
      have : (k' == k₀) = false := by simp [h]
      simp [Dict.erase, List.lookup, this]
    · by_cases h1 : k' = k₀
      · subst h1
        simp [Dict.erase, h0, List.lookup]
      · have : (k' == k₀) = false := by simp [h1]
        simp [Dict.erase, h0, List.lookup, this, ih]

/-- With distinct keys `del d[k]` removes the key `k` and nothing else. -/
theorem keys_erase {d : Dict β} (hd : (d.map Prod.fst).Nodup) (k : Nat) :
    (Dict.erase d k).map Prod.fst = (d.map Prod.fst).filter (fun a => a != k) := by
  induction d with
  | nil => simp [Dict.erase]
  | cons p r ih =>
    obtain ⟨k₀, v₀⟩ := p
    simp only [List.map_cons, List.nodup_cons] at hd
    by_cases h : k₀ = k
    · subst h
      have : (r.map Prod.fst).filter (fun a => a != k₀) = r.map Prod.fst := by
        rw [List.filter_eq_self]
        intro a ha
        have : a ≠ k₀ := fun e => hd.1 (e ▸ ha)
        simp [this]
      simp [Dict.erase, this]
    · simp [Dict.erase, h, ih hd.2]

theorem lookup_erase_self {d : Dict β} (hd : (d.map Prod.fst).Nodup) (k : Nat) :
    List.lookup k (Dict.erase d k) = none := by
  rw [lookup_eq_none_iff, keys_erase hd]
  simp

theorem lookup_erase {d : Dict β} (hd : (d.map Prod.fst).Nodup) (k k' : Nat) :
    List.lookup k' (Dict.erase d k) = if k' = k then none else List.lookup k' d := by
  by_cases h : k' = k
  · subst h; simp [lookup_erase_self hd]
  · simp [h, lookup_erase_ne d h]

end Dict

namespace Graph

/-! ### `list.remove` iterated: dropping the first `k` occurrences -/

/-- `l` without its first `k` occurrences of `x` (specification helper). -/
def dropK (x : Nat) : Nat → List Nat → List Nat
  | 0, l => l
  | _ + 1, [] => []
  | k + 1, y :: ys => if y = x then dropK x k ys else y :: dropK x (k + 1) ys

@[simp] theorem dropK_zero (x : Nat) (l : List Nat) : dropK x 0 l = l := by
  cases l <;> simp [dropK]

@[simp] theorem dropK_nil (x k : Nat) : dropK x k [] = [] := by
  cases k <;> simp [dropK]

theorem removeFirst_eq_none {x : Nat} {l : List Nat} : removeFirst x l = none ↔ x ∉ l := by
  induction l with
  | nil => simp [removeFirst]
  | cons y ys ih =>
    by_cases h : y = x
    · simp [removeFirst, h]
    · have : x ≠ y := fun e => h e.symm
      simp [removeFirst, h, ih, this]

theorem removeFirst_of_mem {x : Nat} {l : List Nat} (hm : x ∈ l) :
    removeFirst x l = some (dropK x 1 l) := by
  induction l with
  | nil => simp at hm
  | cons y ys ih =>
    by_cases h : y = x
    · simp [removeFirst, dropK, h]
    · have : x ≠ y := fun e => h e.symm
      have hm' : x ∈ ys := by simpa [this] using hm
      simp [removeFirst, dropK, h, ih hm']

theorem dropK_dropK_one (x k : Nat) (l : List Nat) :
    dropK x k (dropK x 1 l) = dropK x (k + 1) l := by
  induction l generalizing k with
  | nil => simp
  | cons y ys ih =>
    by_cases h : y = x
    · simp [dropK, h]
    · cases k with
      | zero => simp [dropK, h]
      | succ k => simp [dropK, h, ih]

theorem count_dropK_one {x : Nat} {l : List Nat} (hm : x ∈ l) :
    (dropK x 1 l).count x + 1 = l.count x := by
  induction l with
  | nil => simp at hm
  | cons y ys ih =>
    by_cases h : y = x
    · simp [dropK, h]
    · have : x ≠ y := fun e => h e.symm
      have hm' : x ∈ ys := by simpa [this] using hm
      simp [dropK, h, ih hm']

theorem dropK_of_count_le {x k : Nat} {l : List Nat} (h : l.count x ≤ k) :
    dropK x k l = l.filter (fun a => a != x) := by
  induction l generalizing k with
  | nil => simp
  | cons y ys ih =>
    by_cases hy : y = x
    · subst hy
      cases k with
      | zero => simp at h
      | succ k =>
        have : ys.count y ≤ k := by simpa using h
        simp [dropK, ih this]
    · have hc : ys.count x ≤ k := by simpa [List.count_cons, hy] using h
      cases k with
      | zero =>
        have := ih hc
        simp only [dropK_zero] at this
        simp [hy, ← this]
      | succ k => simp [dropK, hy, ih hc]

/-! ### The two unlink loops -/

/-- Keys stay distinct along `unlinkParents`, whatever the outcome. -/
theorem unlinkParents_nodup (x : Nat) : ∀ (cs : List Nat) (pa : Dict (List Nat)),
    (pa.map Prod.fst).Nodup → ((unlinkParents x cs pa).1.map Prod.fst).Nodup := by
  intro cs
  induction cs with
  | nil => intro pa h; exact h
  | cons c cs ih =>
    intro pa h
    unfold unlinkParents
    split
    · exact h
    · exact ih _ (Dict.nodup_keys_set h _ _)

/-- If every `c` has at least as many `x` in its list as it occurs in `cs`, the loop
`for c in cs: d[c].remove(x)` succeeds, creates no key and drops from `d[v]` the
first `count v cs` occurrences of `x`. -/
theorem unlinkParents_spec (x : Nat) : ∀ (cs : List Nat) (pa : Dict (List Nat)),
    (∀ c, cs.count c ≤ ((List.lookup c pa).getD []).count x) →
    (unlinkParents x cs pa).2 = true ∧
    (unlinkParents x cs pa).1.map Prod.fst = pa.map Prod.fst ∧
    ∀ v, (List.lookup v (unlinkParents x cs pa).1).getD [] =
      dropK x (cs.count v) ((List.lookup v pa).getD []) := by
  intro cs
  induction cs with
  | nil => intro pa _; simp [unlinkParents]
  | cons c cs ih =>
    intro pa hpre
    have hc := hpre c
    simp only [List.count_cons_self] at hc
    have hmem : x ∈ (List.lookup c pa).getD [] := List.count_pos_iff.mp (by omega)
    have hsome : (List.lookup c pa).isSome = true := by
      cases hl : List.lookup c pa with
      | none => simp [hl] at hmem
      | some l => rfl
    have hrf := removeFirst_of_mem hmem
    have hcnt := count_dropK_one hmem
    have hstep : unlinkParents x (c :: cs) pa =
        unlinkParents x cs (Dict.set pa c (dropK x 1 ((List.lookup c pa).getD []))) := by
      rw [unlinkParents, hrf]
    rw [hstep]
    have hpre' : ∀ c', cs.count c' ≤ ((List.lookup c'
        (Dict.set pa c (dropK x 1 ((List.lookup c pa).getD [])))).getD []).count x := by
      intro c'
      rw [Dict.lookup_set]
      by_cases he : c' = c
      · subst he
        simp only [if_true, Option.getD_some]
        omega
      · have := hpre c'
        have hne : (c == c') = false := by simp; exact fun e => he e.symm
        simp only [List.count_cons, hne] at this
        simpa [he] using this
    obtain ⟨h1, h2, h3⟩ := ih _ hpre'
    refine ⟨h1, ?_, ?_⟩
    · rw [h2, Dict.keys_set]; simp [hsome]
    · intro v
      rw [h3 v, Dict.lookup_set]
      by_cases he : v = c
      · subst he
        simp only [if_true, Option.getD_some, List.count_cons_self]
        exact dropK_dropK_one _ _ _
      · have hne : (c == v) = false := by simp; exact fun e => he e.symm
        simp [he, List.count_cons, hne]

/-- When `unlinkParents` succeeds, `unlinkChildren` is the same loop. -/
theorem unlinkChildren_eq_of_success (x : Nat) : ∀ (ps : List Nat) (ch : Dict (List Nat)),
    (unlinkParents x ps ch).2 = true → unlinkChildren x ps ch = unlinkParents x ps ch := by
  intro ps
  induction ps with
  | nil => intro ch _; rfl
  | cons p ps ih =>
    intro ch h
    unfold unlinkParents at h
    unfold unlinkChildren unlinkParents
    split
    · rename_i hn; simp [hn] at h
    · rename_i l hl
      simp only [hl] at h
      exact ih _ h

/-- Keys stay distinct along `unlinkChildren`, whatever the outcome. -/
theorem unlinkChildren_nodup (x : Nat) : ∀ (ps : List Nat) (ch : Dict (List Nat)),
    (ch.map Prod.fst).Nodup → ((unlinkChildren x ps ch).1.map Prod.fst).Nodup := by
  intro ps
  induction ps with
  | nil => intro ch h; exact h
  | cons p ps ih =>
    intro ch h
    unfold unlinkChildren
    split
    · show ((touch ch p).map Prod.fst).Nodup
      rw [keys_touch]
      split
      · exact h
      · rename_i hk
        have hnot : p ∉ ch.map Prod.fst := by
          rw [← Dict.lookup_isSome_iff_mem_keys]; exact hk
        exact List.nodup_append.mpr ⟨h, by simp, by
          intro a ha b hb; simp at hb; subst hb; exact fun e => hnot (e ▸ ha)⟩
    · exact ih _ (Dict.nodup_keys_set h _ _)

/-! ### `remove` -/

theorem count_filter_ne_self (x : Nat) (l : List Nat) :
    (l.filter (fun a => a != x)).count x = 0 := by
  rw [List.count_eq_zero]; simp

theorem count_filter_ne_of_ne {a x : Nat} (h : a ≠ x) (l : List Nat) :
    (l.filter (fun b => b != x)).count a = l.count a :=
  List.count_filter (by simp [h])

/-- Explicit form of the state after `remove` of a node of a well-formed graph. -/
theorem remove_eq {g : Graph} (wf : g.WF) (hp : (g.parents.map Prod.fst).Nodup) {x : Nat}
    (hx : g.hasNode x = true) :
    ∃ ch pa, g.remove x = ({ children := Dict.erase ch x, parents := Dict.erase pa x }, none) ∧
      ch.map Prod.fst = g.children.map Prod.fst ∧
      (∀ u, u ≠ x → (List.lookup u ch).getD [] = (g.childrenOf u).filter (fun c => c != x)) ∧
      (pa.map Prod.fst).Nodup ∧
      (∀ v, (List.lookup v pa).getD [] = (g.parentsOf v).filter (fun p => p != x)) := by
  unfold hasNode at hx
  obtain ⟨cs, hl⟩ := Option.isSome_iff_exists.mp hx
  have hcs : g.childrenOf x = cs := childrenOf_of_lookup hl
  -- loop 1
  have H1 := unlinkParents_spec x cs g.parents (fun c => by
    show cs.count c ≤ (g.parentsOf c).count x
    rw [wf.parentsCount x c, hcs]; exact Nat.le_refl _)
  have N1 := unlinkParents_nodup x cs g.parents hp
  generalize hr1 : unlinkParents x cs g.parents = r1 at H1 N1
  obtain ⟨pa, b1⟩ := r1
  obtain ⟨hb1, -, hpa0⟩ := H1
  simp only at hb1 hpa0 N1
  subst hb1
  have hpa : ∀ v, (List.lookup v pa).getD [] = (g.parentsOf v).filter (fun p => p != x) := by
    intro v
    rw [hpa0 v]
    exact dropK_of_count_le (by
      show (g.parentsOf v).count x ≤ cs.count v
      rw [wf.parentsCount x v, hcs]; exact Nat.le_refl _)
  -- loop 2
  have hpre2 : ∀ p, ((List.lookup x pa).getD []).count p ≤
      ((List.lookup p g.children).getD []).count x := by
    intro p
    rw [hpa x]
    by_cases hpx : p = x
    · subst hpx; rw [count_filter_ne_self]; exact Nat.zero_le _
    · rw [count_filter_ne_of_ne hpx]
      show (g.parentsOf x).count p ≤ (g.childrenOf p).count x
      rw [wf.parentsCount p x]; exact Nat.le_refl _
  have H2 := unlinkParents_spec x ((List.lookup x pa).getD []) g.children hpre2
  have E2 := unlinkChildren_eq_of_success x ((List.lookup x pa).getD []) g.children H2.1
  generalize hr2 : unlinkParents x ((List.lookup x pa).getD []) g.children = r2 at H2 E2
  obtain ⟨ch, b2⟩ := r2
  obtain ⟨hb2, hkeys, hch0⟩ := H2
  simp only at hb2 hkeys hch0
  subst hb2
  refine ⟨ch, pa, ?_, hkeys, ?_, N1, hpa⟩
  · simp only [remove, hl, hr1, E2]
  · intro u hu
    rw [hch0 u]
    exact dropK_of_count_le (by
      rw [hpa x, count_filter_ne_of_ne hu]
      show (g.childrenOf u).count x ≤ (g.parentsOf x).count u
      rw [wf.parentsCount u x]; exact Nat.le_refl _)

theorem remove_absent {g : Graph} {x : Nat} (hx : g.hasNode x = false) :
    g.remove x = (g, some "ValueError") := by
  unfold hasNode at hx
  have : List.lookup x g.children = none := by
    cases h : List.lookup x g.children with
    | none => rfl
    | some l => simp [h] at hx
  simp only [remove, this]

/-- On a well-formed graph `remove` of a node raises nothing, keeps the graph well formed,
deletes exactly that key (order of the others kept) and exactly the edges incident to it. -/
theorem remove_spec {g : Graph} (wf : g.WF) (hp : (g.parents.map Prod.fst).Nodup) {x : Nat}
    (hx : g.hasNode x = true) :
    (g.remove x).2 = none ∧ (g.remove x).1.WF ∧
    (g.remove x).1.getNodes = g.getNodes.filter (fun k => k != x) ∧
    (∀ u, (g.remove x).1.childrenOf u =
      if u = x then [] else (g.childrenOf u).filter (fun c => c != x)) ∧
    (∀ v, (g.remove x).1.parentsOf v =
      if v = x then [] else (g.parentsOf v).filter (fun p => p != x)) := by
  obtain ⟨ch, pa, heq, hkeys, hch, hpaN, hpa⟩ := remove_eq wf hp hx
  rw [heq]
  have hchN : (ch.map Prod.fst).Nodup := hkeys ▸ wf.nodupKeys
  have hnodes : ({ children := Dict.erase ch x, parents := Dict.erase pa x } : Graph).getNodes =
      g.getNodes.filter (fun k => k != x) := by
    show (Dict.erase ch x).map Prod.fst = _
    rw [Dict.keys_erase hchN, hkeys]; rfl
  have hchildren : ∀ u, ({ children := Dict.erase ch x, parents := Dict.erase pa x } : Graph).childrenOf u =
      if u = x then [] else (g.childrenOf u).filter (fun c => c != x) := by
    intro u
    show (List.lookup u (Dict.erase ch x)).getD [] = _
    rw [Dict.lookup_erase hchN]
    by_cases hu : u = x
    · simp [hu]
    · simp only [hu, if_false]; exact hch u hu
  have hparents : ∀ v, ({ children := Dict.erase ch x, parents := Dict.erase pa x } : Graph).parentsOf v =
      if v = x then [] else (g.parentsOf v).filter (fun p => p != x) := by
    intro v
    show (List.lookup v (Dict.erase pa x)).getD [] = _
    rw [Dict.lookup_erase hpaN]
    by_cases hv : v = x
    · simp [hv]
    · simp only [hv, if_false]; exact hpa v
  refine ⟨rfl, ⟨?_, ?_, ?_⟩, hnodes, hchildren, hparents⟩
  · show (({ children := Dict.erase ch x, parents := Dict.erase pa x } : Graph).getNodes).Nodup
    rw [hnodes]
    exact List.Nodup.sublist List.filter_sublist wf.nodupKeys
  · intro u v he
    unfold Edge at he
    rw [hchildren u] at he
    by_cases hu : u = x
    · simp [hu] at he
    · simp only [hu, if_false, List.mem_filter] at he
      rw [hasNode_iff_mem_getNodes, hnodes, List.mem_filter]
      exact ⟨(hasNode_iff_mem_getNodes g v).mp (wf.closed u v he.1), he.2⟩
  · intro u v
    rw [hchildren u, hparents v]
    by_cases hv : v = x <;> by_cases hu : u = x
    · simp [hv, hu]
    · subst hv; simp only [hu, if_true, if_false, List.count_nil]
      exact (count_filter_ne_self _ _).symm
    · subst hu; simp only [hv, if_true, if_false, List.count_nil]
      exact count_filter_ne_self _ _
    · simp only [hv, hu, if_false]
      rw [count_filter_ne_of_ne hu, count_filter_ne_of_ne hv]
      exact wf.parentsCount u v

/-- `remove` keeps the graph well formed (for a non-node the state is unchanged:
`ValueError` before any mutation). -/
theorem wf_remove {g : Graph} (wf : g.WF) (hp : (g.parents.map Prod.fst).Nodup) (x : Nat) :
    (g.remove x).1.WF := by
  cases hx : g.hasNode x with
  | true => exact (remove_spec wf hp hx).2.1
  | false => rw [remove_absent hx]; exact wf

/-- Edges after the removal: exactly the old edges that avoid `x`. -/
theorem edge_remove {g : Graph} (wf : g.WF) (hp : (g.parents.map Prod.fst).Nodup) {x : Nat}
    (hx : g.hasNode x = true) (u v : Nat) :
    (g.remove x).1.Edge u v ↔ g.Edge u v ∧ u ≠ x ∧ v ≠ x := by
  unfold Edge
  rw [(remove_spec wf hp hx).2.2.2.1 u]
  by_cases hu : u = x
  · simp [hu]
  · simp only [hu, if_false, List.mem_filter]
    simp [hu]

/-- `hasNode` after the removal. -/
theorem hasNode_remove {g : Graph} (wf : g.WF) (hp : (g.parents.map Prod.fst).Nodup) {x : Nat}
    (hx : g.hasNode x = true) (u : Nat) :
    (g.remove x).1.hasNode u = true ↔ g.hasNode u = true ∧ u ≠ x := by
  rw [hasNode_iff_mem_getNodes, (remove_spec wf hp hx).2.2.1, List.mem_filter,
    ← hasNode_iff_mem_getNodes]
  simp

/-! ### Distinct keys of `_parent_graph` is an invariant of the public operations -/

theorem parentsKeysNodup_empty : (Graph.empty.parents.map Prod.fst).Nodup := by
  simp [Graph.empty]

theorem parentsKeysNodup_linkChild {g : Graph} (hp : (g.parents.map Prod.fst).Nodup) (n c : Nat) :
    ((g.linkChild n c).parents.map Prod.fst).Nodup :=
  Dict.nodup_keys_set hp _ _

theorem parentsKeysNodup_addChild {g g' : Graph} (hp : (g.parents.map Prod.fst).Nodup) {n c : Nat}
    (h : g.addChild n c = .ok g') : (g'.parents.map Prod.fst).Nodup := by
  unfold addChild at h
  split at h
  · cases h; exact parentsKeysNodup_linkChild hp n c
  · cases h

theorem parentsKeysNodup_addNode {g : Graph} (hp : (g.parents.map Prod.fst).Nodup) (n : Nat)
    (cs : List Nat) : ((g.addNode n cs).parents.map Prod.fst).Nodup := by
  unfold addNode
  suffices h : ∀ g : Graph, (g.parents.map Prod.fst).Nodup →
      ((cs.foldl (fun g c => g.linkChild n c) g).parents.map Prod.fst).Nodup from h _ hp
  induction cs with
  | nil => intro g h; exact h
  | cons c cs ih => intro g h; exact ih _ (parentsKeysNodup_linkChild h n c)

theorem parentsKeysNodup_ofMapping (m : List (Nat × List Nat)) :
    ((ofMapping m).parents.map Prod.fst).Nodup := by
  unfold ofMapping
  suffices h : ∀ g : Graph, (g.parents.map Prod.fst).Nodup →
      ((m.foldl (fun g p => g.addNode p.1 p.2) g).parents.map Prod.fst).Nodup from
    h _ parentsKeysNodup_empty
  induction m with
  | nil => intro g h; exact h
  | cons p m ih => intro g h; exact ih _ (parentsKeysNodup_addNode h p.1 p.2)

/-- Whatever the outcome of `remove` (any graph, node or not). -/
theorem parentsKeysNodup_remove {g : Graph} (hp : (g.parents.map Prod.fst).Nodup) (x : Nat) :
    ((g.remove x).1.parents.map Prod.fst).Nodup := by
  unfold remove
  split
  · exact hp
  · rename_i cs _
    have N1 := unlinkParents_nodup x cs g.parents hp
    split
    · rename_i pa h1; rw [h1] at N1; exact N1
    · rename_i pa h1
      rw [h1] at N1
      split
      · exact N1
      · exact Dict.nodup_keys_erase N1 x

/-- The keys of `_graph` stay distinct too, whatever the outcome of `remove`. -/
theorem childrenKeysNodup_remove {g : Graph} (hc : (g.children.map Prod.fst).Nodup) (x : Nat) :
    ((g.remove x).1.children.map Prod.fst).Nodup := by
  unfold remove
  split
  · exact hc
  · split
    · exact hc
    · rename_i pa _
      have N2 := unlinkChildren_nodup x ((List.lookup x pa).getD []) g.children hc
      split
      · rename_i ch h2; rw [h2] at N2; exact N2
      · rename_i ch h2; rw [h2] at N2; exact Dict.nodup_keys_erase N2 x

end Graph
end ErdosVerif.Model
