import ErdosVerif.Lemmas.SimResidentCore
/-!
The residency / exact-runtime invariant of the simulator state (`AP`), its weak form
that also holds at the raise point of an aborted handler (`WInv`), and the state-level
update lemmas. Core Lean only.
-/
namespace ErdosVerif.Model.Sim

/-! ### exact-runtime bookkeeping of a RUNNING task -/

/-- A RUNNING task has been stepped up to the current clock, and
`start + remaining-at-start = now + remaining`, where the remaining time at the start is
the one recorded in the task's `.start` entry of the history log. -/
def RunOK (now : Int) (log : List LogE) (t : TaskId) (x : TaskS) : Prop :=
  ∃ r, x.remaining = some r ∧ 0 ≤ r ∧ x.lastStep = now ∧ x.start ≤ now ∧
    ∃ r0 pid, LogE.start t x.start r0 pid ∈ log ∧ x.start + r0 = now + r

/-- In the middle of `__step(dt)`: the task has either not been stepped yet (and `dt` does
not exceed its remaining time) or has been stepped to `now + dt`. -/
def RunMid (dt : Int) (now : Int) (log : List LogE) (t : TaskId) (x : TaskS) : Prop :=
  ∃ r, x.remaining = some r ∧ 0 ≤ r ∧ x.start ≤ now ∧
    (∃ r0 pid, LogE.start t x.start r0 pid ∈ log ∧ x.start + r0 = x.lastStep + r) ∧
    ((x.lastStep = now ∧ dt ≤ r) ∨ x.lastStep = now + dt)

/-- The per-task predicate only reads the log through membership. -/
def LogMono (P : Int → List LogE → TaskId → TaskS → Prop) : Prop :=
  ∀ now l l' t x, (∀ e ∈ l, e ∈ l') → P now l t x → P now l' t x

theorem logMono_RunOK : LogMono RunOK := by
  intro now l l' t x hsub ⟨r, h1, h2, h3, h4, r0, pid, h5, h6⟩
  exact ⟨r, h1, h2, h3, h4, r0, pid, hsub _ h5, h6⟩

theorem logMono_RunMid (dt : Int) : LogMono (RunMid dt) := by
  intro now l l' t x hsub ⟨r, h1, h2, h3, ⟨r0, pid, h5, h6⟩, h7⟩
  exact ⟨r, h1, h2, h3, ⟨r0, pid, hsub _ h5, h6⟩, h7⟩

/-! ### the history log -/

/-- **Every `.finish t τ` entry is preceded by a `.start t σ r _` entry with `τ = σ + r`.** -/
def LogOK (l : List LogE) : Prop :=
  ∀ (i : Nat) (t : TaskId) (τ : Int), l[i]? = some (LogE.finish t τ) →
    ∃ j : Nat, j < i ∧ ∃ σ r pid, l[j]? = some (LogE.start t σ r pid) ∧ τ = σ + r

theorem LogOK.nil : LogOK [] := by intro i t τ h; simp at h

theorem LogOK.push (l : List LogE) (e : LogE) (h : LogOK l)
    (he : ∀ t τ, e = LogE.finish t τ → ∃ σ r pid, LogE.start t σ r pid ∈ l ∧ τ = σ + r) : LogOK (l ++ [e]) := by
  intro i t τ hi
  by_cases hlt : i < l.length
  · rw [List.getElem?_append_left hlt] at hi
    obtain ⟨j, hj, σ, r, pid, h1, h2⟩ := h i t τ hi
    exact ⟨j, hj, σ, r, pid, by rw [List.getElem?_append_left (by omega)]; exact h1, h2⟩
  · have hge : l.length ≤ i := by omega
    rw [List.getElem?_append_right hge] at hi
    have hi0 : i - l.length = 0 := by
      cases hk : i - l.length with
      | zero => rfl
      | succ k => rw [hk] at hi; simp at hi
    rw [hi0] at hi
    simp only [List.getElem?_cons_zero, Option.some.injEq] at hi
    obtain ⟨σ, r, pid, hm, hτ⟩ := he t τ hi
    obtain ⟨j, hj, hje⟩ := List.getElem_of_mem hm
    refine ⟨j, by omega, σ, r, pid, ?_, hτ⟩
    rw [List.getElem?_append_left hj, List.getElem?_eq_getElem hj, hje]

/-- Appending entries none of which is a `.finish`. -/
theorem LogOK.append (l es : List LogE) (h : LogOK l) (he : ∀ e ∈ es, ∀ t τ, e ≠ LogE.finish t τ) : LogOK (l ++ es) := by
  induction es generalizing l with
  | nil => simpa using h
  | cons e es ih =>
    have : l ++ e :: es = (l ++ [e]) ++ es := by simp
    rw [this]
    apply ih
    · apply LogOK.push l e h
      intro t τ het
      exact absurd het (he e (List.mem_cons_self ..) t τ)
    · intro e' he'; exact he e' (List.mem_cons_of_mem _ he')

/-! ### event identities -/

/-- The event ids the simulator keeps for later in-place edits: the cached placement
events (`_future_placement_events`) and the pending scheduler start. -/
def EF (fut : AList TaskId Nat) (ns : Option Nat) (x : Nat) : Prop := (∃ t, (t, x) ∈ fut) ∨ ns = some x

/-- No TASK_FINISHED event can be reached through a kept event id (so `editEvent` never
re-times one), and ids are below the counter. -/
structure EInv (q : List SEvent) (fut : AList TaskId Nat) (ns : Option Nat) (nid : Nat) : Prop where
  efLt : ∀ x, EF fut ns x → x < nid
  finLt : ∀ e ∈ q, e.ev.etype = ET.taskFinished → e.ev.eid < nid
  finNotEF : ∀ e ∈ q, e.ev.etype = ET.taskFinished → ¬ EF fut ns e.ev.eid

/-- Everything at once: fewer TASK_FINISHED events, larger counter, kept ids that are old or fresh. -/
theorem EInv.benign {q q' : List SEvent} {fut fut' : AList TaskId Nat} {ns ns' : Option Nat} {nid nid' : Nat}
    (h : EInv q fut ns nid)
    (hq : ∀ e ∈ q', e.ev.etype = ET.taskFinished → e ∈ q)
    (hef : ∀ x, EF fut' ns' x → EF fut ns x ∨ (nid ≤ x ∧ x < nid'))
    (hid : nid ≤ nid') : EInv q' fut' ns' nid' := by
  refine ⟨?_, ?_, ?_⟩
  · intro x hx
    rcases hef x hx with h1 | h1
    · have := h.efLt x h1; omega
    · exact h1.2
  · intro e he hf
    have := h.finLt e (hq e he hf) hf; omega
  · intro e he hf hx
    rcases hef _ hx with h1 | h1
    · exact h.finNotEF e (hq e he hf) hf h1
    · have := h.finLt e (hq e he hf) hf; omega

/-- A fresh TASK_FINISHED (or any other) event is queued. -/
theorem EInv.q_add {q q' : List SEvent} {fut : AList TaskId Nat} {ns : Option Nat} {nid : Nat}
    (h : EInv q fut ns nid) (e0 : SEvent) (hq : ∀ e ∈ q', e ∈ q ∨ e = e0)
    (he0 : e0.ev.etype = ET.taskFinished → e0.ev.eid < nid ∧ ¬ EF fut ns e0.ev.eid) : EInv q' fut ns nid := by
  refine ⟨h.efLt, ?_, ?_⟩
  · intro e he hf
    rcases hq e he with h1 | h1
    · exact h.finLt e h1 hf
    · subst h1; exact (he0 hf).1
  · intro e he hf
    rcases hq e he with h1 | h1
    · exact h.finNotEF e h1 hf
    · subst h1; exact (he0 hf).2

/-- One more kept id, below the counter and not the id of a TASK_FINISHED event. -/
theorem EInv.ef_add {q q' : List SEvent} {fut fut' : AList TaskId Nat} {ns ns' : Option Nat} {nid : Nat}
    (h : EInv q fut ns nid) (x0 : Nat) (hx : x0 < nid)
    (hq : ∀ e ∈ q', e.ev.etype = ET.taskFinished → e ∈ q)
    (hfresh : ∀ e ∈ q, e.ev.etype = ET.taskFinished → e.ev.eid ≠ x0)
    (hef : ∀ x, EF fut' ns' x → EF fut ns x ∨ x = x0) : EInv q' fut' ns' nid := by
  refine ⟨?_, ?_, ?_⟩
  · intro x hx'
    rcases hef x hx' with h1 | h1
    · exact h.efLt x h1
    · rw [h1]; exact hx
  · intro e he hf
    exact h.finLt e (hq e he hf) hf
  · intro e he hf hx'
    rcases hef _ hx' with h1 | h1
    · exact h.finNotEF e (hq e he hf) hf h1
    · exact hfresh e (hq e he hf) hf h1

/-! ### the invariant of the simulator state -/

/-- The invariant, parametrised by what is known of the RUNNING tasks (`RunOK` between
handlers, `RunMid dt` inside `__step(dt)`) and by the events that exist but are not in
the queue at the moment (`ex`: the event that was popped and is being handled; the
TASK_FINISHED events `__step` has created and not yet queued). -/
structure AP (P : Int → List LogE → TaskId → TaskS → Prop) (ex : List SEvent) (s : SimS) : Prop where
  core : Core (views s.pools) (pmaps s.pools) (taskAt s.graphs) (P s.now s.log.toList) (s.queue.toList ++ ex)
  log : LogOK s.log.toList
  eids : EInv (s.queue.toList ++ ex) s.future s.nextSched s.nextEid
  allQ : ∀ g ∈ s.allGraphs.toList, g.Quiet
  tmplQ : ∀ j ∈ s.jobs.toList, j.template.Quiet
  loader : s.loaderReleased = false → s.graphs = #[] ∧ s.metas = #[]

/-- **The residency and exact-runtime invariant** (holds whenever a handler returns). -/
abbrev AInv (s : SimS) : Prop := AP RunOK [] s

/-- What also holds at the raise point of an aborted handler: single residency, every
RUNNING task is resident, and the log property. (Not: every resident task is RUNNING —
`__handle_task_placement` places the task on the worker before `Task.start`, which can
still raise.) -/
structure WInv (s : SimS) : Prop where
  wnodup : ∀ pi i ks, Wk (views s.pools) pi i = some ks → ks.Nodup
  single : ∀ pi i pj j n, At (views s.pools) pi i n → At (views s.pools) pj j n → pi = pj ∧ i = j
  runRes : ∀ t x, taskAt s.graphs t = some x → x.state = .running → ∃ pi i, At (views s.pools) pi i (gid t)
  log : LogOK s.log.toList

theorem AP.weak {P : Int → List LogE → TaskId → TaskS → Prop} {ex : List SEvent} {s : SimS} (h : AP P ex s) : WInv s :=
  ⟨h.core.wnodup, h.core.single, h.core.runRes, h.log⟩

/-- The weak invariant only reads the pools' residency views, the graphs and the log. -/
theorem WInv.congr (s s' : SimS) (h : WInv s) (hv : views s'.pools = views s.pools)
    (hg : s'.graphs = s.graphs) (hl : s'.log = s.log) : WInv s' := by
  obtain ⟨h1, h2, h3, h5⟩ := h
  refine ⟨?_, ?_, ?_, ?_⟩
  · rw [hv]; exact h1
  · rw [hv]; exact h2
  · rw [hv, hg]; exact h3
  · rw [hl]; exact h5

/-- **Frame / benign steps.** Everything a handler does that leaves the RUNNING tasks, the
residency views and the clock alone: new rows, new non-`.finish` log entries, fresh events
of other types, edits of non-TASK_FINISHED events, removing events, `RFrame` changes of
task graphs, new task graphs, changes of the kept event ids. -/
theorem AP.benign {P : Int → List LogE → TaskId → TaskS → Prop} (hPm : LogMono P) {ex ex' : List SEvent}
    (s s' : SimS) (h : AP P ex s)
    (hv : views s'.pools = views s.pools) (hm : pmaps s'.pools = pmaps s.pools)
    (hg : TRel (taskAt s.graphs) (taskAt s'.graphs))
    (hn : s'.now = s.now)
    (hl : ∃ es, s'.log.toList = s.log.toList ++ es ∧ ∀ e ∈ es, ∀ t τ, e ≠ LogE.finish t τ)
    (hq : ∀ e ∈ s'.queue.toList ++ ex', e.ev.etype = ET.taskFinished → e ∈ s.queue.toList ++ ex)
    (hef : ∀ x, EF s'.future s'.nextSched x → EF s.future s.nextSched x ∨ (s.nextEid ≤ x ∧ x < s'.nextEid))
    (hid : s.nextEid ≤ s'.nextEid)
    (ha : s'.allGraphs = s.allGraphs) (hj : ∀ j ∈ s'.jobs.toList, j.template.Quiet)
    (hld : s'.loaderReleased = false → s'.graphs = #[] ∧ s'.metas = #[]) : AP P ex' s' := by
  obtain ⟨es, hes, hnf⟩ := hl
  refine ⟨?_, ?_, ?_, ?_, hj, hld⟩
  · rw [hv, hm, hn, hes]
    refine ((h.core.trel hg).mono_P ?_).q_sub hq
    intro t x _ _ hp
    exact hPm _ _ _ t x (fun e he => List.mem_append_left _ he) hp
  · rw [hes]; exact LogOK.append _ _ h.log hnf
  · exact h.eids.benign hq hef hid
  · rw [ha]; exact h.allQ

end ErdosVerif.Model.Sim
