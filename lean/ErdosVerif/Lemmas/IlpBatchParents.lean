/-
"A placed child BatchTask has every parent of every member in a placed (or RUNNING) BatchTask":
from the `all_parents_placed` indicator rows by exchanging the double sum
`Σ_p (#parents in p) · Σx_p = Σ_{u parent} Σ_{p ∋ u} Σx_p` and bounding each inner sum by 1
(`…_unique_batch_placement` for tasks in fresh BatchTasks, one group for previously placed tasks).
-/
import ErdosVerif.Lemmas.IlpBatchUnique
namespace ErdosVerif.IlpBatch
open ErdosVerif.Mip ErdosVerif.Ilp

/-! ### Sums -/

theorem isum_filter_of_zero {α : Type} (l : List α) (q : α → Bool) (f : α → Int)
    (h : ∀ x ∈ l, q x = false → f x = 0) : isum ((l.filter q).map f) = isum (l.map f) := by
  induction l with
  | nil => rfl
  | cons x xs ih =>
    have ih' := ih (fun y hy => h y (by simp [hy]))
    cases hq : q x with
    | true => simp [List.filter_cons, hq, ih']
    | false =>
      have := h x (by simp) hq
      simp [List.filter_cons, hq, ih', this]

theorem length_filter_eq_isum {α : Type} (l : List α) (q : α → Bool) :
    ((l.filter q).length : Int) = isum (l.map (fun x => if q x then 1 else 0)) := by
  induction l with
  | nil => rfl
  | cons x xs ih =>
    cases hq : q x with
    | true => simp [List.filter_cons, hq, ih]; omega
    | false => simp [List.filter_cons, hq, ih]

theorem isum_map_mul_right {α : Type} (l : List α) (f : α → Int) (k : Int) :
    isum (l.map f) * k = isum (l.map (fun x => f x * k)) := by
  induction l with
  | nil => simp
  | cons x xs ih => simp [Int.add_mul, ih]

theorem isum_comm {α β : Type} (l1 : List α) (l2 : List β) (f : α → β → Int) :
    isum (l1.map (fun a => isum (l2.map (fun b => f a b)))) =
    isum (l2.map (fun b => isum (l1.map (fun a => f a b)))) := by
  induction l1 with
  | nil =>
    simp only [List.map_nil, isum_nil]
    rw [isum_map_zero]; intro b _; rfl
  | cons x xs ih =>
    simp only [List.map_cons, isum_cons, ih]
    clear ih
    induction l2 with
    | nil => simp
    | cons y ys ih2 => simp only [List.map_cons, isum_cons]; omega

theorem isum_filter_mono {α : Type} (l : List α) (q1 q2 : α → Bool) (f : α → Int)
    (himp : ∀ x ∈ l, q1 x = true → q2 x = true) (h0 : ∀ x ∈ l, 0 ≤ f x) :
    isum ((l.filter q1).map f) ≤ isum ((l.filter q2).map f) := by
  induction l with
  | nil => simp
  | cons x xs ih =>
    have ih' := ih (fun y hy => himp y (by simp [hy])) (fun y hy => h0 y (by simp [hy]))
    have hx0 := h0 x (by simp)
    cases h1 : q1 x with
    | true =>
      have h2 := himp x (by simp) h1
      simp [List.filter_cons, h1, h2]; omega
    | false =>
      cases h2 : q2 x with
      | true => simp [List.filter_cons, h1, h2]; omega
      | false => simp [List.filter_cons, h1, h2]; exact ih'

/-- If all elements of a duplicate-free list equal `p`, its sum of `f` is at most `max 0 (f p)`. -/
theorem isum_le_of_all_eq {l : List Nat} (f : Nat → Int) {p : Nat} (hn : l.Nodup)
    (h : ∀ x ∈ l, x = p) (h0 : 0 ≤ f p) : isum (l.map f) ≤ f p := by
  cases l with
  | nil => simpa using h0
  | cons x xs =>
    cases xs with
    | nil => have := h x (by simp); subst this; simp
    | cons y ys =>
      exfalso
      have hx := h x (by simp)
      have hy := h y (by simp)
      simp only [List.nodup_cons, List.mem_cons] at hn
      exact hn.1 (Or.inl (by rw [hx, hy]))

/-! ### Well-formedness facts -/

theorem wfUniq_inj {I : BInst} (h : I.wfUniq = true) {i j : Nat} (hi : i < I.nT) (hj : j < I.nT)
    (he : (I.task i).uniq = (I.task j).uniq) : i = j := by
  simp only [BInst.wfUniq, Bool.and_eq_true, List.all_eq_true, List.mem_range] at h
  have := h.1 i hi j hj
  simp only [Bool.or_eq_true, beq_iff_eq, Bool.not_eq_true', beq_eq_false_iff_ne] at this
  rcases this with h1 | h1
  · exact h1
  · exact absurd he h1

theorem wfUniq_member {I : BInst} (h : I.wfUniq = true) {b m : Nat} (hb : b < I.nB)
    (hm : m ∈ I.members b) : m < I.nT := by
  simp only [BInst.wfUniq, Bool.and_eq_true, List.all_eq_true, List.mem_range] at h
  simpa using h.2 b hb m hm

/-- With unique names, "holds the task named `uniq t`" is "holds `t`". -/
theorem hasMember_iff {I : BInst} (h : I.wfUniq = true) {b t : Nat} (hb : b < I.nB) (ht : t < I.nT) :
    I.hasMember b (I.task t).uniq = true ↔ t ∈ I.members b := by
  simp only [BInst.hasMember, List.any_eq_true, beq_iff_eq]
  constructor
  · rintro ⟨m, hm, he⟩
    have := wfUniq_inj h (wfUniq_member h hb hm) ht he
    rwa [this] at hm
  · intro hm; exact ⟨t, hm, rfl⟩

/-- A RUNNING BatchTask counts as placed once. -/
theorem psum_running {I : BInst} {σ : Var → Int} {b : Nat} (hr : I.bRunning b = true) : psum I σ b = 1 := by
  rw [psum_eq, isum_map_zero]
  · simp [hr]
  · intro w _
    apply xval_novar
    simp [BInst.hasVar, hr]

theorem psum_le_one' {I : BInst} {σ : Var → Int} (h : sat σ (genB I)) {b : Nat} (hb : b < I.nB) :
    psum I σ b ≤ 1 := by
  cases hr : I.bRunning b with
  | true => rw [psum_running hr]; omega
  | false => exact psum_le_one h (mem_nonRunning.mpr ⟨hb, hr⟩)

/-! ### Each parent is covered at most once -/

/-- `Σ_{p ∋ u} Σx_p`: how often the parent named `u` is placed. -/
def cover (I : BInst) (σ : Var → Int) (u : String) : Int :=
  isum ((List.range I.nB).map (fun p => (if I.hasMember p u then 1 else 0) * psum I σ p))

theorem cover_eq_filter (I : BInst) (σ : Var → Int) (u : String) :
    cover I σ u = isum (((List.range I.nB).filter (fun p => I.hasMember p u)).map (psum I σ)) := by
  unfold cover
  rw [← isum_filter_of_zero (List.range I.nB) (fun p => I.hasMember p u)]
  · apply isum_map_eq
    intro p hp
    have : I.hasMember p u = true := (List.mem_filter.mp hp).2
    simp [this]
  · intro p _ hq
    have hq' : I.hasMember p u = false := hq
    simp [hq']

theorem cover_le_one {I : BInst} {σ : Var → Int} (h : sat σ (genB I)) (hws : I.wfShared = true)
    (hwu : I.wfUniq = true) (u : String) : cover I σ u ≤ 1 := by
  rw [cover_eq_filter]
  -- the BatchTasks holding u
  cases hH : (List.range I.nB).filter (fun p => I.hasMember p u) with
  | nil => simp
  | cons p0 rest =>
    rw [← hH]
    have hp0 : p0 ∈ (List.range I.nB).filter (fun p => I.hasMember p u) := by rw [hH]; simp
    have hp0' := List.mem_filter.mp hp0
    have hp0b : p0 < I.nB := List.mem_range.mp hp0'.1
    -- a member t of p0 named u
    have hm0 : I.hasMember p0 u = true := hp0'.2
    simp only [BInst.hasMember, List.any_eq_true, beq_iff_eq] at hm0
    obtain ⟨t, ht0, htu⟩ := hm0
    have ht : t < I.nT := wfUniq_member hwu hp0b ht0
    subst htu
    have hmem : ∀ p ∈ (List.range I.nB).filter (fun p => I.hasMember p (I.task t).uniq), t ∈ I.members p := by
      intro p hp
      have hp' := List.mem_filter.mp hp
      exact (hasMember_iff hwu (List.mem_range.mp hp'.1) ht).mp hp'.2
    have hnd : ((List.range I.nB).filter (fun p => I.hasMember p (I.task t).uniq)).Nodup :=
      List.Nodup.sublist List.filter_sublist (range_nodup _)
    by_cases hallfresh : ∀ p ∈ (List.range I.nB).filter (fun p => I.hasMember p (I.task t).uniq),
        (I.batch p).fresh = true
    · -- all fresh: bounded by the unique row of t
      have hne : I.freshOf t ≠ [] := by
        intro e
        have : p0 ∈ I.freshOf t := mem_freshOf.mpr ⟨hp0b, hallfresh p0 hp0, ht0⟩
        rw [e] at this; cases this
      have hrow := unique_row h ht hne
      have hmono : isum (((List.range I.nB).filter (fun p => I.hasMember p (I.task t).uniq)).map (psum I σ)) ≤
          isum ((I.freshOf t).map (psum I σ)) := by
        unfold BInst.freshOf
        apply isum_filter_mono
        · intro p hp hq
          have hpb := List.mem_range.mp hp
          have hin : p ∈ (List.range I.nB).filter (fun p => I.hasMember p (I.task t).uniq) :=
            List.mem_filter.mpr ⟨hp, hq⟩
          simp only [Bool.and_eq_true, List.contains_iff_mem]
          exact ⟨hallfresh p hin, by simpa using hmem p hin⟩
        · intro p hp; exact psum_nonneg h (List.mem_range.mp hp)
      omega
    · -- some holder is not fresh: it is the only holder
      have : ∃ q ∈ (List.range I.nB).filter (fun p => I.hasMember p (I.task t).uniq), (I.batch q).fresh = false := by
        apply Classical.byContradiction
        intro hne
        apply hallfresh
        intro p hp
        cases hf : (I.batch p).fresh with
        | true => rfl
        | false => exact absurd ⟨p, hp, hf⟩ hne
      obtain ⟨q, hq, hqf⟩ := this
      have hqb : q < I.nB := List.mem_range.mp (List.mem_filter.mp hq).1
      have hall : ∀ p ∈ (List.range I.nB).filter (fun p => I.hasMember p (I.task t).uniq), p = q := by
        intro p hp
        apply Classical.byContradiction
        intro hne
        have hpb : p < I.nB := List.mem_range.mp (List.mem_filter.mp hp).1
        have := wfShared_spec hws hpb hqb hne (hmem p hp) (hmem q hq)
        rw [hqf] at this
        exact absurd this.2 (by simp)
      have := isum_le_of_all_eq (psum I σ) hnd hall (psum_nonneg h hqb)
      have h1 := psum_le_one' h hqb
      omega

/-! ### The counting row, exchanged -/

theorem parentExpr_eval {I : BInst} {σ : Var → Int} (c : Nat) :
    (I.parentExpr c).eval σ = isum ((I.parentTasks c).map (cover I σ)) := by
  unfold BInst.parentExpr
  rw [LinExpr.eval_sumL, List.map_map]
  have e1 : isum ((I.parentVars c).map (LinExpr.eval σ ∘ fun p => LinExpr.smul (I.nParentsIn c p : Nat) (I.sumX p))) =
      isum ((I.parentVars c).map (fun p => ((I.nParentsIn c p : Nat) : Int) * psum I σ p)) := by
    apply isum_map_eq
    intro p _
    simp [Function.comp, psum]
  rw [e1]
  unfold BInst.parentVars
  rw [isum_filter_of_zero]
  · -- expand the counts and exchange
    have e2 : ∀ p ∈ List.range I.nB, ((I.nParentsIn c p : Nat) : Int) * psum I σ p =
        isum ((I.parentTasks c).map (fun u => (if I.hasMember p u then 1 else 0) * psum I σ p)) := by
      intro p _
      unfold BInst.nParentsIn
      rw [length_filter_eq_isum, isum_map_mul_right]
    rw [isum_map_eq _ _ _ e2, isum_comm]
    rfl
  · intro p _ hq
    have : I.nParentsIn c p = 0 := by simpa using hq
    simp [this]

/-- **A placed child BatchTask has every parent of every member placed**: each graph parent of a
member of `c` is held by a BatchTask that is RUNNING or placed by `σ` (when `c` has at least
one parent variable; see finding C11-ILPB-2 for the case of none). -/
theorem placed_child_all_parents_placed {I : BInst} {σ : Var → Int} (h : sat σ (genB I))
    (hws : I.wfShared = true) (hwu : I.wfUniq = true) {c w : Nat} (hc : c < I.nB)
    (hne : I.parentVars c ≠ []) (hpl : I.chosen σ c = some w) {u : String} (hu : u ∈ I.parentTasks c) :
    ∃ p, p < I.nB ∧ I.hasMember p u = true ∧ (I.bRunning p = true ∨ (I.chosen σ p).isSome = true) := by
  have hcn := mem_nonRunning.mpr ⟨hc, chosen_nonRunning hpl⟩
  obtain ⟨r0, r1, rb⟩ := parents_rows h hcn hne
  have h1 := one_le_psum_of_chosen h hc hpl
  have hap : σ (.allParents c) = 1 := by
    rcases rb with h0 | h1'
    · have := r0 h0; omega
    · exact h1'
  have hcount := r1 hap
  rw [parentExpr_eval] at hcount
  have hall := all_one_of_isum_eq_length (l := (I.parentTasks c).map (cover I σ))
    (by intro a ha; obtain ⟨u', _, rfl⟩ := List.mem_map.mp ha; exact cover_le_one h hws hwu u')
    (by rw [List.length_map]; omega)
  have hcov : cover I σ u = 1 := hall _ (List.mem_map.mpr ⟨u, hu, rfl⟩)
  -- some holder of u has Σx ≥ 1
  rw [cover_eq_filter] at hcov
  have : ∃ p ∈ (List.range I.nB).filter (fun p => I.hasMember p u), 1 ≤ psum I σ p := by
    apply Classical.byContradiction
    intro hno
    have hz : isum (((List.range I.nB).filter (fun p => I.hasMember p u)).map (psum I σ)) = 0 := by
      apply isum_map_zero
      intro p hp
      have hpb := List.mem_range.mp (List.mem_filter.mp hp).1
      have h0 := psum_nonneg h hpb
      have : ¬ 1 ≤ psum I σ p := fun hh => hno ⟨p, hp, hh⟩
      omega
    omega
  obtain ⟨p, hp, hp1⟩ := this
  have hpb := List.mem_range.mp (List.mem_filter.mp hp).1
  refine ⟨p, hpb, (List.mem_filter.mp hp).2, ?_⟩
  cases hr : I.bRunning p with
  | true => exact Or.inl rfl
  | false =>
    right
    -- some x is 1
    rw [psum_eq] at hp1
    simp only [hr] at hp1
    have : ∃ w' ∈ List.range I.nW, xval I σ p w' = 1 := by
      apply Classical.byContradiction
      intro hno
      have hz : isum ((List.range I.nW).map (xval I σ p)) = 0 := by
        apply isum_map_zero
        intro w' hw'
        rcases xval_binary h hpb (List.mem_range.mp hw') with h0 | h1
        · exact h0
        · exact absurd ⟨w', hw', h1⟩ hno
      simp [hz] at hp1
    obtain ⟨w', hw', hx⟩ := this
    cases hv : I.hasVar p w' with
    | false => rw [xval_novar hv] at hx; omega
    | true =>
      rw [xval_var hv] at hx
      exact chosen_isSome (List.mem_range.mp hw') hv hx

end ErdosVerif.IlpBatch
