import ErdosVerif.Lemmas.SimResidentInit
import ErdosVerif.Lemmas.SimLedgerRunFrame
import ErdosVerif.Lemmas.SimLedgerRunPool
/-!
The ledger / residency invariant `LI` (every worker satisfies `Worker.TOK`: held iff resident,
with amounts) over whole runs of the simulator model: Hoare triples for the handlers that write
the worker pools, `__step`, one loop iteration, the constructor and the run; adequacy.

The only fact needed from the rest of the state is "the task being placed is not resident":
it follows from `NR` (resident ⇒ RUNNING, node indices fit the key encoding), which the
residency invariant `AP` of `SimResident*` provides at every loop head and which `__step`,
`heappop` and the `.pop` log entry keep.
-/
open Std.Do
set_option mvcgen.warning false

namespace ErdosVerif.Model.Sim

/-- Resident ⇒ RUNNING, and node indices fit the pool key encoding. -/
def NR (ps : Array Pool) (gs : Array GraphS) : Prop :=
  (∀ pi i n, At (views ps) pi i n → ∃ x, taskAt gs (ungid n) = some x ∧ x.state = .running) ∧
  (∀ t x, taskAt gs t = some x → t.t < 65536)

theorem NR.of_AP {P : Int → List LogE → TaskId → TaskS → Prop} {ex : List SEvent} {s : SimS} (h : AP P ex s) :
    NR s.pools s.graphs :=
  ⟨fun pi i n hat => h.core.resRun pi i n hat, fun t x ht => h.core.small t x ht⟩

theorem NR.stepProfiles {ps : Array Pool} {gs : Array GraphS} (h : NR ps gs) (pi : Nat) (pool : Pool) (dt : Int)
    (hp : ps[pi]? = some pool) : NR (ps.setIfInBounds pi (pool.stepProfiles dt)) gs := by
  have := (views_set_same ps pi pool (pool.stepProfiles dt) hp (Pool.view_stepProfiles pool dt)
    (Pool.placed_stepProfiles pool dt)).1
  unfold NR; rw [this]; exact h

theorem lr_doStep_state (x : TaskS) (now dt : Int) : (x.doStep now dt).1.state = x.state := by
  unfold TaskS.doStep
  split
  · rfl
  · split
    · rfl
    · split
      · rfl
      · simp only []; split <;> rfl

theorem NR.stepTask {ps : Array Pool} {gs : Array GraphS} (h : NR ps gs) (t : TaskId) (g : GraphS) (x : TaskS)
    (now dt : Int) (hg : gs[t.g]? = some g) (hx : g.task? t.t = some x) :
    NR ps (gs.setIfInBounds t.g (g.setTask t.t (x.call (.step now dt)).1)) := by
  obtain ⟨h1, h2⟩ := taskAt_setTask gs t g x (x.call (.step now dt)).1 hg hx
  have hT : taskAt gs t = some x := taskAt_of gs t g x hg hx
  constructor
  · intro pi i n hat
    obtain ⟨y, hy, hr⟩ := h.1 pi i n hat
    by_cases e : ungid n = t
    · rw [e] at hy ⊢
      rw [hT] at hy; cases hy
      refine ⟨_, h1, ?_⟩
      simp only [TaskS.call]
      rw [lr_doStep_state]; exact hr
    · exact ⟨y, by rw [h2 _ e]; exact hy, hr⟩
  · intro u y hy
    by_cases e : u = t
    · subst e; exact h.2 u x hT
    · rw [h2 u e] at hy; exact h.2 u y hy

/-- The task about to be placed (ready to run, hence not RUNNING) is resident nowhere. -/
theorem NR.not_resident {ps : Array Pool} {gs : Array GraphS} (h : NR ps gs) (t : TaskId) (g : GraphS) (x : TaskS)
    (hg : gs[t.g]? = some g) (hx : g.task? t.t = some x) (hr : g.isReadyToRun t.t = true)
    (pid : Nat) (pool : Pool) (hp : ps[pid]? = some pool) : ∀ w ∈ pool.workers, gid t ∉ AList.keys w.placed := by
  intro w hw hmem
  obtain ⟨i, hi⟩ := List.getElem?_of_mem hw
  have hT : taskAt gs t = some x := taskAt_of gs t g x hg hx
  have hat : At (views ps) pid i (gid t) :=
    ⟨pool.view, AList.keys w.placed, by rw [views_getElem?, hp]; rfl, by rw [Pool.view_getElem?, hi]; rfl, hmem⟩
  obtain ⟨y, hy, hrun⟩ := h.1 pid i (gid t) hat
  rw [ungid_gid t (h.2 t x hT), hT] at hy
  cases hy
  exact (ready_not_running g t.t x hr hx).1 hrun

/-! ### assertions -/

/-- The computation keeps `LI` when it returns and where it raises. -/
abbrev LK {α} (x : SimM α) : Prop :=
  ⦃fun s => ⌜LI s.pools⌝⦄ x ⦃post⟨fun _ s => ⌜LI s.pools⌝, fun _ s => ⌜LI s.pools⌝⟩⦄


macro "lk_close" : tactic => `(tactic| first
  | trivial
  | (intro h; exact h)
  | pf_close
  | (intro _ _ h; exact h)
  | (intro _ h; exact h))


theorem finishRemove_lk (t : TaskId) (time : Int) : LK (finishRemove t time) := by
  pf_prims LI
  pfgen [finishRemove, getPool, setPool, raiseOutcome]
  all_goals first
    | lk_close
    | exact LI.set ‹LI _› _ _ (Pool.lr_removeTask _ _ (LI.get ‹LI _› ‹_›))

theorem handleTaskFinished_lk (ev : SEvent) : LK (handleTaskFinished ev) := by
  have h1 := finishRemove_lk
  have h2 := finishRows_pf LI
  have h3 := finishNotify_pf LI
  rmvcgen [handleTaskFinished, h1, h2, h3]
  all_goals lk_close

theorem placementRow_lk (t : TaskId) (pid : Nat) (time : Int) (st : Strategy) : LK (placementRow t pid time st) := by
  pf_prims LI
  pfgen [placementRow, getPool, setPool]
  all_goals first
    | lk_close
    | exact LI.set ‹LI _› _ _ (Pool.lr_onWorker' _ _ _ (LI.get ‹LI _› ‹_›))

theorem handleProfile_lk (ev : SEvent) (load : Bool) : LK (handleProfile ev load) := by
  pf_prims LI
  pfgen [handleProfile, getPool, setPool, raiseOutcome]
  all_goals first
    | lk_close
    | exact LI.set ‹LI _› _ _ (Pool.lr_loadProfile _ _ _ _ (LI.get ‹LI _› ‹_›))
    | exact LI.set ‹LI _› _ _ (Pool.lr_evictProfile _ _ _ (LI.get ‹LI _› ‹_›))
    | skip

/-- The verification condition of TASK_PLACEMENT: the pool took (or refused) a task that is ready to run. -/
theorem lr_place_vc {s : SimS} {t : TaskId} {g g' : GraphS} {x : TaskS} {pid : Nat} {pool : Pool}
    {strats : List Strategy} {st : Option Strategy} {wid : Option Nat}
    (h : (LI s.pools ∧ NR s.pools s.graphs) ∧ s.graphs[t.g]? = some g) (hready : g.isReadyToRun t.t = true)
    (hg' : s.graphs[t.g]? = some g') (hx : g'.task? t.t = some x) (hp : s.pools[pid]? = some pool) :
    LI (s.pools.setIfInBounds pid (pool.placeTask (gid t) strats st wid).1) := by
  have hgg : g' = g := Option.some.inj (hg'.symm.trans h.2)
  subst hgg
  exact LI.set h.1.1 _ _ (Pool.lr_placeTask pool (gid t) strats st wid (LI.get h.1.1 hp)
    (h.1.2.not_resident t g' x hg' hx hready pid pool hp))

theorem placementPlace_lk (ev : SEvent) (t : TaskId) (p : PlacementS) (g : GraphS) (h : g.isReadyToRun t.t = true) :
    ⦃fun s => ⌜(LI s.pools ∧ NR s.pools s.graphs) ∧ s.graphs[t.g]? = some g⌝⦄ placementPlace ev t p g h
    ⦃post⟨fun _ s => ⌜LI s.pools⌝, fun _ s => ⌜LI s.pools⌝⟩⦄ := by
  have h_row := row_pf LI
  have h_logE := logE_pf LI
  have h_liftTape := fun {α : Type} (x : TapeM α) => liftTape_pf LI x
  have h_liftE := fun {α : Type} (e : Except SErr α) => liftE_pf LI e
  have h_startTask := startTask_pf LI
  have h_mkEvent := mkEvent_pf LI
  have h_addEvent := addEvent_pf LI
  have h_prow := placementRow_lk
  rmvcgen [placementPlace, getTask, getGraph, getPool, setPool, raisePlace, h_row, h_logE, h_liftTape, h_liftE,
    h_startTask, h_mkEvent, h_addEvent, h_prow]
  all_goals first
    | lk_close
    | exact lr_place_vc ‹_ ∧ _› h ‹_› ‹_› ‹_›
    | (rs_hyps h0 => exact h0.1.1)
    | skip

/-- The invariant together with "resident ⇒ RUNNING". -/
abbrev LNA : Assertion (.except SErr (.arg SimS .pure)) := fun s => ⌜LI s.pools ∧ NR s.pools s.graphs⌝

theorem handleTaskPlacement_lk (ev : SEvent) :
    ⦃LNA⦄ handleTaskPlacement ev ⦃post⟨fun _ s => ⌜LI s.pools⌝, fun _ s => ⌜LI s.pools⌝⟩⦄ := by
  have h_pp := placementPlace_lk ev
  have h_nr := placementNotReady_pf LI ev
  rmvcgen [handleTaskPlacement, getGraph, h_pp, h_nr]
  all_goals first
    | lk_close
    | (rs_hyps h => rs_hyps h2 => exact ⟨h, h2⟩)
    | (rs_hyps h => exact h.1)
    | skip

/-- `__handle_event`. -/
theorem handleEvent_lk (ev : SEvent) :
    ⦃LNA⦄ handleEvent ev ⦃post⟨fun _ s => ⌜LI s.pools⌝, fun _ s => ⌜LI s.pools⌝⟩⦄ := by
  have h_row := row_pf LI
  have h_cancel := handleTaskCancel_pf LI
  have h_prof := handleProfile_lk
  have h_fin := handleTaskFinished_lk
  have h_tgr := handleTaskGraphRelease_pf LI
  have h_rel := handleTaskRelease_pf LI
  have h_upd := handleUpdateWorkload_pf LI
  have h_place := handleTaskPlacement_lk
  have h_ss := handleSchedulerStart_pf LI
  have h_sf := handleSchedulerFinish_pf LI
  have h_util := logUtilization_pf LI
  rmvcgen [handleEvent, logE, h_row, h_cancel, h_prof, h_fin, h_tgr, h_rel, h_upd, h_place, h_ss, h_sf, h_util]
  all_goals first
    | lk_close
    | (rs_hyps h => exact h.1)
    | skip

abbrev loopLN {β} : PostCond β (.except SErr (.arg SimS .pure)) :=
  post⟨fun _ s => ⌜LI s.pools ∧ NR s.pools s.graphs⌝, fun _ s => ⌜LI s.pools⌝⟩

theorem LN.stepProfiles {s : SimS} (h : LI s.pools ∧ NR s.pools s.graphs) {pi : Nat} {pool : Pool} (dt : Int)
    (hp : s.pools[pi]? = some pool) :
    LI (s.pools.setIfInBounds pi (pool.stepProfiles dt)) ∧ NR (s.pools.setIfInBounds pi (pool.stepProfiles dt)) s.graphs :=
  ⟨LI.set h.1 _ _ (Pool.lr_stepProfiles pool dt (LI.get h.1 hp)), h.2.stepProfiles pi pool dt hp⟩

theorem LN.stepTask {s : SimS} (h : LI s.pools ∧ NR s.pools s.graphs) {t : TaskId} {g : GraphS} {x : TaskS} (now dt : Int)
    (hg : s.graphs[t.g]? = some g) (hx : g.task? t.t = some x) :
    LI s.pools ∧ NR s.pools (s.graphs.setIfInBounds t.g (g.setTask t.t (x.call (.step now dt)).1)) :=
  ⟨h.1, h.2.stepTask t g x now dt hg hx⟩


macro "ln_close" : tactic => `(tactic| first
  | trivial
  | (intro h; exact h)
  | assumption
  | exact ExceptConds.entails.refl _
  | (rs_hyps h => exact h)
  | (rs_hyps h => exact h.1)
  | (intro _ _ h; exact h)
  | (intro _ h; exact h))

theorem getTask_ln (t : TaskId) : ⦃LNA⦄ getTask t ⦃post⟨fun _ => LNA, fun _ s => ⌜LI s.pools⌝⟩⦄ := by
  rmvcgen [getTask, getGraph]
  all_goals ln_close
theorem getPool_ln (p : Nat) : ⦃LNA⦄ getPool p ⦃post⟨fun _ => LNA, fun _ s => ⌜LI s.pools⌝⟩⦄ := by
  rmvcgen [getPool]
  all_goals ln_close
theorem mkEvent_ln (a : Nat) (b : Int) (c : Option TaskId) (d : Option PlacementS) (e : Option Nat) :
    ⦃LNA⦄ mkEvent a b c d e ⦃post⟨fun _ => LNA, fun _ s => ⌜LI s.pools⌝⟩⦄ := by
  rmvcgen [mkEvent, uniqueName, getTask, getGraph]
  all_goals ln_close
theorem addEvent_ln (e : SEvent) : ⦃LNA⦄ addEvent e ⦃post⟨fun _ => LNA, fun _ s => ⌜LI s.pools⌝⟩⦄ := by
  rmvcgen [addEvent]
  all_goals ln_close
theorem advanceClock_ln (dt : Int) : ⦃LNA⦄ advanceClock dt ⦃post⟨fun _ => LNA, fun _ s => ⌜LI s.pools⌝⟩⦄ := by
  rmvcgen [advanceClock]
  all_goals ln_close
theorem popEvent_ln : ⦃LNA⦄ popEvent ⦃post⟨fun _ => LNA, fun _ s => ⌜LI s.pools⌝⟩⦄ := by
  rmvcgen [popEvent]
  all_goals ln_close
theorem stepCall_ln (t : TaskId) (now dt : Int) :
    ⦃LNA⦄ taskCall t (.step now dt) ⦃post⟨fun _ => LNA, fun _ s => ⌜LI s.pools⌝⟩⦄ := by
  rmvcgen [taskCall, getGraph, setGraph, raiseTask]
  all_goals first
    | ln_close
    | exact LN.stepTask ‹_ ∧ _› _ _ ‹_› ‹_›
    | skip

/-- `__step(dt)` keeps the invariant and "resident ⇒ RUNNING". -/
theorem step_lk (dt : Int) : ⦃LNA⦄ step dt ⦃post⟨fun _ => LNA, fun _ s => ⌜LI s.pools⌝⟩⦄ := by
  have h1 := getTask_ln
  have h3 := mkEvent_ln
  have h4 := addEvent_ln
  have h5 := advanceClock_ln
  have h6 := stepCall_ln
  rmvcgen [step, setPool, getPool, h1, h3, h4, h5, h6]
  all_goals first
    | exact loopLN
    | ln_close
    | (intro _; trivial)
    | exact LN.stepProfiles ‹_ ∧ _› _ ‹_›
    | skip

theorem liftE_ln {α} (e : Except SErr α) : ⦃LNA⦄ liftE e ⦃post⟨fun _ => LNA, fun _ s => ⌜LI s.pools⌝⟩⦄ := by
  unfold liftE; cases e <;> mvcgen
  all_goals ln_close

/-- One iteration of the `while True` loop of `simulate()`. -/
theorem iter_lk : ⦃LNA⦄ iter ⦃post⟨fun _ s => ⌜LI s.pools⌝, fun _ s => ⌜LI s.pools⌝⟩⦄ := by
  have h1 := getTask_ln
  have h2 := fun {α : Type} (e : Except SErr α) => liftE_ln e
  have h3 := step_lk
  have h4 := popEvent_ln
  have h5 := handleEvent_lk
  rmvcgen [iter]
  split
  · rmvcgen [placedTasks, h1, h2, h3, h4, h5]
    all_goals first
      | exact loopLN
      | ln_close
      | (intro _; trivial)
      | (rs_hyps h => exact h.1)
      | skip
  · mvcgen
    all_goals first
      | ln_close
      | skip

/-! ### combining with the residency invariant of `SimResident*` -/

/-- Conjunction of two specifications of the same computation (the second may use the first's
precondition). -/
theorem triple_both {α} (x : SimM α) (P1 R P2 : SimS → Prop) (Q1 Q2 : α → SimS → Prop) (W1 W2 : SimS → Prop)
    (h1 : ⦃fun s => ⌜P1 s⌝⦄ x ⦃post⟨fun a s => ⌜Q1 a s⌝, fun _ s => ⌜W1 s⌝⟩⦄)
    (h2 : ⦃fun s => ⌜P2 s⌝⦄ x ⦃post⟨fun a s => ⌜Q2 a s⌝, fun _ s => ⌜W2 s⌝⟩⦄)
    (hp : ∀ s, P1 s → R s → P2 s) :
    ⦃fun s => ⌜P1 s ∧ R s⌝⦄ x ⦃post⟨fun a s => ⌜Q1 a s ∧ Q2 a s⌝, fun _ s => ⌜W1 s ∧ W2 s⌝⟩⦄ := by
  intro s h
  have a := h1 s h.1
  have b := h2 s (hp s h.1 h.2)
  simp only [wp, PredTrans.apply_pushExcept, PredTrans.apply_pushArg, Id.run] at a b ⊢
  revert a b
  cases (StateT.run (ExceptT.run x) s) with
  | mk r s' => cases r <;> (intro a b; exact ⟨a, b⟩)

/-- The residency invariant and the ledger invariant together (state at a loop head). -/
abbrev Good (s : SimS) : Prop := AP RunOK [] s ∧ LI s.pools

/-- Consequence rule, with the specification chosen per initial state (ghost values). -/
theorem triple_conseq {α} (x : SimM α) (P : SimS → Prop) (Q : α → SimS → Prop) (W : SimS → Prop)
    (h : ∀ s0, P s0 → ∃ (P' : SimS → Prop) (Q' : α → SimS → Prop) (W' : SimS → Prop),
      ⦃fun s => ⌜P' s⌝⦄ x ⦃post⟨fun a s => ⌜Q' a s⌝, fun _ s => ⌜W' s⌝⟩⦄ ∧ P' s0 ∧ (∀ a s, Q' a s → Q a s) ∧
        (∀ s, W' s → W s)) :
    ⦃fun s => ⌜P s⌝⦄ x ⦃post⟨fun a s => ⌜Q a s⌝, fun _ s => ⌜W s⌝⟩⦄ := by
  intro s hs
  obtain ⟨P', Q', W', ht, hp, hq, hw⟩ := h s hs
  have a := ht s hp
  simp only [wp, PredTrans.apply_pushExcept, PredTrans.apply_pushArg, Id.run] at a ⊢
  revert a
  cases (StateT.run (ExceptT.run x) s) with
  | mk r s' =>
    cases r with
    | ok v => intro a; exact hq _ _ a
    | error e => intro a; exact hw _ a

/-- What holds in every state, also where a handler raised. -/
abbrev GoodW (s : SimS) : Prop := WInv s ∧ LI s.pools

theorem iter_both : ⦃fun s => ⌜Good s⌝⦄ iter ⦃post⟨fun _ s => ⌜Good s⌝, fun _ s => ⌜GoodW s⌝⟩⦄ :=
  triple_conseq iter _ _ _ (fun _ h0 => ⟨_, _, _,
    triple_both iter _ (fun s => LI s.pools) _ _ _ _ _ iter_rspec iter_lk (fun _ h1 h2 => ⟨h2, NR.of_AP h1⟩),
    h0, fun _ _ h => h, fun _ h => h⟩)

theorem init_both : ⦃fun s => ⌜Good s⌝⦄ init ⦃post⟨fun _ s => ⌜Good s⌝, fun _ s => ⌜GoodW s⌝⟩⦄ :=
  triple_conseq init _ _ _ (fun s0 h0 => ⟨_, _, _,
    triple_both init _ (fun s => LI s.pools) _ _ _ _ _ (init_rspec s0.now) (init_pf LI) (fun _ _ h2 => h2),
    ⟨⟨h0.1, rfl⟩, h0.2⟩, fun _ _ h => ⟨h.1.1, h.2⟩, fun _ h => h⟩)

theorem runK_both (k : Nat) : ⦃fun s => ⌜Good s⌝⦄ runK k ⦃post⟨fun _ s => ⌜Good s⌝, fun _ s => ⌜GoodW s⌝⟩⦄ := by
  induction k with
  | zero => rmvcgen [runK]
  | succ k ih => rmvcgen [runK, ih, iter_both]

theorem run_both (k : Nat) : ⦃fun s => ⌜Good s⌝⦄ run k ⦃post⟨fun _ s => ⌜Good s⌝, fun _ s => ⌜GoodW s⌝⟩⦄ := by
  induction k with
  | zero =>
    rmvcgen [run]
    rs_hyps h => exact ⟨AP.weak h.1, h.2⟩
  | succ k ih => rmvcgen [run, ih, iter_both]

theorem whole_both (fuel : Nat) :
    ⦃fun s => ⌜Good s⌝⦄ (do init; run fuel) ⦃post⟨fun _ s => ⌜Good s⌝, fun _ s => ⌜GoodW s⌝⟩⦄ := by
  have h_init := init_both
  have h_run := run_both fuel
  rmvcgen [h_init, h_run]

theorem wholeK_both (k : Nat) :
    ⦃fun s => ⌜Good s⌝⦄ (do init; runK k) ⦃post⟨fun _ s => ⌜Good s⌝, fun _ s => ⌜GoodW s⌝⟩⦄ := by
  have h_init := init_both
  have h_run := runK_both k
  rmvcgen [h_init, h_run]

/-- **The ledger / residency invariant holds when a simulation ends normally** (together with the
residency invariant), for every world, decision tape, draw tape and fuel. -/
theorem simulate_ledger (s0 : SimS) (fuel : Nat) (h : Good s0) (hok : (simulate s0 fuel).1 = none) :
    Good (simulate s0 fuel).2 := by
  have := triple_run _ _ _ _ (whole_both fuel) s0 h
  unfold simulate at hok ⊢
  revert this hok
  cases (StateT.run (ExceptT.run (do init; run fuel)) s0) with
  | mk r s =>
    cases r with
    | ok a => intro _ h; exact h
    | error e => intro hok _; simp at hok

/-- **The ledger invariant (and the weak residency invariant) hold in the state a simulation is in
after the constructor and any number of loop iterations, however it ends — normally, out of fuel,
or aborted by an exception at any point of any handler.** -/
theorem simulate_ledger_weak (s0 : SimS) (fuel : Nat) (h : Good s0) : GoodW (simulate s0 fuel).2 := by
  have := triple_run _ _ _ _ (whole_both fuel) s0 h
  unfold simulate
  revert this
  cases (StateT.run (ExceptT.run (do init; run fuel)) s0) with
  | mk r s =>
    cases r with
    | ok a => intro h; exact ⟨AP.weak h.1, h.2⟩
    | error e => intro h; exact h

/-- **… and at the head of the `simulate()` loop after any number `k` of completed iterations.** -/
theorem loop_head_ledger (s0 : SimS) (k : Nat) (h : Good s0) :
    HoldsAfter (fun _ s => Good s) GoodW ((ExceptT.run (do init; runK k : SimM Bool)).run s0) :=
  triple_run (do init; runK k : SimM Bool) _ _ _ (wholeK_both k) s0 h

/-! ### initial states -/

/-- A worker as the driver / the loaders build it: full capacity, duplicate-free resource keys,
empty ledger, nothing placed, no batch placeholder. -/
def workerFresh (w : Worker) : Bool :=
  w.res.allocs.isEmpty && decide (w.res.avail = w.res.total) && decide ((AList.keys w.res.total).Nodup) &&
  w.placed.isEmpty && w.batchTask.isEmpty && w.batches.isEmpty

/-- **Well-formed initial state for the ledger theorems** (decidable): `wf0` and every worker fresh. -/
def lwf0 (s : SimS) : Bool := wf0 s && s.pools.all (fun p => p.workers.all workerFresh)

theorem lok_of_fresh (w : Worker) (h : workerFresh w = true) : w.LOK := by
  simp only [workerFresh, Bool.and_eq_true, List.isEmpty_iff, decide_eq_true_eq] at h
  obtain ⟨⟨⟨⟨⟨ha, hav⟩, hnd⟩, hp⟩, hbt⟩, hb⟩ := h
  refine ⟨⟨⟨by rw [hav], hnd, ?_, ?_⟩, ?_, ?_, ?_, ?_, ?_, ?_⟩, ⟨?_, ?_, ?_, ?_, ?_, ?_, ?_, ?_⟩⟩
  · intro x; rw [ha, hav]; simp
  · intro c l hm; rw [ha] at hm; cases hm
  · rw [ha]; exact List.nodup_nil
  · rw [hp]; exact List.nodup_nil
  · intro t s hs; rw [hp] at hs; simp [AList.get?] at hs
  · intro t l hl; rw [ha] at hl; simp [AList.get?] at hl
  · intro sid c hc; rw [hbt] at hc; cases hc
  · intro p l hl; rw [ha] at hl; simp [AList.get?] at hl
  · rw [hb]; exact List.nodup_nil
  · rw [hbt]; exact List.nodup_nil
  · intro t s hs; rw [hp] at hs; simp [AList.get?] at hs
  · intro sid ms hms; rw [hb] at hms; simp [AList.get?] at hms
  · intro sid ms hms; rw [hb] at hms; simp [AList.get?] at hms
  · intro g l hl; rw [ha] at hl; simp [AList.get?] at hl
  · intro sid sid' c h1; rw [hbt] at h1; simp [AList.get?] at h1
  · intro sid g h1; rw [hbt] at h1; simp [AList.get?] at h1

/-- **A well-formed initial state satisfies both invariants.** -/
theorem good_initial (s : SimS) (h : lwf0 s = true) : Good s := by
  simp only [lwf0, Bool.and_eq_true] at h
  refine ⟨ap_initial s h.1, ?_⟩
  intro p hp w hw
  have h2 := h.2
  rw [Array.all_eq_true] at h2
  obtain ⟨i, hi, rfl⟩ := Array.getElem_of_mem (Array.mem_toList_iff.mp hp)
  have h3 := h2 i hi
  rw [List.all_eq_true] at h3
  exact lok_of_fresh w (h3 w hw)

end ErdosVerif.Model.Sim
