/-
Helper lemmas for C19: half-even rounding, prefix sums, arange length,
closed-loop invariant, fuzz bounds.
-/
import ErdosVerif.Model.Release
import Mathlib.Tactic.Linarith
import Mathlib.Tactic.Ring

namespace ErdosVerif.Release

/-! ## roundHalfEven -/

theorem ediv_emod_decomp (a : Int) (d : Int) : a = d * (a / d) + a % d := by
  have := Int.emod_add_mul_ediv a d
  omega

/-- `q ≤ round ≤ q + 1`. -/
theorem rhe_bounds (a : Int) (d : Nat) :
    a / (d : Int) ≤ roundHalfEven a d ∧ roundHalfEven a d ≤ a / (d : Int) + 1 := by
  unfold roundHalfEven
  simp only []
  split
  · omega
  · split
    · omega
    · split <;> omega

/-- An exact multiple rounds to itself. -/
theorem rhe_exact (k : Int) (d : Nat) (hd : 0 < d) : roundHalfEven (k * (d : Int)) d = k := by
  have hd' : (d : Int) ≠ 0 := by omega
  unfold roundHalfEven
  simp only [Int.mul_ediv_cancel _ hd', Int.mul_emod_left, Int.mul_zero]
  rw [if_pos (by omega)]

/-- Anything at or above `k` rounds to at least `k`. -/
theorem rhe_ge_of_mul_le (k a : Int) (d : Nat) (hd : 0 < d) (h : k * (d : Int) ≤ a) :
    k ≤ roundHalfEven a d := by
  have hd' : (0 : Int) < d := by omega
  have h1 : k ≤ a / (d : Int) := (Int.le_ediv_iff_mul_le hd').2 h
  have := (rhe_bounds a d).1
  omega

/-- Anything at or below `k` rounds to at most `k`. -/
theorem rhe_le_of_le_mul (k a : Int) (d : Nat) (hd : 0 < d) (h : a ≤ k * (d : Int)) :
    roundHalfEven a d ≤ k := by
  have hd' : (0 : Int) < d := by omega
  rcases Int.lt_or_eq_of_le h with hlt | heq
  · have h1 : a / (d : Int) < k := Int.ediv_lt_of_lt_mul hd' hlt
    have := (rhe_bounds a d).2
    omega
  · rw [heq, rhe_exact k d hd]

/-- Rounding is monotone. -/
theorem rhe_mono (a b : Int) (d : Nat) (hd : 0 < d) (h : a ≤ b) :
    roundHalfEven a d ≤ roundHalfEven b d := by
  have hd' : (0 : Int) < d := by omega
  have hq : a / (d : Int) ≤ b / (d : Int) := Int.ediv_le_ediv hd' h
  rcases Int.lt_or_eq_of_le hq with hlt | heq
  · have := (rhe_bounds a d).2
    have := (rhe_bounds b d).1
    omega
  · have ha := ediv_emod_decomp a d
    have hb := ediv_emod_decomp b d
    have hr : a % (d : Int) ≤ b % (d : Int) := by
      rw [heq] at ha
      omega
    unfold roundHalfEven
    simp only []
    rw [heq]
    repeat' split
    all_goals omega

/-! ## fixed / periodic -/

theorem fixed_length (n : Nat) (p s : Int) : (fixedReleases n p s).length = n := by
  simp [fixedReleases]

theorem fixed_getElem (n : Nat) (p s : Int) (i : Nat) (h : i < n) :
    (fixedReleases n p s)[i]? = some (s + (i : Int) * p) := by
  simp [fixedReleases, h]

theorem mem_fixed (n : Nat) (p s x : Int) :
    x ∈ fixedReleases n p s ↔ ∃ i : Nat, i < n ∧ x = s + (i : Int) * p := by
  simp only [fixedReleases, List.mem_map, List.mem_range, Int.ofNat_eq_natCast]
  constructor
  · rintro ⟨i, hi, rfl⟩
    exact ⟨i, hi, rfl⟩
  · rintro ⟨i, hi, rfl⟩
    exact ⟨i, hi, rfl⟩

/-- For a positive step, index `i` is below the arange length iff `s + i*p < h`. -/
theorem lt_arangeLen (s h p : Int) (hp : 0 < p) (i : Nat) :
    i < arangeLen s h p ↔ s + (i : Int) * p < h := by
  unfold arangeLen
  rw [Int.fdiv_eq_ediv_of_nonneg _ (Int.le_of_lt hp), Int.lt_toNat]
  constructor
  · intro hi
    have h1 : (s - h) / p < -(i : Int) := by omega
    have := (Int.ediv_lt_iff_lt_mul hp).1 h1
    have e : -(i : Int) * p = -((i : Int) * p) := Int.neg_mul _ _
    omega
  · intro hi
    have e : -(i : Int) * p = -((i : Int) * p) := Int.neg_mul _ _
    have h1 : (s - h) / p < -(i : Int) := (Int.ediv_lt_iff_lt_mul hp).2 (by omega)
    omega

/-! ## prefix sums -/

theorem prefixSums_length (s : Int) (ds : List Int) : (prefixSums s ds).length = ds.length + 1 := by
  induction ds generalizing s with
  | nil => rfl
  | cons d ds ih => simp [prefixSums, ih]

theorem prefixSums_head (s : Int) (ds : List Int) : (prefixSums s ds).head? = some s := by
  cases ds <;> rfl

theorem prefixSums_ge (s : Int) (ds : List Int) (hd : ∀ d ∈ ds, 0 ≤ d) :
    ∀ x ∈ prefixSums s ds, s ≤ x := by
  induction ds generalizing s with
  | nil => intro x hx; simp [prefixSums] at hx; omega
  | cons d ds ih =>
    intro x hx
    simp only [prefixSums, List.mem_cons] at hx
    rcases hx with rfl | hx
    · exact Int.le_refl _
    · have h0 : 0 ≤ d := hd d (by simp)
      have := ih (s + d) (fun e he => hd e (by simp [he])) x hx
      omega

theorem prefixSums_sorted (s : Int) (ds : List Int) (hd : ∀ d ∈ ds, 0 ≤ d) :
    (prefixSums s ds).Pairwise (· ≤ ·) := by
  induction ds generalizing s with
  | nil => simp [prefixSums]
  | cons d ds ih =>
    simp only [prefixSums, List.pairwise_cons]
    refine ⟨?_, ih (s + d) (fun e he => hd e (by simp [he]))⟩
    intro x hx
    have h0 : 0 ≤ d := hd d (by simp)
    have := prefixSums_ge (s + d) ds (fun e he => hd e (by simp [he])) x hx
    omega

/-! ## closed loop -/

/-- Invariant of the closed-loop counters for concurrency `c`, total `n`. -/
structure LoopInv (c n : Int) (s : LoopState) : Prop where
  inflight_le : (s.inflight.length : Int) ≤ c
  total : (s.released.length : Int) + s.remaining = n
  rem_nonneg : 0 ≤ s.remaining
  full : 0 < s.remaining → (s.inflight.length : Int) = c

theorem loopInit_inv (c n st : Int) (hc : 0 < c) (hn : 0 < n) : LoopInv c n (loopInit c n st) := by
  unfold loopInit closedLoopInitial
  by_cases h : n ≥ c
  · simp only [h, if_true]
    have : ((c.toNat : Nat) : Int) = c := Int.toNat_of_nonneg (by omega)
    constructor <;> simp <;> omega
  · simp only [h, if_false]
    have : ((n.toNat : Nat) : Int) = n := Int.toNat_of_nonneg (by omega)
    constructor <;> simp <;> omega

theorem loopNext_inv (c n : Int) (s : LoopState) (t : Int)
    (htot : (s.released.length : Int) + s.remaining = n) (hrem : 0 ≤ s.remaining)
    (hfull : 0 < s.remaining → (s.inflight.length : Int) + 1 = c)
    (hle' : (s.inflight.length : Int) ≤ c) :
    LoopInv c n (loopNext s t).1 := by
  unfold loopNext
  by_cases h : s.remaining > 0
  · simp only [h, if_true]
    constructor <;> simp <;> omega
  · simp only [h, if_false]
    exact ⟨hle', htot, hrem, fun h' => by omega⟩

theorem loopComplete_inv (c n : Int) (s : LoopState) (g f : Int) (hc : 0 < c) (h : LoopInv c n s) :
    LoopInv c n (loopComplete s g f).1 := by
  unfold loopComplete
  by_cases hm : g ∈ s.inflight
  · simp only [hm, if_true]
    have hlen : (s.inflight.erase g).length = s.inflight.length - 1 := List.length_erase_of_mem hm
    have hpos : 0 < s.inflight.length := List.length_pos_of_mem hm
    have hi := h.inflight_le
    have hf := h.full
    apply loopNext_inv
    · exact h.total
    · exact h.rem_nonneg
    · intro hr; simp only [hlen]; have := hf hr; omega
    · simp only [hlen]; omega
  · simp only [hm, if_false]
    exact h

theorem loopRun_inv (c n : Int) (hc : 0 < c) (hist : List (Int × Int)) :
    ∀ s, LoopInv c n s → LoopInv c n (loopRun s hist) := by
  induction hist with
  | nil => intro s h; exact h
  | cons e hist ih =>
    intro s h
    obtain ⟨g, f⟩ := e
    exact ih _ (loopComplete_inv c n s g f hc h)

/-! ## fuzz -/

theorem fuzzDen_pos : 0 < fuzzDen := by decide

theorem clampNum_mul (minB maxB k : Int) :
    fuzzClampNum minB maxB (k * (fuzzDen : Int)) = max minB (min maxB k) * (fuzzDen : Int) := by
  unfold fuzzClampNum
  have hD : (0 : Int) < (fuzzDen : Int) := by have := fuzzDen_pos; omega
  rcases Int.le_total maxB k with h1 | h1
  · have e1 : min (maxB * (fuzzDen : Int)) (k * (fuzzDen : Int)) = maxB * (fuzzDen : Int) :=
      Int.min_eq_left (Int.mul_le_mul_of_nonneg_right h1 (Int.le_of_lt hD))
    have e2 : min maxB k = maxB := Int.min_eq_left h1
    rw [e1, e2]
    rcases Int.le_total minB maxB with h2 | h2
    · rw [Int.max_eq_right (Int.mul_le_mul_of_nonneg_right h2 (Int.le_of_lt hD)), Int.max_eq_right h2]
    · rw [Int.max_eq_left (Int.mul_le_mul_of_nonneg_right h2 (Int.le_of_lt hD)), Int.max_eq_left h2]
  · have e1 : min (maxB * (fuzzDen : Int)) (k * (fuzzDen : Int)) = k * (fuzzDen : Int) :=
      Int.min_eq_right (Int.mul_le_mul_of_nonneg_right h1 (Int.le_of_lt hD))
    have e2 : min maxB k = k := Int.min_eq_right h1
    rw [e1, e2]
    rcases Int.le_total minB k with h2 | h2
    · rw [Int.max_eq_right (Int.mul_le_mul_of_nonneg_right h2 (Int.le_of_lt hD)), Int.max_eq_right h2]
    · rw [Int.max_eq_left (Int.mul_le_mul_of_nonneg_right h2 (Int.le_of_lt hD)), Int.max_eq_left h2]

theorem clampNum_mono (minB maxB u v : Int) (h : u ≤ v) :
    fuzzClampNum minB maxB u ≤ fuzzClampNum minB maxB v := by
  unfold fuzzClampNum
  omega

/-- The uniform draw lies between `T*lo/100` and `T*hi/100` (as numerators). -/
theorem uniformNum_bounds (T a b rn : Int) (hT : 0 ≤ T) (h0 : 0 ≤ rn) (h1 : rn ≤ (twoP53 : Int)) :
    T * (min a.natAbs b.natAbs : Nat) * (twoP53 : Int) ≤ fuzzUniformNum T a b rn ∧
    fuzzUniformNum T a b rn ≤ T * (max a.natAbs b.natAbs : Nat) * (twoP53 : Int) := by
  unfold fuzzUniformNum
  generalize (twoP53 : Int) = P at *
  generalize ha : (a.natAbs : Int) = A
  generalize hb : (b.natAbs : Int) = B
  have hA : 0 ≤ A := by omega
  have hB : 0 ≤ B := by omega
  have hmin : ((min a.natAbs b.natAbs : Nat) : Int) = min A B := by omega
  have hmax : ((max a.natAbs b.natAbs : Nat) : Int) = max A B := by omega
  rw [hmin, hmax]
  have key : T * A * P + (T * B - T * A) * rn = T * (A * (P - rn) + B * rn) := by ring
  rw [key]
  have hPr : 0 ≤ P - rn := by omega
  rcases Int.le_total A B with hab | hab
  · rw [Int.min_eq_left hab, Int.max_eq_right hab]
    constructor
    · have : A * P ≤ A * (P - rn) + B * rn := by nlinarith
      nlinarith
    · have : A * (P - rn) + B * rn ≤ B * P := by nlinarith
      nlinarith
  · rw [Int.min_eq_right hab, Int.max_eq_left hab]
    constructor
    · have : B * P ≤ A * (P - rn) + B * rn := by nlinarith
      nlinarith
    · have : A * (P - rn) + B * rn ≤ A * P := by nlinarith
      nlinarith

end ErdosVerif.Release
