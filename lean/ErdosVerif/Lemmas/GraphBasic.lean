/-
Specification vocabulary for the graph model M3 (`Model/Graph.lean`) and the
basic dictionary / fold lemmas every C17 proof uses.

Definitions here are *specification-side*: edges, reachability, cycles, paths,
well-formedness of a graph state.  Nothing here is executable-model code.
-/
import ErdosVerif.Model.Graph

namespace ErdosVerif.Model

/-! ### Dictionary lemmas -/
namespace Dict
variable {β : Type}

theorem lookup_set_self (d : Dict β) (k : Nat) (v : β) :
    List.lookup k (Dict.set d k v) = some v := by
  induction d with
  | nil => simp [Dict.set]
  | cons p r ih =>
    obtain ⟨k', v'⟩ := p
    by_cases h : k' = k
    · simp [Dict.set, h]
    · have h' : (k == k') = false := by simp; exact fun e => h e.symm
      simp [Dict.set, h, List.lookup, h', ih]

theorem lookup_set_ne (d : Dict β) {k k' : Nat} (v : β) (h : k' ≠ k) :
    List.lookup k' (Dict.set d k v) = List.lookup k' d := by
  induction d with
  | nil =>
    have : (k' == k) = false := by simp [h]
    simp [Dict.set, List.lookup, this]
  | cons p r ih =>
    obtain ⟨k₀, v₀⟩ := p
    by_cases h0 : k₀ = k
    · subst h0
      have : (k' == k₀) = false := by simp [h]
      simp [Dict.set, List.lookup, this]
    · by_cases h1 : k' = k₀
      · subst h1
        simp [Dict.set, h0, List.lookup]
      · have : (k' == k₀) = false := by simp [h1]
        simp [Dict.set, h0, List.lookup, this, ih]

theorem lookup_set (d : Dict β) (k k' : Nat) (v : β) :
    List.lookup k' (Dict.set d k v) = if k' = k then some v else List.lookup k' d := by
  by_cases h : k' = k
  · subst h; simp [lookup_set_self]
  · simp [h, lookup_set_ne d v h]

/-- Keys after `d[k] = v`: unchanged if `k` was a key, else `k` is appended. -/
theorem keys_set (d : Dict β) (k : Nat) (v : β) :
    (Dict.set d k v).map Prod.fst =
      if (List.lookup k d).isSome then d.map Prod.fst else d.map Prod.fst ++ [k] := by
  induction d with
  | nil => simp [Dict.set, List.lookup]
  | cons p r ih =>
    obtain ⟨k₀, v₀⟩ := p
    by_cases h0 : k₀ = k
    · subst h0
      simp [Dict.set, List.lookup]
    · have : (k == k₀) = false := by simp; exact fun e => h0 e.symm
      simp only [Dict.set, h0, if_false, List.map_cons, List.lookup, this, ih]
      split <;> simp

theorem lookup_isSome_iff_mem_keys (d : Dict β) (k : Nat) :
    (List.lookup k d).isSome = true ↔ k ∈ d.map Prod.fst := by
  induction d with
  | nil => simp [List.lookup]
  | cons p r ih =>
    obtain ⟨k₀, v₀⟩ := p
    by_cases h : k = k₀
    · subst h; simp [List.lookup]
    · have : (k == k₀) = false := by simp [h]
      simp [List.lookup, this, ih, h]

theorem lookup_eq_none_iff (d : Dict β) (k : Nat) :
    List.lookup k d = none ↔ k ∉ d.map Prod.fst := by
  rw [← lookup_isSome_iff_mem_keys]
  cases List.lookup k d <;> simp

theorem mem_of_lookup_eq_some {d : Dict β} {k : Nat} {v : β} (h : List.lookup k d = some v) :
    (k, v) ∈ d := by
  induction d with
  | nil => simp [List.lookup] at h
  | cons p r ih =>
    obtain ⟨k₀, v₀⟩ := p
    by_cases hk : k = k₀
    · subst hk
      simp [List.lookup] at h
      simp [h]
    · have : (k == k₀) = false := by simp [hk]
      simp [List.lookup, this] at h
      exact List.mem_cons_of_mem _ (ih h)

/-- With distinct keys, membership of a pair is the same as `lookup`. -/
theorem lookup_eq_some_of_mem {d : Dict β} (hd : (d.map Prod.fst).Nodup) {k : Nat} {v : β}
    (h : (k, v) ∈ d) : List.lookup k d = some v := by
  induction d with
  | nil => simp at h
  | cons p r ih =>
    obtain ⟨k₀, v₀⟩ := p
    simp only [List.map_cons, List.nodup_cons] at hd
    rcases List.mem_cons.mp h with h | h
    · cases h; simp [List.lookup]
    · have hk : k ∈ r.map Prod.fst := List.mem_map.mpr ⟨(k, v), h, rfl⟩
      have hne : k ≠ k₀ := fun e => hd.1 (e ▸ hk)
      have : (k == k₀) = false := by simp [hne]
      simp [List.lookup, this, ih hd.2 h]

end Dict

/-! ### `foldE` -/

theorem foldE_nil {α σ : Type} (f : α → σ → Except String σ) (s : σ) : foldE f [] s = .ok s := rfl

theorem foldE_cons {α σ : Type} (f : α → σ → Except String σ) (a : α) (as : List α) (s : σ) :
    foldE f (a :: as) s = match f a s with
      | .error e => .error e
      | .ok s' => foldE f as s' := rfl

theorem foldE_append {α σ : Type} (f : α → σ → Except String σ) (l₁ l₂ : List α) (s : σ) :
    foldE f (l₁ ++ l₂) s = match foldE f l₁ s with
      | .error e => .error e
      | .ok s' => foldE f l₂ s' := by
  induction l₁ generalizing s with
  | nil => rfl
  | cons a as ih =>
    simp only [List.cons_append, foldE_cons]
    cases f a s with
    | error e => rfl
    | ok s' => exact ih s'

namespace Graph

/-! ### Edges, reachability, cycles, paths -/

/-- `u → v`: `v` occurs in the child list of the node `u`. -/
def Edge (g : Graph) (u v : Nat) : Prop := v ∈ g.childrenOf u

instance (g : Graph) (u v : Nat) : Decidable (g.Edge u v) := by unfold Edge; infer_instance

/-- Reflexive–transitive closure of `Edge`. -/
inductive Reach (g : Graph) : Nat → Nat → Prop
  | refl (u : Nat) : Reach g u u
  | head {u v w : Nat} : g.Edge u v → Reach g v w → Reach g u w

/-- Some node lies on a directed cycle. -/
def HasCycle (g : Graph) : Prop := ∃ u v, g.Edge u v ∧ g.Reach v u

/-- No directed cycle. -/
def Acyclic (g : Graph) : Prop := ¬ g.HasCycle

/-- Consecutive elements are edges. -/
def IsPath (g : Graph) : List Nat → Prop
  | [] => True
  | [_] => True
  | u :: v :: r => g.Edge u v ∧ IsPath g (v :: r)

/-- A path of nodes that starts at a node without parents and ends at a node
without children. -/
def IsSourceSinkPath (g : Graph) (p : List Nat) : Prop :=
  g.IsPath p ∧ ∃ s t, p.head? = some s ∧ p.getLast? = some t ∧
    g.hasNode s = true ∧ g.parentsOf s = [] ∧ g.childrenOf t = []

/-- `u` comes strictly before `v` in `l` (positions of first occurrences). -/
def Before (l : List Nat) (u v : Nat) : Prop := l.idxOf u < l.idxOf v

/-- Reachable-state invariant of `Graph` (holds for every graph built with
`add_node` / `add_child` / `Graph(nodes=…)` / `remove`, see `GraphWF.lean` and
`GraphRemove.lean`). -/
structure WF (g : Graph) : Prop where
  /-- `_graph` is a dict: keys are distinct. -/
  nodupKeys : (g.children.map Prod.fst).Nodup
  /-- every child is itself a key of `_graph`. -/
  closed : ∀ u v, g.Edge u v → g.hasNode v = true
  /-- `_parent_graph[v]` lists `u` once per occurrence of `v` in `_graph[u]`. -/
  parentsCount : ∀ u v, (g.parentsOf v).count u = (g.childrenOf u).count v

/-- No parallel edges. -/
def Simple (g : Graph) : Prop := ∀ u, (g.childrenOf u).Nodup

theorem hasNode_iff_mem_getNodes (g : Graph) (n : Nat) : g.hasNode n = true ↔ n ∈ g.getNodes :=
  Dict.lookup_isSome_iff_mem_keys g.children n

theorem Edge.left_hasNode {g : Graph} {u v : Nat} (h : g.Edge u v) : g.hasNode u = true := by
  unfold Edge childrenOf at h
  unfold Graph.hasNode
  cases hl : List.lookup u g.children with
  | none => simp [hl] at h
  | some cs => rfl

theorem edge_iff_lookup {g : Graph} {u v : Nat} :
    g.Edge u v ↔ ∃ cs, List.lookup u g.children = some cs ∧ v ∈ cs := by
  unfold Edge childrenOf
  cases hl : List.lookup u g.children with
  | none => simp
  | some cs => simp

theorem childrenOf_of_lookup {g : Graph} {u : Nat} {cs : List Nat}
    (h : List.lookup u g.children = some cs) : g.childrenOf u = cs := by
  simp [childrenOf, h]

theorem Reach.single {g : Graph} {u v : Nat} (h : g.Edge u v) : g.Reach u v :=
  .head h (.refl v)

theorem Reach.trans {g : Graph} {u v w : Nat} (h₁ : g.Reach u v) (h₂ : g.Reach v w) : g.Reach u w := by
  induction h₁ with
  | refl => exact h₂
  | head e _ ih => exact .head e (ih h₂)

theorem Reach.tail {g : Graph} {u v w : Nat} (h₁ : g.Reach u v) (e : g.Edge v w) : g.Reach u w :=
  h₁.trans (.single e)

/-- In a well-formed graph the parent lists are exactly the predecessor lists. -/
theorem WF.mem_parentsOf {g : Graph} (wf : g.WF) {u v : Nat} : u ∈ g.parentsOf v ↔ g.Edge u v := by
  unfold Edge
  rw [← List.count_pos_iff, ← List.count_pos_iff, wf.parentsCount]

theorem WF.reach_hasNode {g : Graph} (wf : g.WF) {u v : Nat} (h : g.Reach u v)
    (hu : g.hasNode u = true) : g.hasNode v = true := by
  induction h with
  | refl => exact hu
  | head e _ ih => exact ih (wf.closed _ _ e)

end Graph
end ErdosVerif.Model
