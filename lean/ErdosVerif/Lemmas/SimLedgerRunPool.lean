import ErdosVerif.Lemmas.SimLedgerRunBatch
/-!
The worker invariant `Worker.LOK` lifted to pools (`Pool.LOK`) and to the pool array of a
simulator state (`LI`); preservation by the pool operations the simulator issues. Core Lean only.
-/
namespace ErdosVerif.Model

/-! ### pools -/

/-- Every worker of the pool satisfies the ledger / residency invariant. -/
def Pool.LOK (p : Pool) : Prop := ∀ w ∈ p.workers, w.LOK

namespace Pool

theorem lr_setWorker (p : Pool) (i : Nat) (w : Worker) (h : p.LOK) (hw : w.LOK) : (p.setWorker i w).LOK := by
  intro x hx
  rcases List.mem_or_eq_of_mem_set hx with hx | hx
  · exact h x hx
  · subst hx; exact hw

theorem lr_getElem (p : Pool) (i : Nat) (w : Worker) (h : p.LOK) (hw : p.workers[i]? = some w) : w.LOK :=
  h w (List.mem_of_getElem? hw)

/-- **`WorkerPool.place_task` of a task that is resident on no worker of the pool keeps the invariant**
(whatever it answers, also when it raises). -/
theorem lr_placeTask (p : Pool) (t : Nat) (strats : List Strategy) (s? : Option Strategy) (wid? : Option Nat)
    (h : p.LOK) (hnone : ∀ x ∈ p.workers, t ∉ AList.keys x.placed) : (p.placeTask t strats s? wid?).1.LOK := by
  unfold placeTask
  simp only []
  split
  · exact h
  · exact h
  · exact h
  · rename_i i s _
    cases hw : p.workers[i]? with
    | none => exact h
    | some w =>
      simp only []
      have hk := Worker.lka_placeTask w t s (lr_getElem p i w h hw) (hnone w (List.mem_of_getElem? hw))
      cases hp : w.placeTask t s with
      | mk w' o =>
        rw [hp] at hk
        cases o with
        | raised e => exact lr_setWorker p i w' h hk
        | ok => exact lr_setWorker p i w' h hk

/-- **`WorkerPool.remove_task` keeps the invariant** (also when it raises). -/
theorem lr_removeTask (p : Pool) (t : Nat) (h : p.LOK) : (p.removeTask t).1.LOK := by
  unfold removeTask
  split
  · exact h
  · rename_i i hi
    cases hw : p.workers[i]? with
    | none => exact h
    | some w =>
      simp only []
      have hk := Worker.lka_removeTask w t (lr_getElem p i w h hw)
      cases hp : w.removeTask t with
      | mk w' o =>
        rw [hp] at hk
        cases o with
        | raised e => exact lr_setWorker p i w' h hk
        | ok => exact lr_setWorker p i w' h hk

theorem lr_loadProfile_go (prof : Nat) (s : Strategy) :
    ∀ (n i : Nat) (p : Pool), p.LOK → (loadProfile.go p prof s n i).1.LOK := by
  intro n
  induction n with
  | zero => intro i p h; exact h
  | succ n ih =>
    intro i p h
    simp only [loadProfile.go]
    cases hw : p.workers[i]? with
    | none => exact h
    | some w =>
      simp only []
      have hk := Worker.lka_loadProfile w prof s (lr_getElem p i w h hw)
      cases hl : w.loadProfile prof s with
      | mk w' o =>
        rw [hl] at hk
        cases o with
        | ok => simp only []; exact ih (i + 1) _ (lr_setWorker p i w' h hk)
        | raised e => exact lr_setWorker p i w' h hk

/-- **`WorkerPool.load_profile` keeps the invariant** (also when it raises half-way). -/
theorem lr_loadProfile (p : Pool) (prof : Nat) (s : Strategy) (wid? : Option Nat) (h : p.LOK) :
    (p.loadProfile prof s wid?).1.LOK := by
  unfold loadProfile
  cases wid? with
  | some i =>
    simp only []
    cases hw : p.workers[i]? with
    | none => exact h
    | some w =>
      simp only []
      have hk := Worker.lka_loadProfile w prof s (lr_getElem p i w h hw)
      cases hl : w.loadProfile prof s with
      | mk w' o =>
        rw [hl] at hk
        exact lr_setWorker p i w' h hk
  | none => exact lr_loadProfile_go prof s _ _ p h

theorem lr_evictProfile_go (prof : Nat) :
    ∀ (n i : Nat) (p : Pool), p.LOK → (evictProfile.go p prof n i).1.LOK := by
  intro n
  induction n with
  | zero => intro i p h; exact h
  | succ n ih =>
    intro i p h
    simp only [evictProfile.go]
    cases hw : p.workers[i]? with
    | none => exact h
    | some w =>
      simp only []
      have hk := Worker.lka_evictProfile w prof (lr_getElem p i w h hw)
      cases hl : w.evictProfile prof with
      | mk w' o =>
        rw [hl] at hk
        cases o with
        | ok => simp only []; exact ih (i + 1) _ (lr_setWorker p i w' h hk)
        | raised e => exact lr_setWorker p i w' h hk

/-- **`WorkerPool.evict_profile` keeps the invariant** (also when it raises half-way). -/
theorem lr_evictProfile (p : Pool) (prof : Nat) (wid? : Option Nat) (h : p.LOK) :
    (p.evictProfile prof wid?).1.LOK := by
  unfold evictProfile
  cases wid? with
  | some i =>
    simp only []
    cases hw : p.workers[i]? with
    | none => exact h
    | some w =>
      simp only []
      have hk := Worker.lka_evictProfile w prof (lr_getElem p i w h hw)
      cases hl : w.evictProfile prof with
      | mk w' o =>
        rw [hl] at hk
        exact lr_setWorker p i w' h hk
  | none => exact lr_evictProfile_go prof _ _ p h

theorem lr_stepProfiles (p : Pool) (dt : Int) (h : p.LOK) : (p.stepProfiles dt).LOK := by
  intro w hw
  simp only [stepProfiles, List.mem_map] at hw
  obtain ⟨w0, hw0, rfl⟩ := hw
  exact Worker.lk_stepProfiles w0 dt (h w0 hw0)

theorem lr_onWorker' (p : Pool) (wi t : Nat) (h : p.LOK) : (p.onWorker' wi t).1.LOK := by
  unfold onWorker'
  split
  · exact h
  · rename_i w hw
    exact lr_setWorker p wi _ h (Worker.lk_getAllocated w t (lr_getElem p wi w h hw))

end Pool

/-- The invariant over the pool array of a simulator state. -/
def LI (ps : Array Pool) : Prop := ∀ p ∈ ps.toList, p.LOK

theorem LI.set {ps : Array Pool} (h : LI ps) (i : Nat) (x : Pool) (hx : x.LOK) : LI (ps.setIfInBounds i x) := by
  intro q hq
  simp only [Array.mem_toList_iff] at hq
  rcases Array.mem_or_eq_of_mem_setIfInBounds hq with hq | hq
  · exact h q (Array.mem_toList_iff.mpr hq)
  · subst hq; exact hx

theorem LI.get {ps : Array Pool} (h : LI ps) {i : Nat} {p : Pool} (hp : ps[i]? = some p) : p.LOK :=
  h p (Array.mem_toList_iff.mpr (Array.mem_of_getElem? hp))

end ErdosVerif.Model
