/-
Lemmas about the `EventTime` model (`Model/Time.lean`): below 2^53 µs the float factor of
`to()` is harmless and every operation agrees with plain integer microseconds.
-/
import ErdosVerif.Model.Time

namespace ErdosVerif.Model.Time

/-- 2^53: every integer of smaller magnitude is a double. -/
def B53 : Int := 9007199254740992

/-- The property's bound: magnitude below 2^53 µs. -/
def Small (a : EventTime) : Prop := -B53 < a.toUs ∧ a.toUs < B53

instance (a : EventTime) : Decidable (Small a) := by unfold Small; infer_instance

/-- Outcomes can be compared by `decide` in examples. -/
instance instDecidableEqExcept {ε α : Type} [DecidableEq ε] [DecidableEq α] : DecidableEq (Except ε α)
  | .ok a, .ok b => if h : a = b then isTrue (by rw [h]) else isFalse (by intro h'; cases h'; exact h rfl)
  | .error a, .error b => if h : a = b then isTrue (by rw [h]) else isFalse (by intro h'; cases h'; exact h rfl)
  | .ok _, .error _ => isFalse (by intro h; cases h)
  | .error _, .ok _ => isFalse (by intro h; cases h)

theorem rndNat_of_lt {m : Nat} (h : m < 2 ^ 53) : rndNat m = m := by
  unfold rndNat; rw [if_pos h]

/-- Multiples of a power of two with a 53-bit cofactor are doubles, whatever their size. -/
theorem rndNat_mul_pow (q s : Nat) (hq : q < 2 ^ 53) : rndNat (q * 2 ^ s) = q * 2 ^ s := by
  unfold rndNat
  split
  · rfl
  · rename_i hbig
    have hm0 : q * 2 ^ s ≠ 0 := by
      intro h; rw [h] at hbig; exact hbig (Nat.two_pow_pos 53)
    have hlt : q * 2 ^ s < 2 ^ (53 + s) := by
      rw [Nat.pow_add]; exact Nat.mul_lt_mul_of_lt_of_le hq (Nat.le_refl _) (Nat.two_pow_pos s)
    have hlog : (q * 2 ^ s).log2 < 53 + s := (Nat.log2_lt hm0).mpr hlt
    have hs' : (q * 2 ^ s).log2 + 1 - 53 ≤ s := by omega
    have hge : 2 ^ 53 ≤ q * 2 ^ s := Nat.le_of_not_lt hbig
    have hlog53 : 53 ≤ (q * 2 ^ s).log2 := by
      apply Nat.le_of_not_lt; intro hc
      have := (Nat.log2_lt hm0).mp hc
      omega
    generalize hsd : (q * 2 ^ s).log2 + 1 - 53 = s' at hs'
    have hs1 : 1 ≤ s' := by omega
    have hdvd : 2 ^ s' ∣ q * 2 ^ s := Nat.dvd_trans (Nat.pow_dvd_pow 2 hs') (Nat.dvd_mul_left _ _)
    have hr : q * 2 ^ s % 2 ^ s' = 0 := Nat.mod_eq_zero_of_dvd hdvd
    have hhalf : 0 < 2 ^ (s' - 1) := Nat.two_pow_pos _
    simp only [hr]
    have hc : ¬ (2 ^ (s' - 1) < 0 ∨ 0 = 2 ^ (s' - 1) ∧ ((q * 2 ^ s) >>> s') % 2 = 1) := by
      intro h; rcases h with h | ⟨h, -⟩ <;> omega
    rw [if_neg hc, Nat.shiftRight_eq_div_pow, Nat.shiftLeft_eq, Nat.div_mul_cancel hdvd]

theorem rnd53_mul_pow (x : Int) (s : Nat) (h : x.natAbs < 2 ^ 53) : rnd53 (x * 2 ^ s) = x * 2 ^ s := by
  unfold rnd53
  have hn : (x * 2 ^ s).natAbs = x.natAbs * 2 ^ s := by
    rw [Int.natAbs_mul, Int.natAbs_pow]; rfl
  rw [hn, rndNat_mul_pow _ _ h]
  have hp : (0 : Int) < 2 ^ s := Int.pow_pos (by decide)
  split
  · rename_i hneg
    have hx : x < 0 := by
      by_cases hx : x < 0
      · exact hx
      · exfalso; have := Int.mul_nonneg (Int.not_lt.mp hx) (Int.le_of_lt hp); omega
    rw [Int.natCast_mul, Int.natCast_pow]
    have : (x.natAbs : Int) = -x := by omega
    rw [this]; simp [Int.neg_mul]
  · rename_i hnn
    have hx : 0 ≤ x := by
      by_cases hx : 0 ≤ x
      · exact hx
      · exfalso; have := Int.mul_neg_of_neg_of_pos (Int.not_le.mp hx) hp; omega
    rw [Int.natCast_mul, Int.natCast_pow]
    have : (x.natAbs : Int) = x := by omega
    rw [this]; rfl

theorem rnd53_of_small {x : Int} (h1 : -B53 < x) (h2 : x < B53) : rnd53 x = x := by
  unfold B53 at h1 h2
  unfold rnd53
  have hm : x.natAbs < 2 ^ 53 := by omega
  rw [rndNat_of_lt hm]
  split <;> omega

theorem finiteDouble_of_lt {m k : Nat} (hk : k ≤ 1024) (h : m < 2 ^ k) : finiteDouble m = true := by
  unfold finiteDouble
  by_cases h0 : m = 0
  · subst h0; simp
  · have := (Nat.log2_lt h0).mpr h
    simp; omega

theorem toDouble_of_small {x : Int} (h1 : -B53 < x) (h2 : x < B53) : toDouble x = .ok x := by
  unfold toDouble
  simp only [rnd53_of_small h1 h2]
  have : finiteDouble x.natAbs = true := by
    apply finiteDouble_of_lt (k := 53) (by decide)
    unfold B53 at h1 h2
    omega
  rw [if_pos this]

theorem mulFloat_of_small {t k : Int} (h1 : -B53 < t) (h2 : t < B53) (h3 : -B53 < t * k) (h4 : t * k < B53) :
    mulFloat t k = .ok (t * k) := by
  unfold mulFloat
  rw [toDouble_of_small h1 h2]
  simp only [bind, Except.bind]
  exact toDouble_of_small h3 h4

theorem toDouble_error {x : Int} {c : String} (h : toDouble x = .error c) : c = "OverflowError" := by
  by_cases hc : finiteDouble (rnd53 x).natAbs = true
  · simp [toDouble, hc] at h
  · have hc' : finiteDouble (rnd53 x).natAbs = false := by simpa using hc
    simp only [toDouble, hc', Bool.false_eq_true, if_false, Except.error.injEq] at h; exact h.symm

theorem mulFloat_error {t k : Int} {c : String} (h : mulFloat t k = .error c) : c = "OverflowError" := by
  unfold mulFloat at h
  cases h1 : toDouble t with
  | error e =>
    rw [h1] at h
    simp only [bind, Except.bind, Except.error.injEq] at h
    subst h; exact toDouble_error h1
  | ok v =>
    rw [h1] at h
    simp only [bind, Except.bind] at h
    exact toDouble_error h

theorem TUnit.factor_pos (u : TUnit) : 0 < u.factor := by cases u <;> decide

theorem TUnit.gt_iff (u v : TUnit) : u.gt v = true ↔ v.factor < u.factor := by
  cases u <;> cases v <;> decide

theorem TUnit.lt_iff (u v : TUnit) : u.lt v = true ↔ u.factor < v.factor := by
  cases u <;> cases v <;> decide

/-- `to` raises `ValueError` exactly for a coarser target unit — for every magnitude. -/
theorem to_valueError_iff (a : EventTime) (u : TUnit) :
    a.to u = .error "ValueError" ↔ a.unit.factor < u.factor := by
  unfold EventTime.to
  constructor
  · intro h
    split at h
    · rename_i hg; exact (TUnit.gt_iff _ _).mp hg
    · exfalso
      cases hm : mulFloat a.time (a.unit.factor / u.factor) with
      | error e =>
        rw [hm] at h
        simp only [bind, Except.bind, Except.error.injEq] at h
        have := mulFloat_error hm
        subst h; simp at this
      | ok v =>
        rw [hm] at h
        simp [bind, Except.bind] at h
  · intro h
    rw [if_pos ((TUnit.gt_iff _ _).mpr h)]

/-- Within the bound, a permitted conversion is exact. -/
theorem to_exact (a : EventTime) (u : TUnit) (hs : Small a) (hu : u.factor ≤ a.unit.factor) :
    a.to u = .ok ⟨a.time * (a.unit.factor / u.factor), u⟩ ∧
      (a.time * (a.unit.factor / u.factor)) * u.factor = a.toUs := by
  obtain ⟨t, au⟩ := a
  unfold Small EventTime.toUs B53 at hs
  unfold EventTime.to EventTime.toUs
  have hng : u.gt au = false := by
    cases h : u.gt au with
    | false => rfl
    | true => have := (TUnit.gt_iff _ _).mp h; simp only at hu; omega
  simp only [hng, Bool.false_eq_true, if_false]
  cases au <;> cases u <;> simp only [TUnit.factor] at hs hu ⊢ <;>
    first
    | omega
    | (constructor
       · rw [mulFloat_of_small (by unfold B53; omega) (by unfold B53; omega) (by unfold B53; omega) (by unfold B53; omega)]
         rfl
       · omega)


/-- 2^56: the coarser operand of a mixed-unit `+` is a multiple of 1000 µs, hence still a
double up to here. -/
def B56 : Int := 72057594037927936

/-- Magnitude below 2^56 µs (sums of a few `Small` values are `Wide`). -/
def Wide (a : EventTime) : Prop := -B56 < a.toUs ∧ a.toUs < B56

theorem Small.wide {a : EventTime} (h : Small a) : Wide a := by
  unfold Small B53 at h; unfold Wide B56; omega

theorem toDouble_mul_pow (x : Int) (s : Nat) (h : x.natAbs < 2 ^ 53) (hb : (x * 2 ^ s).natAbs < 2 ^ 56) :
    toDouble (x * 2 ^ s) = .ok (x * 2 ^ s) := by
  unfold toDouble
  simp only [rnd53_mul_pow x s h]
  rw [if_pos (finiteDouble_of_lt (k := 56) (by decide) hb)]

/-- A conversion to a strictly finer unit is exact up to 2^56 µs. -/
theorem to_exact_wide (a : EventTime) (u : TUnit) (hw : Wide a) (hu : u.factor < a.unit.factor) :
    a.to u = .ok ⟨a.time * (a.unit.factor / u.factor), u⟩ ∧
      (a.time * (a.unit.factor / u.factor)) * u.factor = a.toUs := by
  obtain ⟨t, au⟩ := a
  unfold Wide EventTime.toUs B56 at hw
  unfold EventTime.to EventTime.toUs
  have hng : u.gt au = false := by
    cases h : u.gt au with
    | false => rfl
    | true => have := (TUnit.gt_iff _ _).mp h; simp only at hu; omega
  simp only [hng, Bool.false_eq_true, if_false]
  cases au <;> cases u <;> simp only [TUnit.factor] at hw hu ⊢ <;> try omega
  · -- MS → US
    refine ⟨?_, by omega⟩
    unfold mulFloat
    rw [toDouble_of_small (by unfold B53; omega) (by unfold B53; omega)]
    simp only [bind, Except.bind]
    have e : t * (1000 / 1) = (t * 125) * 2 ^ 3 := by omega
    rw [e, toDouble_mul_pow _ _ (by omega) (by omega)]
  · -- S → US
    refine ⟨?_, by omega⟩
    unfold mulFloat
    rw [toDouble_of_small (by unfold B53; omega) (by unfold B53; omega)]
    simp only [bind, Except.bind]
    have e : t * (1000000 / 1) = (t * 15625) * 2 ^ 6 := by omega
    rw [e, toDouble_mul_pow _ _ (by omega) (by omega)]
  · -- S → MS
    refine ⟨?_, by omega⟩
    rw [mulFloat_of_small (by unfold B53; omega) (by unfold B53; omega) (by unfold B53; omega) (by unfold B53; omega)]
    rfl

theorem wide_neg {a : EventTime} (h : Wide a) : Wide ⟨-a.time, a.unit⟩ := by
  unfold Wide EventTime.toUs at *
  simp only [Int.neg_mul]
  omega

/-- Up to 2^56 µs `+` is exact, and the result carries the finer unit. -/
theorem add_exact (a b : EventTime) (ha : Wide a) (hb : Wide b) :
    ∃ c, a.add b = .ok c ∧ c.toUs = a.toUs + b.toUs ∧
      c.unit = (if a.unit.factor ≤ b.unit.factor then a.unit else b.unit) := by
  unfold EventTime.add
  by_cases hu : a.unit = b.unit
  · rw [if_pos hu]
    refine ⟨_, rfl, ?_, by simp [hu]⟩
    simp only [EventTime.toUs, hu, Int.add_mul]
  · rw [if_neg hu]
    by_cases hl : a.unit.lt b.unit = true
    · rw [if_pos hl]
      have hf := (TUnit.lt_iff _ _).mp hl
      obtain ⟨e1, e2⟩ := to_exact_wide b a.unit hb hf
      rw [e1]
      refine ⟨_, rfl, ?_, by simp [Int.le_of_lt hf]⟩
      simp only [EventTime.toUs, Int.add_mul] at e2 ⊢
      rw [e2]
    · rw [if_neg hl]
      have hf : b.unit.factor < a.unit.factor := by
        have : ¬ a.unit.factor < b.unit.factor := fun h => hl ((TUnit.lt_iff _ _).mpr h)
        have : a.unit.factor ≠ b.unit.factor := by
          revert hu; cases a.unit <;> cases b.unit <;> simp [TUnit.factor]
        omega
      obtain ⟨e1, e2⟩ := to_exact_wide a b.unit ha hf
      rw [e1]
      refine ⟨_, rfl, ?_, by simp [Int.not_le.mpr hf]⟩
      simp only [EventTime.toUs, Int.add_mul] at e2 ⊢
      rw [e2]

theorem sub_exact (a b : EventTime) (ha : Wide a) (hb : Wide b) :
    ∃ c, a.sub b = .ok c ∧ c.toUs = a.toUs - b.toUs := by
  obtain ⟨c, h1, h2, -⟩ := add_exact a ⟨-b.time, b.unit⟩ ha (wide_neg hb)
  refine ⟨c, h1, ?_⟩
  rw [h2]; simp only [EventTime.toUs, Int.neg_mul]; omega

/-- The sign of `(a - b).time` is the sign of the µs difference (the unit factor is positive). -/
theorem sub_time_sign (a b : EventTime) (ha : Wide a) (hb : Wide b) :
    ∃ c, a.sub b = .ok c ∧ (c.time = 0 ↔ a.toUs = b.toUs) ∧ (c.time < 0 ↔ a.toUs < b.toUs) := by
  obtain ⟨c, h1, h2⟩ := sub_exact a b ha hb
  refine ⟨c, h1, ?_, ?_⟩
  · have hp := TUnit.factor_pos c.unit
    unfold EventTime.toUs at h2
    constructor
    · intro h0; rw [h0] at h2; simp at h2; unfold EventTime.toUs; omega
    · intro he
      have : c.time * c.unit.factor = 0 := by unfold EventTime.toUs at he; omega
      rcases Int.mul_eq_zero.mp this with h | h
      · exact h
      · omega
  · have hp := TUnit.factor_pos c.unit
    unfold EventTime.toUs at h2
    constructor
    · intro h0
      have : c.time * c.unit.factor < 0 := Int.mul_neg_of_neg_of_pos h0 hp
      unfold EventTime.toUs; omega
    · intro hl
      have : c.time * c.unit.factor < 0 := by unfold EventTime.toUs at hl; omega
      by_cases hc : c.time < 0
      · exact hc
      · have : 0 ≤ c.time * c.unit.factor := Int.mul_nonneg (by omega) (by omega)
        omega

theorem eq_exact (a b : EventTime) (ha : Wide a) (hb : Wide b) :
    a.eq b = .ok (decide (a.toUs = b.toUs)) := by
  obtain ⟨c, h1, h2, -⟩ := sub_time_sign a b ha hb
  unfold EventTime.eq; rw [h1]
  simp only [bind, Except.bind, Except.ok.injEq]
  by_cases h : a.toUs = b.toUs
  · simp [h, h2.mpr h]
  · have : c.time ≠ 0 := fun h0 => h (h2.mp h0)
    simp [h, this]

theorem lt_exact (a b : EventTime) (ha : Wide a) (hb : Wide b) :
    a.lt b = .ok (decide (a.toUs < b.toUs)) := by
  obtain ⟨c, h1, -, h3⟩ := sub_time_sign a b ha hb
  unfold EventTime.lt; rw [h1]
  simp only [bind, Except.bind, Except.ok.injEq]
  by_cases h : a.toUs < b.toUs
  · simp [h, h3.mpr h]
  · have : ¬ c.time < 0 := fun h0 => h (h3.mp h0)
    simp [h, this]

theorem ne_exact (a b : EventTime) (ha : Wide a) (hb : Wide b) :
    a.ne b = .ok (decide (a.toUs ≠ b.toUs)) := by
  unfold EventTime.ne; rw [eq_exact a b ha hb]
  simp [bind, Except.bind]

theorem le_exact (a b : EventTime) (ha : Wide a) (hb : Wide b) :
    a.le b = .ok (decide (a.toUs ≤ b.toUs)) := by
  unfold EventTime.le; rw [lt_exact a b ha hb]
  simp only [bind, Except.bind]
  by_cases h : a.toUs < b.toUs
  · simp [h, Int.le_of_lt h]
  · simp only [h, decide_false, Bool.false_eq_true, if_false]
    rw [eq_exact a b ha hb]
    congr 1
    by_cases he : a.toUs = b.toUs
    · simp [he]
    · have : ¬ a.toUs ≤ b.toUs := by omega
      simp [he, this]

theorem gt_exact (a b : EventTime) (ha : Wide a) (hb : Wide b) :
    a.gt b = .ok (decide (b.toUs < a.toUs)) := by
  unfold EventTime.gt; rw [lt_exact a b ha hb]
  simp only [bind, Except.bind]
  by_cases h : a.toUs < b.toUs
  · have : ¬ b.toUs < a.toUs := by omega
    simp [h, this]
  · simp only [h, decide_false, Bool.false_eq_true, if_false]
    rw [ne_exact a b ha hb]
    congr 1
    by_cases he : a.toUs = b.toUs
    · simp [he]
    · have : b.toUs < a.toUs := by omega
      simp [he, this]

theorem ge_exact (a b : EventTime) (ha : Wide a) (hb : Wide b) :
    a.ge b = .ok (decide (b.toUs ≤ a.toUs)) := by
  unfold EventTime.ge; rw [lt_exact a b ha hb]
  simp only [bind, Except.bind, Except.ok.injEq]
  by_cases h : a.toUs < b.toUs
  · have : ¬ b.toUs ≤ a.toUs := by omega
    simp [h, this]
  · have : b.toUs ≤ a.toUs := by omega
    simp [h, this]

theorem hash_exact (a : EventTime) (ha : Small a) : a.hash = .ok a.toUs := by
  unfold EventTime.hash
  have hu : TUnit.US.factor ≤ a.unit.factor := by
    have := TUnit.factor_pos a.unit
    show (1 : Int) ≤ a.unit.factor
    omega
  obtain ⟨e1, e2⟩ := to_exact a .US ha hu
  rw [e1]
  simp only [bind, Except.bind, Except.ok.injEq]
  simpa [TUnit.factor] using e2

theorem min_exact (a b : EventTime) (ha : Wide a) (hb : Wide b) :
    ∃ c, a.min b = .ok c ∧ c.toUs = min a.toUs b.toUs := by
  unfold EventTime.min; rw [lt_exact b a hb ha]
  simp only [bind, Except.bind]
  by_cases h : b.toUs < a.toUs
  · exact ⟨b, by simp [h], by omega⟩
  · exact ⟨a, by simp [h], by omega⟩

theorem max_exact (a b : EventTime) (ha : Wide a) (hb : Wide b) :
    ∃ c, a.max b = .ok c ∧ c.toUs = max a.toUs b.toUs := by
  unfold EventTime.max; rw [gt_exact b a hb ha]
  simp only [bind, Except.bind]
  by_cases h : a.toUs < b.toUs
  · exact ⟨b, by simp [h], by omega⟩
  · exact ⟨a, by simp [h], by omega⟩

end ErdosVerif.Model.Time
