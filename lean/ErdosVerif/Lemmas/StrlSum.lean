/-
C20 helper lemmas, part 1: `sumBy`, and the arithmetic of the slot that holds a time.
Core Lean only.
-/
import ErdosVerif.Model.StrlSem
namespace ErdosVerif.Strl

@[simp] theorem sumBy_nil {α : Type} (f : α → Int) : sumBy f [] = 0 := rfl
@[simp] theorem sumBy_cons {α : Type} (f : α → Int) (a : α) (l : List α) :
    sumBy f (a :: l) = f a + sumBy f l := rfl

theorem sumBy_append {α : Type} (f : α → Int) (l₁ l₂ : List α) :
    sumBy f (l₁ ++ l₂) = sumBy f l₁ + sumBy f l₂ := by
  induction l₁ with
  | nil => simp
  | cons a l ih => simp [ih]; omega

theorem sumBy_nonneg {α : Type} (f : α → Int) (l : List α) (h : ∀ a ∈ l, 0 ≤ f a) :
    0 ≤ sumBy f l := by
  induction l with
  | nil => simp
  | cons a l ih =>
    have h1 := h a (by simp)
    have h2 := ih (fun b hb => h b (by simp [hb]))
    simp; omega

theorem sumBy_le_sumBy {α : Type} (f g : α → Int) (l : List α) (h : ∀ a ∈ l, f a ≤ g a) :
    sumBy f l ≤ sumBy g l := by
  induction l with
  | nil => simp
  | cons a l ih =>
    have h1 := h a (by simp)
    have h2 := ih (fun b hb => h b (by simp [hb]))
    simp; omega

theorem sumBy_congr {α : Type} (f g : α → Int) (l : List α) (h : ∀ a ∈ l, f a = g a) :
    sumBy f l = sumBy g l := by
  induction l with
  | nil => simp
  | cons a l ih =>
    have h1 := h a (by simp)
    have h2 := ih (fun b hb => h b (by simp [hb]))
    simp; omega

theorem sumBy_map {α β : Type} (f : β → Int) (g : α → β) (l : List α) :
    sumBy f (l.map g) = sumBy (fun a => f (g a)) l := by
  induction l with
  | nil => simp
  | cons a l ih => simp [ih]

theorem sumBy_flatMap {α β : Type} (f : β → Int) (g : α → List β) (l : List α) :
    sumBy f (l.flatMap g) = sumBy (fun a => sumBy f (g a)) l := by
  induction l with
  | nil => simp
  | cons a l ih => simp [List.flatMap_cons, sumBy_append, ih]

theorem sumBy_filter_le {α : Type} (f : α → Int) (p : α → Bool) (l : List α)
    (h : ∀ a ∈ l, 0 ≤ f a) : sumBy f (l.filter p) ≤ sumBy f l := by
  induction l with
  | nil => simp
  | cons a l ih =>
    have h1 := h a (by simp)
    have h2 := ih (fun b hb => h b (by simp [hb]))
    by_cases hp : p a = true
    · simp [hp]; omega
    · simp [hp]; omega

theorem sumBy_mem_le {α : Type} (f : α → Int) (l : List α) (h : ∀ a ∈ l, 0 ≤ f a)
    (a : α) (ha : a ∈ l) : f a ≤ sumBy f l := by
  induction l with
  | nil => simp at ha
  | cons b l ih =>
    have h1 := h b (by simp)
    have h2 := sumBy_nonneg f l (fun c hc => h c (by simp [hc]))
    rcases List.mem_cons.mp ha with rfl | hm
    · simp; omega
    · have := ih (fun c hc => h c (by simp [hc])) hm
      simp; omega

theorem sumBy_zero {α : Type} (f : α → Int) (l : List α) (h : ∀ a ∈ l, f a = 0) :
    sumBy f l = 0 := by
  induction l with
  | nil => simp
  | cons a l ih =>
    have h1 := h a (by simp)
    have h2 := ih (fun b hb => h b (by simp [hb]))
    simp; omega

theorem sumBy_mul_const {α : Type} (f : α → Int) (c : Int) (l : List α) :
    sumBy (fun a => c * f a) l = c * sumBy f l := by
  induction l with
  | nil => simp
  | cons a l ih => simp [ih, Int.mul_add]

/-- `(l.map f).sum` (used by the model's `evalTerms`) is `sumBy`. -/
theorem map_sum_eq_sumBy {α : Type} (f : α → Int) (l : List α) : (l.map f).sum = sumBy f l := by
  induction l with
  | nil => simp
  | cons a l ih => simp [ih]

/-! ### The slot that holds a time -/

/-- The registration time (`start + j·g`) of the slot that contains `t`, for leaves whose
start is congruent to `r` modulo `g`. -/
def slotKey (g r t : Nat) : Nat := t - (t - r) % g

theorem slotKey_mem (g start dur t r : Nat) (hg : 0 < g) (hs : start % g = r)
    (h1 : start ≤ t) (h2 : t < start + dur) : slotKey g r t ∈ slotTimes g start dur := by
  unfold slotKey slotTimes
  -- d = t - start = g * j + m
  have hd := Nat.div_add_mod (t - start) g
  have hm := Nat.mod_lt (t - start) hg
  have hsd := Nat.div_add_mod start g
  rw [hs] at hsd
  have hr : r ≤ start := by omega
  -- t - r = g * (start / g + (t - start) / g) + (t - start) % g
  have e1 : t - r = g * (start / g + (t - start) / g) + (t - start) % g := by
    rw [Nat.mul_add]; omega
  have e2 : (t - r) % g = (t - start) % g := by
    rw [e1, Nat.mul_add_mod]; exact Nat.mod_eq_of_lt hm
  rw [e2]
  apply List.mem_map.mpr
  refine ⟨(t - start) / g, ?_, ?_⟩
  · apply List.mem_range.mpr
    -- (j + 1) * g ≤ dur + g - 1
    have : (t - start) / g + 1 ≤ (dur + g - 1) / g := by
      apply (Nat.le_div_iff_mul_le hg).mpr
      rw [Nat.add_mul, Nat.mul_comm]; omega
    omega
  · rw [Nat.mul_comm]; omega

end ErdosVerif.Strl
