import ErdosVerif.Lemmas.LedgerPool
import ErdosVerif.Lemmas.LedgerRefusal
import ErdosVerif.Model.Greedy
/-!
Availability only decreases under placements, hence the fit test is antitone
(`fit_antitone`): placing more never makes a (non-batch) strategy fit.
Built on the ledger invariant lemmas (`Lemmas/Ledger*.lean`); core Lean only.
-/
namespace ErdosVerif.Model

/-! ### `Resources`: no allocation increases any availability -/

theorem scan_sumMatching_le (k x : Res) (v : Vec) (n : Nat) :
    sumMatching x (Resources.scan k v n).1 ≤ sumMatching x v := by
  induction v generalizing n with
  | nil => simp [Resources.scan]
  | cons p rest ih =>
    obtain ⟨r, q⟩ := p
    simp only [Resources.scan]
    split
    · split
      · simp only [sumMatching]; split <;> omega
      · split
        · have := ih (n - q); simp only [sumMatching]; split <;> omega
        · have := ih (n - q); simp only [sumMatching]; split <;> omega
    · split
      · exact Nat.le_refl _
      · have := ih n; simp only [sumMatching]; omega

namespace Resources

theorem allocate_availQ_le (r : Resources) (k : Res) (c : Comp) (q : Nat) (x : Res) :
    (r.allocate k c q).1.availQ x ≤ r.availQ x := by
  unfold allocate
  split
  · exact Nat.le_refl _
  · exact scan_sumMatching_le k x r.avail q

theorem allocateEach_availQ_le (r : Resources) (c : Comp) (req : Vec) (x : Res) :
    (r.allocateEach c req).1.availQ x ≤ r.availQ x := by
  induction req generalizing r with
  | nil => exact Nat.le_refl _
  | cons p rest ih =>
    obtain ⟨k, q⟩ := p
    simp only [allocateEach]
    have h1 := allocate_availQ_le r k c q x
    cases hres : r.allocate k c q with
    | mk r' o =>
      rw [hres] at h1
      cases o with
      | ok => exact Nat.le_trans (ih r') h1
      | raised e => exact h1

theorem allocateMultiple_availQ_le (r : Resources) (req : Vec) (c : Comp) (h : r.Inv) (x : Res) :
    (r.allocateMultiple req c).1.availQ x ≤ r.availQ x := by
  by_cases hok : (r.allocateMultiple req c).2 = .ok
  · unfold allocateMultiple at hok ⊢
    split
    · have h1 := allocateEach_availQ_le { r with allocs := record r.allocs c [] } c req x
      cases hres : allocateEach { r with allocs := record r.allocs c [] } c req with
      | mk r' o =>
        rw [hres] at h1
        cases o with
        | ok => exact h1
        | raised e =>
          rename_i hc
          simp only [hc, if_true, hres] at hok
          exact absurd hok (by simp)
    · exact Nat.le_refl _
  · rw [allocateMultiple_refused r req c h hok]
    exact Nat.le_refl _

/-- The fit test only looks at per-key availabilities. -/
theorem checkAll_antitone (r' r : Resources) (hle : ∀ x, r'.availQ x ≤ r.availQ x) (req : Vec)
    (h : r'.checkAll req = true) : r.checkAll req = true := by
  induction req with
  | nil => rfl
  | cons p rest ih =>
    obtain ⟨k, q⟩ := p
    simp only [checkAll, Bool.and_eq_true, decide_eq_true_eq] at h ⊢
    exact ⟨Nat.le_trans h.1 (hle k), ih h.2⟩

end Resources

/-! ### workers, pools, clusters -/

/-- `w'` has at most the availability of `w`, key by key. -/
def Worker.Le (w' w : Worker) : Prop := ∀ x, w'.res.availQ x ≤ w.res.availQ x

theorem Worker.le_refl (w : Worker) : Worker.Le w w := fun _ => Nat.le_refl _

theorem Worker.le_trans {a b c : Worker} (h1 : Worker.Le a b) (h2 : Worker.Le b c) : Worker.Le a c :=
  fun x => Nat.le_trans (h1 x) (h2 x)

theorem Worker.placeTask_le (w : Worker) (t : Nat) (s : Strategy) (h : w.res.Inv) :
    Worker.Le (w.placeTask t s).1 w := by
  intro x
  unfold Worker.placeTask
  split
  · split
    · split
      · exact Nat.le_refl _
      · have := Resources.allocateMultiple_availQ_le w.res s.req (.batch w.fresh) h x
        split
        · rename_i hres; rw [hres] at this; exact this
        · rename_i hres; rw [hres] at this; exact this
    · split
      · exact Nat.le_refl _
      · exact Nat.le_refl _
  · have := Resources.allocateMultiple_availQ_le w.res s.req (.task t) h x
    split
    · rename_i hres; rw [hres] at this; exact this
    · rename_i hres; rw [hres] at this; exact this

/-- A non-batch strategy that fits after more has been placed fitted before. -/
theorem Worker.canAccommodate_antitone {w' w : Worker} (hle : Worker.Le w' w) (s : Strategy)
    (hb : s.isBatch = false) (h : w'.canAccommodate s = true) : w.canAccommodate s = true := by
  simp only [Worker.canAccommodate, hb, Bool.false_and, Bool.or_false, Resources.fits] at h ⊢
  exact Resources.checkAll_antitone w'.res w.res hle s.req h

/-- Pointwise order on pools: same number of workers, each with at most the availability. -/
def Pool.Le (p' p : Pool) : Prop :=
  p'.workers.length = p.workers.length ∧
  ∀ (i : Nat) w' w, p'.workers[i]? = some w' → p.workers[i]? = some w → Worker.Le w' w

theorem Pool.le_refl (p : Pool) : Pool.Le p p :=
  ⟨rfl, fun _ w' w h1 h2 => by rw [h1] at h2; cases h2; exact Worker.le_refl _⟩

theorem Pool.le_trans {a b c : Pool} (h1 : Pool.Le a b) (h2 : Pool.Le b c) : Pool.Le a c := by
  refine ⟨h1.1.trans h2.1, ?_⟩
  intro i wa wc ha hc
  have hi : i < b.workers.length := by
    have := (List.getElem?_eq_some_iff.mp ha).1
    rw [h1.1] at this; exact this
  exact Worker.le_trans (h1.2 i wa _ ha (List.getElem?_eq_getElem hi)) (h2.2 i _ wc (List.getElem?_eq_getElem hi) hc)

theorem Pool.setWorker_le (p : Pool) (i : Nat) (w w' : Worker) (pl : AList Nat Nat)
    (hw : p.workers[i]? = some w) (hle : Worker.Le w' w) :
    Pool.Le ({ (p.setWorker i w') with placed := pl }) p := by
  refine ⟨by simp [Pool.setWorker], ?_⟩
  intro j a b ha hb
  simp only [Pool.setWorker, List.getElem?_set] at ha
  split at ha
  · rename_i hij
    subst hij
    split at ha
    · cases ha; rw [hw] at hb; cases hb; exact hle
    · exact absurd ha (by simp)
  · rw [ha] at hb; cases hb; exact Worker.le_refl _

theorem Pool.placeTask_le (p : Pool) (t : Nat) (strats : List Strategy) (s? : Option Strategy)
    (wid? : Option Nat) (h : p.Inv) : Pool.Le (p.placeTask t strats s? wid?).1 p := by
  unfold Pool.placeTask
  simp only []
  split
  · exact Pool.le_refl p
  · exact Pool.le_refl p
  · exact Pool.le_refl p
  · rename_i i s _
    split
    · exact Pool.le_refl p
    · rename_i w hw
      have hle := Worker.placeTask_le w t s (Pool.inv_getElem p i w h hw)
      cases hres : w.placeTask t s with
      | mk w' o =>
        rw [hres] at hle
        cases o with
        | ok => exact Pool.setWorker_le p i w w' _ hw hle
        | raised e => exact Pool.setWorker_le p i w w' p.placed hw hle

theorem Pool.canAccommodate_antitone {p' p : Pool} (hle : Pool.Le p' p) (s : Strategy)
    (hb : s.isBatch = false) (h : p'.canAccommodate s = true) : p.canAccommodate s = true := by
  simp only [Pool.canAccommodate, List.any_eq_true] at h ⊢
  obtain ⟨w', hw', hc⟩ := h
  obtain ⟨i, hi, rfl⟩ := List.getElem_of_mem hw'
  have hi2 : i < p.workers.length := hle.1 ▸ hi
  refine ⟨p.workers[i], List.getElem_mem hi2, ?_⟩
  exact Worker.canAccommodate_antitone
    (hle.2 i _ _ (List.getElem?_eq_getElem hi) (List.getElem?_eq_getElem hi2)) s hb hc

namespace Greedy

/-- Pointwise order on clusters (lists of pools). -/
def ClusterLe (V' V : List Pool) : Prop :=
  V'.length = V.length ∧ ∀ (i : Nat) p' p, V'[i]? = some p' → V[i]? = some p → Pool.Le p' p

theorem ClusterLe.refl (V : List Pool) : ClusterLe V V :=
  ⟨rfl, fun _ p' p h1 h2 => by rw [h1] at h2; cases h2; exact Pool.le_refl _⟩

theorem ClusterLe.trans {A B C : List Pool} (h1 : ClusterLe A B) (h2 : ClusterLe B C) : ClusterLe A C := by
  refine ⟨h1.1.trans h2.1, ?_⟩
  intro i pa pc ha hc
  have hi : i < B.length := by
    have := (List.getElem?_eq_some_iff.mp ha).1
    rw [h1.1] at this; exact this
  exact Pool.le_trans (h1.2 i pa _ ha (List.getElem?_eq_getElem hi)) (h2.2 i _ pc (List.getElem?_eq_getElem hi) hc)

theorem ClusterLe.set (V : List Pool) (i : Nat) (p p' : Pool) (hp : V[i]? = some p) (hle : Pool.Le p' p) :
    ClusterLe (V.set i p') V := by
  refine ⟨by simp, ?_⟩
  intro j a b ha hb
  simp only [List.getElem?_set] at ha
  split at ha
  · rename_i hij
    subst hij
    split at ha
    · cases ha; rw [hp] at hb; cases hb; exact hle
    · exact absurd ha (by simp)
  · rw [ha] at hb; cases hb; exact Pool.le_refl _

/-- Some worker of some pool of the cluster can accommodate the strategy. -/
def fitsSomewhere (V : List Pool) (s : Strategy) : Bool := V.any (·.canAccommodate s)

theorem fitsSomewhere_antitone {V' V : List Pool} (hle : ClusterLe V' V) (s : Strategy)
    (hb : s.isBatch = false) (h : fitsSomewhere V' s = true) : fitsSomewhere V s = true := by
  simp only [fitsSomewhere, List.any_eq_true] at h ⊢
  obtain ⟨p', hp', hc⟩ := h
  obtain ⟨i, hi, rfl⟩ := List.getElem_of_mem hp'
  have hi2 : i < V.length := hle.1 ▸ hi
  exact ⟨V[i], List.getElem_mem hi2, Pool.canAccommodate_antitone
    (hle.2 i _ _ (List.getElem?_eq_getElem hi) (List.getElem?_eq_getElem hi2)) s hb hc⟩

/-- The ledger invariant of every pool of a cluster. -/
def ClusterInv (V : List Pool) : Prop := ∀ p ∈ V, p.Inv

theorem ClusterInv.set (V : List Pool) (i : Nat) (p : Pool) (h : ClusterInv V) (hp : p.Inv) :
    ClusterInv (V.set i p) := by
  intro x hx
  rcases List.mem_or_eq_of_mem_set hx with hx | hx
  · exact h x hx
  · subst hx; exact hp

end Greedy
end ErdosVerif.Model
