import ErdosVerif.Lemmas.GreedyFit
import ErdosVerif.Lemmas.GreedySort
/-!
Facts about one loop iteration (`step`), the loop (`run`) and `schedule` of the greedy
policies: shape of every decision, the virtual cluster only loses availability and keeps the
ledger invariant, a prefix of the processing order determines its decisions, and the
virtual cluster is exactly the reported placements charged to the copy of the live cluster
(for LSF: when the pool's own choice agrees with the tested strategy).  Core Lean only.
-/
namespace ErdosVerif.Model.Greedy
open ErdosVerif.Model

/-! ### first fit -/

theorem firstPool_some (s : Strategy) (V : List Pool) (k i : Nat) (h : firstPool s V k = some i) :
    ∃ j p, i = k + j ∧ V[j]? = some p ∧ p.canAccommodate s = true ∧
      ∀ j' p', j' < j → V[j']? = some p' → p'.canAccommodate s = false := by
  induction V generalizing k with
  | nil => simp [firstPool] at h
  | cons p r ih =>
    simp only [firstPool] at h
    split at h
    · rename_i hc
      cases h
      exact ⟨0, p, rfl, rfl, hc, fun j' _ hj => absurd hj (Nat.not_lt_zero _)⟩
    · rename_i hc
      obtain ⟨j, q, hi, hq, hcq, hfirst⟩ := ih (k + 1) h
      refine ⟨j + 1, q, by omega, by simpa using hq, hcq, ?_⟩
      intro j' p' hj hp'
      cases j' with
      | zero => simp at hp'; subst hp'; simpa using hc
      | succ j'' => exact hfirst j'' p' (by omega) (by simpa using hp')

theorem firstPool_none (s : Strategy) (V : List Pool) (k : Nat) (h : firstPool s V k = none) :
    fitsSomewhere V s = false := by
  induction V generalizing k with
  | nil => rfl
  | cons p r ih =>
    simp only [firstPool] at h
    split at h
    · cases h
    · rename_i hc
      simp only [fitsSomewhere, List.any_cons, Bool.or_eq_false_iff]
      exact ⟨by simpa using hc, ih (k + 1) h⟩

theorem fitsSomewhere_false_iff (V : List Pool) (s : Strategy) :
    fitsSomewhere V s = false ↔ ∀ p ∈ V, ∀ w ∈ p.workers, w.canAccommodate s = false := by
  simp only [fitsSomewhere, Pool.canAccommodate]
  constructor
  · intro h p hp w hw
    have h1 := List.any_eq_false.mp h p hp
    have h2 := List.any_eq_false.mp (by simpa using h1) w hw
    simpa using h2
  · intro h
    apply List.any_eq_false.mpr
    intro p hp
    simp only [Bool.not_eq_true]
    apply List.any_eq_false.mpr
    intro w hw
    simp [h p hp w hw]

/-- `choose` returns the first strategy (in list order) that fits anywhere, with the first pool
that accommodates it; every earlier strategy fits nowhere. -/
theorem choose_some (V : List Pool) (strats : List Strategy) (s : Strategy) (i : Nat)
    (h : choose V strats = some (s, i)) :
    ∃ a b, strats = a ++ s :: b ∧ (∀ s' ∈ a, fitsSomewhere V s' = false) ∧ firstPool s V 0 = some i := by
  induction strats with
  | nil => simp [choose] at h
  | cons x r ih =>
    simp only [choose] at h
    split at h
    · rename_i j hj
      cases h
      exact ⟨[], r, rfl, by simp, hj⟩
    · rename_i hj
      obtain ⟨a, b, hab, ha, hf⟩ := ih h
      refine ⟨x :: a, b, by simp [hab], ?_, hf⟩
      intro s' hs'
      rcases List.mem_cons.mp hs' with rfl | hs'
      · exact firstPool_none _ V 0 hj
      · exact ha s' hs'

theorem choose_none (V : List Pool) (strats : List Strategy) (h : choose V strats = none) :
    ∀ s ∈ strats, fitsSomewhere V s = false := by
  induction strats with
  | nil => simp
  | cons x r ih =>
    simp only [choose] at h
    split at h
    · cases h
    · rename_i hj
      intro s hs
      rcases List.mem_cons.mp hs with rfl | hs
      · exact firstPool_none _ V 0 hj
      · exact ih h s hs

/-! ### one iteration -/

/-- Everything `step` can do, case by case. -/
theorem step_cases (cfg : Cfg) (V : List Pool) (o : Offered) (d : PlacementS) (V' : List Pool)
    (h : step cfg V o = .ok (d, V')) :
    (hopeless cfg o = .ok true ∧ d = cancelP o ∧ V' = V) ∨
    (hopeless cfg o = .ok false ∧ choose V o.task.strategies = none ∧ d = unplacedP o ∧ V' = V) ∨
    (∃ s i p p' b, hopeless cfg o = .ok false ∧ choose V o.task.strategies = some (s, i) ∧
      V[i]? = some p ∧ p.placeTask o.lid o.task.strategies (passed cfg s) none = (p', .ok b) ∧
      d = placedP cfg o i s ∧ V' = V.set i p') := by
  unfold step at h
  split at h
  · cases h
  · rename_i hh
    cases h
    exact .inl ⟨hh, rfl, rfl⟩
  · rename_i hh
    split at h
    · rename_i hc
      cases h
      exact .inr (.inl ⟨hh, hc, rfl, rfl⟩)
    · rename_i s i hc
      split at h
      · cases h
      · rename_i p hp
        split at h
        · rename_i p' b hpl
          cases h
          exact .inr (.inr ⟨s, i, p, p', b, hh, hc, hp, hpl, rfl, rfl⟩)
        · cases h

theorem step_task (cfg : Cfg) (V : List Pool) (o : Offered) (d : PlacementS) (V' : List Pool)
    (h : step cfg V o = .ok (d, V')) : d.task = o.id := by
  rcases step_cases cfg V o d V' h with ⟨_, rfl, _⟩ | ⟨_, _, rfl, _⟩ | ⟨s, i, p, p', b, _, _, _, _, rfl, _⟩ <;> rfl

/-- One iteration keeps the ledger invariant and never increases any availability. -/
theorem step_le (cfg : Cfg) (V : List Pool) (o : Offered) (d : PlacementS) (V' : List Pool)
    (hinv : ClusterInv V) (h : step cfg V o = .ok (d, V')) : ClusterInv V' ∧ ClusterLe V' V := by
  rcases step_cases cfg V o d V' h with ⟨_, _, rfl⟩ | ⟨_, _, _, rfl⟩ | ⟨s, i, p, p', b, _, _, hp, hpl, _, rfl⟩
  · exact ⟨hinv, ClusterLe.refl _⟩
  · exact ⟨hinv, ClusterLe.refl _⟩
  · have hpinv : p.Inv := hinv p (List.mem_of_getElem? hp)
    have h1 := Pool.inv_placeTask p o.lid o.task.strategies (passed cfg s) none hpinv
    have h2 := Pool.placeTask_le p o.lid o.task.strategies (passed cfg s) none hpinv
    rw [hpl] at h1 h2
    exact ⟨ClusterInv.set V i p' hinv h1, ClusterLe.set V i p p' hp h2⟩

/-! ### the loop -/

theorem run_cons (cfg : Cfg) (V : List Pool) (o : Offered) (rest : List Offered)
    (ds : List PlacementS) (Vf : List Pool) (h : run cfg V (o :: rest) = .ok (ds, Vf)) :
    ∃ d V' ds', step cfg V o = .ok (d, V') ∧ run cfg V' rest = .ok (ds', Vf) ∧ ds = d :: ds' := by
  simp only [run] at h
  split at h
  · cases h
  · rename_i d V' hs
    split at h
    · cases h
    · rename_i ds' V'' hr
      cases h
      exact ⟨d, V', ds', hs, hr, rfl⟩

theorem run_cons_intro (cfg : Cfg) (V V' Vf : List Pool) (o : Offered) (rest : List Offered)
    (d : PlacementS) (ds' : List PlacementS) (hs : step cfg V o = .ok (d, V'))
    (hr : run cfg V' rest = .ok (ds', Vf)) : run cfg V (o :: rest) = .ok (d :: ds', Vf) := by
  simp only [run, hs, hr]

/-- Splitting a successful run at any point of the processing order. -/
theorem run_append (cfg : Cfg) (V : List Pool) (a b : List Offered) (ds : List PlacementS)
    (Vf : List Pool) (h : run cfg V (a ++ b) = .ok (ds, Vf)) :
    ∃ da Va db, run cfg V a = .ok (da, Va) ∧ run cfg Va b = .ok (db, Vf) ∧ ds = da ++ db ∧
      da.length = a.length := by
  induction a generalizing V ds with
  | nil => exact ⟨[], V, ds, rfl, h, rfl, rfl⟩
  | cons o rest ih =>
    obtain ⟨d, V', ds', hs, hr, rfl⟩ := run_cons cfg V o (rest ++ b) ds Vf h
    obtain ⟨da, Va, db, h1, h2, rfl, hl⟩ := ih V' ds' hr
    exact ⟨d :: da, Va, db, run_cons_intro cfg V V' Va o rest d da hs h1, h2, rfl, by simp [hl]⟩

theorem run_length (cfg : Cfg) (V : List Pool) (os : List Offered) (ds : List PlacementS)
    (Vf : List Pool) (h : run cfg V os = .ok (ds, Vf)) : ds.length = os.length := by
  have := run_append cfg V os [] ds Vf (by simpa using h)
  obtain ⟨da, Va, db, _, h2, rfl, hl⟩ := this
  simp only [run] at h2
  cases h2
  simpa using hl

/-- The decision given for `o`: there is a virtual cluster on which one iteration produced it. -/
def StepRel (cfg : Cfg) (o : Offered) (d : PlacementS) : Prop :=
  ∃ Vb Va, step cfg Vb o = .ok (d, Va)

theorem run_zip (cfg : Cfg) (V : List Pool) (os : List Offered) (ds : List PlacementS)
    (Vf : List Pool) (h : run cfg V os = .ok (ds, Vf)) :
    ∀ o d, (o, d) ∈ os.zip ds → StepRel cfg o d := by
  induction os generalizing V ds with
  | nil => intro o d hm; simp at hm
  | cons x rest ih =>
    obtain ⟨d0, V', ds', hs, hr, rfl⟩ := run_cons cfg V x rest ds Vf h
    intro o d hm
    simp only [List.zip_cons_cons, List.mem_cons, Prod.mk.injEq] at hm
    rcases hm with ⟨rfl, rfl⟩ | hm
    · exact ⟨V, V', hs⟩
    · exact ih V' ds' hr o d hm

theorem run_tasks (cfg : Cfg) (V : List Pool) (os : List Offered) (ds : List PlacementS)
    (Vf : List Pool) (h : run cfg V os = .ok (ds, Vf)) : ds.map (·.task) = os.map (·.id) := by
  induction os generalizing V ds with
  | nil => simp only [run] at h; cases h; rfl
  | cons x rest ih =>
    obtain ⟨d0, V', ds', hs, hr, rfl⟩ := run_cons cfg V x rest ds Vf h
    simp only [List.map_cons, step_task cfg V x d0 V' hs, ih V' ds' hr]

theorem run_le (cfg : Cfg) (V : List Pool) (os : List Offered) (ds : List PlacementS)
    (Vf : List Pool) (hinv : ClusterInv V) (h : run cfg V os = .ok (ds, Vf)) :
    ClusterInv Vf ∧ ClusterLe Vf V := by
  induction os generalizing V ds with
  | nil => simp only [run] at h; cases h; exact ⟨hinv, ClusterLe.refl _⟩
  | cons x rest ih =>
    obtain ⟨d0, V', ds', hs, hr, rfl⟩ := run_cons cfg V x rest ds Vf h
    have h1 := step_le cfg V x d0 V' hinv hs
    have h2 := ih V' ds' h1.1 hr
    exact ⟨h2.1, ClusterLe.trans h2.2 h1.2⟩

/-! ### `copy(worker_pools)` -/

theorem copyPools_inv (live V0 : List Pool) (hinv : ClusterInv live) (h : copyPools live = .ok V0) :
    ClusterInv V0 := by
  induction live generalizing V0 with
  | nil => simp only [copyPools] at h; cases h; intro p hp; simp at hp
  | cons p r ih =>
    simp only [copyPools] at h
    split at h
    · rename_i c hc
      split at h
      · rename_i cs hcs
        cases h
        intro x hx
        rcases List.mem_cons.mp hx with rfl | hx
        · have := Pool.inv_copy p (hinv p (List.mem_cons_self ..))
          rw [hc] at this; exact this
        · exact ih cs (fun q hq => hinv q (List.mem_cons_of_mem _ hq)) hcs x hx
      · cases h
    · cases h

theorem copyPools_length (live V0 : List Pool) (h : copyPools live = .ok V0) : V0.length = live.length := by
  induction live generalizing V0 with
  | nil => simp only [copyPools] at h; cases h; rfl
  | cons p r ih =>
    simp only [copyPools] at h
    split at h
    · split at h
      · rename_i cs hcs
        cases h
        simp [ih cs hcs]
      · cases h
    · cases h

/-- Copies have as many workers as the originals. -/
theorem copyPools_workers (live V0 : List Pool) (h : copyPools live = .ok V0) (n : Nat)
    (hn : ∀ p ∈ live, p.workers.length ≤ n) : ∀ p ∈ V0, p.workers.length ≤ n := by
  induction live generalizing V0 with
  | nil => simp only [copyPools] at h; cases h; intro p hp; simp at hp
  | cons p r ih =>
    simp only [copyPools] at h
    split at h
    · rename_i c hc
      split at h
      · rename_i cs hcs
        cases h
        intro x hx
        rcases List.mem_cons.mp hx with rfl | hx
        · have hlen : p.copy.1.workers.length = p.workers.length := by
            simp only [Pool.copy]; split <;> simp
          rw [hc] at hlen
          rw [hlen]; exact hn p (List.mem_cons_self ..)
        · exact ih cs hcs (fun q hq => hn q (List.mem_cons_of_mem _ hq)) x hx
      · cases h
    · cases h

/-! ### what `schedule` returns -/

theorem schedule_ok (cfg : Cfg) (offer : List Offered) (live : List Pool) (r : Result)
    (h : schedule cfg offer live = .ok r) :
    copyPools live = .ok r.virt0 ∧ keyError? cfg offer = none ∧ r.order = order cfg offer ∧
    run cfg r.virt0 r.order = .ok (r.placements, r.virt) := by
  unfold schedule at h
  split at h
  · cases h
  · rename_i V0 hc
    split at h
    · cases h
    · rename_i hk
      split at h
      · cases h
      · rename_i ds V hr
        cases h
        exact ⟨hc, hk, rfl, hr⟩

/-! ### the virtual cluster is the reported placements charged to the copy -/

theorem account_cancel (V : List Pool) (o : Offered) : account V o.lid o.task.strategies (cancelP o) = V := rfl
theorem account_unplaced (V : List Pool) (o : Offered) : account V o.lid o.task.strategies (unplacedP o) = V := rfl

theorem account_placed (cfg : Cfg) (V : List Pool) (o : Offered) (i : Nat) (s : Strategy) (p : Pool)
    (hp : V[i]? = some p) :
    account V o.lid o.task.strategies (placedP cfg o i s)
      = V.set i (p.placeTask o.lid o.task.strategies (some s) none).1 := by
  simp only [account, placedP, hp]

/-- The pool-level choice when no strategy is given, for a single strategy: the same worker
as when that strategy is given. -/
theorem pickAny_single (ws : List Worker) (s : Strategy) (i : Nat) :
    Pool.placeTask.pickAny ws [s] i = (Pool.findIdx.go (·.canAccommodate s) ws i).map (·, some s) := by
  induction ws generalizing i with
  | nil => rfl
  | cons w r ih =>
    simp only [Pool.placeTask.pickAny, Pool.findIdx.go, List.find?]
    by_cases hc : w.canAccommodate s = true
    · simp [hc]
    · have hc : w.canAccommodate s = false := by simpa using hc
      simp [hc, ih]

theorem placeTask_none_single (p : Pool) (t : Nat) (s : Strategy) :
    p.placeTask t [s] none none = p.placeTask t [s] (some s) none := by
  unfold Pool.placeTask
  simp only [pickAny_single, Pool.findIdx]

/-- On a one-worker pool the pool's own choice is the first strategy of the list that fits
that worker. -/
theorem placeTask_none_oneWorker (p : Pool) (w : Worker) (t : Nat) (a b : List Strategy) (s : Strategy)
    (hw : p.workers = [w]) (ha : ∀ s' ∈ a, w.canAccommodate s' = false) (hs : w.canAccommodate s = true) :
    p.placeTask t (a ++ s :: b) none none = p.placeTask t (a ++ s :: b) (some s) none := by
  have hfind : (a ++ s :: b).find? w.canAccommodate = some s := by
    induction a with
    | nil => simp [hs]
    | cons x r ih =>
      have hx := ha x (List.mem_cons_self ..)
      simp only [List.cons_append, List.find?, hx]
      exact ih (fun s' hs' => ha s' (List.mem_cons_of_mem _ hs'))
  unfold Pool.placeTask
  simp only [hw, Pool.placeTask.pickAny, hfind, Pool.findIdx, Pool.findIdx.go, hs, if_true, Option.map]

/-- When is the virtual cluster charged with the reported strategy?  Always for a policy that
passes the strategy on; for LSF as it is, when every task still to be processed has at most one
strategy, or every pool has at most one worker. -/
def Safe (cfg : Cfg) (V : List Pool) (os : List Offered) : Prop :=
  cfg.policy.passesStrategy = true ∨ (∀ o ∈ os, o.task.strategies.length ≤ 1) ∨
  (∀ p ∈ V, p.workers.length ≤ 1)

theorem step_account (cfg : Cfg) (V : List Pool) (o : Offered) (rest : List Offered) (d : PlacementS)
    (V' : List Pool) (hsafe : Safe cfg V (o :: rest)) (hinv : ClusterInv V)
    (h : step cfg V o = .ok (d, V')) :
    account V o.lid o.task.strategies d = V' ∧ Safe cfg V' rest := by
  have hle := (step_le cfg V o d V' hinv h).2
  have hsafe' : Safe cfg V' rest := by
    rcases hsafe with h1 | h2 | h3
    · exact .inl h1
    · exact .inr (.inl (fun x hx => h2 x (List.mem_cons_of_mem _ hx)))
    · refine .inr (.inr ?_)
      intro p' hp'
      obtain ⟨i, hi, rfl⟩ := List.getElem_of_mem hp'
      have hi2 : i < V.length := hle.1 ▸ hi
      have := (hle.2 i _ _ (List.getElem?_eq_getElem hi) (List.getElem?_eq_getElem hi2)).1
      rw [this]
      exact h3 _ (List.getElem_mem hi2)
  refine ⟨?_, hsafe'⟩
  rcases step_cases cfg V o d V' h with ⟨_, rfl, rfl⟩ | ⟨_, _, rfl, rfl⟩ | ⟨s, i, p, p', b, _, hc, hp, hpl, rfl, rfl⟩
  · rfl
  · rfl
  · rw [account_placed cfg V o i s p hp]
    have key : p.placeTask o.lid o.task.strategies (passed cfg s) none
        = p.placeTask o.lid o.task.strategies (some s) none := by
      rcases hsafe with h1 | h2 | h3
      · simp [passed, h1]
      · by_cases hps : cfg.policy.passesStrategy = true
        · simp [passed, hps]
        · obtain ⟨a, b', hab, _, _⟩ := choose_some V _ s i hc
          have hlen := h2 o (List.mem_cons_self ..)
          have : o.task.strategies = [s] := by
            rw [hab] at hlen ⊢
            cases a with
            | nil =>
              cases b' with
              | nil => rfl
              | cons _ _ => simp at hlen
            | cons _ _ => simp at hlen
          simp only [passed, hps, this]
          exact placeTask_none_single p o.lid s
      · by_cases hps : cfg.policy.passesStrategy = true
        · simp [passed, hps]
        · obtain ⟨a, b', hab, ha, hf⟩ := choose_some V _ s i hc
          obtain ⟨j, q, hij, hq, hcq, _⟩ := firstPool_some s V 0 i hf
          have hji : j = i := by omega
          subst hji
          rw [hp] at hq; cases hq
          have hpl1 := h3 p (List.mem_of_getElem? hp)
          have hne : p.workers ≠ [] := by
            intro e
            simp [Pool.canAccommodate, e] at hcq
          obtain ⟨w, hw⟩ : ∃ w, p.workers = [w] := by
            cases hws : p.workers with
            | nil => exact absurd hws hne
            | cons w r =>
              cases r with
              | nil => exact ⟨w, rfl⟩
              | cons _ _ => rw [hws] at hpl1; simp at hpl1
          have hsw : w.canAccommodate s = true := by
            simpa [Pool.canAccommodate, hw] using hcq
          have haw : ∀ s' ∈ a, w.canAccommodate s' = false := by
            intro s' hs'
            have := (fitsSomewhere_false_iff V s').mp (ha s' hs') p (List.mem_of_getElem? hp) w (by simp [hw])
            exact this
          simp only [passed, hps, hab]
          exact placeTask_none_oneWorker p w o.lid a b' s hw haw hsw
    rw [← key, hpl]

theorem run_account (cfg : Cfg) (V : List Pool) (os : List Offered) (ds : List PlacementS)
    (Vf : List Pool) (hsafe : Safe cfg V os) (hinv : ClusterInv V)
    (h : run cfg V os = .ok (ds, Vf)) : accountAll V os ds = Vf := by
  induction os generalizing V ds with
  | nil => simp only [run] at h; cases h; rfl
  | cons x rest ih =>
    obtain ⟨d0, V', ds', hs, hr, rfl⟩ := run_cons cfg V x rest ds Vf h
    obtain ⟨hacc, hsafe'⟩ := step_account cfg V x rest d0 V' hsafe hinv hs
    simp only [accountAll, hacc]
    exact ih V' ds' hsafe' (step_le cfg V x d0 V' hinv hs).1 hr

end ErdosVerif.Model.Greedy
