import ErdosVerif.Model.SimOrder
import Std.Data.String.ToNat
/-!
Lemmas for C09.

* What `logUtilizationWith ord` does to a simulator state, computed exactly: it appends
  `utilRows ord time pools` to the trace, changes nothing else and never raises.
* The label functions of the simulator model (`Sim.tlabel`, `Sim.plabel`) are injective
  and have disjoint ranges.
-/
namespace ErdosVerif.Model
namespace SimOrder
open Sim

/-! ### running the monadic loops -/

theorem row_run (r : Row) (s : SimS) : (row r).run.run s = (.ok (), { s with rows := s.rows.push r }) := rfl

/-- Running `x >>= f` when the run of `x` is known. -/
theorem bind_run {α β} (x : SimM α) (f : α → SimM β) (s : SimS) (a : α) (s' : SimS)
    (h : x.run.run s = (.ok a, s')) : (x >>= f).run.run s = (f a).run.run s' := by
  simp only [ExceptT.run_bind, StateT.run_bind] at *
  rw [h]; rfl

/-- The inner loop (`for resource_name in <order>`): one row per name, in that order. -/
theorem inner_run (f : String → Row) (names : List String) (s : SimS) :
    (forIn (m := SimM) names PUnit.unit (fun nm _ => do row (f nm); pure (ForInStep.yield PUnit.unit))).run.run s
      = (.ok PUnit.unit, { s with rows := s.rows ++ (names.map f).toArray }) := by
  induction names generalizing s with
  | nil => simp; rfl
  | cons a l ih =>
    simp only [List.forIn_cons, List.map_cons, bind_assoc, pure_bind]
    rw [bind_run _ _ s () _ (row_run (f a) s), ih]
    simp

/-- The outer loop (`for worker_pool in self._worker_pools.worker_pools`). -/
theorem outer_run (ord : Order) (time : Int) (l : List (Pool × Nat)) (s : SimS) :
    (forIn (m := SimM) l PUnit.unit (fun x _ => do
        let res := x.1.resources
        let names := ord x.2 (res.total.map (·.1.name)).eraseDups
        forIn names PUnit.unit (fun nm _ => do
          let k : Res := ⟨nm, none⟩
          row [istr time, "WORKER_POOL_UTILIZATION", plabel x.2, nm, istr (res.allocatedQ k), nstr (res.availQ k)]
          pure (ForInStep.yield PUnit.unit))
        pure (ForInStep.yield PUnit.unit))).run.run s
      = (.ok PUnit.unit, { s with rows := s.rows ++
          (l.flatMap fun (p, i) => poolRows time i p.resources (ord i (nameSet p.resources))).toArray }) := by
  induction l generalizing s with
  | nil => simp; rfl
  | cons a l ih =>
    simp only [List.forIn_cons, bind_assoc, pure_bind, List.flatMap_cons]
    have h := inner_run (utilRow time a.2 a.1.resources) (ord a.2 (nameSet a.1.resources)) s
    refine (bind_run _ _ s PUnit.unit _ h).trans ?_
    rw [ih]
    simp [poolRows]

/-- `logUtilizationWith ord time` appends exactly `utilRows ord time pools` to the trace,
leaves every other component of the state alone and does not raise. -/
theorem logUtilizationWith_run (ord : Order) (time : Int) (s : SimS) :
    (logUtilizationWith ord time).run.run s
      = (.ok (), { s with rows := s.rows ++ (utilRows ord time s.pools.toList).toArray }) := by
  unfold logUtilizationWith
  have hg : (get : SimM SimS).run.run s = (.ok s, s) := rfl
  refine (bind_run _ _ s s s hg).trans ?_
  refine (bind_run _ _ s PUnit.unit _ (outer_run ord time s.pools.toList.zipIdx s)).trans ?_
  rfl

/-! ### labels -/

theorem tlabel_toList (t : TaskId) :
    (tlabel t).toList = 'g' :: (Nat.toDigits 10 t.g ++ '.' :: 't' :: Nat.toDigits 10 t.t) := by
  simp [tlabel, toString]

theorem plabel_toList (p : Nat) : (plabel p).toList = 'p' :: Nat.toDigits 10 p := by
  simp [plabel, toString]

/-- Splitting at the first occurrence of a separator is unique. -/
theorem append_sep_inj {α} {x : α} : ∀ {l₁ l₂ r₁ r₂ : List α}, x ∉ l₁ → x ∉ l₂ →
    l₁ ++ x :: r₁ = l₂ ++ x :: r₂ → l₁ = l₂ ∧ r₁ = r₂
  | [], [], _, _, _, _, h => by simpa using h
  | [], b :: l₂, _, _, _, h₂, h => by
    simp only [List.nil_append, List.cons_append, List.cons.injEq] at h
    exact absurd (h.1 ▸ List.mem_cons_self) h₂
  | a :: l₁, [], _, _, h₁, _, h => by
    simp only [List.nil_append, List.cons_append, List.cons.injEq] at h
    exact absurd (h.1 ▸ List.mem_cons_self) h₁
  | a :: l₁, b :: l₂, _, _, h₁, h₂, h => by
    simp only [List.cons_append, List.cons.injEq] at h
    have := append_sep_inj (fun m => h₁ (List.mem_cons_of_mem _ m)) (fun m => h₂ (List.mem_cons_of_mem _ m)) h.2
    exact ⟨by rw [h.1, this.1], this.2⟩

theorem dot_not_digit (n : Nat) : '.' ∉ Nat.toDigits 10 n := fun h => by
  have := Nat.isDigit_of_mem_toDigits (by decide) (by decide) h
  revert this; decide

theorem toDigits_inj {m n : Nat} (h : Nat.toDigits 10 m = Nat.toDigits 10 n) : m = n :=
  Nat.repr_injective (by rw [Nat.repr_eq_ofList_toDigits, Nat.repr_eq_ofList_toDigits, h])

theorem tlabel_inj {a b : TaskId} (h : tlabel a = tlabel b) : a = b := by
  have h' := congrArg String.toList h
  rw [tlabel_toList, tlabel_toList] at h'
  simp only [List.cons.injEq, true_and] at h'
  obtain ⟨hg, ht⟩ := append_sep_inj (dot_not_digit _) (dot_not_digit _) h'
  simp only [List.cons.injEq, true_and] at ht
  cases a; cases b
  simp only [TaskId.mk.injEq]
  exact ⟨toDigits_inj hg, toDigits_inj ht⟩

theorem plabel_inj {a b : Nat} (h : plabel a = plabel b) : a = b := by
  have h' := congrArg String.toList h
  rw [plabel_toList, plabel_toList] at h'
  simp only [List.cons.injEq, true_and] at h'
  exact toDigits_inj h'

theorem tlabel_ne_plabel (t : TaskId) (p : Nat) : tlabel t ≠ plabel p := fun h => by
  have h' := congrArg String.toList h
  rw [tlabel_toList, plabel_toList] at h'
  simp at h'

end SimOrder
end ErdosVerif.Model
