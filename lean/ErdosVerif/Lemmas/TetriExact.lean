/-
`sigmaOf I plan` is a feasible point of `gen I` that decodes to `plan`: completeness, and with
soundness the exactness of both formulations for the specification.
-/
import ErdosVerif.Lemmas.TetriWitness
namespace ErdosVerif.Tetri
open ErdosVerif.Mip ErdosVerif.TetriSpec

variable {I : Inst} {plan : Plan}

/-! ### Variable domains -/

theorem now_nonneg (hwf : I.wf = true) : 0 ≤ I.now := by
  simp only [Inst.wf, Inst.wfGrid, Bool.and_eq_true, decide_eq_true_eq] at hwf
  exact hwf.1.2.1.1.1.2

theorem cellVars_ok {t : Nat} {d : VarDecl Var} (hd : d ∈ I.cellVars t) : d.ok (sigmaOf I plan) := by
  simp only [Inst.cellVars, List.mem_map] at hd
  obtain ⟨q, _, rfl⟩ := hd
  apply binDecl_ok
  simp only [sigmaOf]
  exact ite01 _

theorem placedVar_ok {t : Nat} {d : VarDecl Var} (hd : d ∈ I.placedVar t) : d.ok (sigmaOf I plan) := by
  unfold Inst.placedVar at hd
  split at hd
  · simp at hd
  · simp only [List.mem_singleton] at hd
    subst hd
    apply binDecl_ok
    simp only [sigmaOf]
    exact ite01 _

theorem taskVarsG_ok (hwf : I.wf = true) {t : Nat} {d : VarDecl Var} (hd : d ∈ I.taskVarsG t) :
    d.ok (sigmaOf I plan) := by
  simp only [Inst.taskVarsG, List.mem_append, List.mem_flatMap, List.mem_map, List.mem_filter, List.mem_range,
    List.mem_cons, List.mem_singleton, List.not_mem_nil, or_false] at hd
  rcases hd with (((hd | ⟨k, _, hd | hd⟩) | hd) | ⟨k, _, hd⟩) | hd
  · exact cellVars_ok hd
  · subst hd
    apply binDecl_ok
    simp only [sigmaOf]
    cases plan.get t with
    | none => simp
    | some c => exact ite01 _
  · subst hd
    apply binDecl_ok
    simp only [sigmaOf]
    cases plan.get t with
    | none => simp
    | some c => by_cases h : c.2.1 = k <;> simp [h]
  · subst hd
    have h0 := now_nonneg hwf
    refine ⟨(by intro h; cases h), fun _ => ⟨?_, trivial⟩⟩
    show (0 : Int) ≤ sigmaOf I plan (.start t)
    simp only [sigmaOf]
    cases plan.get t with
    | none => simp only [Inst.slot]; omega
    | some c => simp only [Inst.slot]; omega
  · subst hd
    apply binDecl_ok
    simp only [sigmaOf]
    cases plan.get t with
    | none => simp
    | some c => exact ite01 _
  · exact placedVar_ok hd

theorem taskVarsC_ok (hv : ValidPlan I plan) {t : Nat} (ht : t ∈ I.nonRunning) {d : VarDecl Var}
    (hd : d ∈ I.taskVarsC t) : d.ok (sigmaOf I plan) := by
  simp only [Inst.taskVarsC, List.mem_append, List.mem_singleton] at hd
  rcases hd with (hd | hd) | hd
  · exact cellVars_ok hd
  · exact placedVar_ok hd
  · subst hd
    have hden : 1 ≤ I.den := by unfold Inst.den; split <;> omega
    refine ⟨(by intro h; cases h), fun _ => ?_⟩
    show (0 : Int) ≤ sigmaOf I plan (.reward t) ∧ sigmaOf I plan (.reward t) ≤ 4 * (I.den : Int)
    simp only [sigmaOf]
    cases hp : plan.get t with
    | none => simp only; omega
    | some c =>
      have := rew_bounds I (mem_keys.mp (plan_nonRunning_hasVar hv ht hp).1).2.1
      simp only
      omega

/-! ### Feasibility of the witness -/

theorem reward_hold (hv : ValidPlan I plan) (hwf : I.wf = true) (hm : I.noModel = false)
    {t : Nat} (ht : t ∈ I.nonRunning) : (I.cRewardC t).holds (sigmaOf I plan) := by
  have hI := ind_sigmaOf hv hwf hm
  simp only [Inst.cRewardC, Constr.holds, Sense.holds, LinExpr.eval_sub, LinExpr.eval_ofVar,
    rewardSum_ind hI (act_of_nonRunning ht), sigmaOf]
  cases plan.get t <;> simp

/-- **The witness is a feasible point** (Gurobi formulation: when the dependencies among the
tasks of the call are acyclic). -/
theorem sigmaOf_sat (hv : ValidPlan I plan) (hwf : I.wf = true) (hm : I.noModel = false)
    (hac : I.cplex = false → wfAcyclic I = true) : sat (sigmaOf I plan) (gen I) := by
  unfold gen
  by_cases hc : I.cplex = true
  · simp only [hc, if_true]
    constructor
    · intro d hd
      simp only [genC, Inst.varsC, List.mem_flatMap] at hd
      obtain ⟨t, ht, hd⟩ := hd
      exact taskVarsC_ok hv ht hd
    · intro c hcm
      simp only [genC, Inst.constrsC, List.mem_append, List.mem_flatMap, List.mem_singleton] at hcm
      rcases hcm with ⟨t, ht, hcm | hcm⟩ | hcm
      · exact place_hold hv hwf hm ht hcm
      · subst hcm; exact reward_hold hv hwf hm ht
      · exact res_hold hv hwf hm hcm
  · have hG : I.cplex = false := by simpa using hc
    simp only [hG, Bool.false_eq_true, if_false]
    constructor
    · intro d hd
      simp only [genG, Inst.varsG, List.mem_append, List.mem_flatMap, List.mem_map, List.mem_filter] at hd
      rcases hd with ⟨t, _, hd⟩ | ⟨t, _, rfl⟩
      · exact taskVarsG_ok hwf hd
      · apply binDecl_ok
        simp only [sigmaOf]
        exact ite01 _
    · intro c hcm
      simp only [genG, Inst.constrsG, List.mem_append, List.mem_flatMap] at hcm
      rcases hcm with (⟨t, ht, hcm | hcm⟩ | ⟨t, ht, hcm⟩) | hcm
      · exact slots_hold hv hwf hm ht hcm
      · exact place_hold hv hwf hm ht hcm
      · exact deps_hold hv hG hwf hm (hac hG) ht hcm
      · exact res_hold hv hwf hm hcm

/-! ### The witness decodes to the plan -/

theorem find?_unique {α : Type} {p : α → Bool} {l : List α} {a : α} (ha : a ∈ l) (hpa : p a = true)
    (hu : ∀ b ∈ l, p b = true → b = a) : l.find? p = some a := by
  induction l with
  | nil => simp at ha
  | cons x xs ih =>
    by_cases hx : p x = true
    · have := hu x (by simp) hx
      subst this
      simp [List.find?_cons, hx]
    · have hxa : a ∈ xs := by
        simp only [List.mem_cons] at ha
        rcases ha with rfl | ha
        · exact absurd hpa hx
        · exact ha
      simp only [List.find?_cons, hx]
      exact ih hxa (fun b hb => hu b (by simp [hb]))

theorem chosen_sigmaOf (hv : ValidPlan I plan) {t : Nat} (ht : t ∈ I.nonRunning) :
    I.chosen (sigmaOf I plan) t = plan.get t := by
  unfold Inst.chosen
  cases hp : plan.get t with
  | none =>
    apply List.find?_eq_none.mpr
    intro q _
    simp [sigmaOf, hp]
  | some c =>
    obtain ⟨hk, hvar⟩ := plan_nonRunning_hasVar hv ht hp
    apply find?_unique hk
    · simp [sigmaOf, hp, hvar]
    · intro b _ hb
      simp only [Bool.and_eq_true, beq_iff_eq, sigmaOf, hp, Option.some.injEq] at hb
      by_cases hbc : c = (b.1, b.2.1, b.2.2)
      · exact hbc.symm
      · simp [hbc] at hb

theorem planOf_sigmaOf (hv : ValidPlan I plan) : planOf I (sigmaOf I plan) = plan := by
  apply List.ext_getElem
  · rw [planOf_length, hv.len]
  · intro t h1 h2
    rw [planOf_length] at h1
    have hg1 : (planOf I (sigmaOf I plan)).get t = (planOf I (sigmaOf I plan))[t] := by
      have hl : t < (planOf I (sigmaOf I plan)).length := by rw [planOf_length]; exact h1
      simp [Plan.get, List.getD_eq_getElem?_getD, hl]
    have hg2 : plan.get t = plan[t] := by
      simp [Plan.get, List.getD_eq_getElem?_getD, h2]
    rw [← hg1, ← hg2, planOf_get _ h1]
    by_cases ha : I.active t = true
    · simp only [ha, if_true, pick]
      by_cases hr : I.running t = true
      · simp [hr, hv.running t h1 ha hr]
      · have hr' : I.running t = false := by simpa using hr
        simp only [hr', Bool.false_eq_true, if_false]
        exact chosen_sigmaOf hv (mem_nonRunning.mpr ⟨h1, ha, hr'⟩)
    · have ha' : I.active t = false := by simpa using ha
      simp [ha', hv.inactive t h1 ha']

/-- **Completeness.** Every valid plan of the specification is the decoded plan of a feasible
point of `gen I`, whose objective is the plan's reward. -/
theorem tetri_complete (hv : ValidPlan I plan) (hwf : I.wf = true) (hm : I.noModel = false)
    (hac : I.cplex = false → wfAcyclic I = true) :
    ∃ σ, sat σ (gen I) ∧ planOf I σ = plan ∧ objective σ (gen I) = planReward I plan := by
  have hs := sigmaOf_sat hv hwf hm hac
  refine ⟨sigmaOf I plan, hs, planOf_sigmaOf hv, ?_⟩
  have := objective_eq_planReward hs hwf hm
  rwa [planOf_sigmaOf hv] at this

end ErdosVerif.Tetri
