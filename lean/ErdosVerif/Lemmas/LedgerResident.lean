import ErdosVerif.Lemmas.Ledger
/-!
Residency: on which workers of a pool a task is placed. A successful
`WorkerPool.place_task` of a task that is resident nowhere in the pool makes it resident
on exactly one worker and changes the residency of no other task. Core Lean only.
-/
namespace ErdosVerif.Model

theorem AList.has_set {κ υ : Type} [DecidableEq κ] (l : AList κ υ) (k x : κ) (v : υ) :
    (l.set k v).has x = (decide (k = x) || l.has x) := by
  unfold AList.has
  rw [AList.get?_set]
  by_cases h : k = x <;> simp [h]

namespace Worker

/-- `place_task` on a worker: on success the task is resident and nobody else's residency
changes; on refusal nobody's residency changes. -/
theorem placeTask_has (w : Worker) (t : Nat) (s : Strategy) (u : Nat) :
    (w.placeTask t s).1.placed.has u =
      (if (w.placeTask t s).2 = .ok then (decide (t = u) || w.placed.has u) else w.placed.has u) := by
  unfold placeTask
  split
  · split
    · split
      · simp
      · cases hres : w.res.allocateMultiple s.req (.batch w.fresh) with
        | mk r o => cases o <;> simp [AList.has_set]
    · split
      · simp
      · simp [AList.has_set]
  · cases hres : w.res.allocateMultiple s.req (.task t) with
    | mk r o => cases o <;> simp [AList.has_set]

end Worker

namespace Pool

/-- The workers (indices) of the pool on which task `t` is resident. -/
def hostsOf (p : Pool) (t : Nat) : List Nat :=
  (List.range p.workers.length).filter (fun i =>
    match p.workers[i]? with
    | some w => w.placed.has t
    | none => false)

theorem hostsOf_setWorker (p : Pool) (i : Nat) (w w' : Worker) (u : Nat) (hi : p.workers[i]? = some w)
    (h : w'.placed.has u = w.placed.has u) : (p.setWorker i w').hostsOf u = p.hostsOf u := by
  unfold hostsOf setWorker
  simp only [List.length_set]
  apply List.filter_congr
  intro j hj
  by_cases hji : j = i
  · subst hji
    have hlt : j < p.workers.length := by simpa using hj
    obtain ⟨_, he⟩ := List.getElem?_eq_some_iff.mp hi
    simp [hlt, h, he]
  · have : i ≠ j := fun e => hji e.symm
    simp [List.getElem?_set, this]

theorem filter_eq_range (n i : Nat) (h : i < n) : (List.range n).filter (fun j => decide (j = i)) = [i] := by
  induction n with
  | zero => omega
  | succ n ih =>
    rw [List.range_succ, List.filter_append]
    by_cases hi : i < n
    · rw [ih hi]
      have : n ≠ i := by omega
      simp [this]
    · have hin : i = n := by omega
      subst hin
      have : (List.range i).filter (fun j => decide (j = i)) = [] := by
        apply List.filter_eq_nil_iff.mpr
        intro a ha
        simp only [List.mem_range] at ha
        simp only [decide_eq_true_eq]
        omega
      simp [this]

theorem hostsOf_setWorker_new (p : Pool) (i : Nat) (w w' : Worker) (t : Nat) (hi : p.workers[i]? = some w)
    (hnone : ∀ x ∈ p.workers, x.placed.has t = false) (h : w'.placed.has t = true) :
    (p.setWorker i w').hostsOf t = [i] := by
  have hlt : i < p.workers.length := by
    rcases List.getElem?_eq_some_iff.mp hi with ⟨h, _⟩; exact h
  unfold hostsOf setWorker
  simp only [List.length_set]
  have : ∀ j ∈ List.range p.workers.length,
      (match (p.workers.set i w')[j]? with | some x => x.placed.has t | none => false) = decide (j = i) := by
    intro j hj
    by_cases hji : j = i
    · subst hji; simp [List.getElem?_set, hlt, h]
    · have hne : i ≠ j := fun e => hji e.symm
      simp only [List.getElem?_set, hne, if_false, hji, decide_false]
      cases hw : p.workers[j]? with
      | none => rfl
      | some x => exact hnone x (List.mem_of_getElem? hw)
  rw [List.filter_congr this]
  exact filter_eq_range _ _ hlt

/-- **A task never draws resources from more than one worker of a pool**: a successful
`WorkerPool.place_task` of a task that is resident on no worker of the pool makes it
resident on exactly one worker, and the residency of every other task is unchanged. -/
theorem placeTask_single_host (p : Pool) (t : Nat) (strats : List Strategy) (s? : Option Strategy) (wid? : Option Nat)
    (hnone : ∀ x ∈ p.workers, x.placed.has t = false)
    (hok : (p.placeTask t strats s? wid?).2 = .ok true) :
    (∃ i, (p.placeTask t strats s? wid?).1.hostsOf t = [i]) ∧
    ∀ u, u ≠ t → (p.placeTask t strats s? wid?).1.hostsOf u = p.hostsOf u := by
  revert hok
  unfold placeTask
  simp only []
  split
  · intro h; simp at h
  · intro h; simp at h
  · intro h; simp at h
  · rename_i i s _
    cases hw : p.workers[i]? with
    | none => intro h; simp at h
    | some w =>
      simp only []
      cases hp : w.placeTask t s with
      | mk w' o =>
        cases o with
        | raised e => intro h; simp at h
        | ok =>
          intro _
          have hw'u := fun u => Worker.placeTask_has w t s u
          simp only [hp, if_true] at hw'u
          constructor
          · refine ⟨i, ?_⟩
            have : (({ (p.setWorker i w') with placed := p.placed.set t i } : Pool)).hostsOf t = (p.setWorker i w').hostsOf t := rfl
            rw [this]
            exact hostsOf_setWorker_new p i w w' t hw hnone (by rw [hw'u t]; simp)
          · intro u hu
            have : (({ (p.setWorker i w') with placed := p.placed.set t i } : Pool)).hostsOf u = (p.setWorker i w').hostsOf u := rfl
            rw [this]
            apply hostsOf_setWorker p i w w' u hw
            rw [hw'u u]
            have : ¬ t = u := fun e => hu e.symm
            simp [this]

end Pool
end ErdosVerif.Model
