/-
Specification of `breadth_first(node)` (BFS started from a given node) of the
graph model M3 on simple DAGs, for the code as repaired by /repo commit a5de234:
it raises nothing (in particular the fuel suffices), yields exactly the nodes
reachable from the start node, each once, and yields every node after all of
its parents that are reachable from the start node.

The proof is the argument of `Lemmas/GraphBfs.lean` relativised to the set of
nodes reachable from the start node.

Core Lean only.
-/
import ErdosVerif.Lemmas.GraphBasic
import ErdosVerif.Lemmas.GraphDfs
import ErdosVerif.Lemmas.GraphBfs

namespace ErdosVerif.Model.Graph

/-! ### Reachability helpers -/

/-- Last-edge inversion of `Reach`. -/
theorem Reach.eq_or_last_edge {g : Graph} {u w : Nat} (h : g.Reach u w) :
    w = u ∨ ∃ p, g.Reach u p ∧ g.Edge p w := by
  induction h with
  | refl => exact .inl rfl
  | @head a b c e _ ih =>
    rcases ih with rfl | ⟨p, hp, hpe⟩
    · exact .inr ⟨a, .refl a, e⟩
    · exact .inr ⟨p, .head e hp, hpe⟩

/-! ### The loop with the `reachable_nodes` filter -/

/-- The parent filter of `breadth_first(node)`: `parent in reachable_nodes`. -/
abbrev depIn (rl : List Nat) : Nat → Except String Bool := fun p => .ok (rl.contains p)

/-- `all(parent in visited for parent in ps if parent in rl)`. -/
def readyIn (g : Graph) (rl visited : List Nat) (c : Nat) : Bool :=
  (g.parentsOf c).all (fun p => !rl.contains p || visited.contains p)

theorem readyIn_iff {g : Graph} {rl visited : List Nat} {c : Nat} :
    readyIn g rl visited c = true ↔ ∀ p ∈ g.parentsOf c, p ∈ rl → p ∈ visited := by
  simp only [readyIn, List.all_eq_true, Bool.or_eq_true, Bool.not_eq_true', List.contains_iff_mem,
    ← Bool.not_eq_true]
  constructor
  · intro h p hp hr
    rcases h p hp with h | h
    · exact absurd hr h
    · exact h
  · intro h p hp
    by_cases hr : p ∈ rl
    · exact .inr (h p hp hr)
    · exact .inl hr

theorem allParentsVisited_depIn (rl visited ps : List Nat) :
    allParentsVisited (depIn rl) visited ps
      = .ok (ps.all (fun p => !rl.contains p || visited.contains p)) := by
  induction ps with
  | nil => rfl
  | cons p ps ih =>
    simp only [allParentsVisited, List.all_cons]
    rw [ih]
    by_cases hr : p ∈ rl <;> by_cases hv : p ∈ visited <;> simp [depIn, hr, hv]

theorem bfsChildren_depIn (g : Graph) (rl visited : List Nat) (cs frontier : List Nat)
    (hcs : ∀ c ∈ cs, g.hasNode c = true)
    (hg : ∀ c ∈ cs, readyIn g rl visited c = true → visited.contains c = false) :
    bfsChildren g (depIn rl) true visited cs frontier
      = .ok (frontier ++ cs.filter (readyIn g rl visited)) := by
  induction cs generalizing frontier with
  | nil => simp [bfsChildren]
  | cons c cs ih =>
    have hc : g.hasNode c = true := hcs c (by simp)
    have hcs' : ∀ c ∈ cs, g.hasNode c = true := fun c h => hcs c (by simp [h])
    have hg' : ∀ c ∈ cs, readyIn g rl visited c = true → visited.contains c = false :=
      fun c h => hg c (by simp [h])
    simp only [bfsChildren, hc, if_true, allParentsVisited_depIn]
    by_cases hr : readyIn g rl visited c = true
    · have hr' : (g.parentsOf c).all (fun p => !rl.contains p || visited.contains p) = true := hr
      have hnv : visited.contains c = false := hg c (by simp) hr
      simp only [hr', hnv, Bool.and_false, Bool.false_eq_true, if_false]
      rw [ih _ hcs' hg']
      simp [hr]
    · simp only [Bool.not_eq_true] at hr
      have hr' : (g.parentsOf c).all (fun p => !rl.contains p || visited.contains p) = false := hr
      simp only [hr']
      rw [ih _ hcs' hg']
      simp [hr]

/-- Loop invariant of `breadth_first(n)` (`visited` is `acc.reverse`), everything
relative to the nodes reachable from `n`. -/
structure BfsNodeInv (g : Graph) (n : Nat) (frontier acc : List Nat) : Prop where
  nodup : (acc ++ frontier).Nodup
  front : ∀ x, x ∈ frontier ↔
    x ∉ acc ∧ g.Reach n x ∧ ∀ p ∈ g.parentsOf x, g.Reach n p → p ∈ acc
  done : ∀ x ∈ acc, g.Reach n x ∧ ∀ p ∈ g.parentsOf x, g.Reach n p → Before acc p x

theorem BfsNodeInv.init {g : Graph} (wf : g.WF) (hac : g.Acyclic) (n : Nat) :
    BfsNodeInv g n [n] [] where
  nodup := by simp
  front := by
    intro x
    constructor
    · intro hx
      have hxn : x = n := by simpa using hx
      subst hxn
      refine ⟨by simp, .refl _, ?_⟩
      intro p hp hr
      exact absurd ⟨p, x, wf.mem_parentsOf.mp hp, hr⟩ hac
    · rintro ⟨-, hr, hpar⟩
      rcases hr.eq_or_last_edge with rfl | ⟨p, hp, hpe⟩
      · simp
      · exact absurd (hpar p (wf.mem_parentsOf.mpr hpe) hp) (by simp)
  done := by simp

theorem BfsNodeInv.mem_acc_of_before {g : Graph} {n : Nat} {frontier acc : List Nat}
    (inv : BfsNodeInv g n frontier acc) {x p : Nat} (hx : x ∈ acc) (hp : p ∈ g.parentsOf x)
    (hr : g.Reach n p) : p ∈ acc := by
  have hb := (inv.done x hx).2 p hp hr
  unfold Before at hb
  have : acc.idxOf x < acc.length := List.idxOf_lt_length_iff.mpr hx
  exact List.idxOf_lt_length_iff.mp (by omega)

/-- One iteration of the loop preserves the invariant. -/
theorem BfsNodeInv.step {g : Graph} (wf : g.WF) (hs : g.Simple) {n : Nat} {rl : List Nat}
    (hrl : ∀ m, m ∈ rl ↔ g.Reach n m) {cur : Nat} {rest acc : List Nat}
    (inv : BfsNodeInv g n (cur :: rest) acc) :
    BfsNodeInv g n (rest ++ (g.childrenOf cur).filter (readyIn g rl (cur :: acc.reverse)))
      (acc ++ [cur]) := by
  have hnd := inv.nodup
  rw [List.nodup_append] at hnd
  obtain ⟨hnd_acc, hnd_fr, hdisj⟩ := hnd
  obtain ⟨hcur_rest, hnd_rest⟩ := List.nodup_cons.mp hnd_fr
  have hcur_front := (inv.front cur).mp (by simp)
  obtain ⟨hcur_acc, hcur_reach, hcur_par⟩ := hcur_front
  have hready : ∀ c, readyIn g rl (cur :: acc.reverse) c = true ↔
      ∀ p ∈ g.parentsOf c, g.Reach n p → p ∈ acc ∨ p = cur := by
    intro c
    rw [readyIn_iff]
    constructor
    · intro h p hp hr
      have := h p hp ((hrl p).mpr hr)
      simp at this
      rcases this with h | h
      · exact Or.inr h
      · exact Or.inl h
    · intro h p hp hr
      rcases h p hp ((hrl p).mp hr) with h | h <;> simp [h]
  -- a child of `cur` is fresh
  have hfresh : ∀ c, g.Edge cur c → c ∉ acc ∧ c ≠ cur ∧ c ∉ rest := by
    intro c he
    have hpc : cur ∈ g.parentsOf c := wf.mem_parentsOf.mpr he
    refine ⟨?_, ?_, ?_⟩
    · intro hc
      exact hcur_acc (inv.mem_acc_of_before hc hpc hcur_reach)
    · intro hc
      subst hc
      exact hcur_acc (hcur_par _ hpc hcur_reach)
    · intro hc
      have := (inv.front c).mp (by simp [hc])
      exact hcur_acc (this.2.2 _ hpc hcur_reach)
  refine ⟨?_, ?_, ?_⟩
  · -- nodup
    rw [List.append_assoc, List.singleton_append, List.nodup_append]
    refine ⟨hnd_acc, ?_, ?_⟩
    · rw [List.nodup_cons]
      refine ⟨?_, ?_⟩
      · intro h
        rcases List.mem_append.mp h with h | h
        · exact hcur_rest h
        · have he : g.Edge cur cur := (List.mem_filter.mp h).1
          exact (hfresh cur he).2.1 rfl
      · rw [List.nodup_append]
        refine ⟨hnd_rest, (hs cur).sublist List.filter_sublist, ?_⟩
        intro a ha b hb hab
        subst hab
        have he : g.Edge cur a := (List.mem_filter.mp hb).1
        exact (hfresh a he).2.2 ha
    · intro a ha b hb hab
      subst hab
      rcases List.mem_cons.mp hb with h | h
      · subst h; exact hcur_acc ha
      · rcases List.mem_append.mp h with h | h
        · exact hdisj a ha a (by simp [h]) rfl
        · have he : g.Edge cur a := (List.mem_filter.mp h).1
          exact (hfresh a he).1 ha
  · -- frontier characterisation
    intro x
    constructor
    · intro hx
      rcases List.mem_append.mp hx with hx | hx
      · have hxf := (inv.front x).mp (by simp [hx])
        refine ⟨?_, hxf.2.1, ?_⟩
        · intro h
          rcases List.mem_append.mp h with h | h
          · exact hxf.1 h
          · have hxc : x = cur := by simpa using h
            rw [hxc] at hx
            exact hcur_rest hx
        · intro p hp hr
          exact List.mem_append_left _ (hxf.2.2 p hp hr)
      · obtain ⟨hxc, hxr⟩ := List.mem_filter.mp hx
        have he : g.Edge cur x := hxc
        obtain ⟨h1, h2, -⟩ := hfresh x he
        refine ⟨?_, hcur_reach.tail he, ?_⟩
        · intro h
          rcases List.mem_append.mp h with h | h
          · exact h1 h
          · simp at h; exact h2 h
        · intro p hp hr
          rcases (hready x).mp hxr p hp hr with h | h
          · exact List.mem_append_left _ h
          · simp [h]
    · rintro ⟨hx_acc, hx_reach, hx_par⟩
      have hx_acc' : x ∉ acc := fun h => hx_acc (List.mem_append_left _ h)
      have hx_cur : x ≠ cur := fun h => hx_acc (by simp [h])
      have hx_par' : ∀ p ∈ g.parentsOf x, g.Reach n p → p ∈ acc ∨ p = cur := by
        intro p hp hr
        rcases List.mem_append.mp (hx_par p hp hr) with h | h
        · exact Or.inl h
        · simp at h; exact Or.inr h
      by_cases hcp : cur ∈ g.parentsOf x
      · refine List.mem_append_right _ (List.mem_filter.mpr ⟨?_, (hready x).mpr hx_par'⟩)
        exact wf.mem_parentsOf.mp hcp
      · have : x ∈ cur :: rest := by
          refine (inv.front x).mpr ⟨hx_acc', hx_reach, ?_⟩
          intro p hp hr
          rcases hx_par' p hp hr with h | h
          · exact h
          · subst h; exact absurd hp hcp
        rcases List.mem_cons.mp this with h | h
        · exact absurd h hx_cur
        · exact List.mem_append_left _ h
  · -- reachable parents first
    intro x hx
    rcases List.mem_append.mp hx with hx | hx
    · obtain ⟨h1, h2⟩ := inv.done x hx
      exact ⟨h1, fun p hp hr => (h2 p hp hr).append_right hx _⟩
    · have hxc : x = cur := by simpa using hx
      rw [hxc]
      exact ⟨hcur_reach, fun p hp hr => Before.of_mem_append_new (hcur_par p hp hr) hcur_acc⟩

/-- With enough fuel the loop ends normally in a state satisfying the invariant
with an empty frontier. -/
theorem bfsLoop_depIn {g : Graph} (wf : g.WF) (hs : g.Simple) {n : Nat}
    (hn : g.hasNode n = true) {rl : List Nat} (hrl : ∀ m, m ∈ rl ↔ g.Reach n m) :
    ∀ (fuel : Nat) (frontier acc : List Nat), BfsNodeInv g n frontier acc →
      g.size < fuel + acc.length →
      ∃ out, bfsLoop g (depIn rl) true fuel frontier acc.reverse acc = (out, none) ∧
        BfsNodeInv g n [] out := by
  intro fuel
  induction fuel with
  | zero =>
    intro frontier acc inv hf
    exfalso
    have hnd := inv.nodup
    rw [List.nodup_append] at hnd
    have := length_le_size_of_nodup_nodes hnd.1
      (fun x hx => wf.reach_hasNode (inv.done x hx).1 hn)
    omega
  | succ fuel ih =>
    intro frontier acc inv hf
    cases frontier with
    | nil => exact ⟨acc, by simp [bfsLoop], inv⟩
    | cons cur rest =>
      have hcur := (inv.front cur).mp (by simp)
      have hnode : g.hasNode cur = true := wf.reach_hasNode hcur.2.1 hn
      obtain ⟨cs, hcs⟩ : ∃ cs, List.lookup cur g.children = some cs := by
        unfold hasNode at hnode
        exact Option.isSome_iff_exists.mp hnode
      have hco : g.childrenOf cur = cs := childrenOf_of_lookup hcs
      have hclosed : ∀ c ∈ cs, g.hasNode c = true := by
        intro c hc
        exact wf.closed cur c (by unfold Edge; rw [hco]; exact hc)
      have inv' := inv.step wf hs hrl
      rw [hco] at inv'
      -- the new accumulator is still a duplicate-free list of nodes
      have hlen : (acc ++ [cur]).length ≤ g.size := by
        have hnd := inv'.nodup
        rw [List.nodup_append] at hnd
        exact length_le_size_of_nodup_nodes hnd.1
          (fun x hx => wf.reach_hasNode (inv'.done x hx).1 hn)
      have hf' : g.size < fuel + (acc ++ [cur]).length := by
        simp at hlen ⊢; omega
      obtain ⟨out, hout, hinv⟩ := ih _ _ inv' hf'
      refine ⟨out, ?_, hinv⟩
      -- the cycle guard never fires on this run: a ready child is neither `cur` nor yielded yet
      have hguard : ∀ c ∈ cs, readyIn g rl (cur :: acc.reverse) c = true →
          (cur :: acc.reverse).contains c = false := by
        intro c hc _
        have hedge : g.Edge cur c := by unfold Edge; rw [hco]; exact hc
        have hpar : cur ∈ g.parentsOf c := wf.mem_parentsOf.mpr hedge
        have hne : c ≠ cur := by
          intro e
          subst e
          exact hcur.1 (hcur.2.2 c hpar hcur.2.1)
        have hnacc : c ∉ acc := by
          intro hca
          have hb := (inv.done c hca).2 cur hpar hcur.2.1
          unfold Before at hb
          have hlt : acc.idxOf cur < acc.length :=
            Nat.lt_of_lt_of_le hb (List.idxOf_le_length)
          exact hcur.1 (List.idxOf_lt_length_iff.mp hlt)
        cases hcon : (cur :: acc.reverse).contains c with
        | false => rfl
        | true =>
          exfalso
          have := List.contains_iff_mem.mp hcon
          simp only [List.mem_cons, List.mem_reverse] at this
          rcases this with h | h
          · exact hne h
          · exact hnacc h
      simp only [bfsLoop, hcs, bfsChildren_depIn g rl _ cs rest hclosed hguard]
      simpa using hout

/-- In the final state every node reachable from the start has been yielded. -/
theorem BfsNodeInv.complete {g : Graph} (wf : g.WF) (hac : g.Acyclic) {n : Nat}
    (hn : g.hasNode n = true) {out : List Nat}
    (inv : BfsNodeInv g n [] out) (x : Nat) (hx : g.Reach n x) : x ∈ out := by
  apply Classical.byContradiction
  intro hxo
  refine no_backward_closed_set hac (fun y => g.Reach n y ∧ y ∉ out)
    (fun y hy => wf.reach_hasNode hy.1 hn) ?_ x ⟨hx, hxo⟩
  rintro y ⟨hy, hyo⟩
  apply Classical.byContradiction
  intro hno
  have : y ∈ ([] : List Nat) := by
    refine (inv.front y).mpr ⟨hyo, hy, ?_⟩
    intro p hp hr
    apply Classical.byContradiction
    intro hpo
    have he : g.Edge p y := wf.mem_parentsOf.mp hp
    exact hno ⟨p, he, hr, hpo⟩
  simp at this

/-- `breadth_first(n)` runs the loop with the `depth_first(n)` filter when that
generator does not raise. -/
theorem breadthFirst_some_of_dfs_ok {g : Graph} {n : Nat}
    (h : (g.depthFirst (some n)).2 = none) :
    g.breadthFirst (some n)
      = bfsLoop g (depIn (g.depthFirst (some n)).1) true (bfsFuel g) [n] [] [] := by
  simp only [breadthFirst, breadthFirstWithFuel, if_true]
  generalize g.depthFirst (some n) = r at h
  obtain ⟨rl, e⟩ := r
  simp only at h
  subst h
  rfl

/-- `breadth_first(n)` on a well-formed simple DAG: no exception (the fuel
suffices), exactly the nodes reachable from `n`, each once, every yielded node
after all of its parents reachable from `n`. -/
theorem bfs_from_node_spec {g : Graph} (wf : g.WF) (hac : g.Acyclic) (hs : g.Simple)
    {n : Nat} (hn : g.hasNode n = true) :
    (g.breadthFirst (some n)).2 = none ∧
    (g.breadthFirst (some n)).1.Nodup ∧
    (∀ m, m ∈ (g.breadthFirst (some n)).1 ↔ g.Reach n m) ∧
    ∀ u v, g.Edge u v → g.Reach n u → Before (g.breadthFirst (some n)).1 u v := by
  have hdfs_ok : (g.depthFirst (some n)).2 = none :=
    dfs_no_error dfsSkipVisitedOnPop wf.closed hn
  have hrl : ∀ m, m ∈ (g.depthFirst (some n)).1 ↔ g.Reach n m :=
    dfs_mem_iff_reach dfsSkipVisitedOnPop wf.closed hn
  have hfuel : g.size < bfsFuel g + ([] : List Nat).length := by
    have := bfsFuel_gt_size g
    simp; omega
  obtain ⟨out, hout, inv⟩ := bfsLoop_depIn wf hs hn hrl (bfsFuel g) [n] []
    (BfsNodeInv.init wf hac n) hfuel
  have hbf : g.breadthFirst (some n) = (out, none) := by
    rw [breadthFirst_some_of_dfs_ok hdfs_ok]
    simpa using hout
  rw [hbf]
  have hnd : out.Nodup := by simpa using inv.nodup
  refine ⟨rfl, hnd, ?_, ?_⟩
  · intro m
    exact ⟨fun h => (inv.done m h).1, inv.complete wf hac hn m⟩
  · intro u v he hu
    have hv : v ∈ out := inv.complete wf hac hn v (hu.tail he)
    exact (inv.done v hv).2 u (wf.mem_parentsOf.mpr he) hu

end ErdosVerif.Model.Graph
