import ErdosVerif.Lemmas.SimResidentFinish
/-!
Part 6: TASK_PLACEMENT — the task becomes resident on one worker and starts; a task with
no work left gets its TASK_FINISHED event at once.
-/
open Std.Do
set_option mvcgen.warning false

namespace ErdosVerif.Model.Sim

/-- What a successful `Task.start` did. -/
theorem doStart_ok (x : TaskS) (time fuzzed : Int) (h : (x.doStart time fuzzed).2 = none) :
    x.state = .scheduled ∧ 0 ≤ fuzzed ∧ (x.doStart time fuzzed).1.state = .running ∧
    (x.doStart time fuzzed).1.start = time ∧ (x.doStart time fuzzed).1.lastStep = time ∧
    (x.doStart time fuzzed).1.remaining = some fuzzed ∧ (x.doStart time fuzzed).1.pre = x.pre := by
  unfold TaskS.doStart at h ⊢
  split at h
  · simp at h
  · rename_i hst
    have hs : x.state = .scheduled := by simpa using hst
    rw [if_neg hst]
    split at h
    · simp at h
    · rename_i hrem
      rw [if_neg hrem]
      simp only [] at h ⊢
      split at h
      · simp at h
      · rename_i hrel
        rw [if_neg hrel]
        unfold TaskS.updateRemaining at h ⊢
        simp only [TaskS.isComplete] at h ⊢
        simp only [show ((TState.running == TState.evicted || TState.running == TState.completed) = true) = False by simp,
          if_false] at h ⊢
        split at h
        · simp at h
        · rename_i hf
          rw [if_neg hf]
          exact ⟨hs, by omega, rfl, rfl, rfl, rfl, rfl⟩

/-- A task that is ready to run is neither RUNNING nor finished. -/
theorem ready_not_running (g : GraphS) (k : Nat) (x : TaskS) (h : g.isReadyToRun k = true) (hx : g.task? k = some x) :
    x.state ≠ .running ∧ x.isComplete = false := by
  simp only [GraphS.isReadyToRun, hx, Bool.and_eq_true, Bool.or_eq_true, beq_iff_eq] at h
  rcases h.2 with h2 | h2 <;> simp [h2, TaskS.isComplete]

/-- **TASK_PLACEMENT, the task starts**: the pool placed the task, `Task.start` succeeded,
the `.place` and `.start` entries were appended. -/
theorem AP.placeStart {ex : List SEvent} {n : Int} (s s' : SimS) (t : TaskId) (time fuzzed : Int) (htime : time = n)
    (h : AP RunOK ex s ∧ s.now = n) (g : GraphS) (x : TaskS) (hg : s.graphs[t.g]? = some g) (hx : g.task? t.t = some x)
    (pid : Nat) (pool : Pool) (hpool : s.pools[pid]? = some pool)
    (strats : List Strategy) (st : Option Strategy) (wid : Option Nat)
    (hok : (pool.placeTask (gid t) strats st wid).2 = .ok true)
    (hstart : (x.doStart time fuzzed).2 = none)
    (hp : s'.pools = s.pools.setIfInBounds pid (pool.placeTask (gid t) strats st wid).1)
    (hgr : s'.graphs = s.graphs.setIfInBounds t.g (g.setTask t.t (x.doStart time fuzzed).1))
    (hn : s'.now = s.now)
    (hl : s'.log = (s.log.push (.place t pid time)).push (.start t time fuzzed pid))
    (hq : s'.queue = s.queue) (hfu : s'.future = s.future) (hns : s'.nextSched = s.nextSched)
    (hid : s'.nextEid = s.nextEid) (ha : s'.allGraphs = s.allGraphs) (hj : s'.jobs = s.jobs)
    (hlr : s'.loaderReleased = s.loaderReleased) : AP RunOK ex s' ∧ s'.now = n := by
  obtain ⟨hA, hnow⟩ := h
  subst htime
  have hT : taskAt s.graphs t = some x := taskAt_of _ _ g x hg hx
  obtain ⟨hs, hf0, k1, k2, k3, k4, k5⟩ := doStart_ok x time fuzzed hstart
  rcases Pool.placeTask_view pool (gid t) strats st wid with ⟨_, i, ks, hvi, hview, hplaced⟩ | ⟨hne, _⟩
  case inr => exact absurd hok hne
  have hvs : (views s.pools)[pid]? = some pool.view := by rw [views_getElem?, hpool]; rfl
  have hpm : (pmaps s.pools)[pid]? = some pool.placed := by rw [pmaps_getElem?, hpool]; rfl
  obtain ⟨hT't, hT'o⟩ := taskAt_setTask s.graphs t g x (x.doStart time fuzzed).1 hg hx
  have hlog : s'.log.toList = (s.log.toList ++ [LogE.place t pid time]) ++ [LogE.start t time fuzzed pid] := by
    rw [hl]; simp
  have hpre : (x.doStart time fuzzed).1.PreOK := by
    have := hA.core.preOK t x hT
    simpa [TaskS.PreOK, k5] using this
  -- first extend the log (the RUNNING tasks' facts only read it through membership), then place and start
  have hcore0 : Core (views s.pools) (pmaps s.pools) (taskAt s.graphs) (RunOK s.now s'.log.toList) (s.queue.toList ++ ex) :=
    hA.core.mono_P (fun u y _ _ hp' => logMono_RunOK _ _ _ u y (fun e he => by rw [hlog]; simp [he]) hp')
  have hP : RunOK s.now s'.log.toList t (x.doStart time fuzzed).1 := by
    rw [hnow]
    refine ⟨fuzzed, k4, hf0, k3, by rw [k2]; exact Int.le_refl _, fuzzed, pid, ?_, by rw [k2]⟩
    rw [k2, hlog]; simp
  have hcore := hcore0.place_start (T' := taskAt s'.graphs) t x (x.doStart time fuzzed).1 pid i pool.view ks pool.placed
    hT (by simp [hs]) (by simp [TaskS.isComplete, hs]) hvs hvi hpm
    (by rw [hgr]; exact hT't) (by rw [hgr]; exact hT'o) k1 hpre hP
  refine ⟨⟨?_, ?_, ?_, ?_, ?_, ?_⟩, by rw [hn]; exact hnow⟩
  · rw [hp, views_set, pmaps_set, hview, hplaced, hn, hq]; exact hcore
  · rw [hlog]
    apply LogOK.push
    · apply LogOK.push _ _ hA.log
      intro t' τ he; cases he
    · intro t' τ he; cases he
  · rw [hq, hfu, hns, hid]; exact hA.eids
  · rw [ha]; exact hA.allQ
  · rw [hj]; exact hA.tmplQ
  · exact hA.loaderOf hg s' hlr

/-- What holds when the handler raises after the pool placed the task (no strategy in the
placement, no draw left, `Task.start` refused): single residency, RUNNING ⇒ resident, the log. -/
theorem WInv.placed {ex : List SEvent} (s s' : SimS) (t : TaskId) (h : AP RunOK ex s)
    (g : GraphS) (x : TaskS) (hg : s.graphs[t.g]? = some g) (hx : g.task? t.t = some x) (hnr : x.state ≠ .running)
    (pid : Nat) (pool : Pool) (hpool : s.pools[pid]? = some pool)
    (strats : List Strategy) (st : Option Strategy) (wid : Option Nat)
    (hok : (pool.placeTask (gid t) strats st wid).2 = .ok true)
    (hp : s'.pools = s.pools.setIfInBounds pid (pool.placeTask (gid t) strats st wid).1)
    (hoth : ∀ u, u ≠ t → taskAt s'.graphs u = taskAt s.graphs u)
    (hl : ∃ es, s'.log.toList = s.log.toList ++ es ∧ ∀ e ∈ es, ∀ t τ, e ≠ LogE.finish t τ) : WInv s' := by
  have hT : taskAt s.graphs t = some x := taskAt_of _ _ g x hg hx
  rcases Pool.placeTask_view pool (gid t) strats st wid with ⟨_, i, ks, hvi, hview, hplaced⟩ | ⟨hne, _⟩
  case inr => exact absurd hok hne
  have hvs : (views s.pools)[pid]? = some pool.view := by rw [views_getElem?, hpool]; rfl
  obtain ⟨w1, w2, w3⟩ := h.core.place_weak (T' := taskAt s'.graphs) t x pid i pool.view ks hT hnr hvs hvi hoth
  obtain ⟨es, hes, hnf⟩ := hl
  refine ⟨?_, ?_, ?_, ?_⟩
  · rw [hp, views_set, hview]; exact w1
  · rw [hp, views_set, hview]; exact w2
  · rw [hp, views_set, hview]; exact w3
  · rw [hes]; exact LogOK.append _ _ h.log hnf

theorem ok_true_of {pool : Pool} {k : Nat} {strats : List Strategy} {st : Option Strategy} {wid : Option Nat} {b : Bool}
    (h1 : (pool.placeTask k strats st wid).2 = .ok b) (h2 : b = true) :
    (pool.placeTask k strats st wid).2 = .ok true := by rw [h1, h2]

/-- `WInv.placed` when the task graphs did not change (the handler raised before `Task.start`). -/
theorem WInv.placedSame {ex : List SEvent} {n : Int} (s s' : SimS) (t : TaskId) (h : (AP RunOK ex s ∧ s.now = n) ∧ s.graphs[t.g]? = some g)
    (hready : g.isReadyToRun t.t = true) (g' : GraphS) (x : TaskS) (hg' : s.graphs[t.g]? = some g')
    (hx : g'.task? t.t = some x)
    (pid : Nat) (pool : Pool) (hpool : s.pools[pid]? = some pool)
    (strats : List Strategy) (st : Option Strategy) (wid : Option Nat) (b : Bool)
    (hb1 : (pool.placeTask (gid t) strats st wid).2 = .ok b) (hb2 : b = true)
    (hp : s'.pools = s.pools.setIfInBounds pid (pool.placeTask (gid t) strats st wid).1)
    (hgr : s'.graphs = s.graphs)
    (hl : ∃ es, s'.log.toList = s.log.toList ++ es ∧ ∀ e ∈ es, ∀ t τ, e ≠ LogE.finish t τ) : WInv s' := by
  have hgg : g' = g := Option.some.inj (hg'.symm.trans h.2)
  subst hgg
  exact WInv.placed s s' t h.1.1 g' x hg' hx (ready_not_running g' t.t x hready hx).1 pid pool hpool strats st wid
    (ok_true_of hb1 hb2) hp (fun u _ => by rw [hgr]) hl

/-- `WInv.placed` when `Task.start` raised (the task record may have changed). -/
theorem WInv.placedSet {ex : List SEvent} {n : Int} (s s' : SimS) (t : TaskId) (h : (AP RunOK ex s ∧ s.now = n) ∧ s.graphs[t.g]? = some g)
    (hready : g.isReadyToRun t.t = true) (x y : TaskS) (hx : g.task? t.t = some x)
    (pid : Nat) (pool : Pool) (hpool : s.pools[pid]? = some pool)
    (strats : List Strategy) (st : Option Strategy) (wid : Option Nat) (b : Bool)
    (hb1 : (pool.placeTask (gid t) strats st wid).2 = .ok b) (hb2 : b = true)
    (hp : s'.pools = s.pools.setIfInBounds pid (pool.placeTask (gid t) strats st wid).1)
    (hgr : s'.graphs = s.graphs.setIfInBounds t.g (g.setTask t.t y))
    (hl : ∃ es, s'.log.toList = s.log.toList ++ es ∧ ∀ e ∈ es, ∀ t τ, e ≠ LogE.finish t τ) : WInv s' :=
  WInv.placed s s' t h.1.1 g x h.2 hx (ready_not_running g t.t x hready hx).1 pid pool hpool strats st wid
    (ok_true_of hb1 hb2) hp (by rw [hgr]; exact (taskAt_setTask s.graphs t g x y h.2 hx).2) hl

/-- The TASK_FINISHED event of a task that started with no work left. -/
theorem AP.addFin {ex : List SEvent} {n : Int} (s s' : SimS) (h : AP RunOK ex s ∧ s.now = n) (e : SEvent) (t : TaskId)
    (x : TaskS) (hT : taskAt s.graphs t = some x) (hrun : x.state = .running) (hr : x.remaining = some 0)
    (htid : e.tid = some t) (htime : e.ev.time = n) (heid : e.ev.eid = s.nextEid)
    (hp : s'.pools = s.pools) (hg : s'.graphs = s.graphs) (hn : s'.now = s.now) (hl : s'.log = s.log)
    (hq : s'.queue = Heap.heappush SEvent.lt s.queue e) (hfu : s'.future = s.future)
    (hns : s'.nextSched = s.nextSched) (hid : s'.nextEid = s.nextEid + 1) (ha : s'.allGraphs = s.allGraphs)
    (hj : s'.jobs = s.jobs) (hlr : s'.loaderReleased = s.loaderReleased) (hm : s'.metas = s.metas) :
    AP RunOK ex s' ∧ s'.now = n := by
  obtain ⟨hA, hnow⟩ := h
  have hmem : ∀ e' ∈ s'.queue.toList ++ ex, e' ∈ s.queue.toList ++ ex ∨ e' = e := by
    intro e' he'
    rw [hq] at he'
    rcases List.mem_append.mp he' with h1 | h1
    · rcases mem_heappush _ _ _ h1 with h2 | h2
      · exact Or.inl (List.mem_append_left _ h2)
      · exact Or.inr h2
    · exact Or.inl (List.mem_append_right _ h1)
  refine ⟨⟨?_, ?_, ?_, ?_, ?_, ?_⟩, by rw [hn]; exact hnow⟩
  · rw [hp, hg, hn, hl]
    refine hA.core.q_add e hmem ?_
    intro _ u hu
    rw [htid] at hu; cases hu
    refine ⟨x, hT, Or.inl hrun, fun _ r hr' => ?_⟩
    obtain ⟨r1, hr1, _, hls, _⟩ := hA.core.run t x hT hrun
    rw [hr] at hr'; cases hr'
    rw [htime, hls, hnow]; simp
  · rw [hl]; exact hA.log
  · rw [hfu, hns, hid]
    have := hA.eids
    refine ⟨fun y hy => Nat.lt_succ_of_lt (this.efLt y hy), ?_, ?_⟩
    · intro e' he' hf
      rcases hmem e' he' with h1 | h1
      · exact Nat.lt_succ_of_lt (this.finLt e' h1 hf)
      · rw [h1, heid]; exact Nat.lt_succ_self _
    · intro e' he' hf hef
      rcases hmem e' he' with h1 | h1
      · exact this.finNotEF e' h1 hf hef
      · rw [h1, heid] at hef
        exact Nat.lt_irrefl _ (this.efLt _ hef)
  · rw [ha]; exact hA.allQ
  · rw [hj]; exact hA.tmplQ
  · rw [hlr, hg, hm]; exact hA.loader


theorem AP.placeStartW {ex : List SEvent} {n : Int} (s s' : SimS) (t : TaskId) (time fuzzed : Int) (htime : time = n)
    (h : AP RunOK ex s ∧ s.now = n) (g : GraphS) (x : TaskS) (hg : s.graphs[t.g]? = some g) (hx : g.task? t.t = some x)
    (pid : Nat) (pool : Pool) (hpool : s.pools[pid]? = some pool)
    (strats : List Strategy) (st : Option Strategy) (wid : Option Nat)
    (hok : (pool.placeTask (gid t) strats st wid).2 = .ok true)
    (hstart : (x.doStart time fuzzed).2 = none)
    (hp : s'.pools = s.pools.setIfInBounds pid (pool.placeTask (gid t) strats st wid).1)
    (hgr : s'.graphs = s.graphs.setIfInBounds t.g (g.setTask t.t (x.doStart time fuzzed).1))
    (hn : s'.now = s.now)
    (hl : s'.log = (s.log.push (.place t pid time)).push (.start t time fuzzed pid))
    (hq : s'.queue = s.queue) (hfu : s'.future = s.future) (hns : s'.nextSched = s.nextSched)
    (hid : s'.nextEid = s.nextEid) (ha : s'.allGraphs = s.allGraphs) (hj : s'.jobs = s.jobs)
    (hlr : s'.loaderReleased = s.loaderReleased) : WInv s' :=
  (AP.placeStart s s' t time fuzzed htime h g x hg hx pid pool hpool strats st wid hok hstart hp hgr hn hl hq hfu hns hid
    ha hj hlr).1.weak

/-- The task started with no work left: its TASK_FINISHED event is created and queued at once. -/
theorem AP.placeStartFin {ex : List SEvent} {n : Int} (s s' : SimS) (t : TaskId) (time fuzzed : Int) (htime : time = n)
    (h : AP RunOK ex s ∧ s.now = n) (g : GraphS) (x : TaskS) (hg : s.graphs[t.g]? = some g) (hx : g.task? t.t = some x)
    (pid : Nat) (pool : Pool) (hpool : s.pools[pid]? = some pool)
    (strats : List Strategy) (st : Option Strategy) (wid : Option Nat)
    (hok : (pool.placeTask (gid t) strats st wid).2 = .ok true)
    (hstart : (x.doStart time fuzzed).2 = none)
    (x2 : TaskS) (a : Int) (hrt : x2.remainingTime = .ok a) (ha0 : (a == 0) = true)
    (g2 : GraphS) (hx2 : g2.task? t.t = some x2)
    (hg2 : (s.graphs.setIfInBounds t.g (g.setTask t.t (x.doStart time fuzzed).1))[t.g]? = some g2)
    (e : SEvent) (hq : s'.queue = Heap.heappush SEvent.lt s.queue e)
    (htid : e.tid = some t) (hetime : e.ev.time = time) (heid : e.ev.eid = s.nextEid)
    (hp : s'.pools = s.pools.setIfInBounds pid (pool.placeTask (gid t) strats st wid).1)
    (hgr : s'.graphs = s.graphs.setIfInBounds t.g (g.setTask t.t (x.doStart time fuzzed).1))
    (hn : s'.now = s.now)
    (hl : s'.log = (s.log.push (.place t pid time)).push (.start t time fuzzed pid))
    (hfu : s'.future = s.future) (hns : s'.nextSched = s.nextSched)
    (hid : s'.nextEid = s.nextEid + 1) (ha : s'.allGraphs = s.allGraphs) (hj : s'.jobs = s.jobs)
    (hlr : s'.loaderReleased = s.loaderReleased) (hm : s'.metas = s.metas) : AP RunOK ex s' ∧ s'.now = n := by
  -- the state after the `.start` entry was logged
  let s1 : SimS := { s with pools := s.pools.setIfInBounds pid (pool.placeTask (gid t) strats st wid).1,
                            graphs := s.graphs.setIfInBounds t.g (g.setTask t.t (x.doStart time fuzzed).1),
                            log := (s.log.push (.place t pid time)).push (.start t time fuzzed pid) }
  have h1 : AP RunOK ex s1 ∧ s1.now = n :=
    AP.placeStart s s1 t time fuzzed htime h g x hg hx pid pool hpool strats st wid hok hstart rfl rfl rfl rfl rfl rfl rfl
      rfl rfl rfl rfl
  obtain ⟨_, _, k1, _, _, k4, _⟩ := doStart_ok x time fuzzed hstart
  obtain ⟨hT't, _⟩ := taskAt_setTask s.graphs t g x (x.doStart time fuzzed).1 hg hx
  have hx2' : x2 = (x.doStart time fuzzed).1 := by
    have := taskAt_of _ t g2 x2 hg2 hx2
    rw [hT't] at this; cases this; rfl
  have hrem : (x.doStart time fuzzed).1.remaining = some 0 := by
    rw [hx2'] at hrt
    simp only [TaskS.remainingTime, k1, k4] at hrt
    cases hrt
    have : fuzzed = 0 := by simpa using ha0
    rw [k4, this]
  exact AP.addFin s1 s' h1 e t _ hT't k1 hrem htid (by rw [hetime, htime]) heid hp hgr hn hl hq hfu hns hid ha hj hlr hm

/-- A `WorkerPool.place_task` that did not place the task leaves the residency views alone. -/
theorem placeTask_same_false (pool : Pool) (k : Nat) (strats : List Strategy) (st : Option Strategy) (wid : Option Nat)
    (b : Bool) (h1 : (pool.placeTask k strats st wid).2 = .ok b) (h2 : ¬ b = true) :
    (pool.placeTask k strats st wid).1.view = pool.view ∧ (pool.placeTask k strats st wid).1.placed = pool.placed := by
  rcases Pool.placeTask_view pool k strats st wid with ⟨hok, _⟩ | ⟨_, hv⟩
  · rw [h1] at hok; cases hok; exact absurd rfl h2
  · exact hv

theorem placeTask_same_err (pool : Pool) (k : Nat) (strats : List Strategy) (st : Option Strategy) (wid : Option Nat)
    (e : PyErr) (h1 : (pool.placeTask k strats st wid).2 = .error e) :
    (pool.placeTask k strats st wid).1.view = pool.view ∧ (pool.placeTask k strats st wid).1.placed = pool.placed := by
  rcases Pool.placeTask_view pool k strats st wid with ⟨hok, _⟩ | ⟨_, hv⟩
  · rw [h1] at hok; cases hok
  · exact hv

/-- WORKER_NOT_READY: the pool did not take the task; a new placement event one microsecond
later is queued and kept. -/
theorem AP.notPlaced {ex : List SEvent} {n : Int} (s s' : SimS) (h : AP RunOK ex s ∧ s.now = n)
    (pid : Nat) (pool : Pool) (hpool : s.pools[pid]? = some pool)
    (k : Nat) (strats : List Strategy) (st : Option Strategy) (wid : Option Nat) (b : Bool)
    (hb1 : (pool.placeTask k strats st wid).2 = .ok b) (hb2 : ¬ b = true)
    (e : SEvent) (hq : s'.queue = Heap.heappush SEvent.lt s.queue e)
    (he : e.ev.etype ≠ ET.taskFinished) (heid : e.ev.eid = s.nextEid) (t : TaskId)
    (hp : s'.pools = s.pools.setIfInBounds pid (pool.placeTask k strats st wid).1) (hg : s'.graphs = s.graphs)
    (hn : s'.now = s.now) (hl : s'.log = s.log)
    (hfu : s'.future = s.future.set t e.ev.eid) (hns : s'.nextSched = s.nextSched) (hid : s'.nextEid = s.nextEid + 1)
    (ha : s'.allGraphs = s.allGraphs) (hj : s'.jobs = s.jobs) (hlr : s'.loaderReleased = s.loaderReleased)
    (hm : s'.metas = s.metas) : AP RunOK ex s' ∧ s'.now = n := by
  let s1 : SimS := { s with pools := s.pools.setIfInBounds pid (pool.placeTask k strats st wid).1 }
  have h1 : AP RunOK ex s1 ∧ s1.now = n :=
    AP.poolSame s s1 pid pool _ h hpool (placeTask_same_false pool k strats st wid b hb1 hb2) rfl rfl rfl rfl rfl rfl rfl
      rfl rfl rfl rfl rfl
  let s2 : SimS := { s1 with nextEid := s.nextEid + 1, queue := Heap.heappush SEvent.lt s.queue e }
  have h2 : AP RunOK ex s2 := AP.step s1 s2 h1.1 rfl (TRel.refl _) rfl (log_same_ext _) (mem_queue_push _ _ _ he)
    (fun _ h' => h') (Nat.le_succ _) rfl rfl h1.1.loader
  refine ⟨AP.efAdd s2 s' h2 e.ev.eid (by rw [heid]; exact Nat.lt_succ_self _) ?_ hp hg hn hl (by rw [hq]; exact fun _ h' _ => h')
    (by rw [hfu, hns]; exact EF_set _ _ _ _) hid ha hj hlr hm, by rw [hn]; exact h.2⟩
  intro e' he' hf
  have := mem_queue_push s.queue ex e he e' he' hf
  rw [heid]
  exact h.1.eids.finLt e' this hf

set_option maxHeartbeats 1600000 in
theorem placementPlace_rspec (n : Int) (ex : List SEvent) (ev : SEvent) (t : TaskId) (p : PlacementS) (g : GraphS)
    (h : g.isReadyToRun t.t = true) (hev : ev.ev.time = n) :
    ⦃fun s => ⌜(AP RunOK ex s ∧ s.now = n) ∧ s.graphs[t.g]? = some g⌝⦄ placementPlace ev t p g h
    ⦃post⟨fun _ => RA n ex, fun _ s => ⌜WInv s⌝⟩⦄ := by
  have h_prow := placementRow_rspec n ex
  have h_row := row_rspec n ex
  rmvcgen [placementPlace, getTask, getGraph, getPool, setPool, raisePlace, logE, liftTape, liftE, startTask, setGraph,
    raiseTask, mkEvent, uniqueName, addEvent, h_prow, h_row]
  all_goals first
    | frame_close
    | (rs_hyps h => exact h.1)
    | wk_close
    | (have h0 := ‹(AP RunOK _ _ ∧ _) ∧ _›
       exact AP.placeStart _ _ t _ _ hev h0.1 g _ h0.2 ‹g.task? t.t = some _› _ _ ‹_› _ _ _ (ok_true_of ‹_› ‹_›) ‹_›
         rfl rfl rfl rfl rfl rfl rfl rfl rfl rfl rfl)
    | (have h0 := ‹(AP RunOK _ _ ∧ _) ∧ _›
       exact AP.placeStartW _ _ t _ _ hev h0.1 g _ h0.2 ‹g.task? t.t = some _› _ _ ‹_› _ _ _ (ok_true_of ‹_› ‹_›) ‹_›
         rfl rfl rfl rfl rfl rfl rfl rfl rfl rfl rfl)
    | (have h0 := ‹(AP RunOK _ _ ∧ _) ∧ _›
       exact AP.placeStartFin _ _ t _ _ hev h0.1 g _ h0.2 ‹g.task? t.t = some _› _ _ ‹_› _ _ _ (ok_true_of ‹_› ‹_›) ‹_›
         _ _ ‹(_ : TaskS).remainingTime = Except.ok _› ‹_› _ ‹_› ‹_› _ rfl rfl rfl
         rfl rfl rfl rfl rfl rfl rfl rfl rfl rfl rfl rfl)
    | (have h0 := ‹(AP RunOK _ _ ∧ _) ∧ _›
       exact WInv.placedSet _ _ t h0 h _ _ ‹g.task? t.t = some _› _ _ ‹_› _ _ _ _ ‹_› ‹_› rfl rfl (log_push_ext _ _ rfl))
    | (have h0 := ‹(AP RunOK _ _ ∧ _) ∧ _›
       exact WInv.placedSame _ _ t h0 h _ _ ‹_› ‹_› _ _ ‹_› _ _ _ _ ‹_› ‹_› rfl rfl (log_push_ext _ _ rfl))
    | (have h0 := ‹(AP RunOK _ _ ∧ _) ∧ _›
       exact AP.notPlaced _ _ h0.1 _ _ ‹_› _ _ _ _ _ ‹_› ‹_› _ rfl (by show ET.taskPlacement ≠ ET.taskFinished; decide) rfl t
         rfl rfl rfl rfl rfl rfl rfl rfl rfl rfl rfl)
    | (have h0 := ‹(AP RunOK _ _ ∧ _) ∧ _›
       exact AP.poolSameW _ _ _ _ _ h0.1 ‹_› (placeTask_same_false _ _ _ _ _ _ ‹_› ‹_›)
         rfl rfl rfl rfl rfl rfl rfl rfl rfl rfl rfl rfl)
    | (have h0 := ‹(AP RunOK _ _ ∧ _) ∧ _›
       exact AP.poolSameW _ _ _ _ _ h0.1 ‹_› (placeTask_same_err _ _ _ _ _ _ ‹_›)
         rfl rfl rfl rfl rfl rfl rfl rfl rfl rfl rfl rfl)
    | (ap_step; exact EF_erase _ _ _)

/-- TASK_PLACEMENT, handled at the clock value `n` (the time of the event). -/
theorem handleTaskPlacement_rspec (n : Int) (ex : List SEvent) (ev : SEvent) (hev : ev.ev.time = n) :
    KeepsR n ex (handleTaskPlacement ev) := by
  have h_pp := fun t p g h => placementPlace_rspec n ex ev t p g h hev
  have h_nr := placementNotReady_rspec n ex
  rmvcgen [handleTaskPlacement, getGraph, h_pp, h_nr]
  all_goals first
    | frame_close
    | (rs_hyps h => exact h.1)
    | wk_close
    | (rs_hyps h => rs_hyps h2 => exact ⟨h, h2⟩)

end ErdosVerif.Model.Sim
