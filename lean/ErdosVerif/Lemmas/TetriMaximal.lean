/-
Adding one rewarded task to a plan raises the reward by at least one unit (`den`), hence —
by completeness — the objective of some feasible point; within the solvers' relative gap
this cannot happen below ten units of reward.
-/
import ErdosVerif.Lemmas.TetriExact
namespace ErdosVerif.Tetri
open ErdosVerif.Mip ErdosVerif.TetriSpec

variable {I : Inst}

theorem plan_get_set {plan : Plan} {t : Nat} (ht : t < plan.length) (x : Option Cell) (t' : Nat) :
    Plan.get (plan.set t x) t' = if t' = t then x else plan.get t' := by
  simp only [Plan.get, List.getD_eq_getElem?_getD, List.getElem?_set]
  by_cases h : t = t'
  · subst h; simp [ht]
  · have : ¬ t' = t := fun e => h e.symm
    simp [h, this]

theorem isum_map_update {l : List Nat} (hn : l.Nodup) {t : Nat} (ht : t ∈ l) (f g : Nat → Int)
    (h : ∀ a ∈ l, a ≠ t → g a = f a) : isum (l.map g) = isum (l.map f) + (g t - f t) := by
  induction l with
  | nil => simp at ht
  | cons x xs ih =>
    have hnx := List.nodup_cons.mp hn
    simp only [List.map_cons, isum_cons]
    by_cases hx : x = t
    · subst hx
      have : isum (xs.map g) = isum (xs.map f) :=
        isum_map_congr _ _ _ (fun a ha => h a (by simp [ha]) (by intro e; subst e; exact hnx.1 ha))
      omega
    · have htx : t ∈ xs := by
        simp only [List.mem_cons] at ht
        rcases ht with rfl | ht
        · exact absurd rfl hx
        · exact ht
      have := ih hnx.2 htx (fun a ha => h a (by simp [ha]))
      have hgx := h x (by simp) hx
      omega

theorem range_nodup' (n : Nat) : (List.range n).Nodup := by
  induction n with
  | zero => simp
  | succ n ih =>
    rw [List.range_succ, List.nodup_append]
    refine ⟨ih, by simp, ?_⟩
    intro a ha b hb
    simp at hb
    have := List.mem_range.mp ha
    omega

/-- Placing an unplaced, rewarded, non-RUNNING task at slot `k` adds `rew k` to the plan's reward. -/
theorem planReward_set {plan : Plan} (hlen : plan.length = I.nT) {t : Nat} (ht : t ∈ I.nonRunning)
    (hrew : I.rewarded t = true) (hun : plan.get t = none) (q : Cell) :
    planReward I (plan.set t (some q)) = planReward I plan + I.rew q.2.1 := by
  unfold planReward
  have htl : t < plan.length := by rw [hlen]; exact (mem_nonRunning.mp ht).1
  have hnd : (I.act.filter I.rewarded).Nodup :=
    List.Nodup.sublist List.filter_sublist (List.Nodup.sublist List.filter_sublist (range_nodup' _))
  have hmem : t ∈ I.act.filter I.rewarded := List.mem_filter.mpr ⟨act_of_nonRunning ht, hrew⟩
  rw [isum_map_update hnd hmem (rewOf I plan) (rewOf I (plan.set t (some q)))]
  · have hr := (mem_nonRunning.mp ht).2.2
    simp [rewOf, plan_get_set htl, hun, hr]
  · intro a _ hne
    simp [rewOf, plan_get_set htl, hne]

theorem den_le_rew (I : Inst) {k : Nat} (hk : k < I.nSlots) : (I.den : Int) ≤ I.rew k :=
  (rew_bounds I hk).1

/-- The gap arithmetic: a point within relative gap 0.1 of an optimum below ten units cannot
be improved by a whole unit. -/
theorem gap_lemma {obj obj' OPT D : Int} (h1 : obj' ≤ OPT) (hgap : 9 * OPT ≤ 10 * obj)
    (hsmall : OPT < 10 * D) (himp : obj + D ≤ obj') : False := by
  omega

/-! ### A cheap upper bound of the objective -/

theorem foldl_max_ge {α : Type} (f : α → Int) (l : List α) (init : Int) :
    init ≤ l.foldl (fun acc q => max acc (f q)) init ∧
    ∀ q ∈ l, f q ≤ l.foldl (fun acc q => max acc (f q)) init := by
  induction l generalizing init with
  | nil => simp
  | cons x xs ih =>
    simp only [List.foldl_cons, List.mem_cons, forall_eq_or_imp]
    have h := ih (max init (f x))
    refine ⟨by have := h.1; omega, by have := h.1; omega, h.2⟩

theorem zero_le_maxRew (I : Inst) (t : Nat) : 0 ≤ maxRew I t := by
  unfold maxRew
  split
  · exact (foldl_max_ge _ _ 0).1
  · omega

theorem rew_le_maxRew {t : Nat} {q : Nat × Nat × Nat} (hq : q ∈ I.keys t)
    (hv : I.hasVar t q.1 q.2.1 q.2.2 = true) : I.rew q.2.1 ≤ maxRew I t := by
  unfold maxRew
  have hany : (I.keys t).any (fun q => I.hasVar t q.1 q.2.1 q.2.2) = true :=
    List.any_eq_true.mpr ⟨q, hq, hv⟩
  simp only [hany, if_true]
  exact (foldl_max_ge (fun q : Nat × Nat × Nat => I.rew q.2.1) _ 0).2 q (List.mem_filter.mpr ⟨hq, hv⟩)

/-- **No feasible point earns more than `objBound`** (every rewarded task at its best cell). -/
theorem objective_le_objBound {σ : Var → Int} (h : sat σ (gen I)) (hwf : I.wf = true)
    (hm : I.noModel = false) : objective σ (gen I) ≤ objBound I := by
  rw [objective_eq_planReward h hwf hm]
  unfold planReward objBound
  apply isum_map_le
  intro t ht
  have hta : t ∈ I.act := (List.mem_filter.mp ht).1
  unfold rewOf
  rw [planOf_get σ (mem_act.mp hta).1]
  simp only [(mem_act.mp hta).2, if_true]
  by_cases hr : I.running t = true
  · by_cases hc : I.cplex = true
    · simp [hr, hc]
    · simp [hr, hc, pick, runningCell]
  · have hr' : I.running t = false := by simpa using hr
    simp only [hr', Bool.and_false, Bool.false_eq_true, if_false, pick]
    cases hch : I.chosen σ t with
    | none => exact zero_le_maxRew I t
    | some c =>
      obtain ⟨hk, hv, _⟩ := chosen_spec hch
      exact rew_le_maxRew hk hv

end ErdosVerif.Tetri
