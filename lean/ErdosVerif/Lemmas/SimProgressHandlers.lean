import ErdosVerif.Lemmas.SimProgressSpec
/-!
Progress of the `simulate()` loop, part 3: the pending-finish invariant `PG` through the
handlers that never touch a RUNNING task.
-/
open Std.Do
set_option mvcgen.warning false

namespace ErdosVerif.Model.Sim

/-- Loop invariant of the loops that collect new events. -/
abbrev loopEvP (ex : List SEvent) {α : Type} {xs : List α} :
    Invariant xs (List SEvent) (.except SErr (.arg SimS .pure)) :=
  post⟨fun p s => ⌜PG none ex s ∧ NoFin p.2⌝, fun _ _ => ⌜True⌝⟩

macro "pg_ev" : tactic => `(tactic| first
  | pg_frame
  | rfl
  | pg_cancel
  | (rs_hyps h => exact ⟨h, NoFin.nil⟩)
  | (rs_hyps h => exact ⟨h.1, NoFin.nil⟩)
  | (refine ⟨?_, NoFin.nil⟩; pg_cancel)
  | (rs_hyps h => rs_hyps h2 => exact ⟨h.1, NoFin.snoc h2.2 (by rw [h.2.ty]; decide)⟩)
  | (pg_step; exact EF_erase _ _ _))

theorem placementSkip_p (ex : List SEvent) (time : Int) (p : PlacementS) (drop : Bool) :
    ⦃PA ex⦄ placementSkip time p drop
    ⦃post⟨fun r s => ⌜PG none ex s ∧ NoFin r⌝, fun _ _ => ⌜True⌝⟩⦄ := by
  have h_row := row_p ex
  have h_logE := logE_p ex
  have h_mk := mkEvent_p ex
  have h_ngc := notifyGraphCompletion_p ex
  have h_rm := removeEvent_p ex
  have h_tc := taskCall_p ex
  rmvcgen [placementSkip, getGraph, setGraph, getTask, h_row, h_logE, h_mk, h_ngc, h_rm, h_tc]
  case inv1 => exact loopEvP ex
  case inv2 => exact loopEvP ex
  case inv3 => exact loopEvP ex
  all_goals first
    | pg_ev
    | (have h := ‹PG none _ _›
       have h1 := ‹((loopEvP _).fst _ _).down›
       exact ⟨h, h1.2⟩)
    | (have h := ‹PG none _ _›
       exact ⟨h, Or.inl ⟨_, AList.mem_of_get?_some _ _ _ ‹_›⟩⟩)

/-- After `mkEvent` the id of the fresh event is kept in `future` / `nextSched`. -/
macro "pg_efadd" : tactic => `(tactic|
  (have h := ‹PG none _ _ ∧ MkP _ _ _ _ _ _›
   exact PG.efAdd _ _ h.1 _ h.2.lt h.2.above rfl rfl rfl rfl
     (by first | exact EF_set _ _ _ _ | exact EF_some _ _ _) rfl rfl rfl))

theorem placementEvents_p (ex : List SEvent) (time : Int) (p : PlacementS) :
    ⦃PA ex⦄ placementEvents time p
    ⦃post⟨fun r s => ⌜PG none ex s ∧ NoFin r⌝, fun _ _ => ⌜True⌝⟩⦄ := by
  have h_mk := mkEvent_p ex
  have h_skip := placementSkip_p ex
  have h_edit := editEvent_p ex
  have h_heap := reheapify_p ex
  rmvcgen [placementEvents, getGraph, setGraph, getTask, taskCall, raiseTask, logE, h_mk, h_skip, h_edit, h_heap]
  all_goals first
    | pg_ev
    | pg_quiet
    | (intro _; trivial)
    | (refine ⟨by pg_efadd, ?_⟩
       have h := ‹PG none _ _ ∧ MkP _ _ _ _ _ _›
       exact noFin_single _ _ h.2.ty (by decide))
    | (refine ⟨by pg_quiet, Or.inl ⟨_, AList.mem_of_get?_some _ _ _ ‹_›⟩⟩)

macro "pg_etype" : tactic => `(tactic| first
  | (intro s _ h3; rw [h3.ty]; first | decide | exact restart_noFin _ _ _ _)
  | (intro h1 h2; exact ⟨h1, by rw [h2.ty]; first | decide | exact restart_noFin _ _ _ _⟩)
  | (rs_hyps h => (rw [h.2.ty]; first | decide | exact restart_noFin _ _ _ _))
  | (rs_hyps h => (rw [h.ty]; first | decide | exact restart_noFin _ _ _ _))
  | (rs_hyps h => exact h.2))

theorem nextSchedulerEvent_p (ex : List SEvent) (evTime : Int) :
    ⦃PA ex⦄ nextSchedulerEvent evTime
    ⦃post⟨fun r s => ⌜PG none ex s ∧ r.ev.etype ≠ ET.taskFinished⌝, fun _ _ => ⌜True⌝⟩⦄ := by
  have h_mk := mkEvent_p ex
  have h_sched := schedulable_p ex
  have h_liftE : ∀ e : Except SErr Int, KeepsP ex (liftE e) := fun e => liftE_p ex e
  rmvcgen [nextSchedulerEvent, placedTasks, getTask, getGraph, nextOfType, h_mk, h_sched, h_liftE]
  case inv1 => exact loopP ex
  all_goals first
    | pg_ev
    | pg_etype
    | (refine ⟨by first | pg_efadd | pg_ev | (rs_hyps h => exact h.1), ?_⟩; pg_etype)

theorem handleSchedulerStart_p (ex : List SEvent) (ev : SEvent) : KeepsP ex (handleSchedulerStart ev) := by
  have h_mk := mkEvent_p ex
  have h_sched := schedulable_p ex
  have h_row := row_p ex
  have h_util := logUtilization_p ex
  have h_add := addEvent_p ex
  rmvcgen [handleSchedulerStart, placedTasks, h_mk, h_sched, h_row, h_util, h_add]
  all_goals first
    | pg_ev
    | pg_etype
    | (pg_step; exact EF_none _ _)

theorem handleTaskCancel_p (ex : List SEvent) (ev : SEvent) : KeepsP ex (handleTaskCancel ev) := by
  have h_row := row_p ex
  have h_rm := removeEvent_p ex
  rmvcgen [handleTaskCancel, getTask, getGraph, h_row, h_rm]
  all_goals first
    | pg_ev
    | (have h := ‹PG none _ _›
       exact ⟨h, Or.inl ⟨_, AList.mem_of_get?_some _ _ _ ‹_›⟩⟩)

theorem handleTaskRelease_p (ex : List SEvent) (ev : SEvent) : KeepsP ex (handleTaskRelease ev) := by
  have h_row := row_p ex
  have h_edit := editEvent_p ex
  have h_heap := reheapify_p ex
  rmvcgen [handleTaskRelease, getTask, getGraph, taskCall, setGraph, raiseTask, logE, findEvent, h_row, h_edit, h_heap]
  all_goals first
    | pg_ev
    | pg_quiet
    | (intro _; trivial)
    | (rs_hyps h => exact ⟨h, Or.inr ‹_›⟩)

theorem handleTaskGraphRelease_p (ex : List SEvent) (ev : SEvent) :
    KeepsP ex (handleTaskGraphRelease ev) := by
  have h_row := row_p ex
  rmvcgen [handleTaskGraphRelease, getGraph, h_row]
  all_goals pg_ev

theorem handleProfile_p (ex : List SEvent) (ev : SEvent) (load : Bool) :
    KeepsP ex (handleProfile ev load) := by
  rmvcgen [handleProfile, getPool, setPool, raiseOutcome]
  all_goals pg_ev

theorem placementRow_p (ex : List SEvent) (t : TaskId) (pid : Nat) (time : Int) (st : Strategy) :
    KeepsP ex (placementRow t pid time st) := by
  have h_row := row_p ex
  rmvcgen [placementRow, getTask, getGraph, getPool, setPool, h_row]
  all_goals pg_ev

theorem finishRows_p (ex : List SEvent) (t : TaskId) (time : Int) : KeepsP ex (finishRows t time) := by
  have h_row := row_p ex
  rmvcgen [finishRows, getTask, getGraph, h_row]
  case inv1 => exact loopP ex
  all_goals pg_ev

theorem handleUpdateWorkload_p (ex : List SEvent) (ev : SEvent) :
    KeepsP ex (handleUpdateWorkload ev) := by
  have h_row := row_p ex
  have h_mk := mkEvent_p ex
  have h_add := addEvent_p ex
  rmvcgen [handleUpdateWorkload, releasable, getTask, getGraph, h_row, h_mk, h_add]
  case inv1 => exact loopP ex
  case inv2 => exact loopP ex
  all_goals first
    | pg_ev
    | pg_etype
    | (have h := ‹PG none _ _›
       exact PG.load _ _ h rfl rfl rfl rfl rfl rfl rfl rfl rfl)

theorem finishNotify_p (ex : List SEvent) (t : TaskId) (time : Int) : KeepsP ex (finishNotify t time) := by
  have h_mk := mkEvent_p ex
  have h_add := addEvent_p ex
  have h_logE := logE_p ex
  have h_ngc := notifyGraphCompletion_p ex
  rmvcgen [finishNotify, getTask, getGraph, setGraph, h_mk, h_add, h_logE, h_ngc]
  case inv1 => exact loopP ex
  case inv2 => exact loopP ex
  case inv3 => exact loopP ex
  case inv4 => exact loopP ex
  case inv5 => exact loopP ex
  case inv6 => exact loopP ex
  all_goals first
    | pg_ev
    | pg_etype
    | pg_notify

theorem placementNotReady_p (ex : List SEvent) (ev : SEvent) (t : TaskId) (p : PlacementS) :
    KeepsP ex (placementNotReady ev t p) := by
  have h_mk := mkEvent_p ex
  have h_add := addEvent_p ex
  have h_logE := logE_p ex
  have h_row := row_p ex
  have h_liftE : ∀ e : Except SErr Int, KeepsP ex (liftE e) := fun e => liftE_p ex e
  rmvcgen [placementNotReady, getTask, getGraph, setGraph, h_mk, h_add, h_logE, h_row, h_liftE]
  case inv1 => exact loopP ex
  case inv2 => exact loopP ex
  all_goals first
    | pg_ev
    | pg_etype
    | pg_efadd

set_option maxHeartbeats 800000 in
theorem handleSchedulerFinish_p (ex : List SEvent) (ev : SEvent) :
    KeepsP ex (handleSchedulerFinish ev) := by
  have h_mk := mkEvent_p ex
  have h_add := addEvent_p ex
  have h_row := row_p ex
  have h_skip := placementSkip_p ex
  have h_pe := placementEvents_p ex
  have h_next := nextSchedulerEvent_p ex
  rmvcgen [handleSchedulerFinish, getTask, getGraph, h_mk, h_add, h_row, h_skip, h_pe, h_next]
  case inv1 => exact loopEvP ex
  case inv2 => exact loopP ex
  all_goals first
    | pg_ev
    | pg_etype
    | (rs_hyps h => rs_hyps h2 => exact ⟨h.1, NoFin.append h2.2 h.2⟩)
    | (rs_hyps h => rs_hyps h2 => exact ⟨h.1, NoFin.append (NoFin.editPending h2.2 _ _) h.2⟩)
    | (rs_hyps h => rs_hyps h2 => exact noFin_mem_sorted _ h.2 _ _ _ h2)

end ErdosVerif.Model.Sim
