import ErdosVerif.Lemmas.SimCancelRun
/-!
The cancelled-task counter against the `.cancel` history entries, part 3: the functions that
create events from scheduler decisions (events collected in a local list: "owed" to the queue).

These are called while the caller itself holds a list of owed events, so they are specified
relationally (`s0` = the state before the call, instantiated by `mvcgen` by reflexivity):
`∀ ex, Inv ex s0 → Inv (returned ++ ex) s`. Inside, every primitive is unfolded: a specification
with a schematic outside-list (`Keeps ex x`) is only instantiated correctly by `mvcgen` when the
hypothesis in scope is syntactically `Inv ex s` (not under a loop invariant), so they are not used here.
-/
open Std.Do
set_option mvcgen.warning false

namespace ErdosVerif.Model.Sim.CC
open Heap

theorem perm_snoc (q b ex : List SEvent) (r : SEvent) : (q ++ ((b ++ [r]) ++ ex)).Perm (r :: (q ++ (b ++ ex))) := by
  have : q ++ ((b ++ [r]) ++ ex) = (q ++ b) ++ r :: ex := by simp
  rw [this]
  refine List.perm_middle.trans ?_
  simp

/-- Relational loop invariant of a loop that collects events in a list (second component of
the loop state): whatever exists outside the queue before, these events exist outside now. -/
abbrev owedLoop {γ} (s0 : SimS) : PostCond (γ × List SEvent) (.except SErr (.arg SimS .pure)) :=
  post⟨fun r s => ⌜∀ ex, Inv ex s0 → Inv (r.2 ++ ex) s⌝, fun _ s => ⌜∀ ex, Inv ex s0 → W s⌝⟩

/-- Closes a goal `Inv _ _` / `W _` from a proof `t : Inv _ _` about an earlier state. -/
syntax "cev_from " term : tactic
macro_rules
  | `(tactic| cev_from $t) => `(tactic| first
    | exact $t
    | exact Inv.weak $t
    | exact Inv.congr _ _ $t rfl rfl rfl rfl rfl
    | exact Inv.weak (Inv.congr _ _ $t rfl rfl rfl rfl rfl)
    | exact W.congr _ _ (Inv.weak $t) rfl rfl
    | exact W.log _ _ _ (Inv.weak $t) rfl rfl
    | exact Inv.log _ _ _ $t rfl rfl rfl rfl rfl rfl
    | exact Inv.freshTC _ _ _ _ _ $t rfl rfl (perm_snoc _ _ _ _) rfl rfl rfl rfl
    | exact Inv.fresh _ _ _ $t (by rfl) (perm_snoc _ _ _ _) rfl rfl rfl (fun _ h => .inl h)
    | exact Inv.perm _ _ $t (List.Perm.refl _) rfl rfl rfl (fun _ hp => alist_mem_erase _ _ _ hp))

/-- Closes the verification conditions of the relational specifications of this part. -/
macro "r_solve" : tactic => `(tactic| first
  | exact ⟨fun _ _ h => h, trivial⟩
  | (refine (fun ex h0 => ?_ : ∀ ex : List SEvent, Inv ex _ → _)
     first
     | cev_from h0
     | (pick_hyp hI => cev_from (hI ex h0))
     | (pick_hyp hN => pick_hyp hI => cev_from (hN _ (hI ex h0)))
     | exact Inv.fresh _ _ _ h0 (by rfl) List.perm_middle (cancelLogN_push_other _ _ _ rfl rfl) rfl rfl (fun _ hp => alist_mem_set _ _ _ _ hp)
     | exact Inv.editHeapify _ _ _ h0 (by exact edit_ok _ _ (fun _ => ⟨rfl, rfl⟩)) rfl (cancelLogN_push_other _ _ _ rfl rfl) rfl rfl rfl
     | (pick_hyp hi => pick_hyp hf => exact Inv.remove _ _ _ _ _ h0 hi hf rfl (cancelLogN_push_other _ _ _ rfl rfl) rfl rfl (fun _ hp => alist_mem_erase _ _ _ hp)))
  | (intro hN; refine (fun ex h0 => ?_ : ∀ ex : List SEvent, Inv ex _ → _)
     pick_hyp hI => exact hN _ (hI ex h0)))

/-- Relational form (`s0` = the state before the call; `mvcgen` instantiates it). -/
theorem notifyGraphCompletion_r (gi : Nat) (finish : Int) (s0 : SimS) :
    ⦃fun s => ⌜s = s0⌝⦄ notifyGraphCompletion gi finish
    ⦃post⟨fun _ s => ⌜∀ ex, Inv ex s0 → Inv ex s⌝, fun _ s => ⌜∀ ex, Inv ex s0 → W s⌝⟩⦄ := by
  mvcgen [notifyGraphCompletion, liftTape, liftE]
  all_goals subst_vars
  all_goals intro ex h
  all_goals c_close0

section skip
attribute [local spec] notifyGraphCompletion_r

set_option maxHeartbeats 1600000 in
/-- `__create_events_from_task_placement_skip`, relationally (`s0` = the state before): the
returned events exist outside the queue. -/
theorem placementSkip_r (time : Int) (p : PlacementS) (drop : Bool) (s0 : SimS) :
    ⦃fun s => ⌜s = s0⌝⦄ placementSkip time p drop
    ⦃post⟨fun r s => ⌜∀ ex, Inv ex s0 → Inv (r ++ ex) s⌝, fun _ s => ⌜∀ ex, Inv ex s0 → W s⌝⟩⦄ := by
  mvcgen [placementSkip, getGraph, setGraph, getTask, logE, mkEvent, uniqueName, removeEvent, row, taskCall, raiseTask]
  case inv1 => exact owedLoop s0
  case inv2 => exact owedLoop s0
  case inv3 => exact owedLoop s0
  all_goals try subst_vars
  all_goals r_solve
end skip

section place
attribute [local spec] placementSkip_r

set_option maxHeartbeats 1600000 in
/-- `__create_events_from_task_placement`, relationally. -/
theorem placementEvents_r (time : Int) (p : PlacementS) (s0 : SimS) :
    ⦃fun s => ⌜s = s0⌝⦄ placementEvents time p
    ⦃post⟨fun r s => ⌜∀ ex, Inv ex s0 → Inv (r ++ ex) s⌝, fun _ s => ⌜∀ ex, Inv ex s0 → W s⌝⟩⦄ := by
  mvcgen [placementEvents, getGraph, setGraph, getTask, logE, mkEvent, uniqueName, editEvent, reheapify, taskCall, raiseTask]
  all_goals try subst_vars
  all_goals r_solve
end place

end ErdosVerif.Model.Sim.CC
