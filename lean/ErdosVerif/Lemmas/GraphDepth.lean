/-
`get_node_depth` and `are_dependent` meet their definitions, given that
`topological_sort` returned a topological order (proved in `GraphTopo.lean`) and
that `depth_first(n)` yields exactly the nodes reachable from `n` (proved in
`GraphDfs.lean`); both facts enter as hypotheses here and are discharged in
`Props/C17.lean`.
-/
import ErdosVerif.Lemmas.GraphBasic

namespace ErdosVerif.Model.Graph

/-! ### The loop of `get_node_depth` as a fold -/

/-- One iteration of the loop body (without the early return). -/
def depthStep (g : Graph) (useMin : Bool) (d : Dict Nat) (n : Nat) : Dict Nat :=
  if (g.parentsOf n).isEmpty then d
  else Dict.set d n (aggregate useMin ((g.parentsOf n).map (fun p => (List.lookup p d).getD 1)) + 1)

/-- The value `node_to_depth[n]` after the whole order has been processed. -/
def depthVal (g : Graph) (useMin : Bool) (order : List Nat) (n : Nat) : Nat :=
  (List.lookup n (order.foldl (depthStep g useMin) [])).getD 1

theorem lookup_depthStep_ne (g : Graph) (useMin : Bool) (d : Dict Nat) {n k : Nat} (h : k ≠ n) :
    List.lookup k (depthStep g useMin d n) = List.lookup k d := by
  unfold depthStep
  split
  · rfl
  · exact Dict.lookup_set_ne d _ h

theorem depthStep_of_isEmpty (g : Graph) (useMin : Bool) (d : Dict Nat) {n : Nat}
    (h : (g.parentsOf n).isEmpty = true) : depthStep g useMin d n = d := by
  unfold depthStep; simp [h]

theorem lookup_depthStep_self (g : Graph) (useMin : Bool) (d : Dict Nat) {n : Nat}
    (h : ¬ (g.parentsOf n).isEmpty = true) :
    List.lookup n (depthStep g useMin d n) =
      some (aggregate useMin ((g.parentsOf n).map (fun p => (List.lookup p d).getD 1)) + 1) := by
  unfold depthStep; simp only [h]; exact Dict.lookup_set_self ..

theorem lookup_foldl_depthStep (g : Graph) (useMin : Bool) (l : List Nat) (d : Dict Nat) {k : Nat}
    (h : k ∉ l) : List.lookup k (l.foldl (depthStep g useMin) d) = List.lookup k d := by
  induction l generalizing d with
  | nil => rfl
  | cons a l ih =>
    simp only [List.mem_cons, not_or] at h
    simp only [List.foldl_cons]
    rw [ih _ h.2, lookup_depthStep_ne g useMin d h.1]

theorem depthLoop_not_mem (g : Graph) (useMin : Bool) (t : Nat) (l : List Nat) (d : Dict Nat)
    (h : t ∉ l) : depthLoop g useMin t l d = none := by
  induction l generalizing d with
  | nil => rfl
  | cons a l ih =>
    simp only [List.mem_cons, not_or] at h
    unfold depthLoop
    have : ¬ a = t := fun e => h.1 e.symm
    simp only [this, if_false]
    exact ih _ h.2

theorem depthLoop_split (g : Graph) (useMin : Bool) (t : Nat) (pre post : List Nat) (d : Dict Nat)
    (h : t ∉ pre) :
    depthLoop g useMin t (pre ++ t :: post) d =
      some ((List.lookup t (depthStep g useMin (pre.foldl (depthStep g useMin) d) t)).getD 1) := by
  induction pre generalizing d with
  | nil =>
    simp only [List.nil_append, List.foldl_nil]
    unfold depthLoop
    simp only [if_true]
    rfl
  | cons a pre ih =>
    simp only [List.mem_cons, not_or] at h
    simp only [List.cons_append, List.foldl_cons]
    unfold depthLoop
    have : ¬ a = t := fun e => h.1 e.symm
    simp only [this, if_false]
    exact ih _ h.2

/-! ### `aggregate` -/

theorem le_foldl_max (l : List Nat) (a : Nat) :
    a ≤ l.foldl (fun a b => Nat.max a b) a ∧ ∀ x ∈ l, x ≤ l.foldl (fun a b => Nat.max a b) a := by
  induction l generalizing a with
  | nil => simp
  | cons b l ih =>
    simp only [List.foldl_cons, List.mem_cons]
    obtain ⟨h1, h2⟩ := ih (Nat.max a b)
    refine ⟨Nat.le_trans (Nat.le_max_left a b) h1, ?_⟩
    rintro x (rfl | hx)
    · exact Nat.le_trans (Nat.le_max_right a x) h1
    · exact h2 x hx

/-- `max(l)` dominates every element. -/
theorem le_aggregate_max {l : List Nat} {x : Nat} (h : x ∈ l) : x ≤ aggregate false l := by
  cases l with
  | nil => cases h
  | cons a l =>
    unfold aggregate
    simp only [Bool.false_eq_true, if_false]
    obtain ⟨h1, h2⟩ := le_foldl_max l a
    rcases List.mem_cons.mp h with rfl | hx
    · exact h1
    · exact h2 x hx

/-! ### The depth table over a topological order -/

theorem idxOf_lt_of_before_split {pre post : List Nat} {n p : Nat} (hn : n ∉ pre)
    (h : Before (pre ++ n :: post) p n) : p ∈ pre := by
  unfold Before at h
  apply Classical.byContradiction
  intro hp
  have h1 : (pre ++ n :: post).idxOf n = pre.length := by
    rw [List.idxOf_append]; simp [hn]
  have h2 : pre.length ≤ (pre ++ n :: post).idxOf p := by
    rw [List.idxOf_append]; simp only [hp, if_false]; omega
  omega

/-- Setting: `order` is a duplicate-free list in which every parent comes first. -/
structure TopoOrder (g : Graph) (order : List Nat) : Prop where
  nodup : order.Nodup
  parentsFirst : ∀ p n, p ∈ g.parentsOf n → n ∈ order → Before order p n

theorem depthVal_eq {g : Graph} {order : List Nat} (ho : TopoOrder g order) (useMin : Bool)
    {n : Nat} (hn : n ∈ order) :
    depthVal g useMin order n =
      if (g.parentsOf n).isEmpty then 1
      else aggregate useMin ((g.parentsOf n).map (depthVal g useMin order)) + 1 := by
  obtain ⟨pre, post, rfl⟩ := List.append_of_mem hn
  have hnd := ho.nodup
  have hpre : n ∉ pre := by
    intro h
    have := (List.nodup_append.mp hnd).2.2 n h n (List.mem_cons_self ..)
    exact this rfl
  have hpost : n ∉ post := by
    have := (List.nodup_append.mp hnd).2.1
    exact (List.nodup_cons.mp this).1
  have hval : ∀ k, k ∉ post → k ≠ n → depthVal g useMin (pre ++ n :: post) k
      = (List.lookup k (pre.foldl (depthStep g useMin) [])).getD 1 := by
    intro k hk hkn
    unfold depthVal
    rw [List.foldl_append, List.foldl_cons, lookup_foldl_depthStep g useMin post _ hk,
      lookup_depthStep_ne g useMin _ hkn]
  have hself : depthVal g useMin (pre ++ n :: post) n
      = (List.lookup n (depthStep g useMin (pre.foldl (depthStep g useMin) []) n)).getD 1 := by
    unfold depthVal
    rw [List.foldl_append, List.foldl_cons, lookup_foldl_depthStep g useMin post _ hpost]
  rw [hself]
  by_cases hemp : (g.parentsOf n).isEmpty = true
  · rw [depthStep_of_isEmpty g useMin _ hemp, lookup_foldl_depthStep g useMin pre [] hpre]
    simp [hemp]
  · rw [lookup_depthStep_self g useMin _ hemp]
    simp only [Option.getD_some, hemp]
    congr 2
    apply List.map_congr_left
    intro p hp
    have hb := ho.parentsFirst p n hp hn
    have hppre : p ∈ pre := idxOf_lt_of_before_split hpre hb
    have hpn : p ≠ n := fun e => hpre (e ▸ hppre)
    have hppost : p ∉ post := by
      intro h
      exact (List.nodup_append.mp hnd).2.2 p hppre p (List.mem_cons_of_mem _ h) rfl
    rw [hval p hppost hpn]

theorem getNodeDepth_eq {g : Graph} {order : List Nat} (htopo : g.topologicalSort = .ok order)
    (ho : TopoOrder g order) (useMin : Bool) {n : Nat} (hn : g.hasNode n = true) (hmem : n ∈ order) :
    g.getNodeDepth n useMin = .ok (some (depthVal g useMin order n)) := by
  unfold getNodeDepth
  simp only [hn, if_true, htopo]
  obtain ⟨pre, post, rfl⟩ := List.append_of_mem hmem
  have hnd := ho.nodup
  have hpre : n ∉ pre := by
    intro h
    exact (List.nodup_append.mp hnd).2.2 n h n (List.mem_cons_self ..) rfl
  have hpost : n ∉ post := (List.nodup_cons.mp (List.nodup_append.mp hnd).2.1).1
  rw [depthLoop_split g useMin n pre post [] hpre]
  unfold depthVal
  rw [List.foldl_append, List.foldl_cons, lookup_foldl_depthStep g useMin post _ hpost]

/-- `depth_spec`: depth 1 for a node without parents, otherwise one more than the
max (min) of the parents' depths — stated through the public function only. -/
theorem depth_spec_of_topo {g : Graph} (wf : g.WF) {order : List Nat}
    (htopo : g.topologicalSort = .ok order) (hperm : order.Perm g.getNodes)
    (hfwd : ∀ u v, g.Edge u v → Before order u v) (useMin : Bool)
    {n : Nat} (hn : g.hasNode n = true) :
    ∃ d, g.getNodeDepth n useMin = .ok (some d) ∧
      (g.parentsOf n = [] → d = 1) ∧
      (g.parentsOf n ≠ [] → ∃ f : Nat → Nat,
        (∀ p ∈ g.parentsOf n, g.getNodeDepth p useMin = .ok (some (f p))) ∧
        d = aggregate useMin ((g.parentsOf n).map f) + 1) := by
  have hnodes : g.getNodes.Nodup := wf.nodupKeys
  have ho : TopoOrder g order :=
    ⟨hperm.nodup_iff.mpr hnodes, fun p m hp _ => hfwd p m (wf.mem_parentsOf.mp hp)⟩
  have hmem : ∀ k, g.hasNode k = true → k ∈ order := fun k hk =>
    hperm.mem_iff.mpr ((hasNode_iff_mem_getNodes g k).mp hk)
  refine ⟨depthVal g useMin order n, getNodeDepth_eq htopo ho useMin hn (hmem n hn), ?_, ?_⟩
  · intro he
    rw [depthVal_eq ho useMin (hmem n hn), he]; rfl
  · intro hne
    refine ⟨depthVal g useMin order, ?_, ?_⟩
    · intro p hp
      have hpn : g.hasNode p = true := (wf.mem_parentsOf.mp hp).left_hasNode
      exact getNodeDepth_eq htopo ho useMin hpn (hmem p hpn)
    · rw [depthVal_eq ho useMin (hmem n hn)]
      have : (g.parentsOf n).isEmpty = false := by
        cases h : g.parentsOf n with
        | nil => exact absurd h hne
        | cons _ _ => rfl
      simp [this]

/-! ### `are_dependent` -/

theorem depthVal_lt_of_edge {g : Graph} (wf : g.WF) {order : List Nat} (ho : TopoOrder g order)
    (hmem : ∀ k, g.hasNode k = true → k ∈ order) {u v : Nat} (e : g.Edge u v) :
    depthVal g false order u < depthVal g false order v := by
  have hv : g.hasNode v = true := wf.closed u v e
  have hp : u ∈ g.parentsOf v := wf.mem_parentsOf.mpr e
  rw [depthVal_eq ho false (hmem v hv)]
  have : (g.parentsOf v).isEmpty = false := by
    cases h : g.parentsOf v with
    | nil => rw [h] at hp; cases hp
    | cons _ _ => rfl
  simp only [this, Bool.false_eq_true, if_false]
  have := le_aggregate_max (List.mem_map.mpr ⟨u, hp, rfl⟩ : depthVal g false order u ∈ _)
  omega

theorem depthVal_lt_of_reach {g : Graph} (wf : g.WF) {order : List Nat} (ho : TopoOrder g order)
    (hmem : ∀ k, g.hasNode k = true → k ∈ order) {u v : Nat} (r : g.Reach u v) (hne : u ≠ v) :
    depthVal g false order u < depthVal g false order v := by
  induction r with
  | refl => exact absurd rfl hne
  | @head a b c e _ ih =>
    have h1 := depthVal_lt_of_edge wf ho hmem e
    by_cases hbc : b = c
    · subst hbc; exact h1
    · exact Nat.lt_trans h1 (ih hbc)

/-- `dependent_iff_reach`, with the two facts about `topological_sort` and
`depth_first` as hypotheses. -/
theorem dependent_spec_of {g : Graph} (wf : g.WF) {order : List Nat}
    (htopo : g.topologicalSort = .ok order) (hperm : order.Perm g.getNodes)
    (hfwd : ∀ u v, g.Edge u v → Before order u v)
    (hdfs : ∀ n, g.hasNode n = true →
      (g.depthFirst (some n)).2 = none ∧ ∀ m, m ∈ (g.depthFirst (some n)).1 ↔ g.Reach n m)
    {a b : Nat} (ha : g.hasNode a = true) (hb : g.hasNode b = true) :
    ∃ r, g.areDependent a b = .ok r ∧ (r = true ↔ a ≠ b ∧ (g.Reach a b ∨ g.Reach b a)) := by
  have hnodes : g.getNodes.Nodup := wf.nodupKeys
  have ho : TopoOrder g order :=
    ⟨hperm.nodup_iff.mpr hnodes, fun p m hp _ => hfwd p m (wf.mem_parentsOf.mp hp)⟩
  have hmem : ∀ k, g.hasNode k = true → k ∈ order := fun k hk =>
    hperm.mem_iff.mpr ((hasNode_iff_mem_getNodes g k).mp hk)
  have hlt := fun {u v : Nat} (r : g.Reach u v) (hne : u ≠ v) => depthVal_lt_of_reach wf ho hmem r hne
  unfold areDependent
  rw [getNodeDepth_eq htopo ho false ha (hmem a ha), getNodeDepth_eq htopo ho false hb (hmem b hb)]
  simp only
  by_cases heq : depthVal g false order a = depthVal g false order b
  · simp only [heq, if_true]
    refine ⟨false, rfl, ?_⟩
    simp only [Bool.false_eq_true, false_iff, not_and, not_or]
    intro hne
    exact ⟨fun r => by have := hlt r hne; omega, fun r => by have := hlt r (Ne.symm hne); omega⟩
  · simp only [heq, if_false]
    have hab : a ≠ b := fun e => heq (by rw [e])
    by_cases hgt : depthVal g false order a > depthVal g false order b
    · simp only [hgt, if_true]
      obtain ⟨herr, hm⟩ := hdfs b hb
      rcases hres : g.depthFirst (some b) with ⟨ys, err⟩
      rw [hres] at herr hm
      simp only at herr hm ⊢
      subst herr
      by_cases hc : ys.contains a = true
      · simp only [hc, if_true]
        refine ⟨true, rfl, ?_⟩
        have : g.Reach b a := (hm a).mp (List.contains_iff_mem.mp hc)
        simp [hab, this]
      · simp only [hc]
        refine ⟨false, rfl, ?_⟩
        simp only [Bool.false_eq_true, false_iff, not_and, not_or]
        intro _
        refine ⟨fun r => by have := hlt r hab; omega, fun r => hc ?_⟩
        exact List.contains_iff_mem.mpr ((hm a).mpr r)
    · simp only [hgt, if_false]
      obtain ⟨herr, hm⟩ := hdfs a ha
      rcases hres : g.depthFirst (some a) with ⟨ys, err⟩
      rw [hres] at herr hm
      simp only at herr hm ⊢
      subst herr
      by_cases hc : ys.contains b = true
      · simp only [hc, if_true]
        refine ⟨true, rfl, ?_⟩
        have : g.Reach a b := (hm b).mp (List.contains_iff_mem.mp hc)
        simp [hab, this]
      · simp only [hc]
        refine ⟨false, rfl, ?_⟩
        simp only [Bool.false_eq_true, false_iff, not_and, not_or]
        intro _
        refine ⟨fun r => hc (List.contains_iff_mem.mpr ((hm b).mpr r)), fun r => ?_⟩
        have := hlt r (Ne.symm hab); omega

end ErdosVerif.Model.Graph
