import ErdosVerif.Lemmas.SimStatesRun2
/-!
Census against the task states, part 5: `finishNotify` (`notify_task_completion`, the
closed-loop follow-up and the events that result). Between the cancellation of the untaken
branches and the bookkeeping loop the `.cancel` entries are owed while other operations run,
so the primitives are used here through *relational* specifications: whatever is owed
before the call is owed after it (`mvcgen` instantiates the pre-state `s0`).
-/
open Std.Do
set_option mvcgen.warning false

namespace ErdosVerif.Model.Sim

theorem getTask_r (t : TaskId) (s0 : SimS) :
    ⦃fun s => ⌜s = s0⌝⦄ getTask t ⦃post⟨fun _ s => ⌜s = s0⌝, fun _ s => ⌜s = s0⌝⟩⦄ := by
  mvcgen [getTask, getGraph]
/-- Reading a task graph: the state is unchanged and the graph is the one stored. -/
theorem getGraph_r (gi : Nat) (s0 : SimS) :
    ⦃fun s => ⌜s = s0⌝⦄ getGraph gi ⦃post⟨fun r s => ⌜s = s0 ∧ s0.graphs[gi]? = some r⌝, fun _ s => ⌜s = s0⌝⟩⦄ := by
  mvcgen [getGraph]
  all_goals subst_vars
  all_goals first | exact ⟨rfl, by assumption⟩ | rfl
theorem mkEvent_r (a : Nat) (b : Int) (c : Option TaskId) (d : Option PlacementS) (e : Option Nat) (s0 : SimS) :
    ⦃fun s => ⌜s = s0⌝⦄ mkEvent a b c d e
    ⦃post⟨fun _ s => ⌜∀ k, TallyP k s0 → TallyP k s⌝, fun _ s => ⌜∀ k, TallyP k s0 → TallyW s⌝⟩⦄ := by
  mvcgen [mkEvent, uniqueName, getTask, getGraph]
  all_goals subst_vars
  all_goals first
    | exact fun _ h => h
    | exact fun _ h => h.weak
    | exact fun _ h => TallyP.congr _ _ h rfl rfl rfl rfl rfl rfl rfl
theorem addEvent_r (e : SEvent) (s0 : SimS) :
    ⦃fun s => ⌜s = s0⌝⦄ addEvent e
    ⦃post⟨fun _ s => ⌜∀ k, TallyP k s0 → TallyP k s⌝, fun _ s => ⌜∀ k, TallyP k s0 → TallyW s⌝⟩⦄ := by
  mvcgen [addEvent]
  all_goals subst_vars
  all_goals first
    | exact fun _ h => h
    | exact fun _ h => TallyP.congr _ _ h rfl rfl rfl rfl rfl rfl rfl

attribute [local spec] mkEvent_r addEvent_r notifyGraphCompletion_t

theorem tallyP_logCancel' {k : Nat} (s s' : SimS) (t : TaskId) (time : Int) (h : TallyP (k + 1) s)
    (hl : s'.log = s.log.push (.cancel t time)) (hg : s'.graphs = s.graphs) (ha : s'.allGraphs = s.allGraphs)
    (hj : s'.jobs = s.jobs) (hr : s'.loaderReleased = s.loaderReleased) (hf : s'.finishedTasks = s.finishedTasks)
    (hm : s'.metas = s.metas) : TallyP k s' :=
  TallyP.congr _ _ (TallyP.logCancel s t time h) hg ha hj hr hf hl hm

/-- Proves `TallyP k s` by walking back along the relational facts of the context. -/
syntax "t_chain" : tactic
macro_rules
  | `(tactic| t_chain) => `(tactic| first
      | assumption
      | (pick_hyp hg => exact tally_notify_ok' _ _ _ _ _ _ _ ‹Tally _› hg (none_of_forall ‹∀ e : SErr, _ = some e → False›) rfl rfl rfl rfl rfl rfl rfl)
      | (refine tallyP_logCancel' _ _ _ _ ?_ rfl rfl rfl rfl rfl rfl rfl; t_chain)
      | (apply tallyP_logCancel'
         case hl => rfl
         all_goals first | rfl | t_chain)
      | (pick_hyp h => (apply h; t_chain)))

-- 45 verification conditions, each closed by a search along the relational facts: 4x the default budget
set_option maxHeartbeats 800000 in
theorem finishNotify_t (t : TaskId) (time : Int) : KeepsT (finishNotify t time) := by
  mvcgen [finishNotify, setGraph, logE, getGraph, getTask]
  case inv1 => exact owedLoop
  case inv2 => exact tLoop
  case inv3 => exact owedLoop
  case inv4 => exact tLoop
  case inv5 => exact owedLoop
  case inv6 => exact tLoop
  all_goals try dsimp only [owedLoop, tLoop] at *
  all_goals try simp only [SPred.down_pure] at *
  all_goals try (first
    | exact ⟨fun _ _ h => h, trivial⟩
    | skip)
  all_goals try subst_vars
  all_goals try (first
    | t_chain
    | (intro s hh; first
        | (subst hh; apply TallyP.weak; t_chain)
        | (apply hh; t_chain))
    | (apply TallyP.weak; t_chain)
    | (pick_hyp hg => exact tally_notify_w' _ _ _ _ _ _ _ ‹Tally _› hg rfl rfl rfl rfl rfl rfl rfl))

end ErdosVerif.Model.Sim
