/-
Transitive precedence: along a chain of parent→child edges between tasks with variables,
every feasible point orders the chain's ends (used to show that ancestor/descendant pairs,
whose `Overlap` variable the code fixes to 0, indeed never occupy the same instant).
-/
import ErdosVerif.Props.C11_Ilp
namespace ErdosVerif.Ilp
open ErdosVerif.Mip

/-- `b` is reachable from `a` through parent→child edges between tasks with variables. -/
inductive Linked (I : Inst) : Nat → Nat → Prop
  | edge {p c : Nat} : c < I.nT → p ∈ I.parentVars c → Linked I p c
  | step {a b c : Nat} : Linked I a b → c < I.nT → b ∈ I.parentVars c → Linked I a c

theorem Linked.lt_right {I : Inst} {a b : Nat} (h : Linked I a b) : b < I.nT := by
  cases h <;> assumption

theorem Linked.lt_left {I : Inst} {a b : Nat} (h : Linked I a b) : a < I.nT := by
  induction h with
  | edge _ hp => exact (mem_parentVars.mp hp).1
  | step _ _ _ ih => exact ih

theorem Linked.has_parent {I : Inst} {a b : Nat} (h : Linked I a b) : I.parentVars b ≠ [] := by
  cases h with
  | edge _ hp => intro h0; simp [h0] at hp
  | step _ _ hp => intro h0; simp [h0] at hp

/-- A linked descendant is not RUNNING (RUNNING tasks have no parent with variables). -/
theorem Linked.nonrunning {I : Inst} (hwr : I.wfRunning = true) {a b : Nat} (h : Linked I a b) :
    I.running b = false := by
  cases hr : I.running b with
  | false => rfl
  | true => exact absurd (wfRunning_compat hwr h.lt_right hr).2 h.has_parent

/-- A sum of 0/1 values equal to 1 has an element equal to 1. -/
theorem exists_one_of_isum_pos {l : List Int} (h01 : ∀ a ∈ l, a = 0 ∨ a = 1) (hs : 1 ≤ isum l) :
    ∃ a ∈ l, a = 1 := by
  induction l with
  | nil => simp at hs
  | cons x xs ih =>
    rcases h01 x (by simp) with h0 | h1
    · have : 1 ≤ isum xs := by
        simp only [isum_cons] at hs
        omega
      obtain ⟨a, ha, ha1⟩ := ih (fun a ha => h01 a (by simp [ha])) this
      exact ⟨a, by simp [ha], ha1⟩
    · exact ⟨x, by simp, h1⟩

/-- A placed task has a selected (worker, strategy) pair. -/
theorem exists_pair_of_placed {I : Inst} {σ : Var → Int} (h : sat σ (gen I)) {t : Nat} (ht : t < I.nT)
    (hp : 1 ≤ psum I σ t) : ∃ w s, w < I.nW ∧ s < (I.task t).nS ∧ xval I σ t w s = 1 := by
  have h01 : ∀ a ∈ (I.keys t).map (fun k => xval I σ t k.1 k.2), a = 0 ∨ a = 1 := by
    intro a ha
    obtain ⟨k, hk, hka⟩ := List.mem_map.mp ha
    have hk' := mem_keys.mp (by simpa using hk : (k.1, k.2) ∈ I.keys t)
    rw [← hka]
    exact xval_binary h ht hk'.1 hk'.2
  obtain ⟨a, ha, ha1⟩ := exists_one_of_isum_pos h01 hp
  obtain ⟨k, hk, hka⟩ := List.mem_map.mp ha
  have hk' := mem_keys.mp (by simpa using hk : (k.1, k.2) ∈ I.keys t)
  exact ⟨k.1, k.2, hk'.1, hk'.2, by rw [hka]; exact ha1⟩

/-- **Transitive C11.** If the descendant end of a chain is placed, so is the ancestor end,
and the descendant starts after the ancestor's start + selected runtime + 1. -/
theorem linked_ordered {I : Inst} {σ : Var → Int} (h : sat σ (gen I)) (hwr : I.wfRunning = true)
    (hwp : I.wfParents = true) {a b : Nat} (hl : Linked I a b) (hpb : 1 ≤ psum I σ b) :
    psum I σ a = 1 ∧ ∀ w s, w < I.nW → s < (I.task a).nS → xval I σ a w s = 1 →
      sval I σ a + I.runtime a s + 1 ≤ σ (.start b) := by
  induction hl with
  | @edge c hc hp =>
    have hr : I.running c = false := (Linked.edge hc hp).nonrunning hwr
    exact ⟨C11_Ilp.child_placed_parents_placed h hwr hwp hc hr hp hpb,
      fun w s hw hs hx => C11_Ilp.start_after_parent h hc hr hp hw hs hx⟩
  | @step b c hab hc hp ih =>
    have hr : I.running c = false := (Linked.step hab hc hp).nonrunning hwr
    have hb1 := C11_Ilp.child_placed_parents_placed h hwr hwp hc hr hp hpb
    have hrb : I.running b = false := hab.nonrunning hwr
    obtain ⟨ha1, hord⟩ := ih (by omega)
    obtain ⟨wb, sb, hwb, hsb, hxb⟩ := exists_pair_of_placed h hab.lt_right (by omega)
    have hcb := C11_Ilp.start_after_parent h hc hr hp hwb hsb hxb
    rw [sval_var hrb] at hcb
    refine ⟨ha1, fun w s hw hs hx => ?_⟩
    have := hord w s hw hs hx
    have : (0 : Int) ≤ I.runtime b sb := by simp [Inst.runtime]
    omega

theorem Linked.trans {I : Inst} {a b c : Nat} (h1 : Linked I a b) (h2 : Linked I b c) : Linked I a c := by
  induction h2 with
  | edge hc hp => exact Linked.step h1 hc hp
  | step _ hc hp ih => exact Linked.step ih hc hp

/-! ### The executable chain check is sound -/

theorem descIn_sound {I : Inst} : ∀ (k a b : Nat), b ∈ I.descIn k a → Linked I a b := by
  intro k
  induction k with
  | zero => intro a b h; simp [Inst.descIn] at h
  | succ k ih =>
    intro a b h
    simp only [Inst.descIn, List.mem_append, List.mem_flatMap, List.mem_filter, List.mem_range] at h
    rcases h with ⟨hb, hc⟩ | ⟨c, ⟨hc, hac⟩, hcb⟩
    · exact Linked.edge hb (by simpa using hc)
    · have h1 : Linked I a c := Linked.edge hc (by simpa using hac)
      exact h1.trans (ih c b hcb)

theorem wfChains_spec {I : Inst} (h : I.wfChains = true) {a b : Nat} (ha : a < I.nT) (hb : b < I.nT)
    (hd : I.dependent a b = true) : Linked I a b ∨ Linked I b a := by
  simp only [Inst.wfChains, List.all_eq_true, List.mem_range] at h
  have := h a ha b hb
  simp [hd] at this
  rcases this with h1 | h2
  · exact Or.inl (descIn_sound _ _ _ (by simpa using h1))
  · exact Or.inr (descIn_sound _ _ _ (by simpa using h2))

end ErdosVerif.Ilp
