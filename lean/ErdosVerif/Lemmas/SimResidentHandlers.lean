import ErdosVerif.Lemmas.SimResidentSpec
import ErdosVerif.Lemmas.SimEditPending
/-!
Part 2: the handlers that never touch a RUNNING task keep the residency / exact-runtime
invariant (scheduler start / finish, task release, cancellation, workload update,
profiles, the reporting half of TASK_FINISHED).
-/
open Std.Do
set_option mvcgen.warning false

namespace ErdosVerif.Model.Sim

theorem logUtilization_rspec (n : Int) (ex : List SEvent) (time : Int) : KeepsR n ex (logUtilization time) := by
  have h_row := row_rspec n ex
  rmvcgen [logUtilization, h_row]
  case inv1 => exact loopR n ex
  case inv2 => exact loopR n ex
  all_goals frame_close

theorem schedulable_rspec (n : Int) (ex : List SEvent) (time : Int) : KeepsR n ex (schedulable time) := by
  have h_tape : ∀ l : TapeM (List Nat), KeepsR n ex (liftTape l) := fun l => liftTape_rspec n ex l
  rmvcgen [schedulable, getGraph, placedTasks, h_tape]
  case inv1 => exact loopR n ex
  all_goals frame_close

/-- Instantiating a quiet template (new name, release times, deadline) gives a quiet graph. -/
theorem quiet_instantiate (g0 : GraphS) (nm : String) (f : Nat → TaskS → TaskS)
    (hf : ∀ i t, (f i t).state = t.state ∧ (f i t).pre = t.pre) (h : g0.Quiet) :
    ({ g0 with name := nm, tasks := g0.tasks.mapIdx f } : GraphS).Quiet := by
  refine ⟨by simpa using h.small, ?_⟩
  intro k t ht
  simp only [GraphS.task?, Array.getElem?_mapIdx] at ht
  cases hx : g0.tasks[k]? with
  | none => simp [hx] at ht
  | some x =>
    simp only [hx, Option.map_some, Option.some.injEq] at ht
    subst ht
    obtain ⟨h1, h2⟩ := hf k x
    obtain ⟨i1, i2⟩ := h.quiet k x (by simpa [GraphS.task?] using hx)
    exact ⟨by rw [h1]; exact i1, by simpa [TaskS.PreOK, h2] using i2⟩

/-- A closed-loop follow-up graph is appended; the job's counters change. -/
theorem AP.push {ex : List SEvent} (s s' : SimS) (h : AP RunOK ex s) (g : GraphS) (hq : g.Quiet) (ji : Nat) (j' : JobS)
    (hj' : j'.template.Quiet) (gi : Nat) (m : GraphMeta) (hm : s.metas[gi]? = some m)
    (hp : s'.pools = s.pools) (hg : s'.graphs = s.graphs.push g) (hn : s'.now = s.now) (hl : s'.log = s.log)
    (hqu : s'.queue = s.queue) (hf : s'.future = s.future) (hns : s'.nextSched = s.nextSched)
    (hid : s'.nextEid = s.nextEid) (ha : s'.allGraphs = s.allGraphs)
    (hj : s'.jobs = s.jobs.setIfInBounds ji j') (hlr : s'.loaderReleased = s.loaderReleased) : AP RunOK ex s' := by
  have hrel : s.loaderReleased = true := by
    cases hl : s.loaderReleased with
    | true => rfl
    | false => have := (h.loader hl).2; rw [this] at hm; simp at hm
  refine AP.benign logMono_RunOK s s' h (by rw [hp]) (by rw [hp]) (by rw [hg]; exact TRel.push _ g hq) hn
    ⟨[], by simp [hl], by simp⟩ (by rw [hqu]; exact fun _ h' _ => h') ?_ (by rw [hid]; exact Nat.le_refl _) ha ?_ ?_
  · intro x hx; rw [hf, hns] at hx; exact Or.inl hx
  · intro j hjm
    rw [hj] at hjm
    rcases Array.mem_or_eq_of_mem_setIfInBounds (Array.mem_toList_iff.mp hjm) with h1 | h1
    · exact h.tmplQ j (Array.mem_toList_iff.mpr h1)
    · subst h1; exact hj'
  · intro hl'; rw [hlr, hrel] at hl'; cases hl'

theorem notifyGraphCompletion_rspec (n : Int) (ex : List SEvent) (gi : Nat) (finish : Int) :
    KeepsR n ex (notifyGraphCompletion gi finish) := by
  rmvcgen [notifyGraphCompletion, liftTape, liftE]
  all_goals first
    | frame_close
    | (have h := ‹AP RunOK _ _ ∧ _›
       have hm := ‹(_ : Array GraphMeta)[gi]? = some _›
       have hj := ‹(_ : Array JobS)[_]? = some _›
       have hjq := h.1.tmplQ _ (Array.mem_toList_iff.mpr (Array.mem_of_getElem? hj))
       refine ⟨AP.push _ _ h.1 _ ?_ _ _ ?_ gi _ hm rfl rfl rfl rfl rfl rfl rfl rfl rfl rfl rfl, h.2⟩
       · exact quiet_instantiate _ _ _ (fun i t => ⟨rfl, rfl⟩) hjq
       · exact hjq)


/-- Writing back a task graph in which no RUNNING task changed and none became RUNNING. -/
theorem AP.setGraphR {ex : List SEvent} {n : Int} (s s' : SimS) (gi : Nat) (g g' : GraphS)
    (h : AP RunOK ex s ∧ s.now = n) (hg : s.graphs[gi]? = some g) (hf : RFrame g g')
    (hp : s'.pools = s.pools) (hgr : s'.graphs = s.graphs.setIfInBounds gi g') (hn : s'.now = s.now)
    (hl : s'.log = s.log) (hq : s'.queue = s.queue)
    (hef : ∀ x, EF s'.future s'.nextSched x → EF s.future s.nextSched x)
    (hid : s'.nextEid = s.nextEid) (ha : s'.allGraphs = s.allGraphs) (hj : s'.jobs = s.jobs)
    (hlr : s'.loaderReleased = s.loaderReleased) : AP RunOK ex s' ∧ s'.now = n := by
  refine ⟨AP.step s s' h.1 hp (by rw [hgr]; exact TRel.setGraph _ _ g _ hg hf) hn ⟨[], by simp [hl], by simp⟩
    (by rw [hq]; exact fun _ h' _ => h') hef (by rw [hid]; exact Nat.le_refl _)
    ha hj (h.1.loaderOf hg s' hlr), by rw [hn]; exact h.2⟩

/-- `TaskGraph.cancel` written back. -/
theorem AP.cancelGraph {ex : List SEvent} {n : Int} (s s' : SimS) (gi k : Nat) (time : Int) (g : GraphS)
    (h : AP RunOK ex s ∧ s.now = n) (hg : s.graphs[gi]? = some g)
    (hp : s'.pools = s.pools) (hgr : s'.graphs = s.graphs.setIfInBounds gi (g.cancel k time).g) (hn : s'.now = s.now)
    (hl : s'.log = s.log) (hq : s'.queue = s.queue)
    (hef : ∀ x, EF s'.future s'.nextSched x → EF s.future s.nextSched x)
    (hid : s'.nextEid = s.nextEid) (ha : s'.allGraphs = s.allGraphs) (hj : s'.jobs = s.jobs)
    (hlr : s'.loaderReleased = s.loaderReleased) : AP RunOK ex s' ∧ s'.now = n :=
  AP.setGraphR s s' gi g _ h hg (GraphS.rframe_cancel g k time (h.1.allPre gi g hg)) hp hgr hn hl hq hef hid ha hj hlr

theorem AP.cancelGraphW {ex : List SEvent} {n : Int} (s s' : SimS) (gi k : Nat) (time : Int) (g : GraphS)
    (h : AP RunOK ex s ∧ s.now = n) (hg : s.graphs[gi]? = some g)
    (hp : s'.pools = s.pools) (hgr : s'.graphs = s.graphs.setIfInBounds gi (g.cancel k time).g) (hn : s'.now = s.now)
    (hl : s'.log = s.log) (hq : s'.queue = s.queue)
    (hef : ∀ x, EF s'.future s'.nextSched x → EF s.future s.nextSched x)
    (hid : s'.nextEid = s.nextEid) (ha : s'.allGraphs = s.allGraphs) (hj : s'.jobs = s.jobs)
    (hlr : s'.loaderReleased = s.loaderReleased) : WInv s' :=
  (AP.cancelGraph s s' gi k time g h hg hp hgr hn hl hq hef hid ha hj hlr).1.weak

/-- Closes a goal `AP RunOK ex s' ∧ s'.now = n` / `WInv s'` where `s'` differs from the state of the most
recent invariant hypothesis by a written-back `TaskGraph.cancel`. -/
macro "cancel_close" : tactic => `(tactic| first
  | (have h := ‹AP RunOK _ _ ∧ _›
     exact AP.cancelGraph _ _ _ _ _ _ h ‹_› rfl rfl rfl rfl rfl
       (by first | exact fun _ h' => h' | exact EF_erase _ _ _) rfl rfl rfl rfl)
  | (have h := ‹AP RunOK _ _ ∧ _›
     exact AP.cancelGraphW _ _ _ _ _ _ h ‹_› rfl rfl rfl rfl rfl
       (by first | exact fun _ h' => h' | exact EF_erase _ _ _) rfl rfl rfl rfl))

/-- The post-condition of the functions that return new events: none is a TASK_FINISHED. -/
abbrev NoFin (evs : List SEvent) : Prop := ∀ e ∈ evs, e.ev.etype ≠ ET.taskFinished

theorem NoFin.nil : NoFin [] := by intro e he; cases he

theorem NoFin.snoc {evs : List SEvent} {e : SEvent} (h : NoFin evs) (he : e.ev.etype ≠ ET.taskFinished) :
    NoFin (evs ++ [e]) := by
  intro e' he'
  rcases List.mem_append.mp he' with h1 | h1
  · exact h e' h1
  · simp only [List.mem_singleton] at h1; subst h1; exact he

theorem NoFin.append {a b : List SEvent} (h1 : NoFin a) (h2 : NoFin b) : NoFin (a ++ b) := by
  intro e he
  rcases List.mem_append.mp he with h | h
  · exact h1 e h
  · exact h2 e h

/-- The in-place edit of a pending placement event keeps the event types. -/
theorem NoFin.editPending {evs : List SEvent} (h : NoFin evs) (c : Option Nat) (p : PlacementS) :
    NoFin (editPending c p evs) :=
  editPending_forall (P := fun e => e.ev.etype ≠ ET.taskFinished) (fun _ _ _ h' => h') c p evs h

/-- Loop invariant of the loops that collect new events. -/
abbrev loopEv (n : Int) (ex : List SEvent) {α : Type} {xs : List α} :
    Invariant xs (List SEvent) (.except SErr (.arg SimS .pure)) :=
  post⟨fun p s => ⌜(AP RunOK ex s ∧ s.now = n) ∧ NoFin p.2⌝, fun _ s => ⌜WInv s⌝⟩

/-- Closes the routine verification conditions of the handlers that collect new events. -/
macro "ev_close" : tactic => `(tactic| first
  | frame_close
  | rfl
  | cancel_close
  | (rs_hyps h => exact h.1)
  | (rs_hyps h => exact AP.weak h.1.1)
  | (rs_hyps h => exact ⟨h, NoFin.nil⟩)
  | (rs_hyps h => exact ⟨h.1, NoFin.nil⟩)
  | (refine ⟨?_, NoFin.nil⟩; cancel_close)
  | (rs_hyps h => rs_hyps h2 => exact ⟨h.1, NoFin.snoc h2.2 (by rw [h.2.1]; decide)⟩)
  | (ap_step; exact EF_erase _ _ _))

theorem placementSkip_rspec (n : Int) (ex : List SEvent) (time : Int) (p : PlacementS) (drop : Bool) :
    ⦃RA n ex⦄ placementSkip time p drop
    ⦃post⟨fun r s => ⌜(AP RunOK ex s ∧ s.now = n) ∧ NoFin r⌝, fun _ s => ⌜WInv s⌝⟩⦄ := by
  have h_row := row_rspec n ex
  have h_logE := logE_rspec n ex
  have h_mk := mkEvent_rspec n ex
  have h_ngc := notifyGraphCompletion_rspec n ex
  have h_rm := removeEvent_rspec n ex
  have h_tc := taskCall_rspec n ex
  rmvcgen [placementSkip, getGraph, setGraph, getTask, h_row, h_logE, h_mk, h_ngc, h_rm, h_tc]
  case inv1 => exact loopEv n ex
  case inv2 => exact loopEv n ex
  case inv3 => exact loopEv n ex
  all_goals first
    | ev_close
    | skip
  · have h := ‹AP RunOK _ _ ∧ _›
    have h1 := ‹((loopEv _ _).fst _ _).down›
    exact ⟨h, h1.2⟩


/-- A quiet `Task` call on one task, possibly followed by non-`.finish` log entries (field form). -/
theorem AP.quietLog {ex : List SEvent} {n : Int} (s s' : SimS) (t : TaskId) (c : TaskCall) (g : GraphS) (x : TaskS)
    (h : AP RunOK ex s ∧ s.now = n) (hg : s.graphs[t.g]? = some g) (hx : g.task? t.t = some x)
    (hc : c.isQuiet = true)
    (hp : s'.pools = s.pools) (hgr : s'.graphs = s.graphs.setIfInBounds t.g (g.setTask t.t (x.call c).1))
    (hn : s'.now = s.now)
    (hl : ∃ es, s'.log.toList = s.log.toList ++ es ∧ ∀ e ∈ es, ∀ t τ, e ≠ LogE.finish t τ)
    (hq : s'.queue = s.queue) (hfu : s'.future = s.future) (hns : s'.nextSched = s.nextSched)
    (hid : s'.nextEid = s.nextEid) (ha : s'.allGraphs = s.allGraphs) (hj : s'.jobs = s.jobs)
    (hlr : s'.loaderReleased = s.loaderReleased) : AP RunOK ex s' ∧ s'.now = n := by
  refine ⟨AP.step s s' h.1 hp ?_ hn hl (by rw [hq]; exact fun _ h' _ => h') (by rw [hfu, hns]; exact fun _ h' => h')
    (by rw [hid]; exact Nat.le_refl _) ha hj (h.1.loaderOf hg s' hlr), by rw [hn]; exact h.2⟩
  rw [hgr]
  exact TRel.setGraph _ _ g _ hg (RFrame.setTask g _ x _ hx (call_TR x c (h.1.allPre _ g hg _ x hx) hc))

theorem AP.quietLogW {ex : List SEvent} {n : Int} (s s' : SimS) (t : TaskId) (c : TaskCall) (g : GraphS) (x : TaskS)
    (h : AP RunOK ex s ∧ s.now = n) (hg : s.graphs[t.g]? = some g) (hx : g.task? t.t = some x)
    (hc : c.isQuiet = true)
    (hp : s'.pools = s.pools) (hgr : s'.graphs = s.graphs.setIfInBounds t.g (g.setTask t.t (x.call c).1))
    (hn : s'.now = s.now)
    (hl : ∃ es, s'.log.toList = s.log.toList ++ es ∧ ∀ e ∈ es, ∀ t τ, e ≠ LogE.finish t τ)
    (hq : s'.queue = s.queue) (hfu : s'.future = s.future) (hns : s'.nextSched = s.nextSched)
    (hid : s'.nextEid = s.nextEid) (ha : s'.allGraphs = s.allGraphs) (hj : s'.jobs = s.jobs)
    (hlr : s'.loaderReleased = s.loaderReleased) : WInv s' :=
  (AP.quietLog s s' t c g x h hg hx hc hp hgr hn hl hq hfu hns hid ha hj hlr).1.weak

/-- Closes goals about the state after an unfolded quiet `taskCall` (and `logE`). -/
macro "quiet_close" : tactic => `(tactic| first
  | (have h := ‹AP RunOK _ _ ∧ _›
     exact AP.quietLog _ _ _ _ _ _ h ‹_› ‹_› rfl rfl rfl rfl (log_push_ext _ _ rfl) rfl rfl rfl rfl rfl rfl rfl)
  | (have h := ‹AP RunOK _ _ ∧ _›
     exact AP.quietLog _ _ _ _ _ _ h ‹_› ‹_› rfl rfl rfl rfl (log_same_ext _) rfl rfl rfl rfl rfl rfl rfl)
  | (have h := ‹AP RunOK _ _ ∧ _›
     exact AP.quietLogW _ _ _ _ _ _ h ‹_› ‹_› rfl rfl rfl rfl (log_push_ext _ _ rfl) rfl rfl rfl rfl rfl rfl rfl)
  | (have h := ‹AP RunOK _ _ ∧ _›
     exact AP.quietLogW _ _ _ _ _ _ h ‹_› ‹_› rfl rfl rfl rfl (log_same_ext _) rfl rfl rfl rfl rfl rfl rfl))

/-- After `mkEvent` (spec `mkEvent_rspec'`) the id of the fresh event is kept in `future` / `nextSched`. -/
macro "efadd_close" : tactic => `(tactic|
  (have h := ‹(AP RunOK _ _ ∧ _) ∧ _ ∧ _ ∧ _ ∧ _ ∧ _›
   exact ⟨AP.efAdd _ _ h.1.1 _ h.2.2.2.2.1 h.2.2.2.2.2 rfl rfl rfl rfl (fun _ h' _ => h')
     (by first | exact EF_set _ _ _ _ | exact EF_some _ _ _) rfl rfl rfl rfl rfl, h.1.2⟩))

theorem noFin_single (e : SEvent) (a : Nat) (h : e.ev.etype = a) (ha : a ≠ ET.taskFinished) : NoFin [e] := by
  intro e' he'
  simp only [List.mem_singleton] at he'
  subst he'; rw [h]; exact ha

theorem placementEvents_rspec (n : Int) (ex : List SEvent) (time : Int) (p : PlacementS) :
    ⦃RA n ex⦄ placementEvents time p
    ⦃post⟨fun r s => ⌜(AP RunOK ex s ∧ s.now = n) ∧ NoFin r⌝, fun _ s => ⌜WInv s⌝⟩⦄ := by
  have h_mk := mkEvent_rspec' n ex
  have h_skip := placementSkip_rspec n ex
  have h_edit := editEvent_rspec n ex
  have h_heap := reheapify_rspec n ex
  rmvcgen [placementEvents, getGraph, setGraph, getTask, taskCall, raiseTask, logE, h_mk, h_skip, h_edit, h_heap]
  all_goals first
    | ev_close
    | quiet_close
    | (intro _; trivial)
    | (refine ⟨by efadd_close, ?_⟩
       have h := ‹(AP RunOK _ _ ∧ _) ∧ _ ∧ _ ∧ _ ∧ _ ∧ _›
       exact noFin_single _ _ h.2.1 (by decide))
    | (refine ⟨by quiet_close, Or.inl ⟨_, AList.mem_of_get?_some _ _ _ ‹_›⟩⟩)

end ErdosVerif.Model.Sim
