import ErdosVerif.Lemmas.SimLedgerRunDefs
/-!
From the worker invariant `Worker.TOK` to sums: per resource type, what the ledger holds under
task keys is the sum of the demands of the strategies of the resident (non-batch) tasks; with the
ledger conservation law: Σ demand of the resident strategies + what batch placeholders and
profiles hold = total − available. Core Lean only.
-/
namespace ErdosVerif.Model

def Comp.isTask : Comp → Bool
  | .task _ => true
  | _ => false
def Comp.isBatch : Comp → Bool
  | .batch _ => true
  | _ => false
def Comp.isProfile : Comp → Bool
  | .profile _ => true
  | _ => false

/-- Quantity of resource type `n` held by the ledger entries whose key satisfies `f`. -/
def heldBy (f : Comp → Bool) (a : AList Comp (List (Res × Nat))) (n : String) : Nat :=
  ((a.filter (fun e => f e.1)).map (fun e => pairsByName e.2 n)).sum

/-- Σ over the residents placed with a non-batch strategy of the strategy's demand of type `n`. -/
def taskDemand (pl : AList Nat Strategy) (n : String) : Nat :=
  ((pl.filter (fun e => !e.2.isBatch)).map (fun e => byName e.2.req n)).sum

theorem allocByName_split (a : AList Comp (List (Res × Nat))) (n : String) :
    allocByName a n = heldBy Comp.isTask a n + heldBy Comp.isBatch a n + heldBy Comp.isProfile a n := by
  induction a with
  | nil => rfl
  | cons p t ih =>
    obtain ⟨c, l⟩ := p
    simp only [allocByName, ih, heldBy, List.filter_cons]
    cases c <;> simp [Comp.isTask, Comp.isBatch, Comp.isProfile] <;> omega

section
variable {κ υ : Type} [DecidableEq κ]
theorem AList.lr_get?_of_mem (l : AList κ υ) (k : κ) (v : υ) (h : (AList.keys l).Nodup) (hm : (k, v) ∈ l) :
    AList.get? l k = some v := by
  induction l with
  | nil => cases hm
  | cons p t ih =>
    obtain ⟨a, b⟩ := p
    simp only [AList.keys_cons, List.nodup_cons] at h
    simp only [AList.get?]
    rcases List.mem_cons.mp hm with e | e
    · cases e; simp
    · have : a ≠ k := by
        intro e'; subst e'
        exact h.1 (List.mem_map.mpr ⟨(a, v), e, rfl⟩)
      simp only [this, if_false]
      exact ih h.2 e
end

theorem lr_nodup_map_task (l : List Nat) (h : l.Nodup) : (l.map Comp.task).Nodup := by
  induction l with
  | nil => exact List.nodup_nil
  | cons a t ih =>
    simp only [List.nodup_cons] at h
    simp only [List.map_cons, List.nodup_cons]
    refine ⟨?_, ih h.2⟩
    intro hm
    obtain ⟨b, hb, e⟩ := List.mem_map.mp hm
    cases e; exact h.1 hb

/-- The demand of the strategy a task key was placed with (0 for other keys). -/
def demandOf (pl : AList Nat Strategy) (n : String) : Comp → Nat
  | .task t => match AList.get? pl t with
    | some s => byName s.req n
    | none => 0
  | _ => 0

/-- **Per resource type, the entries keyed by tasks hold exactly the sum of the demands of the
strategies of the resident non-batch tasks.** -/
theorem Worker.TOK.held_tasks {w : Worker} (h : w.TOK) (n : String) :
    heldBy Comp.isTask w.res.allocs n = taskDemand w.placed n := by
  let A := w.res.allocs.filter (fun e => Comp.isTask e.1)
  let P := w.placed.filter (fun e => !e.2.isBatch)
  have hA : heldBy Comp.isTask w.res.allocs n = ((A.map (·.1)).map (demandOf w.placed n)).sum := by
    show ((A.map (fun e => pairsByName e.2 n))).sum = _
    rw [List.map_map]
    congr 1
    apply List.map_congr_left
    intro e he
    obtain ⟨c, l⟩ := e
    have hm := List.mem_filter.mp he
    cases c with
    | task t =>
      have hg := AList.lr_get?_of_mem _ _ _ h.anodup hm.1
      obtain ⟨s, hs, hb⟩ := h.heldTask t l hg
      obtain ⟨l', hl', hamt⟩ := h.taskHeld t s hs hb
      rw [hg] at hl'; cases hl'
      simp [demandOf, hs, hamt n]
    | profile p => simp [Comp.isTask] at hm
    | batch g => simp [Comp.isTask] at hm
  have hP : taskDemand w.placed n = (((P.map (·.1)).map Comp.task).map (demandOf w.placed n)).sum := by
    show ((P.map (fun e => byName e.2.req n))).sum = _
    rw [List.map_map, List.map_map]
    congr 1
    apply List.map_congr_left
    intro e he
    obtain ⟨t, s⟩ := e
    have hm := List.mem_filter.mp he
    have hg := AList.lr_get?_of_mem _ _ _ h.pnodup hm.1
    simp [demandOf, hg]
  rw [hA, hP]
  apply List.Perm.sum_nat
  apply List.Perm.map
  have nd1 : (A.map (·.1)).Nodup :=
    List.Nodup.sublist (List.Sublist.map _ List.filter_sublist) h.anodup
  have nd2 : ((P.map (·.1)).map Comp.task).Nodup :=
    lr_nodup_map_task _ (List.Nodup.sublist (List.Sublist.map _ List.filter_sublist) h.pnodup)
  rw [List.perm_ext_iff_of_nodup nd1 nd2]
  intro c
  constructor
  · intro hc
    obtain ⟨e, he, rfl⟩ := List.mem_map.mp hc
    obtain ⟨c, l⟩ := e
    have hm := List.mem_filter.mp he
    cases c with
    | task t =>
      have hg := AList.lr_get?_of_mem _ _ _ h.anodup hm.1
      obtain ⟨s, hs, hb⟩ := h.heldTask t l hg
      refine List.mem_map.mpr ⟨t, List.mem_map.mpr ⟨(t, s), List.mem_filter.mpr ⟨AList.mem_of_get?_some _ _ _ hs, ?_⟩, rfl⟩, rfl⟩
      simp [hb]
    | profile p => simp [Comp.isTask] at hm
    | batch g => simp [Comp.isTask] at hm
  · intro hc
    obtain ⟨t, ht, rfl⟩ := List.mem_map.mp hc
    obtain ⟨e, he, rfl⟩ := List.mem_map.mp ht
    obtain ⟨t, s⟩ := e
    have hm := List.mem_filter.mp he
    have hg := AList.lr_get?_of_mem _ _ _ h.pnodup hm.1
    obtain ⟨l, hl, _⟩ := h.taskHeld t s hg (by simpa using hm.2)
    exact List.mem_map.mpr ⟨(.task t, l), List.mem_filter.mpr ⟨AList.mem_of_get?_some _ _ _ hl, rfl⟩, rfl⟩

/-- **C01's statement for one worker**: per resource type, Σ demand of the strategies of the
resident (non-batch) tasks + what the batch placeholders and the profiles hold = total − available,
hence ≤ total. -/
theorem Worker.TOK.demand_eq {w : Worker} (h : w.TOK) (n : String) :
    byName w.res.avail n + (taskDemand w.placed n + heldBy Comp.isBatch w.res.allocs n +
      heldBy Comp.isProfile w.res.allocs n) = byName w.res.total n ∧
    taskDemand w.placed n ≤ byName w.res.total n := by
  have h1 := Resources.conserve_byName w.res h.rinv n
  rw [allocByName_split, h.held_tasks n] at h1
  exact ⟨by omega, by omega⟩

end ErdosVerif.Model
