import ErdosVerif.Lemmas.SimProgress
/-!
Progress of the `simulate()` loop, part 2: Hoare triples (`Std.Do`, `mvcgen`) showing that
the pending-finish invariant `PG` is kept by the primitives of the simulator model.
The exceptional post-condition is trivial (an exception ends the run).
-/
open Std.Do
set_option mvcgen.warning false

namespace ErdosVerif.Model.Sim

abbrev PA (ex : List SEvent) : Assertion (.except SErr (.arg SimS .pure)) := fun s => ⌜PG none ex s⌝

/-- A computation that keeps the invariant when it returns. -/
abbrev KeepsP {α} (ex : List SEvent) (x : SimM α) : Prop :=
  ⦃PA ex⦄ x ⦃post⟨fun _ => PA ex, fun _ _ => ⌜True⌝⟩⦄

abbrev loopP {β} (ex : List SEvent) : PostCond β (.except SErr (.arg SimS .pure)) :=
  post⟨fun _ s => ⌜PG none ex s⌝, fun _ _ => ⌜True⌝⟩

macro "pg_frame" : tactic => `(tactic| first
  | assumption
  | trivial
  | exact ExceptConds.entails.refl _
  | (intro s h; exact h)
  | (intros; trivial)
  | (rs_hyps h => exact h)
  | (rs_hyps h => exact h.1)
  | (rs_hyps h => exact PG.congr _ _ h rfl rfl rfl rfl rfl rfl rfl rfl rfl)
  | (rs_hyps h => exact PG.congr _ _ h.1 rfl rfl rfl rfl rfl rfl rfl rfl rfl)
  | (rs_hyps h => exact PG.congr _ _ h rfl rfl (pg_skel_push_other _ _ rfl) rfl rfl rfl rfl rfl rfl))

/-! ### primitives -/

theorem row_p (ex : List SEvent) (r : Row) : KeepsP ex (row r) := by
  rmvcgen [row]
  all_goals pg_frame

theorem liftE_p {α} (ex : List SEvent) (e : Except SErr α) : KeepsP ex (liftE e) := by
  unfold liftE; cases e <;> mvcgen
  all_goals pg_frame

theorem liftTape_p {α} (ex : List SEvent) (x : TapeM α) : KeepsP ex (liftTape x) := by
  rmvcgen [liftTape, liftE_p]
  all_goals pg_frame

/-- Appending an entry that is neither a clock entry nor a pop. -/
theorem logE_p (ex : List SEvent) (e : LogE) (he : pg_sk e = none) : KeepsP ex (logE e) := by
  rmvcgen [logE]
  rs_hyps h => exact PG.congr _ _ h rfl rfl (pg_skel_push_other _ _ he) rfl rfl rfl rfl rfl rfl

theorem raiseTask_p (ex : List SEvent) (e : Option SErr) : KeepsP ex (raiseTask e) := by
  unfold raiseTask; cases e <;> mvcgen
  all_goals pg_frame

theorem raiseOutcome_p (ex : List SEvent) (o : Outcome) : KeepsP ex (raiseOutcome o) := by
  unfold raiseOutcome
  cases o with
  | ok => mvcgen; all_goals pg_frame
  | raised e => cases e <;> mvcgen <;> pg_frame

theorem raisePlace_p (ex : List SEvent) (r : Except PyErr Bool) :
    ⦃PA ex⦄ raisePlace r ⦃post⟨fun b s => ⌜PG none ex s ∧ r = .ok b⌝, fun _ _ => ⌜True⌝⟩⦄ := by
  unfold raisePlace
  cases r with
  | ok b => mvcgen; all_goals first | pg_frame | (rs_hyps h => exact ⟨h, rfl⟩)
  | error e => cases e <;> mvcgen <;> pg_frame

/-- Side conditions of `PG.step` in their most common form. -/
macro "pg_side" : tactic => `(tactic| first
  | rfl
  | exact TRel.refl _
  | exact pg_skel_push_other _ _ rfl
  | exact (fun _ h' _ => h')
  | exact (fun _ h' => h')
  | exact Nat.le_refl _
  | exact Nat.le_succ _
  | skip)

/-- `PG none ex s'` from the most recent hypothesis of that form by `PG.step`; leaves the side
conditions that are not routine. -/
macro "pg_step" : tactic => `(tactic|
  (have h := ‹PG _ _ _›
   refine PG.step _ _ h ?_ ?_ ?_ ?_ ?_ ?_ ?_ ?_ ?_ <;> pg_side))

/-- What `mkEvent` returns: type, time, task, an id below the counter and above the ids of
all TASK_FINISHED events, not a kept id. -/
structure MkP (ex : List SEvent) (s : SimS) (r : SEvent) (a : Nat) (b : Int) (c : Option TaskId) : Prop where
  ty : r.ev.etype = a
  time : r.ev.time = b
  tid : r.tid = c
  lt : r.ev.eid < s.nextEid
  above : ∀ e' ∈ s.queue.toList ++ ex, e'.ev.etype = ET.taskFinished → e'.ev.eid < r.ev.eid
  notEF : ¬ EF s.future s.nextSched r.ev.eid

theorem mkEvent_p (ex : List SEvent) (a : Nat) (b : Int) (c : Option TaskId) (d : Option PlacementS)
    (e : Option Nat) :
    ⦃PA ex⦄ mkEvent a b c d e
    ⦃post⟨fun r s => ⌜PG none ex s ∧ MkP ex s r a b c⌝, fun _ _ => ⌜True⌝⟩⦄ := by
  rmvcgen [mkEvent, uniqueName, getGraph, getTask]
  all_goals first
    | pg_frame
    | (have h := ‹PG _ _ _›
       refine ⟨by pg_step, ⟨rfl, rfl, by first | assumption | rfl, Nat.lt_succ_self _, h.eids.finLt, ?_⟩⟩
       intro hx
       exact Nat.lt_irrefl _ (h.eids.efLt _ hx))

theorem mem_queue_push2 (q : Array SEvent) (ex : List SEvent) (e : SEvent) :
    ∀ e' ∈ q.toList ++ ex, e'.ev.etype = ET.taskFinished → e' ∈ (Heap.heappush SEvent.lt q e).toList ++ ex := by
  intro e' he' _
  rcases List.mem_append.mp he' with h1 | h1
  · refine List.mem_append_left _ ?_
    exact Array.mem_toList_iff.mpr (((Heap.heappush_perm SEvent.lt q e).mem_iff (a := e')).mpr
      (Array.mem_push.mpr (Or.inl (Array.mem_toList_iff.mp h1))))
  · exact List.mem_append_right _ h1

theorem mem_heappush_self (q : Array SEvent) (e : SEvent) : e ∈ (Heap.heappush SEvent.lt q e).toList :=
  Array.mem_toList_iff.mpr (((Heap.heappush_perm SEvent.lt q e).mem_iff (a := e)).mpr
    (Array.mem_push.mpr (Or.inr rfl)))

theorem mem_queue_heapify2 (q : Array SEvent) (ex : List SEvent) :
    ∀ e' ∈ q.toList ++ ex, e'.ev.etype = ET.taskFinished → e' ∈ (Heap.heapify SEvent.lt q).toList ++ ex := by
  intro e' he' _
  rcases List.mem_append.mp he' with h1 | h1
  · refine List.mem_append_left _ ?_
    exact Array.mem_toList_iff.mpr (((Heap.heapify_perm SEvent.lt q).mem_iff (a := e')).mpr
      (Array.mem_toList_iff.mp h1))
  · exact List.mem_append_right _ h1

/-- Queueing an event that is not a TASK_FINISHED. -/
theorem addEvent_p (ex : List SEvent) (e : SEvent) (he : e.ev.etype ≠ ET.taskFinished) :
    KeepsP ex (addEvent e) := by
  rmvcgen [addEvent]
  pg_step
  · exact mem_queue_push _ _ _ he
  · exact mem_queue_push2 _ _ _

theorem reheapify_p (ex : List SEvent) : KeepsP ex reheapify := by
  rmvcgen [reheapify]
  pg_step
  · exact mem_queue_heapify _ _
  · exact mem_queue_heapify2 _ _

/-- Erasing the first event with a kept id never erases a TASK_FINISHED event. -/
theorem mem_queue_remove2 {sk : Option TaskId} {ex : List SEvent} {s : SimS} (h : PG sk ex s) (eid i : Nat)
    (hi : s.queue.findIdx? (fun e => e.ev.eid == eid) = some i) (hef : EF s.future s.nextSched eid) :
    ∀ e' ∈ s.queue.toList ++ ex, e'.ev.etype = ET.taskFinished →
      e' ∈ (Heap.heapify SEvent.lt (s.queue.eraseIdxIfInBounds i)).toList ++ ex := by
  intro e' he' hfin
  rcases List.mem_append.mp he' with h1 | h1
  · refine List.mem_append_left _ ?_
    refine Array.mem_toList_iff.mpr (((Heap.heapify_perm SEvent.lt _).mem_iff (a := e')).mpr ?_)
    -- `e'` is not the erased element: that one has the kept id
    obtain ⟨hlt, hp⟩ : ∃ hlt : i < s.queue.size, (s.queue[i].ev.eid == eid) = true := by
      have := Array.findIdx?_eq_some_iff_getElem.mp hi
      exact ⟨this.1, this.2.1⟩
    have hne : e'.ev.eid ≠ eid := by
      intro heq
      exact h.eids.finNotEF e' he' hfin (by rw [heq]; exact hef)
    unfold Array.eraseIdxIfInBounds
    rw [dif_pos hlt]
    have h1' : e' ∈ s.queue := Array.mem_toList_iff.mp h1
    obtain ⟨j, hj, hje⟩ := Array.getElem_of_mem h1'
    have hji : j ≠ i := by
      intro hji; subst hji
      rw [hje] at hp
      exact hne (by simpa using hp)
    rw [Array.mem_iff_getElem]
    by_cases hlt2 : j < i
    · refine ⟨j, by simp; omega, ?_⟩
      rw [Array.getElem_eraseIdx]; simp [hlt2, hje]
    · refine ⟨j - 1, by simp; omega, ?_⟩
      rw [Array.getElem_eraseIdx]
      have : ¬ (j - 1 < i) := by omega
      simp only [this]
      have : j - 1 + 1 = j := by omega
      simp [this, hje]
  · exact List.mem_append_right _ h1

/-- `remove_event` of an event with a kept id. -/
theorem removeEvent_p (ex : List SEvent) (eid : Nat) :
    ⦃fun s => ⌜PG none ex s ∧ EF s.future s.nextSched eid⌝⦄ removeEvent eid
    ⦃post⟨fun _ => PA ex, fun _ _ => ⌜True⌝⟩⦄ := by
  rmvcgen [removeEvent]
  all_goals first
    | pg_frame
    | (rename_i s h i hi
       have h1 := h.1
       refine PG.step _ _ h1 (TRel.refl _) rfl rfl (mem_queue_remove _ _ _) ?_ (fun _ h' => h') (Nat.le_refl _) rfl rfl
       exact mem_queue_remove2 h1 eid _ hi h.2)

theorem mem_queue_edit2 {sk : Option TaskId} {ex : List SEvent} {s : SimS} (h1 : PG sk ex s) (eid : Nat) (f : SEvent → SEvent)
    (h3 : EF s.future s.nextSched eid) :
    ∀ e' ∈ s.queue.toList ++ ex, e'.ev.etype = ET.taskFinished →
      e' ∈ (s.queue.map (fun e => if e.ev.eid == eid then f e else e)).toList ++ ex := by
  intro e' he' hfin
  rcases List.mem_append.mp he' with h4 | h4
  · refine List.mem_append_left _ ?_
    simp only [Array.toList_map, List.mem_map]
    refine ⟨e', h4, ?_⟩
    have hne : ¬ (e'.ev.eid == eid) = true := by
      intro hid
      have he : e'.ev.eid = eid := by simpa using hid
      exact h1.eids.finNotEF e' he' hfin (by rw [he]; exact h3)
    rw [if_neg hne]
  · exact List.mem_append_right _ h4

theorem mem_queue_edit1 {sk : Option TaskId} {ex : List SEvent} {s : SimS} (h1 : PG sk ex s) (eid : Nat) (f : SEvent → SEvent)
    (hf : ∀ e, (f e).ev.etype = e.ev.etype) (h3 : EF s.future s.nextSched eid) :
    ∀ e' ∈ (s.queue.map (fun e => if e.ev.eid == eid then f e else e)).toList ++ ex,
      e'.ev.etype = ET.taskFinished → e' ∈ s.queue.toList ++ ex := by
  intro e' he' hfin
  rcases List.mem_append.mp he' with h4 | h4
  · simp only [Array.toList_map, List.mem_map] at h4
    obtain ⟨e0, he0, heq⟩ := h4
    by_cases hid : (e0.ev.eid == eid) = true
    · exfalso
      rw [if_pos hid] at heq
      have hfin0 : e0.ev.etype = ET.taskFinished := by rw [← hf e0, heq]; exact hfin
      have := h1.eids.finNotEF e0 (List.mem_append_left _ he0) hfin0
      have he : e0.ev.eid = eid := by simpa using hid
      rw [he] at this
      exact this h3
    · rw [if_neg hid] at heq
      subst heq; exact List.mem_append_left _ he0
  · exact List.mem_append_right _ h4

/-- In-place edit of the event(s) with a kept id: never a TASK_FINISHED event. -/
theorem editEvent_p (ex : List SEvent) (eid : Nat) (f : SEvent → SEvent)
    (hf : ∀ e, (f e).ev.etype = e.ev.etype) :
    ⦃fun s => ⌜PG none ex s ∧ EF s.future s.nextSched eid⌝⦄ editEvent eid f
    ⦃post⟨fun _ => PA ex, fun _ _ => ⌜True⌝⟩⦄ := by
  rmvcgen [editEvent]
  rename_i s h _
  obtain ⟨h12, h3⟩ := h
  exact PG.step _ _ h12 (TRel.refl _) rfl rfl (mem_queue_edit1 h12 eid f hf h3) (mem_queue_edit2 h12 eid f h3)
    (fun _ h' => h') (Nat.le_refl _) rfl rfl

/-- A quiet `Task` call on one task, possibly followed by other log entries (field form). -/
theorem PG.quietLog {ex : List SEvent} (s s' : SimS) (t : TaskId) (c : TaskCall) (g : GraphS) (x : TaskS)
    (h : PG none ex s) (hg : s.graphs[t.g]? = some g) (hx : g.task? t.t = some x)
    (hc : c.isQuiet = true)
    (hgr : s'.graphs = s.graphs.setIfInBounds t.g (g.setTask t.t (x.call c).1))
    (hn : s'.now = s.now) (hl : pg_skel s'.log.toList = pg_skel s.log.toList)
    (hq : s'.queue = s.queue) (hfu : s'.future = s.future) (hns : s'.nextSched = s.nextSched)
    (hid : s'.nextEid = s.nextEid) (ha : s'.allGraphs = s.allGraphs) (hj : s'.jobs = s.jobs) : PG none ex s' := by
  refine PG.step s s' h ?_ hn hl (by rw [hq]; exact fun _ h' _ => h') (by rw [hq]; exact fun _ h' _ => h')
    (by rw [hfu, hns]; exact fun _ h' => h') (by rw [hid]; exact Nat.le_refl _) ha hj
  rw [hgr]
  exact TRel.setGraph _ _ g _ hg (RFrame.setTask g _ x _ hx (call_TR x c (h.allPre _ g hg _ x hx) hc))

macro "pg_quiet" : tactic => `(tactic| first
  | (have h := ‹PG none _ _›
     exact PG.quietLog _ _ _ _ _ _ h ‹_› ‹_› rfl rfl rfl (pg_skel_push_other _ _ rfl) rfl rfl rfl rfl rfl rfl)
  | (have h := ‹PG none _ _›
     exact PG.quietLog _ _ _ _ _ _ h ‹_› ‹_› rfl rfl rfl rfl rfl rfl rfl rfl rfl rfl))

theorem taskCall_p (ex : List SEvent) (t : TaskId) (c : TaskCall) (hc : c.isQuiet = true) :
    KeepsP ex (taskCall t c) := by
  rmvcgen [taskCall, getGraph, setGraph, raiseTask]
  all_goals first
    | pg_frame
    | (have h := ‹PG none _ _›
       exact PG.quietLog _ _ t c _ _ h ‹_› ‹_› hc rfl rfl rfl rfl rfl rfl rfl rfl rfl)

/-- Writing back a task graph in which no RUNNING task changed and none became RUNNING. -/
theorem PG.setGraphR {ex : List SEvent} (s s' : SimS) (gi : Nat) (g g' : GraphS)
    (h : PG none ex s) (hg : s.graphs[gi]? = some g) (hf : RFrame g g')
    (hgr : s'.graphs = s.graphs.setIfInBounds gi g') (hn : s'.now = s.now)
    (hl : pg_skel s'.log.toList = pg_skel s.log.toList) (hq : s'.queue = s.queue)
    (hef : ∀ x, EF s'.future s'.nextSched x → EF s.future s.nextSched x)
    (hid : s'.nextEid = s.nextEid) (ha : s'.allGraphs = s.allGraphs) (hj : s'.jobs = s.jobs) : PG none ex s' :=
  PG.step s s' h (by rw [hgr]; exact TRel.setGraph _ _ g _ hg hf) hn hl
    (by rw [hq]; exact fun _ h' _ => h') (by rw [hq]; exact fun _ h' _ => h') hef (by rw [hid]; exact Nat.le_refl _) ha hj

theorem PG.cancelGraph {ex : List SEvent} (s s' : SimS) (gi k : Nat) (time : Int) (g : GraphS)
    (h : PG none ex s) (hg : s.graphs[gi]? = some g)
    (hgr : s'.graphs = s.graphs.setIfInBounds gi (g.cancel k time).g) (hn : s'.now = s.now)
    (hl : pg_skel s'.log.toList = pg_skel s.log.toList) (hq : s'.queue = s.queue)
    (hef : ∀ x, EF s'.future s'.nextSched x → EF s.future s.nextSched x)
    (hid : s'.nextEid = s.nextEid) (ha : s'.allGraphs = s.allGraphs) (hj : s'.jobs = s.jobs) : PG none ex s' :=
  PG.setGraphR s s' gi g _ h hg (GraphS.rframe_cancel g k time (h.allPre gi g hg)) hgr hn hl hq hef hid ha hj

theorem PG.notifyGraph {ex : List SEvent} (s s' : SimS) (gi k : Nat) (time : Int) (tape : List Draw) (g : GraphS)
    (h : PG none ex s) (hg : s.graphs[gi]? = some g)
    (hgr : s'.graphs = s.graphs.setIfInBounds gi (g.notifyCompletion k time tape).g)
    (hn : s'.now = s.now) (hl : pg_skel s'.log.toList = pg_skel s.log.toList) (hq : s'.queue = s.queue)
    (hef : ∀ x, EF s'.future s'.nextSched x → EF s.future s.nextSched x)
    (hid : s'.nextEid = s.nextEid) (ha : s'.allGraphs = s.allGraphs) (hj : s'.jobs = s.jobs) : PG none ex s' :=
  PG.setGraphR s s' gi g _ h hg (GraphS.rframe_notifyCompletion g k time tape (h.allPre gi g hg)) hgr hn hl hq hef
    hid ha hj

macro "pg_cancel" : tactic => `(tactic|
  (have h := ‹PG none _ _›
   exact PG.cancelGraph _ _ _ _ _ _ h ‹_› rfl rfl rfl rfl
     (by first | exact fun _ h' => h' | exact EF_erase _ _ _) rfl rfl rfl))

macro "pg_notify" : tactic => `(tactic|
  (have h := ‹PG none _ _›
   exact PG.notifyGraph _ _ _ _ _ _ _ h ‹_› rfl rfl rfl rfl (fun _ h' => h') rfl rfl rfl))

/-- A closed-loop follow-up graph is appended; the job's counters change. -/
theorem PG.push {ex : List SEvent} (s s' : SimS) (h : PG none ex s) (g : GraphS) (hq : g.Quiet) (ji : Nat) (j' : JobS)
    (hj' : j'.template.Quiet)
    (hg : s'.graphs = s.graphs.push g) (hn : s'.now = s.now) (hl : s'.log = s.log)
    (hqu : s'.queue = s.queue) (hf : s'.future = s.future) (hns : s'.nextSched = s.nextSched)
    (hid : s'.nextEid = s.nextEid) (ha : s'.allGraphs = s.allGraphs)
    (hj : s'.jobs = s.jobs.setIfInBounds ji j') : PG none ex s' := by
  refine PG.benign s s' h (by rw [hg]; exact TRel.push _ g hq) hn (by rw [hl])
    (by rw [hqu]; exact fun _ h' _ => h') (by rw [hqu]; exact fun _ h' _ => h') ?_ (by rw [hid]; exact Nat.le_refl _) ha ?_
  · intro x hx; rw [hf, hns] at hx; exact Or.inl hx
  · intro j hjm
    rw [hj] at hjm
    rcases Array.mem_or_eq_of_mem_setIfInBounds (Array.mem_toList_iff.mp hjm) with h1 | h1
    · exact h.tmplQ j (Array.mem_toList_iff.mpr h1)
    · subst h1; exact hj'

/-- The first UPDATE_WORKLOAD adopts the loader's graphs (none of their tasks is RUNNING). -/
theorem PG.load {ex : List SEvent} (s s' : SimS) (h : PG none ex s)
    (hg : s'.graphs = s.allGraphs) (hn : s'.now = s.now) (hl : s'.log = s.log)
    (hq : s'.queue = s.queue) (hfu : s'.future = s.future) (hns : s'.nextSched = s.nextSched)
    (hid : s'.nextEid = s.nextEid) (ha : s'.allGraphs = s.allGraphs) (hj : s'.jobs = s.jobs) : PG none ex s' := by
  have hquiet : ∀ t x, taskAt s'.graphs t = some x → x.state ≠ .running ∧ x.PreOK := by
    intro t x hx
    rw [hg] at hx
    obtain ⟨g0, h0, h1⟩ := taskAt_some _ t x hx
    exact (h.allQ g0 (Array.mem_toList_iff.mpr (Array.mem_of_getElem? h0))).quiet t.t x h1
  refine ⟨fun t x hx => (hquiet t x hx).2, fun t x hx hs => absurd hs (hquiet t x hx).1, ?_, ?_, ?_, ?_⟩
  · rw [hq, hfu, hns, hid]; exact h.eids
  · rw [ha]; exact h.allQ
  · rw [hj]; exact h.tmplQ
  · rw [hl, hn]; exact h.lg

/-- A fresh event id is kept (`_future_placement_events[task] = event`, `_next_scheduler_event = event`). -/
theorem PG.efAdd {ex : List SEvent} (s s' : SimS) (h : PG none ex s) (x0 : Nat) (hx : x0 < s.nextEid)
    (hfresh : ∀ e ∈ s.queue.toList ++ ex, e.ev.etype = ET.taskFinished → e.ev.eid < x0)
    (hg : s'.graphs = s.graphs) (hn : s'.now = s.now) (hl : s'.log = s.log)
    (hq : s'.queue = s.queue)
    (hef : ∀ x, EF s'.future s'.nextSched x → EF s.future s.nextSched x ∨ x = x0)
    (hid : s'.nextEid = s.nextEid) (ha : s'.allGraphs = s.allGraphs) (hj : s'.jobs = s.jobs) : PG none ex s' := by
  obtain ⟨h1, h2, h3, h4, h5, h6⟩ := h
  refine ⟨?_, ?_, ?_, ?_, ?_, ?_⟩
  · rw [hg]; exact h1
  · rw [hg, hq, hn]; exact h2
  · rw [hid, hq]
    exact h3.ef_add x0 hx (fun _ h' _ => h') (fun e he hf => Nat.ne_of_lt (hfresh e he hf)) hef
  · rw [ha]; exact h4
  · rw [hj]; exact h5
  · rw [hl, hn]; exact h6

/-! ### workload level -/

theorem logUtilization_p (ex : List SEvent) (time : Int) : KeepsP ex (logUtilization time) := by
  have h_row := row_p ex
  rmvcgen [logUtilization, h_row]
  case inv1 => exact loopP ex
  case inv2 => exact loopP ex
  all_goals pg_frame

theorem schedulable_p (ex : List SEvent) (time : Int) : KeepsP ex (schedulable time) := by
  have h_tape : ∀ l : TapeM (List Nat), KeepsP ex (liftTape l) := fun l => liftTape_p ex l
  rmvcgen [schedulable, getGraph, placedTasks, h_tape]
  case inv1 => exact loopP ex
  all_goals pg_frame

theorem notifyGraphCompletion_p (ex : List SEvent) (gi : Nat) (finish : Int) :
    KeepsP ex (notifyGraphCompletion gi finish) := by
  rmvcgen [notifyGraphCompletion, liftTape, liftE]
  all_goals first
    | pg_frame
    | (have h := ‹PG none _ _›
       have hj := ‹(_ : Array JobS)[_]? = some _›
       have hjq := h.tmplQ _ (Array.mem_toList_iff.mpr (Array.mem_of_getElem? hj))
       refine PG.push _ _ h _ ?_ _ _ ?_ rfl rfl rfl rfl rfl rfl rfl rfl rfl
       · exact quiet_instantiate _ _ _ (fun i t => ⟨rfl, rfl⟩) hjq
       · exact hjq)

end ErdosVerif.Model.Sim
