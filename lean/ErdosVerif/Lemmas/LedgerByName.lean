import ErdosVerif.Lemmas.LedgerRefusal
/-!
Per resource *type* (name) accounting, refusals at worker level, copies.
-/
namespace ErdosVerif.Model

/-- Quantity of resource type `n` in a vector (all ids). -/
def byName : Vec → String → Nat
  | [], _ => 0
  | (r, q) :: t, n => (if r.name = n then q else 0) + byName t n

def pairsByName : List (Res × Nat) → String → Nat
  | [], _ => 0
  | (r, q) :: t, n => (if r.name = n then q else 0) + pairsByName t n

/-- Quantity of resource type `n` held by all computations together. -/
def allocByName : AList Comp (List (Res × Nat)) → String → Nat
  | [], _ => 0
  | (_, l) :: t, n => pairsByName l n + allocByName t n

def sumOver : List Res → (Res → Nat) → Nat
  | [], _ => 0
  | k :: t, f => f k + sumOver t f

theorem sumOver_add (K : List Res) (f g : Res → Nat) :
    sumOver K (fun k => f k + g k) = sumOver K f + sumOver K g := by
  induction K with
  | nil => rfl
  | cons k t ih => simp only [sumOver, ih]; omega

theorem sumOver_congr (K : List Res) (f g : Res → Nat) (h : ∀ k ∈ K, f k = g k) :
    sumOver K f = sumOver K g := by
  induction K with
  | nil => rfl
  | cons k t ih =>
    simp only [sumOver]
    rw [h k (by simp), ih (fun k hk => h k (by simp [hk]))]

theorem sumOver_zero (K : List Res) (f : Res → Nat) (h : ∀ k ∈ K, f k = 0) : sumOver K f = 0 := by
  induction K with
  | nil => rfl
  | cons k t ih => simp only [sumOver]; rw [h k (by simp), ih (fun k hk => h k (by simp [hk]))]

/-- A function supported on one element of a duplicate-free list. -/
theorem sumOver_single (K : List Res) (r : Res) (v : Nat) (hr : r ∈ K) (hnd : K.Nodup) :
    sumOver K (fun k => if r = k then v else 0) = v := by
  induction K with
  | nil => simp at hr
  | cons k t ih =>
    simp only [List.nodup_cons] at hnd
    simp only [sumOver]
    by_cases h : r = k
    · subst h
      have : sumOver t (fun k => if r = k then v else 0) = 0 :=
        sumOver_zero _ _ (fun k hk => by
          have : ¬ r = k := fun e => hnd.1 (e ▸ hk)
          simp [this])
      simp [this]
    · simp only [h, if_false, Nat.zero_add]
      simp only [List.mem_cons] at hr
      rcases hr with hr | hr
      · exact absurd hr h
      · exact ih hr hnd.2

theorem byName_eq_sumOver (v : Vec) (n : String) (hnd : (AList.keys v).Nodup) :
    byName v n = sumOver (AList.keys v) (fun k => if k.name = n then getQ v k else 0) := by
  induction v with
  | nil => rfl
  | cons p t ih =>
    obtain ⟨r, q⟩ := p
    simp only [AList.keys_cons, List.nodup_cons] at hnd
    simp only [byName, AList.keys_cons, sumOver, getQ_cons, if_true]
    rw [ih hnd.2]
    congr 1
    apply sumOver_congr
    intro k hk
    have : ¬ r = k := fun e => hnd.1 (e ▸ hk)
    simp [this]

theorem pairsByName_eq_sumOver (K : List Res) (hnd : K.Nodup) (l : List (Res × Nat)) (n : String)
    (hl : ∀ p ∈ l, p.1 ∈ K) :
    pairsByName l n = sumOver K (fun k => if k.name = n then pairsAt l k else 0) := by
  induction l with
  | nil => simp [pairsByName, sumOver_zero]
  | cons p t ih =>
    obtain ⟨r, q⟩ := p
    have hr : r ∈ K := hl (r, q) (by simp)
    simp only [pairsByName, pairsAt]
    rw [ih (fun p hp => hl p (by simp [hp]))]
    have : sumOver K (fun k => if k.name = n then (if r = k then q else 0) + pairsAt t k else 0)
        = sumOver K (fun k => (if r = k then (if r.name = n then q else 0) else 0)
            + (if k.name = n then pairsAt t k else 0)) := by
      apply sumOver_congr
      intro k _
      by_cases e : r = k
      · subst e; by_cases hn : r.name = n <;> simp [hn]
      · by_cases hn : k.name = n <;> simp [e, hn]
    rw [this, sumOver_add, sumOver_single K r _ hr hnd]

theorem allocByName_eq_sumOver (K : List Res) (hnd : K.Nodup) (a : AList Comp (List (Res × Nat)))
    (n : String) (ha : ∀ c l, (c, l) ∈ a → ∀ p ∈ l, p.1 ∈ K) :
    allocByName a n = sumOver K (fun k => if k.name = n then allocAt a k else 0) := by
  induction a with
  | nil => simp [allocByName, sumOver_zero]
  | cons p t ih =>
    obtain ⟨c, l⟩ := p
    simp only [allocByName, allocAt]
    rw [ih (fun c' l' hm => ha c' l' (by simp [hm])),
        pairsByName_eq_sumOver K hnd l n (ha c l (by simp)), ← sumOver_add]
    apply sumOver_congr
    intro k _
    by_cases hn : k.name = n <;> simp [hn]

/-- **Conservation per resource type**: available + allocated = total. -/
theorem Resources.conserve_byName (r : Resources) (h : r.Inv) (n : String) :
    byName r.avail n + allocByName r.allocs n = byName r.total n := by
  have hnd : (AList.keys r.avail).Nodup := h.keys_eq ▸ h.nodup
  rw [byName_eq_sumOver r.avail n hnd, byName_eq_sumOver r.total n h.nodup, h.keys_eq,
      allocByName_eq_sumOver _ h.nodup r.allocs n h.known, ← sumOver_add]
  apply sumOver_congr
  intro k _
  have := h.conserve k
  by_cases hn : k.name = n <;> simp [hn]
  exact this

/-- Quantity of type `n` requested by a strategy's requirement. -/
theorem scan_total_byName (k : Res) (v : Vec) (q : Nat) (n : String) :
    pairsByName (Resources.scan k v q).2 n = if k.name = n then pairsSum (Resources.scan k v q).2 else 0 := by
  have hrec := scan_recorded k v q
  generalize (Resources.scan k v q).2 = l at hrec
  induction l with
  | nil => simp [pairsByName, pairsSum]
  | cons p t ih =>
    obtain ⟨r, x⟩ := p
    have hm := (hrec (r, x) (by simp)).2
    have hname : r.name = k.name := by
      simp only [Res.matches, Bool.and_eq_true, beq_iff_eq] at hm; exact hm.1
    simp only [pairsByName, pairsSum, hname]
    rw [ih (fun p hp => hrec p (by simp [hp]))]
    by_cases hn : k.name = n <;> simp [hn]

/-! ### refusals at worker level -/
namespace Worker

theorem loadProfile_refused (w : Worker) (p : Nat) (s : Strategy) (h : w.res.Inv)
    (hr : (w.loadProfile p s).2 ≠ .ok) : (w.loadProfile p s).1 = w := by
  unfold loadProfile at hr ⊢
  cases hres : w.res.allocateMultiple s.req (.profile p) with
  | mk r o =>
    rw [hres] at hr
    cases o with
    | ok => simp at hr
    | raised e =>
      have := Resources.allocateMultiple_refused w.res s.req (.profile p) h (by rw [hres]; simp)
      rw [hres] at this
      simp only at this ⊢
      subst this
      rfl

theorem placeTask_refused (w : Worker) (t : Nat) (s : Strategy) (h : w.res.Inv)
    (hr : (w.placeTask t s).2 ≠ .ok) : (w.placeTask t s).1 = w := by
  unfold placeTask at hr ⊢
  split
  · rename_i hb
    simp only [hb, if_true] at hr
    split
    · rename_i hg
      simp only [hg] at hr
      split
      · rfl
      · rename_i hbs
        simp only [hbs, if_false] at hr
        cases hres : w.res.allocateMultiple s.req (.batch w.fresh) with
        | mk r o =>
          rw [hres] at hr
          cases o with
          | ok => simp at hr
          | raised e =>
            have := Resources.allocateMultiple_refused w.res s.req (.batch w.fresh) h (by rw [hres]; simp)
            rw [hres] at this
            simp only at this ⊢
            subst this
            rfl
    · rename_i ms hg
      simp only [hg] at hr
      split
      · rfl
      · rename_i hsz; simp [hsz] at hr
  · rename_i hb
    simp only [hb] at hr
    cases hres : w.res.allocateMultiple s.req (.task t) with
    | mk r o =>
      rw [hres] at hr
      cases o with
      | ok => simp at hr
      | raised e =>
        have := Resources.allocateMultiple_refused w.res s.req (.task t) h (by rw [hres]; simp)
        rw [hres] at this
        simp only at this ⊢
        subst this
        rfl

theorem evictProfile_refused (w : Worker) (p : Nat)
    (hr : (w.evictProfile p).2 ≠ .ok) : (w.evictProfile p).1 = w := by
  unfold evictProfile at hr ⊢
  by_cases hpres : (!w.availProf.has p && !w.pendProf.has p) = true
  · simp only [hpres, if_true]
  · simp only [hpres, if_false] at hr ⊢
    cases hres : w.res.deallocate (.profile p) with
    | mk r o =>
      rw [hres] at hr
      cases o with
      | ok =>
        exfalso; apply hr
        simp only [Bool.false_eq_true, if_false]
        split <;> rfl
      | raised e =>
        have := Resources.deallocate_refused w.res (.profile p) (by rw [hres]; simp)
        rw [hres] at this
        simp only at this ⊢
        subst this
        rfl

/-- Removal of a task that is not part of a batch: a refusal changes nothing. -/
theorem removeTask_refused (w : Worker) (t : Nat)
    (hs : ∀ s, AList.get? w.placed t = some s → s.isBatch = false)
    (hr : (w.removeTask t).2 ≠ .ok) : (w.removeTask t).1 = w := by
  unfold removeTask at hr ⊢
  split
  · rfl
  · rename_i s hg
    have hb := hs s hg
    simp only [hg, hb] at hr ⊢
    cases hres : w.res.deallocate (.task t) with
    | mk r o =>
      rw [hres] at hr
      cases o with
      | ok => simp at hr
      | raised e =>
        have := Resources.deallocate_refused w.res (.task t) (by rw [hres]; simp)
        rw [hres] at this
        simp only at this ⊢
        subst this
        rfl

end Worker

/-! ### copies -/

/-- A deep copy is an empty cluster with the same totals. -/
theorem Worker.deepcopy_empty (w : Worker) :
    w.deepcopy.res.avail = w.res.total ∧ w.deepcopy.res.total = w.res.total ∧
    w.deepcopy.res.allocs = [] ∧ w.deepcopy.placed = [] ∧ w.deepcopy.batches = [] ∧
    w.deepcopy.availProf = [] ∧ w.deepcopy.pendProf = [] :=
  ⟨rfl, rfl, rfl, rfl, rfl, rfl, rfl⟩

/-- A shallow copy has the same placed tasks, batches and profiles, and the same totals. -/
theorem Worker.copy_residents (w : Worker) :
    w.copy.1.placed = w.placed ∧ w.copy.1.batches = w.batches ∧ w.copy.1.batchTask = w.batchTask ∧
    w.copy.1.availProf = w.availProf ∧ w.copy.1.pendProf = w.pendProf := by
  unfold Worker.copy
  cases w.res.copy with
  | mk r o => exact ⟨rfl, rfl, rfl, rfl, rfl⟩

end ErdosVerif.Model
