import ErdosVerif.Lemmas.SimCensusBase
import Std.Data.String.ToNat
/-!
Run-level census of the simulator model, part 2: Hoare triples (`Std.Do` / `mvcgen`) for
every primitive, handler and the main loop, and the run theorem `simulate_census`.

Shape of the specifications: `KeepsC x` = `⦃Census⦄ x ⦃Census on normal AND on exceptional
exit⦄`. The exceptions:
* `handleTaskCancel` (hence `handleEvent`, `iter`, `run`): `Census` on normal exit,
  `CensusW` when an exception escapes (the counter is incremented before the row);
* `finishRemove` / `finishRows`: between them the TASK_FINISHED row is still owed; the
  intermediate assertion `FinMid t` says so and that the task exists, which is why
  `finishRows` cannot raise;
* `handleEvent`, `iter`: when they return `true` the last row is the SIMULATOR_END row
  carrying the five counters (`EndLast`).
-/
open Std.Do
set_option mvcgen.warning false

namespace ErdosVerif.Model.Sim

/-- Closes the routine verification conditions. -/
macro "cen_close" : tactic => `(tactic| first
  | (intros; rfl)
  | assumption
  | (intro s h; exact h)
  | (pick_hyp h => exact h)
  | (pick_hyp h => exact h.1)
  | (pick_hyp h => exact Census.congr _ _ h rfl rfl rfl rfl rfl rfl rfl)
  | (pick_hyp h => exact Census.congr _ _ h.1 rfl rfl rfl rfl rfl rfl rfl)
  | (pick_hyp h => exact Census.weak h)
  | (intro s h; exact Census.weak h)
  | (simp_all; done))

/-! ### primitives -/

theorem row_c (r : Row) (hn : neutralRow r = true) : KeepsC (row r) := by
  mvcgen [row]
  rename_i s h _
  exact Census.row s r h hn
theorem logE_c (e : LogE) (he : isFinishLog e = false) : KeepsC (logE e) := by
  mvcgen [logE]
  rename_i s h _
  exact Census.log s e h he
theorem liftE_c {α} (e : Except SErr α) : KeepsC (liftE e) := by
  unfold liftE; cases e <;> mvcgen
theorem liftTape_c {α} (x : TapeM α) : KeepsC (liftTape x) := by
  mvcgen [liftTape, liftE_c]
  all_goals cen_close
theorem getGraph_c (gi : Nat) : KeepsC (getGraph gi) := by mvcgen [getGraph]
theorem setGraph_c (gi : Nat) (g : GraphS) : KeepsC (setGraph gi g) := by
  mvcgen [setGraph]
  all_goals cen_close
theorem raiseTask_c (e : Option SErr) : KeepsC (raiseTask e) := by
  unfold raiseTask; cases e <;> mvcgen
theorem addEvent_c (e : SEvent) : KeepsC (addEvent e) := by
  mvcgen [addEvent]
  all_goals cen_close
theorem reheapify_c : KeepsC reheapify := by
  mvcgen [reheapify]
  all_goals cen_close
theorem removeEvent_c (eid : Nat) : KeepsC (removeEvent eid) := by
  mvcgen [removeEvent]
  all_goals cen_close
theorem editEvent_c (eid : Nat) (f : SEvent → SEvent) : KeepsC (editEvent eid f) := by
  mvcgen [editEvent]
  all_goals cen_close
theorem findEvent_c (eid : Nat) : KeepsC (findEvent eid) := by mvcgen [findEvent]
theorem nextOfType_c (ty : Nat) : KeepsC (nextOfType ty) := by mvcgen [nextOfType]
theorem placedTasks_c : KeepsC placedTasks := by mvcgen [placedTasks]
theorem popEvent_c : KeepsC popEvent := by
  mvcgen [popEvent]
  all_goals cen_close
theorem getPool_c (p : Nat) : KeepsC (getPool p) := by mvcgen [getPool]
theorem setPool_c (p : Nat) (x : Pool) : KeepsC (setPool p x) := by
  mvcgen [setPool]
  all_goals cen_close
theorem raiseOutcome_c (o : Outcome) : KeepsC (raiseOutcome o) := by
  unfold raiseOutcome
  cases o with
  | ok => mvcgen
  | raised e => cases e <;> mvcgen
theorem raisePlace_c (r : Except PyErr Bool) : KeepsC (raisePlace r) := by
  unfold raisePlace
  cases r with
  | ok b => mvcgen
  | error e => cases e <;> mvcgen
theorem advanceClock_c (dt : Int) : KeepsC (advanceClock dt) := by
  mvcgen [advanceClock]
  rename_i s h _
  exact Census.congr _ _ (Census.log s (.clock (s.now + dt)) h rfl) rfl rfl rfl rfl rfl rfl rfl

attribute [local spec] row_c logE_c liftE_c liftTape_c getGraph_c setGraph_c raiseTask_c addEvent_c reheapify_c
  removeEvent_c editEvent_c findEvent_c nextOfType_c placedTasks_c popEvent_c getPool_c setPool_c raiseOutcome_c
  raisePlace_c advanceClock_c

theorem getTask_c (t : TaskId) : KeepsC (getTask t) := by
  mvcgen [getTask]
  all_goals cen_close
attribute [local spec] getTask_c
theorem setTask_c (t : TaskId) (x : TaskS) : KeepsC (setTask t x) := by
  mvcgen [setTask]
  all_goals cen_close
theorem uniqueName_c (t : TaskId) : KeepsC (uniqueName t) := by
  mvcgen [uniqueName]
  all_goals cen_close
attribute [local spec] setTask_c uniqueName_c
theorem taskCall_c (t : TaskId) (c : TaskCall) : KeepsC (taskCall t c) := by
  mvcgen [taskCall]
  all_goals cen_close
theorem startTask_c (t : TaskId) (g : GraphS) (h : g.isReadyToRun t.t = true) (time fuzzed : Int) :
    KeepsC (startTask t g h time fuzzed) := by
  mvcgen [startTask]
  all_goals cen_close
theorem mkEvent_c (a : Nat) (b : Int) (c : Option TaskId) (d : Option PlacementS) (e : Option Nat) :
    KeepsC (mkEvent a b c d e) := by
  mvcgen [mkEvent]
  all_goals cen_close
attribute [local spec] taskCall_c startTask_c mkEvent_c

/-! ### workload level -/

theorem logUtilization_c (time : Int) : KeepsC (logUtilization time) := by
  mvcgen [logUtilization]
  case inv1 => exact cLoop
  case inv2 => exact cLoop
  all_goals cen_close
theorem schedulable_c (time : Int) : KeepsC (schedulable time) := by
  mvcgen [schedulable]
  case inv1 => exact cLoop
  all_goals cen_close
theorem releasable_c : KeepsC releasable := by mvcgen [releasable]
theorem notifyGraphCompletion_c (gi : Nat) (finish : Int) : KeepsC (notifyGraphCompletion gi finish) := by
  mvcgen [notifyGraphCompletion]
  all_goals cen_close
attribute [local spec] logUtilization_c schedulable_c releasable_c notifyGraphCompletion_c

theorem placementSkip_c (time : Int) (p : PlacementS) (drop : Bool) : KeepsC (placementSkip time p drop) := by
  mvcgen [placementSkip]
  all_goals first | exact cLoop | cen_close
attribute [local spec] placementSkip_c
theorem placementEvents_c (time : Int) (p : PlacementS) : KeepsC (placementEvents time p) := by
  mvcgen [placementEvents]
  all_goals cen_close
theorem nextSchedulerEvent_c (evTime : Int) : KeepsC (nextSchedulerEvent evTime) := by
  mvcgen [nextSchedulerEvent]
  case inv1 => exact cLoop
  all_goals cen_close
attribute [local spec] placementEvents_c nextSchedulerEvent_c

/-! ### handlers -/

theorem handleSchedulerStart_c (ev : SEvent) : KeepsC (handleSchedulerStart ev) := by
  mvcgen [handleSchedulerStart]
  all_goals cen_close
theorem handleSchedulerFinish_c (ev : SEvent) : KeepsC (handleSchedulerFinish ev) := by
  mvcgen [handleSchedulerFinish]
  case inv1 => exact cLoop
  case inv2 => exact cLoop
  all_goals cen_close
theorem handleTaskRelease_c (ev : SEvent) : KeepsC (handleTaskRelease ev) := by
  mvcgen [handleTaskRelease]
  all_goals cen_close
theorem handleUpdateWorkload_c (ev : SEvent) : KeepsC (handleUpdateWorkload ev) := by
  mvcgen [handleUpdateWorkload]
  case inv1 => exact cLoop
  case inv2 => exact cLoop
  all_goals cen_close
theorem handleTaskGraphRelease_c (ev : SEvent) : KeepsC (handleTaskGraphRelease ev) := by
  mvcgen [handleTaskGraphRelease]
  all_goals cen_close
theorem handleProfile_c (ev : SEvent) (load : Bool) : KeepsC (handleProfile ev load) := by
  mvcgen [handleProfile]
  all_goals cen_close
theorem placementNotReady_c (ev : SEvent) (t : TaskId) (p : PlacementS) : KeepsC (placementNotReady ev t p) := by
  mvcgen [placementNotReady]
  case inv1 => exact cLoop
  case inv2 => exact cLoop
  all_goals cen_close
theorem placementRow_c (t : TaskId) (pid : Nat) (time : Int) (st : Strategy) : KeepsC (placementRow t pid time st) := by
  mvcgen [placementRow]
  all_goals cen_close
attribute [local spec] placementRow_c placementNotReady_c
theorem placementPlace_c (ev : SEvent) (t : TaskId) (p : PlacementS) (g : GraphS) (h : g.isReadyToRun t.t = true) :
    KeepsC (placementPlace ev t p g h) := by
  mvcgen [placementPlace]
  all_goals cen_close
attribute [local spec] placementPlace_c
theorem handleTaskPlacement_c (ev : SEvent) : KeepsC (handleTaskPlacement ev) := by
  mvcgen [handleTaskPlacement]
  all_goals cen_close
theorem finishNotify_c (t : TaskId) (time : Int) : KeepsC (finishNotify t time) := by
  mvcgen [finishNotify]
  all_goals first | exact cLoop | cen_close
attribute [local spec] handleSchedulerStart_c handleSchedulerFinish_c handleTaskRelease_c handleUpdateWorkload_c
  handleTaskGraphRelease_c handleProfile_c handleTaskPlacement_c finishNotify_c

/-! ### a finished task: counter first, rows second -/

/-- Task `t` exists in the workload. -/
def TaskExists (t : TaskId) (s : SimS) : Prop := ∃ g x, s.graphs[t.g]? = some g ∧ g.task? t.t = some x

/-- Between `finishRemove` and `finishRows`: the census holds except that the
TASK_FINISHED row of the task just counted is still owed; the task exists. -/
structure FinMid (t : TaskId) (s : SimS) : Prop where
  fin : s.finishedTasks = countRows "TASK_FINISHED" s.rows.toList + 1
  finLog : s.finishedTasks = s.log.toList.countP isFinishLog
  can : s.cancelledTasks = countRows "TASK_CANCEL" s.rows.toList
  mis : s.missedTaskDeadlines = countRows "MISSED_DEADLINE" s.rows.toList
  gra : s.finishedGraphs = countRows "TASK_GRAPH_FINISHED" s.rows.toList
  misG : s.missedGraphDeadlines = s.rows.toList.countP lateGraphRow
  misGle : s.missedGraphDeadlines ≤ countRows "MISSED_TASK_GRAPH_DEADLINE" s.rows.toList
  ends : EndRowsOK s.rows.toList
  ex : TaskExists t s

theorem taskExists_set (graphs : Array GraphS) (t : TaskId) (g : GraphS) (x x' : TaskS)
    (hg : graphs[t.g]? = some g) (hx : g.task? t.t = some x) :
    ∃ g' y, (graphs.setIfInBounds t.g (g.setTask t.t x'))[t.g]? = some g' ∧ g'.task? t.t = some y := by
  have hlt : t.g < graphs.size := (Array.getElem?_eq_some_iff.mp hg).1
  have hlt2 : t.t < g.tasks.size := by
    simp only [GraphS.task?] at hx
    exact (Array.getElem?_eq_some_iff.mp hx).1
  refine ⟨g.setTask t.t x', x', by simp [hlt], ?_⟩
  simp [GraphS.setTask, GraphS.task?, hlt2]

theorem finMid_intro (t : TaskId) (time : Int) (s s' : SimS) (h : Census s) (e : LogE) (he : isFinishLog e = false)
    (hr : s'.rows = s.rows) (hl : s'.log = (s.log.push e).push (.finish t time))
    (h1 : s'.finishedTasks = s.finishedTasks + 1) (h2 : s'.cancelledTasks = s.cancelledTasks)
    (h3 : s'.missedTaskDeadlines = s.missedTaskDeadlines) (h4 : s'.finishedGraphs = s.finishedGraphs)
    (h5 : s'.missedGraphDeadlines = s.missedGraphDeadlines) (hex : TaskExists t s') : FinMid t s' := by
  obtain ⟨a, b, c, d, e', f, g, i⟩ := h
  refine ⟨by rw [h1, hr, a], ?_, by rw [h2, hr]; exact c, by rw [h3, hr]; exact d,
    by rw [h4, hr]; exact e', by rw [h5, hr]; exact f, by rw [h5, hr]; exact g, by rw [hr]; exact i, hex⟩
  rw [h1, hl, b]
  have hf : isFinishLog (.finish t time) = true := rfl
  simp only [Array.toList_push, List.countP_append, List.countP_cons, List.countP_nil, he, hf]
  simp

theorem finishRemove_c (t : TaskId) (time : Int) :
    ⦃CA⦄ finishRemove t time ⦃post⟨fun _ s => ⌜FinMid t s⌝, fun _ => CA⟩⦄ := by
  mvcgen [finishRemove, taskCall, getGraph, setGraph, raiseTask, logE]
  all_goals try cen_close
  · rename_i s h _ g hg x hx _ _ _ _
    exact finMid_intro t time s _ h _ rfl rfl rfl rfl rfl rfl rfl rfl (taskExists_set _ t g x _ hg hx)
  all_goals pick_hyp h => exact Census.congr _ _ (Census.log _ _ h rfl) rfl rfl rfl rfl rfl rfl rfl

theorem istr_eq_zero (n : Int) : istr n = "0" ↔ n = 0 := by
  unfold istr
  constructor
  · intro h
    cases n with
    | ofNat m =>
      have : toString (Int.ofNat m) = Nat.repr m := rfl
      rw [this] at h
      have := Nat.repr_injective (show Nat.repr m = Nat.repr 0 from h)
      simp [this]
    | negSucc m =>
      exfalso
      have : toString (Int.negSucc m) = "-" ++ Nat.repr (m + 1) := rfl
      rw [this] at h
      have h' := congrArg String.toList h
      simp at h'
  · rintro rfl; rfl

/-- The census with some rows (`pend`) and counter increments still owed. -/
structure CensusPend (pend : List Row) (dM dG dMG : Nat) (s : SimS) : Prop where
  fin : s.finishedTasks = countRows "TASK_FINISHED" (s.rows.toList ++ pend)
  finLog : s.finishedTasks = s.log.toList.countP isFinishLog
  can : s.cancelledTasks = countRows "TASK_CANCEL" (s.rows.toList ++ pend)
  mis : s.missedTaskDeadlines + dM = countRows "MISSED_DEADLINE" (s.rows.toList ++ pend)
  gra : s.finishedGraphs + dG = countRows "TASK_GRAPH_FINISHED" (s.rows.toList ++ pend)
  misG : s.missedGraphDeadlines + dMG = (s.rows.toList ++ pend).countP lateGraphRow
  misGle : s.missedGraphDeadlines + dMG ≤ countRows "MISSED_TASK_GRAPH_DEADLINE" (s.rows.toList ++ pend)
  ends : EndRowsOK (s.rows.toList ++ pend)

theorem endRows_append (rows pend : List Row) (h : EndRowsOK rows) (hp : ∀ r ∈ pend, rowKind r ≠ "SIMULATOR_END") :
    EndRowsOK (rows ++ pend) := by
  induction pend generalizing rows with
  | nil => simpa using h
  | cons r pend ih =>
    have := ih (rows ++ [r]) (endRows_push rows r h (endRowOK_of_not_end _ _ (hp r (List.mem_cons_self ..))))
      (fun x hx => hp x (List.mem_cons_of_mem _ hx))
    simpa using this

/-- The rows and increments of one finished task are exactly what the census owes. -/
theorem censusPend_finishOut (t : TaskId) (s : SimS) (x : TaskS) (g : GraphS) (ts tl : String) (time : Int)
    (h : FinMid t s) :
    CensusPend (finishOut x g ts tl time).rows (finishOut x g ts tl time).dMissedTaskDeadlines
      (finishOut x g ts tl time).dFinishedGraphs (finishOut x g ts tl time).dMissedGraphDeadlines s := by
  obtain ⟨a, b, c, d, e, f, g', i, _⟩ := h
  have hz : ∀ n : Int, (istr n != "0") = !(decide (n = 0)) := by
    intro n
    by_cases hn : n = 0
    · simp [hn, (istr_eq_zero 0).mpr rfl]
    · have : istr n ≠ "0" := fun h => hn ((istr_eq_zero n).mp h)
      simp [hn, this]
  have hc : ∀ (k : String) (r : Row) (l : List Row),
      countRows k (r :: l) = (if rowKind r == k then 1 else 0) + countRows k l := by
    intro k r l; simp [countRows, List.countP_cons]; omega
  have hn : ∀ k : String, countRows k [] = 0 := fun k => rfl
  refine ⟨?_, b, ?_, ?_, ?_, ?_, ?_, ?_⟩
  case refine_7 =>
    apply endRows_append _ _ i
    intro r hr
    by_cases h1 : time > x.deadline <;> by_cases h2 : g.isComplete = true <;> by_cases h3 : time > g.deadline <;>
      simp [finishOut, h1, h2, h3] at hr <;>
      (rcases hr with rfl | hr <;> try (rcases hr with rfl | hr) <;> try (rcases hr with rfl | hr)) <;>
      (try subst hr) <;> simp [rowKind]
  all_goals
    generalize s.rows.toList = R at *
    by_cases h1 : time > x.deadline <;> by_cases h2 : g.isComplete = true <;> by_cases h3 : time > g.deadline <;>
    simp [finishOut, h1, h2, h3, countRows_append, hc, hn, List.countP_append, List.countP_cons, rowKind, lateGraphRow, hz] <;>
    (try split) <;> omega

theorem censusPend_row (r : Row) (suf : List Row) (dM dG dMG : Nat) (s : SimS) (h : CensusPend (r :: suf) dM dG dMG s) :
    CensusPend suf dM dG dMG { s with rows := s.rows.push r } := by
  obtain ⟨a, b, c, d, e, f, g, i⟩ := h
  have : (s.rows.push r).toList ++ suf = s.rows.toList ++ r :: suf := by simp
  exact ⟨by rw [this]; exact a, b, by rw [this]; exact c, by rw [this]; exact d, by rw [this]; exact e,
    by rw [this]; exact f, by rw [this]; exact g, by rw [this]; exact i⟩

theorem census_of_pend (dM dG dMG : Nat) (s : SimS) (h : CensusPend [] dM dG dMG s) :
    Census { s with finishedGraphs := s.finishedGraphs + dG, missedGraphDeadlines := s.missedGraphDeadlines + dMG,
                    missedTaskDeadlines := s.missedTaskDeadlines + dM } := by
  obtain ⟨a, b, c, d, e, f, g, i⟩ := h
  simp only [List.append_nil] at *
  exact ⟨a, b, c, d, e, f, g, i⟩

theorem finishRows_c (t : TaskId) (time : Int) :
    ⦃fun s => ⌜FinMid t s⌝⦄ finishRows t time ⦃post⟨fun _ => CA, fun _ => CA⟩⦄ := by
  mvcgen [finishRows, getTask, getGraph, row]
  case inv1 =>
    rename_i o
    exact post⟨fun c s => ⌜CensusPend c.1.suffix o.dMissedTaskDeadlines o.dFinishedGraphs o.dMissedGraphDeadlines s⌝,
      fun _ s => ⌜Census s⌝⟩
  case vc1 =>
    rename_i h _
    exact censusPend_row _ _ _ _ _ _ h
  case vc2 =>
    rename_i h _ _ _ _ _ _ _ _ _
    exact censusPend_finishOut t _ _ _ _ _ _ h
  case vc3 =>
    rename_i h _
    exact census_of_pend _ _ _ _ h
  case vc4 => cen_close
  all_goals
    obtain ⟨g0, x0, hg0, hx0⟩ := FinMid.ex ‹FinMid t _›
    exfalso
    simp_all
    try (rename_i hn _; exact hn g0 (Eq.symm ‹_›))

attribute [local spec] finishRemove_c finishRows_c
theorem handleTaskFinished_c (ev : SEvent) : KeepsC (handleTaskFinished ev) := by
  mvcgen [handleTaskFinished]
  all_goals cen_close
attribute [local spec] handleTaskFinished_c

/-! ### a cancelled task: counter first, row second, and the row can raise -/

theorem census_cancel (s : SimS) (r : Row) (h : Census s) (hk : rowKind r = "TASK_CANCEL") :
    Census { s with cancelledTasks := s.cancelledTasks + 1, rows := s.rows.push r } := by
  obtain ⟨a, b, c, d, e, f, g, i⟩ := h
  have hl : lateGraphRow r = false := by simp [lateGraphRow, hk]
  refine ⟨?_, b, ?_, ?_, ?_, ?_, ?_, ?_⟩ <;> simp only [Array.toList_push]
  · rw [countRows_push_neutral _ _ _ (by rw [hk]; decide)]; exact a
  · rw [countRows_append, countRows_single, hk]; simp [c]
  · rw [countRows_push_neutral _ _ _ (by rw [hk]; decide)]; exact d
  · rw [countRows_push_neutral _ _ _ (by rw [hk]; decide)]; exact e
  · rw [List.countP_append, List.countP_cons, List.countP_nil, hl]; simpa using f
  · rw [countRows_push_neutral _ _ _ (by rw [hk]; decide)]; exact g
  · exact endRows_push _ _ i (endRowOK_of_not_end _ _ (by rw [hk]; decide))

theorem censusW_bump (s : SimS) (h : Census s) : CensusW { s with cancelledTasks := s.cancelledTasks + 1 } := by
  obtain ⟨a, b, c, d, e, f, g, i⟩ := h
  exact ⟨a, b, .inr (by simp [c]), d, e, f, g, i⟩

theorem handleTaskCancel_c (ev : SEvent) : KeepsCW (handleTaskCancel ev) := by
  mvcgen [handleTaskCancel, getTask, getGraph, row]
  all_goals first
    | cen_close
    | (pick_hyp h => exact census_cancel _ _ h rfl)
    | (pick_hyp h => exact censusW_bump _ h)
attribute [local spec] handleTaskCancel_c

end ErdosVerif.Model.Sim
