/-
"A task belongs to at most one placed BatchTask" (from the `…_unique_batch_placement` rows and
the shape of the batch formation), and its consequence for the merge: every member of a placed
BatchTask is returned with exactly that BatchTask's placement.
-/
import ErdosVerif.Lemmas.IlpBatchDecode
namespace ErdosVerif.IlpBatch
open ErdosVerif.Mip ErdosVerif.Ilp

theorem range_nodup (n : Nat) : (List.range n).Nodup := by
  induction n with
  | zero => simp
  | succ n ih =>
    rw [List.range_succ, List.nodup_append]
    refine ⟨ih, by simp, ?_⟩
    intro a ha b hb
    simp at hb
    have := List.mem_range.mp ha
    omega

/-- Two different members of a duplicate-free list contribute both to a sum of non-negatives. -/
theorem add_le_isum_of_mem_ne {l : List Nat} (f : Nat → Int) (hn : l.Nodup)
    (h0 : ∀ x ∈ l, 0 ≤ f x) {a b : Nat} (ha : a ∈ l) (hb : b ∈ l) (hab : a ≠ b) :
    f a + f b ≤ isum (l.map f) := by
  induction l with
  | nil => cases ha
  | cons x xs ih =>
    have hx0 := h0 x (by simp)
    have hxs0 : ∀ y ∈ xs, 0 ≤ f y := fun y hy => h0 y (by simp [hy])
    have hxs0' : ∀ v ∈ xs.map f, 0 ≤ v := by
      intro v hv; obtain ⟨y, hy, rfl⟩ := List.mem_map.mp hv; exact hxs0 y hy
    simp only [List.nodup_cons] at hn
    simp only [List.mem_cons] at ha hb
    simp only [List.map_cons, isum_cons]
    rcases ha with rfl | ha <;> rcases hb with rfl | hb
    · exact absurd rfl hab
    · have := le_isum_of_mem hxs0' (List.mem_map.mpr ⟨b, hb, rfl⟩); omega
    · have := le_isum_of_mem hxs0' (List.mem_map.mpr ⟨a, ha, rfl⟩); omega
    · have := ih hn.2 hxs0 ha hb; omega

theorem le_maxL {l : List Int} {a : Int} (h : a ∈ l) : a ≤ maxL l := by
  induction l with
  | nil => cases h
  | cons x xs ih =>
    cases xs with
    | nil => simp at h; subst h; simp [maxL]
    | cons y ys =>
      simp only [List.mem_cons] at h
      simp only [maxL]
      rcases h with rfl | h
      · omega
      · have := ih (by simpa using h); omega

theorem minL_le {l : List Int} {a : Int} (h : a ∈ l) : minL l ≤ a := by
  induction l with
  | nil => cases h
  | cons x xs ih =>
    cases xs with
    | nil => simp at h; subst h; simp [minL]
    | cons y ys =>
      simp only [List.mem_cons] at h
      simp only [minL]
      rcases h with rfl | h
      · omega
      · have := ih (by simpa using h); omega

theorem release_le_bRelease {I : BInst} {b m : Nat} (hm : m ∈ I.members b) :
    (I.task m).release ≤ I.bRelease b :=
  le_maxL (List.mem_map.mpr ⟨m, hm, rfl⟩)

theorem bDeadline_le_deadline {I : BInst} {b m : Nat} (hm : m ∈ I.members b) :
    I.bDeadline b ≤ (I.task m).deadline :=
  minL_le (List.mem_map.mpr ⟨m, hm, rfl⟩)

theorem wfShared_spec {I : BInst} (h : I.wfShared = true) {a b m : Nat} (ha : a < I.nB) (hb : b < I.nB)
    (hab : a ≠ b) (hma : m ∈ I.members a) (hmb : m ∈ I.members b) :
    (I.batch a).fresh = true ∧ (I.batch b).fresh = true := by
  simp only [BInst.wfShared, List.all_eq_true, List.mem_range] at h
  have := h a ha b hb
  simp only [Bool.or_eq_true, beq_iff_eq, Bool.not_eq_true', Bool.and_eq_true] at this
  rcases this with (h1 | h1) | h1
  · exact absurd h1 hab
  · exfalso
    have : ((I.members a).any (fun m => (I.members b).contains m)) = true := by
      simp only [List.any_eq_true]
      exact ⟨m, hma, by simpa using hmb⟩
    rw [h1] at this; cases this
  · exact h1

/-- **A task belongs to at most one placed BatchTask.** -/
theorem at_most_one_placed_batch {I : BInst} {σ : Var → Int} (h : sat σ (genB I))
    (hws : I.wfShared = true) {a b m wa wb : Nat} (ha : a < I.nB) (hb : b < I.nB) (hab : a ≠ b)
    (hm : m < I.nT) (hma : m ∈ I.members a) (hmb : m ∈ I.members b)
    (hca : I.chosen σ a = some wa) (hcb : I.chosen σ b = some wb) : False := by
  obtain ⟨hfa, hfb⟩ := wfShared_spec hws ha hb hab hma hmb
  have hina : a ∈ I.freshOf m := mem_freshOf.mpr ⟨ha, hfa, hma⟩
  have hinb : b ∈ I.freshOf m := mem_freshOf.mpr ⟨hb, hfb, hmb⟩
  have hne : I.freshOf m ≠ [] := by intro e; rw [e] at hina; cases hina
  have hrow := unique_row h hm hne
  have hnd : (I.freshOf m).Nodup := List.Nodup.sublist List.filter_sublist (range_nodup _)
  have h0 : ∀ x ∈ I.freshOf m, 0 ≤ psum I σ x := fun x hx => psum_nonneg h (mem_freshOf.mp hx).1
  have := add_le_isum_of_mem_ne (psum I σ) hnd h0 hina hinb hab
  have h1 := one_le_psum_of_chosen h ha hca
  have h2 := one_le_psum_of_chosen h hb hcb
  omega

/-- **Every member of a placed BatchTask gets the BatchTask's placement**: same BatchTask
(hence its `BatchStrategy`), same worker, same start. -/
theorem member_gets_batch_placement {I : BInst} {σ : Var → Int} (h : sat σ (genB I))
    (hws : I.wfShared = true) {b w m : Nat} (hb : b < I.nB) (hm : m < I.nT)
    (hmb : m ∈ I.members b) (hc : I.chosen σ b = some w) :
    (⟨m, some (b, w, σ (.start b))⟩ : BDecision) ∈ decodeB I σ := by
  have hbn : b ∈ I.nonRunning := mem_nonRunning.mpr ⟨hb, chosen_nonRunning hc⟩
  rw [decodeB_eq]
  apply foldl_merge_keeps _ rfl _ [] (by simp) (by intro e he; cases he)
  · intro e he ht hp
    obtain ⟨b', hb', m', hm', rfl⟩ := mem_rawPlacements.mp he
    simp only at ht
    subst ht
    cases hc' : I.chosen σ b' with
    | none => rw [hc'] at hp; cases hp
    | some w' =>
      by_cases hbb : b' = b
      · subst hbb
        rw [hc] at hc'; cases hc'
        simp [hc]
      · exact absurd (at_most_one_placed_batch h hws (mem_nonRunning.mp hb').1 hb hbb hm hm' hmb hc' hc) id
  · right
    exact mem_rawPlacements.mpr ⟨b, hbn, m, hmb, by simp [hc]⟩

end ErdosVerif.IlpBatch
