/-
C10, joint feasibility for the Z3 scheduler: in every satisfying assignment, at every instant
τ and for every resource entry of every worker, the demands (fastest compatible strategy) of
the placed offered tasks occupying the worker at τ (half-open `[start, start + remaining)`) sum
to at most the entry's *available* quantity.

Unrelated tasks that overlap on a worker must have complementary bit patterns (so there are at
most two of them and their demands add up to the available quantity); related tasks are
separated in time by the precedence rows.
-/
import ErdosVerif.Lemmas.Z3Bits
import ErdosVerif.Lemmas.Z3Chain
import ErdosVerif.Lemmas.Z3Decode
namespace ErdosVerif.Z3m

theorem mem_pairs {I : Inst} {i j : Nat} :
    (i, j) ∈ I.pairs ↔ i < j ∧ j < I.nT ∧ I.hasRes i = true ∧ I.hasRes j = true ∧ I.dependent i j = false := by
  simp only [Inst.pairs, List.mem_flatMap, List.mem_range, List.mem_map, List.mem_filter,
    Bool.and_eq_true, decide_eq_true_eq, Bool.not_eq_true', Prod.mk.injEq]
  constructor
  · rintro ⟨a, _, b, ⟨hb, ⟨⟨hab, h1⟩, h2⟩, h3⟩, rfl, rfl⟩
    exact ⟨hab, hb, h1, h2, h3⟩
  · rintro ⟨hij, hj, h1, h2, h3⟩
    exact ⟨i, by omega, j, ⟨hj, ⟨⟨hij, h1⟩, h2⟩, h3⟩, rfl, rfl⟩

theorem mem_active {I : Inst} {σ : Assign Var} {w t : Nat} {τ : Int} :
    t ∈ I.active σ w τ ↔ t < I.nT ∧ σ.b (.placed t) = true ∧ I.workerOf σ t = some w ∧
      σ.i (.start t) ≤ τ ∧ τ < σ.i (.start t) + (I.rem t : Int) := by
  simp only [Inst.active, List.mem_filter, List.mem_range, Bool.and_eq_true, decide_eq_true_eq,
    beq_iff_eq]
  constructor
  · rintro ⟨h, ⟨⟨⟨a, b⟩, c⟩, d⟩⟩; exact ⟨h, a, b, c, d⟩
  · rintro ⟨h, a, b, c, d⟩; exact ⟨h, ⟨⟨⟨a, b⟩, c⟩, d⟩⟩

/-- Two unrelated tasks occupying an instant together have the overlap constant set. -/
theorem overlap_true {I : Inst} {σ : Assign Var} (h : sat σ (gen I)) {w i j : Nat} (hw : w < I.nW)
    (hp : (i, j) ∈ I.pairs) {τ : Int}
    (hi1 : σ.i (.start i) ≤ τ) (hi2 : τ < σ.i (.start i) + (I.rem i : Int))
    (hj1 : σ.i (.start j) ≤ τ) (hj2 : τ < σ.i (.start j) + (I.rem j : Int)) :
    σ.b (.overlap i j) = true := by
  have m1 : BoolT.iff (.var (.endsBefore i j)) (.lt (I.endT i) (I.startT j)) ∈ I.cPair w (i, j) := by
    simp [Inst.cPair]
  have m2 : BoolT.iff (.var (.endsBefore j i)) (.lt (I.endT j) (I.startT i)) ∈ I.cPair w (i, j) := by
    simp [Inst.cPair]
  have m3 : BoolT.iff (.var (.overlap i j))
      (.not (.or [.var (.endsBefore i j), .var (.endsBefore j i)])) ∈ I.cPair w (i, j) := by
    simp [Inst.cPair]
  have e1 := sat_hard h (cPair_sub hw hp m1)
  have e2 := sat_hard h (cPair_sub hw hp m2)
  have e3 := sat_hard h (cPair_sub hw hp m3)
  simp only [eval_iff, eval_bvar, eval_lt, Inst.endT, Inst.startT, eval_add2, eval_ivar, eval_ilit,
    beq_iff_eq] at e1 e2
  simp only [eval_iff, eval_bvar, eval_not, eval_or, List.any_cons, List.any_nil, Bool.or_false,
    beq_iff_eq] at e3
  have f1 : σ.b (.endsBefore i j) = false := by rw [e1]; simp; omega
  have f2 : σ.b (.endsBefore j i) = false := by rw [e2]; simp; omega
  rw [e3, f1, f2]; rfl

/-- … and then, on the worker both sit on, every shared entry's low `total` bits are complementary. -/
theorem shared_compl {I : Inst} {σ : Assign Var} (h : sat σ (gen I)) {w i j : Nat} (hw : w < I.nW)
    (hp : (i, j) ∈ I.pairs) (hpi : σ.b (.placed i) = true) (hpj : σ.b (.placed j) = true)
    (hwi : I.workerOf σ i = some w) (hwj : I.workerOf σ j = some w) (hov : σ.b (.overlap i j) = true)
    {q : Nat × ResEntry} (hq : q ∈ I.shared w i j) :
    bxor ((fit (I.size q.2.name) (σ.v (.res i q.2.name))).take (q.2.total - 1 + 1))
         ((fit (I.size q.2.name) (σ.v (.res j q.2.name))).take (q.2.total - 1 + 1)) = ones q.2.total := by
  have mC : BoolT.imp (.and [I.placedT i, I.placedT j, .eqV (I.pwT i) (I.idxLit w), .eqV (I.pwT j) (I.idxLit w),
                .var (.overlap i j)])
      (.and ((I.shared w i j).map (fun q => .var (.indep w q.1 i j)))) ∈ I.cPair w (i, j) := by
    simp [Inst.cPair]
  have mX : I.cIndep w i j q ∈ I.cPair w (i, j) := by
    simp only [Inst.cPair, List.mem_append, List.mem_map]
    exact Or.inl (Or.inr ⟨q, hq, rfl⟩)
  have eC := sat_hard h (cPair_sub hw hp mC)
  have eX := sat_hard h (cPair_sub hw hp mX)
  have ki := pw_eq_idx hwi
  have kj := pw_eq_idx hwj
  simp only [eval_imp, eval_and, List.all_cons, List.all_nil, Inst.placedT, eval_bvar, hpi, hpj, ki, kj,
    hov, Bool.and_self, Bool.not_true, Bool.false_or, List.all_map, List.all_eq_true, Function.comp] at eC
  have hind := eC q hq
  simp only [Inst.cIndep, eval_iff, eval_bvar, hind, eval_eqV, eval_xor, eval_extract, Inst.resT,
    eval_vvar, eval_vlit, List.drop_zero, Nat.sub_zero] at eX
  simpa using eX.symm

theorem shared_mem {I : Inst} {w i j : Nat} {e : ResEntry} (he : e ∈ (I.worker w).res)
    (hi : e.name ∈ I.types i) (hj : e.name ∈ I.types j) : ∃ k, (k, e) ∈ I.shared w i j := by
  obtain ⟨k, hk, hke⟩ := List.mem_iff_getElem.mp he
  refine ⟨k, ?_⟩
  simp only [Inst.shared, List.mem_filter, List.mem_map, List.mem_range, Bool.and_eq_true,
    List.contains_iff_mem]
  refine ⟨⟨k, hk, ?_⟩, hi, hj⟩
  simp [List.getD_eq_getElem?_getD, hk, hke]

theorem noExtractCrash {I : Inst} (hc : I.crashExtract = false) {w : Nat} (hw : w < I.nW)
    {p : Nat × Nat} (hp : p ∈ I.pairs) {q : Nat × ResEntry} (hq : q ∈ I.shared w p.1 p.2) :
    1 ≤ q.2.total ∧ q.2.total ≤ I.size q.2.name := by
  unfold Inst.crashExtract at hc
  rw [List.any_eq_false] at hc
  have h1 := hc w (List.mem_range.mpr hw)
  rw [Bool.not_eq_true, List.any_eq_false] at h1
  have h2 := h1 p hp
  rw [Bool.not_eq_true, List.any_eq_false] at h2
  have h3 := h2 q hq
  simp only [Bool.or_eq_true, beq_iff_eq, decide_eq_true_eq, not_or] at h3
  omega

theorem worker_mem {I : Inst} {w : Nat} (hw : w < I.nW) : I.worker w ∈ I.workers := by
  unfold Inst.worker Inst.nW at *
  rw [List.getD_eq_getElem?_getD, List.getElem?_eq_getElem hw]
  exact List.getElem_mem hw

theorem avail_single {I : Inst} (hs : I.wfSingleEntry = true) {w : Nat} (hw : w < I.nW)
    {e : ResEntry} (he : e ∈ (I.worker w).res) : (I.worker w).avail e.name = e.avail := by
  unfold Inst.wfSingleEntry at hs
  rw [List.all_eq_true] at hs
  have h1 := hs _ (worker_mem hw)
  rw [List.all_eq_true] at h1
  have h2 := h1 e he
  simp only [beq_iff_eq] at h2
  have hmem : e ∈ (I.worker w).res.filter (fun e' => e'.name == e.name) := by
    simp [List.mem_filter, he]
  unfold WorkerI.avail
  obtain ⟨x, hx⟩ := List.length_eq_one_iff.mp h2
  rw [hx] at hmem ⊢
  have : e = x := by simpa using hmem
  subst this
  simp [nsum]

theorem avail_le_total {I : Inst} (ha : I.wfAvail = true) {w : Nat} (hw : w < I.nW)
    {e : ResEntry} (he : e ∈ (I.worker w).res) : e.avail ≤ e.total := by
  unfold Inst.wfAvail at ha
  rw [List.all_eq_true] at ha
  have h1 := ha _ (worker_mem hw)
  rw [List.all_eq_true] at h1
  simpa using h1 e he

/-! ### Demands -/

theorem fastest_mem : ∀ {l : List Strat} {s : Strat}, fastest l = some s → s ∈ l := by
  intro l s h
  cases l with
  | nil => simp [fastest] at h
  | cons a l =>
    simp only [fastest, Option.some.injEq] at h
    have : ∀ (l : List Strat) (b : Strat),
        l.foldl (fun best x => if x.runtime < best.runtime then x else best) b = b ∨
        l.foldl (fun best x => if x.runtime < best.runtime then x else best) b ∈ l := by
      intro l
      induction l with
      | nil => intro b; simp
      | cons x l ih =>
        intro b
        simp only [List.foldl_cons, List.mem_cons]
        rcases ih (if x.runtime < b.runtime then x else b) with h | h
        · rw [h]; split <;> simp
        · exact Or.inr (Or.inr h)
    rw [← h]
    rcases this l a with h | h
    · rw [h]; simp
    · exact List.mem_cons_of_mem _ h

/-- A resource name none of the task's strategies mentions is not demanded. -/
theorem req_zero {I : Inst} {t w : Nat} {r : String} (hr : r ∉ I.types t) : I.req t w r = 0 := by
  unfold Inst.req
  cases hf : fastest ((I.worker w).compat (I.task t)) with
  | none => rfl
  | some s =>
    have hs : s ∈ (I.task t).strats := by
      have := fastest_mem hf
      simp only [WorkerI.compat, List.mem_filter] at this
      exact this.1
    have : s.req.filter (fun p => p.1 == r) = [] := by
      rw [List.filter_eq_nil_iff]
      intro p hp hpr
      apply hr
      simp only [Inst.types, TaskI.types, List.mem_eraseDups, List.mem_flatMap, List.mem_map]
      exact ⟨s, hs, p, hp, by simpa using hpr⟩
    simp [Strat.qty, this, nsum]

theorem req_le_avail {I : Inst} {t w : Nat} (hc : I.canBePlaced t w = true) (r : String) :
    I.req t w r ≤ (I.worker w).avail r := by
  by_cases hr : r ∈ I.types t
  · unfold Inst.canBePlaced at hc
    rw [List.all_eq_true] at hc
    have := hc r hr
    simp only [Bool.and_eq_true, decide_eq_true_eq] at this
    exact this.2
  · rw [req_zero hr]; exact Nat.zero_le _

/-! ### At most two complementary tasks -/

theorem nsum_filter_zero (L : List Nat) (f : Nat → Nat) (T : Nat → Bool)
    (h0 : ∀ t ∈ L, T t = false → f t = 0) : nsum (L.map f) = nsum ((L.filter T).map f) := by
  induction L with
  | nil => rfl
  | cons a L ih =>
    have ih' := ih (fun t ht => h0 t (List.mem_cons_of_mem _ ht))
    cases hT : T a with
    | true => simp [hT, nsum, ih']
    | false => simp [hT, nsum, ih', h0 a (List.mem_cons_self) hT]

theorem nsum_le_of_pairwise {L : List Nat} (hnd : L.Nodup) (f : Nat → Nat) (T hb : Nat → Bool) (m : Nat)
    (h0 : ∀ t ∈ L, T t = false → f t = 0)
    (h1 : ∀ t ∈ L, f t ≤ m)
    (h2 : ∀ i ∈ L, ∀ j ∈ L, i ≠ j → T i = true → T j = true → f i + f j ≤ m ∧ hb i ≠ hb j) :
    nsum (L.map f) ≤ m := by
  rw [nsum_filter_zero L f T h0]
  have hnd' : (L.filter T).Nodup := hnd.filter _
  have hsub : ∀ t ∈ L.filter T, t ∈ L ∧ T t = true := fun t ht => List.mem_filter.mp ht
  match hL : L.filter T, hnd', hsub with
  | [], _, _ => simp [nsum]
  | [a], _, hs => simp [nsum]; exact h1 a (hs a (by simp)).1
  | [a, b], hn, hs =>
    have hab : a ≠ b := by simpa using hn
    have := h2 a (hs a (by simp)).1 b (hs b (by simp)).1 hab (hs a (by simp)).2 (hs b (by simp)).2
    simp [nsum]; omega
  | a :: b :: c :: _, hn, hs =>
    exfalso
    simp only [List.nodup_cons, List.mem_cons, not_or] at hn
    have hab := h2 a (hs a (by simp)).1 b (hs b (by simp)).1 hn.1.1 (hs a (by simp)).2 (hs b (by simp)).2
    have hac := h2 a (hs a (by simp)).1 c (hs c (by simp)).1 hn.1.2.1 (hs a (by simp)).2 (hs c (by simp)).2
    have hbc := h2 b (hs b (by simp)).1 c (hs c (by simp)).1 hn.2.1.1 (hs b (by simp)).2 (hs c (by simp)).2
    revert hab hac hbc
    cases hb a <;> cases hb b <;> cases hb c <;> simp

/-! ### The pair fact and the theorem -/

/-- Two distinct tasks occupying worker `w` at `τ`, both mentioning resource `e.name`: their
demands add up to at most the available quantity and their lowest resource bits differ. -/
theorem pair_fact {I : Inst} {σ : Assign Var} (h : sat σ (gen I)) (hcr : I.crashExtract = false)
    (hch : I.wfChains = true) (hse : I.wfSingleEntry = true) (hav : I.wfAvail = true)
    {w : Nat} (hw : w < I.nW) {e : ResEntry} (he : e ∈ (I.worker w).res) {τ : Int} {i j : Nat}
    (hij : i < j) (hi : i ∈ I.active σ w τ) (hj : j ∈ I.active σ w τ)
    (hti : e.name ∈ I.types i) (htj : e.name ∈ I.types j) :
    I.req i w e.name + I.req j w e.name ≤ e.avail ∧
      (fit (I.size e.name) (σ.v (.res i e.name))).headD false ≠
      (fit (I.size e.name) (σ.v (.res j e.name))).headD false := by
  obtain ⟨hi0, hpi, hwi, hi1, hi2⟩ := mem_active.mp hi
  obtain ⟨hj0, hpj, hwj, hj1, hj2⟩ := mem_active.mp hj
  -- related tasks cannot both occupy τ
  have hdep : I.dependent i j = false := by
    cases hd : I.dependent i j with
    | false => rfl
    | true =>
      exfalso
      unfold Inst.wfChains at hch
      rw [List.all_eq_true] at hch
      have h1 := hch i (List.mem_range.mpr hi0)
      rw [List.all_eq_true] at h1
      have h2 := h1 j (List.mem_range.mpr hj0)
      simp only [hd, Bool.not_true, Bool.false_or, Bool.or_eq_true, List.contains_iff_mem] at h2
      rcases h2 with h2 | h2
      · have := (linked_ordered h h2 hpj).2; omega
      · have := (linked_ordered h h2 hpi).2; omega
  have hp : (i, j) ∈ I.pairs :=
    mem_pairs.mpr ⟨hij, hj0, placed_hasRes h hi0 hpi, placed_hasRes h hj0 hpj, hdep⟩
  have hov := overlap_true h hw hp hi1 hi2 hj1 hj2
  obtain ⟨k, hk⟩ := shared_mem he hti htj
  have hx := shared_compl h hw hp hpi hpj hwi hwj hov hk
  have hq := noExtractCrash hcr hw hp hk
  simp only at hx hq
  rw [Nat.sub_add_cancel hq.1] at hx
  have hai := res_allowed h hi0 hpi hwi hti
  have haj := res_allowed h hj0 hpj hwj htj
  rw [avail_single hse hw he] at hai haj
  have := allowed_compl hai haj (fit_length _ _) (avail_le_total hav hw he) hq.2 hq.1 hx
  exact ⟨by omega, this.2⟩

theorem active_nodup (I : Inst) (σ : Assign Var) (w : Nat) (τ : Int) : (I.active σ w τ).Nodup :=
  (List.nodup_range (n := I.nT)).filter _

/-- **Joint feasibility at every instant** (model level): the demand on every resource entry of
every worker never exceeds what is available on it. -/
theorem capacity_at_instant {I : Inst} {σ : Assign Var} (h : sat σ (gen I))
    (hcr : I.crashExtract = false) (hch : I.wfChains = true) (hse : I.wfSingleEntry = true)
    (hav : I.wfAvail = true) {w : Nat} (hw : w < I.nW) {e : ResEntry} (he : e ∈ (I.worker w).res)
    (τ : Int) : I.load σ w e.name τ ≤ e.avail := by
  unfold Inst.load
  apply nsum_le_of_pairwise (active_nodup I σ w τ) (fun t => I.req t w e.name)
    (fun t => (I.types t).contains e.name)
    (fun t => (fit (I.size e.name) (σ.v (.res t e.name))).headD false)
  · intro t _ hT
    apply req_zero
    simpa [List.contains_iff_mem] using hT
  · intro t ht
    obtain ⟨ht0, hpt, hwt, _, _⟩ := mem_active.mp ht
    have := req_le_avail (placed_canBePlaced h ht0 hpt hwt) e.name
    rw [avail_single hse hw he] at this
    exact this
  · intro i hi j hj hne hTi hTj
    have hTi' : e.name ∈ I.types i := by simpa [List.contains_iff_mem] using hTi
    have hTj' : e.name ∈ I.types j := by simpa [List.contains_iff_mem] using hTj
    rcases Nat.lt_or_gt_of_ne hne with hlt | hgt
    · exact pair_fact h hcr hch hse hav hw he hlt hi hj hTi' hTj'
    · have := pair_fact h hcr hch hse hav hw he hgt hj hi hTj' hTi'
      exact ⟨by omega, fun heq => this.2 heq.symm⟩

end ErdosVerif.Z3m
